import PlumVerif.Generated.PyCode
import PlumVerif.Proofs.PyLemmas
import PlumVerif.Proofs.Schedule
import PlumVerif.Model.Schedule
import PlumVerif.Props.TieSchedule
import PlumVerif.Props.TieStructParams
import PlumVerif.Props.TieStructSensors
/-
Tie: the Lean definitions translated from the SOURCE TEXT of structures/schedules.py

  SchedulesStructure._unpack_schedule   = Sched.decodeWeek on the 42 bytes at `self._offset`            (unpack_schedule_eq)
  SchedulesStructure.decode             = Sched.decodeResponse on `message[offset:]`                    (schedules_decode_eq)
  SchedulesStructure.encode             = `[1, idx, switch, parameter] ++ Sched.encodeWeek week`         (schedules_encode_eq)
                                          = the payload of Sched.Device.commit / Req.payload             (encode_is_commit_payload)
  SCHEDULES                             = Gen.schedules                                                  (schedules_tbl)

(Generated/PyCode.lean, rewritten by tools/py2lean.py on every run; `_split_byte` / `_join_bits` are tied in Props/TieSchedule.lean)
against the codec of Model/Schedule.lean, the functions the C18 theorems `decode_encode` / `encode_decode` / `commit_payload`,
the C02 bitmap layout and the C05 schedules round trip are about.

Hypotheses, exactly.  decode / _unpack_schedule: every message, every NATURAL offset (negative offsets run in the translated
code and are not covered), every instance, every `data` that is `None` or a string-keyed dict; the instance (`_offset`) after a
successful call only.  The decoded `schedules` list is the rendering (`schedV`) of the model's entries; the
`schedule_parameters` list is stated from the raw bytes (`rawParams` / `paramsOfEntry`, with `P2.unpackParam`, the model of
`unpack_parameter` tied in TieParams): the model's `Entry` keeps the switch and the parameter VALUE only, not min / max;
`rawParams_model` shows that the (index, value) pairs of that list are exactly the model's switches and parameter values.
A message with fewer than 3 bytes from the offset on: `{"schedules": []}`, offset unchanged, no `schedule_parameters` key.
encode: `data` a string-keyed dict whose `type` is a name of the table, `switch` and `parameter` ints in 0..255 (a bool, a
`Parameter` object or text given to `int(…)` are NOT covered: the prelude declines text / objects), `schedule` a list of days,
each a list of bools, of ANY number and lengths.  Error side: a missing key or an unknown name is `FrameDataError`
(`encode_missing_type`, `encode_unknown_type`; the other error classes are validated against CPython by harness/pycode.py only).

Generic lemmas about the new translator constructs: `listComp_all` / `listComp_map` (comprehension = map, first failing element
decides), `flatten_lists` (several `for` clauses), `chunks_idx` + `rangeStep_nat` + `comp_chunks(_g)`
(`[G(l[i:i+n]) for i in range(0, len(l), n)]` = `(chunks n l).map g`), `bytearray_bytes`, `sched_fold` (the loop with two
own lists and the instance as state), `seqIndexFrom_str` (`tuple.index`).
-/
namespace PlumVerif.TieStructSchedules
open PlumVerif.Py PlumVerif.TieParams PlumVerif.TieStructParams PlumVerif.TieStructSensors PlumVerif.Sched
set_option linter.unusedSimpArgs false
set_option linter.unusedVariables false

/-! ### comprehensions -/

theorem listComp_fold (f : V → PyM (Option V)) (g : V → V) (p : V → Bool) (e : PyErr) (xs : List V)
    (hok : ∀ x ∈ xs, p x = true → f x = .ok (some (g x))) (herr : ∀ x ∈ xs, p x = false → f x = .error e) (acc : List V) :
    xs.foldlM (fun (acc : List V) x => do
        match ← f x with
        | some y => pure (y :: acc)
        | Option.none => pure acc) acc
      = if xs.all p then .ok ((xs.map g).reverse ++ acc) else .error e := by
  induction xs generalizing acc with
  | nil => simp
  | cons x xs ih =>
    have ih' := ih (fun y hy => hok y (List.mem_cons_of_mem _ hy)) (fun y hy => herr y (List.mem_cons_of_mem _ hy))
    cases hp : p x
    · rw [List.foldlM_cons, herr x (List.mem_cons_self) hp, bind_err]
      simp [hp]
    · rw [List.foldlM_cons, hok x (List.mem_cons_self) hp]
      simp only [bind_ok, pure_bind]
      rw [ih']
      simp [hp]

/-- `[g(x) for x in xs]` when the element expression succeeds exactly on the elements satisfying `p` and raises `e`
on the others: the first failing element decides -/
theorem listComp_all (f : V → PyM (Option V)) (g : V → V) (p : V → Bool) (e : PyErr) (xs : List V)
    (hok : ∀ x ∈ xs, p x = true → f x = .ok (some (g x))) (herr : ∀ x ∈ xs, p x = false → f x = .error e) :
    Py.listComp (.list xs) f = if xs.all p then .ok (.list (xs.map g)) else .error e := by
  unfold Py.listComp
  simp only [Py.iter, pure_bind]
  erw [listComp_fold f g p e xs hok herr]
  by_cases h : xs.all p
  · rw [if_pos h, if_pos h, bind_ok]; simp
  · rw [if_neg h, if_neg h, bind_err]

theorem listComp_map (f : V → PyM (Option V)) (g : V → V) (xs : List V) (hok : ∀ x ∈ xs, f x = .ok (some (g x))) :
    Py.listComp (.list xs) f = .ok (.list (xs.map g)) := by
  have := listComp_all f g (fun _ => true) PyErr.unsupported xs (fun x hx _ => hok x hx) (fun x hx h => by simp at h)
  simpa using this

theorem flatten_fold (xss : List (List V)) (acc : List V) :
    (xss.map V.list).foldlM (fun (acc : List V) xs => match xs with
      | .list ys => (pure (acc ++ ys) : PyM (List V))
      | _ => throw PyErr.unsupported) acc = .ok (acc ++ xss.flatten) := by
  induction xss generalizing acc with
  | nil => simp
  | cons x xs ih =>
    rw [List.map_cons, List.foldlM_cons]
    show ((pure (acc ++ x) : PyM (List V)) >>= _) = _
    rw [pure_bind, ih]; simp [List.append_assoc]

theorem flatten_lists (xss : List (List V)) : Py.flatten (.list (xss.map V.list)) = .ok (.list xss.flatten) := by
  unfold Py.flatten
  dsimp only
  erw [flatten_fold]
  simp [bind_ok]

/-! ### `range(0, len, n)` and `[l[i : i + n] for i in range(0, len(l), n)]` -/

def chunkIdx (n len : Nat) : List Nat := (List.range ((len + n - 1) / n)).map (· * n)

theorem chunkIdx_zero (n : Nat) (hn : 0 < n) : chunkIdx n 0 = [] := by
  unfold chunkIdx
  have : (0 + n - 1) / n = 0 := Nat.div_eq_of_lt (by omega)
  rw [this]; rfl

theorem chunkIdx_pos (n len : Nat) (hn : 0 < n) (hl : 0 < len) :
    chunkIdx n len = 0 :: (chunkIdx n (len - n)).map (· + n) := by
  unfold chunkIdx
  have hc : (len + n - 1) / n = (len - n + n - 1) / n + 1 := by
    by_cases h : n ≤ len
    · have : len + n - 1 = (len - n + n - 1) + n := by omega
      rw [this, Nat.add_div_right _ hn]
    · have h1 : len - n = 0 := by omega
      have h2 : (0 + n - 1) / n = 0 := Nat.div_eq_of_lt (by omega)
      have h3 : (len + n - 1) / n = 1 := by
        have : len + n - 1 = (len - 1) + n := by omega
        rw [this, Nat.add_div_right _ hn, Nat.div_eq_of_lt (by omega)]
      rw [h1, h2, h3]
  rw [hc, List.range_succ_eq_map]
  simp [List.map_map, Function.comp_def, Nat.succ_mul]

theorem chunks_idx {α : Type} (n : Nat) (hn : 0 < n) (l : List α) :
    chunks n l = (chunkIdx n l.length).map fun i => (l.drop i).take n := by
  generalize hlen : l.length = len
  induction len using Nat.strongRecOn generalizing l with
  | _ len ih =>
    by_cases hl : l = []
    · subst hl; simp at hlen; subst hlen; simp [chunks_nil, chunkIdx_zero n hn]
    · have hpos : 0 < len := by rw [← hlen]; exact List.length_pos_iff.mpr hl
      have hc : ¬ (n = 0 ∨ l = []) := by
        intro h; rcases h with h | h
        · omega
        · exact hl h
      rw [chunks, dif_neg hc, chunkIdx_pos n len hn hpos]
      have := ih (len - n) (by omega) (l.drop n) (by simp [hlen])
      rw [this]
      simp [List.map_map, Function.comp_def, List.drop_drop, Nat.add_comm]

theorem rangeStep_nat (len n : Nat) (hn : 0 < n) :
    Py.rangeStep (.int 0) (.int (len : Int)) (.int (n : Int)) = .ok (.list ((chunkIdx n len).map fun (i : Nat) => V.int (i : Int))) := by
  have h0 : ¬ (n : Int) = 0 := by omega
  have h1 : ¬ (n : Int) < 0 := by omega
  have h2 : (((len : Int) - 0 + (n : Int) - 1).fdiv (n : Int)).toNat = (len + n - 1) / n := by
    rw [Int.fdiv_eq_ediv_of_nonneg _ (by omega)]
    have : (len : Int) - 0 + (n : Int) - 1 = ((len + n - 1 : Nat) : Int) := by omega
    rw [this]
    exact_mod_cast Int.toNat_natCast _
  simp only [Py.rangeStep, h0, h1, if_false, h2, pure_eq_ok, chunkIdx, List.map_map]
  congr 2
  apply List.map_congr_left
  intro k _
  simp

theorem slice_list_nat (xs : List V) (a n : Nat) :
    Py.slice (.list xs) (.int (a : Int)) (.int ((a + n : Nat) : Int)) = .ok (.list ((xs.drop a).take n)) := by
  have e : (xs.take (min (a + n) xs.length)).drop (min a xs.length) = (xs.drop a).take n := by
    apply List.ext_getElem?
    intro i
    simp only [List.getElem?_drop, List.getElem?_take]
    by_cases h1 : i < n
    · by_cases h2 : a ≤ xs.length
      · have : min a xs.length = a := by omega
        rw [this]
        by_cases h3 : a + i < min (a + n) xs.length
        · simp [h1, h3]
        · have : xs.length ≤ a + i := by omega
          simp [h1, h3, List.getElem?_eq_none this]
      · have h4 : ¬ (min a xs.length + i < min (a + n) xs.length) := by omega
        have : xs.length ≤ a + i := by omega
        simp [h1, h4, List.getElem?_eq_none this]
    · have h4 : ¬ (min a xs.length + i < min (a + n) xs.length) := by omega
      simp [h1, h4]
  have nn : (0 : Int) ≤ (a : Int) + (n : Int) := by omega
  have t : ((a : Int) + (n : Int)).toNat = a + n := by omega
  simp [Py.slice, Py.bound, asInt?, sliceList, e, nn, t]

theorem chunks_map {α β : Type} (n : Nat) (hn : 0 < n) (f : α → β) (l : List α) :
    chunks n (l.map f) = (chunks n l).map (List.map f) := by
  rw [chunks_idx n hn, chunks_idx n hn]
  simp [List.map_map, Function.comp_def, List.map_drop, List.map_take]

/-- `[l[i : i + n] for i in range(0, len(l), n)]` is the model's `chunks n l` (in continuation form) -/
theorem comp_chunks {α : Type} (n : Nat) (hn : 0 < n) (l : List V) (f : V → PyM (Option V)) (K : V → PyM α)
    (hf : ∀ i : Nat, f (.int (i : Int)) = (do let t ← Py.add (.int (i : Int)) (.int (n : Int)); let u ← Py.slice (.list l) (.int (i : Int)) t; pure (some u))) :
    (do let t10 ← Py.len (.list l)
        let t11 ← Py.rangeStep (.int 0) t10 (.int (n : Int))
        let t14 ← Py.listComp t11 f
        K t14) = K (.list ((chunks n l).map V.list)) := by
  simp only [Py.len, pure_eq_ok, bind_ok, rangeStep_nat _ _ hn]
  rw [listComp_map f (fun v => match v with | .int i => .list ((l.drop i.toNat).take n) | _ => .none)]
  · rw [chunks_idx n hn, bind_ok]
    simp [List.map_map, Function.comp_def]
  · intro x hx
    obtain ⟨i, _, rfl⟩ := List.mem_map.mp hx
    rw [hf, add_int', ← Int.natCast_add, bind_ok, slice_list_nat, bind_ok]
    simp

/-! ### `_unpack_schedule` -/

/-- a week as a Python value: a list of days, a day a list of bools -/
def weekV (w : List (List Bool)) : V := .list (w.map fun d => V.list (d.map V.bool))

/-- the 42 bytes `message[offset] … message[offset + 41]` -/
def window (msg : List UInt8) (off : Nat) : List UInt8 := (List.range 42).map fun k => msg.getD (off + k) 0

theorem window_eq (msg : List UInt8) (off : Nat) (h : off + 42 ≤ msg.length) : window msg off = (msg.drop off).take 42 := by
  apply List.ext_getElem?
  intro i
  unfold window
  by_cases hi : i < 42
  · have : off + i < msg.length := by omega
    simp [hi, List.getElem?_take, List.getElem?_drop, List.getD_eq_getElem?_getD, List.getElem?_eq_getElem this]
  · simp [hi, List.getElem?_take]

theorem rangeV_int (a n : Nat) : rangeV a n = (List.range n).map fun (k : Nat) => V.int ((a + k : Nat) : Int) := by
  unfold rangeV
  apply List.map_congr_left
  intro k _
  simp

theorem toNat_cast (a b : Nat) : ((a : Int) + (b : Int)).toNat = a + b := by omega

theorem c42 : PyCode.c_SCHEDULE_SIZE = .int ((42 : Nat) : Int) := rfl
theorem c48 : (V.int 48) = .int ((48 : Nat) : Int) := rfl

theorem listComp_id (ys : List V) : Py.listComp (.list ys) (fun v_bit => (do pure (some v_bit) : PyM (Option V))) = .ok (.list ys) := by
  have := listComp_map (fun v_bit => (do pure (some v_bit) : PyM (Option V))) id ys (fun x _ => rfl)
  simpa using this

/-- the bits of the 42-byte window, as the code builds them: eight per byte, most significant first -/
theorem bits_comp (msg : List UInt8) (off : Nat) :
    (do let t7 ← Py.listComp (.list (rangeV off 42)) (fun v_i => (do
            let t4 ← Py.index (.bytes msg) v_i
            let t5 ← PyCode.split_byte t4
            let t6 ← Py.listComp t5 (fun v_bit => (do pure (some v_bit) : PyM (Option V)))
            pure (some t6) : PyM (Option V)))
        Py.flatten t7)
      = if off + 42 ≤ msg.length then .ok (.list (((window msg off).flatMap splitByte).map V.bool)) else .error .IndexError := by
  rw [rangeV_int]
  rw [listComp_all _ (fun v => match v with
        | .int i => V.list ((splitByte (msg.getD i.toNat 0)).map V.bool)
        | _ => V.none)
      (fun v => match v with
        | .int i => decide (i.toNat < msg.length)
        | _ => false) PyErr.IndexError]
  · by_cases h : off + 42 ≤ msg.length
    · have hall : ((List.range 42).map fun (k : Nat) => V.int ((off + k : Nat) : Int)).all (fun v => match v with
          | .int i => decide (i.toNat < msg.length)
          | _ => false) = true := by
        simp only [List.all_map, List.all_eq_true, List.mem_range, Function.comp_def]
        intro k hk
        simp; omega
      rw [if_pos hall, if_pos h, bind_ok]
      have : ((List.range 42).map fun (k : Nat) => V.int ((off + k : Nat) : Int)).map (fun v => match v with
            | .int i => V.list ((splitByte (msg.getD i.toNat 0)).map V.bool)
            | _ => V.none)
          = ((window msg off).map fun b => (splitByte b).map V.bool).map V.list := by
        simp [window, List.map_map, Function.comp_def, toNat_cast]
      rw [this, flatten_lists]
      simp [List.flatMap, List.map_flatten, List.map_map, Function.comp_def]
    · have hall : ¬ ((List.range 42).map fun (k : Nat) => V.int ((off + k : Nat) : Int)).all (fun v => match v with
          | .int i => decide (i.toNat < msg.length)
          | _ => false) = true := by
        simp only [List.all_map, List.all_eq_true, List.mem_range, Function.comp_def]
        intro hcon
        have := hcon 41 (by omega)
        simp [toNat_cast] at this
        omega
      rw [if_neg hall, if_neg h, bind_err]
  · intro x hx hp
    obtain ⟨k, _, rfl⟩ := List.mem_map.mp hx
    have hk : off + k < msg.length := by simpa [toNat_cast] using hp
    simp only [index_bytes_nat, List.getElem?_eq_getElem hk, bind_ok, TieSchedule.split_byte_eq, listComp_id]
    simp [List.getD_eq_getElem?_getD, List.getElem?_eq_getElem hk, toNat_cast]
  · intro x hx hp
    obtain ⟨k, _, rfl⟩ := List.mem_map.mp hx
    have hk : msg.length ≤ off + k := by simpa [toNat_cast] using hp
    simp only [index_bytes_nat, List.getElem?_eq_none hk, bind_err]

/-- **`_unpack_schedule`**: the 42 bytes at `self._offset` as 7 days of 48 half-hour slots (`Sched.decodeWeek`), `_offset`
advanced by 42; IndexError when fewer than 42 bytes are left -/
theorem unpack_schedule_eq (c : String) (ks : List String) (vs : List V) (msg : List UInt8) (off : Nat) :
    PyCode.SchedulesStructure_unpack_schedule (withOff c ks vs off) (.bytes msg)
      = if off + 42 ≤ msg.length then .ok (weekV (decodeWeek ((msg.drop off).take 42)), withOff c ks vs (off + 42))
        else .error .IndexError := by
  unfold PyCode.SchedulesStructure_unpack_schedule
  simp only [getattr_withOff, bind_ok, c42, add_int', ← Int.natCast_add, range_nat, Nat.add_sub_cancel_left]
  have hb := bits_comp msg off
  rw [← bind_assoc, hb]
  by_cases h : off + 42 ≤ msg.length
  · rw [if_pos h, if_pos h, bind_ok, setattr_withOff, bind_ok]
    rw [c48, comp_chunks 48 (by omega) _ _ _ (fun i => rfl)]
    rw [window_eq msg off h, chunks_map 48 (by omega)]
    simp [weekV, decodeWeek, slotsPerDay, List.map_map, Function.comp_def]
  · rw [if_neg h, if_neg h, bind_err]

/-! ### `decode` -/

/-- one schedule as the code lists it: `(index, week)` -/
def schedV (e : Entry) : V := .tuple [.int (e.idx : Int), weekV e.table]

/-- the parameters the code lists for one entry: the switch as `(2·index, ParameterValues(switch, 0, 1))`, and, unless the
triple is undefined (FF FF FF), `(2·index + 1, ParameterValues(value, min, max))` -/
def paramsOfEntry (idx sw pv pmin pmax : UInt8) : List V :=
  [.tuple [.int ((idx.toNat * 2 : Nat) : Int), tripleV (sw.toNat, 0, 1)]] ++
    (match P2.unpackParam 1 [pv, pmin, pmax] with
     | some t => [.tuple [.int ((idx.toNat * 2 + 1 : Nat) : Int), tripleV t]]
     | none => [])

/-- the `schedule_parameters` list of `n` entries laid out from `s` on (47 bytes each) -/
def rawParams : Nat → List UInt8 → List V
  | 0, _ => []
  | n + 1, idx :: sw :: pv :: pmin :: pmax :: r => paramsOfEntry idx sw pv pmin pmax ++ rawParams n (r.drop 42)
  | _ + 1, _ => []

theorem sched_fold (c : String) (ks : List String) (vs : List V) (msg : List UInt8)
    (body : V → V × V × V → PyM (V × V × V))
    (hstep : ∀ (x : V) (off : Nat) (accS accP : List V), body x (.list accS, .list accP, withOff c ks vs off) =
      match msg.drop off with
      | idx :: sw :: pv :: pmin :: pmax :: r =>
        if r.length < 42 then .error .IndexError
        else .ok (.list (accS ++ [.tuple [.int (idx.toNat : Int), weekV (decodeWeek (r.take 42))]]),
                  .list (accP ++ paramsOfEntry idx sw pv pmin pmax), withOff c ks vs (off + 47))
      | _ => .error .IndexError)
    (xs : List V) (off : Nat) (accS accP : List V) :
    List.foldlM (fun s x => body x s) (V.list accS, V.list accP, withOff c ks vs off) xs
      = match decodeEntries xs.length (msg.drop off) with
        | none => .error .IndexError
        | some es => .ok (.list (accS ++ es.map schedV), .list (accP ++ rawParams xs.length (msg.drop off)),
            withOff c ks vs (off + 47 * xs.length)) := by
  induction xs generalizing off accS accP with
  | nil => simp [decodeEntries, rawParams]
  | cons x xs ih =>
    rw [List.foldlM_cons, hstep]
    have g42 : Gen.scheduleSize = 42 := rfl
    simp only [List.length_cons, decodeEntries, g42]
    generalize hm : msg.drop off = d
    match d, hm with
    | idx :: sw :: pv :: pmin :: pmax :: r, hm =>
      by_cases hl : r.length < 42
      · simp [hl, bind_err]
      · have hd : msg.drop (off + 47) = r.drop 42 := by
          have : msg.drop (off + 47) = (msg.drop off).drop 47 := by rw [List.drop_drop]
          rw [this, hm]; rfl
        simp only [hl, if_false, bind_ok, ih, hd]
        cases decodeEntries xs.length (r.drop 42) with
        | none => rfl
        | some es =>
          have e1 : off + 47 + 47 * xs.length = off + 47 * (xs.length + 1) := by omega
          simp [schedV, rawParams, e1, List.append_assoc]
    | [], _ => simp [bind_err]
    | [_], _ => simp [bind_err]
    | [_, _], _ => simp [bind_err]
    | [_, _, _], _ => simp [bind_err]
    | [_, _, _, _], _ => simp [bind_err]

theorem tryExcept_ok {α : Type} (a : α) (cs : List Catch) (h : PyM α) : Py.tryExcept (.ok a) cs h = .ok a := rfl
theorem tryExcept_index {α : Type} (h : PyM α) :
    Py.tryExcept (.error .IndexError) [Catch.cls PyErr.IndexError] h = h := rfl

theorem ensure_dict_eq1 (data : V) (h : dataOk data) (ks : List String) (vs : List V) :
    PyCode.ensure_dict data (.tuple [.dict ks vs]) = .ok (merge1 data ks vs) := ensure_dict_eq data h ks vs


theorem list_append_list (l : List V) (v : V) : Py.list_append (.list l) v = .ok (.list (l ++ [v])) := rfl
theorem mul_two (a : Nat) : Py.mul (.int (a : Int)) (.int 2) = .ok (.int ((a * 2 : Nat) : Int)) := mul_nat a 2
theorem truthy_isNotNone_slotV (s : Option P2.Triple) : Py.truthy (Py.isNotNone (slotV s)) = .ok s.isSome := by
  cases s <;> rfl
theorem unpackParam_three (a b c : UInt8) (r : List UInt8) : P2.unpackParam 1 (a :: b :: c :: r) = P2.unpackParam 1 [a, b, c] := by
  simp [P2.unpackParam]
theorem cast_add_5 (a : Nat) : (a : Int) + 5 = ((a + 5 : Nat) : Int) := by simp

/-- **`SchedulesStructure.decode(message, offset, data)`** on ANY instance: a message with fewer than three bytes from
`offset` on decodes to "no schedules" (offset unchanged, no `schedule_parameters` key); otherwise byte `offset + 2` is the
number of entries and the result is the model's `Sched.decodeResponse (message[offset:])` — `(index, week)` per entry, the
parameter list `rawParams`, the returned offset `offset + 3 + 47·count`, IndexError when the model fails -/
theorem schedules_decode_eq (c : String) (ks : List String) (vs : List V) (msg : List UInt8) (off : Nat) (data : V)
    (hd : dataOk data) :
    PyCode.SchedulesStructure_decode (.obj c ks vs) (.bytes msg) (.int (off : Int)) data
      = if msg.length < off + 3 then .ok (.tuple [merge1 data ["schedules"] [.list []], .int (off : Int)], .obj c ks vs)
        else match decodeResponse (msg.drop off) with
          | none => .error .IndexError
          | some es =>
            let n := (msg.getD (off + 2) 0).toNat
            .ok (.tuple [merge1 data ["schedules", "schedule_parameters"]
                    [.list (es.map schedV), .list (rawParams n (msg.drop (off + 3)))], .int ((off + 3 + 47 * n : Nat) : Int)],
                 withOff c ks vs (off + 3 + 47 * n)) := by
  unfold PyCode.SchedulesStructure_decode
  simp only [add_int', cast_add_one, cast_add_2, cast_add_3, bind_ok, index_bytes_nat]
  by_cases hl : msg.length < off + 3
  · rw [if_pos hl]
    have h2 : msg[off + 2]? = none := List.getElem?_eq_none (by omega)
    cases h1 : msg[off + 1]? with
    | none => simp only [bind_err, tryExcept_index, ensure_dict_eq1 _ hd, bind_ok]; rfl
    | some b => simp only [h2, bind_ok, bind_err, tryExcept_index, ensure_dict_eq1 _ hd]; rfl
  · rw [if_neg hl]
    have h1 : msg[off + 1]? = some (msg[off + 1]'(by omega)) := List.getElem?_eq_getElem (by omega)
    have h2 : msg[off + 2]? = some (msg[off + 2]'(by omega)) := List.getElem?_eq_getElem (by omega)
    simp only [h1, h2, bind_ok, tryExcept_ok, setattr_obj, byteV_nat, ← Int.natCast_add, range_nat, Nat.add_sub_cancel_left, forLoop_list]
    simp only [pure_eq_ok, tryExcept_ok, bind_ok, add_int', ← Int.natCast_add, range_nat, Nat.add_sub_cancel_left, forLoop_list]
    rw [sched_fold c ks vs msg]
    · have hlen : (rangeV msg[off + 1].toNat msg[off + 2].toNat).length = msg[off + 2].toNat := by simp [rangeV]
      have hd3 : msg.drop off = msg[off]'(by omega) :: msg[off + 1]'(by omega) :: msg[off + 2]'(by omega) :: msg.drop (off + 3) := by
        rw [List.drop_eq_getElem_cons (by omega), List.drop_eq_getElem_cons (by omega), List.drop_eq_getElem_cons (by omega)]
      have hg : (msg.getD (off + 2) 0) = msg[off + 2]'(by omega) := by
        simp [List.getD_eq_getElem?_getD, h2]
      rw [hlen, hd3, hg]
      simp only [decodeResponse]
      cases decodeEntries msg[off + 2].toNat (msg.drop (off + 3)) with
      | none => rfl
      | some es => simp only [bind_ok, List.nil_append, ensure_dict_eq1 _ hd, getattr_withOff]
    · intro x o accS accP
      simp only [getattr_withOff, bind_ok, index_bytes_nat, add_int', cast_add_one, cast_add_2, cast_add_5, unpack_eq1, setattr_withOff,
        unpack_schedule_eq]
      have h0 : msg[o]? = (msg.drop o)[0]? := by simp
      have hl' : (msg.drop o).length = msg.length - o := List.length_drop
      rw [h0, getElem?_off msg o 1]
      have hd2 : msg.drop (o + 2) = (msg.drop o).drop 2 := by rw [List.drop_drop]
      have hd5 : msg.drop (o + 5) = (msg.drop o).drop 5 := by rw [List.drop_drop]
      rw [hd2, hd5]
      generalize hm : msg.drop o = d at hl'
      match d, hl' with
      | [], _ => simp [bind_err]
      | [_], _ => simp [bind_err]
      | [_, _], hl' =>
        have : ¬ o + 5 + 42 ≤ msg.length := by simp at hl'; omega
        simp [bind_ok, bind_err, this]
      | [_, _, _], hl' =>
        have : ¬ o + 5 + 42 ≤ msg.length := by simp at hl'; omega
        simp [bind_ok, bind_err, this]
      | [_, _, _, _], hl' =>
        have : ¬ o + 5 + 42 ≤ msg.length := by simp at hl'; omega
        simp [bind_ok, bind_err, this]
      | idx :: sw :: pv :: pmin :: pmax :: r, hl' =>
        have hlen : msg.length = o + 5 + r.length := by simp at hl'; omega
        simp only [List.getElem?_cons_zero, List.getElem?_cons_succ, bind_ok, List.drop_succ_cons, List.drop_zero, unpackParam_three]
        by_cases hr : r.length < 42
        · have : ¬ o + 5 + 42 ≤ msg.length := by omega
          simp [this, hr, bind_err]
        · have : o + 5 + 42 ≤ msg.length := by omega
          simp only [this, hr, if_true, if_false, bind_ok, byteV_nat, list_append_list, mul_two, truthy_isNotNone_slotV]
          cases hu : P2.unpackParam 1 [pv, pmin, pmax] with
          | none => simp [paramsOfEntry, hu, tripleV, Py.mkobj]
          | some t => simp [paramsOfEntry, hu, tripleV, Py.mkobj, bind_ok, add_int', cast_add_one, list_append_list, slotV]

/-! ### `encode` -/

theorem chunkIdx_lt (n len i : Nat) (hn : 0 < n) (h : i ∈ chunkIdx n len) : i < len := by
  unfold chunkIdx at h
  obtain ⟨k, hk, rfl⟩ := List.mem_map.mp h
  have hk' : k + 1 ≤ (len + n - 1) / n := by have := List.mem_range.mp hk; omega
  have := (Nat.le_div_iff_mul_le hn).mp hk'
  have e : (k + 1) * n = k * n + n := Nat.succ_mul k n
  omega

/-- `[G(l[i : i + n]) for i in range(0, len(l), n)]` over the model's `chunks n l` (continuation form) -/
theorem comp_chunks_g {α : Type} (n : Nat) (hn : 0 < n) (l : List V) (f : V → PyM (Option V)) (G : V → PyM (Option V))
    (g : List V → V) (K : V → PyM α)
    (hf : ∀ i : Nat, f (.int (i : Int)) = (do let t ← Py.add (.int (i : Int)) (.int (n : Int)); let u ← Py.slice (.list l) (.int (i : Int)) t; G u))
    (hG : ∀ i : Nat, i < l.length → G (.list ((l.drop i).take n)) = .ok (some (g ((l.drop i).take n)))) :
    (do let t10 ← Py.len (.list l)
        let t11 ← Py.rangeStep (.int 0) t10 (.int (n : Int))
        let t14 ← Py.listComp t11 f
        K t14) = K (.list ((chunks n l).map g)) := by
  simp only [Py.len, pure_eq_ok, bind_ok, rangeStep_nat _ _ hn]
  rw [listComp_map f (fun v => match v with | .int i => g ((l.drop i.toNat).take n) | _ => .none)]
  · rw [chunks_idx n hn, bind_ok]
    simp [List.map_map, Function.comp_def]
  · intro x hx
    obtain ⟨i, hi, rfl⟩ := List.mem_map.mp hx
    rw [hf, add_int', ← Int.natCast_add, bind_ok, slice_list_nat, bind_ok, hG i (chunkIdx_lt n _ i hn hi)]
    simp

theorem byteItem_of_asInt (v : V) (n : Nat) (h : asInt? v = some (n : Int)) (hn : n < 256) :
    Py.byteItem v = .ok (byteV n.toUInt8) := by
  have h0 : (0 : Int) ≤ (n : Int) ∧ (n : Int) < 256 := by omega
  cases v <;> simp [asInt?] at h
  · subst h; simp [Py.byteItem, Py.byteOfV, asInt?, h0, bind_ok]
  · rename_i b
    simp [Py.byteItem, Py.byteOfV, asInt?, h, h0, bind_ok]

/-- one byte of the bitmap: eight (or fewer, at the end of a day whose length is no multiple of 8) slots joined -/
theorem join_item (bits : List Bool) (h : bits ≠ []) (hl : bits.length ≤ 8) :
    (do let t19 ← PyCode.join_bits (.list (bits.map V.bool)); let t20 ← Py.byteItem t19; pure (some t20) : PyM (Option V))
      = .ok (some (byteV (joinBits bits).toUInt8)) := by
  obtain ⟨v, hv, ha⟩ := TieSchedule.join_bits_eq bits h
  have hlt : joinBits bits < 256 := by
    have := TieSchedule.joinBits_lt bits
    have : 2 ^ bits.length ≤ 2 ^ 8 := Nat.pow_le_pow_right (by omega) hl
    omega
  rw [hv, bind_ok, byteItem_of_asInt v _ ha hlt, bind_ok]
  rfl

def vbool : V → Bool
  | .bool b => b
  | _ => false

theorem map_vbool (bs : List Bool) : (bs.map V.bool).map vbool = bs := by
  induction bs with
  | nil => rfl
  | cons b bs ih => simp [vbool, ih]

@[simp] theorem map_vbool' (a : List Bool) : List.map (fun x => vbool (V.bool x)) a = a := by simp [vbool]
@[simp] theorem map_vbool'' (a : List Bool) : List.map (vbool ∘ V.bool) a = a := map_vbool' a

theorem c8 : (V.int 8) = .int ((8 : Nat) : Int) := rfl

/-- the bytes of one day, as the inner clause of the generator expression produces them -/
theorem day_comp (d : List Bool) :
    (do let t15 ← Py.len (.list (d.map V.bool))
        let t16 ← Py.rangeStep (.int 0) t15 (.int 8)
        let t21 ← Py.listComp t16 (fun v_i => (do
            let t17 ← Py.add v_i (.int 8)
            let t18 ← Py.slice (.list (d.map V.bool)) v_i t17
            let t19 ← PyCode.join_bits t18
            let t20 ← Py.byteItem t19
            pure (some t20) : PyM (Option V)))
        pure (some t21) : PyM (Option V))
      = .ok (some (.list ((encodeDay d).map byteV))) := by
  rw [c8, comp_chunks_g 8 (by omega) (d.map V.bool) _
    (fun u => (do let t19 ← PyCode.join_bits u; let t20 ← Py.byteItem t19; pure (some t20) : PyM (Option V)))
    (fun c => byteV (joinBits (c.map vbool)).toUInt8) _ (fun i => rfl)]
  · rw [chunks_map 8 (by omega)]
    simp [encodeDay, List.map_map, Function.comp_def, map_vbool]
  · intro i hi
    have hi' : i < d.length := by simpa using hi
    rw [← List.map_drop, ← List.map_take, map_vbool]
    apply join_item
    · intro h
      have : ((d.drop i).take 8).length = 0 := by rw [h]; rfl
      simp at this
      omega
    · simp; omega

theorem bytearray_fold (bs : List UInt8) (acc : List UInt8) :
    (bs.map byteV).foldlM (fun (acc : List UInt8) x => do pure ((← Py.byteOfV x) :: acc)) acc = (.ok (bs.reverse ++ acc) : PyM (List UInt8)) := by
  induction bs generalizing acc with
  | nil => rfl
  | cons b bs ih =>
    have hb : Py.byteOfV (byteV b) = .ok b := by
      have h1 : (0 : Int) ≤ (b.toNat : Int) ∧ (b.toNat : Int) < 256 := by have := b.toNat_lt; omega
      simp [Py.byteOfV, byteV, asInt?, h1]
    rw [List.map_cons, List.foldlM_cons, hb]
    simp only [bind_ok, pure_bind]
    rw [ih]; simp

theorem bytearray_bytes (bs : List UInt8) : Py.bytearray (.list (bs.map byteV)) = .ok (.bytes bs) := by
  unfold Py.bytearray
  dsimp only
  erw [bytearray_fold]
  simp [bind_ok]

/-- the bitmap part: every day in order, eight slots a byte (`Sched.encodeWeek`), for days of ANY length -/
theorem week_comp (w : List (List Bool)) :
    (do let t22 ← Py.listComp (weekV w) (fun v_day => (do
            let t15 ← Py.len v_day
            let t16 ← Py.rangeStep (.int 0) t15 (.int 8)
            let t21 ← Py.listComp t16 (fun v_i => (do
                let t17 ← Py.add v_i (.int 8)
                let t18 ← Py.slice v_day v_i t17
                let t19 ← PyCode.join_bits t18
                let t20 ← Py.byteItem t19
                pure (some t20) : PyM (Option V)))
            pure (some t21) : PyM (Option V)))
        let t23 ← Py.flatten t22
        Py.bytearray t23) = .ok (.bytes (encodeWeek w)) := by
  unfold weekV
  rw [listComp_map _ (fun v => match v with | .list bs => .list ((encodeDay (bs.map vbool)).map byteV) | _ => .none)]
  · rw [bind_ok]
    have : (w.map fun d => V.list (d.map V.bool)).map (fun v => match v with
        | .list bs => V.list ((encodeDay (bs.map vbool)).map byteV) | _ => V.none)
        = (w.map fun d => (encodeDay d).map byteV).map V.list := by
      simp [List.map_map, Function.comp_def, map_vbool]
    rw [this, flatten_lists, bind_ok]
    have e : (w.map fun d => (encodeDay d).map byteV).flatten = (encodeWeek w).map byteV := by
      simp [encodeWeek, List.flatMap, List.map_flatten, List.map_map, Function.comp_def]
    rw [e, bytearray_bytes]
  · intro x hx
    obtain ⟨d, _, rfl⟩ := List.mem_map.mp hx
    rw [day_comp d]
    simp [map_vbool]

theorem week_comp_k {α : Type} (w : List (List Bool)) (K : V → PyM α) :
    (do let t22 ← Py.listComp (weekV w) (fun v_day => (do
            let t15 ← Py.len v_day
            let t16 ← Py.rangeStep (.int 0) t15 (.int 8)
            let t21 ← Py.listComp t16 (fun v_i => (do
                let t17 ← Py.add v_i (.int 8)
                let t18 ← Py.slice v_day v_i t17
                let t19 ← PyCode.join_bits t18
                let t20 ← Py.byteItem t19
                pure (some t20) : PyM (Option V)))
            pure (some t21) : PyM (Option V)))
        let t23 ← Py.flatten t22
        let t24 ← Py.bytearray t23
        K t24) = K (.bytes (encodeWeek w)) := by
  have := congrArg (fun m => m >>= K) (week_comp w)
  simp only [bind_assoc, bind_ok] at this
  exact this

/-- `SCHEDULES` folded from the SOURCE TEXT of structures/schedules.py = the table the model uses (`Gen.schedules`) -/
theorem schedules_tbl : PyCode.c_SCHEDULES = .tuple (Gen.schedules.map V.str) := rfl

theorem seqIndexFrom_str (name : String) (l : List String) (k : Nat) (h : name ∈ l) :
    Py.seqIndexFrom (.str name) (l.map V.str) k = .ok (.int ((k + l.idxOf name : Nat) : Int)) := by
  induction l generalizing k with
  | nil => simp at h
  | cons x xs ih =>
    by_cases hx : x = name
    · subst hx
      simp [Py.seqIndexFrom, Py.eqB, bind_ok, List.idxOf_cons_self]
    · have hm : name ∈ xs := by
        rcases List.mem_cons.mp h with h | h
        · exact absurd h.symm hx
        · exact h
      have hne : (x == name) = false := by simpa using hx
      simp only [List.map_cons, Py.seqIndexFrom, Py.eqB, pure_eq_ok, bind_ok, hne, Bool.false_eq_true, if_false, ih (k + 1) hm]
      have : List.idxOf name (x :: xs) = List.idxOf name xs + 1 := by simp [List.idxOf_cons, hne]
      rw [this]
      congr 3; omega

theorem int_to_bytes_one (n : Nat) (h : n < 256) :
    Py.int_to_bytes (.int (n : Int)) (.int 1) (.str "little") = .ok (.bytes [n.toUInt8]) := by
  have h1 : ¬ ((n : Int) < 0) := by omega
  have h2 : ¬ (n ≥ 256 ^ 1) := by omega
  have h3 : n % 256 = n := Nat.mod_eq_of_lt h
  simp [Py.int_to_bytes, h1, h2, Py.encodeLE, h3]

theorem index_dict (dk : List String) (dv : List V) (k : String) (v : V) (h : lookup dk dv k = some v) :
    Py.index (.dict dk dv) (.str k) = .ok v := by
  simp [Py.index, h]

theorem add_bytes (x y : List UInt8) : Py.add (.bytes x) (.bytes y) = .ok (.bytes (x ++ y)) := rfl
theorem bytearray_of_bytes (b : List UInt8) : Py.bytearray (.bytes b) = .ok (.bytes b) := rfl
theorem tryExcept_pure {α : Type} (a : α) (cs : List Catch) (h : PyM α) : Py.tryExcept (pure a) cs h = .ok a := rfl
theorem int_int (i : Int) : Py.int_ (.int i) = .ok (.int i) := rfl

/-- **`SchedulesStructure.encode(data)`** for a `data` dict that names a schedule of the table (`type`, at position `idx`),
holds a switch and a parameter that are ints below 256 and a week of days of ANY lengths (bools): the payload the model's
`Device.commit` / `Req.payload` send — `01, idx, switch, parameter`, then `Sched.encodeWeek` -/
theorem schedules_encode_eq (dk : List String) (dv : List V) (name : String) (sw p : Nat) (w : List (List Bool))
    (hname : name ∈ Gen.schedules) (hsw : sw < 256) (hp : p < 256)
    (h1 : lookup dk dv "type" = some (.str name)) (h2 : lookup dk dv "switch" = some (.int (sw : Int)))
    (h3 : lookup dk dv "parameter" = some (.int (p : Int))) (h4 : lookup dk dv "schedule" = some (weekV w)) :
    PyCode.SchedulesStructure_encode (.dict dk dv)
      = .ok (.bytes ([1, (Gen.schedules.idxOf name).toUInt8, sw.toUInt8, p.toUInt8] ++ encodeWeek w)) := by
  unfold PyCode.SchedulesStructure_encode
  have hidx : Gen.schedules.idxOf name < 256 := by
    have : Gen.schedules.idxOf name < Gen.schedules.length := List.idxOf_lt_length_of_mem hname
    have : Gen.schedules.length = 40 := rfl
    omega
  have hs : Py.seq_index PyCode.c_SCHEDULES (.str name) = .ok (.int ((Gen.schedules.idxOf name : Nat) : Int)) := by
    rw [schedules_tbl]
    have := seqIndexFrom_str name Gen.schedules 0 hname
    simpa [Py.seq_index] using this
  have hw := week_comp w
  simp only [PyCode.c_ATTR_TYPE, PyCode.c_ATTR_SWITCH, PyCode.c_ATTR_PARAMETER, PyCode.c_ATTR_SCHEDULE,
    index_dict _ _ _ _ h1, index_dict _ _ _ _ h2, index_dict _ _ _ _ h3, index_dict _ _ _ _ h4, bind_ok, hs, attr_to_bytes_int,
    int_to_bytes_one _ hidx, int_to_bytes_one _ hsw, int_to_bytes_one _ hp, int_int, pure_bind, add_bytes, bytearray_of_bytes, tryExcept_ok, tryExcept_pure]
  rw [week_comp_k w]
  simp [add_bytes]

/-- what `Schedule.commit()` queues (`Sched.Device.commit`, the function `C18.commit_payload` is about) is the translated
`encode` of the collected data: index = position of the name in the table, switch, parameter, the week Sunday first -/
theorem encode_is_commit_payload (dev : Device) (idx : Nat) (payload : List UInt8) (dk : List String) (dv : List V)
    (w : Week) (sw p : Nat) (name : String)
    (hw : dictGet dev.schedules idx = some w) (hs : dictGet dev.switches idx = some sw) (hpp : dictGet dev.params idx = some p)
    (hname : name ∈ Gen.schedules) (hidx : Gen.schedules.idxOf name = idx) (hsw : sw < 256) (hp : p < 256)
    (h1 : lookup dk dv "type" = some (.str name)) (h2 : lookup dk dv "switch" = some (.int (sw : Int)))
    (h3 : lookup dk dv "parameter" = some (.int (p : Int))) (h4 : lookup dk dv "schedule" = some (weekV w.toTable)) :
    (dev.commit idx).map V.bytes = (PyCode.SchedulesStructure_encode (.dict dk dv)).toOption := by
  rw [schedules_encode_eq dk dv name sw p w.toTable hname hsw hp h1 h2 h3 h4]
  simp [Device.commit, hw, hs, hpp, hidx, Except.toOption]

theorem encode_missing_type (dk : List String) (dv : List V) (h : lookup dk dv "type" = none) :
    PyCode.SchedulesStructure_encode (.dict dk dv) = .error .FrameDataError := by
  unfold PyCode.SchedulesStructure_encode
  have : Py.index (.dict dk dv) PyCode.c_ATTR_TYPE = .error .KeyError := by simp [Py.index, PyCode.c_ATTR_TYPE, h]
  rw [this]
  rfl

theorem seqIndexFrom_absent (name : String) (l : List String) (k : Nat) (h : name ∉ l) :
    Py.seqIndexFrom (.str name) (l.map V.str) k = .error .ValueError := by
  induction l generalizing k with
  | nil => rfl
  | cons x xs ih =>
    have hx : ¬ x = name := fun e => h (by simp [e])
    have hm : name ∉ xs := fun e => h (List.mem_cons_of_mem _ e)
    have hne : (x == name) = false := by simpa using hx
    simp only [List.map_cons, Py.seqIndexFrom, Py.eqB, pure_eq_ok, bind_ok, hne, Bool.false_eq_true, if_false, ih (k + 1) hm]

theorem encode_unknown_type (dk : List String) (dv : List V) (name : String) (h : lookup dk dv "type" = some (.str name))
    (hn : name ∉ Gen.schedules) : PyCode.SchedulesStructure_encode (.dict dk dv) = .error .FrameDataError := by
  unfold PyCode.SchedulesStructure_encode
  have h1 : Py.index (.dict dk dv) PyCode.c_ATTR_TYPE = .ok (.str name) := by simp [Py.index, PyCode.c_ATTR_TYPE, h]
  have h2 : Py.seq_index PyCode.c_SCHEDULES (.str name) = .error .ValueError := by
    rw [schedules_tbl]; exact seqIndexFrom_absent name Gen.schedules 0 hn
  rw [h1, bind_ok, h2]
  rfl

/-! ### the parameter list against the model's entries -/

/-- `(index, value)` of one element of `schedule_parameters` -/
def pvIdxValue : V → Option (Int × Int)
  | .tuple [.int i, .obj _ ["value", "min_value", "max_value"] [.int v, _, _]] => some (i, v)
  | _ => none

/-- what the model's entries say about the parameters: the switch under `2·index`, the value (when the triple is defined)
under `2·index + 1` -/
def entryIdxValues (e : Entry) : List (Int × Int) :=
  (((e.idx * 2 : Nat) : Int), (e.switch : Int)) :: (match e.param with | some v => [(((e.idx * 2 + 1 : Nat) : Int), (v : Int))] | none => [])

/-- the `(index, value)` pairs of the translated `schedule_parameters` list are exactly the model's switches and parameter
values, entry by entry (what `EcoMAX._add_schedule_parameters` consumes; min / max are carried by `rawParams` only) -/
theorem rawParams_model (n : Nat) (s : List UInt8) (es : List Entry) (h : decodeEntries n s = some es) :
    (rawParams n s).filterMap pvIdxValue = es.flatMap entryIdxValues := by
  induction n generalizing s es with
  | zero => simp [decodeEntries] at h; subst h; rfl
  | succ n ih =>
    have g42 : Gen.scheduleSize = 42 := rfl
    match s, h with
    | idx :: sw :: pv :: pmin :: pmax :: r, h =>
      simp only [decodeEntries, g42] at h
      by_cases hl : r.length < 42
      · simp [hl] at h
      · simp only [hl, if_false] at h
        cases hN : decodeEntries n (r.drop 42) with
        | none => simp [hN] at h
        | some es' =>
          simp only [hN, Option.some.injEq] at h
          subst h
          have hu : undefinedByte = P2.undef := rfl
          simp only [rawParams, List.filterMap_append, ih _ _ hN, List.flatMap_cons]
          congr 1
          by_cases hp : pv = undefinedByte ∧ pmin = undefinedByte ∧ pmax = undefinedByte
          · obtain ⟨a, b, c⟩ := hp
            subst a b c
            simp [paramsOfEntry, P2.unpackParam, hu, pvIdxValue, tripleV, Py.mkobj, entryIdxValues]
          · have hall : ([pv, pmin, pmax].all fun x => x == P2.undef) = false := by
              rw [Bool.eq_false_iff]
              intro hcon
              simp only [List.all_cons, List.all_nil, Bool.and_true, Bool.and_eq_true, beq_iff_eq] at hcon
              exact hp ⟨hu ▸ hcon.1, hu ▸ hcon.2.1, hu ▸ hcon.2.2⟩
            simp [paramsOfEntry, P2.unpackParam, hall, pvIdxValue, tripleV, Py.mkobj, entryIdxValues, hp, PlumVerif.decodeLE]

/-! ### non-vacuity -/

set_option maxRecDepth 16384 in
/-- one entry: index 2, switch 1, parameter (20, 5, 30), a week whose first byte is 0x80 (Sunday 00:00-00:30 on) -/
example : (PyCode.SchedulesStructure_decode (Py.mkobj "self" [])
      (.bytes ([9, 0, 1, 2, 1, 20, 5, 30, 0x80] ++ List.replicate 41 0)) (.int 0) .none).map (fun r => r.1)
    = .ok (.tuple [.dict ["schedules", "schedule_parameters"]
        [.list [.tuple [.int 2, weekV ((true :: List.replicate 47 false) :: List.replicate 6 (List.replicate 48 false))]],
         .list [.tuple [.int 4, tripleV (1, 0, 1)], .tuple [.int 5, tripleV (20, 5, 30)]]], .int 50]) := rfl
set_option maxRecDepth 16384 in
/-- the parameter triple undefined: only the switch is listed -/
example : (PyCode.SchedulesStructure_decode (Py.mkobj "self" [])
      (.bytes ([9, 0, 1, 7, 0, 255, 255, 255] ++ List.replicate 42 0)) (.int 0) .none).map (fun r => match r.1 with
        | .tuple [.dict _ [_, ps], o] => V.tuple [ps, o] | v => v)
    = .ok (.tuple [.list [.tuple [.int 14, tripleV (0, 0, 1)]], .int 50]) := rfl
/-- two bytes only: no schedules, offset unchanged -/
example : (PyCode.SchedulesStructure_decode (Py.mkobj "self" []) (.bytes [9, 0]) (.int 0) .none).map (fun r => r.1)
    = .ok (.tuple [.dict ["schedules"] [.list []], .int 0]) := rfl
/-- the bitmap cut short -/
example : (PyCode.SchedulesStructure_decode (Py.mkobj "self" []) (.bytes ([9, 0, 1, 2, 1, 20, 5, 30] ++ List.replicate 41 0)) (.int 0) .none).map (fun r => r.1)
    = .error .IndexError := rfl
set_option maxRecDepth 16384 in
/-- encode: schedule "circulation_pump" (index 2), a week of two short days (8 and 3 slots) -/
example : PyCode.SchedulesStructure_encode (.dict ["type", "switch", "parameter", "schedule"]
      [.str "circulation_pump", .int 1, .int 20, weekV [[true, false, false, false, false, false, false, true], [true, true, false]]])
    = .ok (.bytes [1, 2, 1, 20, 0x81, 6]) := rfl
example : PyCode.SchedulesStructure_encode (.dict ["type", "switch", "parameter", "schedule"] [.str "nope", .int 1, .int 20, .list []])
    = .error .FrameDataError := rfl

end PlumVerif.TieStructSchedules

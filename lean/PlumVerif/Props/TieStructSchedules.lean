import PlumVerif.Generated.PyCode
import PlumVerif.Proofs.PyLemmas
import PlumVerif.Proofs.Schedule
import PlumVerif.Model.Schedule
import PlumVerif.Props.TieSchedule
import PlumVerif.Props.TieStructParams
import PlumVerif.Props.TieStructSensors
namespace PlumVerif.TieStructSchedules
open PlumVerif.Py PlumVerif.TieParams PlumVerif.TieStructParams PlumVerif.TieStructSensors PlumVerif.Sched
set_option linter.unusedSimpArgs false
set_option linter.unusedVariables false

/-! ### comprehensions -/

theorem listComp_fold (f : V → PyM (Option V)) (g : V → V) (p : V → Bool) (e : PyErr) (xs : List V)
    (hok : ∀ x ∈ xs, p x = true → f x = .ok (some (g x))) (herr : ∀ x ∈ xs, p x = false → f x = .error e) (acc : List V) :
    xs.foldlM (fun (acc : List V) x => do
        match ← f x with
        | some y => pure (y :: acc)
        | Option.none => pure acc) acc
      = if xs.all p then .ok ((xs.map g).reverse ++ acc) else .error e := by
  induction xs generalizing acc with
  | nil => simp
  | cons x xs ih =>
    have ih' := ih (fun y hy => hok y (List.mem_cons_of_mem _ hy)) (fun y hy => herr y (List.mem_cons_of_mem _ hy))
    cases hp : p x
    · rw [List.foldlM_cons, herr x (List.mem_cons_self) hp, bind_err]
      simp [hp]
    · rw [List.foldlM_cons, hok x (List.mem_cons_self) hp]
      simp only [bind_ok, pure_bind]
      rw [ih']
      simp [hp]

/-- `[g(x) for x in xs]` when the element expression succeeds exactly on the elements satisfying `p` and raises `e`
on the others: the first failing element decides -/
theorem listComp_all (f : V → PyM (Option V)) (g : V → V) (p : V → Bool) (e : PyErr) (xs : List V)
    (hok : ∀ x ∈ xs, p x = true → f x = .ok (some (g x))) (herr : ∀ x ∈ xs, p x = false → f x = .error e) :
    Py.listComp (.list xs) f = if xs.all p then .ok (.list (xs.map g)) else .error e := by
  unfold Py.listComp
  simp only [Py.iter, pure_bind]
  erw [listComp_fold f g p e xs hok herr]
  by_cases h : xs.all p
  · rw [if_pos h, if_pos h, bind_ok]; simp
  · rw [if_neg h, if_neg h, bind_err]

theorem listComp_map (f : V → PyM (Option V)) (g : V → V) (xs : List V) (hok : ∀ x ∈ xs, f x = .ok (some (g x))) :
    Py.listComp (.list xs) f = .ok (.list (xs.map g)) := by
  have := listComp_all f g (fun _ => true) PyErr.unsupported xs (fun x hx _ => hok x hx) (fun x hx h => by simp at h)
  simpa using this

theorem flatten_fold (xss : List (List V)) (acc : List V) :
    (xss.map V.list).foldlM (fun (acc : List V) xs => match xs with
      | .list ys => (pure (acc ++ ys) : PyM (List V))
      | _ => throw PyErr.unsupported) acc = .ok (acc ++ xss.flatten) := by
  induction xss generalizing acc with
  | nil => simp
  | cons x xs ih =>
    rw [List.map_cons, List.foldlM_cons]
    show ((pure (acc ++ x) : PyM (List V)) >>= _) = _
    rw [pure_bind, ih]; simp [List.append_assoc]

theorem flatten_lists (xss : List (List V)) : Py.flatten (.list (xss.map V.list)) = .ok (.list xss.flatten) := by
  unfold Py.flatten
  dsimp only
  erw [flatten_fold]
  simp [bind_ok]

/-! ### `range(0, len, n)` and `[l[i : i + n] for i in range(0, len(l), n)]` -/

def chunkIdx (n len : Nat) : List Nat := (List.range ((len + n - 1) / n)).map (· * n)

theorem chunkIdx_zero (n : Nat) (hn : 0 < n) : chunkIdx n 0 = [] := by
  unfold chunkIdx
  have : (0 + n - 1) / n = 0 := Nat.div_eq_of_lt (by omega)
  rw [this]; rfl

theorem chunkIdx_pos (n len : Nat) (hn : 0 < n) (hl : 0 < len) :
    chunkIdx n len = 0 :: (chunkIdx n (len - n)).map (· + n) := by
  unfold chunkIdx
  have hc : (len + n - 1) / n = (len - n + n - 1) / n + 1 := by
    by_cases h : n ≤ len
    · have : len + n - 1 = (len - n + n - 1) + n := by omega
      rw [this, Nat.add_div_right _ hn]
    · have h1 : len - n = 0 := by omega
      have h2 : (0 + n - 1) / n = 0 := Nat.div_eq_of_lt (by omega)
      have h3 : (len + n - 1) / n = 1 := by
        have : len + n - 1 = (len - 1) + n := by omega
        rw [this, Nat.add_div_right _ hn, Nat.div_eq_of_lt (by omega)]
      rw [h1, h2, h3]
  rw [hc, List.range_succ_eq_map]
  simp [List.map_map, Function.comp_def, Nat.succ_mul]

theorem chunks_idx {α : Type} (n : Nat) (hn : 0 < n) (l : List α) :
    chunks n l = (chunkIdx n l.length).map fun i => (l.drop i).take n := by
  generalize hlen : l.length = len
  induction len using Nat.strongRecOn generalizing l with
  | _ len ih =>
    by_cases hl : l = []
    · subst hl; simp at hlen; subst hlen; simp [chunks_nil, chunkIdx_zero n hn]
    · have hpos : 0 < len := by rw [← hlen]; exact List.length_pos_iff.mpr hl
      have hc : ¬ (n = 0 ∨ l = []) := by
        intro h; rcases h with h | h
        · omega
        · exact hl h
      rw [chunks, dif_neg hc, chunkIdx_pos n len hn hpos]
      have := ih (len - n) (by omega) (l.drop n) (by simp [hlen])
      rw [this]
      simp [List.map_map, Function.comp_def, List.drop_drop, Nat.add_comm]

theorem rangeStep_nat (len n : Nat) (hn : 0 < n) :
    Py.rangeStep (.int 0) (.int (len : Int)) (.int (n : Int)) = .ok (.list ((chunkIdx n len).map fun (i : Nat) => V.int (i : Int))) := by
  have h0 : ¬ (n : Int) = 0 := by omega
  have h1 : ¬ (n : Int) < 0 := by omega
  have h2 : (((len : Int) - 0 + (n : Int) - 1).fdiv (n : Int)).toNat = (len + n - 1) / n := by
    rw [Int.fdiv_eq_ediv_of_nonneg _ (by omega)]
    have : (len : Int) - 0 + (n : Int) - 1 = ((len + n - 1 : Nat) : Int) := by omega
    rw [this]
    exact_mod_cast Int.toNat_natCast _
  simp only [Py.rangeStep, h0, h1, if_false, h2, pure_eq_ok, chunkIdx, List.map_map]
  congr 2
  apply List.map_congr_left
  intro k _
  simp

theorem slice_list_nat (xs : List V) (a n : Nat) :
    Py.slice (.list xs) (.int (a : Int)) (.int ((a + n : Nat) : Int)) = .ok (.list ((xs.drop a).take n)) := by
  have e : (xs.take (min (a + n) xs.length)).drop (min a xs.length) = (xs.drop a).take n := by
    apply List.ext_getElem?
    intro i
    simp only [List.getElem?_drop, List.getElem?_take]
    by_cases h1 : i < n
    · by_cases h2 : a ≤ xs.length
      · have : min a xs.length = a := by omega
        rw [this]
        by_cases h3 : a + i < min (a + n) xs.length
        · simp [h1, h3]
        · have : xs.length ≤ a + i := by omega
          simp [h1, h3, List.getElem?_eq_none this]
      · have h4 : ¬ (min a xs.length + i < min (a + n) xs.length) := by omega
        have : xs.length ≤ a + i := by omega
        simp [h1, h4, List.getElem?_eq_none this]
    · have h4 : ¬ (min a xs.length + i < min (a + n) xs.length) := by omega
      simp [h1, h4]
  have nn : (0 : Int) ≤ (a : Int) + (n : Int) := by omega
  have t : ((a : Int) + (n : Int)).toNat = a + n := by omega
  simp [Py.slice, Py.bound, asInt?, sliceList, e, nn, t]

theorem chunks_map {α β : Type} (n : Nat) (hn : 0 < n) (f : α → β) (l : List α) :
    chunks n (l.map f) = (chunks n l).map (List.map f) := by
  rw [chunks_idx n hn, chunks_idx n hn]
  simp [List.map_map, Function.comp_def, List.map_drop, List.map_take]

/-- `[l[i : i + n] for i in range(0, len(l), n)]` is the model's `chunks n l` (in continuation form) -/
theorem comp_chunks {α : Type} (n : Nat) (hn : 0 < n) (l : List V) (f : V → PyM (Option V)) (K : V → PyM α)
    (hf : ∀ i : Nat, f (.int (i : Int)) = (do let t ← Py.add (.int (i : Int)) (.int (n : Int)); let u ← Py.slice (.list l) (.int (i : Int)) t; pure (some u))) :
    (do let t10 ← Py.len (.list l)
        let t11 ← Py.rangeStep (.int 0) t10 (.int (n : Int))
        let t14 ← Py.listComp t11 f
        K t14) = K (.list ((chunks n l).map V.list)) := by
  simp only [Py.len, pure_eq_ok, bind_ok, rangeStep_nat _ _ hn]
  rw [listComp_map f (fun v => match v with | .int i => .list ((l.drop i.toNat).take n) | _ => .none)]
  · rw [chunks_idx n hn, bind_ok]
    simp [List.map_map, Function.comp_def]
  · intro x hx
    obtain ⟨i, _, rfl⟩ := List.mem_map.mp hx
    rw [hf, add_int', ← Int.natCast_add, bind_ok, slice_list_nat, bind_ok]
    simp

/-! ### `_unpack_schedule` -/

/-- a week as a Python value: a list of days, a day a list of bools -/
def weekV (w : List (List Bool)) : V := .list (w.map fun d => V.list (d.map V.bool))

/-- the 42 bytes `message[offset] … message[offset + 41]` -/
def window (msg : List UInt8) (off : Nat) : List UInt8 := (List.range 42).map fun k => msg.getD (off + k) 0

theorem window_eq (msg : List UInt8) (off : Nat) (h : off + 42 ≤ msg.length) : window msg off = (msg.drop off).take 42 := by
  apply List.ext_getElem?
  intro i
  unfold window
  by_cases hi : i < 42
  · have : off + i < msg.length := by omega
    simp [hi, List.getElem?_take, List.getElem?_drop, List.getD_eq_getElem?_getD, List.getElem?_eq_getElem this]
  · simp [hi, List.getElem?_take]

theorem rangeV_int (a n : Nat) : rangeV a n = (List.range n).map fun (k : Nat) => V.int ((a + k : Nat) : Int) := by
  unfold rangeV
  apply List.map_congr_left
  intro k _
  simp

theorem toNat_cast (a b : Nat) : ((a : Int) + (b : Int)).toNat = a + b := by omega

theorem c42 : PyCode.c_SCHEDULE_SIZE = .int ((42 : Nat) : Int) := rfl
theorem c48 : (V.int 48) = .int ((48 : Nat) : Int) := rfl

theorem listComp_id (ys : List V) : Py.listComp (.list ys) (fun v_bit => (do pure (some v_bit) : PyM (Option V))) = .ok (.list ys) := by
  have := listComp_map (fun v_bit => (do pure (some v_bit) : PyM (Option V))) id ys (fun x _ => rfl)
  simpa using this

/-- the bits of the 42-byte window, as the code builds them: eight per byte, most significant first -/
theorem bits_comp (msg : List UInt8) (off : Nat) :
    (do let t7 ← Py.listComp (.list (rangeV off 42)) (fun v_i => (do
            let t4 ← Py.index (.bytes msg) v_i
            let t5 ← PyCode.split_byte t4
            let t6 ← Py.listComp t5 (fun v_bit => (do pure (some v_bit) : PyM (Option V)))
            pure (some t6) : PyM (Option V)))
        Py.flatten t7)
      = if off + 42 ≤ msg.length then .ok (.list (((window msg off).flatMap splitByte).map V.bool)) else .error .IndexError := by
  rw [rangeV_int]
  rw [listComp_all _ (fun v => match v with
        | .int i => V.list ((splitByte (msg.getD i.toNat 0)).map V.bool)
        | _ => V.none)
      (fun v => match v with
        | .int i => decide (i.toNat < msg.length)
        | _ => false) PyErr.IndexError]
  · by_cases h : off + 42 ≤ msg.length
    · have hall : ((List.range 42).map fun (k : Nat) => V.int ((off + k : Nat) : Int)).all (fun v => match v with
          | .int i => decide (i.toNat < msg.length)
          | _ => false) = true := by
        simp only [List.all_map, List.all_eq_true, List.mem_range, Function.comp_def]
        intro k hk
        simp; omega
      rw [if_pos hall, if_pos h, bind_ok]
      have : ((List.range 42).map fun (k : Nat) => V.int ((off + k : Nat) : Int)).map (fun v => match v with
            | .int i => V.list ((splitByte (msg.getD i.toNat 0)).map V.bool)
            | _ => V.none)
          = ((window msg off).map fun b => (splitByte b).map V.bool).map V.list := by
        simp [window, List.map_map, Function.comp_def, toNat_cast]
      rw [this, flatten_lists]
      simp [List.flatMap, List.map_flatten, List.map_map, Function.comp_def]
    · have hall : ¬ ((List.range 42).map fun (k : Nat) => V.int ((off + k : Nat) : Int)).all (fun v => match v with
          | .int i => decide (i.toNat < msg.length)
          | _ => false) = true := by
        simp only [List.all_map, List.all_eq_true, List.mem_range, Function.comp_def]
        intro hcon
        have := hcon 41 (by omega)
        simp [toNat_cast] at this
        omega
      rw [if_neg hall, if_neg h, bind_err]
  · intro x hx hp
    obtain ⟨k, _, rfl⟩ := List.mem_map.mp hx
    have hk : off + k < msg.length := by simpa [toNat_cast] using hp
    simp only [index_bytes_nat, List.getElem?_eq_getElem hk, bind_ok, TieSchedule.split_byte_eq, listComp_id]
    simp [List.getD_eq_getElem?_getD, List.getElem?_eq_getElem hk, toNat_cast]
  · intro x hx hp
    obtain ⟨k, _, rfl⟩ := List.mem_map.mp hx
    have hk : msg.length ≤ off + k := by simpa [toNat_cast] using hp
    simp only [index_bytes_nat, List.getElem?_eq_none hk, bind_err]

/-- **`_unpack_schedule`**: the 42 bytes at `self._offset` as 7 days of 48 half-hour slots (`Sched.decodeWeek`), `_offset`
advanced by 42; IndexError when fewer than 42 bytes are left -/
theorem unpack_schedule_eq (c : String) (ks : List String) (vs : List V) (msg : List UInt8) (off : Nat) :
    PyCode.SchedulesStructure_unpack_schedule (withOff c ks vs off) (.bytes msg)
      = if off + 42 ≤ msg.length then .ok (weekV (decodeWeek ((msg.drop off).take 42)), withOff c ks vs (off + 42))
        else .error .IndexError := by
  unfold PyCode.SchedulesStructure_unpack_schedule
  simp only [getattr_withOff, bind_ok, c42, add_int', ← Int.natCast_add, range_nat, Nat.add_sub_cancel_left]
  have hb := bits_comp msg off
  rw [← bind_assoc, hb]
  by_cases h : off + 42 ≤ msg.length
  · rw [if_pos h, if_pos h, bind_ok, setattr_withOff, bind_ok]
    rw [c48, comp_chunks 48 (by omega) _ _ _ (fun i => rfl)]
    rw [window_eq msg off h, chunks_map 48 (by omega)]
    simp [weekV, decodeWeek, slotsPerDay, List.map_map, Function.comp_def]
  · rw [if_neg h, if_neg h, bind_err]

end PlumVerif.TieStructSchedules

import PlumVerif.Props.C18
/-
C18 — `set_state` with times that are NOT half-hour aligned ("10:15" is a legal `%H:%M` string).
The statement speaks of aligned times; the code accepts any minute:
  * the start/end comparison `end_dt <= start_dt` is made on the EXACT minutes,
  * the midnight rule applies to an end of EXACTLY 00:00 only (00:10 is ten past midnight),
  * the slot indexes are floors: `floor(seconds // (60 * 30))`.
The theorems below characterise every call with parsed times (any hour < 24, minute < 60),
relate it to the aligned call on the floored times, and name the two families of inputs on which
the two differ.  Property theorems only (the closed form `setState_some/none` is in
Proofs/Schedule.lean).
-/
namespace PlumVerif.C18
open PlumVerif PlumVerif.Sched

/-- minutes after midnight of a parsed start time -/
def startMin (sh sm : Nat) : Nat := sh * 60 + sm

/-- minutes after midnight of a parsed END time as the code reads it: exactly 00:00 is 24:00 minus
one step (23:30); every other time, 00:01 included, is itself -/
def endMin (eh em : Nat) : Nat := if eh = 0 ∧ em = 0 then 23 * 60 + 30 else eh * 60 + em

/-- the aligned time that begins the slot a time falls into -/
def floorTime (h m : Nat) : TimeArg := .hm h (m / 30 * 30)

/-- the slot range of ANY pair of parsed times: compared on exact minutes, indexed by floors -/
theorem time_range_unaligned (sh sm eh em : Nat) :
    timeRange (.hm sh sm) (.hm eh em) =
      if endMin eh em ≤ startMin sh sm then none
      else some (startMin sh sm / 30, endMin eh em / 30) := rfl

/-- the addressed slots of legal times are slots of the day: `lo ≤ hi < 48` -/
theorem unaligned_slots_in_day (sh sm eh em : Nat) (heh : eh < 24) (hem : em < 60)
    (h : startMin sh sm < endMin eh em) :
    startMin sh sm / 30 ≤ endMin eh em / 30 ∧ endMin eh em / 30 < 48 := by
  have : endMin eh em < 1440 := by unfold endMin; split <;> omega
  omega

/-- **closed form for any minutes** (days of any length): the call succeeds iff the state is one of
the four and the end — read on exact minutes, exact midnight meaning 23:30 — is after the start;
then exactly the slots `⌊start/30⌋ .. ⌊end/30⌋` take the state -/
theorem set_unaligned (day : List Bool) (st : String) (sh sm eh em : Nat) :
    setState day st (.hm sh sm) (.hm eh em) =
      if validStates.contains st = true ∧ startMin sh sm < endMin eh em then
        (day.mapIdx (fun i b =>
            if startMin sh sm / 30 ≤ i ∧ i ≤ endMin eh em / 30 then onStates.contains st else b),
         if endMin eh em / 30 < day.length then Outcome.ok else Outcome.indexError)
      else (day, Outcome.valueError) := by
  cases hv : validStates.contains st with
  | false =>
    rw [setState_none day st _ _ (Or.inl hv)]
    simp
  | true =>
    by_cases hc : startMin sh sm < endMin eh em
    · have ht : timeRange (.hm sh sm) (.hm eh em) = some (startMin sh sm / 30, endMin eh em / 30) := by
        rw [time_range_unaligned, if_neg (by omega)]
      rw [setState_some day st _ _ _ _ hv ht, if_pos (show true = true ∧ _ from ⟨rfl, hc⟩)]
    · have ht : timeRange (.hm sh sm) (.hm eh em) = none := by
        rw [time_range_unaligned, if_pos (by omega)]
      rw [setState_none day st _ _ (Or.inr ht), if_neg (fun h => hc h.2)]

/-- **exact slots for every legal time, aligned or not** (48-slot day, end hour < 24, end minute
< 60; nothing is asked of the start): the call is ok iff the state is valid and the end is after
the start on exact minutes; otherwise it is ValueError — never IndexError — and the day is
unchanged; when ok the day keeps 48 slots, the slots `⌊start/30⌋ .. ⌊end/30⌋` (a non-empty range
inside the day) hold the requested state and every other slot holds what it held -/
theorem set_exact_unaligned (day : List Bool) (hlen : day.length = 48) (st : String)
    (sh sm eh em : Nat) (heh : eh < 24) (hem : em < 60) :
    ((setState day st (.hm sh sm) (.hm eh em)).2 = .ok ↔
        validStates.contains st = true ∧ startMin sh sm < endMin eh em) ∧
    ((setState day st (.hm sh sm) (.hm eh em)).2 ≠ .ok →
        setState day st (.hm sh sm) (.hm eh em) = (day, .valueError)) ∧
    (setState day st (.hm sh sm) (.hm eh em)).1.length = 48 ∧
    ((setState day st (.hm sh sm) (.hm eh em)).2 = .ok →
        startMin sh sm / 30 ≤ endMin eh em / 30 ∧ endMin eh em / 30 < 48 ∧
        ∀ k, k < 48 → (setState day st (.hm sh sm) (.hm eh em)).1.getD k false =
          if startMin sh sm / 30 ≤ k ∧ k ≤ endMin eh em / 30 then onStates.contains st
          else day.getD k false) := by
  rw [set_unaligned]
  by_cases hc : validStates.contains st = true ∧ startMin sh sm < endMin eh em
  · have hs := unaligned_slots_in_day sh sm eh em heh hem hc.2
    rw [if_pos hc, if_pos (by omega)]
    refine ⟨⟨fun _ => hc, fun _ => rfl⟩, fun h => absurd rfl h, by simp [hlen], fun _ => ⟨hs.1, hs.2, ?_⟩⟩
    intro k hk
    have hk' : k < day.length := by omega
    simp only [List.getD_eq_getElem?_getD, List.getElem?_mapIdx, List.getElem?_eq_getElem hk',
      Option.map_some, Option.getD_some]
  · rw [if_neg hc]
    refine ⟨⟨fun h => (by cases h), fun h => absurd h hc⟩, fun _ => rfl, hlen, fun h => (by cases h)⟩

/-- never IndexError on a 48-slot day, whatever the (legal) minutes -/
theorem unaligned_never_index_error (day : List Bool) (hlen : day.length = 48) (st : String)
    (sh sm eh em : Nat) (heh : eh < 24) (hem : em < 60) :
    (setState day st (.hm sh sm) (.hm eh em)).2 = .ok ∨
      setState day st (.hm sh sm) (.hm eh em) = (day, .valueError) := by
  by_cases h : (setState day st (.hm sh sm) (.hm eh em)).2 = .ok
  · exact Or.inl h
  · exact Or.inr ((set_exact_unaligned day hlen st sh sm eh em heh hem).2.1 h)

/-! ### an unaligned call against the aligned call on the floored times

Flooring both times to the half hour gives the same result EXCEPT on two families:
  (1) start and end in the same slot, end after start (10:15 – 10:20): the unaligned call sets that
      one slot, the floored call (10:00 – 10:00) raises ValueError;
  (2) an end in 00:01 .. 00:29: unaligned it is minutes past midnight (slot 0; ValueError unless the
      start is earlier still), floored it is 00:00, which the midnight rule reads as the END of the
      day. -/

/-- the end is in the first half hour but not exactly midnight: flooring it turns it into the
midnight end -/
def earlyEnd (eh em : Nat) : Prop := eh = 0 ∧ 0 < em ∧ em < 30

instance (eh em : Nat) : Decidable (earlyEnd eh em) := by unfold earlyEnd; exact inferInstance

theorem startMin_floor (sh sm : Nat) :
    startMin sh (sm / 30 * 30) = startMin sh sm / 30 * 30 := by
  unfold startMin; omega

theorem endMin_floor (eh em : Nat) (hem : em < 60) (hne : ¬ earlyEnd eh em) :
    endMin eh (em / 30 * 30) = endMin eh em / 30 * 30 := by
  unfold earlyEnd at hne
  unfold endMin
  by_cases h0 : eh = 0 ∧ em = 0
  · obtain ⟨rfl, rfl⟩ := h0; rfl
  · have : ¬ (eh = 0 ∧ em / 30 * 30 = 0) := by omega
    rw [if_neg h0, if_neg this]; omega

/-- **agreement**: outside the two families the unaligned call IS the aligned call on the floored
times (any day, any state string) -/
theorem unaligned_eq_floored (day : List Bool) (st : String) (sh sm eh em : Nat)
    (hem : em < 60) (hne : ¬ earlyEnd eh em)
    (hslot : ¬ (startMin sh sm < endMin eh em ∧ startMin sh sm / 30 = endMin eh em / 30)) :
    setState day st (.hm sh sm) (.hm eh em) = setState day st (floorTime sh sm) (floorTime eh em) := by
  unfold floorTime
  rw [set_unaligned, set_unaligned, startMin_floor sh sm, endMin_floor eh em hem hne]
  have e1 : startMin sh sm / 30 * 30 / 30 = startMin sh sm / 30 := by omega
  have e2 : endMin eh em / 30 * 30 / 30 = endMin eh em / 30 := by omega
  rw [e1, e2]
  by_cases hc : startMin sh sm < endMin eh em
  · have hc' : startMin sh sm / 30 * 30 < endMin eh em / 30 * 30 := by omega
    simp only [hc, hc']
  · have hc' : ¬ (startMin sh sm / 30 * 30 < endMin eh em / 30 * 30) := by omega
    simp only [hc, hc']

/-- **family 1, same slot**: end after start inside one slot — unaligned exactly that slot is set,
after flooring the call raises ValueError and changes nothing -/
theorem unaligned_same_slot (day : List Bool) (st : String) (hv : validStates.contains st = true)
    (sh sm eh em : Nat) (hem : em < 60) (hne : ¬ earlyEnd eh em)
    (hlt : startMin sh sm < endMin eh em) (hslot : startMin sh sm / 30 = endMin eh em / 30) :
    setState day st (.hm sh sm) (.hm eh em) =
        (day.mapIdx (fun i b => if i = startMin sh sm / 30 then onStates.contains st else b),
         if startMin sh sm / 30 < day.length then Outcome.ok else Outcome.indexError) ∧
      setState day st (floorTime sh sm) (floorTime eh em) = (day, .valueError) := by
  constructor
  · rw [set_unaligned, if_pos ⟨hv, hlt⟩, ← hslot]
    congr 2
    funext i b
    by_cases h : i = startMin sh sm / 30
    · subst h; simp
    · have : ¬ (startMin sh sm / 30 ≤ i ∧ i ≤ startMin sh sm / 30) := by omega
      rw [if_neg this, if_neg h]
  · unfold floorTime
    rw [set_unaligned, startMin_floor sh sm, endMin_floor eh em hem hne, hslot, if_neg (by omega)]

/-- **family 2, end in 00:01 .. 00:29**: unaligned the end is `em` minutes past midnight — the
call sets slot 0 when the start is earlier, else ValueError; floored the end is 00:00, the END of
the day — the call sets every slot from the start's to the last (ValueError only from 23:30 on) -/
theorem unaligned_early_end (day : List Bool) (st : String) (hv : validStates.contains st = true)
    (sh sm em : Nat) (hem : 0 < em ∧ em < 30) :
    setState day st (.hm sh sm) (.hm 0 em) =
        (if startMin sh sm < em then
          (day.mapIdx (fun i b => if i = 0 then onStates.contains st else b),
           if 0 < day.length then Outcome.ok else Outcome.indexError)
         else (day, .valueError)) ∧
      setState day st (floorTime sh sm) (floorTime 0 em) =
        (if startMin sh sm < 23 * 60 + 30 then
          (day.mapIdx (fun i b => if startMin sh sm / 30 ≤ i ∧ i ≤ 47 then onStates.contains st else b),
           if 47 < day.length then Outcome.ok else Outcome.indexError)
         else (day, .valueError)) := by
  have hE : endMin 0 em = em := by unfold endMin; rw [if_neg (by omega)]; omega
  have hF : endMin 0 (em / 30 * 30) = 23 * 60 + 30 := by
    unfold endMin; rw [if_pos ⟨rfl, by omega⟩]
  constructor
  · rw [set_unaligned, hE]
    by_cases hc : startMin sh sm < em
    · have e0 : startMin sh sm / 30 = 0 := by omega
      have e1 : em / 30 = 0 := by omega
      rw [if_pos ⟨hv, hc⟩, if_pos hc, e0, e1]
      congr 2
      funext i b
      by_cases h : i = 0
      · subst h; simp
      · have : ¬ (0 ≤ i ∧ i ≤ 0) := by omega
        rw [if_neg this, if_neg h]
    · rw [if_neg (fun h => hc h.2), if_neg hc]
  · unfold floorTime
    rw [set_unaligned, startMin_floor sh sm, hF]
    have e1 : startMin sh sm / 30 * 30 / 30 = startMin sh sm / 30 := by omega
    rw [e1]
    by_cases hc : startMin sh sm < 23 * 60 + 30
    · have hc' : startMin sh sm / 30 * 30 < 23 * 60 + 30 := by omega
      rw [if_pos ⟨hv, hc'⟩, if_pos hc]
    · have hc' : ¬ (startMin sh sm / 30 * 30 < 23 * 60 + 30) := by omega
      rw [if_neg (fun h => hc' h.2), if_neg hc]

/-- on aligned times the closed form is the statement's: `slotTime i` / `slotTime j` address
`i .. endSlot j` (bridge to `time_range_aligned` / `holds_set`) -/
theorem unaligned_on_aligned (i j : Nat) (hi : i < 48) (hj : j < 48) :
    startMin (i / 2) (i % 2 * 30) / 30 = i ∧ endMin (j / 2) (j % 2 * 30) / 30 = endSlot j ∧
      (startMin (i / 2) (i % 2 * 30) < endMin (j / 2) (j % 2 * 30) ↔ i < endSlot j) := by
  unfold startMin endMin endSlot
  by_cases h0 : j = 0
  · subst h0
    rw [if_pos ⟨rfl, rfl⟩, if_pos rfl]
    omega
  · have hne : ¬ (j / 2 = 0 ∧ j % 2 * 30 = 0) := by omega
    rw [if_neg hne, if_neg h0]
    omega

/-! ### witnesses (non-vacuity, and the two differences replayed on concrete inputs) -/

-- 10:15 – 10:20: one slot (20) unaligned; ValueError after flooring to 10:00 – 10:00
example : setState (List.replicate 48 false) "on" (.hm 10 15) (.hm 10 20) =
    (List.replicate 20 false ++ [true] ++ List.replicate 27 false, .ok) := by decide
example : setState (List.replicate 48 false) "on" (floorTime 10 15) (floorTime 10 20) =
    (List.replicate 48 false, .valueError) := by decide
-- equal unaligned times: ValueError
example : setState (List.replicate 48 false) "on" (.hm 10 15) (.hm 10 15) =
    (List.replicate 48 false, .valueError) := by decide
-- 00:00 – 00:10: slot 0 only; floored (00:00 – 00:00) the whole day
example : setState (List.replicate 48 false) "day" (.hm 0 0) (.hm 0 10) =
    ([true] ++ List.replicate 47 false, .ok) := by decide
example : setState (List.replicate 48 false) "day" (floorTime 0 0) (floorTime 0 10) =
    (List.replicate 48 true, .ok) := by decide
-- 00:10 – 00:05 raises, but floored it is the whole day
example : setState (List.replicate 48 true) "off" (.hm 0 10) (.hm 0 5) =
    (List.replicate 48 true, .valueError) := by decide
example : setState (List.replicate 48 true) "off" (floorTime 0 10) (floorTime 0 5) =
    (List.replicate 48 false, .ok) := by decide
-- the agreeing case: 10:15 – 11:50 = 10:00 – 11:30 = slots 20 .. 23
example : setState (List.replicate 48 false) "on" (.hm 10 15) (.hm 11 50) =
    (List.replicate 20 false ++ List.replicate 4 true ++ List.replicate 24 false, .ok) := by decide
example : ¬ earlyEnd 11 50 ∧ ¬ (startMin 10 15 < endMin 11 50 ∧ startMin 10 15 / 30 = endMin 11 50 / 30) := by
  decide
-- 23:45 – 00:00: the midnight end is 23:30, BEFORE 23:45 — ValueError; 23:29 – 00:00 sets 46, 47
example : setState (List.replicate 48 false) "on" (.hm 23 45) (.hm 0 0) =
    (List.replicate 48 false, .valueError) := by decide
example : setState (List.replicate 48 false) "on" (.hm 23 29) (.hm 0 0) =
    (List.replicate 46 false ++ [true, true], .ok) := by decide
-- 23:31 – 23:59: the last slot alone
example : setState (List.replicate 48 false) "on" (.hm 23 31) (.hm 23 59) =
    (List.replicate 47 false ++ [true], .ok) := by decide
example : earlyEnd 0 10 ∧ ¬ earlyEnd 0 0 ∧ ¬ earlyEnd 0 30 := by decide

end PlumVerif.C18

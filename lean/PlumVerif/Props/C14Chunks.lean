import PlumVerif.Props.C14
import PlumVerif.Proofs.ReaderChunks
import PlumVerif.Proofs.ReaderSched
/-
C14, "never waits for more than the maximum frame size", on the resumable reader
(`Model/ReaderChunks`): in EVERY suspension of every call, whatever bytes arrived in whatever
chunks, the bytes the suspended primitive still demands plus everything the call has taken or
has buffered since the start delimiter it found is at most 1000.
-/
namespace PlumVerif.C14
open PlumVerif

/-- one step: from a state whose length field passed the gate, a suspension demands at least one
byte and at most what is left of 1000 after the bytes taken since the delimiter and the bytes
already waiting in the buffer -/
theorem blocked_demand_bounded (st st' : RState) (buf b : List Byte) (hok : st.ok)
    (h : resume st buf = .blocked st' b) :
    st'.ok ∧ 1 ≤ st'.demand b.length ∧ st'.demand b.length ≤ 1000 - (st'.taken + b.length) := by
  have := resume_blocked_bounded hok h
  refine ⟨this.1, this.2.1, ?_⟩
  omega

/-- **every suspension of every call, every chunking** -/
theorem never_demands_beyond_max (buf : List Byte) (cs : List (List Byte)) :
    ∀ p ∈ callTrace .scanning buf cs, 1 ≤ p.1.demand p.2 ∧ p.1.demand p.2 ≤ 1000 - (p.1.taken + p.2) := by
  intro p hp
  have := callTrace_bounded cs .scanning buf trivial p hp
  omega

/-- a suspended call is woken only to completion or to a suspension in a LATER state or the same
primitive with more buffered: once `demand` bytes have arrived it does not wait again for them.
(For ANY state `st'` past the delimiter hunt and any buffer `b` it may be suspended with; the former hypothesis
"`st'`, `b` is a suspension of some call" was not used and is dropped.) -/
theorem wakes_when_demand_met (st' : RState) (b more : List Byte)
    (hst : st' ≠ .scanning) (hmore : st'.demand b.length ≤ more.length) :
    ∀ b', resume st' (b ++ more) ≠ .blocked st' b' := by
  intro b' hb
  cases st' with
  | scanning => exact hst rfl
  | header =>
    simp only [resume] at hb
    simp only [RState.demand, Gen.headerSize] at hmore
    have hl : 6 ≤ (b ++ more).length := by simp only [List.length_append]; omega
    match hm : b ++ more, hl with
    | l0 :: l1 :: rc :: sd :: et :: ev :: r1, _ =>
      rw [hm] at hb
      simp only [runHeader] at hb
      split at hb
      · cases hb
      · obtain ⟨h1, _, _⟩ := runBody_blocked hb
        cases h1
  | body l0 l1 rc sd et ev =>
    simp only [resume] at hb
    obtain ⟨_, _, hlt⟩ := runBody_blocked hb
    simp only [RState.demand] at hmore
    simp only [List.length_append] at hlt
    omega

/-- **every interleaving of arrivals and reader runs** (`Model/ReaderSched`): in whatever state the
system is after ANY schedule, if the reader's next run leaves its call suspended, that suspension
demands at least one byte and at most what is left of 1000 after the bytes taken since the start
delimiter and the bytes waiting in the buffer -/
theorem every_interleaving_demand_bounded (cs : List (List Byte)) (ms : List Move) (st' : RState) (b : List Byte)
    (h : resume ((Sys.init cs).run ms).st ((Sys.init cs).run ms).buf = .blocked st' b) :
    1 ≤ st'.demand b.length ∧ st'.demand b.length ≤ 1000 - (st'.taken + b.length) := by
  have hok : ((Sys.init cs).run ms).st.ok := sys_ok_run ms (s := Sys.init cs) trivial
  have := resume_blocked_bounded hok h
  omega

/-- non-vacuity and sharpness: a header announcing 1000 bytes; after the header the call waits
for 993 bytes with nothing buffered (7 + 0 + 993 = 1000); with 992 of them buffered for 1 more -/
example : callTrace .scanning [] [[0x68, 0xe8, 0x03, 0x56, 0x45, 0x30, 0x05], List.replicate 992 0] =
    [(.scanning, 0), (.body 0xe8 0x03 0x56 0x45 0x30 0x05, 0), (.body 0xe8 0x03 0x56 0x45 0x30 0x05, 992)] ∧
    (RState.body 0xe8 0x03 0x56 0x45 0x30 0x05).demand 0 = 993 ∧
    (RState.body 0xe8 0x03 0x56 0x45 0x30 0x05).demand 992 = 1 := by decide +kernel

end PlumVerif.C14

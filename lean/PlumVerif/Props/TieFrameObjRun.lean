import PlumVerif.Props.TieFrameObj
import PlumVerif.Props.C02Object
import PlumVerif.Props.C03Object
/-
Tie, frame object, operation SEQUENCES: `Frame_step_sim` (one translated method = one `Obj.step`) lifted by induction over
the list of operations, the instance threaded from call to call, to `Frame_run_sim`:

    running the translated methods one after the other  =  `Obj.run`, up to (and including) the FIRST operation that raises.

The translation has no instance after a raised exception (`Except`), so `runOps` stops at the first raising operation with
that exception; `firstRaised` says which one that is in the model's run (which goes on with the unchanged state).
With it the C02 / C03 object theorems of Props/C02Object.lean / C03Object.lean — statements about `Obj.run` — become
statements about the definitions generated from the SOURCE TEXT of `pyplumio/frames/__init__.py`:
`bytes_reflect_last_content_code`, `length_consistent_code`, `getters_pure_code`, `F5_one_sided_fill_code`,
`fresh_same_args_code`.
-/
namespace PlumVerif.TieFrameObj
open PlumVerif PlumVerif.Py PlumVerif.Obj

/-- the translated methods called one after the other on ONE instance: the values returned and the instance afterwards;
the first exception ends the run -/
def runOps (env : PyT.Env) (o : V) : List (Op V) → PyM (List V × V)
  | [] => .ok ([], o)
  | op :: ops =>
    match runOp env o op with
    | .error e => .error e
    | .ok (r, o') =>
      match runOps env o' ops with
      | .error e => .error e
      | .ok (rs, o'') => .ok (r :: rs, o'')

/-- the first exception in a list of outcomes -/
def firstRaised : List (Out V) → Option ObjErr
  | [] => none
  | .raised e :: _ => some e
  | _ :: os => firstRaised os

theorem isData_empty : IsData (.dict [] []) := ⟨rfl, rfl⟩

/-- **simulation of whole runs**: for EVERY sequence of operations satisfying the explicit side condition `hops` — every data
value SET is a data value (`OpOk (.setData d) = IsData d`: not `None`, which through the setter would leave a state outside
`Wf`: `step c x (.setData .none)` has `data = some .none`) —, every well-formed state and every
codec of the kind, the translated methods run in sequence raise exactly the model's first exception, and if the model's
run raises nothing they return the model's outcomes and leave the instance in the model's final state. -/
theorem Frame_run_sim (env : PyT.Env) (c : FrameCodec V) (err) {cls : Nat} (he : EnvCodec env c err cls) (h : V)
    (ops : List (Op V)) (hops : ∀ op ∈ ops, OpOk op) (x : PyFrame V) (hx : Wf x) (hcls : x.cls < 256) (hk : x.cls = cls) :
    runOps env (fobj h x) ops
      = (match firstRaised (run c x ops).2 with
        | some e => .error (err e)
        | none => .ok ((run c x ops).2.map outV, fobj h (run c x ops).1)) := by
  induction ops generalizing x with
  | nil => rfl
  | cons op ops ih =>
    have hs := Frame_step_sim env c err he h x hx hcls hk op
    have hw := step_wf c he.decoded (he.empty ▸ isData_empty) x hx op (hops op (List.mem_cons_self ..))
    have hh := C02.step_header c x op
    simp only at hh
    have ih' := ih (fun o ho => hops o (List.mem_cons_of_mem _ ho)) (step c x op).1 hw (by omega) (hh.1.trans hk)
    simp only [runOps, run, hs]
    cases hst : step c x op with
    | mk x' o =>
      rw [hst] at ih'
      cases o with
      | raised e => simp [firstRaised]
      | data d => simp only [ih', firstRaised]; cases firstRaised (run c x' ops).2 <;> simp [outV]
      | message m => simp only [ih', firstRaised]; cases firstRaised (run c x' ops).2 <;> simp [outV]
      | bytes b => simp only [ih', firstRaised]; cases firstRaised (run c x' ops).2 <;> simp [outV]
      | len n => simp only [ih', firstRaised]; cases firstRaised (run c x' ops).2 <;> simp [outV]
      | done => simp only [ih', firstRaised]; cases firstRaised (run c x' ops).2 <;> simp [outV]

/-- when the translated run returns, the model's run raised nothing and the instance IS the model's final state -/
theorem runOps_ok (env : PyT.Env) (c : FrameCodec V) (err) {cls : Nat} (he : EnvCodec env c err cls) (h : V)
    (ops : List (Op V)) (hops : ∀ op ∈ ops, OpOk op) (x : PyFrame V) (hx : Wf x) (hcls : x.cls < 256) (hk : x.cls = cls)
    (rs : List V) (o' : V) (hr : runOps env (fobj h x) ops = .ok (rs, o')) :
    firstRaised (run c x ops).2 = none ∧ rs = (run c x ops).2.map outV ∧ o' = fobj h (run c x ops).1 := by
  rw [Frame_run_sim env c err he h ops hops x hx hcls hk] at hr
  cases hf : firstRaised (run c x ops).2 with
  | some e => rw [hf] at hr; cases hr
  | none => rw [hf] at hr; cases hr; exact ⟨rfl, rfl, rfl⟩

theorem run_wf (c : FrameCodec V) (hdec : ∀ m d, c.decode m = .ok d → IsData d) (hempty : IsData c.empty)
    (ops : List (Op V)) (hops : ∀ op ∈ ops, OpOk op) (x : PyFrame V) (hx : Wf x) : Wf (run c x ops).1 := by
  induction ops generalizing x with
  | nil => exact hx
  | cons op ops ih =>
    simp only [run]
    exact ih (fun o ho => hops o (List.mem_cons_of_mem _ ho)) _ (step_wf c hdec hempty x hx op (hops op (List.mem_cons_self ..)))

/-- the result of the translated `bytes` for an outcome of the model -/
def bytesV (err : ObjErr → PyErr) : Out V → PyM V
  | .bytes b => .ok (.bytes b)
  | .raised e => .error (err e)
  | _ => .error .unsupported

theorem Frame_bytes_out (env : PyT.Env) (c : FrameCodec V) (err) {cls : Nat} (he : EnvCodec env c err cls) (h : V) (x : PyFrame V)
    (hx : Wf x) (hcls : x.cls < 256) (hk : x.cls = cls) :
    (PyCodeTypes.Frame_bytes env (fobj h x)).map Prod.fst = bytesV err (step c x .bytes).2 := by
  rw [Frame_bytes_eq env c err he h x hx hcls hk]
  simp only [step]
  cases ensureMessage c x with
  | error e => rfl
  | ok p =>
    obtain ⟨x', m⟩ := p
    simp only
    cases toFields x' m <;> rfl

/-- **`C02.bytes_reflect_last_content` about the translated `Frame`**: after ANY sequence of calls of the translated
getters / setters / `bytes` / `len()` that returned (instance `o'`), the translated `bytes` of that instance is the
envelope of the UNCHANGED header around the payload of the LAST content-defining operation (or raises what encoding that
content raises).  Stale caches are impossible in the code generated from the source. -/
theorem bytes_reflect_last_content_code (env : PyT.Env) (c : FrameCodec V) (err) {cls : Nat} (he : EnvCodec env c err cls) (h : V)
    (ops : List (Op V)) (hops : ∀ op ∈ ops, OpOk op) (x : PyFrame V) (hx : Wf x) (hcls : x.cls < 256) (hk : x.cls = cls)
    (rs : List V) (o' : V) (hr : runOps env (fobj h x) ops = .ok (rs, o')) :
    (PyCodeTypes.Frame_bytes env o').map Prod.fst = bytesV err (bytesOut x (lastPayload c x ops)) := by
  obtain ⟨_, _, ho⟩ := runOps_ok env c err he h ops hops x hx hcls hk rs o' hr
  have hh := C02.run_header c x ops
  simp only at hh
  rw [ho, Frame_bytes_out env c err he h _ (run_wf c he.decoded (he.empty ▸ isData_empty) ops hops x hx) (by omega) (hh.1.trans hk),
    C02.bytes_reflect_last_content]

/-- **`C02.length_consistent` about the translated `Frame`**: whenever the translated `bytes` returns, the translated
`__len__` on the same instance returns the number of those bytes, and the little-endian length field inside them says
the same. -/
theorem length_consistent_code (env : PyT.Env) (c : FrameCodec V) (err) {cls : Nat} (he : EnvCodec env c err cls) (h : V) (x : PyFrame V)
    (hx : Wf x) (hcls : x.cls < 256) (hk : x.cls = cls) (r o' : V) (hb : PyCodeTypes.Frame_bytes env (fobj h x) = .ok (r, o')) :
    ∃ b, r = .bytes b ∧ (PyCodeTypes.Frame_len env (fobj h x)).map Prod.fst = .ok (.int b.length)
      ∧ (b.getD 1 0).toNat + 256 * (b.getD 2 0).toNat = b.length := by
  have h1 := Frame_bytes_eq env c err he h x hx hcls hk
  have h2 := Frame_len_eq env c err he h x hx
  rw [hb] at h1
  cases hst : step c x .bytes with
  | mk x' o =>
    rw [hst] at h1
    cases o with
    | bytes b =>
      simp only at h1
      cases h1
      obtain ⟨hl, hle⟩ := C02.length_consistent c x b (by rw [hst])
      refine ⟨b, rfl, ?_, hle⟩
      rw [h2]
      cases hsl : step c x .len with
      | mk x'' o2 =>
        rw [hsl] at hl
        simp only at hl
        subst hl
        rfl
    | raised e => simp only at h1; cases h1
    | data d => simp only at h1; cases h1
    | message m => simp only at h1; cases h1
    | len n => simp only at h1; cases h1
    | done => simp only at h1; cases h1

/-- **`C02.getters_pure` about the translated `Frame`**: reading `data`, `message`, `bytes` or `len()` first never changes
what the translated `bytes` returns after the same later operations. -/
theorem getters_pure_code (env : PyT.Env) (c : FrameCodec V) (err) {cls : Nat} (he : EnvCodec env c err cls) (h : V)
    (g : Op V) (hg : g.isGetter = true) (ops : List (Op V)) (hops : ∀ op ∈ ops, OpOk op) (x : PyFrame V) (hx : Wf x)
    (hcls : x.cls < 256) (hk : x.cls = cls) (rs rs' : List V) (o' o'' : V)
    (hr : runOps env (fobj h x) (g :: ops) = .ok (rs, o')) (hr' : runOps env (fobj h x) ops = .ok (rs', o'')) :
    (PyCodeTypes.Frame_bytes env o').map Prod.fst = (PyCodeTypes.Frame_bytes env o'').map Prod.fst := by
  have hgo : OpOk g := by cases g <;> simp_all [OpOk, Op.isGetter]
  have hops' : ∀ op ∈ g :: ops, OpOk op := by
    intro op ho
    rcases List.mem_cons.mp ho with rfl | ho
    · exact hgo
    · exact hops op ho
  rw [bytes_reflect_last_content_code env c err he h (g :: ops) hops' x hx hcls hk rs o' hr,
    bytes_reflect_last_content_code env c err he h ops hops x hx hcls hk rs' o'' hr']
  have := C02.getters_pure c x g hg ops
  rw [C02.bytes_reflect_last_content, C02.bytes_reflect_last_content] at this
  have e : lastPayload c x (g :: ops) = lastPayload c x ops := by cases g <;> simp_all [lastPayload, Op.isGetter]
  rw [e]

open Classical in
/-- **`C03.eq_fresh_iff`, construction side, about the translated `Frame`**: the translated constructor stores exactly the
arguments — two constructions give the same instance iff recipient, sender, econet type / version, message and data
agree (`Frame.__eq__` compares these slots and the class; `V` has no computable equality: `pyEq` is taken with the
classical instance). -/
theorem fresh_same_args_code (env : PyT.Env) (k : Nat) (r₁ s₁ t₁ v₁ r₂ s₂ t₂ v₂ : Int) (m₁ m₂ : Option (List UInt8)) (d₁ d₂ : Option V)
    (hd₁ : ∀ d, d₁ = some d → IsData d) (hd₂ : ∀ d, d₂ = some d → IsData d) :
    PyCodeTypes.Frame_new env (.int r₁) (.int s₁) (.int t₁) (.int v₁) (optB m₁) (optD d₁) (.dict [] [])
        = PyCodeTypes.Frame_new env (.int r₂) (.int s₂) (.int t₂) (.int v₂) (optB m₂) (optD d₂) (.dict [] [])
      ↔ PyFrame.pyEq (construct k r₁ s₁ t₁ v₁ m₁ d₁) (construct k r₂ s₂ t₂ v₂ m₂ d₂) = true := by
  rw [Frame_new_eq env k, Frame_new_eq env k, C03.eq_fresh_iff]
  simp only [fobj, construct, Except.ok.injEq, V.obj.injEq, true_and, List.cons.injEq, V.int.injEq, and_true]
  have hB : optB m₁ = optB m₂ ↔ m₁ = m₂ := by
    cases m₁ <;> cases m₂ <;> simp [optB]
  have hD : optD d₁ = optD d₂ ↔ d₁ = d₂ := by
    cases d₁ with
    | none =>
      cases d₂ with
      | none => simp
      | some b =>
        have := (hd₂ b rfl).1
        simp only [optD, reduceCtorEq, iff_false]
        intro hh; rw [← hh] at this; cases this
    | some a =>
      cases d₂ with
      | none =>
        have := (hd₁ a rfl).1
        simp only [optD, reduceCtorEq, iff_false]
        intro hh; rw [hh] at this; cases this
      | some b => simp [optD]
  rw [hB, hD]

/-- **F5 (`C03.F5_one_sided_fill`) about the translated `Frame`**: reading the translated `bytes` on a frame without a cached
message, with success, leaves an instance that differs from the instance before (the cache is part of the compared state);
reading `message` instead leaves the very same instance as reading `bytes`. -/
theorem F5_one_sided_fill_code (env : PyT.Env) (c : FrameCodec V) (err) {cls : Nat} (he : EnvCodec env c err cls) (h : V) (x : PyFrame V)
    (hx : Wf x) (hcls : x.cls < 256) (hk : x.cls = cls) (hm : x.message = none) (r o' : V)
    (hb : PyCodeTypes.Frame_bytes env (fobj h x) = .ok (r, o')) :
    o' ≠ fobj h x ∧ ∃ r', PyCodeTypes.Frame_message env (fobj h x) = .ok (r', o') := by
  have h1 := Frame_bytes_eq env c err he h x hx hcls hk
  have h2 := Frame_message_eq env c err he h x hx
  rw [hb] at h1
  simp only [step] at h1
  cases hem : ensureMessage c x with
  | error e => rw [hem] at h1; cases h1
  | ok p =>
    obtain ⟨x', m⟩ := p
    rw [hem] at h1 h2
    simp only at h1 h2
    have hx' := ensureMessage_hdr c x x' m hem
    cases htf : toFields x' m with
    | none => rw [htf] at h1; cases h1
    | some f =>
      rw [htf] at h1
      simp only at h1
      cases h1
      refine ⟨?_, _, h2⟩
      intro heq
      simp only [fobj, V.obj.injEq, List.cons.injEq, true_and] at heq
      rw [hx'.2.2.2.2.2.2, hm] at heq
      simp [optB] at heq

/-! ### non-vacuity: a run with a stale-cache opportunity on the plain-request kind -/

example : runOps (requestEnv 49) (fobj .none ⟨49, 0, 86, 48, 5, none, none⟩) [.getData, .setMessage [7], .getData, .len]
    = .ok ([.dict [] [], .none, .dict [] [], .int 11], fobj .none ⟨49, 0, 86, 48, 5, some [7], some (.dict [] [])⟩) := by
  rw [Frame_run_sim _ _ _ (requestEnv_codec 49) _ _ (by intro op ho; simp at ho; rcases ho with rfl | rfl | rfl | rfl <;> trivial)
    _ (by intro d hd; cases hd) (by decide) rfl]
  rfl

example : firstRaised [.done, .raised .decode, .raised .struct] = some ObjErr.decode := rfl

end PlumVerif.TieFrameObj

import PlumVerif.Model.DecodeSensors
import PlumVerif.Proofs.DecodeSensors
/-
Truncated payloads (C05 extension, task 3): how the sensor-data decoders behave on strict
prefixes of a well-formed encoding.  Core Lean only.

`Starves d e`: on every strict prefix of `e` (with nothing after it) `d` fails or succeeds leaving
no byte.  Every stage also fails on the empty input, so a stage that "succeeds" on a cut encoding
(pending alerts: the skipped bytes are not bounds-checked; a mixer block: its tail is not read)
makes the NEXT stage fail.
-/
namespace PlumVerif
open Wire Sens

def Starves {α : Type} (d : Dec α) (e : List Byte) : Prop :=
  ∀ n, n < e.length → d (e.take n) = none ∨ ∃ v, d (e.take n) = some (v, [])

/-- a stage: round trip with any tail, starving on strict prefixes, failing on nothing -/
structure StageOK {α : Type} (d : Dec α) (e : List Byte) (v : α) : Prop where
  rt : ∀ tail, d (e ++ tail) = some (v, tail)
  starves : Starves d e
  nil : d [] = none

theorem take_append_lt {n : Nat} {a : List Byte} (b : List Byte) (h : n < a.length) :
    (a ++ b).take n = a.take n := by
  rw [List.take_append_of_le_length (Nat.le_of_lt h)]

theorem take_append_ge {n : Nat} {a : List Byte} (b : List Byte) (h : a.length ≤ n) :
    (a ++ b).take n = a ++ b.take (n - a.length) := by
  rw [List.take_append, List.take_of_length_le h]

/-! ### lists of items (`decN`) -/

theorem decN_nil_none {α : Type} (d : Dec α) (hnil : d [] = none) (k : Nat) : decN d (k + 1) [] = none := by
  simp [decN, hnil]

theorem decN_succ_rt {α : Type} (d : Dec α) (k : Nat) (e s : List Byte) (v : α)
    (hrt : ∀ tail, d (e ++ tail) = some (v, tail)) :
    decN d (k + 1) (e ++ s) = (decN d k s).bind fun r => some (v :: r.1, r.2) := by
  simp [decN, hrt]

theorem decN_starves {α β : Type} (d : Dec β) (enc : α → List Byte) (val : α → β) (xs : List α)
    (h : ∀ x ∈ xs, StageOK d (enc x) (val x)) :
    Starves (decN d xs.length) (xs.flatMap enc) := by
  induction xs with
  | nil => intro n hn; simp at hn
  | cons x r ih =>
    intro n hn
    have hx := h x (by simp)
    have hr : ∀ y ∈ r, StageOK d (enc y) (val y) := fun y hy => h y (by simp [hy])
    simp only [List.flatMap_cons, List.length_append, List.length_cons] at hn ⊢
    by_cases hlt : n < (enc x).length
    · rw [take_append_lt _ hlt]
      cases hx.starves n hlt with
      | inl hnone => left; simp [decN, hnone]
      | inr hsome =>
        obtain ⟨v, hv⟩ := hsome
        cases r with
        | nil => right; exact ⟨[v], by simp [decN, hv]⟩
        | cons y r' =>
          left
          simp [decN, hv, (hr y (by simp)).nil]
    · rw [take_append_ge _ (Nat.le_of_not_lt hlt)]
      have hlt' : n - (enc x).length < (r.flatMap enc).length := by omega
      simp only [decN, hx.rt, Option.bind_eq_bind, Option.bind_some]
      cases ih hr (n - (enc x).length) hlt' with
      | inl hnone => left; simp [hnone]
      | inr hsome => obtain ⟨v, hv⟩ := hsome; right; exact ⟨val x :: v, by simp [hv]⟩

/-- strict-prefix bound of a list of items: everything before the last item, plus the last
item's own bound -/
def kList {α : Type} (len k : α → Nat) : List α → Nat
  | [] => 0
  | [x] => k x
  | x :: y :: r => len x + kList len k (y :: r)

theorem decN_take_none {α β : Type} (d : Dec β) (enc : α → List Byte) (val : α → β) (k : α → Nat)
    (xs : List α)
    (h : ∀ x ∈ xs, StageOK d (enc x) (val x) ∧
      ∀ n, n < k x → n < (enc x).length → d ((enc x).take n) = none) :
    ∀ j, j < kList (fun x => (enc x).length) k xs → j < (xs.flatMap enc).length →
      decN d xs.length ((xs.flatMap enc).take j) = none := by
  induction xs with
  | nil => intro j hj; simp [kList] at hj
  | cons x r ih =>
    intro j hj hlen
    have hx := h x (by simp)
    have hr : ∀ y ∈ r, StageOK d (enc y) (val y) ∧
        ∀ n, n < k y → n < (enc y).length → d ((enc y).take n) = none := fun y hy => h y (by simp [hy])
    simp only [List.flatMap_cons, List.length_append] at hlen ⊢
    cases r with
    | nil =>
      simp only [kList] at hj
      simp only [List.flatMap_nil, List.append_nil, List.length_nil, Nat.add_zero] at hlen ⊢
      simp [decN, hx.2 j hj hlen]
    | cons y r' =>
      simp only [kList] at hj
      by_cases hlt : j < (enc x).length
      · rw [take_append_lt _ hlt]
        cases hx.1.starves j hlt with
        | inl hnone => simp [decN, hnone]
        | inr hsome =>
          obtain ⟨v, hv⟩ := hsome
          simp [decN, hv, (hr y (by simp)).1.nil]
      · rw [take_append_ge _ (Nat.le_of_not_lt hlt)]
        have h1 : j - (enc x).length < kList (fun x => (enc x).length) k (y :: r') := by omega
        have h2 : j - (enc x).length < ((y :: r').flatMap enc).length := by omega
        have hrest := ih hr (j - (enc x).length) h1 h2
        rw [List.length_cons, decN_succ_rt d _ _ _ _ hx.1.rt, hrest]
        rfl

/-! ### chains of stages -/

def decChain {α : Type} : List (Dec α) → Dec (List α)
  | [], s => some ([], s)
  | d :: ds, s => (d s).bind fun vr => (decChain ds vr.2).bind fun vsr => some (vr.1 :: vsr.1, vsr.2)

/-- a chain of stages, each with its encoding and value -/
def ChainOK {α : Type} : List (Dec α) → List (List Byte) → List α → Prop
  | [], [], [] => True
  | d :: ds, e :: es, v :: vs => StageOK d e v ∧ ChainOK ds es vs
  | _, _, _ => False

theorem decChain_rt {α : Type} : ∀ (ds : List (Dec α)) (es : List (List Byte)) (vs : List α),
    ChainOK ds es vs → ∀ tail, decChain ds (es.flatten ++ tail) = some (vs, tail)
  | [], [], [], _, tail => by simp [decChain]
  | d :: ds, e :: es, v :: vs, h, tail => by
    have ih := decChain_rt ds es vs h.2 tail
    simp [decChain, List.append_assoc, h.1.rt, ih]
  | [], _ :: _, _, h, _ => by cases h
  | [], [], _ :: _, h, _ => by cases h
  | _ :: _, [], _, h, _ => by cases h
  | _ :: _, _ :: _, [], h, _ => by cases h

theorem decChain_nil {α : Type} : ∀ (ds : List (Dec α)) (es : List (List Byte)) (vs : List α),
    ChainOK ds es vs → ds ≠ [] → decChain ds [] = none
  | [], _, _, _, hne => absurd rfl hne
  | d :: ds, e :: es, v :: vs, h, _ => by simp [decChain, h.1.nil]
  | _ :: _, [], _, h, _ => by cases h
  | _ :: _, _ :: _, [], h, _ => by cases h

theorem decChain_starves {α : Type} : ∀ (ds : List (Dec α)) (es : List (List Byte)) (vs : List α),
    ChainOK ds es vs → Starves (decChain ds) es.flatten
  | [], [], [], _ => by intro n hn; simp at hn
  | d :: ds, e :: es, v :: vs, h => by
    intro n hn
    simp only [List.flatten_cons, List.length_append] at hn ⊢
    by_cases hlt : n < e.length
    · rw [take_append_lt _ hlt]
      cases h.1.starves n hlt with
      | inl hnone => left; simp [decChain, hnone]
      | inr hsome =>
        obtain ⟨w, hw⟩ := hsome
        cases ds with
        | nil => right; exact ⟨[w], by simp [decChain, hw]⟩
        | cons d' ds' =>
          left
          have hn' := decChain_nil (d' :: ds') es vs h.2 (by simp)
          show (d (e.take n)).bind (fun vr => (decChain (d' :: ds') vr.2).bind
            fun vsr => some (vr.1 :: vsr.1, vsr.2)) = none
          rw [hw]
          simp only [Option.bind_some, hn']
          rfl
    · rw [take_append_ge _ (Nat.le_of_not_lt hlt)]
      have hlt' : n - e.length < es.flatten.length := by omega
      simp only [decChain, h.1.rt, Option.bind_some]
      cases decChain_starves ds es vs h.2 (n - e.length) hlt' with
      | inl hnone => left; simp [hnone]
      | inr hsome => obtain ⟨w, hw⟩ := hsome; right; exact ⟨v :: w, by simp [hw]⟩
  | [], _ :: _, _, h => by cases h
  | [], [], _ :: _, h => by cases h
  | _ :: _, [], _, h => by cases h
  | _ :: _, _ :: _, [], h => by cases h

theorem chain_stageOK {α : Type} (ds : List (Dec α)) (es : List (List Byte)) (vs : List α)
    (h : ChainOK ds es vs) (hne : ds ≠ []) : StageOK (decChain ds) es.flatten vs :=
  ⟨decChain_rt ds es vs h, decChain_starves ds es vs h, decChain_nil ds es vs h hne⟩

theorem decFieldsSeq_chain (d : String → Dec Val) (names : List String) (s : List Byte) :
    decFieldsSeq d names s = (decChain (names.map d) s).bind fun x => some (names.zip x.1, x.2) := by
  induction names generalizing s with
  | nil => rfl
  | cons n ns ih =>
    simp only [decFieldsSeq, List.map_cons, decChain, Option.bind_eq_bind, Option.pure_def, ih]
    cases d n s with
    | none => rfl
    | some vr =>
      simp only [Option.bind_some]
      cases decChain (ns.map d) vr.2 <;> rfl

/-! ### the sensor-data decoder as a chain of 17 stages followed by the mixers -/

def byteStage (name : String) : Dec VFields := fun s =>
  (readByte s).bind fun br => some ([(name, Val.nat br.1.toNat)], br.2)

def stages17 : List (Dec VFields) :=
  [decFrameVersions, byteStage "state", decOutputs, decOutputFlags, decTemperatures, decStatuses,
   decPendingAlerts, decFuelLevel, byteStage "transmission", decOptF32 "fan_power", decBoilerLoad,
   decOptF32 "boiler_power", decOptF32 "fuel_consumption", byteStage "thermostat", decModules,
   decLambda, decThermostats]

def stateOf : List VFields → Nat
  | _ :: [(_, Val.int i)] :: _ => i.toNat
  | _ => 0

theorem decodeSensorData_chain (msg : List Byte) :
    decodeSensorData msg =
      (decChain stages17 msg).bind fun sr =>
        (decMixers sr.2).bind fun mr => some (finish (sr.1 ++ [mr.1]) (deviceStateOf (stateOf sr.1))) := by
  simp only [decodeSensorData, decChain, stages17, byteStage, Option.bind_eq_bind, Option.bind_assoc,
    Option.bind_some, Option.pure_def, stateOf, Val.nat, Int.toNat_natCast, Int.ofNat_eq_natCast,
    List.cons_append, List.nil_append]

/-! ### building blocks for single stages -/

theorem takeN_short {k : Nat} {s : List Byte} (h : s.length < k) : takeN k s = none := by
  simp [takeN, h]

theorem readLE_short {k : Nat} {s : List Byte} (h : s.length < k) : readLE k s = none := by
  simp [readLE, takeN_short h]

theorem readF32_short {s : List Byte} (h : s.length < 4) : readF32 s = none := by
  simp [readF32, readLE_short h]

theorem length_take_lt {n : Nat} {e : List Byte} (h : n < e.length) : (e.take n).length = n := by
  simp [List.length_take]; omega

/-- post-processing the value of a stage keeps it a stage -/
theorem StageOK.map {α β : Type} {d : Dec α} {e : List Byte} {v : α} (h : StageOK d e v)
    (stage : Dec β) (g : α → β)
    (hs : ∀ s, stage s = (d s).bind fun r => some (g r.1, r.2)) : StageOK stage e (g v) where
  rt := by intro tail; simp [hs, h.rt]
  starves := by
    intro n hn
    cases h.starves n hn with
    | inl hnone => left; simp [hs, hnone]
    | inr hsome => obtain ⟨w, hw⟩ := hsome; right; exact ⟨g w, by simp [hs, hw]⟩
  nil := by simp [hs, h.nil]

/-- a fixed-width little-endian field: every strict prefix fails -/
theorem le_stageOK (k v : Nat) (hk : 0 < k) (hv : v < 256 ^ k) : StageOK (readLE k) (encodeLE v k) v where
  rt := fun tail => readLE_encodeLE tail hv
  starves := by
    intro n hn
    left
    apply readLE_short
    rw [encodeLE_length] at hn
    rw [length_take_lt (by rw [encodeLE_length]; exact hn)]; exact hn
  nil := readLE_short (by simpa using hk)

theorem byte_stageOK (b : Byte) : StageOK readByte [b] b where
  rt := fun _ => rfl
  starves := by
    intro n hn
    have : n = 0 := by simpa using hn
    subst this; left; rfl
  nil := rfl

/-- one stage after another (the second fails on nothing) -/
theorem seq_stageOK {α β γ : Type} {d1 : Dec α} {d2 : Dec β} {e1 e2 : List Byte} {v1 : α} {v2 : β}
    (h1 : StageOK d1 e1 v1) (h2 : StageOK d2 e2 v2) (stage : Dec γ) (g : α → β → γ)
    (hs : ∀ s, stage s = (d1 s).bind fun r1 => (d2 r1.2).bind fun r2 => some (g r1.1 r2.1, r2.2)) :
    StageOK stage (e1 ++ e2) (g v1 v2) where
  rt := by intro tail; simp [hs, List.append_assoc, h1.rt, h2.rt]
  starves := by
    intro n hn
    simp only [List.length_append] at hn
    by_cases hlt : n < e1.length
    · rw [take_append_lt _ hlt]
      cases h1.starves n hlt with
      | inl hnone => left; simp [hs, hnone]
      | inr hsome => obtain ⟨w, hw⟩ := hsome; left; simp [hs, hw, h2.nil]
    · rw [take_append_ge _ (Nat.le_of_not_lt hlt)]
      cases h2.starves (n - e1.length) (by omega) with
      | inl hnone => left; simp [hs, h1.rt, hnone]
      | inr hsome => obtain ⟨w, hw⟩ := hsome; right; exact ⟨g v1 w, by simp [hs, h1.rt, hw]⟩
  nil := by simp [hs, h1.nil]

/-- a leading byte that selects the stage, then the stage -/
theorem cons_stageOK {α β : Type} {d : Dec α} {e : List Byte} {v : α} (h : StageOK d e v)
    (stage : Dec β) (c : Byte) (g : α → β)
    (hs : ∀ r, stage (c :: r) = (d r).bind fun x => some (g x.1, x.2)) (hnil : stage [] = none) :
    StageOK stage (c :: e) (g v) where
  rt := by intro tail; simp [hs, h.rt]
  starves := by
    intro n hn
    cases n with
    | zero => left; exact hnil
    | succ n =>
      simp only [List.length_cons] at hn
      simp only [List.take_succ_cons, hs]
      cases h.starves n (by omega) with
      | inl hnone => left; simp [hnone]
      | inr hsome => obtain ⟨w, hw⟩ := hsome; right; exact ⟨g w, by simp [hw]⟩
  nil := hnil

/-- a count byte followed by that many items -/
theorem counted_stageOK {α β γ : Type} (d : Dec β) (enc : α → List Byte) (val : α → β) (xs : List α)
    (hn : xs.length < 256) (hitems : ∀ x ∈ xs, StageOK d (enc x) (val x))
    (stage : Dec γ) (f : Byte → List β → γ)
    (hs : ∀ s, stage s = (readByte s).bind fun br =>
      (decN d br.1.toNat br.2).bind fun xr => some (f br.1 xr.1, xr.2)) :
    StageOK stage (xs.length.toUInt8 :: xs.flatMap enc) (f xs.length.toUInt8 (xs.map val)) where
  rt := by
    intro tail
    have hd := decN_flatMap d enc val xs tail (fun x hx r => (hitems x hx).rt r)
    simp [hs, toUInt8_toNat_of_lt hn, hd]
  starves := by
    intro n hlt
    cases n with
    | zero => left; simp [hs, readByte]
    | succ n =>
      simp only [List.length_cons] at hlt
      simp only [List.take_succ_cons, hs, readByte_cons, Option.bind_some, toUInt8_toNat_of_lt hn]
      cases decN_starves d enc val xs hitems n (by omega) with
      | inl hnone => left; simp [hnone]
      | inr hsome => obtain ⟨w, hw⟩ := hsome; right; exact ⟨f xs.length.toUInt8 w, by simp [hw]⟩
  nil := by simp [hs, readByte]

end PlumVerif

import PlumVerif.Model.DecodeMisc
import PlumVerif.Proofs.DecodeParams
/- helper lemmas for the schedules / alerts / product-info / password round trips (core Lean only) -/
namespace PlumVerif.P2

theorem toUInt8_toNat (n : Nat) (h : n < 256) : n.toUInt8.toNat = n := by
  simp [Nat.toUInt8, UInt8.toNat_ofNat']; omega

/-! ### schedules -/

theorem list8 {α} (l : List α) (h : l.length = 8) : ∃ a b c d e f g i, l = [a, b, c, d, e, f, g, i] := by
  match l with
  | [a, b, c, d, e, f, g, i] => exact ⟨a, b, c, d, e, f, g, i, rfl⟩
  | [] | [_] | [_, _] | [_, _, _] | [_, _, _, _] | [_, _, _, _, _] | [_, _, _, _, _, _]
  | [_, _, _, _, _, _, _] => simp at h
  | _ :: _ :: _ :: _ :: _ :: _ :: _ :: _ :: _ :: _ => simp at h

theorem splitByte_joinBits8 : ∀ a b c d e f g i : Bool,
    splitByte (joinBits [a, b, c, d, e, f, g, i]) = [a, b, c, d, e, f, g, i] := by decide

/-- eight bits, most significant first, survive the byte -/
theorem splitByte_joinBits (bs : List Bool) (h : bs.length = 8) : splitByte (joinBits bs) = bs := by
  obtain ⟨a, b, c, d, e, f, g, i, rfl⟩ := list8 bs h
  exact splitByte_joinBits8 a b c d e f g i

/-- a byte is the join of its split (the other direction) -/
theorem joinBits_splitByte (b : Byte) : joinBits (splitByte b) = b := by
  have h : ∀ n, n < 256 → joinBits (splitByte n.toUInt8) = n.toUInt8 := by decide +kernel
  have := h b.toNat b.toNat_lt
  simpa using this

theorem drop3_encSlot (s : Slot) (rest : List Byte) : (encSlot 1 s ++ rest).drop 3 = rest :=
  drop_encSlot 1 s rest

theorem length_packBits (k : Nat) (bits : List Bool) : (packBits k bits).length = k := by
  induction k generalizing bits with
  | zero => rfl
  | succ k ih => simp [packBits, ih]

theorem unpack_packBits (k : Nat) (bits : List Bool) (h : bits.length = 8 * k) :
    (packBits k bits).flatMap splitByte = bits := by
  induction k generalizing bits with
  | zero => simp at h; simp [packBits, h]
  | succ k ih =>
    simp only [packBits, List.flatMap_cons]
    rw [splitByte_joinBits _ (by simp; omega), ih _ (by simp; omega), List.take_append_drop]

theorem length_days_bytes (days : List (List Bool)) :
    (days.flatMap (packBits 6)).length = 6 * days.length := by
  induction days with
  | nil => rfl
  | cons d ds ih => simp [length_packBits, ih]; omega

theorem unpack_days (days : List (List Bool)) (h : ∀ d ∈ days, d.length = 48) :
    (days.flatMap (packBits 6)).flatMap splitByte = days.flatten := by
  induction days with
  | nil => rfl
  | cons d ds ih =>
    simp only [List.flatMap_cons, List.flatMap_append, List.flatten_cons]
    rw [unpack_packBits 6 d (by rw [h d (by simp)]), ih (fun d' hd' => h d' (by simp [hd']))]

theorem splitDays_flatten (days : List (List Bool)) (h : ∀ d ∈ days, d.length = 48) :
    splitDays days.length days.flatten = days := by
  induction days with
  | nil => rfl
  | cons d ds ih =>
    have hd := h d (by simp)
    simp only [List.length_cons, splitDays, List.flatten_cons]
    rw [take_left _ _ _ hd, drop_left _ _ _ hd, ih (fun d' hd' => h d' (by simp [hd']))]

theorem dayCount_eq : dayCount = 7 := by decide
theorem scheduleSize_eq : Gen.scheduleSize = 42 := rfl

theorem decodeSchedLoop_enc (entries : List SchedEntry) (rest : List Byte)
    (h : ∀ e ∈ entries, wfSchedEntry e = true) :
    decodeSchedLoop entries.length (entries.flatMap encodeSchedEntry ++ rest)
      = .ok (entries.map (fun e => (e.index.toNat, e.days)), entries.flatMap schedParams, rest) := by
  induction entries with
  | nil => simp [decodeSchedLoop]
  | cons e es ih =>
    have he := h e (by simp)
    simp only [wfSchedEntry, Bool.and_eq_true, decide_eq_true_eq, List.all_eq_true] at he
    obtain ⟨⟨hp, h7⟩, h48⟩ := he
    have hlen : (e.days.flatMap (packBits 6)).length = 42 := by rw [length_days_bytes, h7]
    simp only [List.length_cons, List.flatMap_cons, encodeSchedEntry, List.cons_append,
      List.nil_append, List.append_assoc, decodeSchedLoop]
    rw [drop3_encSlot, unpackParam_encSlot 1 e.param _ hp]
    simp only [scheduleSize_eq, List.length_append, hlen]
    rw [if_neg (by omega), take_left _ _ _ hlen, drop_left _ _ _ hlen,
      ih (fun e' he' => h e' (by simp [he'])), unpack_days _ h48, dayCount_eq, ← h7,
      splitDays_flatten _ h48]
    cases hpar : e.param <;> simp [schedParams, hpar]

/-! ### alerts -/

theorem daysIn_le (y mo : Nat) : daysIn y mo ≤ 31 := by
  unfold daysIn; split <;> (try split) <;> omega

/-- the 31-day-month timestamp determines its date -/
theorem dtOf_tsOf (t : DT) (hy : 2000 ≤ t.y) (hv : validDT t = true) : dtOf (tsOf t) = t := by
  obtain ⟨y, mo, d, h, mi, s⟩ := t
  simp only [validDT, decide_eq_true_eq] at hv
  have hd := daysIn_le y mo
  simp only at hy
  simp only [dtOf, tsOf, DT.mk.injEq]
  refine ⟨?_, ?_, ?_, ?_, ?_, ?_⟩ <;> omega

theorem decodeAlert_enc (a : AlertRec) (rest : List Byte) (h : wfAlert a = true) :
    decodeAlert (encodeAlert a ++ rest) = .ok (a, rest) := by
  obtain ⟨code, f, to⟩ := a
  simp only [wfAlert, wfDT, Bool.and_eq_true, decide_eq_true_eq] at h
  obtain ⟨⟨⟨hfy, hfv⟩, hft⟩, hto⟩ := h
  have hf32 : tsOf f < 256 ^ 4 := by simp only [maxU32] at hft; omega
  simp only [encodeAlert, List.cons_append, List.append_assoc, decodeAlert]
  have l4 (n : Nat) : (encodeLE n 4).length = 4 := length_encodeLE n 4
  rw [if_neg (by simp [l4])]
  simp only [take_left _ _ _ (l4 _), drop_left _ _ _ (l4 _)]
  rw [if_neg (by simp [l4])]
  simp only [decodeLE_encodeLE _ _ hf32, dtOf_tsOf f hfy hfv, hfv]
  cases to with
  | none =>
    simp only [Bool.not_true, Bool.false_eq_true, ↓reduceIte]
    rw [decodeLE_encodeLE _ _ (by decide)]
    simp
  | some t =>
    simp only [Bool.and_eq_true, decide_eq_true_eq] at hto
    obtain ⟨⟨⟨hty, htv⟩, htt⟩, htne⟩ := hto
    have ht32 : tsOf t < 256 ^ 4 := by simp only [maxU32] at htt; omega
    simp only [Bool.not_true, Bool.false_eq_true, ↓reduceIte, decodeLE_encodeLE _ _ ht32,
      dtOf_tsOf t hty htv, htv]
    rw [if_neg htne]

theorem decodeAlertList_enc (as : List AlertRec) (rest : List Byte)
    (h : ∀ a ∈ as, wfAlert a = true) :
    decodeAlertList as.length (as.flatMap encodeAlert ++ rest) = .ok (as, rest) := by
  induction as with
  | nil => simp [decodeAlertList]
  | cons a as ih =>
    simp only [List.length_cons, List.flatMap_cons, List.append_assoc, decodeAlertList]
    rw [decodeAlert_enc a _ (h a (by simp))]
    simp only [ih (fun a' ha' => h a' (by simp [ha']))]

end PlumVerif.P2

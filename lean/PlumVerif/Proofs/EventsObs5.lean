import PlumVerif.Proofs.EventsObs4
namespace PlumVerif.C13

/-- the log a task produced, in the judge's form -/
theorem entries_eq (sc : Nat → Script) (ops : List Op) (i : Nat) :
    entriesOf (observe sc ops).log i = (awaited ((runOps sc ops).s.d i).trail).map pairOf := by
  have h := runOps_dInv sc ops
  rw [observe, entriesOf_obs, (h.m.inv.d i).logOf]

theorem lt_of_getElem? {α : Type} {l : List α} {i : Nat} {x : α} (h : l[i]? = some x) : i < l.length := by
  by_cases hi : i < l.length
  · exact hi
  · rw [List.getElem?_eq_none (by omega)] at h; simp at h

theorem holds_threading (sc : Nat → Script) (ops : List Op) : threading sc ops (observe sc ops) = true := by
  have h := runOps_dInv sc ops
  simp only [threading, List.all_eq_true, List.mem_range]
  intro i hi
  cases hp : (dispList ops)[i]? with
  | none => rfl
  | some p =>
    obtain ⟨n, v⟩ := p
    simp only
    rw [entries_eq]
    have hinit := (h.m.dinfo i (n, v) hp).2
    have := (h.m.inv.d i).threaded
    rw [hinit] at this
    exact threaded_threadOK sc v _ this

theorem lastDone_iff (sc : Nat → Script) (ops : List Op) (i : Nat) :
    lastDone (observe sc ops) i = isDone ((runOps sc ops).s.d i) := by
  have h := runOps_dInv sc ops
  have := h.lastDone i
  simp only [lastDone, observe, obsOf]
  cases hl : (runOps sc ops).snaps.getLast? with
  | none =>
    simp only [lastFrom, hl, Option.getD_none, snap0] at this
    simpa using this
  | some sn =>
    simp only [lastFrom, hl, Option.getD_some] at this
    exact this

theorem holds_order (sc : Nat → Script) (ops : List Op) : order ops (observe sc ops) = true := by
  have h := runOps_dInv sc ops
  simp only [order, List.all_eq_true, List.mem_range]
  intro i hi
  cases hp : (dispList ops)[i]? with
  | none => rfl
  | some p =>
    obtain ⟨n, v⟩ := p
    cases ha : (dispIdxFrom 0 ops)[i]? with
    | none => rfl
    | some a =>
      simp only
      have hname : ((runOps sc ops).s.d i).name = n := (h.m.dinfo i (n, v) hp).1
      have halt : a < ops.length := by
        have := dispIdx_lt 0 ops a (List.mem_of_getElem? ha); omega
      apply List.any_eq_true.2
      have hok := h.m.inv.d i
      have hsh := hok.shape
      unfold shapeOK at hsh
      by_cases hst : ((runOps sc ops).s.d i).ph.started = true
      · obtain ⟨a', k, h1, h2, h3, h4⟩ := h.m.started i hst
        have : a' = a := by rw [ha] at h1; injection h1 with h1; exact h1.symm
        subst this
        refine ⟨k, by simp; omega, ?_⟩
        have hP : ∀ x ∈ ((runOps sc ops).s.d i).trail.map (·.1), plainOnly ops x.cb = true → x.once = false := by
          intro x hx hpo
          -- the entries a task has passed are recorded subscriptions of its name
          have hpre : ((runOps sc ops).s.d i).trail.map (·.1) <+: ((runOps sc ops).s.d i).snapshot := by
            cases hph : ((runOps sc ops).s.d i).ph with
            | absent => rw [hph] at hst; simp [DPhase.started] at hst
            | created => rw [hph] at hst; simp [DPhase.started] at hst
            | running => exact absurd hph (h.m.inv.r i)
            | inCb rest u k' val => rw [hph] at hsh; simp only at hsh; exact ⟨rest, hsh.1⟩
            | done f => rw [hph] at hsh; simp only at hsh; rw [hsh.1]; exact List.prefix_refl _
          have hsub := h.m.isnap i hst x (hpre.subset hx)
          have hmem : ((runOps sc ops).s.d i).name = n := hname
          have : (n, x.cb, x.once) ∈ subsOf ops := by
            rw [← h.m.subsOps, ← hmem]
            exact List.mem_map.2 ⟨_, hsub, rfl⟩
          cases ho : x.once with
          | false => rfl
          | true =>
            rw [ho] at this
            have := subsOf_once_mem ops n x.cb this
            simp [plainOnly, this] at hpo
        have hgot := awaited_plain (plainOnly ops) _ hok.skipped hP
        simp only [orderAt, h2, decide_true, Bool.true_and, entries_eq, lastDone_iff]
        rw [hgot, ← hname, ← h4]
        cases hph : ((runOps sc ops).s.d i).ph with
        | absent => rw [hph] at hst; simp [DPhase.started] at hst
        | created => rw [hph] at hst; simp [DPhase.started] at hst
        | running => exact absurd hph (h.m.inv.r i)
        | inCb rest u k' val =>
          rw [hph] at hsh; simp only at hsh
          simp only [isDone, hph, Bool.false_eq_true, if_false]
          exact List.isPrefixOf_iff_prefix.2 (plainProj_prefix _ _ _ ⟨rest, hsh.1⟩)
        | done f =>
          rw [hph] at hsh; simp only at hsh
          simp only [isDone, hph, if_true, hsh.1, beq_self_eq_true]
      · -- not started: nothing awaited yet
        have hnil : ((runOps sc ops).s.d i).trail = [] := by
          cases hph : ((runOps sc ops).s.d i).ph with
          | absent => rw [hph] at hsh; exact hsh
          | created => rw [hph] at hsh; exact hsh
          | running => rw [hph] at hst; simp [DPhase.started] at hst
          | inCb _ _ _ _ => rw [hph] at hst; simp [DPhase.started] at hst
          | done _ => rw [hph] at hst; simp [DPhase.started] at hst
        have hnd : isDone ((runOps sc ops).s.d i) = false := by
          cases hph : ((runOps sc ops).s.d i).ph <;> simp [isDone, hph] <;> (rw [hph] at hst; simp [DPhase.started] at hst)
        refine ⟨a + 1, by simp; omega, ?_⟩
        simp [orderAt, entries_eq, lastDone_iff, hnil, hnd, awaited]


theorem filter_sublist_of_imp {α : Type} (p q : α → Bool) (l : List α) (h : ∀ x ∈ l, p x = true → q x = true) :
    (l.filter p).Sublist (l.filter q) := by
  have : l.filter p = (l.filter q).filter p := by
    rw [List.filter_filter]
    apply List.filter_congr
    intro x hx
    cases hp : p x
    · simp
    · simp [h x hx hp]
  rw [this]; exact List.filter_sublist

theorem subsOf_count (ops : List Op) (cb : Nat) (h : ops.any (isSubOf cb) = false) :
    ((subsOf ops).filter (·.2.1 == cb)).length = (ops.filter (isOnceOf cb)).length := by
  induction ops with
  | nil => rfl
  | cons o ops ih =>
    simp only [List.any_cons, Bool.or_eq_false_iff] at h
    have ih' := ih h.2
    cases o with
    | sub n' c' =>
      have : (c' == cb) = false := by simpa [isSubOf] using h.1
      simpa [subsOf, subOf, List.filter_cons, isOnceOf, this] using ih'
    | once n' c' =>
      by_cases e : (c' == cb) = true
      · simpa [subsOf, subOf, List.filter_cons, isOnceOf, e] using ih'
      · have e' : (c' == cb) = false := by simpa using e
        simpa [subsOf, subOf, List.filter_cons, isOnceOf, e'] using ih'
    | unsub _ _ => simpa [subsOf, List.filterMap_cons, subOf, List.filter_cons, isOnceOf] using ih'
    | unsubo _ _ => simpa [subsOf, List.filterMap_cons, subOf, List.filter_cons, isOnceOf] using ih'
    | disp _ _ => simpa [subsOf, List.filterMap_cons, subOf, List.filter_cons, isOnceOf] using ih'
    | get _ _ => simpa [subsOf, List.filterMap_cons, subOf, List.filter_cons, isOnceOf] using ih'
    | rel _ => simpa [subsOf, List.filterMap_cons, subOf, List.filter_cons, isOnceOf] using ih'
    | settle => simpa [subsOf, List.filterMap_cons, subOf, List.filter_cons, isOnceOf] using ih'
    | adv _ => simpa [subsOf, List.filterMap_cons, subOf, List.filter_cons, isOnceOf] using ih'

theorem holds_once (sc : Nat → Script) (ops : List Op) : onceOnly ops (observe sc ops) = true := by
  have h := runOps_dInv sc ops
  simp only [onceOnly, List.all_eq_true]
  intro op hop
  cases op with
  | once n0 cb =>
    simp only
    by_cases hsub : ops.any (isSubOf cb) = true
    · simp [hsub]
    · have hsub' : ops.any (isSubOf cb) = false := by simpa using hsub
      simp only [hsub', Bool.false_or, decide_eq_true_eq]
      let s := (runOps sc ops).s
      -- the log entries of `cb`, as machine entries
      have hlen : ((observe sc ops).log.filter (·.cb == cb)).length = (s.log.filter (·.sub.cb == cb)).length := by
        simp only [observe, obsOf, List.filter_map, List.length_map]
        rfl
      rw [hlen]
      -- every recorded subscription of `cb` is a once-wrapper
      have allOnce : ∀ p ∈ s.subscribed, p.2.cb = cb → p.2.once = true := by
        intro p hp hc
        have : (p.1, p.2.cb, p.2.once) ∈ subsOf ops := by
          rw [← h.m.subsOps]; exact List.mem_map.2 ⟨p, hp, rfl⟩
        cases ho : p.2.once with
        | true => rfl
        | false =>
          rw [ho, hc] at this
          have := subsOf_plain_mem ops p.1 cb this
          rw [hsub'] at this; simp at this
      have entryOnce : ∀ e ∈ s.log, e.sub.cb = cb → e.sub.once = true := fun e he hc =>
        allOnce _ (h.m.inv.s.logSub e he) hc
      -- their instance numbers are distinct …
      have hnd : ((s.log.filter (·.sub.cb == cb)).map (·.sub.sid)).Nodup := by
        have hs := filter_sublist_of_imp (fun e : LogE => e.sub.cb == cb) (fun e => e.sub.once) s.log
          (fun e he hc => entryOnce e he (by simpa using hc))
        exact (hs.map _).nodup h.m.inv.a.onceNodup
      -- … and among those of the recorded subscriptions of `cb`
      have hsubset : ∀ x ∈ (s.log.filter (·.sub.cb == cb)).map (·.sub.sid),
          x ∈ (s.subscribed.filter (·.2.cb == cb)).map (·.2.sid) := by
        intro x hx
        obtain ⟨e, he, rfl⟩ := List.mem_map.1 hx
        have he' := List.mem_filter.1 he
        exact List.mem_map.2 ⟨_, List.mem_filter.2 ⟨h.m.inv.s.logSub e he'.1, he'.2⟩, rfl⟩
      have hle := nodup_subset_length _ _ hnd hsubset
      simp only [List.length_map] at hle
      -- the recorded subscriptions of `cb` are the subscribe_once calls with `cb`
      have hcount : (s.subscribed.filter (·.2.cb == cb)).length = (ops.filter (isOnceOf cb)).length := by
        have e1 : (s.subscribed.filter (·.2.cb == cb)).length = ((subsOf ops).filter (·.2.1 == cb)).length := by
          rw [← h.m.subsOps, List.filter_map, List.length_map]; rfl
        rw [e1]; exact subsOf_count ops cb hsub'
      omega
  | _ => rfl


theorem getD_true_lt (l : List Bool) (i : Nat) (h : l.getD i false = true) : i < l.length := by
  by_cases hi : i < l.length
  · exact hi
  · simp [List.getD, List.getElem?_eq_none (Nat.le_of_not_lt hi)] at h

/-- for a finished task the judge's name and final value are the machine's -/
theorem judge_of_done (sc : Nat → Script) (ops : List Op) (i : Nat)
    (hd : isDone ((runOps sc ops).s.d i) = true) :
    nameOf ops i = some ((runOps sc ops).s.d i).name ∧
    ∀ f, ((runOps sc ops).s.d i).ph = .done f → finalOf sc ops (observe sc ops) i = some f := by
  have h := runOps_dInv sc ops
  have hlt : i < (dispList ops).length := by rw [← h.m.nd]; exact lt_nd_of_isDone _ h.m.inv.c i hd
  have hp : (dispList ops)[i]? = some (dispList ops)[i] := List.getElem?_eq_getElem hlt
  have hinfo := h.m.dinfo i _ hp
  refine ⟨by simp [nameOf, hp, hinfo.1], fun f hf => ?_⟩
  have hsh := (h.m.inv.d i).shape
  unfold shapeOK at hsh
  rw [hf] at hsh
  simp only [finalOf, hp, Option.map_some, entries_eq, Option.some.injEq]
  rw [← hinfo.2, ← valueAfter_threadFinal]; exact hsh.2.symm

theorem storedStep_of_M (sc : Nat → Script) (ops : List Op) (p q : Snap)
    (hq : SnapOK (runOps sc ops).s q) (hM : storedStepM (runOps sc ops).s p q) :
    storedStep sc ops (observe sc ops) p q = true := by
  simp only [storedStep, List.all_eq_true, List.mem_range]
  intro n hn
  obtain ⟨h1, h2⟩ := hM n hn
  -- membership in the judge's list of freshly finished dispatches of name n
  have hmem : ∀ i, i ∈ ((List.range q.done.length).filter fun i => q.done.getD i false && !p.done.getD i false).filter
      (fun i => nameOf ops i == some n) ↔
      (q.done.getD i false = true ∧ p.done.getD i false = false ∧ ((runOps sc ops).s.d i).name = n) := by
    intro i
    simp only [List.mem_filter, List.mem_range, Bool.and_eq_true, Bool.not_eq_true', beq_iff_eq]
    constructor
    · rintro ⟨⟨_, a, b⟩, c⟩
      have := (judge_of_done sc ops i (hq.doneIs i a)).1
      rw [this] at c; exact ⟨a, b, by injection c⟩
    · rintro ⟨a, b, c⟩
      exact ⟨⟨getD_true_lt _ _ a, a, b⟩, by rw [(judge_of_done sc ops i (hq.doneIs i a)).1, c]⟩
  by_cases hex : ∃ i, q.done.getD i false = true ∧ p.done.getD i false = false ∧ ((runOps sc ops).s.d i).name = n
  · obtain ⟨i, f, a, b, c, d, e⟩ := h2 hex
    have hne : (((List.range q.done.length).filter fun i => q.done.getD i false && !p.done.getD i false).filter
        (fun i => nameOf ops i == some n)).isEmpty = false := by
      cases hl : ((List.range q.done.length).filter fun i => q.done.getD i false && !p.done.getD i false).filter
          (fun i => nameOf ops i == some n) with
      | nil => have := (hmem i).2 ⟨a, b, c⟩; rw [hl] at this; simp at this
      | cons _ _ => rfl
    rw [hne]
    simp only [Bool.false_eq_true, if_false]
    apply List.any_eq_true.2
    refine ⟨i, (hmem i).2 ⟨a, b, c⟩, ?_⟩
    rw [(judge_of_done sc ops i (hq.doneIs i a)).2 f d, e]; simp
  · have hemp : (((List.range q.done.length).filter fun i => q.done.getD i false && !p.done.getD i false).filter
        (fun i => nameOf ops i == some n)).isEmpty = true := by
      cases hl : ((List.range q.done.length).filter fun i => q.done.getD i false && !p.done.getD i false).filter
          (fun i => nameOf ops i == some n) with
      | nil => rfl
      | cons i l =>
        have := (hmem i).1 (by rw [hl]; simp)
        exact absurd ⟨i, this⟩ hex
    rw [hemp]
    simp only [if_true, beq_iff_eq]
    exact h1 hex

theorem storedFrom_of_M (sc : Nat → Script) (ops : List Op) :
    ∀ (l : List Snap) (p : Snap), (∀ sn ∈ l, SnapOK (runOps sc ops).s sn) → StoredM (runOps sc ops).s p l →
      storedFrom sc ops (observe sc ops) p l = true := by
  intro l
  induction l with
  | nil => intro p _ _; rfl
  | cons q l ih =>
    intro p hok hM
    simp only [storedFrom, Bool.and_eq_true]
    exact ⟨storedStep_of_M sc ops p q (hok q (by simp)) hM.1, ih q (fun sn hsn => hok sn (by simp [hsn])) hM.2⟩

theorem holds_stored (sc : Nat → Script) (ops : List Op) : stored sc ops (observe sc ops) = true := by
  have h := runOps_dInv sc ops
  exact storedFrom_of_M sc ops _ snap0 h.snapsOK h.stored


theorem holds_getters (sc : Nat → Script) (ops : List Op) : getters sc ops (observe sc ops) = true := by
  have h := runOps_dInv sc ops
  have hC := h.m.inv.c
  simp only [getters, Bool.and_eq_true, List.all_eq_true, List.mem_range]
  constructor
  · -- every snapshot: who still waits has no value and a deadline ahead
    intro sn hsn
    have hok := h.snapsOK sn hsn
    simp only [waitingOK, List.all_eq_true, List.mem_range]
    intro j hj
    cases hw : sn.ws[j]? with
    | none => rfl
    | some w =>
      cases w with
      | waiting dl =>
        cases hp : (waitList ops)[j]? with
        | none => rfl
        | some p =>
          obtain ⟨n, to⟩ := p
          simp only
          have hname : ((runOps sc ops).s.w j).name = n := (h.m.winfo j (n, to) hp).1
          obtain ⟨h1, h2⟩ := hok.waiting j dl hw
          rw [hname] at h1
          simp only [Bool.and_eq_true, Bool.or_eq_true, decide_eq_true_eq, beq_iff_eq]
          refine ⟨?_, ?_⟩
          · by_cases hn : 3 ≤ n
            · exact Or.inl hn
            · exact Or.inr (h1 (by omega))
          · cases dl with
            | none => rfl
            | some d => simp only [decide_eq_true_eq]; exact h2 d rfl
      | notYet => cases (waitList ops)[j]? <;> rfl
      | returned _ _ => cases (waitList ops)[j]? <;> rfl
      | timedOut _ => cases (waitList ops)[j]? <;> rfl
  · -- how every get / wait_for ended
    intro j hj
    have hjn : j < (runOps sc ops).s.nw := by simpa [observe, obsOf] using hj
    have hm : (observe sc ops).wmeta[j]? = some (wmetaOf ((runOps sc ops).s.w j)) := by
      simp [observe, obsOf, List.getElem?_map, List.getElem?_range hjn]
    rw [hm]
    cases hp : (waitList ops)[j]? with
    | none => rfl
    | some p =>
      obtain ⟨n, to⟩ := p
      simp only
      have hinfo : ((runOps sc ops).s.w j).name = n ∧ ((runOps sc ops).s.w j).timeout = to := h.m.winfo j (n, to) hp
      cases hph : ((runOps sc ops).s.w j).ph with
      | absent => simp [wmetaOf, hph]
      | created => simp [wmetaOf, hph]
      | waiting dl => simp [wmetaOf, hph, wst]
      | woken => simp [wmetaOf, hph, wst]
      | timedOut a =>
        obtain ⟨t, ht, ha⟩ := hC.timedOut j a hph
        have : to = some t := by rw [← hinfo.2]; exact ht
        simp [wmetaOf, hph, wst, this, ha]
      | returned v a =>
        simp only [wmetaOf, hph, wst, Bool.and_eq_true, Bool.or_eq_true, Bool.not_eq_true', beq_iff_eq]
        refine ⟨?_, ?_⟩
        · cases hh : ((runOps sc ops).s.w j).had with
          | false => exact Or.inl rfl
          | true => exact Or.inr (h.m.inv.s.hadRet j v a hph hh)
        · obtain ⟨i, hi1, hi2⟩ := hC.retDone j v a hph
          have hdone : isDone ((runOps sc ops).s.d i) = true := isDone_of_done hi2
          have hj := judge_of_done sc ops i hdone
          apply List.any_eq_true.2
          refine ⟨i, ?_, ?_⟩
          · rw [List.mem_range, ← h.m.nd]; exact lt_nd_of_isDone _ hC i hdone
          · simp only [Bool.and_eq_true, beq_iff_eq]
            exact ⟨⟨by rw [hj.1, hi1, hinfo.1], by rw [lastDone_iff]; exact hdone⟩, hj.2 v hi2⟩

/-- **C13 holds**: every observation of the interleaving machine — any callback scripts, any
history of API calls, releases, loop runs and clock moves — satisfies the judge `C13.spec` that the
harness applies to the implementation's observation -/
theorem spec_observe (sc : Nat → Script) (ops : List Op) : spec sc ops (observe sc ops) = true := by
  simp only [spec, Bool.and_eq_true]
  exact ⟨⟨⟨⟨holds_threading sc ops, holds_order sc ops⟩, holds_once sc ops⟩, holds_stored sc ops⟩, holds_getters sc ops⟩

end PlumVerif.C13

import PlumVerif.Proofs.EventsObs3
namespace PlumVerif.C13

/-! ### from the machine's ghosts to what the judge computes -/

def pairOf (p : Sub × Nat) : Nat × Nat := (p.1.cb, p.2)

theorem entriesOf_obs (s : St) (snaps : List Snap) (i : Nat) :
    entriesOf (obsOf s snaps).log i = ((s.log.filter (·.task == i)).map fun e => (e.sub, e.val)).map pairOf := by
  simp only [entriesOf, obsOf, List.filter_map, List.map_map]
  rfl

theorem threaded_threadOK (sc : Nat → Script) (v : Nat) (t : Trail) (h : Threaded sc v t) :
    threadOK sc v ((awaited t).map pairOf) = true := by
  induction t generalizing v with
  | nil => rfl
  | cons p t ih =>
    obtain ⟨x, o⟩ := p
    cases o with
    | none => simpa [awaited, Threaded] using ih v h
    | some a =>
      simp only [Threaded] at h
      have : awaited ((x, some a) :: t) = (x, a) :: awaited t := by simp [awaited]
      rw [this]
      simp only [List.map_cons, pairOf, threadOK, h.1, beq_self_eq_true, Bool.true_and]
      exact ih _ h.2

theorem valueAfter_threadFinal (sc : Nat → Script) (v : Nat) (t : Trail) :
    valueAfter sc v t = threadFinal sc v ((awaited t).map pairOf) := by
  induction t generalizing v with
  | nil => rfl
  | cons p t ih =>
    obtain ⟨x, o⟩ := p
    cases o with
    | none => simpa [awaited, valueAfter] using ih v
    | some a =>
      have : awaited ((x, some a) :: t) = (x, a) :: awaited t := by simp [awaited]
      rw [this]
      simp only [valueAfter, List.map_cons, pairOf, threadFinal]
      exact ih _

/-- on functions that were never subscribed through subscribe_once, what a task awaited is the
plain part of the entries it has passed -/
theorem awaited_plain (P : Nat → Bool) (t : Trail) (hsk : ∀ x, (x, none) ∈ t → x.once = true)
    (hP : ∀ x ∈ t.map (·.1), P x.cb = true → x.once = false) :
    (((awaited t).map pairOf).map (·.1)).filter P = (plainProj (t.map (·.1))).filter P := by
  induction t with
  | nil => rfl
  | cons p t ih =>
    obtain ⟨x, o⟩ := p
    have ih' := ih (fun y hy => hsk y (by simp [hy])) (fun y hy => hP y (by simp at hy ⊢; exact Or.inr hy))
    cases o with
    | none =>
      have ho : x.once = true := hsk x (by simp)
      have : awaited ((x, none) :: t) = awaited t := by simp [awaited]
      rw [this, ih']
      simp [plainProj, List.filter_cons, ho]
    | some a =>
      have : awaited ((x, some a) :: t) = (x, a) :: awaited t := by simp [awaited]
      rw [this]
      simp only [List.map_cons, pairOf, List.filter_cons]
      by_cases hp : P x.cb = true
      · have ho : x.once = false := hP x (by simp) hp
        simp only [hp, if_true, ih']
        simp [plainProj, List.filter_cons, ho, hp]
      · have hp' : P x.cb = false := by simpa using hp
        simp only [hp', Bool.false_eq_true, if_false, ih']
        by_cases ho : x.once = true
        · simp [plainProj, List.filter_cons, ho]
        · have ho' : x.once = false := by simpa using ho
          simp [plainProj, List.filter_cons, ho', hp']

theorem plainProj_prefix (P : Nat → Bool) (l1 l2 : List Sub) (h : l1 <+: l2) :
    (plainProj l1).filter P <+: (plainProj l2).filter P := by
  obtain ⟨r, rfl⟩ := h
  simp only [plainProj, List.filter_append, List.map_append]
  exact List.prefix_append _ _

theorem nodup_subset_length : ∀ (l m : List Nat), l.Nodup → (∀ x ∈ l, x ∈ m) → l.length ≤ m.length := by
  intro l
  induction l with
  | nil => intro m _ _; simp
  | cons a l ih =>
    intro m hnd hs
    simp only [List.nodup_cons] at hnd
    have ha : a ∈ m := hs a (by simp)
    have := ih (m.erase a) hnd.2 (fun x hx => by
      have hxa : x ≠ a := fun e => hnd.1 (e ▸ hx)
      exact (List.mem_erase_of_ne hxa).2 (hs x (by simp [hx])))
    rw [List.length_erase_of_mem ha] at this
    have hpos : 0 < m.length := List.length_pos_of_mem ha
    simp only [List.length_cons]; omega

theorem subsOf_once_mem (ops : List Op) (n cb : Nat) (h : (n, cb, true) ∈ subsOf ops) : ops.any (isOnceOf cb) = true := by
  simp only [subsOf, List.mem_filterMap] at h
  obtain ⟨op, hop, hs⟩ := h
  apply List.any_eq_true.2
  refine ⟨op, hop, ?_⟩
  cases op <;> simp [subOf] at hs
  · obtain ⟨rfl, rfl⟩ := hs; simp [isOnceOf]

theorem subsOf_plain_mem (ops : List Op) (n cb : Nat) (h : (n, cb, false) ∈ subsOf ops) : ops.any (isSubOf cb) = true := by
  simp only [subsOf, List.mem_filterMap] at h
  obtain ⟨op, hop, hs⟩ := h
  apply List.any_eq_true.2
  refine ⟨op, hop, ?_⟩
  cases op <;> simp [subOf] at hs
  · obtain ⟨rfl, rfl⟩ := hs; simp [isSubOf]

end PlumVerif.C13

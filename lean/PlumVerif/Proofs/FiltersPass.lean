import PlumVerif.Proofs.Filters
/-
Helper lemmas for C20: pass-through filters, chains.
-/
namespace PlumVerif.C20
open Machine

/-- a machine hands on the value it was called with, or nothing -/
def PassStep (m : Machine) : Prop := ∀ s c, (m.step s c).2 = .skip ∨ (m.step s c).2 = .deliver c.v

theorem debounceStep_pass (n : Nat) (s : Option Val × Nat) (c : Call) :
    (debounceStep n s c).2 = .skip ∨ (debounceStep n s c).2 = .deliver c.v := by
  obtain ⟨v, k⟩ := s
  cases v with
  | none => exact Or.inr (by simp [debounceStep])
  | some o =>
    simp only [debounceStep, Option.isNone_some, Bool.false_or]
    split <;> (split <;> simp)

theorem passStep_of_passThrough (f : Filter) (h : f.passThrough = true) : PassStep f.machine := by
  induction f with
  | onChange =>
    intro s c; simp only [Filter.machine, onChange_step, onChangeStep]
    cases s with
    | none => simp
    | some o => by_cases hc : changed o c.v = true <;> simp [hc]
  | debounce n =>
    intro s c; exact debounceStep_pass n s c
  | throttle secs =>
    intro s c; simp only [Filter.machine, throttle_step, throttleStep]
    cases s with
    | none => simp
    | some l => by_cases hc : secs ≤ c.t - l <;> simp [hc]
  | delta => simp [Filter.passThrough] at h
  | aggregate _ _ => simp [Filter.passThrough] at h
  | custom p =>
    intro s c; simp only [Filter.machine, custom_step, customStep]
    by_cases hc : p.eval c.v = true <;> simp [hc]
  | chain a b iha ihb =>
    simp only [Filter.passThrough, Bool.and_eq_true] at h
    intro s c
    simp only [Filter.machine, chain_step, chainStep]
    rcases iha h.1 s.1 c with ha | ha
    · cases hs : a.machine.step s.1 c with
      | mk sa o => rw [hs] at ha; simp only at ha; subst ha; simp
    · cases hs : a.machine.step s.1 c with
      | mk sa o =>
        rw [hs] at ha; simp only at ha; subst ha
        simpa using ihb h.2 s.2 ⟨c.t, c.v⟩

theorem passStep_run (m : Machine) (hm : PassStep m) (s : m.σ) (cs : List Call) :
    passedUnmodified cs (m.run s cs) = true ∧ (delivered cs (m.run s cs)).Sublist cs := by
  induction cs generalizing s with
  | nil => simp [passedUnmodified, run, delivered]
  | cons c cs ih =>
    obtain ⟨ih1, ih2⟩ := ih (m.step s c).1
    simp only [passedUnmodified, run_length, beq_self_eq_true, Bool.true_and] at ih1 ⊢
    rcases hm s c with h | h
    · simp only [run, h, List.zip_cons_cons, List.all_cons, Bool.true_and, delivered]
      exact ⟨ih1, List.Sublist.cons _ ih2⟩
    · simp only [run, h, List.zip_cons_cons, List.all_cons, beq_self_eq_true, Bool.true_and, delivered]
      exact ⟨ih1, List.Sublist.cons_cons _ ih2⟩

theorem chain_run_delivered (a b : Machine) (sa : a.σ) (sb : b.σ) (cs : List Call) :
    delivered cs ((chain a b).run (sa, sb) cs) =
      delivered (delivered cs (a.run sa cs)) (b.run sb (delivered cs (a.run sa cs))) := by
  induction cs generalizing sa sb with
  | nil => rfl
  | cons c cs ih =>
    simp only [run, chain_step, chainStep]
    cases hs : a.step sa c with
    | mk sa' o =>
      cases o with
      | skip => simp only [delivered]; exact ih sa' sb
      | raised => simp only [delivered]; exact ih sa' sb
      | deliver w =>
        simp only [delivered, run]
        cases hb : (b.step sb ⟨c.t, w⟩).2 <;> simp only [delivered, ih]

end PlumVerif.C20

import PlumVerif.Model.DecodeRegdata
import PlumVerif.Proofs.DecodeSensors
/- helper lemmas for the regulator data round trip (core Lean only) -/
namespace PlumVerif
namespace Regd
open Wire

theorem pow_pos256 (k : Nat) : 0 < 256 ^ k := Nat.pow_pos (by decide)

theorem readSLE_encodeLE (k n : Nat) (tail : List Byte) (hn : n < 256 ^ k) :
    readSLE k (encodeLE n k ++ tail) =
      some ((if n < 256 ^ k / 2 then Int.ofNat n else Int.ofNat n - Int.ofNat (256 ^ k)), tail) := by
  simp [readSLE, readLE_encodeLE tail hn]

theorem readSLE_encSigned (k : Nat) (v : Int) (tail : List Byte) (h : inSigned v k = true) :
    readSLE k (encSigned v k ++ tail) = some (v, tail) := by
  simp only [inSigned, Bool.and_eq_true, decide_eq_true_eq, Int.ofNat_eq_natCast] at h
  have hM := pow_pos256 k
  have hn : (if v < 0 then (v + Int.ofNat (256 ^ k)).toNat else v.toNat) < 256 ^ k := by
    simp only [Int.ofNat_eq_natCast]
    generalize 256 ^ k = M at h hM ⊢
    split <;> omega
  rw [encSigned, readSLE_encodeLE k _ tail hn]
  simp only [Int.ofNat_eq_natCast]
  generalize 256 ^ k = M at h hM hn ⊢
  congr 2
  by_cases hv : v < 0
  · simp only [if_pos hv]
    have h2 : ¬ ((v + (M : Int)).toNat < M / 2) := by omega
    rw [if_neg h2]; omega
  · simp only [if_neg hv]
    have h2 : v.toNat < M / 2 := by omega
    rw [if_pos h2]; omega

theorem takeN_four (a b c d : Byte) (r : List Byte) :
    takeN 4 (a :: b :: c :: d :: r) = some ([a, b, c, d], r) :=
  takeN_append (xs := [a, b, c, d]) r rfl

theorem untilNul_append (bs tail : List Byte) (h : bs.all (· != 0) = true) :
    untilNul (bs ++ 0 :: tail) = bs := by
  induction bs with
  | nil => simp [untilNul]
  | cons b r ih =>
    simp only [List.all_cons, Bool.and_eq_true, bne_iff_ne, ne_eq] at h
    have hb : (b == 0) = false := by simpa using h.1
    simp [untilNul, hb, ih h.2]

theorem readF64_enc (f : F64) (rest : List Byte) :
    readF64 (encodeLE f.toNat 8 ++ rest) = some (f, rest) := by
  have h : f.toNat < 256 ^ 8 := by have := f.toNat_lt; omega
  simp [readF64, readLE_encodeLE rest h]

/-- every scalar wire type: the decoder reads back the encoded value and leaves exactly the tail -/
theorem decScalar_enc (v : SVal) (tail : List Byte) (h : v.wf = true) :
    decScalar v.ty (v.enc ++ tail) = some (v.val, tail) := by
  cases v with
  | undefined alt => rfl
  | i8 x => simp [SVal.ty, SVal.enc, SVal.val, decScalar, readSLE_encSigned 1 x tail h]
  | i16 x => simp [SVal.ty, SVal.enc, SVal.val, decScalar, readSLE_encSigned 2 x tail h]
  | i32 x => simp [SVal.ty, SVal.enc, SVal.val, decScalar, readSLE_encSigned 4 x tail h]
  | i64 x => simp [SVal.ty, SVal.enc, SVal.val, decScalar, readSLE_encSigned 8 x tail h]
  | u8 x =>
    have hx : x < 256 ^ 1 := by simpa [SVal.wf] using h
    simp [SVal.ty, SVal.enc, SVal.val, decScalar, readLE_encodeLE tail hx]
  | u16 x =>
    have hx : x < 256 ^ 2 := by simpa [SVal.wf] using h
    simp [SVal.ty, SVal.enc, SVal.val, decScalar, readLE_encodeLE tail hx]
  | u32 x =>
    have hx : x < 256 ^ 4 := by simpa [SVal.wf] using h
    simp [SVal.ty, SVal.enc, SVal.val, decScalar, readLE_encodeLE tail hx]
  | u64 x =>
    have hx : x < 256 ^ 8 := by simpa [SVal.wf] using h
    simp [SVal.ty, SVal.enc, SVal.val, decScalar, readLE_encodeLE tail hx]
  | f32 b =>
    have := readF32_enc b tail
    simp only [Sens.encF32] at this
    simp [SVal.ty, SVal.enc, SVal.val, decScalar, this]
  | f64 b => simp [SVal.ty, SVal.enc, SVal.val, decScalar, readF64_enc]
  | str alt bs =>
    have hb : bs.all (· != 0) = true := h
    simp [SVal.ty, SVal.enc, SVal.val, decScalar, untilNul_append bs tail hb]
  | ipv4 a b c d =>
    simp [SVal.ty, SVal.enc, SVal.val, decScalar, takeN_four]
  | ipv6 bs =>
    have hl : bs.length = 16 := by simpa [SVal.wf] using h
    simp [SVal.ty, SVal.enc, SVal.val, decScalar, takeN_append tail hl]

theorem ty_ne_bit (v : SVal) : v.ty ≠ Ty.bit := by cases v <;> simp [SVal.ty]

theorem decEntry_nonbit {ty : Ty} (h : ty ≠ Ty.bit) (c : Cur) :
    decEntry ty c =
      match decScalar ty (if c.bit > 0 then c.rest.drop 1 else c.rest) with
      | some (v, r) => some (v, ⟨r, 0⟩)
      | none => none := by
  cases ty <;> first | rfl | exact absurd rfl h

/-- a scalar entry at a byte boundary -/
theorem decEntry_scalar_clean (v : SVal) (tail : List Byte) (h : v.wf = true) :
    decEntry v.ty ⟨v.enc ++ tail, 0⟩ = some (v.val, ⟨tail, 0⟩) := by
  rw [decEntry_nonbit (ty_ne_bit v)]
  simp [decScalar_enc v tail h]

/-- a scalar entry after an unfinished bit run: the byte the run was reading is skipped first -/
theorem decEntry_scalar_dirty (v : SVal) (b : Byte) (k : Nat) (tail : List Byte) (hk : 0 < k)
    (h : v.wf = true) :
    decEntry v.ty ⟨b :: (v.enc ++ tail), k⟩ = some (v.val, ⟨tail, 0⟩) := by
  rw [decEntry_nonbit (ty_ne_bit v)]
  simp [hk, decScalar_enc v tail h]

theorem decEntries_append (s1 s2 : List (Nat × Ty)) (c : Cur) :
    decEntries (s1 ++ s2) c =
      (decEntries s1 c).bind fun r1 =>
        (decEntries s2 r1.2).bind fun r2 => some (r1.1 ++ r2.1, r2.2) := by
  induction s1 generalizing c with
  | nil =>
    simp only [List.nil_append, decEntries, Option.bind_some]
    cases decEntries s2 c <;> rfl
  | cons e s ih =>
    obtain ⟨id, ty⟩ := e
    simp only [List.cons_append, decEntries, Option.bind_eq_bind, Option.pure_def]
    cases decEntry ty c with
    | none => rfl
    | some vc =>
      simp only [Option.bind_some, ih]
      cases decEntries s vc.2 with
      | none => rfl
      | some r1 =>
        simp only [Option.bind_some]
        cases decEntries s2 r1.2 with
        | none => rfl
        | some r2 => rfl

/-- one bit entry: bit `i` of the byte under the cursor; after bit 7 the byte is left -/
theorem decEntry_bit (b : Byte) (r : List Byte) (i : Nat) :
    decEntry Ty.bit ⟨b :: r, i⟩ =
      some (Val.bool (b.toNat.testBit i), if i = 7 then ⟨r, 0⟩ else ⟨b :: r, i + 1⟩) := by
  simp only [decEntry, Nat.one_shiftLeft, and_two_pow_ne_zero, Gen.bitarrayLastIndex]
  by_cases h : i = 7 <;> simp [h]

/-- a run of bit entries starting at bit position `p` of the run's bytes: entry `q` is bit `q % 8`
of byte `q / 8`; the cursor ends at position `p + n` (byte `(p + n) / 8`, bit `(p + n) % 8`) -/
theorem decEntries_bits (bytes tail : List Byte) (ids : List Nat) :
    ∀ p, p + ids.length ≤ 8 * bytes.length →
      decEntries (ids.map fun id => (id, Ty.bit)) ⟨bytes.drop (p / 8) ++ tail, p % 8⟩ =
        some ((ids.zipIdx p).map (fun ip => (ip.1, bitAt bytes ip.2)),
              ⟨bytes.drop ((p + ids.length) / 8) ++ tail, (p + ids.length) % 8⟩) := by
  induction ids with
  | nil => intro p _; simp [decEntries]
  | cons id ids ih =>
    intro p hp
    simp only [List.length_cons] at hp
    have hlt : p / 8 < bytes.length := by omega
    have hd : bytes.drop (p / 8) = bytes[p / 8] :: bytes.drop (p / 8 + 1) := List.drop_eq_getElem_cons hlt
    have hb : bitAt bytes p = Val.bool ((bytes[p / 8]).toNat.testBit (p % 8)) := by
      simp [bitAt, List.getD_eq_getElem?_getD, List.getElem?_eq_getElem hlt]
    simp only [List.map_cons, decEntries, hd, List.cons_append, decEntry_bit, Option.bind_eq_bind,
      Option.bind_some, List.zipIdx_cons, hb, List.length_cons]
    have hnext : (if p % 8 = 7 then (⟨bytes.drop (p / 8 + 1) ++ tail, 0⟩ : Cur)
        else ⟨bytes[p / 8] :: (bytes.drop (p / 8 + 1) ++ tail), p % 8 + 1⟩) =
        ⟨bytes.drop ((p + 1) / 8) ++ tail, (p + 1) % 8⟩ := by
      by_cases h7 : p % 8 = 7
      · have e1 : (p + 1) / 8 = p / 8 + 1 := by omega
        have e2 : (p + 1) % 8 = 0 := by omega
        rw [if_pos h7, e1, e2]
      · have e1 : (p + 1) / 8 = p / 8 := by omega
        have e2 : (p + 1) % 8 = p % 8 + 1 := by omega
        rw [if_neg h7, e1, e2, hd]; rfl
    rw [hnext, ih (p + 1) (by omega)]
    simp only [Option.bind_some, Option.pure_def]
    have e3 : p + 1 + ids.length = p + (ids.length + 1) := by omega
    rw [e3]

/-- where the cursor stands after an item, in front of `tail` -/
def afterItem (it : Item) (tail : List Byte) : Cur :=
  match it with
  | .scalar .. => ⟨tail, 0⟩
  | .bits ids bytes => ⟨bytes.drop (ids.length / 8) ++ tail, ids.length % 8⟩

theorem decEntries_item_clean (it : Item) (tail : List Byte) (h : it.wf = true) :
    decEntries it.schema ⟨it.enc ++ tail, 0⟩ = some (it.vals, afterItem it tail) := by
  cases it with
  | scalar id v =>
    have hv : v.wf = true := by
      simp only [Item.wf, Bool.and_eq_true] at h; exact h.2
    simp [Item.schema, Item.enc, Item.vals, afterItem, decEntries, decEntry_scalar_clean v tail hv]
  | bits ids bytes =>
    simp only [Item.wf, Bool.and_eq_true, beq_iff_eq] at h
    have hl : 0 + ids.length ≤ 8 * bytes.length := by omega
    have := decEntries_bits bytes tail ids 0 hl
    simpa [Item.schema, Item.enc, Item.vals, afterItem] using this

theorem decEntries_item_dirty (id : Nat) (v : SVal) (b : Byte) (k : Nat) (tail : List Byte)
    (hk : 0 < k) (h : (Item.scalar id v).wf = true) :
    decEntries (Item.scalar id v).schema ⟨b :: ((Item.scalar id v).enc ++ tail), k⟩ =
      some ((Item.scalar id v).vals, ⟨tail, 0⟩) := by
  have hv : v.wf = true := by
    simp only [Item.wf, Bool.and_eq_true] at h; exact h.2
  simp [Item.schema, Item.enc, Item.vals, decEntries, decEntry_scalar_dirty v b k tail hk hv]

/-- after an item the cursor is at a byte boundary, or -- only after a bit run that ends inside a
byte -- on that byte with a non-zero bit index -/
theorem afterItem_cases (it : Item) (tail : List Byte) (h : it.wf = true) :
    afterItem it tail = ⟨tail, 0⟩ ∨
      (it.isBits = true ∧ ∃ b k, 0 < k ∧ afterItem it tail = ⟨b :: tail, k⟩) := by
  cases it with
  | scalar id v => left; rfl
  | bits ids bytes =>
    simp only [Item.wf, Bool.and_eq_true, beq_iff_eq] at h
    by_cases h0 : ids.length % 8 = 0
    · left
      have : bytes.drop (ids.length / 8) = [] := List.drop_eq_nil_of_le (by omega)
      simp [afterItem, this, h0]
    · right
      refine ⟨rfl, ?_⟩
      have hlt : ids.length / 8 < bytes.length := by omega
      have hd := List.drop_eq_getElem_cons hlt
      have hnil : bytes.drop (ids.length / 8 + 1) = [] := List.drop_eq_nil_of_le (by omega)
      refine ⟨bytes[ids.length / 8], ids.length % 8, by omega, ?_⟩
      simp [afterItem, hd, hnil]

def headNotBits : List Item → Prop
  | [] => True
  | it :: _ => it.isBits = false

theorem wfItems_cons (it : Item) (r : List Item) (h : wfItems (it :: r) = true) :
    it.wf = true ∧ wfItems r = true ∧ (it.isBits = true → headNotBits r) := by
  cases r with
  | nil => exact ⟨h, rfl, fun _ => trivial⟩
  | cons y r' =>
    simp only [wfItems, Bool.and_eq_true, Bool.not_eq_true', Bool.and_eq_false_iff] at h
    refine ⟨h.1.1, h.2, fun hb => ?_⟩
    cases h.1.2 with
    | inl h1 => rw [hb] at h1; exact absurd h1 (by decide)
    | inr h2 => exact h2

/-- **the bit cursor invariant**: walking the schema of a well-formed item list over its encoding
(from a byte boundary, or from inside the byte of a preceding bit run when the list starts with a
scalar) yields exactly the items' values -/
theorem decEntries_items (items : List Item) :
    wfItems items = true → ∀ (tail : List Byte) (c : Cur),
      (c = ⟨encItems items ++ tail, 0⟩ ∨
        (headNotBits items ∧ ∃ b k, 0 < k ∧ c = ⟨b :: (encItems items ++ tail), k⟩)) →
      ∃ c', decEntries (schemaOf items) c = some (valsOf items, c') := by
  induction items with
  | nil => intro _ tail c _; exact ⟨c, rfl⟩
  | cons it r ih =>
    intro hw tail c hc
    obtain ⟨hit, hr, hadj⟩ := wfItems_cons it r hw
    have henc : encItems (it :: r) ++ tail = it.enc ++ (encItems r ++ tail) := by
      simp [encItems, List.flatMap_cons, List.append_assoc]
    have hsch : schemaOf (it :: r) = it.schema ++ schemaOf r := by simp [schemaOf, List.flatMap_cons]
    have hval : valsOf (it :: r) = it.vals ++ valsOf r := by simp [valsOf, List.flatMap_cons]
    -- the cursor after the first item
    have hfirst : ∃ c1, decEntries it.schema c = some (it.vals, c1) ∧
        (c1 = ⟨encItems r ++ tail, 0⟩ ∨
          (headNotBits r ∧ ∃ b k, 0 < k ∧ c1 = ⟨b :: (encItems r ++ tail), k⟩)) := by
      cases hc with
      | inl hclean =>
        refine ⟨afterItem it (encItems r ++ tail), ?_, ?_⟩
        · rw [hclean, henc]; exact decEntries_item_clean it _ hit
        · cases afterItem_cases it (encItems r ++ tail) hit with
          | inl h0 => left; exact h0
          | inr h1 => right; exact ⟨hadj h1.1, h1.2⟩
      | inr hdirty =>
        obtain ⟨hnb, b, k, hk, hcd⟩ := hdirty
        cases it with
        | bits ids bytes => exact absurd hnb (by simp [headNotBits, Item.isBits])
        | scalar id v =>
          refine ⟨⟨encItems r ++ tail, 0⟩, ?_, Or.inl rfl⟩
          rw [hcd, henc]; exact decEntries_item_dirty id v b k _ hk hit
    obtain ⟨c1, hdec1, hc1⟩ := hfirst
    obtain ⟨c', hdec2⟩ := ih hr tail c1 hc1
    refine ⟨c', ?_⟩
    rw [hsch, hval, decEntries_append, hdec1]
    simp only [Option.bind_some, hdec2]

/-! ### the schema message -/

theorem tyOfId_typeId (v : SVal) : tyOfId v.typeId = some v.ty := by
  cases v with
  | undefined alt => cases alt <;> simp only [SVal.typeId, SVal.ty, Bool.false_eq_true, if_false, if_true] <;> decide +kernel
  | str alt bs => cases alt <;> simp only [SVal.typeId, SVal.ty, Bool.false_eq_true, if_false, if_true] <;> decide +kernel
  | _ => simp only [SVal.typeId, SVal.ty] <;> decide +kernel

theorem tyOfId_bit : tyOfId bitTypeId = some Ty.bit := by decide +kernel

theorem resolve_append (a b : List (Nat × Nat)) :
    resolve (a ++ b) = (resolve a).bind fun ra => (resolve b).bind fun rb => some (ra ++ rb) := by
  induction a with
  | nil =>
    simp only [List.nil_append, resolve, Option.bind_some]
    cases resolve b <;> rfl
  | cons e r ih =>
    obtain ⟨id, t⟩ := e
    simp only [List.cons_append, resolve, Option.bind_eq_bind, Option.pure_def, ih]
    cases tyOfId t with
    | none => rfl
    | some ty =>
      simp only [Option.bind_some]
      cases resolve r with
      | none => rfl
      | some ra =>
        simp only [Option.bind_some]
        cases resolve b <;> rfl

theorem resolve_bits (ids : List Nat) :
    resolve (ids.map fun id => (id, bitTypeId)) = some (ids.map fun id => (id, Ty.bit)) := by
  induction ids with
  | nil => rfl
  | cons i r ih => simp [resolve, tyOfId_bit, ih]

/-- the type ids a message's schema carries resolve to the wire types its items were encoded with -/
theorem resolve_schemaIds (items : List Item) :
    resolve (schemaIdsOf items) = some (schemaOf items) := by
  induction items with
  | nil => rfl
  | cons it r ih =>
    have h1 : schemaIdsOf (it :: r) = it.schemaIds ++ schemaIdsOf r := by
      simp [schemaIdsOf, List.flatMap_cons]
    have h2 : schemaOf (it :: r) = it.schema ++ schemaOf r := by simp [schemaOf, List.flatMap_cons]
    have h3 : resolve it.schemaIds = some it.schema := by
      cases it with
      | scalar id v => simp [Item.schemaIds, Item.schema, resolve, tyOfId_typeId]
      | bits ids bytes => exact resolve_bits ids
    rw [h1, h2, resolve_append, h3, ih]
    rfl

/-- schema message: LE16 block count, then (type id byte, LE16 parameter id) per block -/
theorem decodeSchema_encode (bs : List (Nat × Nat)) (rest : List Byte) (tys : List (Nat × Ty))
    (hn : bs.length < 65536) (hb : ∀ it ∈ bs, it.1 < 65536 ∧ it.2 < 256)
    (hres : resolve bs = some tys) :
    decodeSchema (encodeSchema bs ++ rest) =
      some ((if bs.isEmpty then Val.record [] else Val.record [("regdata_schema", schemaVal bs)]), tys) := by
  have hcount := readLE_encodeLE (k := 2) (n := bs.length)
    ((bs.flatMap fun it => it.2.toUInt8 :: encodeLE it.1 2) ++ rest) (by omega)
  cases bs with
  | nil =>
    have : tys = [] := by simpa [resolve] using hres.symm
    subst this
    simp only [List.length_nil, List.flatMap_nil, List.nil_append] at hcount
    simp [decodeSchema, encodeSchema, hcount]
  | cons b r =>
    have hd := decN_flatMap decSchemaBlock (fun it : Nat × Nat => it.2.toUInt8 :: encodeLE it.1 2)
      (fun it => (it.1, it.2.toUInt8.toNat)) (b :: r) rest (by
        intro x hx t
        have := (hb x hx).1
        simp [decSchemaBlock, readLE_encodeLE t (show x.1 < 256 ^ 2 by omega)])
    have hmap : (b :: r).map (fun it : Nat × Nat => (it.1, it.2.toUInt8.toNat)) = b :: r := by
      have : ∀ it ∈ (b :: r), (fun it : Nat × Nat => (it.1, it.2.toUInt8.toNat)) it = it := by
        intro it hit
        simp [toUInt8_toNat_of_lt (hb it hit).2]
      rw [List.map_congr_left this, List.map_id']
    rw [hmap] at hd
    simp only [encodeSchema, List.append_assoc] at hcount ⊢
    simp only [decodeSchema, hcount, Option.bind_eq_bind, Option.bind_some, hd, hres, Option.pure_def]
    simp

end Regd
end PlumVerif

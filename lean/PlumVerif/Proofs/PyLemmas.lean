import PlumVerif.Model.PyPrelude
/-
Helper lemmas about the semantic prelude of the code translator (Model/PyPrelude.lean), shared by
the tie theorems of Props/Tie*.lean: Python's bit operations on non-negative ints are the `Nat` ones.
-/
namespace PlumVerif.Py

@[simp] theorem ixor_natCast (a b : Nat) : ixor (a : Int) (b : Int) = ((a ^^^ b : Nat) : Int) := rfl
@[simp] theorem iand_natCast (a b : Nat) : iand (a : Int) (b : Int) = ((a &&& b : Nat) : Int) := rfl
@[simp] theorem ior_natCast (a b : Nat) : ior (a : Int) (b : Int) = ((a ||| b : Nat) : Int) := rfl
@[simp] theorem shr_natCast (a n : Nat) : ((a : Int) >>> n) = ((a >>> n : Nat) : Int) := rfl
theorem shl_natCast (a n : Nat) : ((a : Int) <<< n) = ((a <<< n : Nat) : Int) := by
  simp [Int.shiftLeft_eq, Nat.shiftLeft_eq]

@[simp] theorem attr_to_bytes_int (i : Int) : attr_to_bytes (.int i) = Except.ok () := rfl

@[simp] theorem ok_bind {α β : Type} (a : α) (f : α → PyM β) : (Except.ok a >>= f) = f a := rfl
@[simp] theorem error_bind {α β : Type} (e : PyErr) (f : α → PyM β) : ((Except.error e : PyM α) >>= f) = Except.error e := rfl
@[simp] theorem pure_eq_ok {α : Type} (a : α) : (pure a : PyM α) = Except.ok a := rfl
@[simp] theorem throw_eq_error {α : Type} (e : PyErr) : (throw e : PyM α) = Except.error e := rfl

end PlumVerif.Py

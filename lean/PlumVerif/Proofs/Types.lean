import PlumVerif.Model.Types
/- helper lemmas for the primitive wire types (core Lean only) -/
namespace PlumVerif.Types
open PlumVerif

theorem encodeLE_length (n k : Nat) : (encodeLE n k).length = k := by
  induction k generalizing n with
  | zero => rfl
  | succ k ih => simp [encodeLE, ih]

theorem decodeLE_encodeLE (n k : Nat) (h : n < 256 ^ k) : decodeLE (encodeLE n k) = n := by
  induction k generalizing n with
  | zero => simp [Nat.pow_zero] at h; simp [encodeLE, decodeLE, h]
  | succ k ih =>
    have hk : n / 256 < 256 ^ k := by
      rw [Nat.pow_succ] at h
      exact Nat.div_lt_of_lt_mul (by rw [Nat.mul_comm]; exact h)
    have hb : (n % 256).toUInt8.toNat = n % 256 := by
      simp [Nat.toUInt8, UInt8.toNat_ofNat']
    simp only [encodeLE, decodeLE, ih _ hk, hb]
    omega

theorem decodeLE_lt (bs : List Byte) : decodeLE bs < 256 ^ bs.length := by
  induction bs with
  | nil => simp [decodeLE]
  | cons b r ih =>
    have := b.toNat_lt
    simp only [decodeLE, List.length_cons, Nat.pow_succ]
    omega

theorem encodeLE_decodeLE (bs : List Byte) : encodeLE (decodeLE bs) bs.length = bs := by
  induction bs with
  | nil => rfl
  | cons b r ih =>
    have hb := b.toNat_lt
    have h1 : (b.toNat + 256 * decodeLE r) % 256 = b.toNat := by omega
    have h2 : (b.toNat + 256 * decodeLE r) / 256 = decodeLE r := by omega
    simp only [decodeLE, List.length_cons, encodeLE, h1, h2, ih]
    simp

/-- two's complement round trip for an even modulus -/
theorem ofTwos_toTwos (m : Nat) (hm : m % 2 = 0) (v : Int)
    (hlo : -((m / 2 : Nat) : Int) ≤ v) (hhi : v < ((m / 2 : Nat) : Int)) :
    ofTwos m (toTwos m v) = v := by
  unfold ofTwos toTwos
  split <;> split <;> omega

theorem toTwos_lt (m : Nat) (hm : m % 2 = 0) (v : Int)
    (hlo : -((m / 2 : Nat) : Int) ≤ v) (hhi : v < ((m / 2 : Nat) : Int)) :
    toTwos m v < m := by
  unfold toTwos
  split <;> omega

theorem toTwos_ofTwos (m : Nat) (n : Nat) (h : n < m) : toTwos m (ofTwos m n) = n := by
  unfold ofTwos toTwos
  split <;> split <;> omega

theorem modulus_even (t : IntTy) : t.modulus % 2 = 0 := by
  cases t <;> decide

theorem modulus_pos (t : IntTy) : 0 < t.modulus := by
  cases t <;> decide

theorem inRange_iff (t : IntTy) (v : Int) : t.inRange v = true ↔
    (if t.signed = true then -((t.modulus / 2 : Nat) : Int) ≤ v ∧ v < ((t.modulus / 2 : Nat) : Int)
     else 0 ≤ v ∧ v < (t.modulus : Int)) := by
  unfold IntTy.inRange
  split <;> simp

theorem take_append_length {α} (a b : List α) : (a ++ b).take a.length = a := by
  simp

theorem drop_append_length {α} (a b : List α) : (a ++ b).drop a.length = b := by
  simp

end PlumVerif.Types

import PlumVerif.Model.SetL
import PlumVerif.Proofs.SetM
/-
Helper lemmas about the parameter-lifetime machine `SetL` (several set() calls).
-/
namespace PlumVerif.SetL
open PlumVerif.SetM

@[simp] theorem run_nil (s : LSt) : run s [] = (s, []) := rfl
@[simp] theorem run_cons (s : LSt) (e : Ev) (es : List Ev) :
    run s (e :: es) = ((run (step s e).1 es).1, (step s e).2 ++ (run (step s e).1 es).2) := rfl

theorem run_append (s : LSt) (a b : List Ev) :
    run s (a ++ b) = ((run (run s a).1 b).1, (run s a).2 ++ (run (run s a).1 b).2) := by
  induction a generalizing s with
  | nil => simp
  | cons e es ih => simp [ih, List.append_assoc]

/-- a running call is suspended in a request construction or asleep -/
def Live (c : St) : Prop := c.phase ≠ .idle ∧ c.phase ≠ .done ∧ WF c

/-- facts about reachable states -/
structure WFL (s : LSt) : Prop where
  fresh : ∀ j, s.nextId ≤ j → s.calls j = none
  live : ∀ j c, s.calls j = some c → Live c

theorem init_wfl (loc : Triple) (tr h : Bool) (t : Nat) : WFL (init loc tr h t) :=
  ⟨fun _ _ => rfl, fun _ _ hc => by simp [init] at hc⟩

/-! ### views -/

@[simp] theorem sync_phase (g c : St) : (sync g c).phase = c.phase := rfl
@[simp] theorem sync_req (g c : St) : (sync g c).req = c.req := rfl
@[simp] theorem sync_cap (g c : St) : (sync g c).cap = c.cap := rfl
@[simp] theorem sync_retries (g c : St) : (sync g c).retries = c.retries := rfl
@[simp] theorem sync_timeout (g c : St) : (sync g c).timeout = c.timeout := rfl

theorem sync_active (g c : St) (h : Live c) : Active (sync g c) := h.1
theorem sync_wf (g c : St) (h : Live c) : WF (sync g c) := h.2.2

theorem budget_sync (g c : St) : budget (sync g c) = budget c := rfl

/-- the result of a step of a live call is live again, or the call has ended -/
theorem live_step (m : St) (e : Ev) (ha : Active m) (hw : WF m) (hd : (SetM.step m e).1.phase ≠ .done) :
    Live (SetM.step m e).1 :=
  ⟨(step_frame m e ha).2.2.2.2.2, hd, step_wf m e ha hw⟩

/-! ### what `act` does -/

theorem act_calls_other (s : LSt) (id : Nat) (c : St) (ev : Ev) (rest : List Nat) (j : Nat) (hj : j ≠ id) :
    (act s id c ev rest).1.calls j = s.calls j := by
  simp [act, hj]

theorem act_calls_self (s : LSt) (id : Nat) (c : St) (ev : Ev) (rest : List Nat) :
    (act s id c ev rest).1.calls id =
      if (SetM.step (sync s.g c) ev).1.phase = .done then none else some (SetM.step (sync s.g c) ev).1 := by
  simp [act]

theorem act_nextId (s : LSt) (id : Nat) (c : St) (ev : Ev) (rest : List Nat) :
    (act s id c ev rest).1.nextId = s.nextId := rfl

theorem act_outs (s : LSt) (id : Nat) (c : St) (ev : Ev) (rest : List Nat) :
    (act s id c ev rest).2 = (SetM.step (sync s.g c) ev).2.map (LOut.mk id) := rfl

/-- the outputs of call `id` -/
def outsOf (id : Nat) (l : List LOut) : List Out := (l.filter (fun x => x.id == id)).map (·.o)

@[simp] theorem outsOf_nil (id : Nat) : outsOf id [] = [] := rfl
theorem outsOf_append (id : Nat) (a b : List LOut) : outsOf id (a ++ b) = outsOf id a ++ outsOf id b := by
  simp [outsOf]

theorem outsOf_map_self (id : Nat) (l : List Out) : outsOf id (l.map (LOut.mk id)) = l := by
  induction l with
  | nil => rfl
  | cons x xs ih => simp [outsOf] at ih ⊢; exact ih

theorem outsOf_map_other (id j : Nat) (l : List Out) (h : j ≠ id) : outsOf id (l.map (LOut.mk j)) = [] := by
  induction l with
  | nil => rfl
  | cons x xs ih => simp [outsOf, h] at ih ⊢

/-- `earliest` returns a running call with a number below the bound -/
theorem earliest_some (calls : Nat → Option St) : ∀ n id c, earliest calls n = some (id, c) →
    calls id = some c ∧ id < n
  | 0, _, _, h => by simp [earliest] at h
  | n + 1, id, c, h => by
    unfold earliest at h
    have ih := earliest_some calls n
    cases hc : calls n with
    | none =>
      simp only [hc] at h
      have := ih id c h
      exact ⟨this.1, by omega⟩
    | some d =>
      simp only [hc] at h
      split at h
      · cases he : earliest calls n with
        | none =>
          simp only [he, Option.some.injEq, Prod.mk.injEq] at h
          obtain ⟨rfl, rfl⟩ := h
          exact ⟨hc, by omega⟩
        | some p =>
          obtain ⟨j, d'⟩ := p
          simp only [he] at h
          split at h
          · simp only [Option.some.injEq, Prod.mk.injEq] at h
            obtain ⟨rfl, rfl⟩ := h
            have := ih j d' he
            exact ⟨this.1, by omega⟩
          · simp only [Option.some.injEq, Prod.mk.injEq] at h
            obtain ⟨rfl, rfl⟩ := h
            exact ⟨hc, by omega⟩
      · have := ih id c h
        exact ⟨this.1, by omega⟩

/-- every step is: a running call takes a step of the one-call machine, a new call starts, or only
the shared part changes and nothing is produced -/
inductive StepKind (s : LSt) (e : Ev) : Prop
  | existing (id : Nat) (c : St) (ev : Ev) (rest : List Nat) (hc : s.calls id = some c)
      (hev : ev = .built ∨ ev = .timer) (h : step s e = act s id c ev rest) (he : e.isCall = false) : StepKind s e
  | fresh (v r T : Nat) (he : e = .call v r T)
      (h : step s e = act { s with nextId := s.nextId + 1 } s.nextId { s.g with phase := .idle } (.call v r T) s.builds) :
      StepKind s e
  | quiet (h2 : (step s e).2 = []) (hc : (step s e).1.calls = s.calls) (hn : (step s e).1.nextId = s.nextId)
      (he : e.isCall = false) : StepKind s e

theorem step_kind (s : LSt) (e : Ev) : StepKind s e := by
  cases e with
  | call v r T => exact .fresh v r T rfl rfl
  | built =>
    cases hb : s.builds with
    | nil => exact .quiet (by simp [step, hb]) (by simp [step, hb]) (by simp [step, hb]) rfl
    | cons id rest =>
      cases hc : s.calls id with
      | none => exact .quiet (by simp [step, hb, hc]) (by simp [step, hb, hc]) (by simp [step, hb, hc]) rfl
      | some c => exact .existing id c .built rest hc (Or.inl rfl) (by simp [step, hb, hc]) rfl
  | timer =>
    cases he : earliest s.calls s.nextId with
    | none => exact .quiet (by simp [step, he]) (by simp [step, he]) (by simp [step, he]) rfl
    | some p =>
      obtain ⟨id, c⟩ := p
      have := earliest_some s.calls s.nextId id c he
      exact .existing id c .timer s.builds this.1 (Or.inr rfl) (by simp [step, he]) rfl
  | report t => exact .quiet rfl rfl rfl rfl
  | wait d =>
    refine .quiet ?_ ?_ ?_ rfl <;> (simp only [step]; split <;> rfl)
  | setTracking b => exact .quiet rfl rfl rfl rfl


theorem sync_view0 (g : St) : sync g { g with phase := .idle } = { g with phase := .idle } := rfl

/-- a new call either ends at once (nothing transmitted) or enters its loop as a live call whose value is `v` -/
theorem fresh_call (g : St) (v r T : Nat) :
    let x := SetM.step { g with phase := .idle } (.call v r T)
    (x.1.phase = .done ∧ txVals x.2 = []) ∨
    (x.1.phase ≠ .done ∧ Live x.1 ∧ x.1.req = v ∧ (∀ y ∈ txVals x.2, y = v) ∧
      (txVals x.2).length + budget x.1 ≤ r) ∨
    (x.1.phase = .done ∧ (∀ y ∈ txVals x.2, y = v) ∧ (txVals x.2).length ≤ r) := by
  intro x
  rcases after_call { g with phase := .idle } rfl v r T with ⟨hd, ht, _⟩ | ⟨_, hc⟩
  · exact Or.inl ⟨hd, ht⟩
  · obtain ⟨ha, hw, hr, _⟩ := arm_facts { g with phase := .idle } v r T
    have hx : x = loopTop (arm { g with phase := .idle } v r T) := hc
    have hv := loopTop_txVals (arm { g with phase := .idle } v r T)
    have hb := (loopTop_budget (arm { g with phase := .idle } v r T)).1
    have hreq : (arm { g with phase := .idle } v r T).req = v := rfl
    have hret : (arm { g with phase := .idle } v r T).retries = r := rfl
    rw [hreq] at hv; rw [hret] at hb
    by_cases hd : x.1.phase = .done
    · right; right
      rw [hx] at hd ⊢
      exact ⟨hd, hv, by omega⟩
    · right; left
      rw [hx] at hd ⊢
      exact ⟨hd, ⟨ha, hd, hw⟩, hr, hv, hb⟩

theorem step_wfl (s : LSt) (e : Ev) (w : WFL s) : WFL (step s e).1 := by
  rcases step_kind s e with ⟨id, c, ev, rest, hc, hev, h, _⟩ | ⟨v, r, T, he, h⟩ | ⟨_, hc, hn, _⟩
  · rw [h]
    have hlt : id < s.nextId := by
      apply Classical.byContradiction; intro hge
      have := w.fresh id (by omega); rw [hc] at this; cases this
    have hl := w.live id c hc
    refine ⟨?_, ?_⟩
    · intro j hj
      rw [act_nextId] at hj
      rw [act_calls_other _ _ _ _ _ j (by omega)]
      exact w.fresh j hj
    · intro j d hd
      by_cases hj : j = id
      · subst hj
        rw [act_calls_self] at hd
        split at hd
        · cases hd
        · rename_i hnd
          simp only [Option.some.injEq] at hd
          subst hd
          exact live_step _ ev (sync_active s.g c hl) (sync_wf s.g c hl) hnd
      · rw [act_calls_other _ _ _ _ _ j hj] at hd
        exact w.live j d hd
  · rw [h]
    refine ⟨?_, ?_⟩
    · intro j hj
      have hj' : s.nextId + 1 ≤ j := hj
      rw [act_calls_other _ _ _ _ _ j (by omega)]
      exact w.fresh j (by omega)
    · intro j d hd
      by_cases hj : j = s.nextId
      · subst hj
        rw [act_calls_self] at hd
        split at hd
        · cases hd
        · rename_i hnd
          simp only [Option.some.injEq] at hd
          subst hd
          have hv : sync s.g { s.g with phase := .idle } = { s.g with phase := .idle } := rfl
          have hnd' : (SetM.step { s.g with phase := .idle } (.call v r T)).1.phase ≠ .done := hnd
          rcases fresh_call s.g v r T with ⟨h1, _⟩ | ⟨_, h2, _⟩ | ⟨h1, _⟩
          · exact absurd h1 hnd'
          · exact h2
          · exact absurd h1 hnd'
      · rw [act_calls_other _ _ _ _ _ j hj] at hd
        exact w.live j d hd
  · exact ⟨fun j hj => by rw [hc]; exact w.fresh j (by omega), fun j d hd => w.live j d (by rw [← hc]; exact hd)⟩

theorem run_wfl (s : LSt) (es : List Ev) (w : WFL s) : WFL (run s es).1 := by
  induction es generalizing s with
  | nil => simpa using w
  | cons e es ih => simpa using ih _ (step_wfl s e w)

theorem nextId_mono (s : LSt) (e : Ev) : s.nextId ≤ (step s e).1.nextId := by
  rcases step_kind s e with ⟨id, c, ev, rest, hc, hev, h, _⟩ | ⟨v, r, T, he, h⟩ | ⟨_, _, hn, _⟩
  · rw [h, act_nextId]; exact Nat.le_refl _
  · rw [h, act_nextId]; exact Nat.le_succ _
  · rw [hn]; exact Nat.le_refl _

/-! ### a call that has returned is silent for ever -/

theorem dead_step (s : LSt) (e : Ev) (_w : WFL s) (id : Nat) (hlt : id < s.nextId) (hn : s.calls id = none) :
    outsOf id (step s e).2 = [] ∧ (step s e).1.calls id = none := by
  rcases step_kind s e with ⟨j, c, ev, rest, hc, hev, h, _⟩ | ⟨v, r, T, he, h⟩ | ⟨h2, hc, _, _⟩
  · have hj : j ≠ id := by intro hji; subst hji; rw [hn] at hc; cases hc
    rw [h, act_outs, outsOf_map_other id j _ hj, act_calls_other _ _ _ _ _ id (Ne.symm hj)]
    exact ⟨rfl, hn⟩
  · have hj : s.nextId ≠ id := by omega
    rw [h, act_outs, outsOf_map_other id _ _ hj, act_calls_other _ _ _ _ _ id (Ne.symm hj)]
    exact ⟨rfl, hn⟩
  · rw [h2, hc]; exact ⟨rfl, hn⟩

theorem dead_run (s : LSt) (es : List Ev) (w : WFL s) (id : Nat) (hlt : id < s.nextId) (hn : s.calls id = none) :
    outsOf id (run s es).2 = [] := by
  induction es generalizing s with
  | nil => rfl
  | cons e es ih =>
    obtain ⟨h1, h2⟩ := dead_step s e w id hlt hn
    rw [run_cons, outsOf_append, h1, List.nil_append]
    exact ih _ (step_wfl s e w) (Nat.lt_of_lt_of_le hlt (nextId_mono s e)) h2


/-! ### a running call: its own value, its own budget -/

theorem id_lt_of_some (s : LSt) (w : WFL s) (id : Nat) (c : St) (hc : s.calls id = some c) : id < s.nextId := by
  apply Classical.byContradiction; intro hge
  have := w.fresh id (by omega); rw [hc] at this; cases this

theorem live_run (s : LSt) (es : List Ev) (w : WFL s) (id : Nat) (c : St) (hc : s.calls id = some c) :
    (∀ y ∈ txVals (outsOf id (run s es).2), y = c.req) ∧
    (txVals (outsOf id (run s es).2)).length ≤ budget c := by
  induction es generalizing s c with
  | nil => simp
  | cons e es ih =>
    have hlt := id_lt_of_some s w id c hc
    have w' := step_wfl s e w
    rw [run_cons, outsOf_append, txVals_append]
    have same : outsOf id (step s e).2 = [] → (step s e).1.calls id = some c →
        (∀ y ∈ txVals [] ++ txVals (outsOf id (run (step s e).1 es).2), y = c.req) ∧
        (txVals [] ++ txVals (outsOf id (run (step s e).1 es).2)).length ≤ budget c := by
      intro _ h2
      simpa using ih _ w' c h2
    rcases step_kind s e with ⟨j, d, ev, rest, hd, hev, h, _⟩ | ⟨v, r, T, he, h⟩ | ⟨h2, hcs, _, _⟩
    · by_cases hj : j = id
      · subst hj
        have hdc : d = c := by rw [hc] at hd; cases hd; rfl
        subst hdc
        have hl := w.live j d hd
        have ha := sync_active s.g d hl
        have hw := sync_wf s.g d hl
        have hv := step_txVals (sync s.g d) ev ha hw
        have hb := (step_budget (sync s.g d) ev ha hw).1
        have hf := step_frame (sync s.g d) ev ha
        rw [h, act_outs, outsOf_map_self]
        by_cases hdone : (SetM.step (sync s.g d) ev).1.phase = .done
        · have hnone : (act s j d ev rest).1.calls j = none := by rw [act_calls_self]; simp [hdone]
          have hdead := dead_run (act s j d ev rest).1 es (by rw [← h]; exact w') j (by rw [act_nextId]; exact hlt) hnone
          rw [hdead]
          simp only [txVals_nil, List.append_nil]
          exact ⟨fun y hy => by simpa using hv y hy, by rw [budget_sync] at hb; omega⟩
        · have hsome : (act s j d ev rest).1.calls j = some (SetM.step (sync s.g d) ev).1 := by
            rw [act_calls_self]; simp [hdone]
          obtain ⟨i1, i2⟩ := ih (act s j d ev rest).1 (by rw [← h]; exact w') _ hsome
          refine ⟨?_, ?_⟩
          · intro y hy
            rcases List.mem_append.mp hy with hy | hy
            · simpa using hv y hy
            · rw [i1 y hy, hf.1]; rfl
          · rw [List.length_append]
            rw [budget_sync] at hb
            omega
      · have h1 : outsOf id (step s e).2 = [] := by rw [h, act_outs, outsOf_map_other id j _ hj]
        have h2 : (step s e).1.calls id = some c := by rw [h, act_calls_other _ _ _ _ _ id (Ne.symm hj)]; exact hc
        rw [h1]; exact same h1 h2
    · have hj : s.nextId ≠ id := by omega
      have h1 : outsOf id (step s e).2 = [] := by rw [h, act_outs, outsOf_map_other id _ _ hj]
      have h2 : (step s e).1.calls id = some c := by rw [h, act_calls_other _ _ _ _ _ id (Ne.symm hj)]; exact hc
      rw [h1]; exact same h1 h2
    · have h1 : outsOf id (step s e).2 = [] := by rw [h2]; rfl
      have h2' : (step s e).1.calls id = some c := by rw [hcs]; exact hc
      rw [h1]; exact same h1 h2'


/-! ### a call that has not been made yet -/

theorem callArgs_skip (e : Ev) (es : List Ev) (n : Nat) (he : e.isCall = false) :
    callArgs (e :: es) n = callArgs es n := by
  cases e <;> first | rfl | simp [Ev.isCall] at he

theorem future_run (s : LSt) (es : List Ev) (w : WFL s) (id : Nat) (hid : s.nextId ≤ id) :
    (∀ y ∈ txVals (outsOf id (run s es).2), ∃ r T, callArgs es (id - s.nextId) = some (y, r, T)) ∧
    (∀ v r T, callArgs es (id - s.nextId) = some (v, r, T) → (txVals (outsOf id (run s es).2)).length ≤ r) := by
  induction es generalizing s with
  | nil => simp
  | cons e es ih =>
    have w' := step_wfl s e w
    rw [run_cons, outsOf_append, txVals_append]
    -- the step is somebody else's: nothing of `id` is produced, the count of calls made may grow by one
    have other : ∀ (k : Nat), outsOf id (step s e).2 = [] → (step s e).1.nextId = s.nextId + k → s.nextId + k ≤ id →
        callArgs (e :: es) (id - s.nextId) = callArgs es (id - (s.nextId + k)) →
        (∀ y ∈ txVals [] ++ txVals (outsOf id (run (step s e).1 es).2),
            ∃ r T, callArgs (e :: es) (id - s.nextId) = some (y, r, T)) ∧
        (∀ v r T, callArgs (e :: es) (id - s.nextId) = some (v, r, T) →
            (txVals [] ++ txVals (outsOf id (run (step s e).1 es).2)).length ≤ r) := by
      intro k _ hn hle hca
      have := ih (step s e).1 w' (by rw [hn]; exact hle)
      rw [hn] at this
      rw [hca]
      simpa using this
    rcases step_kind s e with ⟨j, d, ev, rest, hd, hev, h, he⟩ | ⟨v, r, T, he, h⟩ | ⟨h2, hcs, hn, he⟩
    · have hj : j ≠ id := by have := id_lt_of_some s w j d hd; omega
      have h1 : outsOf id (step s e).2 = [] := by rw [h, act_outs, outsOf_map_other id j _ hj]
      rw [h1]
      exact other 0 h1 (by rw [h, act_nextId]; rfl) (by omega) (by rw [callArgs_skip e es _ he]; rfl)
    · subst he
      by_cases hi : id = s.nextId
      · subst hi
        have hz : s.nextId - s.nextId = 0 := by omega
        rw [hz]
        have hca : callArgs (Ev.call v r T :: es) 0 = some (v, r, T) := rfl
        rw [hca, h, act_outs, outsOf_map_self]
        have hv0 : sync s.g { s.g with phase := .idle } = { s.g with phase := .idle } := rfl
        have hlt' : s.nextId < (act { s with nextId := s.nextId + 1 } s.nextId { s.g with phase := .idle } (.call v r T) s.builds).1.nextId := by
          rw [act_nextId]; exact Nat.lt_succ_self _
        have wA : WFL (act { s with nextId := s.nextId + 1 } s.nextId { s.g with phase := .idle } (.call v r T) s.builds).1 := by
          rw [← h]; exact w'
        have key : (∀ y ∈ txVals (SetM.step { s.g with phase := .idle } (.call v r T)).2 ++
              txVals (outsOf s.nextId (run (act { s with nextId := s.nextId + 1 } s.nextId { s.g with phase := .idle } (.call v r T) s.builds).1 es).2), y = v) ∧
            (txVals (SetM.step { s.g with phase := .idle } (.call v r T)).2 ++
              txVals (outsOf s.nextId (run (act { s with nextId := s.nextId + 1 } s.nextId { s.g with phase := .idle } (.call v r T) s.builds).1 es).2)).length ≤ r := by
          rcases fresh_call s.g v r T with ⟨hd, ht⟩ | ⟨hnd, hl, hr, hv, hb⟩ | ⟨hd, hv, hb⟩
          · have hnone : (act { s with nextId := s.nextId + 1 } s.nextId { s.g with phase := .idle } (.call v r T) s.builds).1.calls s.nextId = none := by
              rw [act_calls_self]; simp [hd, hv0]
            rw [dead_run _ es wA s.nextId hlt' hnone, ht]
            simp
          · have hsome : (act { s with nextId := s.nextId + 1 } s.nextId { s.g with phase := .idle } (.call v r T) s.builds).1.calls s.nextId
                = some (SetM.step { s.g with phase := .idle } (.call v r T)).1 := by
              rw [act_calls_self]; simp [hnd, hv0]
            obtain ⟨l1, l2⟩ := live_run _ es wA s.nextId _ hsome
            refine ⟨?_, ?_⟩
            · intro y hy
              rcases List.mem_append.mp hy with hy | hy
              · exact hv y hy
              · rw [l1 y hy, hr]
            · rw [List.length_append]; exact Nat.le_trans (Nat.add_le_add_left l2 _) hb
          · have hnone : (act { s with nextId := s.nextId + 1 } s.nextId { s.g with phase := .idle } (.call v r T) s.builds).1.calls s.nextId = none := by
              rw [act_calls_self]; simp [hd, hv0]
            rw [dead_run _ es wA s.nextId hlt' hnone]
            simp only [txVals_nil, List.append_nil]
            exact ⟨hv, hb⟩
        refine ⟨?_, ?_⟩
        · intro y hy
          exact ⟨r, T, by rw [key.1 y hy]⟩
        · intro v' r' T' hq
          simp only [Option.some.injEq, Prod.mk.injEq] at hq
          obtain ⟨_, rfl, _⟩ := hq
          exact key.2
      · have hj : s.nextId ≠ id := fun h => hi h.symm
        have h1 : outsOf id (step s (.call v r T)).2 = [] := by rw [h, act_outs, outsOf_map_other id _ _ hj]
        rw [h1]
        refine other 1 h1 (by rw [h, act_nextId]) (by omega) ?_
        have : id - s.nextId = (id - (s.nextId + 1)) + 1 := by omega
        rw [this]; rfl
    · have h1 : outsOf id (step s e).2 = [] := by rw [h2]; rfl
      rw [h1]
      exact other 0 h1 (by rw [hn]; rfl) (by omega) (by rw [callArgs_skip e es _ he]; rfl)


/-! ### a rejected call is inert -/

theorem back_self (g : St) (p : Phase) : back g { g with phase := p } = g := by
  cases g; rfl

theorem rejected_step (s : LSt) (w : WFL s) (v r T : Nat)
    (hrej : v = s.g.loc.value ∨ v < s.g.loc.min ∨ v > s.g.loc.max) :
    (step s (.call v r T)).1 = { s with nextId := s.nextId + 1 } ∧
    ((step s (.call v r T)).2 = [⟨s.nextId, .ret true s.g.now⟩] ∨
     (step s (.call v r T)).2 = [⟨s.nextId, .raise s.g.now⟩]) := by
  have hstep : step s (.call v r T) =
      act { s with nextId := s.nextId + 1 } s.nextId { s.g with phase := .idle } (.call v r T) s.builds := rfl
  have hres : SetM.step { s.g with phase := .idle } (.call v r T) = ({ s.g with phase := .done }, [.ret true s.g.now]) ∨
      SetM.step { s.g with phase := .idle } (.call v r T) = ({ s.g with phase := .done }, [.raise s.g.now]) := by
    rcases call_cases { s.g with phase := .idle } rfl v r T with ⟨_, h2⟩ | ⟨_, _, h2⟩ | ⟨h1, h3, h4, _⟩
    · exact Or.inl h2
    · exact Or.inr h2
    · rcases hrej with h | h | h
      · exact absurd h h1
      · have : s.g.loc.min ≤ v := h3
        omega
      · have : v ≤ s.g.loc.max := h4
        omega
  have hcalls : (fun j => if j = s.nextId then none else s.calls j) = s.calls := by
    funext j
    by_cases hj : j = s.nextId
    · rw [hj, w.fresh s.nextId (Nat.le_refl _)]; simp
    · simp [hj]
  rw [hstep]
  unfold act
  have hv0 : sync s.g { s.g with phase := .idle } = { s.g with phase := .idle } := rfl
  simp only [hv0]
  rcases hres with h | h
  · rw [h]
    refine ⟨?_, Or.inl rfl⟩
    simp only [back_self, isBuild, ↓reduceIte, Bool.false_eq_true, hcalls]
  · rw [h]
    refine ⟨?_, Or.inr rfl⟩
    simp only [back_self, isBuild, ↓reduceIte, Bool.false_eq_true, hcalls]


/-! ### one call alone behaves as the one-call machine -/

theorem earliest_none (calls : Nat → Option St) (h : ∀ j, calls j = none) : ∀ n, earliest calls n = none
  | 0 => rfl
  | n + 1 => by unfold earliest; rw [h n]; exact earliest_none calls h n

theorem wakesBy_none (calls : Nat → Option St) (t : Nat) (h : ∀ j, calls j = none) : ∀ n, wakesBy calls t n = false
  | 0 => rfl
  | n + 1 => by unfold wakesBy; rw [h n, wakesBy_none calls t h n]; rfl

theorem earliest_below (calls : Nat → Option St) (id : Nat) (h : ∀ j, j ≠ id → calls j = none) :
    ∀ n, n ≤ id → earliest calls n = none
  | 0, _ => rfl
  | n + 1, hn => by
    unfold earliest
    rw [h n (by omega)]
    exact earliest_below calls id h n (by omega)

theorem earliest_single (calls : Nat → Option St) (id : Nat) (c : St) (hc : calls id = some c)
    (h : ∀ j, j ≠ id → calls j = none) : ∀ n, id < n →
    earliest calls n = if c.phase = .sleeping then some (id, c) else none
  | 0, hn => by omega
  | n + 1, hn => by
    unfold earliest
    by_cases hni : n = id
    · subst hni
      rw [hc, earliest_below calls n h n (Nat.le_refl _)]
    · rw [h n hni]
      exact earliest_single calls id c hc h n (by omega)

theorem wakesBy_below (calls : Nat → Option St) (t id : Nat) (h : ∀ j, j ≠ id → calls j = none) :
    ∀ n, n ≤ id → wakesBy calls t n = false
  | 0, _ => rfl
  | n + 1, hn => by
    unfold wakesBy
    rw [h n (by omega), wakesBy_below calls t id h n (by omega)]; rfl

theorem wakesBy_single (calls : Nat → Option St) (t id : Nat) (c : St) (hc : calls id = some c)
    (h : ∀ j, j ≠ id → calls j = none) : ∀ n, id < n →
    wakesBy calls t n = (decide (c.phase = .sleeping) && decide (c.wake ≤ t))
  | 0, hn => by omega
  | n + 1, hn => by
    unfold wakesBy
    by_cases hni : n = id
    · subst hni
      rw [hc, wakesBy_below calls t n h n (Nat.le_refl _)]
      simp
    · rw [h n hni, wakesBy_single calls t id c hc h n (by omega)]
      simp

theorem sync_back_eq (g x : St) (ht : x.tracking = g.tracking) (hh : x.hold = g.hold) : sync (back g x) x = x := by
  cases x; cases g; simp_all [sync, back]

/-- the shared part agrees -/
def Sh (g m : St) : Prop :=
  g.loc = m.loc ∧ g.prev = m.prev ∧ g.pending = m.pending ∧ g.tracking = m.tracking ∧ g.hold = m.hold ∧ g.now = m.now

/-- in `ls` call `id` is the only call there is or has been since; `m` is the one-call machine that mirrors it -/
def Alone (ls : LSt) (id : Nat) (m : St) : Prop :=
  (∃ c, ls.calls id = some c ∧ m = sync ls.g c ∧ (∀ j, j ≠ id → ls.calls j = none) ∧ id < ls.nextId ∧
      ls.builds = (if isBuild c.phase then [id] else []) ∧ Live c) ∨
  ((∀ j, ls.calls j = none) ∧ ls.builds = [] ∧ m.phase = .done ∧ Sh ls.g m)

/-- after a step of the only call -/
theorem alone_after_act (ls : LSt) (id : Nat) (c : St) (ev : Ev) (hc : ls.calls id = some c)
    (hothers : ∀ j, j ≠ id → ls.calls j = none) (hid : id < ls.nextId) (hl : Live c) (hev : ev.isTrack = false)
    (_hcall : ev.isCall = false) :
    Alone (act ls id c ev []).1 id (SetM.step (sync ls.g c) ev).1 := by
  have ha := sync_active ls.g c hl
  have hw := sync_wf ls.g c hl
  have hf := step_frame (sync ls.g c) ev ha
  have htr : (SetM.step (sync ls.g c) ev).1.tracking = ls.g.tracking := hf.2.2.2.1 hev
  have hho : (SetM.step (sync ls.g c) ev).1.hold = ls.g.hold := hf.2.2.2.2.1
  have hsb := sync_back_eq ls.g (SetM.step (sync ls.g c) ev).1 htr hho
  by_cases hd : (SetM.step (sync ls.g c) ev).1.phase = .done
  · right
    refine ⟨?_, ?_, hd, ?_⟩
    · intro j
      by_cases hj : j = id
      · subst hj; rw [act_calls_self]; simp [hd]
      · rw [act_calls_other _ _ _ _ _ j hj]; exact hothers j hj
    · simp [act, hd, isBuild]
    · exact ⟨rfl, rfl, rfl, htr.symm, hho.symm, rfl⟩
  · left
    refine ⟨(SetM.step (sync ls.g c) ev).1, ?_, ?_, ?_, hid, ?_, live_step _ ev ha hw hd⟩
    · rw [act_calls_self]; simp [hd]
    · exact hsb.symm
    · intro j hj; rw [act_calls_other _ _ _ _ _ j hj]; exact hothers j hj
    · simp only [act, List.nil_append]


theorem live_phase (c : St) (hl : Live c) : c.phase = .buildSet ∨ c.phase = .buildRefresh ∨ c.phase = .sleeping := by
  obtain ⟨h1, h2, _⟩ := hl
  cases hp : c.phase <;> simp_all

theorem alone_step (ls : LSt) (id : Nat) (m : St) (e : Ev) (h : Alone ls id m) (he : e.isCall = false) :
    Alone (step ls e).1 id (SetM.step m e).1 ∧ (step ls e).2 = (SetM.step m e).2.map (LOut.mk id) := by
  rcases h with ⟨c, hc, hm, hothers, hid, hb, hl⟩ | ⟨hnone, hb, hd, hsh⟩
  · -- the call is running
    subst hm
    cases e with
    | call v r T => simp [Ev.isCall] at he
    | built =>
      rcases live_phase c hl with hp | hp | hp
      · have hb' : ls.builds = [id] := by simpa [hp, isBuild] using hb
        have hs : step ls .built = act ls id c .built [] := by simp [step, hb', hc]
        rw [hs]
        exact ⟨alone_after_act ls id c .built hc hothers hid hl rfl rfl, rfl⟩
      · have hb' : ls.builds = [id] := by simpa [hp, isBuild] using hb
        have hs : step ls .built = act ls id c .built [] := by simp [step, hb', hc]
        rw [hs]
        exact ⟨alone_after_act ls id c .built hc hothers hid hl rfl rfl, rfl⟩
      · have hb' : ls.builds = [] := by simpa [hp, isBuild] using hb
        have hs : step ls .built = (ls, []) := by simp [step, hb']
        have hm : SetM.step (sync ls.g c) .built = (sync ls.g c, []) := by simp [SetM.step, hp]
        rw [hs, hm]
        exact ⟨Or.inl ⟨c, hc, rfl, hothers, hid, hb, hl⟩, rfl⟩
    | timer =>
      have hearly := earliest_single ls.calls id c hc hothers ls.nextId hid
      by_cases hp : c.phase = .sleeping
      · have hb' : ls.builds = [] := by simpa [hp, isBuild] using hb
        have hs : step ls .timer = act ls id c .timer [] := by simp [step, hearly, hp, hb']
        rw [hs]
        exact ⟨alone_after_act ls id c .timer hc hothers hid hl rfl rfl, rfl⟩
      · have hs : step ls .timer = (ls, []) := by simp [step, hearly, hp]
        have hm : SetM.step (sync ls.g c) .timer = (sync ls.g c, []) := by simp [SetM.step, hp]
        rw [hs, hm]
        exact ⟨Or.inl ⟨c, hc, rfl, hothers, hid, hb, hl⟩, rfl⟩
    | report t =>
      exact ⟨Or.inl ⟨c, hc, rfl, hothers, hid, hb, hl⟩, rfl⟩
    | setTracking b =>
      exact ⟨Or.inl ⟨c, hc, rfl, hothers, hid, hb, hl⟩, rfl⟩
    | wait d =>
      have hwk := wakesBy_single ls.calls (ls.g.now + d) id c hc hothers ls.nextId hid
      by_cases hcond : c.phase = .sleeping ∧ c.wake ≤ ls.g.now + d
      · have hs : step ls (.wait d) = (ls, []) := by simp [step, hwk, hcond.1, hcond.2]
        have hm : SetM.step (sync ls.g c) (.wait d) = (sync ls.g c, []) := by
          simp only [SetM.step]
          have : (sync ls.g c).phase = .sleeping ∧ (sync ls.g c).wake ≤ (sync ls.g c).now + d := hcond
          rw [if_pos this]
        rw [hs, hm]
        exact ⟨Or.inl ⟨c, hc, rfl, hothers, hid, hb, hl⟩, rfl⟩
      · have hw0 : wakesBy ls.calls (ls.g.now + d) ls.nextId = false := by
          rw [hwk]
          by_cases h1 : c.phase = .sleeping
          · have : ¬ c.wake ≤ ls.g.now + d := fun h2 => hcond ⟨h1, h2⟩
            simp [h1, this]
          · simp [h1]
        have hs : step ls (.wait d) = ({ ls with g := { ls.g with now := ls.g.now + d } }, []) := by simp [step, hw0]
        have hm : SetM.step (sync ls.g c) (.wait d) = ({ sync ls.g c with now := ls.g.now + d }, []) := by
          simp only [SetM.step]
          have : ¬ ((sync ls.g c).phase = .sleeping ∧ (sync ls.g c).wake ≤ (sync ls.g c).now + d) := hcond
          simp only [this, ↓reduceIte]
          rfl
        rw [hs, hm]
        exact ⟨Or.inl ⟨c, hc, rfl, hothers, hid, hb, hl⟩, rfl⟩
  · -- the call has returned: both are silent, the shared part moves alike
    obtain ⟨h1, h2⟩ := done_step m e hd
    obtain ⟨s1, s2, s3, s4, s5, s6⟩ := hsh
    cases e with
    | call v r T => simp [Ev.isCall] at he
    | built =>
      have hs : step ls .built = (ls, []) := by simp [step, hb]
      have hm : SetM.step m .built = (m, []) := by simp [SetM.step, hd]
      rw [hs, hm]; exact ⟨Or.inr ⟨hnone, hb, hd, s1, s2, s3, s4, s5, s6⟩, rfl⟩
    | timer =>
      have hs : step ls .timer = (ls, []) := by simp [step, earliest_none ls.calls hnone]
      have hm : SetM.step m .timer = (m, []) := by simp [SetM.step, hd]
      rw [hs, hm]; exact ⟨Or.inr ⟨hnone, hb, hd, s1, s2, s3, s4, s5, s6⟩, rfl⟩
    | report t =>
      refine ⟨Or.inr ⟨hnone, hb, h1, ?_⟩, rfl⟩
      show Sh (update ls.g t) (update m t)
      unfold Sh update
      rw [s2, s3]
      exact ⟨rfl, s2 ▸ rfl, rfl, s4, s5, s6⟩
    | setTracking b =>
      refine ⟨Or.inr ⟨hnone, hb, h1, ?_⟩, rfl⟩
      exact ⟨s1, s2, s3, rfl, s5, s6⟩
    | wait d =>
      have hs : step ls (.wait d) = ({ ls with g := { ls.g with now := ls.g.now + d } }, []) := by
        simp [step, wakesBy_none ls.calls _ hnone]
      have hm : SetM.step m (.wait d) = ({ m with now := m.now + d }, []) := by simp [SetM.step, hd]
      rw [hs, hm]
      refine ⟨Or.inr ⟨hnone, hb, hd, ?_⟩, rfl⟩
      exact ⟨s1, s2, s3, s4, s5, by show ls.g.now + d = m.now + d; rw [s6]⟩

theorem alone_run (ls : LSt) (id : Nat) (m : St) (es : List Ev) (h : Alone ls id m)
    (hes : ∀ e ∈ es, e.isCall = false) :
    (run ls es).2 = (SetM.run m es).2.map (LOut.mk id) ∧ Alone (run ls es).1 id (SetM.run m es).1 := by
  induction es generalizing ls m with
  | nil => exact ⟨rfl, h⟩
  | cons e es ih =>
    obtain ⟨h1, h2⟩ := alone_step ls id m e h (hes e (by simp))
    obtain ⟨i1, i2⟩ := ih _ _ h1 (fun e' he' => hes e' (by simp [he']))
    simp only [run_cons, SetM.run_cons, List.map_append, h2, i1]
    exact ⟨trivial, i2⟩


/-- a final output means the one-call machine has finished -/
theorem run_done_of_final (s : St) (es : List Ev) (hact : Active s)
    (hret : (SetM.run s es).2.any Out.isFinal = true) : (SetM.run s es).1.phase = .done := by
  induction es generalizing s with
  | nil => simp at hret
  | cons e es ih =>
    simp only [SetM.run_cons, List.any_append, Bool.or_eq_true] at hret ⊢
    by_cases hsd : s.phase = .done
    · exact (done_silent _ es (done_step s e hsd).1).1
    · rcases hret with hret | hret
      · exact (done_silent _ es ((step_final s e hact hsd).1 hret)).1
      · exact ih _ (step_frame s e hact).2.2.2.2.2 hret

/-- no call is running -/
def Quiet (ls : LSt) : Prop := (∀ j, ls.calls j = none) ∧ ls.builds = []

theorem quiet_init (loc : Triple) (tr h : Bool) (t : Nat) : Quiet (init loc tr h t) := ⟨fun _ => rfl, rfl⟩

theorem quiet_of_alone_done (ls : LSt) (id : Nat) (m : St) (h : Alone ls id m) (hd : m.phase = .done) : Quiet ls := by
  rcases h with ⟨c, _, hm, _, _, _, hl⟩ | ⟨h1, h2, _, _⟩
  · subst hm; exact absurd hd hl.2.1
  · exact ⟨h1, h2⟩

theorem call_hold (g : St) (v r T : Nat) :
    (SetM.step { g with phase := .idle } (.call v r T)).1.hold = g.hold := by
  rcases call_cases { g with phase := .idle } rfl v r T with ⟨_, h2⟩ | ⟨_, _, h2⟩ | ⟨_, _, _, h2⟩
  · rw [h2]
  · rw [h2]
  · rw [h2]; exact (loopTop_frame _).2.2.2.2.1

/-- a call made while no other call is running -/
theorem call_from_quiet (ls : LSt) (hq : Quiet ls) (v r T : Nat) :
    Alone (step ls (.call v r T)).1 ls.nextId (SetM.step { ls.g with phase := .idle } (.call v r T)).1 ∧
    (step ls (.call v r T)).2 = (SetM.step { ls.g with phase := .idle } (.call v r T)).2.map (LOut.mk ls.nextId) := by
  obtain ⟨hnone, hb⟩ := hq
  have hs : step ls (.call v r T) =
      act { ls with nextId := ls.nextId + 1 } ls.nextId { ls.g with phase := .idle } (.call v r T) [] := by
    simp [step, hb]
  have hv0 : sync ls.g { ls.g with phase := .idle } = { ls.g with phase := .idle } := rfl
  have htr : (SetM.step { ls.g with phase := .idle } (.call v r T)).1.tracking = ls.g.tracking :=
    step_tracking { ls.g with phase := .idle } (.call v r T) rfl
  have hho := call_hold ls.g v r T
  have hsb := sync_back_eq ls.g (SetM.step { ls.g with phase := .idle } (.call v r T)).1 htr hho
  rw [hs]
  refine ⟨?_, rfl⟩
  by_cases hd : (SetM.step { ls.g with phase := .idle } (.call v r T)).1.phase = .done
  · right
    refine ⟨?_, ?_, hd, ?_⟩
    · intro j
      by_cases hj : j = ls.nextId
      · subst hj; rw [act_calls_self]; simp [hd, hv0]
      · rw [act_calls_other _ _ _ _ _ j hj]; exact hnone j
    · simp [act, hd, isBuild, hv0]
    · exact ⟨rfl, rfl, rfl, htr.symm, hho.symm, rfl⟩
  · left
    have hlive : Live (SetM.step { ls.g with phase := .idle } (.call v r T)).1 := by
      rcases fresh_call ls.g v r T with ⟨h1, _⟩ | ⟨_, h2, _⟩ | ⟨h1, _⟩
      · exact absurd h1 hd
      · exact h2
      · exact absurd h1 hd
    refine ⟨(SetM.step { ls.g with phase := .idle } (.call v r T)).1, ?_, ?_, ?_, ?_, ?_, hlive⟩
    · rw [act_calls_self]; simp [hd, hv0]
    · exact hsb.symm
    · intro j hj; rw [act_calls_other _ _ _ _ _ j hj]; exact hnone j
    · show ls.nextId < ls.nextId + 1; omega
    · simp only [act, List.nil_append, hv0]

/-- **the bridge**: a call made while no other call is running, followed by any history without
further calls, produces exactly what the one-call machine produces (`SetM.trace`) — every output
carrying the call's number — and afterwards no call is running if and only if the one-call machine
has finished. -/
theorem sequential_bridge (ls : LSt) (hq : Quiet ls) (v r T : Nat) (es : List Ev)
    (hes : ∀ e ∈ es, e.isCall = false) :
    (run ls (.call v r T :: es)).2 = (SetM.trace { ls.g with phase := .idle } v r T es).map (LOut.mk ls.nextId) ∧
    Alone (run ls (.call v r T :: es)).1 ls.nextId
      (SetM.run (SetM.step { ls.g with phase := .idle } (.call v r T)).1 es).1 := by
  obtain ⟨h1, h2⟩ := call_from_quiet ls hq v r T
  obtain ⟨i1, i2⟩ := alone_run _ _ _ es h1 hes
  refine ⟨?_, by simpa using i2⟩
  simp only [run_cons, SetM.trace, List.map_append, h2, i1]

/-! ### a call's final output is its last output -/

/-- every final output (`True`, `False`, `ValueError`) of a call is followed by no further output of that call -/
def finalIsLast : List LOut → Bool
  | [] => true
  | x :: r => (if x.o.isFinal then (outsOf x.id r).isEmpty else true) && finalIsLast r

theorem loopTop_shape (s : St) :
    ((loopTop s).2 = [.ret true s.now] ∧ (loopTop s).1.phase = .done) ∨
    ((loopTop s).2 = [.ret false s.now] ∧ (loopTop s).1.phase = .done) ∨
    (∀ x ∈ (loopTop s).2, x.isFinal = false) := by
  unfold loopTop goSleep attempt
  (repeat' split) <;> simp [Out.isFinal]

theorem step_final_single (m : St) (e : Ev) (x : Out) (hx : x ∈ (SetM.step m e).2) (hf : x.isFinal = true) :
    (SetM.step m e).2 = [x] ∧ (SetM.step m e).1.phase = .done := by
  have lt : ∀ s : St, ∀ x ∈ (loopTop s).2, x.isFinal = true → (loopTop s).2 = [x] ∧ (loopTop s).1.phase = .done := by
    intro s x hx hf
    rcases loopTop_shape s with ⟨h1, h2⟩ | ⟨h1, h2⟩ | h
    · rw [h1] at hx ⊢; simp only [List.mem_singleton] at hx; rw [hx]; exact ⟨rfl, h2⟩
    · rw [h1] at hx ⊢; simp only [List.mem_singleton] at hx; rw [hx]; exact ⟨rfl, h2⟩
    · rw [h x hx] at hf; cases hf
  cases e with
  | call v r T =>
    by_cases hp : m.phase = .idle
    · rcases call_cases m hp v r T with ⟨_, h2⟩ | ⟨_, _, h2⟩ | ⟨_, _, _, h2⟩
      · rw [h2] at hx ⊢; simp only [List.mem_singleton] at hx; rw [hx]; exact ⟨rfl, rfl⟩
      · rw [h2] at hx ⊢; simp only [List.mem_singleton] at hx; rw [hx]; exact ⟨rfl, rfl⟩
      · rw [h2] at hx ⊢; exact lt _ x hx hf
    · simp [SetM.step, hp] at hx
  | built =>
    have : ∀ y ∈ (SetM.step m .built).2, y.isFinal = false := by
      simp only [SetM.step, goSleep]
      (repeat' split) <;> simp [Out.isFinal]
    rw [this x hx] at hf; cases hf
  | report t => simp [SetM.step] at hx
  | wait d => simp only [SetM.step] at hx; split at hx <;> simp at hx
  | setTracking b => simp [SetM.step] at hx
  | timer =>
    simp only [SetM.step] at hx ⊢
    split at hx
    · simp at hx
    · rename_i hs
      simp only [hs, ↓reduceIte]
      exact lt _ x hx hf

theorem finalIsLast_append_plain (o rest : List LOut) (h : ∀ x ∈ o, x.o.isFinal = false) :
    finalIsLast (o ++ rest) = finalIsLast rest := by
  induction o with
  | nil => rfl
  | cons x xs ih =>
    have hx := h x (by simp)
    simp only [List.cons_append, finalIsLast, hx, Bool.false_eq_true, ↓reduceIte, Bool.true_and]
    exact ih (fun y hy => h y (by simp [hy]))

theorem finalIsLast_run (s : LSt) (es : List Ev) (w : WFL s) : finalIsLast (run s es).2 = true := by
  induction es generalizing s with
  | nil => rfl
  | cons e es ih =>
    have w' := step_wfl s e w
    have ihs := ih _ w'
    rw [run_cons]
    -- outputs of one call `j` produced by a step `SetM.step m ev`, after which `j` is dead if they hold a final
    have key : ∀ (j : Nat) (m : St) (ev : Ev), (step s e).2 = (SetM.step m ev).2.map (LOut.mk j) →
        ((SetM.step m ev).1.phase = .done → outsOf j (run (step s e).1 es).2 = []) →
        finalIsLast ((step s e).2 ++ (run (step s e).1 es).2) = true := by
      intro j m ev ho hdead
      by_cases hfin : ∃ x ∈ (SetM.step m ev).2, x.isFinal = true
      · obtain ⟨x, hx, hf⟩ := hfin
        obtain ⟨h1, h2⟩ := step_final_single m ev x hx hf
        rw [ho, h1]
        simp only [List.map_cons, List.map_nil, List.cons_append, List.nil_append, finalIsLast, hf, ↓reduceIte,
          hdead h2, List.isEmpty_nil, Bool.true_and]
        exact ihs
      · rw [finalIsLast_append_plain _ _ (by
          intro y hy
          rw [ho] at hy
          simp only [List.mem_map] at hy
          obtain ⟨x, hx, rfl⟩ := hy
          cases hq : x.isFinal with
          | false => rfl
          | true => exact absurd ⟨x, hx, hq⟩ hfin)]
        exact ihs
    rcases step_kind s e with ⟨j, d, ev, rest, hd, hev, h, _⟩ | ⟨v, r, T, he, h⟩ | ⟨h2, _, _, _⟩
    · refine key j (sync s.g d) ev (by rw [h, act_outs]) ?_
      intro hdone
      have hnone : (step s e).1.calls j = none := by rw [h, act_calls_self]; simp [hdone]
      exact dead_run _ es w' j (by rw [h, act_nextId]; exact id_lt_of_some s w j d hd) hnone
    · have hv0 : sync s.g { s.g with phase := .idle } = { s.g with phase := .idle } := rfl
      refine key s.nextId { s.g with phase := .idle } (.call v r T) (by rw [h, act_outs, hv0]) ?_
      intro hdone
      have hnone : (step s e).1.calls s.nextId = none := by rw [h, act_calls_self]; simp [hdone, hv0]
      exact dead_run _ es w' s.nextId (by rw [h, act_nextId]; exact Nat.lt_succ_self _) hnone
    · rw [h2, List.nil_append]; exact ihs

theorem mem_txVals_outsOf (l : List LOut) (id v t : Nat) (h : (⟨id, .txSet v t⟩ : LOut) ∈ l) :
    v ∈ txVals (outsOf id l) := by
  induction l with
  | nil => simp at h
  | cons x xs ih =>
    have hsplit : outsOf id (x :: xs) = outsOf id [x] ++ outsOf id xs := outsOf_append id [x] xs
    rw [hsplit, txVals_append, List.mem_append]
    rcases List.mem_cons.mp h with h | h
    · left; rw [← h]; simp [outsOf, txVals]
    · right; exact ih h

end PlumVerif.SetL

import PlumVerif.Proofs.EventsInv
/-
C13 invariant, part K (audit item 3): a snapshot entry that a dispatch SKIPPED (`(x, none)` in its
trail) had left the live list — it is recorded in `removed`.  Together with `walk`'s definition
(`live_once_entry_awaited`): the only way a dispatch passes a once-wrapper without awaiting its
callback is that the wrapper was unsubscribed (explicitly, or by another dispatch awaiting it)
before the dispatch reached it.
-/
namespace PlumVerif.C13

def InvK (s : St) : Prop := ∀ i x, (x, none) ∈ (s.d i).trail → ∃ c, (x.sid, c) ∈ s.removed

theorem invK_init : InvK init := by intro i x h; simp [init] at h

/-- frame: removals only accumulate, and every skipped entry of the new state was skipped before or
is (now) removed -/
theorem invK_of (s s' : St) (h : InvK s) (hr : ∀ p ∈ s.removed, p ∈ s'.removed)
    (ht : ∀ j x, (x, none) ∈ (s'.d j).trail → (x, none) ∈ (s.d j).trail ∨ ∃ c, (x.sid, c) ∈ s'.removed) : InvK s' := by
  intro j x hx
  rcases ht j x hx with h1 | h1
  · obtain ⟨c, hc⟩ := h j x h1; exact ⟨c, hr _ hc⟩
  · exact h1

theorem gone_not_mem (s : St) (name : Nat) (u : Sub) (h : gone s name u = true) : u ∉ s.subs name := by
  intro hm
  simp only [gone, Bool.and_eq_true, Bool.not_eq_true', List.any_eq_false] at h
  have := h.2 u hm
  simp at this

theorem invK_walk (sc : Nat → Script) (i name : Nat) (rest : List Sub) :
    ∀ (s : St) (val : Nat), InvS s → InvK s → (s.d i).name = name → (s.d i).ph.started = true →
      (∀ x ∈ rest, (name, x) ∈ s.subscribed) → InvK (walk sc i name s rest val) := by
  induction rest with
  | nil =>
    intro s val _ hk _ _ _
    refine invK_of s _ hk (fun p hp => hp) ?_
    intro j x hx
    left
    by_cases e : j = i
    · subst e; simpa [walk, storeSt] using hx
    · simpa [walk, storeSt, upd_other _ _ _ _ e] using hx
  | cons u rest ih =>
    intro s val h hk hname hst hsub
    unfold walk
    split
    · rename_i hg
      have b := invS_updD s h i { s.d i with trail := (s.d i).trail ++ [(u, none)] } rfl rfl rfl rfl rfl hst hst
        (fun r u' k v hp x hx => h.restSub i r u' k v hp x hx)
      have bk : InvK (skipSt s i u) := by
        refine invK_of s _ hk (fun p hp => hp) ?_
        intro j x hx
        by_cases e : j = i
        · subst e
          simp only [skipSt, upd_same, List.mem_append, List.mem_singleton, Prod.mk.injEq, and_true] at hx
          rcases hx with hx | rfl
          · exact Or.inl hx
          · right
            rcases h.goneRem (name, x) (hsub x (by simp)) with hl | hrm
            · exact absurd hl (gone_not_mem s name x hg)
            · exact hrm
        · left; simpa [skipSt, upd_other _ _ _ _ e] using hx
      exact ih (skipSt s i u) val b bk (by simpa [skipSt] using hname) (by simpa [skipSt] using hst)
        (fun x hx => hsub x (by simp [hx]))
    · have hI := invS_invoke s h i name u val hname (hsub u (by simp)) hst
      have hname' : ((invokeSt s i name u val).d i).name = name := by simpa [invokeSt] using hname
      have hst' : ((invokeSt s i name u val).d i).ph.started = true := by simpa [invokeSt] using hst
      have hsub' : ∀ x ∈ rest, (name, x) ∈ (invokeSt s i name u val).subscribed :=
        fun x hx => hsub x (by simp [hx])
      have hkI : InvK (invokeSt s i name u val) := by
        refine invK_of s _ hk ?_ ?_
        · intro p hp; simp only [invokeSt]; split
          · exact List.mem_append_left _ hp
          · exact hp
        · intro j x hx
          left
          by_cases e : j = i
          · subst e
            simp only [invokeSt, upd_same, List.mem_append, List.mem_singleton, Prod.mk.injEq] at hx
            rcases hx with hx | ⟨_, hx⟩
            · exact hx
            · simp at hx
          · simpa [invokeSt, upd_other _ _ _ _ e] using hx
      split
      · exact ih _ _ hI hkI hname' hst' hsub'
      · refine invK_of _ _ hkI (fun p hp => hp) ?_
        intro j x hx
        left
        by_cases e : j = i
        · subst e; simpa [suspendSt] using hx
        · simpa [suspendSt, upd_other _ _ _ _ e] using hx

theorem invK_stepD (sc : Nat → Script) (s : St) (h : InvS s) (hk : InvK s) (i : Nat) : InvK (stepD sc s i) := by
  unfold stepD
  split
  · rename_i hph
    refine invK_walk sc i _ _ _ _ (invS_start s h i hph) ?_ (by simp) (by simp [DPhase.started])
      (fun x hx => h.liveSub _ x hx)
    refine invK_of s _ hk (fun p hp => hp) ?_
    intro j x hx; left
    by_cases e : j = i
    · subst e; simpa using hx
    · simpa [upd_other _ _ _ _ e] using hx
  · rename_i rest u k val hph
    refine invK_of s _ hk (fun p hp => hp) ?_
    intro j x hx; left
    by_cases e : j = i
    · subst e; simpa using hx
    · simpa [upd_other _ _ _ _ e] using hx
  · rename_i rest u val hph
    refine invK_walk sc i _ _ _ _ (invS_resume s h i rest u val hph) ?_ (by simp) (by simp [DPhase.started])
      (fun x hx => h.restSub i rest u 0 val hph x hx)
    refine invK_of s _ hk (fun p hp => hp) ?_
    intro j x hx; left
    by_cases e : j = i
    · subst e; simpa using hx
    · simpa [upd_other _ _ _ _ e] using hx
  · exact hk

theorem invK_apply (sc : Nat → Script) (s : St) (h : InvS s) (hA : InvA s) (hk : InvK s) (e : Ev) : InvK (apply sc s e) := by
  cases e with
  | stepD i => exact invK_stepD sc s h hk i
  | subscribe n cb => exact invK_of s _ hk (fun p hp => hp) (fun j x hx => Or.inl hx)
  | subscribeOnce n cb => exact invK_of s _ hk (fun p hp => hp) (fun j x hx => Or.inl hx)
  | unsubCb n cb =>
    simp only [apply]
    split
    · exact invK_of s _ hk (fun p hp => List.mem_append_left _ hp) (fun j x hx => Or.inl hx)
    · exact invK_of s _ hk (fun p hp => hp) (fun j x hx => Or.inl hx)
  | unsubOnce n sid =>
    simp only [apply]
    split
    · exact invK_of s _ hk (fun p hp => List.mem_append_left _ hp) (fun j x hx => Or.inl hx)
    · exact hk
  | spawnDispatch n v =>
    refine invK_of s _ hk (fun p hp => hp) ?_
    intro j x hx; left
    by_cases e : j = s.nd
    · subst e; simp [apply] at hx
    · simpa [apply, upd_other _ _ _ _ e] using hx
  | spawnWait n to => exact invK_of s _ hk (fun p hp => hp) (fun j x hx => Or.inl hx)
  | stepW j =>
    refine invK_of s _ hk ?_ ?_
    · intro p hp; simp only [apply, stepW]; repeat' split
      all_goals exact hp
    · intro j' x hx; left; simp only [apply, stepW] at hx; repeat' split at hx
      all_goals exact hx
  | advance t =>
    refine invK_of s _ hk ?_ ?_
    · intro p hp; simp only [apply, advance]; split <;> exact hp
    · intro j' x hx; left; simp only [apply, advance] at hx; split at hx <;> exact hx

theorem invK_run (sc : Nat → Script) (evs : List Ev) : ∀ s, Inv sc s → InvK s → InvK (run sc s evs) := by
  induction evs with
  | nil => intro s _ hk; exact hk
  | cons e es ih =>
    intro s h hk
    exact ih _ (inv_step sc s h e) (invK_apply sc s h.s h.a hk e)

end PlumVerif.C13

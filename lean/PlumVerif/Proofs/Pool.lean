import PlumVerif.Model.Pool
/-
Helper lemmas for C09: the conservation invariant of the contained pool machine.
-/
namespace PlumVerif.Pool

/-- Invariant of the contained machine started with `n` consumers, after the frames
`arrived` (in order) have been received. -/
structure Inv (n : Nat) (cfg : Cfg) (arrived : List Frame) (s : St) : Prop where
  alive : s.alive = n
  bal : s.unfinished = s.queue.length + s.inHand.length
  cap : s.inHand.length ≤ n
  perm : (s.finished ++ s.inHand ++ s.queue).Perm arrived
  deliv : s.delivered = (s.finished.filter (ok cfg)).map (·.id)
  resp : s.responses = (s.finished.filter (ok cfg)).flatMap (repliesOf cfg)

theorem inv_init (n : Nat) (cfg : Cfg) : Inv n cfg [] (init n) :=
  ⟨rfl, rfl, Nat.zero_le _, by simp [init], rfl, rfl⟩

theorem arrivals_append (a b : List Mv) : arrivals (a ++ b) = arrivals a ++ arrivals b := by
  induction a with
  | nil => rfl
  | cons m a ih => cases m <;> simp [arrivals, ih]

theorem inv_step (n : Nat) (cfg : Cfg) (a : List Frame) (s : St) (m : Mv) (h : Inv n cfg a s) :
    Inv n cfg (a ++ arrivals [m]) (step true cfg s m) := by
  obtain ⟨ha, hb, hc, hp, hd, hr⟩ := h
  cases m with
  | arrive f =>
    refine ⟨ha, ?_, hc, ?_, hd, hr⟩
    · simp [step, hb]; omega
    · simp only [step, arrivals, ← List.append_assoc]
      exact hp.append_right [f]
  | take =>
    simp only [arrivals, List.append_nil]
    cases hq : s.queue with
    | nil => simp only [step, hq]; exact ⟨ha, hb, hc, hp, hd, hr⟩
    | cons f q =>
      by_cases hlt : s.inHand.length < s.alive
      · simp only [step, hq, hlt, if_true]
        refine ⟨ha, ?_, ?_, ?_, hd, hr⟩
        · simp [hb, hq]; omega
        · simp; omega
        · rw [hq] at hp
          refine List.Perm.trans ?_ hp
          simp only [List.append_assoc]
          apply List.Perm.append_left
          simp only [List.cons_append]
          exact (List.perm_middle).symm
      · simp only [step, hq, hlt, if_false]; exact ⟨ha, hb, hc, hq ▸ hp, hd, hr⟩
  | finish f =>
    simp only [arrivals, List.append_nil]
    by_cases hm : f ∈ s.inHand
    · have hlen := List.length_erase_of_mem hm
      have hpos : 0 < s.inHand.length := List.length_pos_of_mem hm
      have hperm : (f :: s.finished ++ s.inHand.erase f ++ s.queue).Perm a := by
        refine List.Perm.trans ?_ hp
        simp only [List.cons_append, List.append_assoc]
        refine List.Perm.trans ?_ (List.perm_middle (l₁ := s.finished) (a := f) (l₂ := s.inHand.erase f ++ s.queue)).symm |>.trans ?_
        · exact List.Perm.refl _
        · apply List.Perm.append_left
          rw [← List.cons_append]
          exact (List.perm_cons_erase hm).symm.append_right _
      cases hrz : handle cfg f with
      | raised =>
        simp only [step, hm, if_true, hrz]
        refine ⟨ha, ?_, ?_, hperm, ?_, ?_⟩
        · simp [hb, hlen]; omega
        · simp [hlen]; omega
        · simp [hd, ok, hrz]
        · simp [hr, ok, hrz]
      | done rs =>
        simp only [step, hm, if_true, hrz]
        refine ⟨ha, ?_, ?_, hperm, ?_, ?_⟩
        · simp [hb, hlen]; omega
        · simp [hlen]; omega
        · simp [hd, ok, hrz]
        · simp [hr, ok, repliesOf, hrz]
    · simp only [step, hm, if_false]; exact ⟨ha, hb, hc, hp, hd, hr⟩

theorem inv_run (n : Nat) (cfg : Cfg) (a : List Frame) (s : St) (ms : List Mv) (h : Inv n cfg a s) :
    Inv n cfg (a ++ arrivals ms) (run true cfg s ms) := by
  induction ms generalizing s a with
  | nil => simpa [arrivals, run] using h
  | cons m ms ih =>
    have := ih (a ++ arrivals [m]) _ (inv_step n cfg a s m h)
    have e : arrivals (m :: ms) = arrivals [m] ++ arrivals ms := arrivals_append [m] ms
    simpa [run, e, List.append_assoc] using this

theorem run_append (c : Bool) (cfg : Cfg) (s : St) (a b : List Mv) :
    run c cfg s (a ++ b) = run c cfg (run c cfg s a) b := by
  induction a generalizing s with
  | nil => rfl
  | cons m a ih => exact ih _


/-- distinct ids: two received frames with the same id are the same frame -/
theorem eq_of_id_eq {l : List Frame} (hid : (l.map (·.id)).Nodup) {f g : Frame}
    (hf : f ∈ l) (hg : g ∈ l) (h : g.id = f.id) : g = f := by
  induction l with
  | nil => cases hf
  | cons x xs ih =>
    simp only [List.map_cons, List.nodup_cons, List.mem_map, not_exists, not_and] at hid
    rcases List.mem_cons.mp hg with rfl | hgx <;> rcases List.mem_cons.mp hf with rfl | hfx
    · rfl
    · exact absurd h.symm (hid.1 f hfx)
    · exact absurd h (hid.1 g hgx)
    · exact ih hid.2 hfx hgx

/-- moves of the consumers only (nothing new is received) -/
def internal (ms : List Mv) : Prop := arrivals ms = []

/-- From every state of the contained machine with at least one consumer the pipeline can
always be run to quiescence by consumer moves alone. -/
theorem can_quiesce (n : Nat) (cfg : Cfg) (hn : 0 < n) :
    ∀ (k : Nat) (a : List Frame) (s : St), 2 * s.queue.length + s.inHand.length ≤ k → Inv n cfg a s →
      ∃ more, internal more ∧ quiescent (run true cfg s more) = true := by
  intro k
  induction k with
  | zero =>
    intro a s hk _
    refine ⟨[], rfl, ?_⟩
    have h1 : s.queue.length = 0 := by omega
    have h2 : s.inHand.length = 0 := by omega
    simp [run, quiescent, List.length_eq_zero_iff.mp h1, List.length_eq_zero_iff.mp h2]
  | succ k ih =>
    intro a s hk h
    cases hh : s.inHand with
    | cons f hand =>
      have hm : f ∈ s.inHand := by simp [hh]
      have h' := inv_step n cfg a s (.finish f) h
      have hq : (step true cfg s (.finish f)).queue = s.queue := by
        simp only [step, hm, if_true]; cases handle cfg f <;> rfl
      have hl : (step true cfg s (.finish f)).inHand.length = s.inHand.length - 1 := by
        have := List.length_erase_of_mem hm
        simp only [step, hm, if_true]; cases handle cfg f <;> simpa using this
      have hpos : 0 < s.inHand.length := List.length_pos_of_mem hm
      obtain ⟨more, hi, hqz⟩ := ih _ _ (by rw [hq, hl]; omega) h'
      exact ⟨.finish f :: more, by simpa [internal, arrivals] using hi, by simpa [run] using hqz⟩
    | nil =>
      cases hq : s.queue with
      | nil => exact ⟨[], rfl, by simp [run, quiescent, hh, hq]⟩
      | cons f q =>
        have hlt : s.inHand.length < s.alive := by rw [h.alive, hh]; exact hn
        have h' := inv_step n cfg a s .take h
        have e : step true cfg s .take = { s with queue := q, inHand := f :: s.inHand } := by
          simp [step, hq, hlt]
        obtain ⟨more, hi, hqz⟩ := ih _ _ (by rw [e]; simp [hh]; rw [hq] at hk; simp at hk; omega) h'
        exact ⟨.take :: more, by simpa [internal, arrivals] using hi, by simpa [run] using hqz⟩

end PlumVerif.Pool

import PlumVerif.Model.Frame
/- helper lemmas about the frame envelope model (core Lean only) -/
namespace PlumVerif

theorem startByte_eq : startByte = 0x68 := by decide
theorem endByte_eq : endByte = 0x16 := by decide
theorem hdr_eq : Gen.headerSize = 7 := rfl
theorem minLen_eq : Gen.minFrameLength = 10 := rfl
theorem maxLen_eq : Gen.maxFrameLength = 1000 := rfl

theorem scan_spec {s r : List Byte} (h : scan s = some r) :
    ∃ pre, s = pre ++ startByte :: r ∧ startByte ∉ pre := by
  induction s with
  | nil => simp [scan] at h
  | cons b t ih =>
    unfold scan at h
    split at h
    · rename_i hb; cases h; exact ⟨[], by simp [hb], by simp⟩
    · rename_i hb
      obtain ⟨pre, hp, hn⟩ := ih h
      exact ⟨b :: pre, by simp [hp], by simp [hn]; exact fun h => hb h.symm⟩

theorem scan_append {pre r : List Byte} (h : startByte ∉ pre) :
    scan (pre ++ startByte :: r) = some r := by
  induction pre with
  | nil => simp [scan]
  | cons b t ih =>
    simp only [List.mem_cons, not_or] at h
    simp only [List.cons_append, scan]
    rw [if_neg (fun hb => h.1 hb.symm)]
    exact ih h.2

theorem scan_none {s : List Byte} (h : scan s = none) : startByte ∉ s := by
  induction s with
  | nil => simp
  | cons b t ih =>
    unfold scan at h
    split at h
    · simp at h
    · rename_i hb; simp only [List.mem_cons, not_or]; exact ⟨fun e => hb e.symm, ih h⟩

theorem scan_length {s r : List Byte} (h : scan s = some r) : r.length < s.length := by
  obtain ⟨pre, hs, _⟩ := scan_spec h
  rw [hs]; simp; omega

theorem len_lo (a b : Byte) : ((a.toNat + 256 * b.toNat) % 256).toUInt8 = a := by
  have : (a.toNat + 256 * b.toNat) % 256 = a.toNat := by have := a.toNat_lt; omega
  rw [this]; simp

theorem len_hi (a b : Byte) : ((a.toNat + 256 * b.toNat) / 256).toUInt8 = b := by
  have : (a.toNat + 256 * b.toNat) / 256 = b.toNat := by have := a.toNat_lt; omega
  rw [this]; simp

/-- a list of length n+3 (n = payload length) splits as kind :: payload ++ [crc, e] -/
theorem body_split (body : List Byte) (n : Nat) (hl : body.length = n + 3) :
    body = body.headD 0 :: ((body.drop 1).take n) ++ [body.getD (n + 1) 0, body.getD (n + 2) 0] := by
  apply List.ext_getElem
  · simp [hl]
  · intro i h1 h2
    simp only [List.length_append, List.length_cons, List.length_take, List.length_drop, hl] at h2
    cases i with
    | zero => cases body <;> simp_all
    | succ i =>
      simp only [List.cons_append, List.getElem_cons_succ]
      by_cases hi : i < n
      · rw [List.getElem_append_left (by simp [hl]; omega)]
        simp [List.getElem_take]
      · rw [List.getElem_append_right (by simp [hl]; omega)]
        simp only [List.length_take, List.length_drop, hl]
        have : i = n ∨ i = n + 1 := by omega
        rcases this with rfl | rfl
        · simp [List.getD, hl]
        · simp [List.getD, hl]

theorem encodeWith_length (f : Fields) (e : Byte) : (encodeWith f e).length = f.payload.length + 10 := by
  simp [encodeWith]

theorem delivered_sound {s rest : List Byte} {f : Fields}
    (h : readFrame s = (.delivered f, rest)) :
    ∃ pre e, s = pre ++ encodeWith f e ++ rest ∧ startByte ∉ pre ∧
      f.payload.length + 10 ≤ 1000 ∧ isForUs f.rcpt = true ∧
      knownDevice f.sender = true ∧ knownFrame f.kind = true := by
  unfold readFrame at h
  split at h
  · simp at h
  · rename_i r hscan
    obtain ⟨pre, hs, hpre⟩ := scan_spec hscan
    split at h
    · rename_i l0 l1 rc sd et ev r1
      simp only at h
      split at h
      · simp at h
      · rename_i hlen
        split at h
        · simp at h
        · rename_i hr1
          split at h
          · simp at h
          · rename_i hrc
            split at h
            · simp at h
            · rename_i hsd
              split at h
              · simp at h
              · rename_i hcrc
                split at h
                · simp at h
                · rename_i hk
                  simp only [hdr_eq, minLen_eq, maxLen_eq] at h hlen hr1 hcrc hk
                  simp only [Prod.mk.injEq, Outcome.delivered.injEq] at h
                  obtain ⟨hf, hrest⟩ := h
                  generalize hL : UInt8.toNat l0 + 256 * UInt8.toNat l1 = L at *
                  have hL10 : 10 ≤ L ∧ L ≤ 1000 := by omega
                  have hr1' : L - 7 ≤ r1.length := by omega
                  have e7 : L - 7 - 3 = L - 10 := by omega
                  have e72 : L - 7 - 2 = L - 9 := by omega
                  rw [e7] at hf; rw [e72] at hcrc
                  generalize hb : List.take (L - 7) r1 = body at *
                  have hbl : body.length = (L - 10) + 3 := by
                    rw [← hb, List.length_take]; omega
                  have hsplit := body_split body (L - 10) hbl
                  have e1 : L - 10 + 1 = L - 9 := by omega
                  have hcrc' := Classical.not_not.mp hcrc
                  have hpl : ((List.drop 1 body).take (L - 10)).length = L - 10 := by
                    simp [List.length_take, List.length_drop, hbl]
                  refine ⟨pre, body.getD (L - 10 + 2) 0, ?_, hpre, ?_, ?_, ?_, ?_⟩
                  · subst hf
                    simp only [encodeWith, hpl]
                    have hLL : L - 10 + 10 = L := by omega
                    rw [hLL, ← hL, len_lo, len_hi, hL]
                    rw [hs, ← hrest]
                    conv => lhs; rw [← List.take_append_drop (L - 7) r1, hb, hsplit]
                    have htk : List.take (L - 9) body = body.headD 0 :: (List.drop 1 body).take (L - 10) := by
                      conv => lhs; rw [hsplit]
                      rw [List.take_append_of_le_length (by simp [hpl]; omega)]
                      rw [List.take_of_length_le (by simp [hpl]; omega)]
                    rw [htk] at hcrc'
                    rw [e1, ← hcrc']
                    simp [List.append_assoc]
                  · subst hf; simp only [hpl]; omega
                  · subst hf; simpa using hrc
                  · subst hf; simpa using hsd
                  · subst hf; simpa using hk
    · simp at h

end PlumVerif

namespace PlumVerif

/-- classification of a well-formed frame by the three gates of `read()` -/
def classify (f : Fields) : Outcome :=
  if ¬ isForUs f.rcpt then .ignored
  else if ¬ knownDevice f.sender then .protoErr .unknownDevice
  else if ¬ knownFrame f.kind then .protoErr .unknownFrame
  else .delivered f

theorem le16_roundtrip (n : Nat) (h : n < 65536) :
    (n % 256).toUInt8.toNat + 256 * (n / 256).toUInt8.toNat = n := by
  have h1 : (n % 256).toUInt8.toNat = n % 256 := by
    simp [Nat.toUInt8, UInt8.toNat_ofNat']
  have h2 : (n / 256).toUInt8.toNat = n / 256 := by
    simp [Nat.toUInt8, UInt8.toNat_ofNat']; omega
  rw [h1, h2]; omega

section bodylemmas
variable (k c e : Byte) (pl rest : List Byte)

theorem body_drop : List.drop (pl.length + 10 - 7) (k :: (pl ++ [c, e] ++ rest)) = rest := by
  rw [show pl.length + 10 - 7 = (pl.length + 2) + 1 by omega, List.drop_succ_cons]
  rw [List.drop_append_of_le_length (by simp)]
  simp
theorem body_take : List.take (pl.length + 10 - 7) (k :: (pl ++ [c, e] ++ rest)) = k :: (pl ++ [c, e]) := by
  rw [show pl.length + 10 - 7 = (pl.length + 2) + 1 by omega, List.take_succ_cons]
  rw [List.take_append_of_le_length (by simp), List.take_of_length_le (by simp)]
theorem body_take2 : List.take (pl.length + 10 - 7 - 2) (k :: (pl ++ [c, e])) = k :: pl := by
  rw [show pl.length + 10 - 7 - 2 = pl.length + 1 by omega, List.take_succ_cons]
  simp
theorem body_crc : (k :: (pl ++ [c, e])).getD (pl.length + 10 - 7 - 2) 0 = c := by
  rw [show pl.length + 10 - 7 - 2 = pl.length + 1 by omega]
  simp [List.getD]
theorem body_payload : List.take (pl.length + 10 - 7 - 3) (List.drop 1 (k :: (pl ++ [c, e]))) = pl := by
  rw [show pl.length + 10 - 7 - 3 = pl.length by omega]
  simp
end bodylemmas

/-- C04 engine: one call of `read()` on a well-formed frame (any recipient, sender, kind,
payload bytes, last byte) followed by anything consumes exactly that frame and classifies it. -/
theorem read_encoded (f : Fields) (e : Byte) (rest : List Byte)
    (hlen : f.payload.length + 10 ≤ 1000) :
    readFrame (encodeWith f e ++ rest) = (classify f, rest) := by
  have hL := le16_roundtrip (f.payload.length + 10) (by omega)
  unfold readFrame encodeWith
  simp only [List.cons_append, scan, if_true, List.nil_append]
  simp only [hL, hdr_eq, minLen_eq, maxLen_eq]
  rw [if_neg (by omega)]
  rw [if_neg (by simp)]
  generalize hc : bcc (startByte :: ((f.payload.length + 10) % 256).toUInt8 ::
      ((f.payload.length + 10) / 256).toUInt8 :: f.rcpt :: f.sender :: f.etype :: f.ever :: f.kind :: f.payload) = c
  simp only [body_drop, body_take, body_take2, body_crc, body_payload, List.headD_cons]
  rw [hc]
  unfold classify
  simp only [ne_eq, not_true_eq_false, if_false]
  split
  · rfl
  · split
    · rfl
    · split <;> rfl


theorem classify_ne_connLost (f : Fields) : classify f ≠ .connLost := by
  unfold classify; split
  · simp
  · split
    · simp
    · split <;> simp

/-- every call that does not report a lost connection consumes at least one byte,
and what it leaves is a suffix of what it was given -/
theorem readFrame_progress {s r : List Byte} {o : Outcome}
    (h : readFrame s = (o, r)) (ho : o ≠ .connLost) :
    r.length < s.length ∧ ∃ c, s = c ++ r := by
  unfold readFrame at h
  split at h
  · simp only [Prod.mk.injEq] at h; exact absurd h.1.symm ho
  · rename_i r0 hscan
    obtain ⟨pre, hs, _⟩ := scan_spec hscan
    have hlt := scan_length hscan
    split at h
    · rename_i l0 l1 rc sd et ev r1
      have hr1 : r1.length < s.length := by simp at hlt; omega
      have hsuf : ∃ c, s = c ++ r1 := ⟨pre ++ [startByte, l0, l1, rc, sd, et, ev], by simp [hs]⟩
      have hdrop : ∀ n, (r1.drop n).length < s.length ∧ ∃ c, s = c ++ r1.drop n := by
        intro n
        obtain ⟨c, hc⟩ := hsuf
        refine ⟨by simp; omega, c ++ r1.take n, ?_⟩
        rw [List.append_assoc, List.take_append_drop]; exact hc
      have hnil : ([] : List Byte).length < s.length ∧ ∃ c, s = c ++ ([] : List Byte) :=
        ⟨by simp; omega, s, by simp⟩
      simp only at h
      split at h
      · simp only [Prod.mk.injEq] at h; rw [← h.2]; exact ⟨hr1, hsuf⟩
      · split at h
        · simp only [Prod.mk.injEq] at h; rw [← h.2]; exact hnil
        · split at h
          · simp only [Prod.mk.injEq] at h; rw [← h.2]; exact hdrop _
          · split at h
            · simp only [Prod.mk.injEq] at h; rw [← h.2]; exact hdrop _
            · split at h
              · simp only [Prod.mk.injEq] at h; rw [← h.2]; exact hdrop _
              · split at h
                · simp only [Prod.mk.injEq] at h; rw [← h.2]; exact hdrop _
                · simp only [Prod.mk.injEq] at h; rw [← h.2]; exact hdrop _
    · simp only [Prod.mk.injEq] at h; rw [← h.2]
      exact ⟨by simp; omega, s, by simp⟩

theorem readFrame_nil : readFrame [] = (.connLost, []) := by simp [readFrame, scan]

/-- the reader reports a lost connection exactly when no start delimiter is left -/
theorem readFrame_connLost_iff (s : List Byte) :
    (readFrame s).1 = .connLost ↔ startByte ∉ s := by
  constructor
  · intro h
    unfold readFrame at h
    split at h
    · rename_i hs; exact scan_none hs
    · split at h
      · simp only at h
        repeat' split at h
        all_goals simp at h
      · simp at h
  · intro h
    unfold readFrame
    have : scan s = none := by
      cases hs : scan s with
      | none => rfl
      | some r => obtain ⟨pre, hp, _⟩ := scan_spec hs; rw [hp] at h; simp at h
    simp [this]

/-- the length of the encoded frame -/
def Fields.wireLength (f : Fields) : Nat := f.payload.length + 10

/-- C04 `stream`: a back-to-back sequence of well-formed frames (arbitrary last byte each) is
read as exactly those frames, each once and in order, each consuming exactly its own bytes. -/
theorem readAllFuel_frames (fs : List (Fields × Byte)) (fuel : Nat) (hfuel : fs.length < fuel)
    (hlen : ∀ p ∈ fs, p.1.payload.length + 10 ≤ 1000) :
    readAllFuel fuel (fs.flatMap fun p => encodeWith p.1 p.2) =
      fs.map (fun p => (classify p.1, p.1.wireLength)) ++ [(.connLost, 0)] := by
  induction fs generalizing fuel with
  | nil =>
    cases fuel with
    | zero => simp at hfuel
    | succ n => simp [readAllFuel, readFrame_nil]
  | cons p ps ih =>
    cases fuel with
    | zero => simp at hfuel
    | succ n =>
      simp only [List.flatMap_cons, readAllFuel]
      rw [read_encoded p.1 p.2 _ (hlen p (by simp))]
      have hne := classify_ne_connLost p.1
      have ih' := ih n (by simpa using hfuel) (fun q hq => hlen q (by simp [hq]))
      simp only [List.length_append, encodeWith_length, Nat.add_sub_cancel, List.map_cons,
        List.cons_append]
      cases hc : classify p.1 with
      | connLost => exact absurd hc hne
      | delivered f => simp [ih', Fields.wireLength]
      | ignored => simp [ih', Fields.wireLength]
      | protoErr e => simp [ih', Fields.wireLength]

theorem flatMap_encode_length (fs : List (Fields × Byte)) :
    fs.length < (fs.flatMap fun p => encodeWith p.1 p.2).length + 1 := by
  induction fs with
  | nil => simp
  | cons p ps ih => simp [encodeWith_length] at *; omega

theorem readAll_frames (fs : List (Fields × Byte))
    (hlen : ∀ p ∈ fs, p.1.payload.length + 10 ≤ 1000) :
    readAll (fs.flatMap fun p => encodeWith p.1 p.2) =
      fs.map (fun p => (classify p.1, p.1.wireLength)) ++ [(.connLost, 0)] :=
  readAllFuel_frames fs _ (flatMap_encode_length fs) hlen

end PlumVerif

import PlumVerif.Model.ScheduleHeap
import PlumVerif.Proofs.Schedule
/- helper lemmas for the schedule heap machine (core Lean only) -/
namespace PlumVerif.Sched
open PlumVerif

theorem editObj_length (heap : List Obj) (h : Nat) (d : DayEdit) :
    (editObj heap h d).length = heap.length := by
  unfold editObj
  cases heap[h]? <;> simp

theorem editObj_get (heap : List Obj) (h : Nat) (d : DayEdit) (h' : Nat) :
    (editObj heap h d)[h']? =
      if h = h' then heap[h']?.map (fun o => { o with week := o.week.edit d }) else heap[h']? := by
  unfold editObj
  by_cases hh : h = h'
  · subst hh
    cases hg : heap[h]? with
    | none => simp [hg]
    | some o =>
      have hlt : h < heap.length := (List.getElem?_eq_some_iff.mp hg).1
      simp [hlt]
  · cases hg : heap[h]? with
    | none => simp [hh]
    | some o => simp [hh]

theorem target_lt (s : HSys) (hs : ∀ i h, dictGet s.sched i = some h → h < s.heap.length)
    (ev : HEv) (h : Nat) (d : DayEdit) (ht : s.target ev = some (h, d)) : h < s.heap.length := by
  cases ev with
  | edit e =>
    simp only [HSys.target, Option.map_eq_some_iff] at ht
    obtain ⟨h0, hg, heq⟩ := ht
    cases heq
    exact hs _ _ hg
  | hedit h0 d0 =>
    simp only [HSys.target] at ht
    split at ht
    · cases ht; assumption
    · cases ht
  | receive _ => simp [HSys.target] at ht
  | keep _ => simp [HSys.target] at ht
  | commit _ => simp [HSys.target] at ht
  | hcommit _ => simp [HSys.target] at ht
  | drain => simp [HSys.target] at ht

/-- the heap after one event, object by object -/
theorem step_heap (s : HSys) (ev : HEv) (h' : Nat) (o : Obj) (ho : s.heap[h']? = some o) :
    (s.step ev).1.heap[h']? =
      some (match s.target ev with
        | some (h, d) => if h = h' then { o with week := o.week.edit d } else o
        | none => o) := by
  have hlt : h' < s.heap.length := (List.getElem?_eq_some_iff.mp ho).1
  cases ev with
  | receive msg =>
    simp only [HSys.step, HSys.target]
    cases decodeResponse msg with
    | none => exact ho
    | some es =>
      simp only
      split
      · simp only
        rw [List.getElem?_append_left hlt]; exact ho
      · exact ho
  | keep idx =>
    simp only [HSys.step, HSys.target]
    cases dictGet s.sched idx <;> exact ho
  | edit e =>
    simp only [HSys.step]
    cases ht : s.target (.edit e) with
    | none => exact ho
    | some t =>
      obtain ⟨h, d⟩ := t
      simp only [editObj_get, ho, Option.map_some]
      by_cases hh : h = h' <;> simp [hh]
  | hedit h0 d0 =>
    simp only [HSys.step]
    cases ht : s.target (.hedit h0 d0) with
    | none => exact ho
    | some t =>
      obtain ⟨h, d⟩ := t
      simp only [editObj_get, ho, Option.map_some]
      by_cases hh : h = h' <;> simp [hh]
  | commit idx =>
    simp only [HSys.step, HSys.target]
    cases dictGet s.sched idx with
    | none => exact ho
    | some h =>
      cases s.collect idx with
      | none => exact ho
      | some r => exact ho
  | hcommit h =>
    simp only [HSys.step, HSys.target]
    cases s.heap[h]? with
    | none => exact ho
    | some o' =>
      simp only
      cases s.collect o'.idx with
      | none => exact ho
      | some r => exact ho
  | drain =>
    simp only [HSys.step, HSys.target]
    cases s.queue <;> exact ho

end PlumVerif.Sched

namespace PlumVerif.Sched

/-! ### simulation: lookup-only histories on the heap machine are `Sys` histories -/

theorem weekAt_editObj_same (heap : List Obj) (h : Nat) (d : DayEdit) (hlt : h < heap.length) :
    weekAt (editObj heap h d) h = (weekAt heap h).edit d := by
  simp only [weekAt, editObj_get, if_true, List.getElem?_eq_getElem hlt, Option.map_some, Option.getD_some]

theorem weekAt_editObj_other (heap : List Obj) (h h' : Nat) (d : DayEdit) (hne : h ≠ h') :
    weekAt (editObj heap h d) h' = weekAt heap h' := by
  simp only [weekAt, editObj_get, if_neg hne]

theorem weekAt_append_left (heap extra : List Obj) (h : Nat) (hlt : h < heap.length) :
    weekAt (heap ++ extra) h = weekAt heap h := by
  simp only [weekAt, List.getElem?_append_left hlt]

/-- a queued `Sys` request and its heap counterpart -/
def Q (hs : HSys) (r : Req) (hr : HReq) : Prop :=
  r.idx = hr.idx ∧ r.switch = hr.switch ∧ r.param = hr.param ∧ hr.obj < hs.heap.length ∧
    match r.frozen with
    | none => dictGet hs.sched r.idx = some hr.obj
    | some w => weekAt hs.heap hr.obj = w ∧ ∀ i, dictGet hs.sched i ≠ some hr.obj

def QRel (hs : HSys) : List Req → List HReq → Prop
  | [], [] => True
  | r :: rs, hr :: hrs => Q hs r hr ∧ QRel hs rs hrs
  | _, _ => False

theorem QRel_map (hs hs' : HSys) (f : Req → Req) (hf : ∀ r hr, Q hs r hr → Q hs' (f r) hr) :
    ∀ rs hrs, QRel hs rs hrs → QRel hs' (rs.map f) hrs
  | [], [], _ => trivial
  | r :: rs, hr :: hrs, h => ⟨hf r hr h.1, QRel_map hs hs' f hf rs hrs h.2⟩
  | [], _ :: _, h => h.elim
  | _ :: _, [], h => h.elim

theorem QRel_append (hs : HSys) (r : Req) (hr : HReq) (hq : Q hs r hr) :
    ∀ rs hrs, QRel hs rs hrs → QRel hs (rs ++ [r]) (hrs ++ [hr])
  | [], [], _ => ⟨hq, trivial⟩
  | _ :: rs, _ :: hrs, h => ⟨h.1, QRel_append hs r hr hq rs hrs h.2⟩
  | [], _ :: _, h => h.elim
  | _ :: _, [], h => h.elim

structure Sim (hs : HSys) (s : Sys) : Prop where
  sw : hs.switches = s.dev.switches
  par : hs.params = s.dev.params
  valid : ∀ i h, dictGet hs.sched i = some h → h < hs.heap.length
  inj : ∀ i j h, dictGet hs.sched i = some h → dictGet hs.sched j = some h → i = j
  sched : ∀ i, dictGet s.dev.schedules i = (dictGet hs.sched i).map (weekAt hs.heap)
  queue : QRel hs s.queue hs.queue

theorem Sim.init : Sim HSys.init ⟨Device.init, []⟩ :=
  ⟨rfl, rfl, by intro i h hh; simp [HSys.init, dictGet] at hh, by intro i j h hh; simp [HSys.init, dictGet] at hh,
   by intro i; rfl, trivial⟩

/-- allocation: the fresh objects, the device's new map and `Sys`'s new dict agree -/
theorem alloc_sim (H : List Obj) (lo : Nat) :
    ∀ (es : List Entry) (n : Nat) (d : List (Nat × Nat)) (D : List (Nat × Week)),
      (∀ k e, es[k]? = some e → H[n + k]? = some e.toObj) →
      (∀ i, dictGet D i = (dictGet d i).map (weekAt H)) →
      (∀ i h, dictGet d i = some h → lo ≤ h ∧ h < n) →
      (∀ i j h, dictGet d i = some h → dictGet d j = some h → i = j) → lo ≤ n →
      (∀ i, dictGet (es.foldl (fun D e => dictSet D e.idx (Week.ofTable e.table)) D) i =
          (dictGet (allocSched n es d) i).map (weekAt H)) ∧
      (∀ i h, dictGet (allocSched n es d) i = some h → lo ≤ h ∧ h < n + es.length) ∧
      (∀ i j h, dictGet (allocSched n es d) i = some h → dictGet (allocSched n es d) j = some h → i = j) := by
  intro es
  induction es with
  | nil =>
    intro n d D _ hD hb hinj _
    exact ⟨hD, by simpa [allocSched] using hb, hinj⟩
  | cons e rest ih =>
    intro n d D hH hD hb hinj hlo
    simp only [List.foldl_cons, allocSched]
    have hH0 : H[n]? = some e.toObj := by simpa using hH 0 e (by simp)
    have hw : weekAt H n = Week.ofTable e.table := by simp [weekAt, hH0, Entry.toObj]
    have := ih (n + 1) (dictSet d e.idx n) (dictSet D e.idx (Week.ofTable e.table))
      (by
        intro k x hk
        have := hH (k + 1) x (by simpa using hk)
        rwa [show n + (k + 1) = n + 1 + k by omega] at this)
      (by
        intro i
        by_cases hi : i = e.idx
        · subst hi
          rw [dictGet_dictSet_same, dictGet_dictSet_same]; simp [hw]
        · rw [dictGet_dictSet_other _ _ _ _ hi, dictGet_dictSet_other _ _ _ _ hi]; exact hD i)
      (by
        intro i h hh
        by_cases hi : i = e.idx
        · subst hi
          rw [dictGet_dictSet_same] at hh
          cases hh; omega
        · rw [dictGet_dictSet_other _ _ _ _ hi] at hh
          have := hb i h hh; omega)
      (by
        intro i j h hi hj
        by_cases hie : i = e.idx
        · by_cases hje : j = e.idx
          · rw [hie, hje]
          · subst hie
            rw [dictGet_dictSet_same] at hi
            rw [dictGet_dictSet_other _ _ _ _ hje] at hj
            cases hi
            have := hb j _ hj; omega
        · by_cases hje : j = e.idx
          · subst hje
            rw [dictGet_dictSet_same] at hj
            rw [dictGet_dictSet_other _ _ _ _ hie] at hi
            cases hj
            have := hb i _ hi; omega
          · rw [dictGet_dictSet_other _ _ _ _ hie] at hi
            rw [dictGet_dictSet_other _ _ _ _ hje] at hj
            exact hinj i j h hi hj)
      (by omega)
    refine ⟨this.1, ?_, this.2.2⟩
    intro i h hh
    have := this.2.1 i h hh
    simp only [List.length_cons]
    omega

theorem QRel_head (hs : HSys) : ∀ (rs : List Req) (hrs : List HReq), QRel hs rs hrs →
    (rs = [] ∧ hrs = []) ∨ ∃ r rs' hr hrs', rs = r :: rs' ∧ hrs = hr :: hrs' ∧ Q hs r hr ∧ QRel hs rs' hrs'
  | [], [], _ => Or.inl ⟨rfl, rfl⟩
  | r :: rs, hr :: hrs, h => Or.inr ⟨r, rs, hr, hrs, rfl, rfl, h.1, h.2⟩
  | [], _ :: _, h => h.elim
  | _ :: _, [], h => h.elim

theorem Q_week (hs : HSys) (s : Sys) (hsim : Sim hs s) (r : Req) (hr : HReq) (hq : Q hs r hr) :
    r.week s.dev = weekAt hs.heap hr.obj := by
  obtain ⟨_, _, _, _, hm⟩ := hq
  unfold Req.week
  cases hf : r.frozen with
  | some w => rw [hf] at hm; exact hm.1.symm
  | none =>
    rw [hf] at hm
    simp only [hsim.sched r.idx, hm, Option.map_some, Option.getD_some]

theorem sim_edit (hs : HSys) (s : Sys) (hsim : Sim hs s) (e : Edit) :
    Sim (hs.step (.edit e)).1 (s.step (.edit e)).1 ∧
      (hs.step (.edit e)).2 = HOut.ofOut (s.step (.edit e)).2 := by
  have hrel := hsim.sched e.idx
  cases hg : dictGet hs.sched e.idx with
  | none =>
    rw [hg] at hrel
    have hmiss : dictGet s.dev.schedules e.idx = none := by simpa using hrel
    have h1 : hs.step (.edit e) = (hs, .edited .keyError) := by simp [HSys.step, HSys.target, hg]
    have h2 : s.step (.edit e) = (s, .edited .keyError) := by
      simp [Sys.step, Device.edit, hmiss]
    rw [h1, h2]
    exact ⟨hsim, rfl⟩
  | some h =>
    rw [hg] at hrel
    simp only [Option.map_some] at hrel
    have hlt := hsim.valid e.idx h hg
    have h1 : hs.step (.edit e) =
        ({ hs with heap := editObj hs.heap h e.toDayEdit }, .edited ((weekAt hs.heap h).editOutcome e.toDayEdit)) := by
      simp [HSys.step, HSys.target, hg]
    have h2 : s.step (.edit e) =
        (⟨⟨dictSet s.dev.schedules e.idx ((weekAt hs.heap h).edit e.toDayEdit), s.dev.switches, s.dev.params⟩, s.queue⟩,
         .edited ((weekAt hs.heap h).editOutcome e.toDayEdit)) := by
      simp [Sys.step, Device.edit, hrel, Week.edit, Week.editOutcome, Edit.toDayEdit]
    rw [h1, h2]
    refine ⟨⟨hsim.sw, hsim.par, ?_, hsim.inj, ?_, ?_⟩, rfl⟩
    · intro i h' hh
      simp only [editObj_length]
      exact hsim.valid i h' hh
    · intro i
      simp only
      by_cases hi : i = e.idx
      · subst hi
        rw [dictGet_dictSet_same, hg]
        simp [weekAt_editObj_same _ _ _ hlt]
      · rw [dictGet_dictSet_other _ _ _ _ hi, hsim.sched i]
        cases hgi : dictGet hs.sched i with
        | none => rfl
        | some h' =>
          have hne : h ≠ h' := by
            intro heq
            subst heq
            exact hi (hsim.inj i e.idx h hgi hg)
          simp [weekAt_editObj_other _ _ _ _ hne]
    · have := QRel_map hs { hs with heap := editObj hs.heap h e.toDayEdit } id (by
        intro r hr hq
        obtain ⟨a, b, c, d, hm⟩ := hq
        refine ⟨a, b, c, by simpa [editObj_length] using d, ?_⟩
        simp only [id]
        cases hf : r.frozen with
        | none => rw [hf] at hm; exact hm
        | some w =>
          rw [hf] at hm
          refine ⟨?_, hm.2⟩
          have hne : h ≠ hr.obj := fun heq => hm.2 e.idx (heq ▸ hg)
          show weekAt (editObj hs.heap h e.toDayEdit) hr.obj = w
          rw [weekAt_editObj_other _ _ _ _ hne]
          exact hm.1) s.queue hs.queue hsim.queue
      simpa using this

theorem sim_commit (hs : HSys) (s : Sys) (hsim : Sim hs s) (idx : Nat) :
    Sim (hs.step (.commit idx)).1 (s.step (.commit idx)).1 ∧
      (hs.step (.commit idx)).2 = HOut.ofOut (s.step (.commit idx)).2 := by
  have hrel := hsim.sched idx
  cases hg : dictGet hs.sched idx with
  | none =>
    rw [hg] at hrel
    have hmiss : dictGet s.dev.schedules idx = none := by simpa using hrel
    have h1 : hs.step (.commit idx) = (hs, .keyError) := by simp [HSys.step, hg]
    have h2 : s.step (.commit idx) = (s, .keyError) := by simp [Sys.step, hmiss]
    rw [h1, h2]; exact ⟨hsim, rfl⟩
  | some h =>
    rw [hg] at hrel
    simp only [Option.map_some] at hrel
    cases hsw : dictGet s.dev.switches idx with
    | none =>
      have h1 : hs.step (.commit idx) = (hs, .keyError) := by
        simp [HSys.step, hg, HSys.collect, hsim.sw, hsw]
      have h2 : s.step (.commit idx) = (s, .keyError) := by simp [Sys.step, hrel, hsw]
      rw [h1, h2]; exact ⟨hsim, rfl⟩
    | some sw =>
      cases hp : dictGet s.dev.params idx with
      | none =>
        have h1 : hs.step (.commit idx) = (hs, .keyError) := by
          simp [HSys.step, hg, HSys.collect, hsim.sw, hsim.par, hsw, hp]
        have h2 : s.step (.commit idx) = (s, .keyError) := by simp [Sys.step, hrel, hsw, hp]
        rw [h1, h2]; exact ⟨hsim, rfl⟩
      | some p =>
        have h1 : hs.step (.commit idx) = ({ hs with queue := hs.queue ++ [⟨idx, sw, p, h⟩] }, .queued) := by
          simp [HSys.step, hg, HSys.collect, hsim.sw, hsim.par, hsw, hp]
        have h2 : s.step (.commit idx) = (⟨s.dev, s.queue ++ [⟨idx, sw, p, none⟩]⟩, .queued) := by
          simp [Sys.step, hrel, hsw, hp]
        rw [h1, h2]
        refine ⟨⟨hsim.sw, hsim.par, hsim.valid, hsim.inj, hsim.sched, ?_⟩, rfl⟩
        have hq : Q hs ⟨idx, sw, p, none⟩ ⟨idx, sw, p, h⟩ := ⟨rfl, rfl, rfl, hsim.valid idx h hg, hg⟩
        have := QRel_append hs _ _ hq s.queue hs.queue hsim.queue
        have hmono := QRel_map hs { hs with queue := hs.queue ++ [⟨idx, sw, p, h⟩] } id
          (fun r hr hq => hq) _ _ this
        simpa using hmono

theorem sim_drain (hs : HSys) (s : Sys) (hsim : Sim hs s) :
    Sim (hs.step .drain).1 (s.step .drain).1 ∧ (hs.step .drain).2 = HOut.ofOut (s.step .drain).2 := by
  rcases QRel_head hs s.queue hs.queue hsim.queue with ⟨h1, h2⟩ | ⟨r, rs, hr, hrs, h1, h2, hq, hrest⟩
  · have e1 : hs.step .drain = (hs, .idle) := by simp [HSys.step, h2]
    have e2 : s.step .drain = (s, .idle) := by simp [Sys.step, h1]
    rw [e1, e2]; exact ⟨hsim, rfl⟩
  · have e1 : hs.step .drain = ({ hs with queue := hrs }, .tx (hr.payload hs.heap)) := by
      simp [HSys.step, h2]
    have e2 : s.step .drain = (⟨s.dev, rs⟩, .tx (r.payload s.dev)) := by simp [Sys.step, h1]
    rw [e1, e2]
    refine ⟨⟨hsim.sw, hsim.par, hsim.valid, hsim.inj, hsim.sched, ?_⟩, ?_⟩
    · have := QRel_map hs { hs with queue := hrs } id (fun r hr hq => hq) _ _ hrest
      simpa using this
    · simp only [HOut.ofOut, Req.payload, HReq.payload, Q_week hs s hsim r hr hq, hq.1, hq.2.1, hq.2.2.1]

theorem sim_receive (hs : HSys) (s : Sys) (hsim : Sim hs s) (msg : List Byte) :
    Sim (hs.step (.receive msg)).1 (s.step (.receive msg)).1 ∧
      (hs.step (.receive msg)).2 = HOut.ofOut (s.step (.receive msg)).2 := by
  cases hd : decodeResponse msg with
  | none =>
    have e1 : hs.step (.receive msg) = (hs, .decodeError) := by simp [HSys.step, hd]
    have e2 : s.step (.receive msg) = (s, .decodeError) := by simp [Sys.step, hd]
    rw [e1, e2]; exact ⟨hsim, rfl⟩
  | some es =>
    by_cases hk : knownIndexes es = true
    · have hk' : (es.all fun e => decide (e.idx < schedulesCount)) = true := hk
      have e1 : hs.step (.receive msg) =
          ({ hs with heap := hs.heap ++ es.map Entry.toObj, sched := allocSched hs.heap.length es [],
                     switches := es.foldl (fun d e => dictSet d e.idx e.switch) hs.switches,
                     params := es.foldl (fun d e => dictSetOpt d e.idx e.param) hs.params }, .received) := by
        simp [HSys.step, hd, hk]
      have e2 : s.step (.receive msg) =
          (⟨⟨es.foldl (fun d e => dictSet d e.idx (Week.ofTable e.table)) [],
             es.foldl (fun d e => dictSet d e.idx e.switch) s.dev.switches,
             es.foldl (fun d e => dictSetOpt d e.idx e.param) s.dev.params⟩,
            s.queue.map (Req.freeze s.dev)⟩, .received) := by
        simp [Sys.step, hd, Device.receive, hk, hk']
      rw [e1, e2]
      obtain ⟨a1, a2, a3⟩ := alloc_sim (hs.heap ++ es.map Entry.toObj) hs.heap.length es hs.heap.length [] []
        (by
          intro k e hke
          rw [List.getElem?_append_right (by omega)]
          simp [hke])
        (by intro i; rfl)
        (by intro i h hh; simp [dictGet] at hh)
        (by intro i j h hh; simp [dictGet] at hh)
        (Nat.le_refl _)
      refine ⟨⟨by simp [hsim.sw], by simp [hsim.par], ?_, a3, a1, ?_⟩, rfl⟩
      · intro i h hh
        have := a2 i h hh
        simp only [List.length_append, List.length_map]
        omega
      · apply QRel_map hs _ (Req.freeze s.dev) _ s.queue hs.queue hsim.queue
        intro r hr hq
        have hw := Q_week hs s hsim r hr hq
        obtain ⟨a, b, c, d, _⟩ := hq
        refine ⟨a, b, c, by simp only [List.length_append]; omega, ?_⟩
        simp only [Req.freeze]
        refine ⟨?_, ?_⟩
        · rw [weekAt_append_left _ _ _ d]; exact hw.symm
        · intro i hi
          have := a2 i hr.obj hi
          omega
    · have e1 : hs.step (.receive msg) = (hs, .received) := by simp [HSys.step, hd, hk]
      have hk' : ¬ (es.all fun e => decide (e.idx < schedulesCount)) = true := hk
      have e2 : s.step (.receive msg) = (s, .received) := by
        simp [Sys.step, hd, Device.receive, hk, hk']
      rw [e1, e2]; exact ⟨hsim, rfl⟩

theorem sim_step (hs : HSys) (s : Sys) (hsim : Sim hs s) (ev : Ev) :
    Sim (hs.step ev.toH).1 (s.step ev).1 ∧ (hs.step ev.toH).2 = HOut.ofOut (s.step ev).2 := by
  cases ev with
  | receive msg => exact sim_receive hs s hsim msg
  | edit e => exact sim_edit hs s hsim e
  | commit idx => exact sim_commit hs s hsim idx
  | drain => exact sim_drain hs s hsim

theorem sim_run (hs : HSys) (s : Sys) (hsim : Sim hs s) (evs : List Ev) :
    (HSys.run hs (evs.map Ev.toH)).2 = (Sys.run s evs).2.map HOut.ofOut := by
  induction evs generalizing hs s with
  | nil => rfl
  | cons ev rest ih =>
    obtain ⟨h1, h2⟩ := sim_step hs s hsim ev
    simp only [List.map_cons, HSys.run, Sys.run, h2, ih _ _ h1]

end PlumVerif.Sched

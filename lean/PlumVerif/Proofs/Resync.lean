import PlumVerif.Proofs.FrameStream
/- re-synchronisation after noise on a run of identical frames (C14, partial: no inner 0x68) -/
namespace PlumVerif

/-- `n` back-to-back copies of the byte string `F` -/
def run (F : List Byte) : Nat → List Byte
  | 0 => []
  | n + 1 => F ++ run F n

theorem run_length (F : List Byte) (n : Nat) : (run F n).length = n * F.length := by
  induction n with
  | zero => simp [run]
  | succ k ih => simp [run, ih, Nat.succ_mul]; omega

/-- one or more calls of `read()`, none of which reports a lost connection, take the
reader from remainder `s` to remainder `t` -/
inductive Reaches : List Byte → List Byte → Prop
  | refl (s : List Byte) : Reaches s s
  | step {s r t : List Byte} {o : Outcome} : readFrame s = (o, r) → o ≠ .connLost → Reaches r t → Reaches s t

/-- every suffix of a run is a delimiter-free tail of one copy followed by a shorter run -/
theorem run_drop (F : List Byte) (hno : startByte ∉ F.tail) (n d : Nat) :
    ∃ x m, (run F n).drop d = x ++ run F m ∧ startByte ∉ x ∧ x.length < F.length + 1 ∧ m ≤ n := by
  induction n generalizing d with
  | zero => exact ⟨[], 0, by simp [run], by simp, by simp, Nat.le_refl _⟩
  | succ k ih =>
    by_cases hd0 : d = 0
    · subst hd0; exact ⟨[], k + 1, by simp, by simp, by simp, Nat.le_refl _⟩
    · by_cases hd : d < F.length
      · refine ⟨F.drop d, k, ?_, ?_, by simp; omega, Nat.le_succ _⟩
        · simp only [run]
          rw [List.drop_append_of_le_length (by omega)]
        · intro hmem
          apply hno
          have : F.drop d = F.tail.drop (d - 1) := by
            cases F with
            | nil => simp
            | cons a t =>
              cases d with
              | zero => exact absurd rfl hd0
              | succ e => simp
          rw [this] at hmem
          exact List.mem_of_mem_drop hmem
      · obtain ⟨x, m, h1, h2, h3, h4⟩ := ih (d - F.length)
        refine ⟨x, m, ?_, h2, h3, Nat.le_succ_of_le h4⟩
        simp only [run]
        rw [List.drop_append, List.drop_of_length_le (by omega)]
        simpa using h1

/-- **bounded loss**: after ANY noise, the reader gets to a position inside the run that is
aligned up to a delimiter-free tail `x`, having consumed at most |noise| + 999 bytes;
this needs no assumption on the frame except that it has no inner start delimiter. -/
theorem resync_reach (F : List Byte) (hno : startByte ∉ F.tail) (n : Nat) :
    ∀ (k : Nat) (noise : List Byte), noise.length ≤ k →
    ∃ x m, Reaches (noise ++ run F n) (x ++ run F m) ∧ startByte ∉ x ∧ m ≤ n ∧
      (noise ++ run F n).length - (x ++ run F m).length ≤ noise.length + 999 ∧
      (run F n).length - (run F m).length ≤ 999 + F.length := by
  intro k
  induction k with
  | zero =>
    intro noise hk
    have : noise = [] := by cases noise <;> simp_all
    subst this
    exact ⟨[], n, .refl _, by simp, Nat.le_refl _, by simp, by simp⟩
  | succ k ih =>
    intro noise hk
    by_cases hmem : startByte ∈ noise
    · -- the call finds its start delimiter inside the noise
      cases hrf : readFrame (noise ++ run F n) with
      | mk o rest =>
        have hne : o ≠ .connLost := by
          intro ho
          have := (readFrame_connLost_iff (noise ++ run F n)).mp (by rw [hrf]; exact ho)
          exact this (List.mem_append_left _ hmem)
        obtain ⟨hlt, c, hc⟩ := readFrame_progress hrf hne
        -- the delimiter found is the first one of the noise
        obtain ⟨r, hscan⟩ : ∃ r, scan (noise ++ run F n) = some r := by
          cases hs : scan (noise ++ run F n) with
          | none => exact absurd (List.mem_append_left _ hmem) (scan_none hs)
          | some r => exact ⟨r, rfl⟩
        have hbound := readFrame_consumed_le hscan hrf
        obtain ⟨pre, hpre, hpre68⟩ := scan_spec hscan
        -- |pre| < |noise| because the noise contains a delimiter and pre does not
        have hprelt : pre.length < noise.length := by
          apply Nat.lt_of_not_le
          intro hge
          have : noise = pre.take noise.length := by
            have h1 : (noise ++ run F n).take noise.length = noise := List.take_left' rfl
            rw [hpre, List.take_append_of_le_length hge] at h1
            exact h1.symm
          rw [this] at hmem
          exact hpre68 (List.mem_of_mem_take hmem)
        have hlenS : (noise ++ run F n).length = pre.length + 1 + r.length := by
          rw [hpre]; simp; omega
        have hclen : c.length = (noise ++ run F n).length - rest.length := by
          rw [hc]; simp
        have hcpos : 0 < c.length := by omega
        have hcle : c.length ≤ noise.length + 999 := by omega
        have hrest : rest = (noise ++ run F n).drop c.length := by
          rw [hc]; simp
        by_cases hcn : c.length < noise.length
        · -- still inside the noise: recurse on the shorter noise
          have hrest' : rest = noise.drop c.length ++ run F n := by
            rw [hrest, List.drop_append_of_le_length (by omega)]
          obtain ⟨x, m, hreach, hx, hm, hb, hxl⟩ := ih (noise.drop c.length) (by simp; omega)
          refine ⟨x, m, .step hrf hne (hrest' ▸ hreach), hx, hm, ?_, hxl⟩
          simp only [List.length_append, List.length_drop] at hb ⊢
          omega
        · -- the call ended inside the run
          have hrest' : rest = (run F n).drop (c.length - noise.length) := by
            rw [hrest, List.drop_append, List.drop_of_length_le (by omega)]
            simp
          obtain ⟨x, m, h1, h2, h3, h4⟩ := run_drop F hno n (c.length - noise.length)
          refine ⟨x, m, .step hrf hne (by rw [hrest', h1]; exact .refl _), h2, h4, ?_, ?_⟩
          · rw [← h1, ← hrest']
            omega
          · have hl := congrArg List.length h1
            simp only [List.length_drop, List.length_append] at hl
            omega
    · -- no delimiter in the noise at all: already aligned
      exact ⟨noise, n, .refl _, hmem, Nat.le_refl _, by simp, by simp⟩

end PlumVerif

namespace PlumVerif

theorem readAllFuel_irrel : ∀ (a b : Nat) (s : List Byte), s.length < a → s.length < b →
    readAllFuel a s = readAllFuel b s := by
  intro a
  induction a with
  | zero => intro b s h; simp at h
  | succ a ih =>
    intro b s ha hb
    cases b with
    | zero => simp at hb
    | succ b =>
      simp only [readAllFuel]
      cases hrf : readFrame s with
      | mk o r =>
        cases o with
        | connLost => rfl
        | delivered f =>
          have := (readFrame_progress hrf (by simp)).1
          simp only; rw [ih b r (by omega) (by omega)]
        | ignored =>
          have := (readFrame_progress hrf (by simp)).1
          simp only; rw [ih b r (by omega) (by omega)]
        | protoErr e =>
          have := (readFrame_progress hrf (by simp)).1
          simp only; rw [ih b r (by omega) (by omega)]

/-- unfolding one call of `readAll` -/
theorem readAll_step {s r : List Byte} {o : Outcome} (h : readFrame s = (o, r)) (ho : o ≠ .connLost) :
    readAll s = (o, s.length - r.length) :: readAll r := by
  have hlt := (readFrame_progress h ho).1
  have h1 : readAllFuel (s.length + 1) s = (o, s.length - r.length) :: readAllFuel s.length r := by
    rw [readAllFuel]
    simp only [h]
  show readAllFuel (s.length + 1) s = _ :: readAllFuel (r.length + 1) r
  rw [h1, readAllFuel_irrel s.length (r.length + 1) r hlt (by omega)]

theorem readAll_connLost {s : List Byte} (h : startByte ∉ s) : readAll s = [(.connLost, s.length)] := by
  have h1 : (readFrame s).1 = .connLost := (readFrame_connLost_iff s).mpr h
  have h2 : (readFrame s).2 = [] := by
    unfold readFrame
    have : scan s = none := by
      cases hs : scan s with
      | none => rfl
      | some r => obtain ⟨pre, hp, _⟩ := scan_spec hs; rw [hp] at h; simp at h
    simp [this]
  unfold readAll
  simp only [readAllFuel]
  cases hrf : readFrame s with
  | mk o r =>
    rw [hrf] at h1 h2; simp only at h1 h2; subst h1; subst h2; simp

theorem reaches_readAll {s t : List Byte} (h : Reaches s t) :
    ∃ outs : List (Outcome × Nat), (∀ p ∈ outs, p.1 ≠ .connLost) ∧ readAll s = outs ++ readAll t := by
  induction h with
  | refl s => exact ⟨[], by simp, by simp⟩
  | step hrf hne _ ih =>
    obtain ⟨outs, h1, h2⟩ := ih
    refine ⟨_ :: outs, ?_, by rw [readAll_step hrf hne, h2]; rfl⟩
    intro p hp
    rcases List.mem_cons.mp hp with rfl | hp
    · exact hne
    · exact h1 p hp

/-- from an aligned position (up to a delimiter-free tail) every call delivers the frame -/
theorem aligned_deliver (f : Fields) (hdel : classify f = .delivered f)
    (hlen : f.payload.length + 10 ≤ 1000) (m : Nat) :
    ∀ x : List Byte, startByte ∉ x →
    (readAll (x ++ run (encode f) m)).map (·.1) = List.replicate m (.delivered f) ++ [.connLost] := by
  induction m with
  | zero =>
    intro x hx
    simp only [run, List.append_nil]
    rw [readAll_connLost hx]; rfl
  | succ m ih =>
    intro x hx
    have hrf : readFrame (x ++ run (encode f) (m + 1)) = (.delivered f, run (encode f) m) := by
      rw [readFrame_skip hx]
      simp only [run, encode]
      rw [read_encoded f endByte _ hlen, hdel]
    rw [readAll_step hrf (by simp)]
    simp only [List.map_cons, List.replicate_succ, List.cons_append]
    have := ih [] (by simp)
    simp only [List.nil_append] at this
    rw [this]

end PlumVerif

import PlumVerif.Model.DecodeMisc
import PlumVerif.Proofs.DecodeParams
/- helper lemmas about the UID text: CRC-16 step, base-32 digits, little-endian numbers (core Lean only) -/
namespace PlumVerif.P2

theorem uidPolynomial_eq : Gen.uidPolynomial = 0xA001 := by decide
theorem uidCrc_eq : Gen.uidCrc = 0xA3A3 := by decide

theorem toUInt8_toNat' (n : Nat) (h : n < 256) : n.toUInt8.toNat = n := by
  simp [Nat.toUInt8, UInt8.toNat_ofNat']; omega

/-! ### CRC-16 -/

def crcShiftN : Nat → Nat → Nat
  | 0, c => c
  | k + 1, c => crcShiftN k (crcShift c)

theorem crcShift8_eq (c : Nat) : crcShift8 c = crcShiftN 8 c := rfl

theorem xor_cancel_right (a b : Nat) : a ^^^ b ^^^ b = a := by
  rw [Nat.xor_assoc, Nat.xor_self, Nat.xor_zero]

/-- the shift step is linear over XOR -/
theorem crcShift_xor (a b : Nat) : crcShift (a ^^^ b) = crcShift a ^^^ crcShift b := by
  unfold crcShift
  have hd : (a ^^^ b) / 2 = a / 2 ^^^ b / 2 := Nat.xor_div_two
  have hm := @Nat.xor_mod_two_eq_one a b
  by_cases ha : a % 2 = 1 <;> by_cases hb : b % 2 = 1
  · have : ¬ (a ^^^ b) % 2 = 1 := by rw [hm]; simp [ha, hb]
    simp only [this, ha, hb, ↓reduceIte, hd]
    rw [Nat.xor_assoc, Nat.xor_comm (b / 2), ← Nat.xor_assoc (Gen.uidPolynomial), Nat.xor_self,
      Nat.zero_xor]
  · have : (a ^^^ b) % 2 = 1 := by rw [hm]; simp [ha, hb]
    simp only [this, ha, hb, ↓reduceIte, hd]
    rw [Nat.xor_assoc, Nat.xor_comm (b / 2), ← Nat.xor_assoc]
  · have : (a ^^^ b) % 2 = 1 := by rw [hm]; simp [ha, hb]
    simp only [this, ha, hb, ↓reduceIte, hd]
    rw [Nat.xor_assoc]
  · have : ¬ (a ^^^ b) % 2 = 1 := by rw [hm]; simp [ha, hb]
    simp only [this, ha, hb, ↓reduceIte, hd]

theorem crcShiftN_xor (k a b : Nat) : crcShiftN k (a ^^^ b) = crcShiftN k a ^^^ crcShiftN k b := by
  induction k generalizing a b with
  | zero => rfl
  | succ k ih => simp only [crcShiftN, crcShift_xor, ih]

/-- `k` shift steps move the part above bit `k` down unchanged and mix in the steps of the low part -/
theorem crcShiftN_split (k h l : Nat) (hl : l < 2 ^ k) :
    crcShiftN k (h * 2 ^ k + l) = h ^^^ crcShiftN k l := by
  induction k generalizing h l with
  | zero => simp at hl; subst hl; simp [crcShiftN]
  | succ k ih =>
    have hp : 2 ^ (k + 1) = 2 * 2 ^ k := by rw [Nat.pow_succ]; omega
    have hdiv : (h * 2 ^ (k + 1) + l) / 2 = h * 2 ^ k + l / 2 := by
      rw [hp]; have : h * (2 * 2 ^ k) = 2 * (h * 2 ^ k) := by rw [Nat.mul_left_comm]
      omega
    have hmod : (h * 2 ^ (k + 1) + l) % 2 = l % 2 := by
      rw [hp]; have : h * (2 * 2 ^ k) = 2 * (h * 2 ^ k) := by rw [Nat.mul_left_comm]
      omega
    have hl2 : l / 2 < 2 ^ k := by omega
    simp only [crcShiftN]
    unfold crcShift
    rw [hdiv, hmod]
    by_cases hodd : l % 2 = 1
    · simp only [hodd, ↓reduceIte]
      rw [crcShiftN_xor, crcShiftN_xor, ih h (l / 2) hl2, Nat.xor_assoc]
    · simp only [hodd, ↓reduceIte]
      exact ih h (l / 2) hl2

theorem crcShift_lt (c : Nat) (h : c < 65536) : crcShift c < 65536 := by
  unfold crcShift
  split
  · exact Nat.xor_lt_two_pow (n := 16) (by omega) (by decide)
  · omega

theorem crcShift8_lt (c : Nat) (h : c < 65536) : crcShift8 c < 65536 := by
  unfold crcShift8
  exact crcShift_lt _ (crcShift_lt _ (crcShift_lt _ (crcShift_lt _ (crcShift_lt _ (crcShift_lt _
    (crcShift_lt _ (crcShift_lt _ h)))))))

theorem xor_byte_lt (crc : Nat) (b : Byte) (h : crc < 65536) : crc ^^^ b.toNat < 65536 :=
  Nat.xor_lt_two_pow (n := 16) h (by have := b.toNat_lt; omega)

theorem crc16Byte_lt (crc : Nat) (b : Byte) (h : crc < 65536) : crc16Byte crc b < 65536 :=
  crcShift8_lt _ (xor_byte_lt crc b h)

theorem foldl_crc_lt (bs : List Byte) (c : Nat) (h : c < 65536) : bs.foldl crc16Byte c < 65536 := by
  induction bs generalizing c with
  | nil => exact h
  | cons b bs ih => exact ih _ (crc16Byte_lt c b h)

theorem crc16_lt (bs : List Byte) : crc16 bs < 65536 := foldl_crc_lt bs _ (by decide)

theorem crcShift8_zero : crcShift8 0 = 0 := by decide

/-! ### little-endian numbers -/

theorem decodeLE_append (a b : List Byte) : decodeLE (a ++ b) = decodeLE a + 256 ^ a.length * decodeLE b := by
  induction a with
  | nil => simp [decodeLE]
  | cons x xs ih =>
    simp only [List.cons_append, decodeLE, ih, List.length_cons, Nat.pow_succ]
    rw [Nat.mul_add, Nat.add_assoc, ← Nat.mul_assoc, Nat.mul_comm (256 ^ xs.length) 256, Nat.mul_assoc]

theorem decodeLE_replicate_zero (k : Nat) : decodeLE (List.replicate k (0 : Byte)) = 0 := by
  induction k with
  | zero => rfl
  | succ k ih => simp [List.replicate_succ, decodeLE, ih]

/-- zero bytes at the most significant end do not change the number -/
theorem decodeLE_pad (a : List Byte) (k : Nat) : decodeLE (a ++ List.replicate k 0) = decodeLE a := by
  rw [decodeLE_append, decodeLE_replicate_zero]; simp

theorem decodeLE_lt (a : List Byte) : decodeLE a < 256 ^ a.length := by
  induction a with
  | nil => simp [decodeLE]
  | cons x xs ih =>
    simp only [decodeLE, List.length_cons, Nat.pow_succ]
    have := x.toNat_lt
    omega

/-- at equal length the number determines the bytes -/
theorem decodeLE_inj (a b : List Byte) (hl : a.length = b.length) (h : decodeLE a = decodeLE b) : a = b := by
  induction a generalizing b with
  | nil => cases b with
    | nil => rfl
    | cons => simp at hl
  | cons x xs ih =>
    cases b with
    | nil => simp at hl
    | cons y ys =>
      simp only [decodeLE] at h
      have hx := x.toNat_lt
      have hy := y.toNat_lt
      have h1 : x.toNat = y.toNat := by omega
      have h2 : decodeLE xs = decodeLE ys := by omega
      rw [UInt8.toNat_inj.mp h1, ih ys (by simpa using hl) h2]

/-- exactly what reading bytes as a number forgets: 0x00 bytes at the most significant end -/
theorem decodeLE_eq_iff (a b : List Byte) (hl : a.length ≤ b.length) :
    decodeLE a = decodeLE b ↔ b = a ++ List.replicate (b.length - a.length) 0 := by
  constructor
  · intro h
    have h' : decodeLE (a ++ List.replicate (b.length - a.length) 0) = decodeLE b := by
      rw [decodeLE_pad]; exact h
    exact (decodeLE_inj _ _ (by simp; omega) h').symm
  · intro h
    rw [h, decodeLE_pad]

/-! ### base-32 text -/

theorem base5Key_eq : Gen.base5Key = "0123456789ABCDEFGHIJKLMNZPQRSTUV" := by decide

/-- value of a digit list, most significant digit first -/
def ofDigits32 (ds : List Nat) : Nat := ds.foldl (fun a d => a * 32 + d) 0

theorem ofDigits32_append (ds : List Nat) (d : Nat) : ofDigits32 (ds ++ [d]) = ofDigits32 ds * 32 + d := by
  simp [ofDigits32, List.foldl_append]

/-- canonical base-32 digit list of `n`: digits below 32, no leading zero, value `n` -/
def IsDigits32 (ds : List Nat) (n : Nat) : Prop :=
  (∀ d ∈ ds, d < 32) ∧ ofDigits32 ds = n ∧ ds.head? ≠ some 0

theorem base5_spec (fuel n : Nat) (acc : List Char) (h : n < 32 ^ fuel) :
    ∃ ds, IsDigits32 ds n ∧ (ds = [] ↔ n = 0) ∧ base5 fuel n acc = ds.map keyChar ++ acc := by
  induction fuel generalizing n acc with
  | zero =>
    simp at h; subst h
    exact ⟨[], ⟨by simp, rfl, by simp⟩, by simp, rfl⟩
  | succ f ih =>
    unfold base5
    by_cases hn : n = 0
    · subst hn
      exact ⟨[], ⟨by simp, rfl, by simp⟩, by simp, by simp⟩
    · simp only [hn, ↓reduceIte]
      have hdiv : n / 32 < 32 ^ f := by
        rw [Nat.div_lt_iff_lt_mul (by decide)]; rw [Nat.pow_succ] at h; exact h
      obtain ⟨ds, ⟨hlt, hval, hhead⟩, hnil, heq⟩ := ih (n / 32) (keyChar (n % 32) :: acc) hdiv
      refine ⟨ds ++ [n % 32], ⟨?_, ?_, ?_⟩, ?_, ?_⟩
      · intro d hd
        simp only [List.mem_append, List.mem_singleton] at hd
        rcases hd with hd | hd
        · exact hlt d hd
        · omega
      · rw [ofDigits32_append, hval]; omega
      · cases ds with
        | nil =>
          have : n / 32 = 0 := hnil.mp rfl
          simp only [List.nil_append, List.head?_cons, ne_eq, Option.some.injEq]
          omega
        | cons d ds' => simpa using hhead
      · simp
      · rw [heq]; simp

theorem base5_succ (f n : Nat) (acc : List Char) :
    base5 (f + 1) n acc = if n = 0 then acc else base5 f (n / 32) (keyChar (n % 32) :: acc) := rfl

theorem base5_of_zero (f : Nat) (acc : List Char) : base5 f 0 acc = acc := by
  cases f with
  | zero => rfl
  | succ f => rw [base5_succ]; simp

theorem base5_fuel_succ (f n : Nat) (acc : List Char) (h : n < 32 ^ f) :
    base5 (f + 1) n acc = base5 f n acc := by
  induction f generalizing n acc with
  | zero => simp at h; subst h; rfl
  | succ f ih =>
    by_cases hn : n = 0
    · subst hn; rw [base5_of_zero, base5_of_zero]
    · have e1 := base5_succ (f + 1) n acc
      have e2 := base5_succ f n acc
      rw [if_neg hn] at e1 e2
      rw [e1, e2]
      exact ih _ _ (by rw [Nat.div_lt_iff_lt_mul (by decide)]; rw [Nat.pow_succ] at h; exact h)

theorem base5_fuel_add (f k n : Nat) (acc : List Char) (h : n < 32 ^ f) :
    base5 (f + k) n acc = base5 f n acc := by
  induction k with
  | zero => rfl
  | succ k ih =>
    rw [← Nat.add_assoc, base5_fuel_succ _ _ _ (Nat.lt_of_lt_of_le h (Nat.pow_le_pow_right (by decide) (by omega))), ih]

/-- with enough fuel the text depends on the number only -/
theorem base5_fuel_indep (f g n : Nat) (acc : List Char) (hf : n < 32 ^ f) (hg : n < 32 ^ g) :
    base5 f n acc = base5 g n acc := by
  rcases Nat.le_total f g with hfg | hfg
  · obtain ⟨k, rfl⟩ := Nat.exists_eq_add_of_le hfg
    exact (base5_fuel_add f k n acc hf).symm
  · obtain ⟨k, rfl⟩ := Nat.exists_eq_add_of_le hfg
    exact base5_fuel_add g k n acc hg

theorem length_uid_bytes (uid : List Byte) : (uid ++ encodeLE (crc16 uid) 2).length = uid.length + 2 := by
  simp [length_encodeLE]

theorem uidNumber_lt (uid : List Byte) : uidNumber uid < 32 ^ uidFuel uid := by
  have h1 := decodeLE_lt (uid ++ encodeLE (crc16 uid) 2)
  rw [length_uid_bytes] at h1
  unfold uidNumber uidFuel
  refine Nat.lt_of_lt_of_le h1 ?_
  have e1 : (256 : Nat) = 2 ^ 8 := by decide
  have e2 : (32 : Nat) = 2 ^ 5 := by decide
  rw [e1, e2, ← Nat.pow_mul, ← Nat.pow_mul]
  exact Nat.pow_le_pow_right (by decide) (by omega)

/-- the alphabet has 32 distinct characters -/
theorem keyChar_inj : ∀ a, a < 32 → ∀ b, b < 32 → keyChar a = keyChar b → a = b := by decide

theorem map_keyChar_inj (xs ys : List Nat) (hx : ∀ d ∈ xs, d < 32) (hy : ∀ d ∈ ys, d < 32)
    (h : xs.map keyChar = ys.map keyChar) : xs = ys := by
  induction xs generalizing ys with
  | nil => cases ys with
    | nil => rfl
    | cons => simp at h
  | cons x xs ih =>
    cases ys with
    | nil => simp at h
    | cons y ys =>
      simp only [List.map_cons, List.cons.injEq] at h
      have := keyChar_inj x (hx x (by simp)) y (hy y (by simp)) h.1
      rw [this, ih ys (fun d hd => hx d (by simp [hd])) (fun d hd => hy d (by simp [hd])) h.2]

end PlumVerif.P2

import PlumVerif.Model.EntryCancel
import PlumVerif.Proofs.Entry
/- the invariant of the locked machine survives the cancellation of the creator (lock released by `async with`) -/
namespace PlumVerif.Entry

theorem inv_cancel {who cr} {s : St} (h : Inv who cr s) (i : Nat) (hpc : s.pc i = .creating) :
    Inv who cr { s with pc := upd s.pc i .start, lock := none } := by
  have pcj : ∀ j, j ≠ i → upd s.pc i .start j = s.pc j := fun j hj => upd_other _ _ _ _ hj
  have hin : Inside (s.pc i) := by rw [hpc]; exact inside_creating
  have others : ∀ j, j ≠ i → ¬ Inside (s.pc j) := fun j e hj => e (h.only hin hj)
  have nopub : ∀ k d, s.pc k = .publishing d → False := by
    intro k d hk
    by_cases e : k = i
    · subst e; rw [hpc] at hk; cases hk
    · exact others k e (hk ▸ inside_publishing d)
  refine ⟨?_, ?_, ?_, ?_, ?_, h.inj, ?_, h.setups, ?_, h.handledNodup, ?_, h.dispOk, h.dispNodup, ?_, ?_, ?_, h.pubDisp, h.setupsTot, ?_, ?_⟩
  · intro j hj
    by_cases e : j = i
    · subst e; simp [Inside] at hj
    · simp only [pcj j e] at hj; exact absurd hj (others j e)
  · intro k hk; cases hk
  · intro k d hk
    by_cases e : k = i
    · subst e; simp at hk
    · simp only [pcj k e] at hk; exact (nopub k d hk).elim
  · intro j d hj
    by_cases e : j = i
    · subst e; simp at hj
    · simp only [pcj j e] at hj; exact h.holds j d hj
  · intro a d ha
    obtain ⟨h1, h2, h3, _⟩ := h.ids a d ha
    refine ⟨h1, h2, h3, fun k d' hk => ?_⟩
    by_cases e : k = i
    · subst e; simp at hk
    · simp only [pcj k e] at hk; exact (nopub k d' hk).elim
  · intro a ha _
    exact h.zero a ha (fun k d hk => (nopub k d hk).elim)
  · intro p hp'
    have := h.handledOk p hp'
    have e : p.1 ≠ i := by intro e; rw [e, hpc] at this; cases this.1
    simpa [pcj p.1 e] using this
  · intro j d hj
    by_cases e : j = i
    · subst e; simp at hj
    · simp only [pcj j e] at hj; exact h.doneIn j d hj
  · intro j hj
    by_cases e : j = i
    · subst e; simp at hj
    · simp only [pcj j e] at hj; exact h.failedOk j hj
  · intro j hj
    by_cases e : j = i
    · subst e; simp [Inside] at hj
    · simp only [pcj j e] at hj; exact h.kindE j hj
  · intro j hj
    by_cases e : j = i
    · subst e; simp at hj
    · simp only [pcj j e] at hj; exact h.kindG j hj
  · intro hno
    refine h.cnt0 (fun k d hq => ?_)
    by_cases e : k = i
    · rw [e, hpc] at hq; cases hq
    · exact hno k d (by simpa [pcj k e] using hq)
  · intro k d hq
    by_cases e : k = i
    · rw [e] at hq; simp at hq
    · simp only [pcj k e] at hq; exact h.cnt1 k d hq

theorem inv_stepC (who : Nat → Caller) (cr : Nat → Bool) (s : StC) (m : MvC) (h : Inv who cr s.st) :
    Inv who cr (stepC true who cr s m).st := by
  cases m with
  | move i =>
    unfold stepC
    by_cases g : s.gone i = true
    · simpa [g] using h
    · simpa [g] using inv_step who cr s.st i h
  | cancel i =>
    unfold stepC
    by_cases g : s.gone i = true
    · simpa [g] using h
    · cases hpc : s.st.pc i <;> simp [g, hpc] <;> first | exact h | exact inv_cancel h i hpc

theorem inv_runC (who : Nat → Caller) (cr : Nat → Bool) (s : StC) (ms : List MvC) (h : Inv who cr s.st) :
    Inv who cr (runC true who cr s ms).st := by
  induction ms generalizing s with
  | nil => exact h
  | cons m ms ih => exact ih _ (inv_stepC who cr s m h)

/-- moves of a caller that is not gone are the moves of the plain machine, and nobody becomes gone -/
theorem runC_moves (rel : Bool) (who : Nat → Caller) (cr : Nat → Bool) (s : StC) (j : Nat) (hg : s.gone j = false) (n : Nat) :
    runC rel who cr s (List.replicate n (.move j)) = { st := run true who cr s.st (List.replicate n j), gone := s.gone } := by
  induction n generalizing s with
  | zero => rfl
  | succ n ih =>
    simp only [List.replicate_succ, runC, run, stepC, hg]
    simpa using ih { s with st := step true who cr s.st j } hg

end PlumVerif.Entry

namespace PlumVerif.Entry

/-! the replay the driver prints (`replayC`) is a run of `stepC`: the invariant holds in every state it goes through -/

theorem inv_foldC (who : Nat → Caller) (cr : Nat → Bool) (f : StC → Nat → MvC) (js : List Nat) (s : StC) (h : Inv who cr s.st) :
    Inv who cr (js.foldl (fun s j => stepC true who cr s (f s j)) s).st := by
  induction js generalizing s with
  | nil => exact h
  | cons j js ih => exact ih _ (inv_stepC who cr s _ h)

theorem inv_passC (who : Nat → Caller) (cr : Nat → Bool) (r : ReplayC) (h : Inv who cr r.s.st) :
    Inv who cr (passC who cr r).s.st := by
  unfold passC
  generalize List.range r.n = js
  induction js generalizing r with
  | nil => exact h
  | cons j js ih =>
    simp only [List.foldl_cons]
    by_cases c : isCreating (r.s.st.pc j) = true
    · simpa [c] using ih r h
    · simpa [c] using ih { r with s := stepC true who cr r.s (.move j) } (inv_stepC who cr r.s _ h)

theorem inv_settleC (who : Nat → Caller) (cr : Nat → Bool) (fuel : Nat) (r r' : ReplayC) (h : Inv who cr r.s.st)
    (e : settleC who cr fuel r = some r') : Inv who cr r'.s.st := by
  induction fuel generalizing r with
  | zero =>
    unfold settleC at e
    by_cases q : quietC who cr r = true
    · simp [q] at e; subst e; exact h
    · simp [q] at e
  | succ n ih =>
    unfold settleC at e
    by_cases q : quietC who cr r = true
    · simp [q] at e; subst e; exact h
    · simp [q] at e; exact ih _ (inv_passC who cr r h) e

theorem inv_applyEvC (consumers : Nat) (cs : Nat → Caller × Bool) (cr : Nat → Bool) (r r' : ReplayC) (ev : EvC)
    (h : Inv (fun j => (cs j).1) cr r.s.st) (e : applyEvC consumers cs cr r ev = some r') :
    Inv (fun j => (cs j).1) cr r'.s.st := by
  cases ev with
  | feed a m => simp only [applyEvC] at e; exact inv_settleC _ cr _ { r with n := r.n + m } r' h e
  | user a => simp only [applyEvC] at e; exact inv_settleC _ cr _ { r with n := r.n + 1, users := r.n :: r.users } r' h e
  | get a => simp only [applyEvC] at e; exact inv_settleC _ cr _ { r with n := r.n + 1 } r' h e
  | reconnect => simp only [applyEvC] at e; exact inv_settleC _ cr _ r r' h e
  | release =>
    simp only [applyEvC] at e
    split at e
    · exact inv_settleC _ cr _ _ r' (inv_stepC _ cr r.s _ h) e
    · cases e
  | cancelUser =>
    simp only [applyEvC] at e
    split at e
    · exact inv_settleC _ cr _ _ r' (inv_stepC _ cr r.s _ h) e
    · cases e
  | cancelTasks =>
    simp only [applyEvC] at e
    exact inv_settleC _ cr _ _ r' (inv_foldC _ cr (fun _ j => .cancel j) _ r.s h) e

end PlumVerif.Entry

import PlumVerif.Proofs.ConnClose
/-
The all-schedule close invariant of the connection machine (helper lemmas for Props/C12Clean.lean):
whatever the event list, a state whose `close()` has returned is clean.  Three facts are carried along every step:

  J  while close() is not inside the transport's `wait_closed()`: disconnected, no loss handler in its second half and
     none inside `wait_closed()`  ->  `Protocol.writer` is None   (so a reconnect attempt in flight - whoever owns it -
     implies that the old transport is gone: `close_writer()` of `shutdown()` cannot hang then)
  U  once close() has been called, no `connect()` of the user is in progress
  Q  while close() is inside the transport's `wait_closed()`: everything is halted (nothing can start any more)
-/
set_option linter.unusedSimpArgs false
set_option linter.unusedVariables false

namespace PlumVerif.Conn

/-- where `close()` is: 0 not called, 1 in `Queues.join`, 2 in `wait_closed()` of the transport, 3 returned -/
def cls : CPhase → Nat
  | .no => 0
  | .joining _ => 1
  | .joined _ => 1
  | .wclosing _ _ => 2
  | .done _ _ => 3

def JInv (s : St) : Prop :=
  s.connected = false → s.lostMid = false → (∀ dl, s.recon ≠ .wclosing dl) → s.writer = none

def UInv (s : St) : Prop := cls s.closing ≠ 0 → reconOwner s.recon ≠ some .user

/-- the part of the invariant that matters before `shutdown()` got past `Queues.join` -/
structure EarlyOK (s : St) : Prop where
  k : cls s.closing ≤ 1
  j : JInv s
  u : UInv s

/-- what every state whose `close()` has returned satisfies -/
structure DoneOK (s : St) : Prop where
  k : cls s.closing = 3
  halted : Halted s
  writer : s.writer = none
  tasks : tasks s = 0

structure SameK (s s' : St) : Prop where
  connected : s'.connected = s.connected
  lostMid : s'.lostMid = s.lostMid
  recon : s'.recon = s.recon
  writer : s'.writer = s.writer
  k : cls s'.closing = cls s.closing

theorem SameK.refl (s : St) : SameK s s := ⟨rfl, rfl, rfl, rfl, rfl⟩

theorem SameK.trans {a b c : St} (h1 : SameK a b) (h2 : SameK b c) : SameK a c :=
  ⟨h2.connected.trans h1.connected, h2.lostMid.trans h1.lostMid, h2.recon.trans h1.recon, h2.writer.trans h1.writer,
   h2.k.trans h1.k⟩

theorem EarlyOK.of_same {s s' : St} (h : EarlyOK s) (c : SameK s s') : EarlyOK s' := by
  refine ⟨by rw [c.k]; exact h.k, ?_, ?_⟩
  · intro h1 h2 h3
    rw [c.connected] at h1; rw [c.lostMid] at h2; rw [c.recon] at h3; rw [c.writer]
    exact h.j h1 h2 h3
  · intro h1
    rw [c.k] at h1; rw [c.recon]; exact h.u h1

theorem samek_of {s s' : St} (c : SameCore s s') (w : SameW s s') (k : s'.closing = s.closing) : SameK s s' :=
  ⟨c.connected, c.lostMid, c.recon, w.writer, by rw [k]⟩

theorem cls_latch (s : St) : cls (latch s).closing = cls s.closing := by
  unfold latch
  split
  · rename_i t0 h
    split
    · rw [h]; rfl
    · rfl
  · rfl

theorem samek_latch (s : St) : SameK s (latch s) :=
  ⟨(same_latch s).connected, (same_latch s).lostMid, (same_latch s).recon, (samew_latch s).writer, cls_latch s⟩

theorem samek_prodFault (s : St) : SameK s (prodFault s).1 := ⟨rfl, rfl, rfl, rfl, rfl⟩

theorem samek_prodIO' (s : St) : SameK s (prodIO' s).1 := by
  unfold prodIO'
  split
  · split <;> exact ⟨rfl, rfl, rfl, rfl, rfl⟩
  · exact ⟨rfl, rfl, rfl, rfl, rfl⟩

theorem samek_prodIO (s : St) : SameK s (prodIO s).1 := (samek_prodIO' s).trans (samek_latch _)

theorem samek_feed (s : St) (f : Feed) : SameK s (feed s f).1 := by
  unfold feed
  split
  · exact SameK.refl s
  · split
    · exact (samek_prodIO s).trans ⟨rfl, rfl, rfl, rfl, rfl⟩
    · exact samek_prodIO s

theorem Frames.samek {s s' : St} (f : Frames s s') : SameK s s' :=
  ⟨f.connected, f.lostMid, f.recon, f.writer, by rw [f.closing]⟩

theorem popScript_fields (s : St) :
    (popScript s).2.connected = s.connected ∧ (popScript s).2.lostMid = s.lostMid ∧ (popScript s).2.writer = s.writer ∧
    (popScript s).2.closing = s.closing ∧ (popScript s).2.recon = s.recon := by
  unfold popScript; split <;> exact ⟨rfl, rfl, rfl, rfl, rfl⟩

theorem owner_ne_user_of (o : Owner) (h : o ≠ .user) : some o ≠ some Owner.user := by
  intro h'; exact h (Option.some.inj h')

/-- one `_open_connection` call from a state without a transport -/
theorem ok_doOpen {s : St} (o : Owner) (hk : cls s.closing ≤ 1) (hw : s.writer = none) (ho : cls s.closing ≠ 0 → o ≠ .user) :
    EarlyOK (doOpen s o).1 := by
  obtain ⟨p1, p2, p3, p4, p5⟩ := popScript_fields s
  simp only [doOpen]
  split
  · refine ⟨by simp only [establish]; rw [p4]; exact hk, ?_, ?_⟩
    · intro h1; simp [establish] at h1
    · intro _; simp [establish, reconOwner]
  · refine ⟨?_, ?_, ?_⟩
    · unfold openFailed; split <;> (simp only []; rw [p4]; exact hk)
    · intro _ _ _
      unfold openFailed; split <;> (simp only []; rw [p3]; exact hw)
    · intro h1
      have h1' : cls s.closing ≠ 0 := by
        revert h1; unfold openFailed; split <;> (simp only []; rw [p4]; exact id)
      have := ho h1'
      unfold openFailed; split
      · simp [reconOwner]
      · simp only [reconOwner]; exact owner_ne_user_of o this
  · refine ⟨by simp only []; rw [p4]; exact hk, ?_, ?_⟩
    · intro _ _ _; simp only []; rw [p3]; exact hw
    · intro h1
      have h1' : cls s.closing ≠ 0 := by simp only [] at h1; rw [p4] at h1; exact h1
      simp only [reconOwner]; exact owner_ne_user_of o (ho h1')

theorem ok_reconnectInvoke {s : St} (hk : cls s.closing ≤ 1) (hw : s.writer = none) (hr : s.recon = .idle) :
    EarlyOK (reconnectInvoke s).1 := by
  unfold reconnectInvoke
  split
  · exact ok_doOpen .proto hk hw (fun _ => by simp)
  · exact ⟨hk, fun _ _ _ => hw, fun _ => by rw [hr]; simp [reconOwner]⟩

theorem ok_lostFinish {s : St} (hk : cls s.closing ≤ 1) (hr : s.recon = .idle) : EarlyOK (lostFinish s).1 := by
  unfold lostFinish
  simp only [closeWriter_fst]
  split
  · refine ⟨hk, ?_, ?_⟩
    · intro _ _ h3; exact absurd rfl (h3 _)
    · intro _; simp [reconOwner]
  · exact ok_reconnectInvoke (s := { s with wopen := false, writer := none }) hk rfl hr

theorem down_of_recon {s : St} (hi : Inv s) (hr : s.recon ≠ .idle) : s.connected = false ∧ s.lostMid = false := by
  constructor
  · cases hc : s.connected
    · rfl
    · exact absurd (hi.conn_recon hc) hr
  · cases hm : s.lostMid
    · rfl
    · exact absurd (hi.mid_recon hm) hr

theorem cancelConn_not_wclosing {s : St} (h : ∀ dl, (cancelConn s).recon ≠ .wclosing dl) : ∀ dl, s.recon ≠ .wclosing dl := by
  intro dl hr
  apply h dl
  unfold cancelConn
  rw [hr]; simp [reconOwner]
  exact hr

theorem cancelConn_owner_ne_user {s : St} (h : reconOwner s.recon ≠ some .user) : reconOwner (cancelConn s).recon ≠ some .user := by
  unfold cancelConn; split
  · simp [reconOwner]
  · exact h

theorem ok_fire {s : St} (hi : Inv s) (h : EarlyOK s) (k : Timer) : EarlyOK (fire s k).1 := by
  unfold fire
  split
  · exact h
  · rename_i dl hdl
    split
    · exact h
    · cases k with
      | readTO => exact h.of_same (samek_prodFault s)
      | writeTO => exact h.of_same ((samek_prodFault s).trans (samek_latch _))
      | wcloseTO =>
        simp only [deadline?] at hdl
        split at hdl
        · exact ok_reconnectInvoke (s := { s with recon := .idle, writer := none }) h.k rfl rfl
        · simp at hdl
      | openTO =>
        simp only []
        split
        · rename_i dl' o hr
          have hd := down_of_recon hi (by rw [hr]; simp)
          have hw : s.writer = none := h.j hd.1 hd.2 (by intro d; rw [hr]; simp)
          have hu := h.u
          refine ⟨?_, ?_, ?_⟩
          · unfold openFailed; split <;> exact h.k
          · intro _ _ _; unfold openFailed; split <;> exact hw
          · intro h1
            have h1' : cls s.closing ≠ 0 := by revert h1; unfold openFailed; split <;> exact id
            have hu' := hu h1'
            rw [hr] at hu'
            unfold openFailed; split
            · simp [reconOwner]
            · simpa [reconOwner] using hu'
        · exact h
      | backoffEnd =>
        simp only [deadline?] at hdl
        split at hdl
        · rename_i dl' o hr
          have hd := down_of_recon hi (by rw [hr]; simp)
          have hw : s.writer = none := h.j hd.1 hd.2 (by intro d; rw [hr]; simp)
          exact ok_doOpen (s := { s with recon := .idle }) .conn h.k hw (fun _ => by simp)
        · simp at hdl
      | setup a => exact h.of_same (samek_of (same_fireSetup s a) (samew_fireSetup s a) (samep_fireSetup s a).closing)
      | cwcloseTO =>
        exfalso
        simp only [deadline?] at hdl
        have hk := h.k
        split at hdl
        · rename_i t0 dl' hc; rw [hc] at hk; simp [cls] at hk
        · simp at hdl

/-- every step but the resumption of `shutdown()` keeps close() where it is (or starts it) -/
theorem ok_step_early {s : St} (hi : Inv s) (h : EarlyOK s) (e : Ev) (he : e ≠ .shutdownRun) : EarlyOK (step s e).1 := by
  have hnd : isDone s.closing = false := by
    have := h.k
    cases hc : s.closing <;> simp_all [cls, isDone]
  unfold step
  simp only [hnd, Bool.false_eq_true, ↓reduceIte]
  unfold stepLive
  cases e with
  | reopen => exact h
  | shutdownRun => exact absurd rfl he
  | versionsGo => exact h.of_same (samek_of (same_versionsGo s) (samew_versionsGo s) (samep_versionsGo s).closing)
  | connect =>
    simp only []
    split
    · exact h
    · rename_i hg
      simp only [not_or, Decidable.not_not, Bool.not_eq_true] at hg
      obtain ⟨hc, hr, hp, hl, hm, hcl⟩ := hg
      have hw : s.writer = none := h.j hc hm (by intro d; rw [hr]; simp)
      exact ok_doOpen .user h.k hw (fun h0 => by rw [hcl] at h0; simp [cls] at h0)
  | feed f => exact h.of_same (samek_feed s f)
  | readFault => simp only []; split <;> first | exact h | exact h.of_same (samek_prodFault s)
  | setDrain m => simp only []; split <;> first | exact h | exact h.of_same ⟨rfl, rfl, rfl, rfl, rfl⟩
  | setClose m => simp only []; split <;> first | exact h | exact h.of_same ⟨rfl, rfl, rfl, rfl, rfl⟩
  | enq n => exact h.of_same ⟨rfl, rfl, rfl, rfl, rfl⟩
  | park t => exact h.of_same (samek_of (same_park s t) (samew_park s t) (samep_park s t).closing)
  | close =>
    simp only [closeEv]
    split
    · exact h
    · rename_i hg
      simp only [not_or, Decidable.not_not] at hg
      obtain ⟨hcl, hu⟩ := hg
      have hcf := cancelConn_fields s
      have hbf := beginJoin_fields (cancelConn s)
      have hsb := same_beginJoin (cancelConn s)
      have hwb := (samew_closeEv s)
      have hclose : (closeEv s).1 = beginJoin (cancelConn s) := by simp [closeEv, hcl, hu]
      rw [hclose] at hwb
      refine ⟨?_, ?_, ?_⟩
      · rw [beginJoin_closing]; split <;> simp [cls]
      · intro h1 h2 h3
        rw [hwb.writer]
        rw [hwb.connected] at h1
        rw [hwb.lostMid] at h2
        rw [hsb.recon] at h3
        exact h.j h1 h2 (cancelConn_not_wclosing h3)
      · intro _
        rw [hsb.recon]
        exact cancelConn_owner_ne_user hu
  | advance dt => simp only []; split <;> first | exact h | exact h.of_same ⟨rfl, rfl, rfl, rfl, rfl⟩
  | tick k => exact ok_fire hi h k
  | prodStart => simp only []; split <;> first | exact h | exact h.of_same (samek_prodIO s)
  | lostRun =>
    simp only [lostRun]
    split
    · exact h
    · split
      · exact h.of_same ⟨rfl, rfl, rfl, rfl, rfl⟩
      · rename_i hc
        simp only [Bool.not_eq_true', Bool.not_eq_false] at hc
        have hr := hi.conn_recon hc
        split
        · exact ok_lostFinish (s := { s with lostPending := false, connected := false }) h.k hr
        · refine ⟨h.k, ?_, ?_⟩
          · intro _ h2 _; simp at h2
          · intro _; show reconOwner s.recon ≠ _; rw [hr]; simp [reconOwner]
  | lostRun2 =>
    simp only [lostRun2]
    split
    · exact h
    · rename_i hm
      simp only [Bool.not_eq_true', Bool.not_eq_false] at hm
      exact ok_lostFinish (s := { s with lostMid := false }) h.k (hi.mid_recon hm)
  | setupGo => exact h.of_same (samek_of (same_setupGo s) (samew_setupGo s) (samep_setupGo s).closing)
  | gate a => exact h.of_same (frames_gateEv s a).samek
  | release => exact h.of_same (frames_release s).samek
  | take => exact h.of_same (frames_take s).samek


/-! ### `shutdown()` resumes after `Queues.join` -/

/-- close() waits in `wait_closed()` of the transport: everything is halted, no consumer holds a frame -/
structure WaitOK (s : St) : Prop where
  k : cls s.closing = 2
  halted : Halted s
  hand : s.hand = []

/-- the invariant: one of the three, according to where close() is -/
def ZInv (s : St) : Prop := EarlyOK s ∨ WaitOK s ∨ DoneOK s

theorem doneok_of_finishClose {x : St} (t0 : Nat) (hp : x.producers = 0) (hk : x.consumers = 0) (hl : x.lostPending = false)
    (hm : x.lostMid = false) (hr : (cancelConn x).recon = .idle) (hs : ∀ d ∈ x.devices, d.setup = .done)
    (hw : x.wopen = false) (hwr : x.writer = none) (hc : x.connected = false) : DoneOK (finishClose x t0).1 := by
  have hdt := deviceTasks_after_shutdown x t0 hs
  rw [finishClose_fst] at hdt ⊢
  refine ⟨rfl, ⟨hp, hk, hl, hm, hr, hc, hw, ?_⟩, hwr, tasks_zero_of hp hk hl hm hr hdt⟩
  intro d hd
  simp only [List.mem_map] at hd
  obtain ⟨d', hd', rfl⟩ := hd
  exact hs d' hd'

theorem cancelConn_recon (x : St) :
    (cancelConn x).recon = if reconOwner x.recon = some .conn then .idle else x.recon := by
  unfold cancelConn; split <;> rename_i h <;> simp [h]

/-- the protocol's `cancel_tasks()` followed by the connection's: no reconnect routine is left (the user's is excluded) -/
theorem recon_after_cancels (r : Recon) (hu : reconOwner r ≠ some .user) :
    (if reconOwner (if reconOwner r = some .proto then Recon.idle else r) = some .conn then Recon.idle
     else (if reconOwner r = some .proto then Recon.idle else r)) = .idle := by
  cases r with
  | idle => simp [reconOwner]
  | wclosing d => simp [reconOwner]
  | attempting d o => cases o <;> simp_all [reconOwner]
  | backoff d o => cases o <;> simp_all [reconOwner]

theorem zinv_shutdownRun {s : St} (hi : Inv s) (h : EarlyOK s) : ZInv (shutdownRun s).1 := by
  unfold shutdownRun
  split
  · rename_i t0 hj
    split
    · -- join() has returned: cancel the protocol's tasks, close the transport, shut the devices, cancel the connection's tasks
      have hu : reconOwner s.recon ≠ some .user := h.u (by rw [hj]; simp [cls])
      rw [shutdownTail_fst]
      split
      · rename_i hh
        have hws : s.writer ≠ none := by
          intro hn
          have : (cancelProto s).writer = none := hn
          simp [closeHangs, this] at hh
        have hrc : (cancelProto s).recon = .idle := by
          simp only [cancelProto]
          split
          · rfl
          · rename_i hnp
            cases hrr : s.recon with
            | idle => rfl
            | wclosing d => rw [hrr] at hnp; simp [reconOwner] at hnp
            | attempting d o =>
              have hd := down_of_recon hi (by rw [hrr]; simp)
              exact absurd (h.j hd.1 hd.2 (by intro d'; rw [hrr]; simp)) hws
            | backoff d o =>
              have hd := down_of_recon hi (by rw [hrr]; simp)
              exact absurd (h.j hd.1 hd.2 (by intro d'; rw [hrr]; simp)) hws
        refine Or.inr (Or.inl ⟨rfl, ?_, rfl⟩)
        exact cancelProto_halted_after s hrc _ ⟨rfl, rfl, rfl, rfl, rfl, rfl, rfl, rfl⟩
      · refine Or.inr (Or.inr ?_)
        apply doneok_of_finishClose (x := { cancelProto s with connected := false, wopen := false, writer := none }) t0 rfl rfl rfl rfl
        · rw [cancelConn_recon]
          exact recon_after_cancels s.recon hu
        · exact cancelProto_setups s
        · rfl
        · rfl
        · rfl
    · exact Or.inl h
  · exact Or.inl h

/-! ### close() inside `wait_closed()` of the transport: nothing can start -/

theorem park_setups {s : St} (hs : ∀ d ∈ s.devices, d.setup = .done) (t : Target) : ∀ d ∈ (park s t).devices, d.setup = .done := by
  intro d hd
  cases t <;>
  · simp only [park, updDev, List.mem_map] at hd
    obtain ⟨d', hd', rfl⟩ := hd
    have := hs d' hd'
    split <;> (try split) <;> exact this

theorem no_armed {s : St} (hs : ∀ d ∈ s.devices, d.setup = .done) : s.devices.any (fun d => d.setup == .armed) = false := by
  rw [List.any_eq_false]
  intro d hd
  rw [hs d hd]; decide

theorem wait_step {s : St} (h : WaitOK s) (e : Ev) : WaitOK (step s e).1 ∨ DoneOK (step s e).1 := by
  obtain ⟨hk, hh, hhand⟩ := h
  obtain ⟨t0, dl, hc⟩ : ∃ t0 dl, s.closing = .wclosing t0 dl := by
    cases hcc : s.closing <;> simp_all [cls]
  have hnd : isDone s.closing = false := by rw [hc]; rfl
  have keep : WaitOK s := ⟨hk, hh, hhand⟩
  have hnst : NoSetupTimers s := by
    intro d hd; simp [setupDeadline, hh.setups d hd]
  unfold step
  simp only [hnd, Bool.false_eq_true, ↓reduceIte]
  unfold stepLive
  cases e with
  | reopen => exact Or.inl keep
  | connect => left; simp [hc]; exact keep
  | feed f => left; simp [feed, hh.prod]; exact keep
  | readFault => left; simp [hh.prod]; exact keep
  | setDrain m => left; simp only []; split <;> exact ⟨hk, ⟨hh.prod, hh.cons, hh.lp, hh.lm, hh.recon, hh.conn, hh.wopen, hh.setups⟩, hhand⟩
  | setClose m => left; simp only []; split <;> exact ⟨hk, ⟨hh.prod, hh.cons, hh.lp, hh.lm, hh.recon, hh.conn, hh.wopen, hh.setups⟩, hhand⟩
  | enq n => left; exact ⟨hk, ⟨hh.prod, hh.cons, hh.lp, hh.lm, hh.recon, hh.conn, hh.wopen, hh.setups⟩, hhand⟩
  | park t =>
    left
    have c := same_park s t
    have w := samew_park s t
    have p := samep_park s t
    refine ⟨by simp only []; rw [p.closing]; exact hk, ⟨?_, ?_, ?_, ?_, ?_, ?_, ?_, park_setups hh.setups t⟩, ?_⟩
    · simp only []; rw [c.producers]; exact hh.prod
    · have := c.consumers; have := hh.cons; simp only []; omega
    · simp only []; rw [c.lostPending]; exact hh.lp
    · simp only []; rw [c.lostMid]; exact hh.lm
    · simp only []; rw [c.recon]; exact hh.recon
    · simp only []; rw [c.connected]; exact hh.conn
    · simp only []; rw [w.wopen]; exact hh.wopen
    · cases t <;> exact hhand
  | close => left; simp [closeEv, hc]; exact keep
  | advance dt => left; simp only []; split <;> exact ⟨hk, ⟨hh.prod, hh.cons, hh.lp, hh.lm, hh.recon, hh.conn, hh.wopen, hh.setups⟩, hhand⟩
  | tick k =>
    simp only []
    unfold fire
    split
    · exact Or.inl keep
    · rename_i dl' hdl
      split
      · exact Or.inl keep
      · cases k with
        | readTO => simp [deadline?, hh.prod] at hdl
        | writeTO => simp [deadline?, hh.prod] at hdl
        | wcloseTO => simp [deadline?, hh.recon] at hdl
        | openTO => simp [deadline?, hh.recon] at hdl
        | backoffEnd => simp [deadline?, hh.recon] at hdl
        | setup a => rw [setup_timer_none hnst a] at hdl; simp at hdl
        | cwcloseTO =>
          right
          simp only []
          split
          · apply doneok_of_finishClose
            · exact hh.prod
            · exact hh.cons
            · exact hh.lp
            · exact hh.lm
            · unfold cancelConn; split <;> first | rfl | exact hh.recon
            · exact hh.setups
            · exact hh.wopen
            · rfl
            · exact hh.conn
          · rename_i hne
            exact absurd hc (hne _ _)
  | prodStart => left; simp [hh.prod]; exact keep
  | lostRun => left; simp [lostRun, hh.lp]; exact keep
  | lostRun2 => left; simp [lostRun2, hh.lm]; exact keep
  | shutdownRun => left; simp [shutdownRun, hc]; exact keep
  | setupGo => left; simp [setupGo, no_armed hh.setups]; exact keep
  | versionsGo =>
    left
    simp only [versionsGo]
    split
    · refine ⟨hk, ⟨hh.prod, hh.cons, hh.lp, hh.lm, hh.recon, hh.conn, hh.wopen, ?_⟩, hhand⟩
      intro d hd
      simp only [List.mem_map] at hd
      obtain ⟨d', hd', rfl⟩ := hd
      exact hh.setups d' hd'
    · exact keep
  | gate a =>
    left
    simp only [gateEv]
    split
    · exact keep
    · exact ⟨hk, ⟨hh.prod, hh.cons, hh.lp, hh.lm, hh.recon, hh.conn, hh.wopen, hh.setups⟩, hhand⟩
  | release =>
    left
    simp only [release, hhand, finishAll]
    exact ⟨hk, ⟨hh.prod, hh.cons, hh.lp, hh.lm, hh.recon, hh.conn, hh.wopen, hh.setups⟩, rfl⟩
  | take =>
    left
    simp only [take]
    split
    · exact keep
    · simp [idle, hh.cons]; exact keep

/-! ### close() has returned -/

theorem done_step {s : St} (h : DoneOK s) (e : Ev) : DoneOK (step s e).1 ∨ EarlyOK (step s e).1 := by
  have hd : isDone s.closing = true := by
    have := h.k
    cases hc : s.closing <;> simp_all [cls, isDone]
  unfold step
  simp only [hd, ↓reduceIte]
  unfold stepDone
  split
  · exact Or.inl ⟨h.k, ⟨h.halted.prod, h.halted.cons, h.halted.lp, h.halted.lm, h.halted.recon, h.halted.conn, h.halted.wopen,
      h.halted.setups⟩, h.writer, h.tasks⟩
  · unfold reopenEv
    split
    · exact Or.inl h
    · right
      exact ⟨by simp [cls], fun _ _ _ => h.writer, fun h0 => by simp [cls] at h0⟩
  · exact Or.inl h

theorem zinv_step {s : St} (hi : Inv s) (h : ZInv s) (e : Ev) : ZInv (step s e).1 := by
  rcases h with h | h | h
  · by_cases he : e = .shutdownRun
    · subst he
      have hnd : isDone s.closing = false := by
        have := h.k
        cases hc : s.closing <;> simp_all [cls, isDone]
      have : step s .shutdownRun = shutdownRun s := by simp [step, stepLive, hnd]
      rw [this]; exact zinv_shutdownRun hi h
    · exact Or.inl (ok_step_early hi h e he)
  · rcases wait_step h e with h' | h'
    · exact Or.inr (Or.inl h')
    · exact Or.inr (Or.inr h')
  · rcases done_step h e with h' | h'
    · exact Or.inr (Or.inr h')
    · exact Or.inl h'

theorem zinv_init (cfg : Nat) (rc : Bool) (sc : List OpenRes) : ZInv (init cfg rc sc) :=
  Or.inl ⟨by simp [init, cls], fun _ _ _ => rfl, fun h0 => by simp [init, cls] at h0⟩

theorem zinv_run {s : St} (hi : Inv s) (h : ZInv s) (es : List Ev) : ZInv (run s es).1 := by
  induction es generalizing s with
  | nil => exact h
  | cons e es ih => exact ih (inv_step hi e) (zinv_step hi h e)

theorem Reachable.zinv {s : St} (h : Reachable s) : ZInv s := by
  obtain ⟨cfg, rc, sc, es, rfl⟩ := h
  exact zinv_run (inv_init cfg rc sc) (zinv_init cfg rc sc) es

theorem Reachable.doneok {s : St} (h : Reachable s) (hd : isDone s.closing = true) : DoneOK s := by
  rcases h.zinv with h' | h' | h'
  · have := h'.k; cases hc : s.closing <;> simp_all [cls, isDone]
  · have := h'.k; cases hc : s.closing <;> simp_all [cls, isDone]
  · exact h'

/-! ### a pending open that completes (ok / raises) at any moment -/

theorem inv_openDone {s : St} (h : Inv s) (r : OpenRes) : Inv (openDone s r).1 := by
  unfold openDone
  split
  · exact h
  · split
    · rename_i dl o dm cm hr
      have hd := down_of_recon h (by rw [hr]; simp)
      exact inv_establish (s := { s with recon := .idle }) ⟨hd.1, h.disc_prod hd.1, h.disc_lp hd.1, hd.2, h.cons_le⟩ _ _
    · rename_i dl o hr
      have hd := down_of_recon h (by rw [hr]; simp)
      exact inv_openFailed (s := { s with recon := .idle }) ⟨hd.1, h.disc_prod hd.1, h.disc_lp hd.1, hd.2, h.cons_le⟩ _
    · exact h

theorem zinv_openDone {s : St} (hi : Inv s) (h : ZInv s) (r : OpenRes) : ZInv (openDone s r).1 := by
  rcases h with h | h | h
  · unfold openDone
    split
    · exact Or.inl h
    · split
      · -- the attempt succeeds: `connection_established` (while close() waits in the join, or before close())
        refine Or.inl ⟨h.k, ?_, ?_⟩
        · intro h1; simp [establish] at h1
        · intro _; simp [establish, reconOwner]
      · rename_i dl o hr
        have hd := down_of_recon hi (by rw [hr]; simp)
        have hw : s.writer = none := h.j hd.1 hd.2 (by intro d; rw [hr]; simp)
        have hu := h.u
        refine Or.inl ⟨?_, ?_, ?_⟩
        · unfold openFailed; split <;> exact h.k
        · intro _ _ _; unfold openFailed; split <;> exact hw
        · intro h1
          have h1' : cls s.closing ≠ 0 := by revert h1; unfold openFailed; split <;> exact id
          have hu' := hu h1'
          rw [hr] at hu'
          unfold openFailed; split
          · simp [reconOwner]
          · simpa [reconOwner] using hu'
      · exact Or.inl h
  · -- close() is inside `wait_closed()`: no attempt is in flight
    have : (openDone s r).1 = s := by
      unfold openDone
      split
      · rfl
      · simp [h.halted.recon]
    rw [this]; exact Or.inr (Or.inl h)
  · have hd : isDone s.closing = true := by
      have := h.k
      cases hc : s.closing <;> simp_all [cls, isDone]
    have : (openDone s r).1 = s := by simp [openDone, hd]
    rw [this]; exact Or.inr (Or.inr h)

/-- reachability with the completion of a pending open as an additional move -/
def Reach1 (s : St) : Prop := ∃ cfg rc sc ms, s = run1 (init cfg rc sc) ms

theorem zinv_run1 {s : St} (hi : Inv s) (h : ZInv s) (ms : List (Ev ⊕ OpenRes)) : Inv (run1 s ms) ∧ ZInv (run1 s ms) := by
  induction ms generalizing s with
  | nil => exact ⟨hi, h⟩
  | cons m ms ih =>
    cases m with
    | inl e => exact ih (inv_step hi e) (zinv_step hi h e)
    | inr r => exact ih (inv_openDone hi r) (zinv_openDone hi h r)

theorem Reach1.doneok {s : St} (h : Reach1 s) (hd : isDone s.closing = true) : DoneOK s := by
  obtain ⟨cfg, rc, sc, ms, rfl⟩ := h
  rcases (zinv_run1 (inv_init cfg rc sc) (zinv_init cfg rc sc) ms).2 with h' | h' | h'
  · have := h'.k; cases hc : (run1 (init cfg rc sc) ms).closing <;> simp_all [cls, isDone]
  · have := h'.k; cases hc : (run1 (init cfg rc sc) ms).closing <;> simp_all [cls, isDone]
  · exact h'

theorem run1_inl (s : St) (es : List Ev) : run1 s (es.map Sum.inl) = (run s es).1 := by
  induction es generalizing s with
  | nil => rfl
  | cons e es ih => simp only [List.map_cons, run1, run]; exact ih _

theorem Reachable.reach1 {s : St} (h : Reachable s) : Reach1 s := by
  obtain ⟨cfg, rc, sc, es, rfl⟩ := h
  exact ⟨cfg, rc, sc, es.map Sum.inl, (run1_inl _ es).symm⟩

end PlumVerif.Conn

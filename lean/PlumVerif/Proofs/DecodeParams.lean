import PlumVerif.Model.DecodeParams
/- helper lemmas for the parameter-block round trips (core Lean only) -/
namespace PlumVerif.P2

theorem length_encodeLE (n k : Nat) : (encodeLE n k).length = k := by
  induction k generalizing n with
  | zero => rfl
  | succ k ih => simp [encodeLE, ih]

theorem decodeLE_encodeLE (n k : Nat) (h : n < 256 ^ k) : decodeLE (encodeLE n k) = n := by
  induction k generalizing n with
  | zero => simp [encodeLE, decodeLE]; simp at h; omega
  | succ k ih =>
    simp only [encodeLE, decodeLE]
    have h1 : n / 256 < 256 ^ k := by
      rw [Nat.div_lt_iff_lt_mul (by decide)]; rw [Nat.pow_succ] at h; exact h
    rw [ih _ h1]
    have : (n % 256).toUInt8.toNat = n % 256 := by
      simp [Nat.toUInt8, UInt8.toNat_ofNat']
    rw [this]; omega

theorem take_left {α} (a b : List α) (n : Nat) (h : a.length = n) : (a ++ b).take n = a := by
  subst h; simp

theorem drop_left {α} (a b : List α) (n : Nat) (h : a.length = n) : (a ++ b).drop n = b := by
  subst h; simp

theorem length_encSlot (sz : Nat) (s : Slot) : (encSlot sz s).length = 3 * sz := by
  cases s with
  | none => simp [encSlot]
  | some t => obtain ⟨v, mn, mx⟩ := t; simp [encSlot, length_encodeLE]; omega

theorem drop_encSlot (sz : Nat) (s : Slot) (rest : List Byte) :
    (encSlot sz s ++ rest).drop (3 * sz) = rest := drop_left _ _ _ (length_encSlot sz s)

/-- a well-formed slot is read back as it was written, whatever follows -/
theorem unpackParam_encSlot (sz : Nat) (s : Slot) (rest : List Byte) (h : wfSlot sz s = true) :
    unpackParam sz (encSlot sz s ++ rest) = s := by
  unfold unpackParam
  rw [take_left _ _ _ (length_encSlot sz s)]
  cases s with
  | none => simp [encSlot]
  | some t =>
    obtain ⟨v, mn, mx⟩ := t
    simp only [wfSlot, Bool.and_eq_true, decide_eq_true_eq] at h
    obtain ⟨⟨⟨hv, hmn⟩, hmx⟩, hany⟩ := h
    have hall : (encSlot sz (some (v, mn, mx))).all (· == undef) = false := by
      rw [List.any_eq_true] at hany
      obtain ⟨x, hx, hne⟩ := hany
      rw [List.all_eq_false]
      exact ⟨x, hx, by simpa using hne⟩
    rw [hall]
    simp only [Bool.false_eq_true, ↓reduceIte, encSlot, List.append_assoc]
    rw [take_left _ _ _ (length_encodeLE v sz), drop_left _ _ _ (length_encodeLE v sz),
      take_left _ _ _ (length_encodeLE mn sz)]
    have h2 : (encodeLE v sz ++ (encodeLE mn sz ++ (encodeLE mx sz ++ rest))).drop (2 * sz)
        = encodeLE mx sz ++ rest := by
      rw [← List.append_assoc]
      exact drop_left _ _ _ (by simp [length_encodeLE]; omega)
    rw [h2, take_left _ _ _ (length_encodeLE mx sz),
      decodeLE_encodeLE _ _ hv, decodeLE_encodeLE _ _ hmn, decodeLE_encodeLE _ _ hmx]

theorem decodeRun_encRun (sizeOf : Nat → Option Nat) (slots : List Slot) (idx : Nat)
    (rest : List Byte) (h : wfRun sizeOf idx slots = true) :
    decodeRun sizeOf slots.length idx (encRun sizeOf idx slots ++ rest)
      = .ok (valRun idx slots, rest) := by
  induction slots generalizing idx with
  | nil => simp [decodeRun, encRun, valRun]
  | cons s ss ih =>
    simp only [wfRun, Bool.and_eq_true] at h
    obtain ⟨hs, hss⟩ := h
    simp only [List.length_cons, decodeRun, encRun]
    cases hsz : sizeOf idx with
    | none => simp [hsz] at hs
    | some sz =>
      simp only [hsz] at hs
      simp only [Option.getD_some, List.append_assoc]
      rw [drop_encSlot, ih (idx + 1) hss, unpackParam_encSlot sz s _ hs]
      cases s <;> simp [valRun]

theorem decodeBlocks_enc (sizeOf : Nat → Option Nat) (start n : Nat) (blocks : List (List Slot))
    (t : Nat) (rest : List Byte)
    (h : ∀ b ∈ blocks, b.length = n ∧ wfRun sizeOf start b = true) :
    decodeBlocks sizeOf start n blocks.length t (blocks.flatMap (encRun sizeOf start) ++ rest)
      = .ok (valBlocks start t blocks, rest) := by
  induction blocks generalizing t with
  | nil => simp [decodeBlocks, valBlocks]
  | cons b bs ih =>
    obtain ⟨hl, hw⟩ := h b (by simp)
    have hbs : ∀ b' ∈ bs, b'.length = n ∧ wfRun sizeOf start b' = true :=
      fun b' hb' => h b' (by simp [hb'])
    simp only [List.length_cons, decodeBlocks, List.flatMap_cons, List.append_assoc]
    have := decodeRun_encRun sizeOf b start (bs.flatMap (encRun sizeOf start) ++ rest) hw
    rw [hl] at this
    rw [this]
    simp only [ih (t + 1) hbs, valBlocks]

end PlumVerif.P2

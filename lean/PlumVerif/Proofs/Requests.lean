import PlumVerif.Model.Requests
/- helper lemmas about the request payload builders (core Lean only) -/
namespace PlumVerif.Req

theorem joinBits_snoc (c : List Bool) (b : Bool) : joinBits (c ++ [b]) = 2 * joinBits c + b.toNat := by
  simp [joinBits, List.foldl_append]

/-- bit `k` of the joined number is the `k`-th bit counted from the END of the list (MSB first) -/
theorem joinBits_reverse_testBit (l : List Bool) (k : Nat) :
    (joinBits l.reverse).testBit k = l.getD k false := by
  induction l generalizing k with
  | nil => simp [joinBits]
  | cons b t ih =>
    rw [List.reverse_cons, joinBits_snoc]
    cases k with
    | zero =>
      rw [Nat.testBit_zero]
      cases b <;> simp <;> omega
    | succ k =>
      rw [Nat.testBit_succ]
      have : (2 * joinBits t.reverse + b.toNat) / 2 = joinBits t.reverse := by
        cases b <;> simp <;> omega
      rw [this, ih]; simp

theorem joinBits_testBit (c : List Bool) (k : Nat) :
    (joinBits c).testBit k = c.reverse.getD k false := by
  have := joinBits_reverse_testBit c.reverse k
  rwa [List.reverse_reverse] at this

/-- a byte joined from eight slots: slot `i` is bit `7 - i` (MSB first) -/
theorem joinByte_testBit (c : List Bool) (hc : c.length = 8) (i : Nat) (hi : i < 8) :
    ((joinBits c).toUInt8.toNat).testBit (7 - i) = c[i] := by
  have h8 : (joinBits c).toUInt8.toNat = joinBits c % 2 ^ 8 := by
    simp [Nat.toUInt8, UInt8.toNat_ofNat']
  rw [h8, Nat.testBit_mod_two_pow, joinBits_testBit]
  have : decide (7 - i < 8) = true := by simp; omega
  rw [this, Bool.true_and, List.getD_eq_getElem?_getD,
    List.getElem?_eq_getElem (by simp [hc]; omega), Option.getD_some, List.getElem_reverse]
  congr 1
  omega

theorem dayBytes_length (day : List Bool) : (dayBytes day).length = (day.length + 7) / 8 := by
  simp [dayBytes]

theorem dayBytes_getD (day : List Bool) (j : Nat) (hj : j < (day.length + 7) / 8) :
    (dayBytes day).getD j 0 = (joinBits ((day.drop (8 * j)).take 8)).toUInt8 := by
  simp [dayBytes, List.getD_eq_getElem?_getD, hj]

/-- indexing into a `flatMap` whose pieces all have the same length `n` -/
theorem flatMap_getD_uniform {α β : Type} (f : α → List β) (n : Nat) (dflt : β) :
    ∀ (l : List α) (_ : ∀ x ∈ l, (f x).length = n) (d j : Nat) (hd : d < l.length) (_ : j < n),
      (l.flatMap f).getD (n * d + j) dflt = (f l[d]).getD j dflt := by
  intro l
  induction l with
  | nil => intro _ d j hd; simp at hd
  | cons a t ih =>
    intro hl d j hd hj
    have ha : (f a).length = n := hl a (by simp)
    cases d with
    | zero =>
      simp only [List.flatMap_cons, Nat.mul_zero, Nat.zero_add, List.getElem_cons_zero]
      simp only [List.getD_eq_getElem?_getD]
      rw [List.getElem?_append_left (by omega)]
    | succ d =>
      simp only [List.flatMap_cons, List.getElem_cons_succ]
      have := ih (fun x hx => hl x (by simp [hx])) d j (by simpa using hd) hj
      rw [← this]
      simp only [List.getD_eq_getElem?_getD]
      rw [List.getElem?_append_right (by rw [ha, Nat.mul_succ]; omega)]
      congr 2
      rw [ha, Nat.mul_succ]; omega

theorem flatMap_length_uniform {α β : Type} (f : α → List β) (n : Nat) :
    ∀ (l : List α) (_ : ∀ x ∈ l, (f x).length = n), (l.flatMap f).length = n * l.length := by
  intro l
  induction l with
  | nil => simp
  | cons a t ih =>
    intro hl
    simp only [List.flatMap_cons, List.length_append, List.length_cons]
    rw [ih (fun x hx => hl x (by simp [hx])), hl a (by simp), Nat.mul_succ]; omega

/-- a week of 48-slot days -/
def Week (s : List (List Bool)) : Prop := s.length = 7 ∧ ∀ day ∈ s, day.length = 48

theorem bitmap_length {s : List (List Bool)} (hs : Week s) : (bitmap s).length = 42 := by
  unfold bitmap
  rw [flatMap_length_uniform dayBytes 6 s (fun x hx => by rw [dayBytes_length, hs.2 x hx]), hs.1]

theorem bitmap_getD {s : List (List Bool)} (hs : Week s) (d j : Nat) (hd : d < 7) (hj : j < 6) :
    (bitmap s).getD (6 * d + j) 0
      = (joinBits (((s[d]'(by rw [hs.1]; exact hd)).drop (8 * j)).take 8)).toUInt8 := by
  unfold bitmap
  rw [flatMap_getD_uniform dayBytes 6 0 s (fun x hx => by rw [dayBytes_length, hs.2 x hx]) d j
    (by rw [hs.1]; exact hd) hj]
  rw [dayBytes_getD _ _ (by rw [hs.2 _ (List.getElem_mem _)]; omega)]

/-- byte `6·d + j` of the bitmap holds slots `8j .. 8j+7` of day `d`, MSB first -/
theorem bitmap_bit {s : List (List Bool)} (hs : Week s) (d j i : Nat) (hd : d < 7) (hj : j < 6) (hi : i < 8) :
    ((bitmap s).getD (6 * d + j) 0).toNat.testBit (7 - i)
      = ((s[d]'(by rw [hs.1]; exact hd))[8 * j + i]'(by
          rw [hs.2 _ (List.getElem_mem _)]; omega)) := by
  rw [bitmap_getD hs d j hd hj]
  have hlen : (s[d]'(by rw [hs.1]; exact hd)).length = 48 := hs.2 _ (List.getElem_mem _)
  rw [joinByte_testBit _ (by simp [hlen]; omega) i hi]
  simp [List.getElem_take, List.getElem_drop]

theorem unpackBitmap_bitmap {s : List (List Bool)} (hs : Week s) : unpackBitmap (bitmap s) = s := by
  apply List.ext_getElem
  · simp [unpackBitmap, hs.1]
  · intro d h1 h2
    have hd : d < 7 := by simpa [unpackBitmap] using h1
    apply List.ext_getElem
    · simp [unpackBitmap, hs.2 _ (List.getElem_mem h2)]
    · intro i hi1 hi2
      have hi : i < 48 := by simpa [unpackBitmap] using hi1
      simp only [unpackBitmap, List.getElem_map, List.getElem_range]
      rw [bitmap_bit hs d (i / 8) (i % 8) hd (by omega) (by omega)]
      congr 1
      omega

/-! ### bytes of Python ints -/

theorem byteOf_eq_some {v : Int} {b : Byte} (h : byteOf v = some b) : 0 ≤ v ∧ v < 256 ∧ (b.toNat : Int) = v := by
  unfold byteOf at h
  split at h
  · rename_i hv
    cases h
    refine ⟨hv.1, hv.2, ?_⟩
    have : v.toNat < 256 := by omega
    simp [Nat.toUInt8, UInt8.toNat_ofNat']
    omega
  · cases h

theorem byteOf_of_range {v : Int} (h0 : 0 ≤ v) (h1 : v < 256) : byteOf v = some v.toNat.toUInt8 := by
  simp [byteOf, h0, h1]

theorem bytesOf1 {a : Int} {bs : List Byte} (h : bytesOf [a] = some bs) :
    ∃ x : Byte, bs = [x] ∧ (x.toNat : Int) = a := by
  unfold bytesOf at h
  split at h
  · rename_i b r hb hr
    simp only [bytesOf, Option.some.injEq] at hr
    cases h; subst hr
    exact ⟨b, rfl, (byteOf_eq_some hb).2.2⟩
  · cases h

theorem bytesOf2 {a b : Int} {bs : List Byte} (h : bytesOf [a, b] = some bs) :
    ∃ x y : Byte, bs = [x, y] ∧ (x.toNat : Int) = a ∧ (y.toNat : Int) = b := by
  unfold bytesOf at h
  split at h
  · rename_i x r hx hr
    obtain ⟨y, hy, hyb⟩ := bytesOf1 hr
    cases h; subst hy
    exact ⟨x, y, rfl, (byteOf_eq_some hx).2.2, hyb⟩
  · cases h

theorem bytesOf3 {a b c : Int} {bs : List Byte} (h : bytesOf [a, b, c] = some bs) :
    ∃ x y z : Byte, bs = [x, y, z] ∧ (x.toNat : Int) = a ∧ (y.toNat : Int) = b ∧ (z.toNat : Int) = c := by
  unfold bytesOf at h
  split at h
  · rename_i x r hx hr
    obtain ⟨y, z, hyz, hy, hz⟩ := bytesOf2 hr
    cases h; subst hyz
    exact ⟨x, y, z, rfl, (byteOf_eq_some hx).2.2, hy, hz⟩
  · cases h

theorem bytesOf_isSome (l : List Int) (h : ∀ v ∈ l, 0 ≤ v ∧ v < 256) : ∃ bs, bytesOf l = some bs := by
  induction l with
  | nil => exact ⟨[], rfl⟩
  | cons v r ih =>
    obtain ⟨bs, hbs⟩ := ih (fun x hx => h x (by simp [hx]))
    have hv := h v (by simp)
    exact ⟨v.toNat.toUInt8 :: bs, by simp [bytesOf, byteOf_of_range hv.1 hv.2, hbs]⟩

theorem oneByte_ok {v : Int} {b : Byte} (h : oneByte v = .ok b) : 0 ≤ v ∧ v < 256 ∧ (b.toNat : Int) = v := by
  unfold oneByte at h
  split at h
  · rename_i hv
    cases h
    refine ⟨hv.1, hv.2, ?_⟩
    have : v.toNat < 256 := by omega
    simp [Nat.toUInt8, UInt8.toNat_ofNat']
    omega
  · cases h

theorem encodeLE_length (n k : Nat) : (encodeLE n k).length = k := by
  induction k generalizing n with
  | zero => rfl
  | succ k ih => simp [encodeLE, ih]

theorem decode_encodeLE (k n : Nat) (h : n < 256 ^ k) : decodeLE (encodeLE n k) = n := by
  induction k generalizing n with
  | zero => simp [encodeLE, decodeLE] at *; omega
  | succ k ih =>
    simp only [encodeLE, decodeLE]
    have h1 : (n % 256).toUInt8.toNat = n % 256 := by
      simp [Nat.toUInt8, UInt8.toNat_ofNat']
    rw [h1, ih (n / 256) (by rw [Nat.pow_succ] at h; omega)]
    omega

end PlumVerif.Req

import PlumVerif.Proofs.Conn
import PlumVerif.Proofs.ConnFrames
/-
Helper lemmas for C12 (close() terminates and leaves nothing running).
-/
set_option linter.unusedSimpArgs false

namespace PlumVerif.Conn

/-- no device is in a request round of its set-up (no set-up timer is pending) -/
def NoSetupTimers (s : St) : Prop := ∀ d ∈ s.devices, setupDeadline d = none

theorem setup_timer_none {s : St} (h : NoSetupTimers s) (a : Nat) : deadline? s (.setup a) = none := by
  simp only [deadline?]
  split
  · rename_i d hd
    exact h d (List.mem_of_find?_eq_some hd)
  · rfl

/-- `advance` goes through when no pending timer would be skipped -/
theorem advance_ok (s : St) (g : Nat) (hnd : isDone s.closing = false)
    (h : ∀ k d, deadline? s k = some d → s.now + g ≤ d) :
    step s (.advance g) = ({ s with now := s.now + g }, []) := by
  have hall : (deadlines s).all (fun d => s.now + g ≤ d) = true := by
    rw [List.all_eq_true]
    intro d hd
    unfold deadlines at hd
    rw [List.mem_filterMap] at hd
    obtain ⟨k, _, hk⟩ := hd
    simpa using h k d hk
  simp [step, stepDone, stepLive, hnd, hall]

/-- every task the library created -/
theorem tasks_zero_of {s : St} (hp : s.producers = 0) (hk : s.consumers = 0) (hl : s.lostPending = false)
    (hm : s.lostMid = false) (hr : s.recon = .idle) (hd : deviceTasks s = 0) : tasks s = 0 := by
  simp [tasks, lostTasks, connTasks, hp, hk, hl, hm, hr, reconOwner, reconProtoTasks, hd]

theorem sum_map_zero {α : Type} (l : List α) (f : α → Nat) (h : ∀ x ∈ l, f x = 0) : (l.map f).sum = 0 := by
  induction l with
  | nil => rfl
  | cons x xs ih =>
    simp only [List.map_cons, List.sum_cons]
    rw [h x (List.mem_cons_self ..), ih (fun y hy => h y (List.mem_cons_of_mem _ hy))]

theorem subTasks_shutDev (d : Dev) : subTasks (shutDev d) = 0 := by
  simp only [subTasks, shutDev, List.map_map]
  rw [sum_map_zero, sum_map_zero] <;> intro x _ <;> rfl

/-- after `Device.shutdown` / `EcoMAX.shutdown` of every device whose set-up task is gone,
no device or sub-device task is left -/
theorem deviceTasks_after_shutdown (s : St) (t0 : Nat) (hs : ∀ d ∈ s.devices, d.setup = .done) :
    deviceTasks (finishClose s t0).1 = 0 := by
  simp only [deviceTasks, setupTasks, reqTasks, devOwnTasks, subOwnTasks, finishClose, List.map_map]
  rw [sum_map_zero, sum_map_zero, sum_map_zero, sum_map_zero]
  · intro d _; exact subTasks_shutDev d
  · intro d _; rfl
  · intro d hd
    have : (shutDev d).setup = .done := hs d hd
    simp [Function.comp, reqAlive, this]
  · intro d hd
    have : (shutDev d).setup = .done := hs d hd
    simp [Function.comp, setupAlive, this]


/-- close() has returned `within` ms after it was called at `t0`, nothing is left running and
the transport is closed -/
def Closed (s : St) (t0 within : Nat) : Prop :=
  ∃ t1, s.closing = .done t0 t1 ∧ t1 ≤ t0 + within ∧ tasks s = 0 ∧ s.wopen = false ∧ s.writer = none ∧
    s.connected = false

theorem cancelProto_setups (s : St) : ∀ d ∈ (cancelProto s).devices, d.setup = .done := by
  intro d hd
  simp only [cancelProto, List.mem_map] at hd
  obtain ⟨d', _, rfl⟩ := hd
  rfl

theorem closed_of_finishClose {s : St} (t0 w : Nat) (hp : s.producers = 0) (hk : s.consumers = 0)
    (hl : s.lostPending = false) (hm : s.lostMid = false) (hr : s.recon = .idle)
    (hs : ∀ d ∈ s.devices, d.setup = .done) (hw : s.wopen = false) (hwr : s.writer = none)
    (hc : s.connected = false) (ht : s.now ≤ t0 + w) : Closed (finishClose s t0).1 t0 w := by
  have hrc : (cancelConn s).recon = .idle := by unfold cancelConn; split <;> first | rfl | exact hr
  have hdt := deviceTasks_after_shutdown s t0 hs
  rw [finishClose_fst] at hdt ⊢
  refine ⟨s.now, rfl, ht, ?_, hw, hwr, hc⟩
  exact tasks_zero_of hp hk hl hm hrc hdt

theorem closeWriter_fst (s : St) : (closeWriter s).1 = { s with wopen := false } := by
  unfold closeWriter; split <;> rfl

theorem shutdownTail_fst (c : St) (t0 : Nat) :
    (shutdownTail c t0).1 =
      if closeHangs c then { c with connected := false, wopen := false, closing := .wclosing t0 (c.now + writerTO) }
      else (finishClose { c with connected := false, wopen := false, writer := none } t0).1 := by
  unfold shutdownTail
  simp only [closeWriter_fst]
  split <;> rfl

/-- everything of the protocol and the connection is stopped -/
structure Halted (s : St) : Prop where
  prod : s.producers = 0
  cons : s.consumers = 0
  lp : s.lostPending = false
  lm : s.lostMid = false
  recon : s.recon = .idle
  conn : s.connected = false
  wopen : s.wopen = false
  setups : ∀ d ∈ s.devices, d.setup = .done

theorem closed_of_halted {s : St} (h : Halted s) (t0 w : Nat) (ht : s.now ≤ t0 + w) :
    Closed (finishClose { s with writer := none } t0).1 t0 w :=
  closed_of_finishClose (s := { s with writer := none }) t0 w h.prod h.cons h.lp h.lm h.recon h.setups h.wopen rfl h.conn ht

theorem Closed.advance {s : St} {t0 w : Nat} (h : Closed s t0 w) (g : Nat) : Closed (step s (.advance g)).1 t0 w := by
  obtain ⟨t1, h1, h2, h3, h4, h5, h6⟩ := h
  have hd : isDone s.closing = true := by rw [h1]; rfl
  have e : (step s (.advance g)).1 = { s with now := s.now + g } := by simp [step, stepDone, stepLive, hd]
  rw [e]; exact ⟨t1, h1, h2, h3, h4, h5, h6⟩

theorem Closed.other {s : St} {t0 w : Nat} (h : Closed s t0 w) (e : Ev) (he : ∀ g, e ≠ .advance g) (hre : e ≠ .reopen) :
    (step s e).1 = s := by
  obtain ⟨t1, h1, _⟩ := h
  have hd : isDone s.closing = true := by rw [h1]; rfl
  cases e <;> first | (simp [step, stepDone, stepLive, hd]; done) | exact absurd rfl (he _) | exact absurd rfl hre

/-- a halted state whose `wait_closed()` is hanging: WRITER_TIMEOUT ends it -/
theorem halted_wclosing_completes {s : St} (h : Halted s) (t0 dl w : Nat) (hc : s.closing = .wclosing t0 dl)
    (hle : s.now ≤ dl) (hb : dl ≤ t0 + w) :
    Closed (run s [.advance (dl - s.now), .tick .cwcloseTO]).1 t0 w := by
  have hnd : isDone s.closing = false := by rw [hc]; rfl
  have hnst : NoSetupTimers s := by
    intro d hd; simp [setupDeadline, h.setups d hd]
  have e3 : step s (.advance (dl - s.now)) = ({ s with now := s.now + (dl - s.now) }, []) := by
    apply advance_ok s _ hnd
    intro k d hk
    cases k with
    | readTO => simp [deadline?, h.prod] at hk
    | writeTO => simp [deadline?, h.prod] at hk
    | wcloseTO => simp [deadline?, h.recon] at hk
    | openTO => simp [deadline?, h.recon] at hk
    | backoffEnd => simp [deadline?, h.recon] at hk
    | setup a => rw [setup_timer_none hnst a] at hk; simp at hk
    | cwcloseTO =>
      simp only [deadline?, hc] at hk
      have : dl = d := by simpa using hk
      omega
  have hnow : s.now + (dl - s.now) = dl := by omega
  let w2 : St := { s with now := s.now + (dl - s.now) }
  have hh2 : Halted w2 := ⟨h.prod, h.cons, h.lp, h.lm, h.recon, h.conn, h.wopen, h.setups⟩
  have e4 : (step w2 (.tick .cwcloseTO)).1 = (finishClose { w2 with writer := none } t0).1 := by
    have hc2 : w2.closing = .wclosing t0 dl := hc
    have hn2 : w2.now = dl := hnow
    have : ¬ (w2.now < dl) := by omega
    simp [step, stepDone, stepLive, fire, deadline?, hc2, isDone, this]
  have hrun : (run s [.advance (dl - s.now), .tick .cwcloseTO]).1 = (finishClose { w2 with writer := none } t0).1 := by
    simp only [run, e3]; exact e4
  rw [hrun]
  apply closed_of_halted hh2
  show s.now + (dl - s.now) ≤ t0 + w
  omega

theorem cancelProto_halted_after (s : St) (hrc : (cancelProto s).recon = .idle) (x : St)
    (hx : x.producers = 0 ∧ x.consumers = 0 ∧ x.lostPending = false ∧ x.lostMid = false ∧ x.recon = (cancelProto s).recon ∧
          x.connected = false ∧ x.wopen = false ∧ x.devices = (cancelProto s).devices) : Halted x := by
  obtain ⟨h1, h2, h3, h4, h5, h6, h7, h8⟩ := hx
  exact ⟨h1, h2, h3, h4, h5.trans hrc, h6, h7, by rw [h8]; exact cancelProto_setups s⟩

/-- the tail of `shutdown()` (after `Queues.join` returned) under the modelled scheduler:
cancel, close the writer (waiting at most WRITER_TIMEOUT for `wait_closed`), shut the devices -/
theorem shutdown_completes (s : St) (t0 : Nat) (hj : s.closing = .joined t0) (hrj : s.rj = true)
    (hr : reconOwner s.recon = none ∨ reconOwner s.recon = some .proto) :
    Closed (run s [.shutdownRun, .advance writerTO, .tick .cwcloseTO]).1 t0 (s.now - t0 + writerTO) := by
  have hnd : isDone s.closing = false := by rw [hj]; rfl
  have hrc : (cancelProto s).recon = .idle := by
    simp only [cancelProto]
    rcases hr with h | h
    · cases hrr : s.recon <;> simp_all [reconOwner]
    · simp [h]
  have e1 : (step s .shutdownRun).1 = (shutdownTail (cancelProto s) t0).1 := by
    have : step s .shutdownRun = shutdownRun s := by simp [step, stepDone, stepLive, hnd]
    rw [this]; simp only [shutdownRun, hj, hrj, ↓reduceIte]
  have hsplit : run s [.shutdownRun, .advance writerTO, .tick .cwcloseTO]
      = run (step s .shutdownRun).1 [.advance writerTO, .tick .cwcloseTO] ∨ True := Or.inr trivial
  have hrun1 : (run s [.shutdownRun, .advance writerTO, .tick .cwcloseTO]).1
      = (run (shutdownTail (cancelProto s) t0).1 [.advance writerTO, .tick .cwcloseTO]).1 := by
    simp only [run, e1]
  rw [hrun1, shutdownTail_fst]
  split
  · -- wait_closed hangs
    let w : St := { cancelProto s with connected := false, wopen := false, closing := .wclosing t0 ((cancelProto s).now + writerTO) }
    have hw : Halted w := cancelProto_halted_after s hrc w ⟨rfl, rfl, rfl, rfl, rfl, rfl, rfl, rfl⟩
    have := halted_wclosing_completes hw t0 (s.now + writerTO) (s.now - t0 + writerTO) rfl
      (by show s.now ≤ s.now + writerTO; omega) (by omega)
    have hsub : s.now + writerTO - w.now = writerTO := by show s.now + writerTO - s.now = writerTO; omega
    rw [hsub] at this
    exact this
  · -- wait_closed returns or raises: done at once
    let x : St := { cancelProto s with connected := false, wopen := false }
    have hx : Halted x := cancelProto_halted_after s hrc x ⟨rfl, rfl, rfl, rfl, rfl, rfl, rfl, rfl⟩
    have hcl : Closed (finishClose { x with writer := none } t0).1 t0 (s.now - t0 + writerTO) :=
      closed_of_halted hx t0 _ (by show s.now ≤ _; omega)
    have h2 := hcl.advance writerTO
    have h3 := h2.other (.tick .cwcloseTO) (by intro g; simp) (by simp)
    simp only [run]
    rw [h3]; exact h2


/-! ### draining the write queue while close() waits in `Queues.join` -/

/-- close() was called at `t0` and waits; the producer is reading (deadline `dl`), the transport
accepts writes, nothing else is going on -/
structure Draining (s : St) (t0 dl : Nat) : Prop where
  closing : s.closing = .joining t0
  prod : s.producers > 0
  reading : s.pphase = .reading dl
  cons : s.consumers > 0
  drain : s.wdrain = .ok
  writer : s.writer.isSome = true
  recon : s.recon = .idle
  nosetup : NoSetupTimers s
  queued : s.writeQ ≠ []
  rj : s.rj = true

/-- arrival gaps of a controller that keeps sending: every frame arrives before the deadline of
the read in progress (`dl` for the first one, READER_TIMEOUT after the previous arrival then) -/
def GapsOk : Nat → Nat → List Nat → Prop
  | _, _, [] => True
  | dl, now, g :: gs => now + g ≤ dl ∧ GapsOk (now + g + readerTO) (now + g) gs

def drainEvs (gaps : List Nat) : List Ev := gaps.flatMap (fun g => [.advance g, .feed .foreign])

theorem latch_writeQ (x : St) : (latch x).writeQ = x.writeQ := by
  unfold latch; split
  · split <;> rfl
  · rfl

theorem latch_now (x : St) : (latch x).now = x.now := by
  unfold latch; split
  · split <;> rfl
  · rfl

/-- one arrival: the producer sends the head of the queue and reads again -/
theorem drain_step {s : St} {t0 dl : Nat} (h : Draining s t0 dl) (g : Nat) (hg : s.now + g ≤ dl) :
    let s' := (run s [.advance g, .feed .foreign]).1
    s'.now = s.now + g ∧ s'.writeQ = s.writeQ.tail ∧ reconOwner s'.recon = none ∧ s'.rj = true ∧
    ((s.writeQ.tail = [] ∧ s'.closing = .joined t0) ∨
     (s.writeQ.tail ≠ [] ∧ Draining s' t0 (s.now + g + readerTO))) := by
  have hnd : isDone s.closing = false := by rw [h.closing]; rfl
  have e1 : step s (.advance g) = ({ s with now := s.now + g }, []) := by
    apply advance_ok s g hnd
    intro k d hk
    cases k with
    | readTO =>
      simp only [deadline?, h.prod, h.reading] at hk
      have : dl = d := by simpa using hk
      omega
    | writeTO => simp [deadline?, h.reading] at hk
    | wcloseTO => simp [deadline?, h.recon] at hk
    | openTO => simp [deadline?, h.recon] at hk
    | backoffEnd => simp [deadline?, h.recon] at hk
    | setup a => rw [setup_timer_none h.nosetup a] at hk; simp at hk
    | cwcloseTO => simp [deadline?, h.closing] at hk
  obtain ⟨k, rest, hq⟩ : ∃ k rest, s.writeQ = k :: rest := by
    cases hq : s.writeQ with
    | nil => exact absurd hq h.queued
    | cons k rest => exact ⟨k, rest, rfl⟩
  obtain ⟨tid, htid⟩ := Option.isSome_iff_exists.mp h.writer
  let a : St := { s with now := s.now + g }
  have hp0 : a.producers ≠ 0 := by have := h.prod; show s.producers ≠ 0; omega
  have hc0 : a.consumers ≠ 0 := by have := h.cons; show s.consumers ≠ 0; omega
  have hra : isReading a.pphase = true := by show isReading s.pphase = true; rw [h.reading]; rfl
  have hio : prodIO' a = ({ a with writeQ := rest, pphase := .reading (a.now + readerTO) }, [.tx tid k]) := by
    have h1 : a.writeQ = k :: rest := hq
    have h2 : a.writer = some tid := htid
    have h3 : a.wdrain = .ok := h.drain
    simp [prodIO', h1, h2, h3]
  let b : St := { a with writeQ := rest, pphase := .reading (a.now + readerTO) }
  have e2 : (step a (.feed .foreign)).1 = latch b := by
    have hnda : isDone a.closing = false := hnd
    simp [step, stepDone, stepLive, hnda, feed, hp0, hra, prodIO, hio, Feed.addr?, b]
  have hrun : (run s [.advance g, .feed .foreign]).1 = latch b := by
    simp only [run, e1]; exact e2
  simp only [hrun, hq, List.tail_cons]
  have hbc : b.closing = .joining t0 := h.closing
  have hunf : unfinished b = rest.length := by
    simp [unfinished, b, isWriting]
  have latch_rj : ∀ x : St, (latch x).rj = x.rj := by
    intro x; unfold latch; split
    · split <;> rfl
    · rfl
  refine ⟨?_, ?_, ?_, ?_, ?_⟩
  · rw [latch_now]
  · rw [latch_writeQ]
  · have := (same_latch b).recon; rw [this]; show reconOwner s.recon = none; rw [h.recon]; rfl
  · rw [latch_rj]; exact h.rj
  · by_cases hr : rest = []
    · left
      refine ⟨hr, ?_⟩
      unfold latch; rw [hbc]; simp [hunf, hr]
    · right
      refine ⟨hr, ?_⟩
      have hl : latch b = b := by
        unfold latch; rw [hbc]
        have : rest.length ≠ 0 := by simpa using hr
        simp [hunf, this]
      rw [hl]
      exact ⟨h.closing, h.prod, rfl, h.cons, h.drain, h.writer, h.recon, h.nosetup, hr, h.rj⟩

/-- all queued frames go out, one per arrival; then `Queues.join` returns -/
theorem drain_all : ∀ (gaps : List Nat) (s : St) (t0 dl : Nat), Draining s t0 dl → gaps.length = s.writeQ.length →
    GapsOk dl s.now gaps →
    let s' := (run s (drainEvs gaps)).1
    s'.closing = .joined t0 ∧ reconOwner s'.recon = none ∧ s'.now = s.now + gaps.sum ∧
    s.now + gaps.sum ≤ dl + (gaps.length - 1) * readerTO ∧ s'.rj = true
  | [], s, t0, dl, h, hl, _ => by
    have := h.queued
    have : s.writeQ = [] := List.eq_nil_of_length_eq_zero (by simpa using hl.symm)
    contradiction
  | g :: gs, s, t0, dl, h, hl, hg => by
    obtain ⟨hg1, hg2⟩ := hg
    have hs := drain_step h g hg1
    simp only at hs
    obtain ⟨hn, hq, hro, hrj, hcase⟩ := hs
    have hev : drainEvs (g :: gs) = [.advance g, .feed .foreign] ++ drainEvs gs := by
      simp [drainEvs, List.flatMap_cons]
    simp only [hev, run_append]
    rcases hcase with ⟨hnil, hj⟩ | ⟨hne, hd⟩
    · -- that was the last frame
      have hlen : gs.length = 0 := by
        have : s.writeQ.length = s.writeQ.tail.length + 1 := by
          cases hq' : s.writeQ with
          | nil => exact absurd hq' h.queued
          | cons a b => simp
        rw [hnil] at this
        simp only [List.length_cons] at hl
        simp at this; omega
      have : gs = [] := List.eq_nil_of_length_eq_zero hlen
      subst this
      have hnil' : drainEvs ([] : List Nat) = [] := rfl
      have hrn : ∀ x : St, (run x []).1 = x := fun _ => rfl
      simp only [hnil', hrn, List.sum_cons, List.sum_nil, List.length_cons, List.length_nil]
      exact ⟨hj, hro, by omega, by omega, hrj⟩
    · have hlen : gs.length = (run s [.advance g, .feed .foreign]).1.writeQ.length := by
        rw [hq]
        cases hq' : s.writeQ with
        | nil => exact absurd hq' h.queued
        | cons a b => simp [hq'] at hl ⊢; omega
      have hg2' : GapsOk (s.now + g + readerTO) (run s [.advance g, .feed .foreign]).1.now gs := by
        rw [hn]; exact hg2
      have ih := drain_all gs _ t0 _ hd hlen hg2'
      simp only at ih
      obtain ⟨i1, i2, i3, i4, i5⟩ := ih
      refine ⟨i1, i2, ?_, ?_, i5⟩
      · rw [i3, hn, List.sum_cons]; omega
      · rw [hn] at i4
        simp only [List.sum_cons, List.length_cons]
        have : gs.length ≥ 1 := by
          rw [hlen, hq]
          cases ht : s.writeQ.tail with
          | nil => exact absurd ht hne
          | cons a b => simp
        have hmul : (gs.length + 1 - 1) * readerTO = (gs.length - 1) * readerTO + readerTO := by
          have : gs.length + 1 - 1 = (gs.length - 1) + 1 := by omega
          rw [this, Nat.add_mul, Nat.one_mul]
        rw [hmul]; omega


/-! ### draining in one burst (frames arrive back to back): pending set-up timers do not matter -/

/-- like `Draining`, without any assumption on device set-ups in progress -/
structure DrainingB (s : St) (t0 : Nat) : Prop where
  closing : s.closing = .joining t0
  prod : s.producers > 0
  reading : isReading s.pphase = true
  drain : s.wdrain = .ok
  writer : s.writer.isSome = true
  recon : s.recon = .idle
  queued : s.writeQ ≠ []
  rj : s.rj = true

theorem burst_step {s : St} {t0 : Nat} (h : DrainingB s t0) :
    let s' := (step s (.feed .foreign)).1
    s'.now = s.now ∧ s'.writeQ = s.writeQ.tail ∧ reconOwner s'.recon = none ∧ s'.rj = true ∧
    ((s.writeQ.tail = [] ∧ s'.closing = .joined t0) ∨ (s.writeQ.tail ≠ [] ∧ DrainingB s' t0)) := by
  have hnd : isDone s.closing = false := by rw [h.closing]; rfl
  obtain ⟨k, rest, hq⟩ : ∃ k rest, s.writeQ = k :: rest := by
    cases hq : s.writeQ with
    | nil => exact absurd hq h.queued
    | cons k rest => exact ⟨k, rest, rfl⟩
  obtain ⟨tid, htid⟩ := Option.isSome_iff_exists.mp h.writer
  have hp0 : s.producers ≠ 0 := by have := h.prod; omega
  have hio : prodIO' s = ({ s with writeQ := rest, pphase := .reading (s.now + readerTO) }, [.tx tid k]) := by
    simp [prodIO', hq, htid, h.drain]
  let b : St := { s with writeQ := rest, pphase := .reading (s.now + readerTO) }
  have e2 : (step s (.feed .foreign)).1 = latch b := by
    simp [step, stepDone, stepLive, hnd, feed, hp0, h.reading, prodIO, hio, Feed.addr?, b]
  simp only [e2, hq, List.tail_cons]
  have hbc : b.closing = .joining t0 := h.closing
  have hunf : unfinished b = rest.length := by simp [unfinished, b, isWriting]
  have latch_rj : ∀ x : St, (latch x).rj = x.rj := by
    intro x; unfold latch; split
    · split <;> rfl
    · rfl
  refine ⟨?_, ?_, ?_, ?_, ?_⟩
  · rw [latch_now]
  · rw [latch_writeQ]
  · have := (same_latch b).recon; rw [this]; show reconOwner s.recon = none; rw [h.recon]; rfl
  · rw [latch_rj]; exact h.rj
  · by_cases hr : rest = []
    · left
      refine ⟨hr, ?_⟩
      unfold latch; rw [hbc]; simp [hunf, hr]
    · right
      refine ⟨hr, ?_⟩
      have hl : latch b = b := by
        unfold latch; rw [hbc]
        have : rest.length ≠ 0 := by simpa using hr
        simp [hunf, this]
      rw [hl]
      exact ⟨h.closing, h.prod, rfl, h.drain, h.writer, h.recon, hr, h.rj⟩

theorem burst_all : ∀ (n : Nat) (s : St) (t0 : Nat), DrainingB s t0 → n = s.writeQ.length →
    let s' := (run s (List.replicate n (.feed .foreign))).1
    s'.closing = .joined t0 ∧ reconOwner s'.recon = none ∧ s'.now = s.now ∧ s'.rj = true
  | 0, s, t0, h, hn => by
    have : s.writeQ = [] := List.eq_nil_of_length_eq_zero hn.symm
    exact absurd this h.queued
  | n + 1, s, t0, h, hn => by
    have hs := burst_step h
    simp only at hs
    obtain ⟨h1, h2, h3, h4, hcase⟩ := hs
    have hlen : s.writeQ.tail.length = n := by
      cases hq : s.writeQ with
      | nil => exact absurd hq h.queued
      | cons a b => rw [hq] at hn; simp at hn ⊢; omega
    simp only [List.replicate_succ, run]
    rcases hcase with ⟨hnil, hj⟩ | ⟨hne, hd⟩
    · have hn0 : n = 0 := by rw [hnil] at hlen; simpa using hlen.symm
      subst hn0
      simp only [List.replicate_zero, run]
      exact ⟨hj, h3, h1, h4⟩
    · have ih := burst_all n (step s (.feed .foreign)).1 t0 hd (by rw [h2]; exact hlen.symm)
      simp only at ih
      obtain ⟨i1, i2, i3, i4⟩ := ih
      exact ⟨i1, i2, i3.trans h1, i4⟩

theorem beginJoin_closing (s : St) :
    (beginJoin s).closing = if unfinished s = 0 then .joined s.now else .joining s.now := by
  have hu : unfinished { s with closing := .joining s.now, rj := s.rUnf == 0 } = unfinished s := rfl
  by_cases h : unfinished s = 0
  · simp only [beginJoin, latch, hu, h, ↓reduceIte]
  · simp only [beginJoin, latch, hu, h, ↓reduceIte]

theorem beginJoin_fields (s : St) :
    (beginJoin s).now = s.now ∧ (beginJoin s).writeQ = s.writeQ ∧ (beginJoin s).producers = s.producers ∧
    (beginJoin s).pphase = s.pphase ∧ (beginJoin s).consumers = s.consumers ∧ (beginJoin s).wdrain = s.wdrain ∧
    (beginJoin s).writer = s.writer ∧ (beginJoin s).recon = s.recon ∧ (beginJoin s).devices = s.devices ∧
    (beginJoin s).rj = (s.rUnf == 0) := by
  have hu : unfinished { s with closing := .joining s.now, rj := s.rUnf == 0 } = unfinished s := rfl
  by_cases h : unfinished s = 0
  · simp only [beginJoin, latch, hu, h, ↓reduceIte, and_self]
  · simp only [beginJoin, latch, hu, h, ↓reduceIte, and_self]

theorem cancelConn_fields (s : St) :
    (cancelConn s).now = s.now ∧ (cancelConn s).writeQ = s.writeQ ∧ (cancelConn s).producers = s.producers ∧
    (cancelConn s).pphase = s.pphase ∧ (cancelConn s).consumers = s.consumers ∧ (cancelConn s).wdrain = s.wdrain ∧
    (cancelConn s).writer = s.writer ∧ (cancelConn s).devices = s.devices ∧ (cancelConn s).closing = s.closing ∧
    (cancelConn s).rUnf = s.rUnf := by
  unfold cancelConn; split <;> simp only [and_self]

theorem unfinished_cancelConn (s : St) : unfinished (cancelConn s) = unfinished s := by
  obtain ⟨_, h2, h3, h4, _⟩ := cancelConn_fields s
  simp only [unfinished, h2, h3, h4]

theorem Closed.mono {s : St} {t0 w w' : Nat} (h : Closed s t0 w) (hw : w ≤ w') : Closed s t0 w' := by
  obtain ⟨t1, h1, h2, h3⟩ := h
  exact ⟨t1, h1, by omega, h3⟩

/-! ### F1: states from which close() cannot complete -/

/-- close() waits in `Queues.join`, requests are queued, and a producer that has not started
yet still leaves one behind -/
structure Stuck (s : St) (t0 : Nat) : Prop where
  closing : s.closing = .joining t0
  queued : s.writeQ.length ≥ 1
  starting : s.pphase = .starting → s.writeQ.length ≥ 2

/-- a function that keeps the close() phase and the producer phase and does not shorten the queue -/
structure Grow (s s' : St) : Prop where
  closing : s'.closing = s.closing
  queue : s.writeQ.length ≤ s'.writeQ.length
  pphase : s'.pphase = s.pphase

theorem Stuck.of_grow {s s' : St} {t0 : Nat} (h : Stuck s t0) (g : Grow s s') : Stuck s' t0 :=
  ⟨g.closing.trans h.closing, Nat.le_trans h.queued g.queue,
   fun hs => Nat.le_trans (h.starting (g.pphase ▸ hs)) g.queue⟩

theorem Grow.refl (s : St) : Grow s s := ⟨rfl, Nat.le_refl _, rfl⟩

theorem Grow.trans {a b c : St} (h1 : Grow a b) (h2 : Grow b c) : Grow a c :=
  ⟨h2.closing.trans h1.closing, Nat.le_trans h1.queue h2.queue, h2.pphase.trans h1.pphase⟩

theorem Frames.grow {s s' : St} (f : Frames s s') : Grow s s' :=
  ⟨f.closing, by rw [f.writeQ]; exact Nat.le_refl _, f.pphase⟩

theorem stuck_latch {s : St} {t0 : Nat} (h : Stuck s t0) : latch s = s := by
  unfold latch; rw [h.closing]
  have : unfinished s ≠ 0 := by have := h.queued; unfold unfinished; omega
  simp [this]

theorem stuck_prodFault {s : St} {t0 : Nat} (h : Stuck s t0) : Stuck (prodFault s).1 t0 :=
  ⟨h.closing, h.queued, fun hs => by simp [prodFault] at hs⟩

theorem stuck_establish {s : St} {t0 : Nat} (h : Stuck s t0) (dm cm : Mode) : Stuck (establish s dm cm).1 t0 := by
  have := h.queued
  refine ⟨h.closing, ?_, fun _ => ?_⟩
  · show (s.writeQ ++ [startMaster]).length ≥ 1
    simp
  · show (s.writeQ ++ [startMaster]).length ≥ 2
    simp; omega

theorem grow_popScript (s : St) : Grow s (popScript s).2 := by
  unfold popScript; split <;> exact ⟨rfl, Nat.le_refl _, rfl⟩

theorem stuck_doOpen {s : St} {t0 : Nat} (h : Stuck s t0) (o : Owner) : Stuck (doOpen s o).1 t0 := by
  have hp := h.of_grow (grow_popScript s)
  simp only [doOpen]
  split
  · exact stuck_establish hp _ _
  · unfold openFailed; split <;> exact hp.of_grow ⟨rfl, Nat.le_refl _, rfl⟩
  · exact hp.of_grow ⟨rfl, Nat.le_refl _, rfl⟩

theorem stuck_reconnectInvoke {s : St} {t0 : Nat} (h : Stuck s t0) : Stuck (reconnectInvoke s).1 t0 := by
  unfold reconnectInvoke; split
  · exact stuck_doOpen h _
  · exact h

theorem stuck_lostFinish {s : St} {t0 : Nat} (h : Stuck s t0) : Stuck (lostFinish s).1 t0 := by
  simp only [lostFinish, closeWriter_fst]
  split
  · exact h.of_grow ⟨rfl, Nat.le_refl _, rfl⟩
  · exact stuck_reconnectInvoke (h.of_grow ⟨rfl, Nat.le_refl _, rfl⟩)

theorem grow_fireSetup (s : St) (a : Nat) : Grow s (fireSetup s a).1 := by
  unfold fireSetup
  split
  · exact Grow.refl _
  · split
    · split
      · exact ⟨rfl, by simp, rfl⟩
      · exact ⟨rfl, Nat.le_refl _, rfl⟩
    · exact Grow.refl _

theorem grow_setupGo (s : St) : Grow s (setupGo s).1 := by
  unfold setupGo; split
  · exact ⟨rfl, by simp, rfl⟩
  · exact Grow.refl _

theorem grow_versionsGo (s : St) : Grow s (versionsGo s).1 := by
  unfold versionsGo; split
  · exact ⟨rfl, by simp, rfl⟩
  · exact Grow.refl _

theorem grow_park (s : St) (t : Target) : Grow s (park s t) := by
  cases t <;> exact ⟨rfl, Nat.le_refl _, rfl⟩

/-- the producer's first pass leaves at least one request behind -/
theorem stuck_prodStart {s : St} {t0 : Nat} (h : Stuck s t0) (hs : s.pphase = .starting) : Stuck (prodIO s).1 t0 := by
  have h2 := h.starting hs
  have h' : Stuck (prodIO' s).1 t0 := by
    unfold prodIO'
    split
    · rename_i k rest tid hq hw
      have hr : rest.length ≥ 1 := by rw [hq] at h2; simp at h2; omega
      split
      · exact ⟨h.closing, hr, fun hs' => by simp at hs'⟩
      · exact ⟨h.closing, hr, fun hs' => by simp [prodFault] at hs'⟩
      · exact ⟨h.closing, hr, fun hs' => by simp at hs'⟩
    · exact ⟨h.closing, h.queued, fun hs' => by simp at hs'⟩
  simp only [prodIO]
  rw [stuck_latch h']; exact h'

def isFeed : Ev → Bool | .feed _ => true | _ => false

/-- **F1**: while close() waits in `Queues.join` with requests queued, no event other than an
arriving frame can complete the join - not a timer, not a loss, not a reconnect (each
re-establishment queues one more start-master request than its producer sends) -/
theorem stuck_step {s : St} {t0 : Nat} (h : Stuck s t0) (e : Ev) (hf : isFeed e = false) : Stuck (step s e).1 t0 := by
  have hnd : isDone s.closing = false := by rw [h.closing]; rfl
  have hcl : s.closing ≠ .no := by rw [h.closing]; simp
  unfold step stepDone stepLive
  rw [hnd]
  simp only [Bool.false_eq_true, ↓reduceIte]
  cases e with
  | connect => simp [hcl]; exact h
  | feed f => simp [isFeed] at hf
  | readFault => simp only []; split <;> first | exact stuck_prodFault h | exact h
  | setDrain m => simp only []; split <;> first | exact h | exact h.of_grow ⟨rfl, Nat.le_refl _, rfl⟩
  | setClose m => simp only []; split <;> first | exact h | exact h.of_grow ⟨rfl, Nat.le_refl _, rfl⟩
  | enq n => exact h.of_grow ⟨rfl, by simp, rfl⟩
  | park t => exact h.of_grow (grow_park s t)
  | close => simp [closeEv, hcl]; exact h
  | advance dt => simp only []; split <;> first | exact h | exact h.of_grow ⟨rfl, Nat.le_refl _, rfl⟩
  | tick k =>
    simp only []
    unfold fire
    split
    · exact h
    · split
      · exact h
      · cases k with
        | readTO => exact stuck_prodFault h
        | writeTO =>
          have h' := stuck_prodFault h
          simp only []
          rw [stuck_latch h']; exact h'
        | wcloseTO => exact stuck_reconnectInvoke (s := { s with recon := .idle, writer := none }) (h.of_grow ⟨rfl, Nat.le_refl _, rfl⟩)
        | openTO =>
          simp only []
          split
          · unfold openFailed; split <;> exact h.of_grow ⟨rfl, Nat.le_refl _, rfl⟩
          · exact h
        | backoffEnd => exact stuck_doOpen (s := { s with recon := .idle }) (h.of_grow ⟨rfl, Nat.le_refl _, rfl⟩) _
        | setup a => exact h.of_grow (grow_fireSetup s a)
        | cwcloseTO => simp only [h.closing]; exact h
  | prodStart =>
    simp only []
    split
    · rename_i hg; exact stuck_prodStart h hg.2
    · exact h
  | lostRun =>
    simp only [lostRun]
    split
    · exact h
    · split
      · exact h.of_grow ⟨rfl, Nat.le_refl _, rfl⟩
      · split
        · exact stuck_lostFinish (s := { s with lostPending := false, connected := false }) (h.of_grow ⟨rfl, Nat.le_refl _, rfl⟩)
        · exact h.of_grow ⟨rfl, Nat.le_refl _, rfl⟩
  | lostRun2 =>
    simp only [lostRun2]
    split
    · exact h
    · exact stuck_lostFinish (s := { s with lostMid := false }) (h.of_grow ⟨rfl, Nat.le_refl _, rfl⟩)
  | shutdownRun => simp only [shutdownRun, h.closing]; exact h
  | setupGo => exact h.of_grow (grow_setupGo s)
  | versionsGo => exact h.of_grow (grow_versionsGo s)
  | reopen => exact h
  | gate a => exact h.of_grow (Frames.grow (frames_gateEv s a))
  | release => exact h.of_grow (Frames.grow (frames_release s))
  | take => exact h.of_grow (Frames.grow (frames_take s))

theorem stuck_run {s : St} {t0 : Nat} (h : Stuck s t0) (es : List Ev) (hf : ∀ e ∈ es, isFeed e = false) :
    Stuck (run s es).1 t0 := by
  induction es generalizing s with
  | nil => exact h
  | cons e es ih =>
    exact ih (stuck_step h e (hf e (List.mem_cons_self ..))) (fun x hx => hf x (List.mem_cons_of_mem _ hx))


/-- nothing connected, nothing reconnecting, no loss handling in flight -/
structure Dead (s : St) : Prop where
  prod : s.producers = 0
  recon : s.recon = .idle
  lp : s.lostPending = false
  lm : s.lostMid = false

theorem Dead.of_same {s s' : St} (h : Dead s) (c : SameCore s s') : Dead s' :=
  ⟨c.producers.trans h.prod, c.recon.trans h.recon, c.lostPending.trans h.lp, c.lostMid.trans h.lm⟩

/-- with close() waiting in `Queues.join`, a dead protocol stays dead: `connect()` is not
accepted any more and nothing else can create a producer -/
theorem dead_step {s : St} {t0 : Nat} (h : Dead s) (hc : s.closing = .joining t0) (e : Ev) : Dead (step s e).1 := by
  have hnd : isDone s.closing = false := by rw [hc]; rfl
  have hcl : s.closing ≠ .no := by rw [hc]; simp
  have hp := h.prod
  unfold step stepDone stepLive
  rw [hnd]
  simp only [Bool.false_eq_true, ↓reduceIte]
  cases e with
  | connect => simp [hcl]; exact h
  | feed f => simp [feed, hp]; exact h
  | readFault => simp [hp]; exact h
  | setDrain m => simp only []; split <;> first | exact h | exact h.of_same ⟨rfl, rfl, rfl, rfl, rfl, Nat.le_refl _, rfl⟩
  | setClose m => simp only []; split <;> first | exact h | exact h.of_same ⟨rfl, rfl, rfl, rfl, rfl, Nat.le_refl _, rfl⟩
  | enq n => exact h.of_same ⟨rfl, rfl, rfl, rfl, rfl, Nat.le_refl _, rfl⟩
  | park t => exact h.of_same (same_park s t)
  | close => simp [closeEv, hcl]; exact h
  | advance dt => simp only []; split <;> first | exact h | exact h.of_same ⟨rfl, rfl, rfl, rfl, rfl, Nat.le_refl _, rfl⟩
  | tick k =>
    simp only []
    unfold fire
    split
    · exact h
    · rename_i dl hdl
      split
      · exact h
      · cases k with
        | readTO => simp [deadline?, hp] at hdl
        | writeTO => simp [deadline?, hp] at hdl
        | wcloseTO => simp [deadline?, h.recon] at hdl
        | openTO => simp [deadline?, h.recon] at hdl
        | backoffEnd => simp [deadline?, h.recon] at hdl
        | setup a => exact h.of_same (same_fireSetup s a)
        | cwcloseTO => simp [deadline?, hc] at hdl
  | prodStart => simp [hp]; exact h
  | lostRun => simp [lostRun, h.lp]; exact h
  | lostRun2 => simp [lostRun2, h.lm]; exact h
  | shutdownRun => simp only [shutdownRun, hc]; exact h
  | setupGo => exact h.of_same (same_setupGo s)
  | versionsGo => exact h.of_same (same_versionsGo s)
  | reopen => exact h
  | gate a => exact h.of_same (frames_gateEv s a).same
  | release => exact h.of_same (frames_release s).same
  | take => exact h.of_same (frames_take s).same


/-- the read-queue side of F1: close() waits in `read.join()`, frames are left in the read queue,
no consumer is alive, nothing is connected and nothing reconnects -/
structure StuckRead (s : St) : Prop where
  joining : isJoining s.closing = true
  rj : s.rj = false
  unf : s.rUnf ≥ 1
  cons : s.consumers = 0
  hand : s.hand = []
  dead : Dead s

/-- same waiting-for-the-read-queue state -/
structure KeepR (s s' : St) : Prop where
  closing : isJoining s'.closing = isJoining s.closing
  rj : s'.rj = s.rj
  rUnf : s'.rUnf = s.rUnf
  consumers : s'.consumers = s.consumers
  hand : s'.hand = s.hand
  core : SameCore s s'

theorem StuckRead.keep {s s' : St} (h : StuckRead s) (k : KeepR s s') : StuckRead s' :=
  ⟨by rw [k.closing]; exact h.joining, by rw [k.rj]; exact h.rj, by rw [k.rUnf]; exact h.unf,
   by rw [k.consumers]; exact h.cons, by rw [k.hand]; exact h.hand, h.dead.of_same k.core⟩

theorem keepr_fireSetup (s : St) (a : Nat) : KeepR s (fireSetup s a).1 := by
  refine ⟨?_, ?_, (kq_fireSetup s a).rUnf, (kq_fireSetup s a).consumers, (kq_fireSetup s a).hand, same_fireSetup s a⟩
  · rw [(grow_fireSetup s a).closing]
  · unfold fireSetup; split
    · rfl
    · split
      · split <;> rfl
      · rfl

theorem setupGo_rj (s : St) : (setupGo s).1.rj = s.rj := by unfold setupGo; split <;> rfl
theorem versionsGo_rj (s : St) : (versionsGo s).1.rj = s.rj := by unfold versionsGo; split <;> rfl
theorem gateEv_rj (s : St) (a : Nat) : (gateEv s a).rj = s.rj := by unfold gateEv; split <;> rfl
theorem park_rj (s : St) (t : Target) : (park s t).rj = s.rj := by cases t <;> rfl
theorem park_closing (s : St) (t : Target) : (park s t).closing = s.closing := by cases t <;> rfl

theorem stuckread_step {s : St} (h : StuckRead s) (e : Ev) : StuckRead (step s e).1 := by
  have hj := h.joining
  have hnd : isDone s.closing = false := by cases hc : s.closing <;> simp_all [isJoining, isDone]
  have hcl : s.closing ≠ .no := by intro hc; rw [hc] at hj; cases hj
  have hp := h.dead.prod
  have hidle : idle s = 0 := by unfold idle; rw [h.cons]; simp
  have R : KeepR s s := ⟨rfl, rfl, rfl, rfl, rfl, SameCore.refl s⟩
  unfold step stepDone stepLive
  rw [hnd]
  simp only [Bool.false_eq_true, ↓reduceIte]
  cases e with
  | connect => simp [hcl]; exact h
  | feed f => simp [feed, hp]; exact h
  | readFault => simp [hp]; exact h
  | setDrain m => simp only []; split <;> first | exact h | exact h.keep ⟨rfl, rfl, rfl, rfl, rfl, ⟨rfl, rfl, rfl, rfl, rfl, Nat.le_refl _, rfl⟩⟩
  | setClose m => simp only []; split <;> first | exact h | exact h.keep ⟨rfl, rfl, rfl, rfl, rfl, ⟨rfl, rfl, rfl, rfl, rfl, Nat.le_refl _, rfl⟩⟩
  | enq n => exact h.keep ⟨rfl, rfl, rfl, rfl, rfl, ⟨rfl, rfl, rfl, rfl, rfl, Nat.le_refl _, rfl⟩⟩
  | park t =>
    exact h.keep ⟨by rw [park_closing], park_rj s t, (kq_park s t).rUnf, (kq_park s t).consumers, (kq_park s t).hand, same_park s t⟩
  | close => simp [closeEv, hcl]; exact h
  | advance dt => simp only []; split <;> first | exact h | exact h.keep ⟨rfl, rfl, rfl, rfl, rfl, ⟨rfl, rfl, rfl, rfl, rfl, Nat.le_refl _, rfl⟩⟩
  | tick k =>
    simp only []
    unfold fire
    split
    · exact h
    · rename_i dl hdl
      split
      · exact h
      · cases k with
        | readTO => simp [deadline?, hp] at hdl
        | writeTO => simp [deadline?, hp] at hdl
        | wcloseTO => simp [deadline?, h.dead.recon] at hdl
        | openTO => simp [deadline?, h.dead.recon] at hdl
        | backoffEnd => simp [deadline?, h.dead.recon] at hdl
        | setup a => exact h.keep (keepr_fireSetup s a)
        | cwcloseTO =>
          simp only [deadline?] at hdl
          cases hc : s.closing <;> simp_all [isJoining]
  | prodStart => simp [hp]; exact h
  | lostRun => simp [lostRun, h.dead.lp]; exact h
  | lostRun2 => simp [lostRun2, h.dead.lm]; exact h
  | shutdownRun =>
    simp only [shutdownRun]
    split
    · simp [h.rj]; exact h
    · exact h
  | setupGo =>
    exact h.keep ⟨by rw [(grow_setupGo s).closing], setupGo_rj s, (kq_setupGo s).rUnf, (kq_setupGo s).consumers, (kq_setupGo s).hand, same_setupGo s⟩
  | versionsGo =>
    exact h.keep ⟨by rw [(grow_versionsGo s).closing], versionsGo_rj s, (kq_versionsGo s).rUnf, (kq_versionsGo s).consumers, (kq_versionsGo s).hand, same_versionsGo s⟩
  | reopen => exact h
  | gate a =>
    exact h.keep ⟨by rw [(frames_gateEv s a).closing], gateEv_rj s a, (kq_gateEv s a).rUnf, (kq_gateEv s a).consumers, (kq_gateEv s a).hand, (frames_gateEv s a).same⟩
  | release =>
    have f : release s = ({ s with gates := [] }, []) := by simp [release, h.hand, finishAll]
    rw [f]
    exact h.keep ⟨rfl, rfl, rfl, rfl, rfl, ⟨rfl, rfl, rfl, rfl, rfl, Nat.le_refl _, rfl⟩⟩
  | take =>
    have f : take s = (s, []) := by
      unfold take
      split
      · rfl
      · simp [hidle]
    rw [f]; exact h

end PlumVerif.Conn

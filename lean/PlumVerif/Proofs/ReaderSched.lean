import PlumVerif.Model.ReaderSched
import PlumVerif.Proofs.ReaderChunks
import PlumVerif.Proofs.Resync
/- every interleaving of chunk arrival and reader progress yields the calls of `readAll` on the concatenation -/
namespace PlumVerif

/-- what is still to come: the current call finished from its state on everything not yet consumed, then `readAll` -/
def cont (st : RState) (started : Nat) (s : List Byte) : List (Outcome × Nat) :=
  if (finish st s).1 = .connLost then [((finish st s).1, started - (finish st s).2.length)]
  else ((finish st s).1, started - (finish st s).2.length) :: readAll (finish st s).2

theorem readFrame_connLost_rest {s : List Byte} (h : (readFrame s).1 = .connLost) : (readFrame s).2 = [] := by
  have hno := (readFrame_connLost_iff s).mp h
  unfold readFrame
  have : scan s = none := by
    cases hs : scan s with
    | none => rfl
    | some r => obtain ⟨pre, hp, _⟩ := scan_spec hs; rw [hp] at hno; simp at hno
  simp [this]

theorem cont_scanning (s : List Byte) : cont .scanning s.length s = readAll s := by
  unfold cont
  rw [finish_scanning]
  by_cases h : (readFrame s).1 = .connLost
  · rw [if_pos h, readFrame_connLost_rest h, h, readAll_connLost ((readFrame_connLost_iff s).mp h)]
    simp
  · rw [if_neg h]
    exact (readAll_step (o := (readFrame s).1) (r := (readFrame s).2) rfl h).symm

theorem gates_ne_connLost (l0 l1 rc sd et ev : Byte) (body : List Byte) : gates l0 l1 rc sd et ev body ≠ .connLost := by
  unfold gates
  simp only
  split
  · simp
  · split
    · simp
    · split
      · simp
      · split <;> simp

theorem resume_done_ne_connLost {st : RState} {buf b : List Byte} {o : Outcome}
    (h : resume st buf = .done o b) : o ≠ .connLost := by
  have body : ∀ {l0 l1 rc sd et ev : Byte} {buf : List Byte}, runBody l0 l1 rc sd et ev buf = .done o b → o ≠ .connLost := by
    intro l0 l1 rc sd et ev buf h
    unfold runBody at h
    simp only at h
    split at h
    · cases h
    · injection h with h1 _; rw [← h1]; exact gates_ne_connLost _ _ _ _ _ _ _
  have header : ∀ {buf : List Byte}, runHeader buf = .done o b → o ≠ .connLost := by
    intro buf h
    match buf, h with
    | l0 :: l1 :: rc :: sd :: et :: ev :: r1, h =>
      simp only [runHeader] at h
      split at h
      · injection h with h1 _; rw [← h1]; simp
      · exact body h
    | [], h => simp [runHeader] at h
    | [_], h => simp [runHeader] at h
    | [_, _], h => simp [runHeader] at h
    | [_, _, _], h => simp [runHeader] at h
    | [_, _, _, _], h => simp [runHeader] at h
    | [_, _, _, _, _], h => simp [runHeader] at h
  cases st with
  | scanning =>
    simp only [resume] at h
    induction buf with
    | nil => simp [runScan] at h
    | cons x r ih =>
      simp only [runScan] at h
      split at h
      · exact header h
      · exact ih h
  | header => exact header h
  | body l0 l1 rc sd et ev => exact body h

theorem finish_of_done {st : RState} {buf b : List Byte} {o : Outcome} (h : resume st buf = .done o b) (R : List Byte) :
    finish st (buf ++ R) = (o, b ++ R) := by
  simp only [finish, resume_done_append h R]

theorem finish_of_blocked {st st' : RState} {buf b : List Byte} (h : resume st buf = .blocked st' b) (R : List Byte) :
    finish st (buf ++ R) = finish st' (b ++ R) := by
  simp only [finish, resume_blocked_append h R]

/-- the invariant of the small-step system -/
def SysInv (total : List Byte) (s : Sys) : Prop :=
  (s.eof = true → s.pending = []) ∧
  (s.finished = true → readAll total = s.outs) ∧
  (s.finished = false → readAll total = s.outs ++ cont s.st s.started (s.buf ++ s.pending.flatten))

theorem sysInv_init (cs : List (List Byte)) : SysInv cs.flatten (Sys.init cs) := by
  refine ⟨by simp [Sys.init], by simp [Sys.init], ?_⟩
  intro _
  simp only [Sys.init, List.nil_append]
  exact (cont_scanning cs.flatten).symm

theorem sysInv_step {total : List Byte} {s : Sys} (h : SysInv total s) (m : Move) : SysInv total (s.step m) := by
  obtain ⟨he, hfin, hrun⟩ := h
  unfold SysInv
  cases m with
  | arrive =>
    simp only [Sys.step]
    cases hp : s.pending with
    | nil =>
      dsimp only
      refine ⟨fun _ => rfl, hfin, ?_⟩
      intro hf; simpa [hp] using hrun hf
    | cons c cs =>
      dsimp only
      have heof : s.eof = false := by
        cases hb : s.eof with
        | false => rfl
        | true => have := he hb; rw [hp] at this; cases this
      refine ⟨by simp [heof], hfin, ?_⟩
      intro hf
      have := hrun hf
      simpa [hp, List.append_assoc] using this
  | run =>
    simp only [Sys.step]
    by_cases hf : s.finished = true
    · rw [if_pos hf]; exact ⟨he, hfin, hrun⟩
    · rw [if_neg hf]
      have hf' : s.finished = false := by cases hb : s.finished <;> simp_all
      have hinv := hrun hf'
      cases hr : resume s.st s.buf with
      | done o b =>
        have hne := resume_done_ne_connLost hr
        have hfi := finish_of_done hr s.pending.flatten
        dsimp only
        refine ⟨he, ?_, ?_⟩
        · intro h; rw [hf'] at h; cases h
        · intro _
          rw [hinv, List.append_assoc]
          congr 1
          unfold cont
          rw [hfi]
          simp only [if_neg hne, List.length_append, List.singleton_append]
          congr 1
          have := cont_scanning (b ++ s.pending.flatten)
          simp only [List.length_append] at this
          unfold cont at this
          exact this.symm
      | blocked st' b =>
        dsimp only
        by_cases hE : s.eof = true
        · rw [if_pos hE]
          dsimp only
          have hp := he hE
          have hfi : finish s.st (s.buf ++ s.pending.flatten) = (atEof st', []) := by
            simp only [hp, List.flatten_nil, List.append_nil, finish, hr]
          by_cases hc : atEof st' = .connLost
          · refine ⟨he, ?_, ?_⟩
            · intro _
              rw [hinv]; unfold cont; rw [hfi]; simp [hc]
            · intro h; simp [hc] at h
          · refine ⟨he, ?_, ?_⟩
            · intro h; simp [hc] at h
            · intro _
              rw [hinv, List.append_assoc]
              congr 1
              unfold cont
              rw [hfi]
              simp only [if_neg hc, List.length_nil, Nat.sub_zero, List.singleton_append, hp, List.flatten_nil, List.append_nil]
              have := cont_scanning []
              unfold cont at this
              simp only [List.length_nil] at this
              rw [this]
        · rw [if_neg hE]
          dsimp only
          refine ⟨he, ?_, ?_⟩
          · intro h; rw [hf'] at h; cases h
          · intro _
            rw [hinv]
            congr 1
            unfold cont
            rw [finish_of_blocked hr]

theorem sysInv_run {total : List Byte} (ms : List Move) : ∀ {s : Sys}, SysInv total s → SysInv total (s.run ms) := by
  induction ms with
  | nil => intro s h; exact h
  | cons m ms ih => intro s h; exact ih (sysInv_step h m)

end PlumVerif

namespace PlumVerif

/-! ### a fair schedule finishes -/

theorem run_arrivals (pending : List (List Byte)) : ∀ (s : Sys), s.pending = pending → s.eof = false →
    s.run (List.replicate (pending.length + 1) .arrive) =
      { s with buf := s.buf ++ pending.flatten, pending := [], eof := true } := by
  induction pending with
  | nil =>
    intro s hp he
    simp only [List.length_nil, Nat.zero_add, List.replicate_one, Sys.run, List.foldl_cons, List.foldl_nil, Sys.step, hp,
      List.flatten_nil, List.append_nil]
  | cons c cs ih =>
    intro s hp he
    rw [List.length_cons, List.replicate_succ]
    simp only [Sys.run, List.foldl_cons]
    have h1 : s.step .arrive = { s with buf := s.buf ++ c, pending := cs } := by simp only [Sys.step, hp]
    rw [h1]
    have := ih { s with buf := s.buf ++ c, pending := cs } rfl he
    simp only [Sys.run] at this
    rw [this]
    simp [List.append_assoc]

theorem finished_stays (n : Nat) : ∀ (s : Sys), s.finished = true → (s.run (List.replicate n .run)).finished = true := by
  induction n with
  | zero => intro s h; exact h
  | succ k ih =>
    intro s h
    rw [List.replicate_succ]
    simp only [Sys.run, List.foldl_cons]
    have : s.step .run = s := by simp only [Sys.step, h, if_true]
    rw [this]; exact ih s h

theorem runs_finish (n : Nat) : ∀ (s : Sys), s.eof = true → s.pending = [] → s.st = .scanning →
    s.buf.length + 2 ≤ n → (s.run (List.replicate n .run)).finished = true := by
  induction n with
  | zero => intro s _ _ _ h; omega
  | succ k ih =>
    intro s he hp hst hn
    rw [List.replicate_succ]
    simp only [Sys.run, List.foldl_cons]
    by_cases hf : s.finished = true
    · have : s.step .run = s := by simp only [Sys.step, hf, if_true]
      rw [this]; exact finished_stays k s hf
    · have hstep : s.step .run = (match resume .scanning s.buf with
          | .done o b => (⟨.scanning, b.length + s.pending.flatten.length, b, s.pending, s.eof,
              s.outs ++ [(o, s.started - (b.length + s.pending.flatten.length))], s.finished⟩ : Sys)
          | .blocked st' _ => (⟨.scanning, 0, [], s.pending, s.eof, s.outs ++ [(atEof st', s.started)],
              decide (atEof st' = .connLost)⟩ : Sys)) := by
        simp only [Sys.step, if_neg hf, he, if_true, hst]
        cases resume .scanning s.buf <;> rfl
      rw [hstep]
      cases hr : resume .scanning s.buf with
      | done o b =>
        have hne := resume_done_ne_connLost hr
        have hfin : finish .scanning s.buf = (o, b) := by simp only [finish, hr]
        rw [finish_scanning] at hfin
        have hlt := (readFrame_progress hfin hne).1
        exact ih _ he hp rfl (by simp only; omega)
      | blocked st' b =>
        simp only
        by_cases hc : atEof st' = .connLost
        · exact finished_stays k _ (by simp [hc])
        · -- the buffer is empty now: the next call reports the lost connection
          cases k with
          | zero => omega
          | succ j =>
            rw [List.replicate_succ]
            simp only [List.foldl_cons]
            have : (⟨.scanning, 0, [], s.pending, s.eof, s.outs ++ [(atEof st', s.started)],
                      decide (atEof st' = .connLost)⟩ : Sys).step .run =
                (⟨.scanning, 0, [], s.pending, s.eof, s.outs ++ [(atEof st', s.started)] ++ [(.connLost, 0)], true⟩ : Sys) := by
              have hd : decide (atEof st' = Outcome.connLost) = false := by simp [hc]
              simp only [Sys.step, hd, he, resume, runScan]
              simp [atEof]
            rw [this]
            exact finished_stays j _ rfl

/-- all chunks arrive (and the end of the stream), then the reader runs often enough: the caller has seen the end -/
theorem fair_finishes (cs : List (List Byte)) :
    ((Sys.init cs).run (List.replicate (cs.length + 1) .arrive ++ List.replicate (cs.flatten.length + 2) .run)).finished = true := by
  have h1 := run_arrivals cs (Sys.init cs) rfl rfl
  simp only [Sys.run, List.foldl_append] at h1 ⊢
  rw [h1]
  exact runs_finish _ _ rfl rfl rfl (by simp [Sys.init])

end PlumVerif

namespace PlumVerif

/-- in every reachable state of the system the suspended call's length field has passed the gate -/
theorem sys_ok_step {s : Sys} (h : s.st.ok) (m : Move) : (s.step m).st.ok := by
  cases m with
  | arrive =>
    simp only [Sys.step]
    cases s.pending <;> exact h
  | run =>
    simp only [Sys.step]
    split
    · exact h
    · cases hr : resume s.st s.buf with
      | done o b => trivial
      | blocked st' b =>
        dsimp only
        split
        · trivial
        · exact (resume_blocked_bounded h hr).1

theorem sys_ok_run (ms : List Move) : ∀ {s : Sys}, s.st.ok → (s.run ms).st.ok := by
  induction ms with
  | nil => intro s h; exact h
  | cons m ms ih => intro s h; exact ih (sys_ok_step h m)

end PlumVerif

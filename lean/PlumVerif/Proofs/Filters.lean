import PlumVerif.Spec.C20
/-
Helper lemmas for C20: Mealy-machine runs decompose over `++`, the history functions of
Spec/C20.lean satisfy "snoc" equations, and a property of all runs extends to every prefix.
-/
namespace PlumVerif.C20

theorem snoc_induction {α : Type} {P : List α → Prop} (nil : P [])
    (snoc : ∀ xs x, P xs → P (xs ++ [x])) : ∀ xs, P xs := by
  have h : ∀ ys : List α, P ys.reverse := by
    intro ys
    induction ys with
    | nil => simpa using nil
    | cons y ys ih => simpa [List.reverse_cons] using snoc _ y ih
  intro xs
  simpa using h xs.reverse

namespace Machine

theorem run_append (m : Machine) (s : m.σ) (xs ys : List Call) :
    m.run s (xs ++ ys) = m.run s xs ++ m.run (m.final s xs) ys := by
  induction xs generalizing s with
  | nil => rfl
  | cons x xs ih => simp [run, final, ih]

theorem final_append (m : Machine) (s : m.σ) (xs ys : List Call) :
    m.final s (xs ++ ys) = m.final (m.final s xs) ys := by
  induction xs generalizing s with
  | nil => rfl
  | cons x xs ih => simp [final, ih]

@[simp] theorem run_length (m : Machine) (s : m.σ) (xs : List Call) : (m.run s xs).length = xs.length := by
  induction xs generalizing s with
  | nil => rfl
  | cons x xs ih => simp [run, ih]

@[simp] theorem outs_length (m : Machine) (xs : List Call) : (m.outs xs).length = xs.length :=
  run_length m _ xs

@[simp] theorem outs_nil (m : Machine) : m.outs [] = [] := rfl
@[simp] theorem state_nil (m : Machine) : m.state [] = m.init := rfl

theorem outs_snoc (m : Machine) (pre : List Call) (c : Call) :
    m.outs (pre ++ [c]) = m.outs pre ++ [(m.step (m.state pre) c).2] := by
  simp [outs, state, run_append, run]

theorem state_snoc (m : Machine) (pre : List Call) (c : Call) :
    m.state (pre ++ [c]) = (m.step (m.state pre) c).1 := by
  simp [state, final_append, final]

end Machine

@[simp] theorem onChange_step : onChange.step = onChangeStep := rfl
@[simp] theorem debounce_step (n : Nat) : (debounce n).step = debounceStep n := rfl
@[simp] theorem throttle_step (s : Int) : (throttle s).step = throttleStep s := rfl
@[simp] theorem delta_step : delta.step = deltaStep := rfl
@[simp] theorem aggregate_step (s t0 : Int) : (aggregate s t0).step = aggregateStep s := rfl
@[simp] theorem custom_step (p : Pred) : (custom p).step = customStep p := rfl
@[simp] theorem chain_step (a b : Machine) : (chain a b).step = chainStep a b := rfl

/-! ### history functions -/

@[simp] theorem lastDelivered_nil : lastDelivered [] = none := rfl

theorem lastDelivered_snoc (os : List Out) (o : Out) :
    lastDelivered (os ++ [o]) = match o.value? with
      | some v => some v
      | none => lastDelivered os := by
  simp only [lastDelivered, List.reverse_append, List.reverse_cons, List.reverse_nil, List.nil_append,
    List.cons_append, List.findSome?_cons]
  cases o.value? <;> rfl

@[simp] theorem sinceDelivery_nil : sinceDelivery [] [] = [] := rfl

theorem sinceDelivery_snoc (pre : List Call) (os : List Out) (c : Call) (o : Out)
    (h : os.length = pre.length) :
    sinceDelivery (pre ++ [c]) (os ++ [o]) =
      if o.value?.isNone then sinceDelivery pre os ++ [c.v] else [] := by
  have hz : (pre ++ [c]).zip (os ++ [o]) = pre.zip os ++ [(c, o)] := by
    rw [List.zip_append (by omega)]; rfl
  simp only [sinceDelivery, hz, List.reverse_append, List.reverse_cons, List.reverse_nil,
    List.nil_append, List.cons_append, List.takeWhile_cons]
  cases o.value? <;> simp

@[simp] theorem lastDeliveryTime_nil : lastDeliveryTime [] [] = none := rfl

theorem lastDeliveryTime_snoc (pre : List Call) (os : List Out) (c : Call) (o : Out)
    (h : os.length = pre.length) :
    lastDeliveryTime (pre ++ [c]) (os ++ [o]) = match o.value? with
      | some _ => some c.t
      | none => lastDeliveryTime pre os := by
  have hz : (pre ++ [c]).zip (os ++ [o]) = pre.zip os ++ [(c, o)] := by
    rw [List.zip_append (by omega)]; rfl
  simp only [lastDeliveryTime, hz, List.reverse_append, List.reverse_cons, List.reverse_nil,
    List.nil_append, List.cons_append, List.findSome?_cons]
  cases o.value? <;> simp

@[simp] theorem trailing_nil (p : Val → Bool) : trailing p [] = 0 := rfl

theorem trailing_snoc (p : Val → Bool) (l : List Val) (x : Val) :
    trailing p (l ++ [x]) = if p x then trailing p l + 1 else 0 := by
  simp only [trailing, List.reverse_append, List.reverse_cons, List.reverse_nil, List.nil_append,
    List.cons_append, List.takeWhile_cons]
  cases p x <;> simp

/-- reading of `trailing`: it is at least `n` exactly when the last `n` elements exist and
all satisfy `p` -/
theorem le_trailing_iff (p : Val → Bool) (l : List Val) (n : Nat) :
    n ≤ trailing p l ↔ n ≤ l.length ∧ ∀ x ∈ l.drop (l.length - n), p x = true := by
  induction l using snoc_induction generalizing n with
  | nil => simp
  | snoc l x ih =>
    rw [trailing_snoc]
    cases n with
    | zero => simp
    | succ n =>
      have hd : (l ++ [x]).drop ((l ++ [x]).length - (n + 1)) = l.drop (l.length - n) ++ [x] := by
        have : (l ++ [x]).length - (n + 1) = l.length - n := by simp
        rw [this, List.drop_append_of_le_length (by omega)]
      rw [hd]
      by_cases hp : p x = true
      · simp only [hp, if_true, Nat.add_le_add_iff_right, ih n, List.length_append, List.length_cons,
          List.length_nil, List.mem_append, List.mem_singleton]
        constructor
        · rintro ⟨h1, h2⟩
          exact ⟨by omega, fun y hy => hy.elim (h2 y) (fun e => e ▸ hp)⟩
        · rintro ⟨h1, h2⟩
          exact ⟨by omega, fun y hy => h2 y (Or.inl hy)⟩
      · simp only [hp, Bool.false_eq_true, if_false, Nat.le_zero_eq, Nat.add_one_ne_zero, false_iff,
          not_and]
        intro _ h2
        exact hp (h2 x (by simp))

theorem numSum_append (a b : List Val) : numSum (a ++ b) = numSum a + numSum b := by
  induction a with
  | nil => simp [numSum]
  | cons x a ih => simp only [List.cons_append, numSum, ih]; omega

theorem recorded_snoc (vs : List Val) (v : Val) :
    recorded (vs ++ [v]) = match recorded vs with
      | none => some v
      | some d => if differs d v then some v else recorded vs := by
  simp only [recorded, List.foldl_append, List.foldl_cons, List.foldl_nil]
  cases h : List.foldl _ none vs <;> simp

theorem deliveredSum_snoc (os : List Out) (o : Out) :
    deliveredSum (os ++ [o]) = deliveredSum os + match o with
      | .deliver v => v.numOf.getD 0
      | _ => 0 := by
  simp only [deliveredSum, List.filterMap_append, numSum_append]
  cases o with
  | deliver v =>
    have : numSum (List.filterMap Out.value? [Out.deliver v]) = v.numOf.getD 0 := by
      simp [Out.value?, numSum]
    rw [this]
  | skip =>
    have : numSum (List.filterMap Out.value? [Out.skip]) = 0 := rfl
    simp [this]
  | raised =>
    have : numSum (List.filterMap Out.value? [Out.raised]) = 0 := rfl
    simp [this]

/-! ### every prefix -/

theorem everyPrefix_snoc (p : List Call → List Out → Bool) (cs : List Call) (os : List Out)
    (c : Call) (o : Out) :
    everyPrefix p (cs ++ [c]) (os ++ [o]) = (p (cs ++ [c]) (os ++ [o]) && everyPrefix p cs os) := by
  simp [everyPrefix, everyPrefixRev]

/-- a property of all runs of a machine holds of every prefix of every run -/
theorem everyPrefix_outs (m : Machine) (p : List Call → List Out → Bool)
    (h : ∀ cs, p cs (m.outs cs) = true) (cs : List Call) : everyPrefix p cs (m.outs cs) = true := by
  induction cs using snoc_induction with
  | nil => simpa [everyPrefix, everyPrefixRev] using h []
  | snoc cs c ih =>
    have := h (cs ++ [c])
    rw [Machine.outs_snoc] at this ⊢
    rw [everyPrefix_snoc, this, ih]; rfl

theorem stepOK_snoc (e : List Call → List Out → Call → Out) (cs : List Call) (os : List Out)
    (c : Call) (o : Out) : stepOK e (cs ++ [c]) (os ++ [o]) = (o == e cs os c) := by
  simp [stepOK]

/-- the snoc equation of a machine's outputs is exactly `stepwise` of all its runs -/
theorem stepwise_outs (m : Machine) (e : List Call → List Out → Call → Out)
    (h : ∀ pre c, (m.step (m.state pre) c).2 = e pre (m.outs pre) c) (cs : List Call) :
    stepwise e cs (m.outs cs) = true := by
  apply everyPrefix_outs
  intro cs
  induction cs using snoc_induction with
  | nil => simp [stepOK]
  | snoc cs c _ => rw [Machine.outs_snoc, stepOK_snoc, h]; simp

theorem step_eq_of_snoc (m : Machine) (e : List Call → List Out → Call → Out)
    (h : ∀ pre c, m.outs (pre ++ [c]) = m.outs pre ++ [e pre (m.outs pre) c]) (pre : List Call) (c : Call) :
    (m.step (m.state pre) c).2 = e pre (m.outs pre) c := by
  have := h pre c
  rw [Machine.outs_snoc] at this
  simpa using this

/-! ### the tolerance -/

/-- the source's `TOLERANCE` (binary value of 0.1) decides closeness of sixteenths exactly like
the statement's 0.1: `|a−b|/16 ≤ 0.1 ↔ 10·|a−b| ≤ 16` -/
theorem close_iff (a b : Int) : close a b = true ↔ 10 * (a - b).natAbs ≤ 16 := by
  unfold close
  rw [decide_eq_true_iff]
  simp only [Gen.toleranceNum, Gen.toleranceDen]
  generalize (a - b).natAbs = d
  omega

theorem bne_inj {α β : Type} [BEq α] [LawfulBEq α] [BEq β] [LawfulBEq β] (f : α → β)
    (hf : ∀ a b, f a = f b → a = b) (a b : α) : (a != b) = (f a != f b) := by
  by_cases h : a = b
  · subst h; simp
  · have : f a ≠ f b := fun e => h (hf _ _ e)
    rw [bne_iff_ne.2 h, bne_iff_ne.2 this]

theorem not_close_eq (a b : Int) : (!close a b) = decide (16 < 10 * (a - b).natAbs) := by
  have := close_iff a b
  cases h : close a b <;> simp [h] at this ⊢ <;> omega

/-- the code's `_significantly_changed` is the statement's "differs" -/
theorem changed_eq_differs (x y : Val) : changed x y = differs x y := by
  cases x <;> cases y <;> simp only [changed, differs, Val.numOf] <;>
    first
    | exact not_close_eq _ _
    | exact bne_inj Val.str (fun _ _ h => by injection h) _ _
    | exact bne_inj Val.list (fun _ _ h => by injection h) _ _
    | (simp [bne, Bool.or_assoc]; done)
    | rfl

@[simp] theorem changed_num_num (a b : Int) : changed (.num a) (.num b) = !close a b := rfl
@[simp] theorem difference_num_num (a b : Int) : difference (.num a) (.num b) = .val (.num (b - a)) := rfl
@[simp] theorem numOf_num (n : Int) : (Val.num n).numOf = some n := rfl

theorem changed_fun (d : Val) : changed d = differs d := funext (changed_eq_differs d)

/-! ### what reached the callback -/

theorem delivered_snoc (cs : List Call) (os : List Out) (c : Call) (o : Out)
    (h : os.length = cs.length) :
    delivered (cs ++ [c]) (os ++ [o]) = delivered cs os ++ match o with
      | .deliver v => [⟨c.t, v⟩]
      | _ => [] := by
  induction cs generalizing os with
  | nil =>
    cases os with
    | nil => cases o <;> simp [delivered]
    | cons _ _ => simp at h
  | cons x cs ih =>
    cases os with
    | nil => simp at h
    | cons y os =>
      have := ih os (by simpa using h)
      cases y <;> simp [delivered, this]

end PlumVerif.C20

import PlumVerif.Proofs.Frame
/- prefix-determinism, bounded demand and re-synchronisation lemmas for the reader model -/
namespace PlumVerif

theorem scan_append_more {s r : List Byte} (h : scan s = some r) (more : List Byte) :
    scan (s ++ more) = some (r ++ more) := by
  obtain ⟨pre, hs, hpre⟩ := scan_spec h
  rw [hs, List.append_assoc, List.cons_append]
  exact scan_append hpre

/-- outcomes that were caused by the end of the stream -/
def Outcome.eofCaused : Outcome → Bool
  | .connLost => true
  | .protoErr .incompleteHeader => true
  | .protoErr .incompleteFrame => true
  | _ => false

/-- **prefix determinism**: an outcome that was not caused by the end of the stream is decided
by the bytes consumed so far — whatever arrives later (and however it is chunked) is left
untouched in the stream.  This is the byte-level content of "fragmentation independence". -/
theorem readFrame_append {s rest : List Byte} {o : Outcome}
    (h : readFrame s = (o, rest)) (ho : o.eofCaused = false) (more : List Byte) :
    readFrame (s ++ more) = (o, rest ++ more) := by
  unfold readFrame at h
  split at h
  · simp only [Prod.mk.injEq] at h; rw [← h.1] at ho; simp [Outcome.eofCaused] at ho
  · rename_i r hscan
    unfold readFrame
    rw [scan_append_more hscan more]
    split at h
    · rename_i l0 l1 rc sd et ev r1
      rw [show (l0 :: l1 :: rc :: sd :: et :: ev :: r1) ++ more = l0 :: l1 :: rc :: sd :: et :: ev :: (r1 ++ more) from rfl]
      simp only at h ⊢
      split at h
      · rename_i hc
        rw [if_pos hc]; simp only [Prod.mk.injEq] at h ⊢; exact ⟨h.1, by rw [← h.2]⟩
      · rename_i hc
        rw [if_neg hc]
        split at h
        · simp only [Prod.mk.injEq] at h; rw [← h.1] at ho; simp [Outcome.eofCaused] at ho
        · rename_i hl
          have hl' : ¬ (r1 ++ more).length < l0.toNat + 256 * l1.toNat - Gen.headerSize := by
            simp only [List.length_append]; omega
          rw [if_neg hl']
          have hle : l0.toNat + 256 * l1.toNat - Gen.headerSize ≤ r1.length := by omega
          rw [List.take_append_of_le_length hle, List.drop_append_of_le_length hle]
          split at h
          · rename_i h1; rw [if_pos h1]; simp only [Prod.mk.injEq] at h ⊢; exact ⟨h.1, by rw [← h.2]⟩
          · rename_i h1; rw [if_neg h1]
            split at h
            · rename_i h2; rw [if_pos h2]; simp only [Prod.mk.injEq] at h ⊢; exact ⟨h.1, by rw [← h.2]⟩
            · rename_i h2; rw [if_neg h2]
              split at h
              · rename_i h3; rw [if_pos h3]; simp only [Prod.mk.injEq] at h ⊢; exact ⟨h.1, by rw [← h.2]⟩
              · rename_i h3; rw [if_neg h3]
                split at h
                · rename_i h4; rw [if_pos h4]; simp only [Prod.mk.injEq] at h ⊢; exact ⟨h.1, by rw [← h.2]⟩
                · rename_i h4; rw [if_neg h4]; simp only [Prod.mk.injEq] at h ⊢; exact ⟨h.1, by rw [← h.2]⟩
    · simp only [Prod.mk.injEq] at h; rw [← h.1] at ho; simp [Outcome.eofCaused] at ho

/-- leading bytes without a start delimiter are skipped and change nothing else -/
theorem readFrame_skip {x : List Byte} (hx : startByte ∉ x) (s : List Byte) :
    readFrame (x ++ s) = readFrame s := by
  have : scan (x ++ s) = scan s := by
    induction x with
    | nil => rfl
    | cons b t ih =>
      simp only [List.mem_cons, not_or] at hx
      simp only [List.cons_append, scan]
      rw [if_neg (fun hb => hx.1 hb.symm)]
      exact ih hx.2
  unfold readFrame; rw [this]

/-- **bounded loss per call**: counted from the start delimiter it found, a call never takes
more than the maximum frame length from the stream (EOF-caused outcomes included). -/
theorem readFrame_consumed_le {s r rest : List Byte} {o : Outcome}
    (hs : scan s = some r) (h : readFrame s = (o, rest)) :
    (r.length + 1) - rest.length ≤ 1000 := by
  unfold readFrame at h
  rw [hs] at h
  simp only at h
  split at h
  · rename_i l0 l1 rc sd et ev r1
    have hd : ∀ n, (r1.drop n).length = r1.length - n := fun n => List.length_drop
    split at h
    · simp only [Prod.mk.injEq] at h; rw [← h.2]; simp; omega
    · rename_i hlen
      simp only [hdr_eq, minLen_eq, maxLen_eq] at hlen
      split at h
      · rename_i hl; simp only [hdr_eq] at hl
        simp only [Prod.mk.injEq] at h; rw [← h.2]; simp; omega
      · rename_i hl; simp only [hdr_eq] at hl
        have key : (r1.length + 6 + 1) - (r1.length - (l0.toNat + 256 * l1.toNat - 7)) ≤ 1000 := by omega
        split at h
        · simp only [Prod.mk.injEq, hdr_eq] at h; rw [← h.2, hd]; simpa using key
        · split at h
          · simp only [Prod.mk.injEq, hdr_eq] at h; rw [← h.2, hd]; simpa using key
          · split at h
            · simp only [Prod.mk.injEq, hdr_eq] at h; rw [← h.2, hd]; simpa using key
            · split at h
              · simp only [Prod.mk.injEq, hdr_eq] at h; rw [← h.2, hd]; simpa using key
              · simp only [Prod.mk.injEq, hdr_eq] at h; rw [← h.2, hd]; simpa using key
  · rename_i hshort
    simp only [Prod.mk.injEq] at h; rw [← h.2]
    have : r.length < 6 := by
      match r, hshort with
      | [], _ => simp
      | [_], _ => simp
      | [_, _], _ => simp
      | [_, _, _], _ => simp
      | [_, _, _, _], _ => simp
      | [_, _, _, _, _], _ => simp
      | a :: b :: c :: d :: e :: f :: t, hsh => exact absurd rfl (hsh a b c d e f t)
    simp; omega

end PlumVerif

import PlumVerif.Model.Entry
import PlumVerif.Spec.C10
/-
Helper lemmas for C10: the shapes of a step of the locked machine and its invariant
(mutual exclusion through the one lock, one entry per address, objects never shared between
addresses).
-/
namespace PlumVerif.Entry

@[simp] theorem upd_same {α : Type} (f : Nat → α) (i : Nat) (v : α) : upd f i v i = v := by simp [upd]
theorem upd_other {α : Type} (f : Nat → α) (i j : Nat) (v : α) (h : j ≠ i) : upd f i v j = f j := by simp [upd, h]

/-- in `creating` or `publishing`: inside the lock -/
def Inside (p : PC) : Prop := p = .creating ∨ ∃ d, p = .publishing d

/-- everything a step of the locked machine can be -/
inductive Shape (who : Nat → Caller) (cr : Nat → Bool) (s : St) (i : Nat) : St → Prop
  | stutter : Shape who cr s i s
  | finish (d : Nat) (hpc : s.pc i = .start) (hk : (who i).kind = .entry) (hl : s.lock = none)
      (hp : s.published (who i).addr = some d) : Shape who cr s i (finish s i d)
  | acquire (hpc : s.pc i = .start) (hk : (who i).kind = .entry) (hl : s.lock = none)
      (hp : s.published (who i).addr = none) :
      Shape who cr s i { s with pc := upd s.pc i .creating, lock := some i }
  | gnow (d : Nat) (hpc : s.pc i = .start ∧ (who i).kind = .get ∨ s.pc i = .gwait)
      (hp : s.published (who i).addr = some d) : Shape who cr s i { s with pc := upd s.pc i (.got d) }
  | gpark (hpc : s.pc i = .start) (hk : (who i).kind = .get) (hp : s.published (who i).addr = none) :
      Shape who cr s i { s with pc := upd s.pc i .gwait }
  | build (hpc : s.pc i = .creating) (hc : cr (who i).addr = true) :
      Shape who cr s i { s with pc := upd s.pc i (.publishing s.created), created := s.created + 1, setups := s.setups + 1, createdFor := upd s.createdFor (who i).addr (s.createdFor (who i).addr + 1), setupsFor := upd s.setupsFor (who i).addr (s.setupsFor (who i).addr + 1) }
  | fail (hpc : s.pc i = .creating) (hc : cr (who i).addr = false) :
      Shape who cr s i { s with pc := upd s.pc i .failed, lock := none }
  | publish (d : Nat) (hpc : s.pc i = .publishing d) :
      Shape who cr s i { s with pc := upd s.pc i (.done d), published := upd s.published (who i).addr (some d), dispatched := ((who i).addr, d) :: s.dispatched, lock := none, handled := (i, d) :: s.handled }

theorem step_shape (who : Nat → Caller) (cr : Nat → Bool) (s : St) (i : Nat) :
    Shape who cr s i (step true who cr s i) := by
  unfold step
  cases hpc : s.pc i with
  | start =>
    cases hk : (who i).kind with
    | entry =>
      cases hl : s.lock with
      | some h => simpa [hl] using Shape.stutter
      | none =>
        cases hp : s.published (who i).addr with
        | some d => simpa [hl, hp] using Shape.finish d hpc hk hl hp
        | none => simpa [hl, hp] using Shape.acquire hpc hk hl hp
    | get =>
      cases hp : s.published (who i).addr with
      | some d => simpa [hp] using Shape.gnow d (.inl ⟨hpc, hk⟩) hp
      | none => simpa [hp] using Shape.gpark hpc hk hp
  | creating =>
    cases hc : cr (who i).addr with
    | true => simpa [hc] using Shape.build hpc hc
    | false => simpa [hc] using Shape.fail hpc hc
  | publishing d => simpa using Shape.publish d hpc
  | done d => exact .stutter
  | failed => exact .stutter
  | gwait =>
    cases hp : s.published (who i).addr with
    | some d => simpa [hp] using Shape.gnow d (.inr hpc) hp
    | none => simpa [hp] using Shape.stutter
  | got d => exact .stutter


/-! ### the invariant of the locked machine -/

structure Inv (who : Nat → Caller) (cr : Nat → Bool) (s : St) : Prop where
  holder : ∀ j, Inside (s.pc j) → s.lock = some j
  held : ∀ h, s.lock = some h → Inside (s.pc h) ∧ s.published (who h).addr = none
  pubId : ∀ h d, s.pc h = .publishing d →
    d + 1 = s.created ∧ s.createdFor (who h).addr = 1 ∧ cr (who h).addr = true
  holds : ∀ j d, (s.pc j = .done d ∨ s.pc j = .got d) → s.published (who j).addr = some d
  ids : ∀ a d, s.published a = some d →
    d < s.created ∧ s.createdFor a = 1 ∧ cr a = true ∧ ∀ h d', s.pc h = .publishing d' → d ≠ d'
  inj : ∀ a b d, s.published a = some d → s.published b = some d → a = b
  zero : ∀ a, s.published a = none → (∀ h d, s.pc h = .publishing d → (who h).addr ≠ a) → s.createdFor a = 0
  setups : ∀ a, s.setupsFor a = s.createdFor a
  handledOk : ∀ p ∈ s.handled, s.pc p.1 = .done p.2 ∧ (who p.1).kind = .entry
  handledNodup : (s.handled.map (·.1)).Nodup
  doneIn : ∀ j d, s.pc j = .done d → (j, d) ∈ s.handled
  dispOk : ∀ p ∈ s.dispatched, s.published p.1 = some p.2
  dispNodup : (s.dispatched.map (·.1)).Nodup
  failedOk : ∀ j, s.pc j = .failed → cr (who j).addr = false
  kindE : ∀ j, (Inside (s.pc j) ∨ (∃ d, s.pc j = .done d) ∨ s.pc j = .failed) → (who j).kind = .entry
  kindG : ∀ j, (s.pc j = .gwait ∨ ∃ d, s.pc j = .got d) → (who j).kind = .get
  pubDisp : ∀ a d, s.published a = some d → (a, d) ∈ s.dispatched
  setupsTot : s.setups = s.created
  cnt0 : (∀ h d, s.pc h ≠ .publishing d) → s.created = s.dispatched.length
  cnt1 : ∀ h d, s.pc h = .publishing d → s.created = s.dispatched.length + 1

theorem inv_init (who : Nat → Caller) (cr : Nat → Bool) : Inv who cr init := by
  refine ⟨?_, ?_, ?_, ?_, ?_, ?_, ?_, ?_, ?_, ?_, ?_, ?_, ?_, ?_, ?_, ?_, ?_, ?_, ?_, ?_⟩ <;> simp [init, Inside]

/-- nobody is inside the lock when it is free -/
theorem Inv.free {who cr s} (h : Inv who cr s) (hl : s.lock = none) (j : Nat) : ¬ Inside (s.pc j) := by
  intro hj; have := h.holder j hj; rw [hl] at this; cases this

/-- only the holder is inside the lock -/
theorem Inv.only {who cr s} (h : Inv who cr s) {i j : Nat} (hi : Inside (s.pc i)) (hj : Inside (s.pc j)) : j = i := by
  have a := h.holder i hi; have b := h.holder j hj; rw [a] at b; cases b; rfl

/-- a step that only moves caller `i` from outside the lock to a state outside the lock that
holds nothing new except possibly `p'` (described by the arguments) -/
theorem inv_move {who cr} {s : St} (h : Inv who cr s) (i : Nat) (p' : PC)
    (hout : ¬ Inside (s.pc i)) (hnd : ∀ d, s.pc i ≠ .done d) (hout' : ¬ Inside p') (hnd' : ∀ d, p' ≠ .done d)
    (hgot : ∀ d, p' = .got d → s.published (who i).addr = some d)
    (hf : p' = .failed → cr (who i).addr = false)
    (hkE : p' = .failed → (who i).kind = .entry)
    (hkG : (p' = .gwait ∨ ∃ d, p' = .got d) → (who i).kind = .get) :
    Inv who cr { s with pc := upd s.pc i p' } := by
  have pcj : ∀ j, j ≠ i → upd s.pc i p' j = s.pc j := fun j hj => upd_other _ _ _ _ hj
  refine ⟨?_, ?_, ?_, ?_, ?_, h.inj, ?_, h.setups, ?_, h.handledNodup, ?_, h.dispOk, h.dispNodup, ?_, ?_, ?_, h.pubDisp, h.setupsTot, ?_, ?_⟩
  · intro j hj
    by_cases e : j = i
    · subst e; simp only [upd_same] at hj; exact absurd hj hout'
    · simp only [pcj j e] at hj; exact h.holder j hj
  · intro k hk
    have := h.held k hk
    have e : k ≠ i := by intro e; subst e; exact hout this.1
    simpa [pcj k e] using this
  · intro k d hk
    by_cases e : k = i
    · subst e; simp only [upd_same] at hk; exact absurd (.inr ⟨d, hk⟩) hout'
    · simp only [pcj k e] at hk; exact h.pubId k d hk
  · intro j d hj
    by_cases e : j = i
    · subst e; simp only [upd_same] at hj
      rcases hj with hj | hj
      · exact absurd hj (hnd' d)
      · exact hgot d hj
    · simp only [pcj j e] at hj; exact h.holds j d hj
  · intro a d ha
    obtain ⟨h1, h2, h3, h4⟩ := h.ids a d ha
    refine ⟨h1, h2, h3, fun k d' hk => ?_⟩
    by_cases e : k = i
    · subst e; simp only [upd_same] at hk; exact absurd (.inr ⟨d', hk⟩) hout'
    · simp only [pcj k e] at hk; exact h4 k d' hk
  · intro a ha hno
    refine h.zero a ha (fun k d hk => ?_)
    have e : k ≠ i := by intro e; subst e; exact hout (.inr ⟨d, hk⟩)
    exact hno k d (by simpa [pcj k e] using hk)
  · intro p hp
    have := h.handledOk p hp
    have e : p.1 ≠ i := by intro e; rw [e] at this; exact hnd _ this.1
    simpa [pcj p.1 e] using this
  · intro j d hj
    by_cases e : j = i
    · subst e; simp only [upd_same] at hj; exact absurd hj (hnd' d)
    · simp only [pcj j e] at hj; exact h.doneIn j d hj
  · intro j hj
    by_cases e : j = i
    · subst e; simp only [upd_same] at hj; exact hf hj
    · simp only [pcj j e] at hj; exact h.failedOk j hj
  · intro j hj
    by_cases e : j = i
    · subst e; simp only [upd_same] at hj
      rcases hj with hj | ⟨d, hj⟩ | hj
      · exact absurd hj hout'
      · exact absurd hj (hnd' d)
      · exact hkE hj
    · simp only [pcj j e] at hj; exact h.kindE j hj
  · intro j hj
    by_cases e : j = i
    · subst e; simp only [upd_same] at hj; exact hkG hj
    · simp only [pcj j e] at hj; exact h.kindG j hj
  · intro hno
    refine h.cnt0 (fun k d hk => ?_)
    by_cases e : k = i
    · subst e; exact hout (.inr ⟨d, hk⟩)
    · exact hno k d (by simpa [pcj k e] using hk)
  · intro k d hk
    by_cases e : k = i
    · subst e; simp only [upd_same] at hk; exact absurd (.inr ⟨d, hk⟩) hout'
    · simp only [pcj k e] at hk; exact h.cnt1 k d hk

theorem inside_start : ¬ Inside PC.start := by simp [Inside]
theorem inside_creating : Inside PC.creating := .inl rfl
theorem inside_publishing (d : Nat) : Inside (PC.publishing d) := .inr ⟨d, rfl⟩

theorem inv_finish {who cr} {s : St} (h : Inv who cr s) (i d : Nat) (hpc : s.pc i = .start)
    (hk : (who i).kind = .entry) (hp : s.published (who i).addr = some d) : Inv who cr (finish s i d) := by
  have pcj : ∀ j, j ≠ i → upd s.pc i (.done d) j = s.pc j := fun j hj => upd_other _ _ _ _ hj
  have hni : i ∉ s.handled.map (·.1) := by
    intro hm
    obtain ⟨p, hp1, hp2⟩ := List.mem_map.mp hm
    have := (h.handledOk p hp1).1
    rw [hp2, hpc] at this; cases this
  unfold finish
  refine ⟨?_, ?_, ?_, ?_, ?_, h.inj, ?_, h.setups, ?_, ?_, ?_, h.dispOk, h.dispNodup, ?_, ?_, ?_, h.pubDisp, h.setupsTot, ?_, ?_⟩
  · intro j hj
    by_cases e : j = i
    · subst e; simp [Inside] at hj
    · simp only [pcj j e] at hj; exact h.holder j hj
  · intro k hk'
    have := h.held k hk'
    have e : k ≠ i := by intro e; subst e; rw [hpc] at this; exact inside_start this.1
    simpa [pcj k e] using this
  · intro k d' hk'
    by_cases e : k = i
    · subst e; simp at hk'
    · simp only [pcj k e] at hk'; exact h.pubId k d' hk'
  · intro j d' hj
    by_cases e : j = i
    · subst e; simp only [upd_same] at hj
      rcases hj with hj | hj
      · cases hj; exact hp
      · cases hj
    · simp only [pcj j e] at hj; exact h.holds j d' hj
  · intro a d' ha
    obtain ⟨h1, h2, h3, h4⟩ := h.ids a d' ha
    refine ⟨h1, h2, h3, fun k d'' hk' => ?_⟩
    by_cases e : k = i
    · subst e; simp at hk'
    · simp only [pcj k e] at hk'; exact h4 k d'' hk'
  · intro a ha hno
    refine h.zero a ha (fun k d' hk' => ?_)
    have e : k ≠ i := by intro e; subst e; rw [hpc] at hk'; cases hk'
    exact hno k d' (by simpa [pcj k e] using hk')
  · intro p hp'
    rcases List.mem_cons.mp hp' with rfl | hp'
    · simp [hk]
    · have := h.handledOk p hp'
      have e : p.1 ≠ i := by intro e; exact hni (List.mem_map.mpr ⟨p, hp', e⟩)
      simpa [pcj p.1 e] using this
  · simpa [List.nodup_cons] using ⟨fun x hx => hni (List.mem_map.mpr ⟨(i, x), hx, rfl⟩), h.handledNodup⟩
  · intro j d' hj
    by_cases e : j = i
    · subst e; simp only [upd_same] at hj; cases hj; exact List.mem_cons_self ..
    · simp only [pcj j e] at hj; exact List.mem_cons_of_mem _ (h.doneIn j d' hj)
  · intro j hj
    by_cases e : j = i
    · subst e; simp at hj
    · simp only [pcj j e] at hj; exact h.failedOk j hj
  · intro j hj
    by_cases e : j = i
    · subst e; exact hk
    · simp only [pcj j e] at hj; exact h.kindE j hj
  · intro j hj
    by_cases e : j = i
    · subst e; simp at hj
    · simp only [pcj j e] at hj; exact h.kindG j hj
  · intro hno
    refine h.cnt0 (fun k d hq => ?_)
    by_cases e : k = i
    · rw [e, hpc] at hq; cases hq
    · exact hno k d (by simpa [pcj k e] using hq)
  · intro k d hq
    by_cases e : k = i
    · rw [e] at hq; simp at hq
    · simp only [pcj k e] at hq; exact h.cnt1 k d hq

theorem inv_acquire {who cr} {s : St} (h : Inv who cr s) (i : Nat) (hpc : s.pc i = .start)
    (hk : (who i).kind = .entry) (hl : s.lock = none) (hp : s.published (who i).addr = none) :
    Inv who cr { s with pc := upd s.pc i .creating, lock := some i } := by
  have pcj : ∀ j, j ≠ i → upd s.pc i .creating j = s.pc j := fun j hj => upd_other _ _ _ _ hj
  have free := h.free hl
  refine ⟨?_, ?_, ?_, ?_, ?_, h.inj, ?_, h.setups, ?_, h.handledNodup, ?_, h.dispOk, h.dispNodup, ?_, ?_, ?_, h.pubDisp, h.setupsTot, ?_, ?_⟩
  · intro j hj
    by_cases e : j = i
    · subst e; rfl
    · simp only [pcj j e] at hj; exact absurd hj (free j)
  · intro k hk'
    simp only [Option.some.injEq] at hk'; subst hk'
    exact ⟨by simp [Inside], hp⟩
  · intro k d hk'
    by_cases e : k = i
    · subst e; simp at hk'
    · simp only [pcj k e] at hk'; exact absurd (inside_publishing d) (hk' ▸ free k)
  · intro j d hj
    by_cases e : j = i
    · subst e; simp at hj
    · simp only [pcj j e] at hj; exact h.holds j d hj
  · intro a d ha
    obtain ⟨h1, h2, h3, _⟩ := h.ids a d ha
    refine ⟨h1, h2, h3, fun k d' hk' => ?_⟩
    by_cases e : k = i
    · subst e; simp at hk'
    · simp only [pcj k e] at hk'; exact absurd (inside_publishing d') (hk' ▸ free k)
  · intro a ha _
    exact h.zero a ha (fun k d hk' => absurd (inside_publishing d) (hk' ▸ free k))
  · intro p hp'
    have := h.handledOk p hp'
    have e : p.1 ≠ i := by intro e; rw [e, hpc] at this; cases this.1
    simpa [pcj p.1 e] using this
  · intro j d hj
    by_cases e : j = i
    · subst e; simp at hj
    · simp only [pcj j e] at hj; exact h.doneIn j d hj
  · intro j hj
    by_cases e : j = i
    · subst e; simp at hj
    · simp only [pcj j e] at hj; exact h.failedOk j hj
  · intro j hj
    by_cases e : j = i
    · subst e; exact hk
    · simp only [pcj j e] at hj; exact h.kindE j hj
  · intro j hj
    by_cases e : j = i
    · subst e; simp at hj
    · simp only [pcj j e] at hj; exact h.kindG j hj
  · intro hno
    refine h.cnt0 (fun k d hq => ?_)
    by_cases e : k = i
    · rw [e, hpc] at hq; cases hq
    · exact hno k d (by simpa [pcj k e] using hq)
  · intro k d hq
    by_cases e : k = i
    · rw [e] at hq; simp at hq
    · simp only [pcj k e] at hq; exact h.cnt1 k d hq

theorem inv_build {who cr} {s : St} (h : Inv who cr s) (i : Nat) (hpc : s.pc i = .creating)
    (hc : cr (who i).addr = true) :
    Inv who cr { s with pc := upd s.pc i (.publishing s.created), created := s.created + 1, setups := s.setups + 1, createdFor := upd s.createdFor (who i).addr (s.createdFor (who i).addr + 1), setupsFor := upd s.setupsFor (who i).addr (s.setupsFor (who i).addr + 1) } := by
  have pcj : ∀ j, j ≠ i → upd s.pc i (.publishing s.created) j = s.pc j := fun j hj => upd_other _ _ _ _ hj
  have hin : Inside (s.pc i) := by rw [hpc]; exact inside_creating
  have hl : s.lock = some i := h.holder i hin
  have hpn : s.published (who i).addr = none := (h.held i hl).2
  have others : ∀ j, j ≠ i → ¬ Inside (s.pc j) := fun j e hj => e (h.only hin hj)
  have nopub : ∀ k d, s.pc k = .publishing d → False := by
    intro k d hk
    by_cases e : k = i
    · subst e; rw [hpc] at hk; cases hk
    · exact others k e (hk ▸ inside_publishing d)
  have hz : s.createdFor (who i).addr = 0 := h.zero _ hpn (fun k d hk => (nopub k d hk).elim)
  refine ⟨?_, ?_, ?_, ?_, ?_, h.inj, ?_, ?_, ?_, h.handledNodup, ?_, h.dispOk, h.dispNodup, ?_, ?_, ?_, h.pubDisp, by simp [h.setupsTot], ?_, ?_⟩
  · intro j hj
    by_cases e : j = i
    · subst e; exact hl
    · simp only [pcj j e] at hj; exact absurd hj (others j e)
  · intro k hk
    have : k = i := by rw [hl] at hk; cases hk; rfl
    subst this
    exact ⟨by simp [Inside], hpn⟩
  · intro k d hk
    by_cases e : k = i
    · subst e; simp only [upd_same, PC.publishing.injEq] at hk; subst hk
      exact ⟨rfl, by simp [hz], hc⟩
    · simp only [pcj k e] at hk; exact (nopub k d hk).elim
  · intro j d hj
    by_cases e : j = i
    · subst e; simp at hj
    · simp only [pcj j e] at hj; exact h.holds j d hj
  · intro a d ha
    obtain ⟨h1, h2, h3, _⟩ := h.ids a d ha
    have hne : a ≠ (who i).addr := by intro e; rw [e, hpn] at ha; cases ha
    refine ⟨by simp; omega, by simp [upd_other _ _ _ _ hne, h2], h3, fun k d' hk => ?_⟩
    by_cases e : k = i
    · subst e; simp only [upd_same, PC.publishing.injEq] at hk; omega
    · simp only [pcj k e] at hk; exact (nopub k d' hk).elim
  · intro a ha hno
    have hne : a ≠ (who i).addr := by intro e; exact hno i s.created (by simp) e.symm
    simp only [upd_other _ _ _ _ hne]
    exact h.zero a ha (fun k d hk => (nopub k d hk).elim)
  · intro a
    by_cases e : a = (who i).addr
    · subst e; simp [h.setups]
    · simp [upd_other _ _ _ _ e, h.setups]
  · intro p hp'
    have := h.handledOk p hp'
    have e : p.1 ≠ i := by intro e; rw [e, hpc] at this; cases this.1
    simpa [pcj p.1 e] using this
  · intro j d hj
    by_cases e : j = i
    · subst e; simp at hj
    · simp only [pcj j e] at hj; exact h.doneIn j d hj
  · intro j hj
    by_cases e : j = i
    · subst e; simp at hj
    · simp only [pcj j e] at hj; exact h.failedOk j hj
  · intro j hj
    by_cases e : j = i
    · subst e; exact h.kindE j (.inl hin)
    · simp only [pcj j e] at hj; exact h.kindE j hj
  · intro j hj
    by_cases e : j = i
    · subst e; simp at hj
    · simp only [pcj j e] at hj; exact h.kindG j hj
  · intro hno
    exact absurd (by simp) (hno i s.created)
  · intro k d _
    have := h.cnt0 (fun k d hk => nopub k d hk)
    simp [this]

theorem inv_fail {who cr} {s : St} (h : Inv who cr s) (i : Nat) (hpc : s.pc i = .creating)
    (hc : cr (who i).addr = false) : Inv who cr { s with pc := upd s.pc i .failed, lock := none } := by
  have pcj : ∀ j, j ≠ i → upd s.pc i .failed j = s.pc j := fun j hj => upd_other _ _ _ _ hj
  have hin : Inside (s.pc i) := by rw [hpc]; exact inside_creating
  have others : ∀ j, j ≠ i → ¬ Inside (s.pc j) := fun j e hj => e (h.only hin hj)
  have nopub : ∀ k d, s.pc k = .publishing d → False := by
    intro k d hk
    by_cases e : k = i
    · subst e; rw [hpc] at hk; cases hk
    · exact others k e (hk ▸ inside_publishing d)
  refine ⟨?_, ?_, ?_, ?_, ?_, h.inj, ?_, h.setups, ?_, h.handledNodup, ?_, h.dispOk, h.dispNodup, ?_, ?_, ?_, h.pubDisp, h.setupsTot, ?_, ?_⟩
  · intro j hj
    by_cases e : j = i
    · subst e; simp [Inside] at hj
    · simp only [pcj j e] at hj; exact absurd hj (others j e)
  · intro k hk; cases hk
  · intro k d hk
    by_cases e : k = i
    · subst e; simp at hk
    · simp only [pcj k e] at hk; exact (nopub k d hk).elim
  · intro j d hj
    by_cases e : j = i
    · subst e; simp at hj
    · simp only [pcj j e] at hj; exact h.holds j d hj
  · intro a d ha
    obtain ⟨h1, h2, h3, _⟩ := h.ids a d ha
    refine ⟨h1, h2, h3, fun k d' hk => ?_⟩
    by_cases e : k = i
    · subst e; simp at hk
    · simp only [pcj k e] at hk; exact (nopub k d' hk).elim
  · intro a ha _
    exact h.zero a ha (fun k d hk => (nopub k d hk).elim)
  · intro p hp'
    have := h.handledOk p hp'
    have e : p.1 ≠ i := by intro e; rw [e, hpc] at this; cases this.1
    simpa [pcj p.1 e] using this
  · intro j d hj
    by_cases e : j = i
    · subst e; simp at hj
    · simp only [pcj j e] at hj; exact h.doneIn j d hj
  · intro j hj
    by_cases e : j = i
    · subst e; exact hc
    · simp only [pcj j e] at hj; exact h.failedOk j hj
  · intro j hj
    by_cases e : j = i
    · subst e; exact h.kindE j (.inl hin)
    · simp only [pcj j e] at hj; exact h.kindE j hj
  · intro j hj
    by_cases e : j = i
    · subst e; simp at hj
    · simp only [pcj j e] at hj; exact h.kindG j hj
  · intro hno
    refine h.cnt0 (fun k d hq => ?_)
    by_cases e : k = i
    · rw [e, hpc] at hq; cases hq
    · exact hno k d (by simpa [pcj k e] using hq)
  · intro k d hq
    by_cases e : k = i
    · rw [e] at hq; simp at hq
    · simp only [pcj k e] at hq; exact h.cnt1 k d hq

theorem inv_publish {who cr} {s : St} (h : Inv who cr s) (i d : Nat) (hpc : s.pc i = .publishing d) :
    Inv who cr { s with pc := upd s.pc i (.done d), published := upd s.published (who i).addr (some d), dispatched := ((who i).addr, d) :: s.dispatched, lock := none, handled := (i, d) :: s.handled } := by
  have pcj : ∀ j, j ≠ i → upd s.pc i (.done d) j = s.pc j := fun j hj => upd_other _ _ _ _ hj
  have hin : Inside (s.pc i) := by rw [hpc]; exact inside_publishing d
  have hl : s.lock = some i := h.holder i hin
  have hpn : s.published (who i).addr = none := (h.held i hl).2
  obtain ⟨hd1, hd2, hd3⟩ := h.pubId i d hpc
  have others : ∀ j, j ≠ i → ¬ Inside (s.pc j) := fun j e hj => e (h.only hin hj)
  have pubne : ∀ a, a ≠ (who i).addr → upd s.published (who i).addr (some d) a = s.published a :=
    fun a e => upd_other _ _ _ _ e
  have hni : i ∉ s.handled.map (·.1) := by
    intro hm
    obtain ⟨p, hp1, hp2⟩ := List.mem_map.mp hm
    have := (h.handledOk p hp1).1
    rw [hp2, hpc] at this; cases this
  have hna : (who i).addr ∉ s.dispatched.map (·.1) := by
    intro hm
    obtain ⟨p, hp1, hp2⟩ := List.mem_map.mp hm
    have := h.dispOk p hp1
    rw [hp2, hpn] at this; cases this
  refine ⟨?_, ?_, ?_, ?_, ?_, ?_, ?_, h.setups, ?_, ?_, ?_, ?_, ?_, ?_, ?_, ?_, ?_, h.setupsTot, ?_, ?_⟩
  · intro j hj
    by_cases e : j = i
    · subst e; simp [Inside] at hj
    · simp only [pcj j e] at hj; exact absurd hj (others j e)
  · intro k hk; cases hk
  · intro k d' hk
    by_cases e : k = i
    · subst e; simp at hk
    · simp only [pcj k e] at hk; exact absurd (hk ▸ inside_publishing d') (others k e)
  · intro j d' hj
    by_cases e : j = i
    · subst e; simp only [upd_same] at hj
      rcases hj with hj | hj
      · cases hj; simp
      · cases hj
    · simp only [pcj j e] at hj
      have := h.holds j d' hj
      have hne : (who j).addr ≠ (who i).addr := by intro e'; rw [e', hpn] at this; cases this
      simpa [pubne _ hne] using this
  · intro a d' ha
    by_cases e : a = (who i).addr
    · subst e; simp only [upd_same, Option.some.injEq] at ha; subst ha
      refine ⟨by show d < s.created; omega, hd2, hd3, fun k d'' hk => ?_⟩
      by_cases e' : k = i
      · subst e'; simp at hk
      · simp only [pcj k e'] at hk; exact absurd (hk ▸ inside_publishing d'') (others k e')
    · simp only [pubne a e] at ha
      obtain ⟨h1, h2, h3, _⟩ := h.ids a d' ha
      refine ⟨h1, h2, h3, fun k d'' hk => ?_⟩
      by_cases e' : k = i
      · subst e'; simp at hk
      · simp only [pcj k e'] at hk; exact absurd (hk ▸ inside_publishing d'') (others k e')
  · intro a b d' ha hb
    by_cases ea : a = (who i).addr <;> by_cases eb : b = (who i).addr
    · rw [ea, eb]
    · subst ea; simp only [upd_same, Option.some.injEq] at ha; subst ha
      simp only [pubne b eb] at hb
      exact absurd rfl ((h.ids b d hb).2.2.2 i d hpc)
    · subst eb; simp only [upd_same, Option.some.injEq] at hb; subst hb
      simp only [pubne a ea] at ha
      exact absurd rfl ((h.ids a d ha).2.2.2 i d hpc)
    · simp only [pubne a ea] at ha; simp only [pubne b eb] at hb; exact h.inj a b d' ha hb
  · intro a ha _
    have e : a ≠ (who i).addr := by intro e; subst e; simp at ha
    simp only [pubne a e] at ha
    refine h.zero a ha (fun k d' hk => ?_)
    by_cases e' : k = i
    · subst e'; exact fun e'' => e e''.symm
    · exact absurd (hk ▸ inside_publishing d') (others k e')
  · intro p hp'
    rcases List.mem_cons.mp hp' with rfl | hp'
    · exact ⟨by simp, h.kindE i (.inl hin)⟩
    · have := h.handledOk p hp'
      have e : p.1 ≠ i := by intro e; exact hni (List.mem_map.mpr ⟨p, hp', e⟩)
      simpa [pcj p.1 e] using this
  · simpa [List.nodup_cons] using ⟨fun x hx => hni (List.mem_map.mpr ⟨(i, x), hx, rfl⟩), h.handledNodup⟩
  · intro j d' hj
    by_cases e : j = i
    · subst e; simp only [upd_same] at hj; cases hj; exact List.mem_cons_self ..
    · simp only [pcj j e] at hj; exact List.mem_cons_of_mem _ (h.doneIn j d' hj)
  · intro p hp'
    rcases List.mem_cons.mp hp' with rfl | hp'
    · simp
    · have := h.dispOk p hp'
      have e : p.1 ≠ (who i).addr := by intro e; exact hna (List.mem_map.mpr ⟨p, hp', e⟩)
      simpa [pubne p.1 e] using this
  · simpa [List.nodup_cons] using ⟨fun x hx => hna (List.mem_map.mpr ⟨((who i).addr, x), hx, rfl⟩), h.dispNodup⟩
  · intro j hj
    by_cases e : j = i
    · subst e; simp at hj
    · simp only [pcj j e] at hj; exact h.failedOk j hj
  · intro j hj
    by_cases e : j = i
    · subst e; exact h.kindE j (.inl hin)
    · simp only [pcj j e] at hj; exact h.kindE j hj
  · intro j hj
    by_cases e : j = i
    · subst e; simp at hj
    · simp only [pcj j e] at hj; exact h.kindG j hj
  · intro a d' ha
    by_cases e : a = (who i).addr
    · subst e; simp only [upd_same, Option.some.injEq] at ha; subst ha; exact List.mem_cons_self ..
    · simp only [pubne a e] at ha; exact List.mem_cons_of_mem _ (h.pubDisp a d' ha)
  · intro _
    simpa using h.cnt1 i d hpc
  · intro k d' hk
    by_cases e : k = i
    · subst e; simp at hk
    · simp only [pcj k e] at hk; exact absurd (hk ▸ inside_publishing d') (others k e)

theorem inv_step (who : Nat → Caller) (cr : Nat → Bool) (s : St) (i : Nat) (h : Inv who cr s) :
    Inv who cr (step true who cr s i) := by
  have hs := step_shape who cr s i
  generalize step true who cr s i = s' at hs ⊢
  cases hs with
  | stutter => exact h
  | finish d hpc hk hl hp => exact inv_finish h i d hpc hk hp
  | acquire hpc hk hl hp => exact inv_acquire h i hpc hk hl hp
  | gnow d hpc hp =>
    refine inv_move h i (.got d) ?_ ?_ (by simp [Inside]) (by simp) (fun d' e => by cases e; exact hp) (by simp) (by simp) ?_
    · rcases hpc with ⟨e, _⟩ | e <;> simp [e, Inside]
    · rcases hpc with ⟨e, _⟩ | e <;> simp [e]
    · intro _
      rcases hpc with ⟨_, e⟩ | e
      · exact e
      · exact h.kindG i (.inl e)
  | gpark hpc hk hp =>
    exact inv_move h i .gwait (by simp [hpc, Inside]) (by simp [hpc]) (by simp [Inside]) (by simp) (by simp) (by simp)
      (by simp) (fun _ => hk)
  | build hpc hc => exact inv_build h i hpc hc
  | fail hpc hc => exact inv_fail h i hpc hc
  | publish d hpc => exact inv_publish h i d hpc

theorem inv_run (who : Nat → Caller) (cr : Nat → Bool) (s : St) (is : List Nat) (h : Inv who cr s) :
    Inv who cr (run true who cr s is) := by
  induction is generalizing s with
  | nil => exact h
  | cons i is ih => exact ih _ (inv_step who cr s i h)

theorem run_append (lk : Bool) (who : Nat → Caller) (cr : Nat → Bool) (s : St) (a b : List Nat) :
    run lk who cr s (a ++ b) = run lk who cr (run lk who cr s a) b := by
  induction a generalizing s with
  | nil => rfl
  | cons i a ih => exact ih _


/-! ### reconnects do not touch the machine -/

theorem inv_stepMv (who : Nat → Caller) (cr : Nat → Bool) (s : St) (m : Mv) (h : Inv who cr s) :
    Inv who cr (stepMv true false who cr s m) := by
  cases m with
  | move i => exact inv_step who cr s i h
  | reconnect => exact h

theorem inv_runMv (who : Nat → Caller) (cr : Nat → Bool) (s : St) (ms : List Mv) (h : Inv who cr s) :
    Inv who cr (runMv true false who cr s ms) := by
  induction ms generalizing s with
  | nil => exact h
  | cons m ms ih => exact ih _ (inv_stepMv who cr s m h)

/-- a timeline with reconnects is the same machine run as the timeline without them -/
def movesOf : List Mv → List Nat
  | [] => []
  | .move i :: ms => i :: movesOf ms
  | .reconnect :: ms => movesOf ms

theorem runMv_eq_run (who : Nat → Caller) (cr : Nat → Bool) (s : St) (ms : List Mv) :
    runMv true false who cr s ms = run true who cr s (movesOf ms) := by
  induction ms generalizing s with
  | nil => rfl
  | cons m ms ih => cases m <;> simp [runMv, stepMv, movesOf, run, ih]

/-! ### what a step does to the other callers and to the entries -/

theorem shape_pc_other {who cr s i s'} (h : Shape who cr s i s') (j : Nat) (hj : j ≠ i) : s'.pc j = s.pc j := by
  cases h <;> simp [finish, upd_other _ _ _ _ hj]

theorem step_pc_other (who : Nat → Caller) (cr : Nat → Bool) (s : St) (i j : Nat) (hj : j ≠ i) :
    (step true who cr s i).pc j = s.pc j := shape_pc_other (step_shape who cr s i) j hj

/-- an entry, once published, is never replaced -/
theorem step_published_mono (who : Nat → Caller) (cr : Nat → Bool) (s : St) (i : Nat) (h : Inv who cr s)
    (a d : Nat) (ha : s.published a = some d) : (step true who cr s i).published a = some d := by
  have hs := step_shape who cr s i
  generalize step true who cr s i = s' at hs ⊢
  cases hs with
  | publish d' hpc =>
    have hl := h.holder i (by rw [hpc]; exact inside_publishing d')
    have hn := (h.held i hl).2
    have e : a ≠ (who i).addr := by intro e; rw [e, hn] at ha; cases ha
    simpa [upd_other _ _ _ _ e] using ha
  | _ => simpa [finish] using ha

theorem run_published_mono (who : Nat → Caller) (cr : Nat → Bool) (s : St) (is : List Nat) (h : Inv who cr s)
    (a d : Nat) (ha : s.published a = some d) : (run true who cr s is).published a = some d := by
  induction is generalizing s with
  | nil => exact ha
  | cons i is ih => exact ih _ (inv_step who cr s i h) (step_published_mono who cr s i h a d ha)

/-! ### the replay used by the driver is a run of the machine -/

/-- the replay state is a state of the machine under the schedule it recorded, and callers
that do not exist yet have not moved -/
structure RInv (who : Nat → Caller) (cr : Nat → Bool) (r : Replay) : Prop where
  isRun : r.st = run true who cr init r.sched.reverse
  fresh : ∀ j, j ∉ callers r → r.st.pc j = .start

theorem RInv.inv {who cr r} (h : RInv who cr r) : Inv who cr r.st := by
  rw [h.isRun]; exact inv_run who cr init _ (inv_init who cr)

theorem pass_spec (who : Nat → Caller) (cr : Nat → Bool) (r : Replay) (h : RInv who cr r) :
    RInv who cr (pass true who cr r) ∧ (pass true who cr r).frames = r.frames ∧ (pass true who cr r).gets = r.gets := by
  unfold pass
  have key : ∀ (l : List Nat) (r0 : Replay), (∀ j ∈ l, j ∈ callers r0) → RInv who cr r0 →
      let r1 := l.foldl (fun r j => if isCreating (r.st.pc j) then r
          else { r with st := step true who cr r.st j, sched := j :: r.sched }) r0
      RInv who cr r1 ∧ r1.frames = r0.frames ∧ r1.gets = r0.gets := by
    intro l
    induction l with
    | nil => intro r0 _ h0; exact ⟨h0, rfl, rfl⟩
    | cons j l ih =>
      intro r0 hl h0
      simp only [List.foldl_cons]
      by_cases hc : isCreating (r0.st.pc j) = true
      · simp only [hc, if_true]; exact ih r0 (fun x hx => hl x (List.mem_cons_of_mem _ hx)) h0
      · simp only [hc]
        have hj : j ∈ callers r0 := hl j (List.mem_cons_self ..)
        have h1 : RInv who cr { r0 with st := step true who cr r0.st j, sched := j :: r0.sched } := by
          refine ⟨by simp [run_append, ← h0.isRun, run], fun x hx => ?_⟩
          have hx' : x ∉ callers r0 := hx
          have : x ≠ j := fun e => hx' (e ▸ hj)
          simpa [step_pc_other who cr r0.st j x this] using h0.fresh x hx'
        have := ih { r0 with st := step true who cr r0.st j, sched := j :: r0.sched }
          (fun x hx => hl x (List.mem_cons_of_mem _ hx)) h1
        simpa using this
  exact key _ r (fun j hj => hj) h

theorem settle_spec (who : Nat → Caller) (cr : Nat → Bool) (fuel : Nat) (r r' : Replay) (h : RInv who cr r)
    (hs : settle true who cr fuel r = some r') :
    RInv who cr r' ∧ quiet true who cr r' = true ∧ r'.frames = r.frames ∧ r'.gets = r.gets := by
  induction fuel generalizing r with
  | zero =>
    simp only [settle] at hs
    split at hs
    · rename_i hq; cases hs; exact ⟨h, hq, rfl, rfl⟩
    · cases hs
  | succ k ih =>
    simp only [settle] at hs
    split at hs
    · rename_i hq; cases hs; exact ⟨h, hq, rfl, rfl⟩
    · obtain ⟨h1, h2, h3⟩ := pass_spec who cr r h
      obtain ⟨a, b, c, d⟩ := ih _ h1 hs
      exact ⟨a, b, by rw [c, h2], by rw [d, h3]⟩

theorem mem_callers (r : Replay) (j : Nat) :
    j ∈ callers r ↔ (j % 2 = 0 ∧ j / 2 < r.frames) ∨ (j % 2 = 1 ∧ j / 2 < r.gets) := by
  simp only [callers, List.mem_append, List.mem_map, List.mem_range]
  constructor
  · rintro (⟨f, hf, rfl⟩ | ⟨g, hg, rfl⟩)
    · left; omega
    · right; omega
  · rintro (⟨h1, h2⟩ | ⟨h1, h2⟩)
    · left; exact ⟨j / 2, h2, by omega⟩
    · right; exact ⟨j / 2, h2, by omega⟩

theorem applyEv_spec (who : Nat → Caller) (cr : Nat → Bool) (r r' : Replay) (e : Ev) (h : RInv who cr r)
    (he : applyEv true who cr r e = some r') :
    RInv who cr r' ∧ quiet true who cr r' = true ∧
      r'.frames = r.frames + (frameAddrs [e]).length ∧ r'.gets = r.gets + (getAddrs [e]).length := by
  have grow : ∀ (f g : Nat), r.frames ≤ f → r.gets ≤ g →
      RInv who cr { r with frames := f, gets := g } := by
    intro f g hf hg
    refine ⟨h.isRun, fun j hj => h.fresh j (fun hm => hj ?_)⟩
    rw [mem_callers] at hm ⊢
    rcases hm with ⟨a, b⟩ | ⟨a, b⟩
    · exact .inl ⟨a, by simp only []; omega⟩
    · exact .inr ⟨a, by simp only []; omega⟩
  cases e with
  | feed a m =>
    simp only [applyEv] at he
    obtain ⟨x, y, z, w⟩ := settle_spec who cr _ _ _ (grow (r.frames + m) r.gets (by omega) (Nat.le_refl _)) he
    exact ⟨x, y, by simp [frameAddrs, z], by simp [getAddrs, w]⟩
  | get a =>
    simp only [applyEv] at he
    obtain ⟨x, y, z, w⟩ := settle_spec who cr _ _ _ (grow r.frames (r.gets + 1) (Nat.le_refl _) (by omega)) he
    exact ⟨x, y, by simp [frameAddrs, z], by simp [getAddrs, w]⟩
  | release =>
    simp only [applyEv] at he
    split at he
    · rename_i j hj
      have hjm : j ∈ callers r := List.mem_of_find?_eq_some hj
      have h1 : RInv who cr { r with st := step true who cr r.st j, sched := j :: r.sched } := by
        refine ⟨by simp [run_append, ← h.isRun, run], fun x hx => ?_⟩
        have hx' : x ∉ callers r := hx
        have : x ≠ j := fun e => hx' (e ▸ hjm)
        simpa [step_pc_other who cr r.st j x this] using h.fresh x hx'
      obtain ⟨x, y, z, w⟩ := settle_spec who cr _ _ _ h1 he
      exact ⟨x, y, by simp [frameAddrs, z], by simp [getAddrs, w]⟩
    · cases he
  | reconnect =>
    simp only [applyEv] at he
    obtain ⟨x, y, z, w⟩ := settle_spec who cr _ _ _ h he
    exact ⟨x, y, by simp [frameAddrs, z], by simp [getAddrs, w]⟩
  | timedOut a =>
    simp only [applyEv] at he
    obtain ⟨x, y, z, w⟩ := settle_spec who cr _ _ _ h he
    exact ⟨x, y, by simp [frameAddrs, z], by simp [getAddrs, w]⟩

/-- the events applied one after the other; `none` = not accepted -/
def runEvs (who : Nat → Caller) (cr : Nat → Bool) : Replay → List Ev → Option Replay
  | r, [] => some r
  | r, e :: es =>
    match applyEv true who cr r e with
    | some r' => runEvs who cr r' es
    | none => none

theorem frameAddrs_cons (e : Ev) (es : List Ev) : frameAddrs (e :: es) = frameAddrs [e] ++ frameAddrs es := by
  cases e <;> simp [frameAddrs]

theorem getAddrs_cons (e : Ev) (es : List Ev) : getAddrs (e :: es) = getAddrs [e] ++ getAddrs es := by
  cases e <;> simp [getAddrs]

theorem runEvs_spec (who : Nat → Caller) (cr : Nat → Bool) (evs : List Ev) (r r' : Replay) (h : RInv who cr r)
    (hq : quiet true who cr r = true) (he : runEvs who cr r evs = some r') :
    RInv who cr r' ∧ quiet true who cr r' = true ∧
      r'.frames = r.frames + (frameAddrs evs).length ∧ r'.gets = r.gets + (getAddrs evs).length := by
  induction evs generalizing r with
  | nil => simp only [runEvs, Option.some.injEq] at he; subst he; exact ⟨h, hq, by simp [frameAddrs], by simp [getAddrs]⟩
  | cons e es ih =>
    simp only [runEvs] at he
    split at he
    · rename_i r1 h1
      obtain ⟨a, b, c, d⟩ := applyEv_spec who cr r r1 e h h1
      obtain ⟨a', b', c', d'⟩ := ih r1 a b he
      refine ⟨a', b', ?_, ?_⟩
      · rw [c', c, frameAddrs_cons e es, List.length_append]; omega
      · rw [d', d, getAddrs_cons e es, List.length_append]; omega
    · cases he

theorem rinv_replay0 (who : Nat → Caller) (cr : Nat → Bool) : RInv who cr replay0 :=
  ⟨rfl, fun _ _ => rfl⟩

theorem quiet_replay0 (who : Nat → Caller) (cr : Nat → Bool) : quiet true who cr replay0 = true := by
  simp [quiet, callers, replay0]


/-! ### what a quiescent replay state shows -/

theorem nodup_half (l : List Nat) (hn : l.Nodup) (he : ∀ a ∈ l, a % 2 = 0) : (l.map (· / 2)).Nodup := by
  induction l with
  | nil => simp
  | cons a l ih =>
    rw [List.nodup_cons] at hn
    simp only [List.map_cons, List.nodup_cons, List.mem_map]
    refine ⟨?_, ih hn.2 (fun b hb => he b (List.mem_cons_of_mem _ hb))⟩
    rintro ⟨b, hb, e⟩
    have h1 := he a (List.mem_cons_self ..)
    have h2 := he b (List.mem_cons_of_mem _ hb)
    have : a = b := by omega
    subst this; exact hn.1 hb

theorem nodup_reverse' {α} (l : List α) (h : l.Nodup) : l.reverse.Nodup := by
  simp only [List.Nodup, List.pairwise_reverse] at *
  exact h.imp (fun h => Ne.symm h)

/-- if `f` separates the elements of a list and `g` separates whatever `f` does, `g` separates them too -/
theorem nodup_map_of_nodup_map {α β γ} (f : α → β) (g : α → γ) (l : List α) (hf : (l.map f).Nodup)
    (hfg : ∀ x ∈ l, ∀ y ∈ l, g x = g y → f x = f y) : (l.map g).Nodup := by
  induction l with
  | nil => simp
  | cons a l ih =>
    simp only [List.map_cons, List.nodup_cons, List.mem_map] at hf ⊢
    refine ⟨?_, ih hf.2 (fun x hx y hy => hfg x (List.mem_cons_of_mem _ hx) y (List.mem_cons_of_mem _ hy))⟩
    rintro ⟨b, hb, e⟩
    exact hf.1 ⟨b, hb, hfg b (List.mem_cons_of_mem _ hb) a (List.mem_cons_self ..) e⟩

theorem whoPar_even (fa ga : List Nat) (j : Nat) (h : j % 2 = 0) : whoPar fa ga j = ⟨.entry, fa.getD (j / 2) 0⟩ := by
  simp [whoPar, h]

theorem whoPar_odd (fa ga : List Nat) (j : Nat) (h : j % 2 = 1) : whoPar fa ga j = ⟨.get, ga.getD (j / 2) 0⟩ := by
  simp [whoPar, h]

theorem entry_even (fa ga : List Nat) (j : Nat) (h : (whoPar fa ga j).kind = .entry) : j % 2 = 0 := by
  by_cases e : j % 2 = 0
  · exact e
  · rw [whoPar_odd fa ga j (by omega)] at h; cases h

/-- a quiescent replay state has nobody in `publishing` -/
theorem quiet_no_publishing {who cr r} (h : RInv who cr r) (hq : quiet true who cr r = true) (k d : Nat) :
    r.st.pc k ≠ .publishing d := by
  intro hk
  by_cases hm : k ∈ callers r
  · simp only [quiet, List.all_eq_true, Bool.or_eq_true, decide_eq_true_eq] at hq
    rcases hq k hm with c | c
    · rw [hk] at c; cases c
    · simp [step, hk] at c
  · rw [h.fresh k hm] at hk; cases hk

/-- **every snapshot the replay shows satisfies the statement's per-instant predicate** -/
theorem quiet_snapOk (fa ga : List Nat) (cr : Nat → Bool) (r : Replay) (h : RInv (whoPar fa ga) cr r)
    (hq : quiet true (whoPar fa ga) cr r = true) : C10.snapOk fa ga (observe r) = true := by
  have inv := h.inv
  have nopub := quiet_no_publishing h hq
  have hfilter : (r.st.dispatched.reverse.filter fun p => r.st.published p.1 == some p.2) = r.st.dispatched.reverse := by
    apply List.filter_eq_self.mpr
    intro p hp
    simp [inv.dispOk p (List.mem_reverse.mp hp)]
  have inDisp : ∀ a d, r.st.published a = some d →
      (r.st.dispatched.reverse.filter fun p => r.st.published p.1 == some p.2).contains (a, d) = true := by
    intro a d ha
    rw [hfilter]
    simp [inv.pubDisp a d ha]
  simp only [C10.snapOk, Bool.and_eq_true, decide_eq_true_eq]
  refine ⟨⟨⟨⟨⟨⟨⟨?_, ?_⟩, ?_⟩, ?_⟩, ?_⟩, ?_⟩, ?_⟩, ?_⟩
  · show (r.st.dispatched.reverse.map (·.1)).Nodup
    rw [List.map_reverse]; exact nodup_reverse' _ inv.dispNodup
  · show (r.st.dispatched.reverse.map (·.2)).Nodup
    rw [List.map_reverse]; apply nodup_reverse'
    refine nodup_map_of_nodup_map (fun p : Nat × Nat => p.1) (fun p : Nat × Nat => p.2) r.st.dispatched inv.dispNodup (fun x hx y hy e => ?_)
    exact inv.inj x.1 y.1 x.2 (inv.dispOk x hx) (e ▸ inv.dispOk y hy)
  · simp [observe, hfilter]
  · simp [observe, inv.cnt0 nopub]
  · simp [observe, inv.setupsTot]
  · simp only [List.all_eq_true, List.mem_range]
    intro g hg
    have hlen : (observe r).gets.length = r.gets := by simp [observe]
    have hget : (observe r).gets.getD g none = getRes (r.st.pc (2 * g + 1)) := by
      simp only [observe, List.getD_eq_getElem?_getD]
      rw [List.getElem?_map, List.getElem?_range (by omega)]; rfl
    rw [hget]
    cases hp : r.st.pc (2 * g + 1) <;> simp only [getRes]
    rename_i d
    have := inv.holds (2 * g + 1) d (.inr hp)
    rw [whoPar_odd fa ga _ (by omega)] at this
    have e : (2 * g + 1) / 2 = g := by omega
    rw [e] at this
    exact inDisp _ _ this
  · simp only [List.all_eq_true]
    intro p hp
    simp only [observe, List.mem_map, List.mem_reverse] at hp
    obtain ⟨q, hq', rfl⟩ := hp
    obtain ⟨h1, h2⟩ := inv.handledOk q hq'
    have hev := entry_even fa ga q.1 h2
    have := inv.holds q.1 q.2 (.inl h1)
    rw [whoPar_even fa ga _ hev] at this
    exact inDisp _ _ this
  · show ((r.st.handled.reverse.map fun p => (p.1 / 2, p.2)).map (·.1)).Nodup
    have : ((r.st.handled.reverse.map fun p => (p.1 / 2, p.2)).map (·.1))
        = ((r.st.handled.map (·.1)).map (· / 2)).reverse := by
      simp [List.map_reverse, Function.comp_def]
    rw [this]
    apply nodup_reverse'
    apply nodup_half _ inv.handledNodup
    intro a ha
    obtain ⟨p, hp1, hp2⟩ := List.mem_map.mp ha
    exact hp2 ▸ entry_even fa ga p.1 (inv.handledOk p hp1).2


/-! ### what the enabled moves do (for building schedules) -/

theorem step_creating_ok (who : Nat → Caller) (cr : Nat → Bool) (s : St) (i : Nat) (hpc : s.pc i = .creating)
    (hc : cr (who i).addr = true) :
    (step true who cr s i).pc i = .publishing s.created ∧ (step true who cr s i).lock = s.lock := by
  simp [step, hpc, hc]

theorem step_creating_fail (who : Nat → Caller) (cr : Nat → Bool) (s : St) (i : Nat) (hpc : s.pc i = .creating)
    (hc : cr (who i).addr = false) :
    (step true who cr s i).pc i = .failed ∧ (step true who cr s i).lock = none := by
  simp [step, hpc, hc]

theorem step_publishing (who : Nat → Caller) (cr : Nat → Bool) (s : St) (i d : Nat) (hpc : s.pc i = .publishing d) :
    (step true who cr s i).pc i = .done d ∧ (step true who cr s i).lock = none := by
  simp [step, hpc]

theorem step_start_entry (who : Nat → Caller) (cr : Nat → Bool) (s : St) (i : Nat) (hpc : s.pc i = .start)
    (hk : (who i).kind = .entry) (hl : s.lock = none) :
    (∃ d, (step true who cr s i).pc i = .done d) ∨
      ((step true who cr s i).pc i = .creating ∧ (step true who cr s i).lock = some i) := by
  unfold step
  simp only [hpc, hk, hl]
  cases s.published (who i).addr with
  | some d => left; exact ⟨d, by simp [finish]⟩
  | none => right; simp

/-- whoever holds the lock (other than `j`) can always be run out of it in at most two moves -/
theorem free_lock (who : Nat → Caller) (cr : Nat → Bool) (s : St) (h : Inv who cr s) (j : Nat) :
    ∃ m : List Nat, m.length ≤ 2 ∧ ((run true who cr s m).lock = none ∨ (run true who cr s m).lock = some j) ∧
      (run true who cr s m).pc j = s.pc j := by
  cases hl : s.lock with
  | none => exact ⟨[], by simp, .inl hl, rfl⟩
  | some k =>
    by_cases e : k = j
    · subst e; exact ⟨[], by simp, .inr hl, rfl⟩
    · have hj : j ≠ k := fun e' => e e'.symm
      rcases (h.held k hl).1 with c | ⟨d, c⟩
      · cases hc : cr (who k).addr with
        | true =>
          obtain ⟨a1, _⟩ := step_creating_ok who cr s k c hc
          obtain ⟨b1, b2⟩ := step_publishing who cr _ k _ a1
          refine ⟨[k, k], by simp, .inl (by simpa [run] using b2), ?_⟩
          simp [run, step_pc_other who cr _ k j hj]
        | false =>
          obtain ⟨_, a2⟩ := step_creating_fail who cr s k c hc
          exact ⟨[k], by simp, .inl (by simpa [run] using a2), by simp [run, step_pc_other who cr _ k j hj]⟩
      · obtain ⟨_, b2⟩ := step_publishing who cr s k d c
        exact ⟨[k], by simp, .inl (by simpa [run] using b2), by simp [run, step_pc_other who cr _ k j hj]⟩

/-- with the lock free or its own, a frame consumer finishes within three moves -/
theorem finish_own (who : Nat → Caller) (cr : Nat → Bool) (s : St) (h : Inv who cr s) (j : Nat)
    (hk : (who j).kind = .entry) (hl : s.lock = none ∨ s.lock = some j) :
    ∃ m : List Nat, m.length ≤ 3 ∧
      ((∃ d, (run true who cr s m).pc j = .done d) ∨ (run true who cr s m).pc j = .failed) := by
  -- from `creating` (own lock): two moves or one
  have from_creating : ∀ s : St, s.pc j = .creating → ∃ m : List Nat, m.length ≤ 2 ∧
      ((∃ d, (run true who cr s m).pc j = .done d) ∨ (run true who cr s m).pc j = .failed) := by
    intro s c
    cases hc : cr (who j).addr with
    | true =>
      obtain ⟨a1, _⟩ := step_creating_ok who cr s j c hc
      obtain ⟨b1, _⟩ := step_publishing who cr _ j _ a1
      exact ⟨[j, j], by simp, .inl ⟨_, by simpa [run] using b1⟩⟩
    | false =>
      obtain ⟨a1, _⟩ := step_creating_fail who cr s j c hc
      exact ⟨[j], by simp, .inr (by simpa [run] using a1)⟩
  cases hp : s.pc j with
  | start =>
    have hl' : s.lock = none := by
      rcases hl with hl | hl
      · exact hl
      · have := (h.held j hl).1; rw [hp] at this; exact absurd this inside_start
    rcases step_start_entry who cr s j hp hk hl' with ⟨d, hd⟩ | ⟨hc, _⟩
    · exact ⟨[j], by simp, .inl ⟨d, by simpa [run] using hd⟩⟩
    · obtain ⟨m, hm1, hm2⟩ := from_creating _ hc
      exact ⟨j :: m, by simp; omega, by simpa [run] using hm2⟩
  | creating =>
    obtain ⟨m, hm1, hm2⟩ := from_creating s hp
    exact ⟨m, by omega, hm2⟩
  | publishing d =>
    obtain ⟨b1, _⟩ := step_publishing who cr s j d hp
    exact ⟨[j], by simp, .inl ⟨d, by simpa [run] using b1⟩⟩
  | done d => exact ⟨[], by simp, .inl ⟨d, by simpa [run] using hp⟩⟩
  | failed => exact ⟨[], by simp, .inr (by simpa [run] using hp)⟩
  | gwait => have := h.kindG j (.inl hp); rw [hk] at this; cases this
  | got d => have := h.kindG j (.inr ⟨d, hp⟩); rw [hk] at this; cases this

theorem step_start_moves (who : Nat → Caller) (cr : Nat → Bool) (s : St) (i : Nat) (hpc : s.pc i = .start)
    (h : (who i).kind = .get ∨ s.lock = none) : (step true who cr s i).pc i ≠ .start := by
  unfold step
  simp only [hpc]
  cases hk : (who i).kind with
  | get => cases s.published (who i).addr <;> simp
  | entry =>
    have hl : s.lock = none := by
      rcases h with h | h
      · rw [hk] at h; cases h
      · exact h
    cases hp : s.published (who i).addr <;> simp [hl, finish]

theorem step_gwait_moves (who : Nat → Caller) (cr : Nat → Bool) (s : St) (i d : Nat) (hpc : s.pc i = .gwait)
    (hp : s.published (who i).addr = some d) : (step true who cr s i).pc i ≠ .gwait := by
  unfold step
  simp [hpc, hp]

/-- **a complete run ends well**: a quiescent replay state in which every frame has been fed,
every get() made and no class loading is pending shows every frame of an address with a
device class handled (by that address's entry, `quiet_snapOk`), every frame of an address
without one dropped, and every get() for an address that has an entry returned -/
theorem quiet_finalOk (fa ga : List Nat) (cr : Nat → Bool) (r : Replay) (h : RInv (whoPar fa ga) cr r)
    (hq : quiet true (whoPar fa ga) cr r = true) (hf : r.frames = fa.length) (hg : r.gets = ga.length)
    (hheld : (observe r).held = 0) : C10.finalOk fa ga cr (observe r) = true := by
  have inv := h.inv
  have nopub := quiet_no_publishing h hq
  have hsnap := quiet_snapOk fa ga cr r h hq
  have hfilter : (r.st.dispatched.reverse.filter fun p => r.st.published p.1 == some p.2) = r.st.dispatched.reverse := by
    apply List.filter_eq_self.mpr
    intro p hp
    simp [inv.dispOk p (List.mem_reverse.mp hp)]
  have nocreating : ∀ j ∈ callers r, r.st.pc j ≠ .creating := by
    intro j hj hc
    have : j ∈ (callers r).filter fun j => isCreating (r.st.pc j) := List.mem_filter.mpr ⟨hj, by simp [hc, isCreating]⟩
    have hl : ((callers r).filter fun j => isCreating (r.st.pc j)).length = 0 := hheld
    rw [List.length_eq_zero_iff.mp hl] at this; cases this
  have hlock : r.st.lock = none := by
    cases hl : r.st.lock with
    | none => rfl
    | some k =>
      rcases (inv.held k hl).1 with c | ⟨d, c⟩
      · by_cases hm : k ∈ callers r
        · exact absurd c (nocreating k hm)
        · rw [h.fresh k hm] at c; cases c
      · exact absurd c (nopub k d)
  have still : ∀ j ∈ callers r, (step true (whoPar fa ga) cr r.st j).pc j = r.st.pc j := by
    intro j hj
    simp only [quiet, List.all_eq_true, Bool.or_eq_true, decide_eq_true_eq] at hq
    rcases hq j hj with c | c
    · exact absurd (by cases hp : r.st.pc j <;> simp_all [isCreating]) (nocreating j hj)
    · exact c
  simp only [C10.finalOk, Bool.and_eq_true, hsnap, true_and]
  refine ⟨⟨⟨?_, ?_⟩, ?_⟩, ?_⟩
  · simp [hheld]
  · -- frames
    simp only [List.all_eq_true, List.mem_range]
    intro f hfl
    have hj : 2 * f ∈ callers r := (mem_callers r _).mpr (.inl ⟨by omega, by omega⟩)
    have hw : whoPar fa ga (2 * f) = ⟨.entry, fa.getD f 0⟩ := by
      rw [whoPar_even fa ga _ (by omega)]; congr 2; omega
    have hstill := still _ hj
    have obsmem : ∀ d, (2 * f, d) ∈ r.st.handled → f ∈ (observe r).handled.map (·.1) := by
      intro d hd
      simp only [observe, List.map_map, List.mem_map, List.mem_reverse]
      exact ⟨(2 * f, d), hd, by simp⟩
    have obsnot : (∀ d, r.st.pc (2 * f) ≠ .done d) → f ∉ (observe r).handled.map (·.1) := by
      intro hnd hm
      simp only [observe, List.map_map, List.mem_map, List.mem_reverse] at hm
      obtain ⟨q, hq1, hq2⟩ := hm
      obtain ⟨a1, a2⟩ := inv.handledOk q hq1
      have hev := entry_even fa ga q.1 a2
      have : q.1 = 2 * f := by simp at hq2; omega
      rw [this] at a1; exact hnd _ a1
    cases hp : r.st.pc (2 * f) with
    | start =>
      exact absurd (hp ▸ hstill) (step_start_moves _ cr r.st _ hp (.inr hlock))
    | creating => exact absurd hp (nocreating _ hj)
    | publishing d => exact absurd hp (nopub _ d)
    | done d =>
      have h1 := obsmem d (inv.doneIn _ d hp)
      have h2 := inv.holds _ d (.inl hp)
      rw [hw] at h2
      have h3 := (inv.ids _ d h2).2.2.1
      rw [List.contains_iff_mem.mpr h1, h3]; rfl
    | failed =>
      have h1 := inv.failedOk _ hp
      rw [hw] at h1
      have h2 := obsnot (by intro d; rw [hp]; simp)
      have hc : ((observe r).handled.map (·.1)).contains f = false := by
        cases hcc : ((observe r).handled.map (·.1)).contains f with
        | false => rfl
        | true => exact absurd (List.contains_iff_mem.mp hcc) h2
      rw [hc, h1]; rfl
    | gwait => have := inv.kindG _ (.inl hp); rw [hw] at this; cases this
    | got d => have := inv.kindG _ (.inr ⟨d, hp⟩); rw [hw] at this; cases this
  · simp [observe, hg]
  · -- gets
    simp only [List.all_eq_true, List.mem_range]
    intro g hgl
    have hj : 2 * g + 1 ∈ callers r := (mem_callers r _).mpr (.inr ⟨by omega, by omega⟩)
    have hw : whoPar fa ga (2 * g + 1) = ⟨.get, ga.getD g 0⟩ := by
      rw [whoPar_odd fa ga _ (by omega)]; congr 2; omega
    have hstill := still _ hj
    have hget : (observe r).gets.getD g none = getRes (r.st.pc (2 * g + 1)) := by
      simp only [observe, List.getD_eq_getElem?_getD]
      rw [List.getElem?_map, List.getElem?_range (by omega)]; rfl
    have pubfst : ∀ a, a ∈ (observe r).published.map (·.1) ↔ ∃ d, r.st.published a = some d := by
      intro a
      simp only [observe, hfilter, List.mem_map, List.mem_reverse]
      constructor
      · rintro ⟨p, hp1, rfl⟩; exact ⟨p.2, inv.dispOk p hp1⟩
      · rintro ⟨d, hd⟩; exact ⟨(a, d), inv.pubDisp a d hd, rfl⟩
    rw [hget]
    cases hp : r.st.pc (2 * g + 1) with
    | start =>
      exact absurd (hp ▸ hstill) (step_start_moves _ cr r.st _ hp (.inl (by rw [hw])))
    | gwait =>
      have hnone : r.st.published (ga.getD g 0) = none := by
        cases hpa : r.st.published (ga.getD g 0) with
        | none => rfl
        | some d => exact absurd (hp ▸ hstill) (step_gwait_moves _ cr r.st _ d hp (by rw [hw]; exact hpa))
      have : ga.getD g 0 ∉ (observe r).published.map (·.1) := by
        rw [pubfst]; rintro ⟨d, hd⟩; rw [hnone] at hd; cases hd
      have hc : ((observe r).published.map (·.1)).contains (ga.getD g 0) = false := by
        cases hcc : ((observe r).published.map (·.1)).contains (ga.getD g 0) with
        | false => rfl
        | true => exact absurd (List.contains_iff_mem.mp hcc) this
      rw [hc]; rfl
    | got d =>
      have h2 := inv.holds _ d (.inr hp)
      rw [hw] at h2
      have : ga.getD g 0 ∈ (observe r).published.map (·.1) := (pubfst _).mpr ⟨d, h2⟩
      rw [List.contains_iff_mem.mpr this]; rfl
    | creating => have := inv.kindE _ (.inl (.inl hp)); rw [hw] at this; cases this
    | publishing d => have := inv.kindE _ (.inl (.inr ⟨d, hp⟩)); rw [hw] at this; cases this
    | done d => have := inv.kindE _ (.inr (.inl ⟨d, hp⟩)); rw [hw] at this; cases this
    | failed => have := inv.kindE _ (.inr (.inr hp)); rw [hw] at this; cases this

end PlumVerif.Entry

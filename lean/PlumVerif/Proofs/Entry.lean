import PlumVerif.Model.Entry
import PlumVerif.Spec.C10
/-
Helper lemmas for C10: the four-phase invariant of the locked machine.
-/
namespace PlumVerif.Entry

@[simp] theorem upd_same (f : Nat → PC) (i : Nat) (v : PC) : upd f i v i = v := by simp [upd]
theorem upd_other (f : Nat → PC) (i j : Nat) (v : PC) (h : j ≠ i) : upd f i v j = f j := by simp [upd, h]

/-- a caller that holds nothing yet -/
def Quiet (p : PC) : Prop := p = .start ∨ p = .gwait
/-- a caller in the published phase: holds nothing yet, or holds device 0 -/
def Settled (p : PC) : Prop := p = .start ∨ p = .gwait ∨ p = .done 0 ∨ p = .got 0

theorem Quiet.settled {p : PC} (h : Quiet p) : Settled p := by
  rcases h with h | h
  · exact .inl h
  · exact .inr (.inl h)

/-- The whole system is always in one of four global phases (locked machine). -/
inductive Phase (kind : Nat → Kind) (s : St) : Prop
  | idle (hl : s.lock = none) (hc : s.created = 0) (hs : s.setups = 0) (hp : s.published = none)
      (hd : s.dispatched = []) (hh : s.handled = []) (hpc : ∀ j, Quiet (s.pc j))
  | creating (h : Nat) (hl : s.lock = some h) (hc : s.created = 0) (hs : s.setups = 0)
      (hp : s.published = none) (hd : s.dispatched = []) (hh : s.handled = [])
      (hk : kind h = .entry) (hh' : s.pc h = .creating) (hpc : ∀ j, j ≠ h → Quiet (s.pc j))
  | publishing (h : Nat) (hl : s.lock = some h) (hc : s.created = 1) (hs : s.setups = 1)
      (hp : s.published = none) (hd : s.dispatched = []) (hh : s.handled = [])
      (hk : kind h = .entry) (hh' : s.pc h = .publishing 0) (hpc : ∀ j, j ≠ h → Quiet (s.pc j))
  | published (hl : s.lock = none) (hc : s.created = 1) (hs : s.setups = 1)
      (hp : s.published = some 0) (hd : s.dispatched = [0]) (hpc : ∀ j, Settled (s.pc j))
      (hh : ∀ p ∈ s.handled, p.2 = 0 ∧ s.pc p.1 = .done 0 ∧ kind p.1 = .entry)
      (hn : (s.handled.map (·.1)).Nodup)
      (hdone : ∀ j, s.pc j = .done 0 → (j, 0) ∈ s.handled)

theorem phase_init (kind : Nat → Kind) : Phase kind init :=
  .idle rfl rfl rfl rfl rfl rfl (fun _ => .inl rfl)

theorem quiet_upd {f : Nat → PC} {i : Nat} {v : PC} (hv : Quiet v) (h : ∀ j, Quiet (f j)) :
    ∀ j, Quiet (upd f i v j) := by
  intro j
  by_cases hj : j = i
  · subst hj; simpa using hv
  · rw [upd_other _ _ _ _ hj]; exact h j

/-- while some caller `h` holds the lock, another quiet caller either does nothing or (a
get() caller) starts waiting -/
theorem step_locked_other (kind : Nat → Kind) (s : St) (i h : Nat) (hl : s.lock = some h)
    (hp : s.published = none) (hq : Quiet (s.pc i)) :
    step true kind s i = s ∨ (kind i = .get ∧ step true kind s i = { s with pc := upd s.pc i .gwait }) := by
  rcases hq with h1 | h1
  · cases hki : kind i with
    | entry => left; simp [step, h1, hki, hl]
    | get => right; simp [step, h1, hki, hp]
  · left; simp [step, h1, hp]

theorem phase_step (kind : Nat → Kind) (s : St) (i : Nat) (h : Phase kind s) :
    Phase kind (step true kind s i) := by
  cases h with
  | idle hl hc hs hp hd hh hpc =>
    rcases hpc i with hi | hi
    · cases hk : kind i with
      | entry =>
        have : step true kind s i = { s with pc := upd s.pc i .creating, lock := some i } := by
          simp [step, hi, hk, hl, hp]
        rw [this]
        exact .creating i rfl hc hs hp hd hh hk (by simp)
          (fun j hj => by simpa [upd_other _ _ _ _ hj] using hpc j)
      | get =>
        have : step true kind s i = { s with pc := upd s.pc i .gwait } := by
          simp [step, hi, hk, hp]
        rw [this]
        exact .idle hl hc hs hp hd hh (quiet_upd (.inr rfl) hpc)
    · have : step true kind s i = s := by simp [step, hi, hp]
      rw [this]; exact .idle hl hc hs hp hd hh hpc
  | creating h hl hc hs hp hd hh hk hh' hpc =>
    by_cases hi : i = h
    · subst hi
      have : step true kind s i = { s with pc := upd s.pc i (.publishing s.created), created := s.created + 1, setups := s.setups + 1 } := by
        simp [step, hh']
      rw [this]
      exact .publishing i hl (by simp [hc]) (by simp [hs]) hp hd hh hk (by simp [hc])
        (fun j hj => by simpa [upd_other _ _ _ _ hj] using hpc j hj)
    · rcases step_locked_other kind s i h hl hp (hpc i hi) with e | ⟨_, e⟩
      · rw [e]; exact .creating h hl hc hs hp hd hh hk hh' hpc
      · rw [e]
        refine .creating h hl hc hs hp hd hh hk ?_ ?_
        · simpa [upd_other _ _ _ _ (Ne.symm hi)] using hh'
        · intro j hj
          by_cases hji : j = i
          · subst hji; simp [Quiet]
          · simpa [upd_other _ _ _ _ hji] using hpc j hj
  | publishing h hl hc hs hp hd hh hk hh' hpc =>
    by_cases hi : i = h
    · subst hi
      have : step true kind s i = { s with pc := upd s.pc i (.done 0), published := some 0, dispatched := 0 :: s.dispatched, lock := none, handled := (i, 0) :: s.handled } := by
        simp [step, hh']
      rw [this]
      refine .published rfl hc hs rfl (by simp [hd]) ?_ ?_ ?_ ?_
      · intro j
        by_cases hj : j = i
        · subst hj; simp [Settled]
        · simpa [upd_other _ _ _ _ hj] using (hpc j hj).settled
      · intro p hp'
        simp only [hh, List.mem_cons, List.not_mem_nil, or_false] at hp'
        subst hp'; simp [hk]
      · simp [hh]
      · intro j hj
        by_cases hji : j = i
        · subst hji; simp
        · simp only [upd_other _ _ _ _ hji] at hj
          rcases hpc j hji with h1 | h1 <;> simp [h1] at hj
    · rcases step_locked_other kind s i h hl hp (hpc i hi) with e | ⟨_, e⟩
      · rw [e]; exact .publishing h hl hc hs hp hd hh hk hh' hpc
      · rw [e]
        refine .publishing h hl hc hs hp hd hh hk ?_ ?_
        · simpa [upd_other _ _ _ _ (Ne.symm hi)] using hh'
        · intro j hj
          by_cases hji : j = i
          · subst hji; simp [Quiet]
          · simpa [upd_other _ _ _ _ hji] using hpc j hj
  | published hl hc hs hp hd hpc hh hn hdone =>
    -- every settled caller other than i keeps its pc
    have keep : ∀ v, Settled v → ∀ j, Settled (upd s.pc i v j) := by
      intro v hv j
      by_cases hj : j = i
      · subst hj; simpa using hv
      · rw [upd_other _ _ _ _ hj]; exact hpc j
    rcases hpc i with hi | hi | hi | hi
    · cases hk : kind i with
      | entry =>
        have : step true kind s i = finish s i 0 := by simp [step, hi, hk, hl, hp]
        rw [this]
        have hni : i ∉ s.handled.map (·.1) := by
          intro hmem
          obtain ⟨p, hp1, hp2⟩ := List.mem_map.mp hmem
          have := (hh p hp1).2.1
          rw [hp2, hi] at this; cases this
        refine .published hl hc hs hp hd (keep _ (.inr (.inr (.inl rfl)))) ?_ ?_ ?_
        · intro p hp'
          simp only [finish, List.mem_cons] at hp'
          rcases hp' with rfl | hp'
          · simp [finish, hk]
          · obtain ⟨h1, h2, h3⟩ := hh p hp'
            refine ⟨h1, ?_, h3⟩
            have : p.1 ≠ i := by
              intro e; apply hni; exact List.mem_map.mpr ⟨p, hp', e⟩
            simpa [finish, upd_other _ _ _ _ this] using h2
        · simpa [finish, List.nodup_cons] using ⟨fun x hx => hni (List.mem_map.mpr ⟨(i, x), hx, rfl⟩), hn⟩
        · intro j hj
          by_cases hji : j = i
          · subst hji; simp [finish]
          · simp only [finish, upd_other _ _ _ _ hji] at hj
            simp only [finish, List.mem_cons]
            exact .inr (hdone j hj)
      | get =>
        have : step true kind s i = { s with pc := upd s.pc i (.got 0) } := by
          simp [step, hi, hk, hp]
        rw [this]
        refine .published hl hc hs hp hd (keep _ (.inr (.inr (.inr rfl)))) ?_ hn ?_
        · intro p hp'
          obtain ⟨h1, h2, h3⟩ := hh p hp'
          refine ⟨h1, ?_, h3⟩
          have : p.1 ≠ i := by intro e; rw [e, hi] at h2; cases h2
          simpa [upd_other _ _ _ _ this] using h2
        · intro j hj
          by_cases hji : j = i
          · subst hji; simp at hj
          · simp only [upd_other _ _ _ _ hji] at hj; exact hdone j hj
    · have : step true kind s i = { s with pc := upd s.pc i (.got 0) } := by
        simp [step, hi, hp]
      rw [this]
      refine .published hl hc hs hp hd (keep _ (.inr (.inr (.inr rfl)))) ?_ hn ?_
      · intro p hp'
        obtain ⟨h1, h2, h3⟩ := hh p hp'
        refine ⟨h1, ?_, h3⟩
        have : p.1 ≠ i := by intro e; rw [e, hi] at h2; cases h2
        simpa [upd_other _ _ _ _ this] using h2
      · intro j hj
        by_cases hji : j = i
        · subst hji; simp at hj
        · simp only [upd_other _ _ _ _ hji] at hj; exact hdone j hj
    · have : step true kind s i = s := by simp [step, hi]
      rw [this]; exact .published hl hc hs hp hd hpc hh hn hdone
    · have : step true kind s i = s := by simp [step, hi]
      rw [this]; exact .published hl hc hs hp hd hpc hh hn hdone

theorem phase_run (kind : Nat → Kind) (s : St) (is : List Nat) (h : Phase kind s) :
    Phase kind (run true kind s is) := by
  induction is generalizing s with
  | nil => exact h
  | cons i is ih => exact ih _ (phase_step kind s i h)

theorem run_append (lk : Bool) (kind : Nat → Kind) (s : St) (a b : List Nat) :
    run lk kind s (a ++ b) = run lk kind (run lk kind s a) b := by
  induction a generalizing s with
  | nil => rfl
  | cons i a ih => exact ih _


/-- a frame consumer is never parked on the get() event (any machine, locked or not) -/
def KindOk (kind : Nat → Kind) (s : St) : Prop :=
  ∀ j, kind j = .entry → s.pc j ≠ .gwait ∧ ∀ d, s.pc j ≠ .got d

theorem kindOk_init (kind : Nat → Kind) : KindOk kind init := by
  intro j _; simp [init]

theorem kindOk_step (lk : Bool) (kind : Nat → Kind) (s : St) (i : Nat) (h : KindOk kind s) :
    KindOk kind (step lk kind s i) := by
  intro j hj
  have hs := h j hj
  by_cases e : j = i
  · subst e
    unfold step
    cases hp : s.pc j <;> simp only [hj] <;> (try split) <;> (try split) <;> simp_all [finish]
  · have : (step lk kind s i).pc j = s.pc j := by
      unfold step
      cases s.pc i <;> simp only [] <;> (try split) <;> (try split) <;> (try split) <;>
        simp_all [finish, upd_other]
    rw [this]; exact hs

theorem kindOk_run (lk : Bool) (kind : Nat → Kind) (s : St) (is : List Nat) (h : KindOk kind s) :
    KindOk kind (run lk kind s is) := by
  induction is generalizing s with
  | nil => exact h
  | cons i is ih => exact ih _ (kindOk_step lk kind s i h)

/-! ### the replay used by the driver is a run of the machine -/

theorem pass_run (lk : Bool) (r : Replay) (h : r.st = run lk parity init r.sched.reverse) :
    (pass lk r).st = run lk parity init (pass lk r).sched.reverse ∧
      (pass lk r).frames = r.frames ∧ (pass lk r).gets = r.gets := by
  unfold pass
  have key : ∀ (l : List Nat) (r0 : Replay), r0.st = run lk parity init r0.sched.reverse →
      let r1 := l.foldl (fun r j => if isCreating (r.st.pc j) then r
          else { r with st := step lk parity r.st j, sched := j :: r.sched }) r0
      r1.st = run lk parity init r1.sched.reverse ∧ r1.frames = r0.frames ∧ r1.gets = r0.gets := by
    intro l
    induction l with
    | nil => intro r0 h0; exact ⟨h0, rfl, rfl⟩
    | cons j l ih =>
      intro r0 h0
      simp only [List.foldl_cons]
      by_cases hc : isCreating (r0.st.pc j) = true
      · simp only [hc, if_true]; exact ih r0 h0
      · simp only [hc]
        have := ih { r0 with st := step lk parity r0.st j, sched := j :: r0.sched }
          (by simp [run_append, ← h0, run])
        simpa using this
  exact key _ r h

theorem settle_run (lk : Bool) (r : Replay) (h : r.st = run lk parity init r.sched.reverse) :
    (settle lk r).st = run lk parity init (settle lk r).sched.reverse := by
  unfold settle
  have h1 := pass_run lk r h
  have h2 := pass_run lk _ h1.1
  exact (pass_run lk _ h2.1).1

theorem applyEv_run (lk : Bool) (r r' : Replay) (e : Ev)
    (h : r.st = run lk parity init r.sched.reverse) (he : applyEv lk r e = some r') :
    r'.st = run lk parity init r'.sched.reverse := by
  cases e with
  | feed m => simp only [applyEv, Option.some.injEq] at he; subst he; exact settle_run lk _ h
  | get => simp only [applyEv, Option.some.injEq] at he; subst he; exact settle_run lk _ h
  | release =>
    simp only [applyEv] at he
    split at he
    · simp only [Option.some.injEq] at he; subst he
      exact settle_run lk _ (by simp [run_append, ← h, run])
    · cases he

/-! ### a state in one of the four phases shows only what the statement allows -/

theorem nodup_half (l : List Nat) (hn : l.Nodup) (he : ∀ a ∈ l, a % 2 = 0) :
    (l.map (· / 2)).Nodup := by
  induction l with
  | nil => simp
  | cons a l ih =>
    rw [List.nodup_cons] at hn
    simp only [List.map_cons, List.nodup_cons, List.mem_map]
    refine ⟨?_, ih hn.2 (fun b hb => he b (List.mem_cons_of_mem _ hb))⟩
    rintro ⟨b, hb, e⟩
    have h1 := he a (List.mem_cons_self ..)
    have h2 := he b (List.mem_cons_of_mem _ hb)
    have : a = b := by omega
    subst this; exact hn.1 hb

theorem nodup_reverse' {α} (l : List α) (h : l.Nodup) : l.reverse.Nodup := by
  simp only [List.Nodup, List.pairwise_reverse] at *
  exact h.imp (fun h => Ne.symm h)

theorem getRes_quiet {p : PC} (h : Quiet p) : getRes p = none := by
  rcases h with e | e <;> simp [e, getRes]

theorem getRes_settled {p : PC} (h : Settled p) : getRes p = none ∨ getRes p = some 0 := by
  rcases h with e | e | e | e <;> simp [e, getRes]

/-- before anything is published nothing is visible but the pending creation -/
theorem snapOk_early (r : Replay) (hc : r.st.created ≤ 1) (hs : r.st.setups = r.st.created)
    (hp : r.st.published = none) (hd : r.st.dispatched = []) (hh : r.st.handled = [])
    (hq : ∀ j, getRes (r.st.pc j) = none) : C10.snapOk (observe r) = true := by
  have hg : ((List.range r.gets).map fun g => getRes (r.st.pc (2 * g + 1))).all (· == none) = true := by
    simp [List.all_map, List.all_eq_true, hq]
  have hg' : ((List.range r.gets).map fun g => getRes (r.st.pc (2 * g + 1))).all
      (fun g => g == none || g == some 0) = true := by
    simp [List.all_map, List.all_eq_true, hq]
  simp only [C10.snapOk, observe, hp, hd, hh, hg, hg', hs]
  simp
  omega

theorem phase_snapOk (r : Replay) (h : Phase parity r.st) : C10.snapOk (observe r) = true := by
  cases h with
  | idle hl hc hs hp hd hh hpc =>
    exact snapOk_early r (by omega) (by omega) hp hd hh (fun j => getRes_quiet (hpc j))
  | creating h' hl hc hs hp hd hh hk hh' hpc =>
    refine snapOk_early r (by omega) (by omega) hp hd hh (fun j => ?_)
    by_cases e : j = h'
    · subst e; simp [hh', getRes]
    · exact getRes_quiet (hpc j e)
  | publishing h' hl hc hs hp hd hh hk hh' hpc =>
    refine snapOk_early r (by omega) (by omega) hp hd hh (fun j => ?_)
    by_cases e : j = h'
    · subst e; simp [hh', getRes]
    · exact getRes_quiet (hpc j e)
  | published hl hc hs hp hd hpc hh hn hdone =>
    have hgets : ((List.range r.gets).map fun g => getRes (r.st.pc (2 * g + 1))).all
        (fun g => g == none || g == some 0) = true := by
      simp only [List.all_map, List.all_eq_true]
      intro g _
      rcases getRes_settled (hpc (2 * g + 1)) with e | e <;> simp [e]
    have hall : (r.st.handled.reverse.map fun p => (p.1 / 2, p.2)).all (fun p => p.2 == 0) = true := by
      simp only [List.all_map, List.all_eq_true, List.mem_reverse]
      intro p hp'; simp [(hh p hp').1]
    have hnd : ((r.st.handled.reverse.map fun p => (p.1 / 2, p.2)).map (·.1)).Nodup := by
      have : ((r.st.handled.reverse.map fun p => (p.1 / 2, p.2)).map (·.1))
          = ((r.st.handled.map (·.1)).map (· / 2)).reverse := by
        simp [List.map_reverse, Function.comp_def]
      rw [this]
      apply nodup_reverse'
      apply nodup_half _ hn
      intro a ha
      obtain ⟨p, hp1, hp2⟩ := List.mem_map.mp ha
      have := (hh p hp1).2.2
      simp only [parity] at this
      split at this
      · omega
      · cases this
    simp only [C10.snapOk, observe, hc, hs, hp, hd, hgets, hall, hnd]
    simp
end PlumVerif.Entry

import PlumVerif.Proofs.EventsA
import PlumVerif.Proofs.EventsC
import PlumVerif.Proofs.EventsD
import PlumVerif.Proofs.EventsS
/-
C13: remaining helper lemmas — no task is ever left `running`, the snapshot is taken once,
a finished dispatch has stored and woken, removals are never forgotten, the event counter.
-/
namespace PlumVerif.C13

/-! ### what `walk` leaves behind for its own task -/

theorem walk_self (sc : Nat → Script) (i name : Nat) (rest : List Sub) :
    ∀ (s : St) (val : Nat),
      ((walk sc i name s rest val).d i).snapshot = (s.d i).snapshot ∧
      ((walk sc i name s rest val).d i).startedAt = (s.d i).startedAt ∧
      ((walk sc i name s rest val).d i).name = (s.d i).name ∧
      ((walk sc i name s rest val).d i).init = (s.d i).init ∧
      ((∃ r u k v, ((walk sc i name s rest val).d i).ph = .inCb r u k v) ∨
       (∃ f, ((walk sc i name s rest val).d i).ph = .done f ∧
          (walk sc i name s rest val).data name = some f ∧
          ∀ j dl, ((walk sc i name s rest val).w j).ph = .waiting dl → ((walk sc i name s rest val).w j).name ≠ name)) := by
  induction rest with
  | nil =>
    intro s val
    refine ⟨by simp [walk, storeSt], by simp [walk, storeSt], by simp [walk, storeSt], by simp [walk, storeSt],
      Or.inr ⟨val, by simp [walk, storeSt], by simp [walk, storeSt], ?_⟩⟩
    intro j dl hj
    simp only [walk, storeSt] at hj ⊢
    simp only [wake_name]
    exact (wake_waiting _ _ _ _ hj).2
  | cons u rest ih =>
    intro s val
    unfold walk
    split
    · obtain ⟨h1, h2, h3, h4, h5⟩ := ih (skipSt s i u) val
      exact ⟨by rw [h1]; simp [skipSt], by rw [h2]; simp [skipSt], by rw [h3]; simp [skipSt],
        by rw [h4]; simp [skipSt], h5⟩
    · split
      · obtain ⟨h1, h2, h3, h4, h5⟩ := ih (invokeSt s i name u val) ((sc u.cb).ret.apply val)
        exact ⟨by rw [h1]; simp [invokeSt], by rw [h2]; simp [invokeSt], by rw [h3]; simp [invokeSt],
          by rw [h4]; simp [invokeSt], h5⟩
      · exact ⟨by simp [suspendSt, invokeSt], by simp [suspendSt, invokeSt], by simp [suspendSt, invokeSt],
          by simp [suspendSt, invokeSt], Or.inl ⟨rest, u, _, val, by simp only [suspendSt, upd_same]; rfl⟩⟩

/-- no task is left in the transient `running` phase between events -/
def InvR (s : St) : Prop := ∀ i, (s.d i).ph ≠ .running

theorem invR_init : InvR init := by intro i; simp [init]

theorem invR_walk (sc : Nat → Script) (i name : Nat) (rest : List Sub) (s : St) (val : Nat)
    (h : ∀ j, j ≠ i → (s.d j).ph ≠ .running) : InvR (walk sc i name s rest val) := by
  intro j
  by_cases e : j = i
  · subst e
    rcases (walk_self sc j name rest s val).2.2.2.2 with ⟨r, u, k, v, hp⟩ | ⟨f, hp, _⟩ <;> rw [hp] <;> simp
  · rw [(walk_frame sc i name rest s val).1 j e]; exact h j e

theorem invR_apply (sc : Nat → Script) (s : St) (h : InvR s) (e : Ev) : InvR (apply sc s e) := by
  cases e with
  | subscribe n cb => exact h
  | subscribeOnce n cb => exact h
  | unsubCb n cb => simp only [apply]; split <;> exact h
  | unsubOnce n sid => simp only [apply]; split <;> exact h
  | spawnDispatch n v =>
    intro j
    by_cases e : j = s.nd
    · subst e; simp [apply]
    · simp only [apply, upd_other _ _ _ _ e]; exact h j
  | spawnWait n to => exact h
  | stepD i =>
    simp only [apply, stepD]
    split
    · exact invR_walk sc i _ _ _ _ (fun j hj => by simp only [upd_other _ _ _ _ hj]; exact h j)
    · intro j
      by_cases e : j = i
      · subst e; simp
      · simp only [upd_other _ _ _ _ e]; exact h j
    · exact invR_walk sc i _ _ _ _ (fun j hj => by simp only [upd_other _ _ _ _ hj]; exact h j)
    · exact h
  | stepW j =>
    simp only [apply, stepW]
    split
    · split
      · exact h
      · split <;> exact h
    · exact h
    · exact h
  | advance t => simp only [apply, advance]; split <;> exact h

theorem invR_step (sc : Nat → Script) (s : St) (h : InvR s) (e : Ev) : InvR (step sc s e) :=
  invR_apply sc s h e

/-! ### removals are never forgotten; the event counter counts events -/

theorem walk_removed (sc : Nat → Script) (i name : Nat) (rest : List Sub) :
    ∀ (s : St) (val : Nat), ∀ p ∈ s.removed, p ∈ (walk sc i name s rest val).removed := by
  induction rest with
  | nil => intro s val p hp; exact hp
  | cons u rest ih =>
    intro s val p hp
    unfold walk
    split
    · exact ih _ _ p hp
    · have hp' : p ∈ (invokeSt s i name u val).removed := by
        simp only [invokeSt]; split
        · exact List.mem_append_left _ hp
        · exact hp
      split
      · exact ih _ _ p hp'
      · exact hp'

theorem step_removed (sc : Nat → Script) (s : St) (e : Ev) : ∀ p ∈ s.removed, p ∈ (step sc s e).removed := by
  intro p hp
  show p ∈ (apply sc s e).removed
  cases e with
  | subscribe n cb => exact hp
  | subscribeOnce n cb => exact hp
  | unsubCb n cb =>
    simp only [apply]; split
    · exact List.mem_append_left _ hp
    · exact hp
  | unsubOnce n sid =>
    simp only [apply]; split
    · exact List.mem_append_left _ hp
    · exact hp
  | spawnDispatch n v => exact hp
  | spawnWait n to => exact hp
  | stepD i =>
    simp only [apply, stepD]
    split
    · exact walk_removed sc i _ _ _ _ p hp
    · exact hp
    · exact walk_removed sc i _ _ _ _ p hp
    · exact hp
  | stepW j =>
    simp only [apply, stepW]
    split
    · split
      · exact hp
      · split <;> exact hp
    · exact hp
    · exact hp
  | advance t => simp only [apply, advance]; split <;> exact hp

theorem run_removed (sc : Nat → Script) (evs : List Ev) : ∀ s, ∀ p ∈ s.removed, p ∈ (run sc s evs).removed := by
  induction evs with
  | nil => intro s p hp; exact hp
  | cons e es ih => intro s p hp; exact ih _ p (step_removed sc s e p hp)

theorem run_clock (sc : Nat → Script) (evs : List Ev) : ∀ s, (run sc s evs).clock = s.clock + evs.length := by
  induction evs with
  | nil => intro s; rfl
  | cons e es ih =>
    intro s
    simp only [run, List.length_cons]
    rw [ih]
    show s.clock + 1 + es.length = _
    omega

theorem run_append (sc : Nat → Script) (a b : List Ev) (s : St) : run sc s (a ++ b) = run sc (run sc s a) b := by
  induction a generalizing s with
  | nil => rfl
  | cons e a ih => simp [run, ih]

/-! ### all invariants, after every schedule -/

structure Inv (sc : Nat → Script) (s : St) : Prop where
  a : InvA s
  c : InvC s
  d : InvD sc s
  r : InvR s
  s : InvS s

theorem inv_init (sc : Nat → Script) : Inv sc init := ⟨invA_init, invC_init, invD_init sc, invR_init, invS_init⟩

theorem inv_step (sc : Nat → Script) (s : St) (h : Inv sc s) (e : Ev) : Inv sc (step sc s e) :=
  ⟨invA_step sc s h.a e, invC_step sc s h.c e, invD_step sc s h.d h.a e, invR_step sc s h.r e,
    invS_step sc s h.s h.a e⟩

theorem inv_run (sc : Nat → Script) (evs : List Ev) : ∀ s, Inv sc s → Inv sc (run sc s evs) := by
  induction evs with
  | nil => intro s h; exact h
  | cons e es ih => intro s h; exact ih _ (inv_step sc s h e)

theorem nodup_filter_le_one (l : List Nat) (h : l.Nodup) (a : Nat) : (l.filter (· == a)).length ≤ 1 := by
  induction l with
  | nil => simp
  | cons b l ih =>
    simp only [List.nodup_cons] at h
    simp only [List.filter_cons]
    by_cases e : (b == a) = true
    · have hb : b = a := by simpa using e
      have : l.filter (· == a) = [] := by
        apply List.filter_eq_nil_iff.2
        intro x hx hxa
        have : x = a := by simpa using hxa
        exact h.1 (by rw [hb, ← this]; exact hx)
      simp [e, this]
    · simp only [e, Bool.false_eq_true, if_false]; exact ih h.2

end PlumVerif.C13

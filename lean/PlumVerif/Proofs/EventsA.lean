import PlumVerif.Proofs.Events
/-
C13 invariant, part A: subscription instance numbers, once-wrappers, removals.
-/
namespace PlumVerif.C13

def DPhase.started : DPhase → Bool
  | .absent | .created => false
  | _ => true

structure InvA (s : St) : Prop where
  liveLt : ∀ n u, u ∈ s.subs n → u.sid < s.nextSid
  logLt : ∀ e ∈ s.log, e.sub.sid < s.nextSid
  liveUniq : ∀ n m u v, u ∈ s.subs n → v ∈ s.subs m → u.sid = v.sid → n = m
  onceGone : ∀ e ∈ s.log, e.sub.once = true → ∀ n u, u ∈ s.subs n → u.sid ≠ e.sub.sid
  onceNodup : ((s.log.filter (·.sub.once)).map (·.sub.sid)).Nodup
  restLt : ∀ i rest u k val, (s.d i).ph = .inCb rest u k val → ∀ x ∈ rest, x.sid < s.nextSid
  startLe : ∀ i, (s.d i).startedAt ≤ s.clock
  remLt : ∀ p ∈ s.removed, p.1 < s.nextSid
  remGone : ∀ p ∈ s.removed, ∀ n u, u ∈ s.subs n → u.sid ≠ p.1
  restRem : ∀ i rest u k val, (s.d i).ph = .inCb rest u k val →
    ∀ x ∈ rest, ∀ p ∈ s.removed, p.1 = x.sid → (s.d i).startedAt ≤ p.2
  logRem : ∀ e ∈ s.log, ∀ p ∈ s.removed, p.1 = e.sub.sid → (s.d e.task).startedAt ≤ p.2
  logStarted : ∀ e ∈ s.log, (s.d e.task).ph.started = true
  dAbsent : ∀ i, s.nd ≤ i → (s.d i).ph = .absent

theorem invA_init : InvA init := by
  constructor <;> intros <;> simp_all [init]

theorem mem_dropSid {l : List Sub} {sid : Nat} {u : Sub} (h : u ∈ dropSid l sid) : u ∈ l ∧ u.sid ≠ sid := by
  simp only [dropSid, List.mem_filter, bne_iff_ne, ne_eq] at h
  exact h

/-- task `i` is replaced by `t` with the same phase and start: only ghosts changed -/
theorem invA_updGhost (s : St) (h : InvA s) (i : Nat) (t : DTask) (hph : t.ph = (s.d i).ph)
    (hst : t.startedAt = (s.d i).startedAt) : InvA { s with d := upd s.d i t } := by
  have hph' : ∀ j, (upd s.d i t j).ph = (s.d j).ph := fun j => by
    by_cases e : j = i
    · subst e; simp [hph]
    · rw [upd_other _ _ _ _ e]
  have hst' : ∀ j, (upd s.d i t j).startedAt = (s.d j).startedAt := fun j => by
    by_cases e : j = i
    · subst e; simp [hst]
    · rw [upd_other _ _ _ _ e]
  exact ⟨h.liveLt, h.logLt, h.liveUniq, h.onceGone, h.onceNodup,
    fun j rest u k val hj => h.restLt j rest u k val (by rw [← hph' j]; exact hj),
    fun j => by simp only [hst' j]; exact h.startLe j, h.remLt, h.remGone,
    fun j rest u k val hj => by simp only [hst' j]; exact h.restRem j rest u k val (by rw [← hph' j]; exact hj),
    fun e he => by simp only [hst' e.task]; exact h.logRem e he,
    fun e he => by simp only [hph' e.task]; exact h.logStarted e he,
    fun j hj => by simp only [hph' j]; exact h.dAbsent j hj⟩

theorem invA_skip (s : St) (h : InvA s) (i : Nat) (u : Sub) : InvA (skipSt s i u) :=
  invA_updGhost s h i _ rfl rfl

/-- the task's phase changes to one without pending entries, or to `inCb` with entries that
satisfy the two clauses about pending entries -/
theorem invA_updPhase (s : St) (h : InvA s) (i : Nat) (p : DPhase) (hst : p.started = true)
    (hi : (s.d i).ph.started = true)
    (hrest : ∀ rest u k val, p = .inCb rest u k val →
      (∀ x ∈ rest, x.sid < s.nextSid) ∧
      (∀ x ∈ rest, ∀ q ∈ s.removed, q.1 = x.sid → (s.d i).startedAt ≤ q.2)) :
    InvA { s with d := upd s.d i { s.d i with ph := p } } := by
  have hst' : ∀ j, (upd s.d i { s.d i with ph := p } j).startedAt = (s.d j).startedAt := fun j => by
    by_cases e : j = i
    · subst e; simp
    · rw [upd_other _ _ _ _ e]
  refine ⟨h.liveLt, h.logLt, h.liveUniq, h.onceGone, h.onceNodup, ?_,
    fun j => by simp only [hst' j]; exact h.startLe j, h.remLt, h.remGone, ?_,
    fun e he => by simp only [hst' e.task]; exact h.logRem e he, ?_, ?_⟩
  · intro j rest u k val hj
    by_cases e : j = i
    · subst e; simp only [upd_same] at hj; exact (hrest rest u k val hj).1
    · simp only [upd_other _ _ _ _ e] at hj; exact h.restLt j rest u k val hj
  · intro j rest u k val hj
    simp only [hst' j]
    by_cases e : j = i
    · subst e; simp only [upd_same] at hj; exact (hrest rest u k val hj).2
    · simp only [upd_other _ _ _ _ e] at hj; exact h.restRem j rest u k val hj
  · intro e he
    by_cases e' : e.task = i
    · simp only [e', upd_same]; exact hst
    · simp only [upd_other _ _ _ _ e']; exact h.logStarted e he
  · intro j hj
    by_cases e : j = i
    · subst e
      have := h.dAbsent j hj
      rw [this] at hi; simp [DPhase.started] at hi
    · simp only [upd_other _ _ _ _ e]; exact h.dAbsent j hj

theorem invA_store (s : St) (h : InvA s) (i name val : Nat) (hi : (s.d i).ph.started = true) :
    InvA (storeSt s i name val) := by
  have := invA_updPhase s h i (.done val) rfl hi (by intro rest u k v hp; simp at hp)
  exact ⟨this.liveLt, this.logLt, this.liveUniq, this.onceGone, this.onceNodup, this.restLt, this.startLe,
    this.remLt, this.remGone, this.restRem, this.logRem, this.logStarted, this.dAbsent⟩

theorem invA_suspend (s : St) (h : InvA s) (i : Nat) (rest : List Sub) (u : Sub) (k val : Nat)
    (hi : (s.d i).ph.started = true)
    (h1 : ∀ x ∈ rest, x.sid < s.nextSid)
    (h2 : ∀ x ∈ rest, ∀ q ∈ s.removed, q.1 = x.sid → (s.d i).startedAt ≤ q.2) :
    InvA (suspendSt s i rest u k val) :=
  invA_updPhase s h i _ rfl hi (by
    intro rest' u' k' v' hp
    simp only [DPhase.inCb.injEq] at hp
    obtain ⟨rfl, _, _, _⟩ := hp
    exact ⟨h1, h2⟩)


/-- the part of `invokeSt` that is not a ghost -/
def invokeCore (s : St) (i name : Nat) (u : Sub) (val : Nat) : St :=
  { s with subs := if u.once then upd s.subs name (dropSid (s.subs name) u.sid) else s.subs,
           removed := if u.once then s.removed ++ [(u.sid, s.clock)] else s.removed,
           log := s.log ++ [⟨i, u, val⟩] }

theorem invokeSt_eq (s : St) (i name : Nat) (u : Sub) (val : Nat) :
    invokeSt s i name u val =
      { invokeCore s i name u val with
        d := upd (invokeCore s i name u val).d i
          { (invokeCore s i name u val).d i with trail := ((invokeCore s i name u val).d i).trail ++ [(u, some val)] } } := rfl

theorem invA_invokeCore (s : St) (h : InvA s) (i name : Nat) (u : Sub) (val : Nat)
    (hi : (s.d i).ph.started = true) (hlt : u.sid < s.nextSid)
    (hrem : ∀ q ∈ s.removed, q.1 = u.sid → (s.d i).startedAt ≤ q.2)
    (hlive : u.once = true → ∃ v ∈ s.subs name, v.sid = u.sid) :
    InvA (invokeCore s i name u val) := by
  by_cases ho : u.once = true
  · obtain ⟨v, hv, hvs⟩ := hlive ho
    -- entries of the new live lists are entries of the old ones, and none carries u.sid
    have sub : ∀ n x, x ∈ (upd s.subs name (dropSid (s.subs name) u.sid)) n → x ∈ s.subs n ∧ x.sid ≠ u.sid := by
      intro n x hx
      by_cases e : n = name
      · subst e; simp only [upd_same] at hx; exact mem_dropSid hx
      · rw [upd_other _ _ _ _ e] at hx
        exact ⟨hx, fun hs => e (h.liveUniq n name x v hx hv (by rw [hs, hvs]))⟩
    have fresh : ∀ e ∈ s.log, e.sub.once = true → e.sub.sid ≠ u.sid := by
      intro e he heo hs
      exact h.onceGone e he heo name v hv (by rw [hvs, hs])
    simp only [invokeCore, ho, if_true]
    constructor
    · intro n x hx; exact h.liveLt n x (sub n x hx).1
    · intro e he
      rcases List.mem_append.1 he with he | he
      · exact h.logLt e he
      · simp only [List.mem_singleton] at he; subst he; exact hlt
    · intro n m x y hx hy; exact h.liveUniq n m x y (sub n x hx).1 (sub m y hy).1
    · intro e he heo n x hx
      rcases List.mem_append.1 he with he | he
      · exact h.onceGone e he heo n x (sub n x hx).1
      · simp only [List.mem_singleton] at he; subst he; exact (sub n x hx).2
    · simp only [List.filter_append, List.map_append, List.filter_cons, ho, if_true, List.filter_nil,
        List.map_cons, List.map_nil]
      rw [List.nodup_append]
      refine ⟨h.onceNodup, by simp, ?_⟩
      intro a ha b hb
      simp only [List.mem_singleton] at hb; subst hb
      simp only [List.mem_map, List.mem_filter] at ha
      obtain ⟨e, ⟨he, heo⟩, rfl⟩ := ha
      exact fresh e he heo
    · exact h.restLt
    · exact h.startLe
    · intro q hq
      rcases List.mem_append.1 hq with hq | hq
      · exact h.remLt q hq
      · simp only [List.mem_singleton] at hq; subst hq; exact hlt
    · intro q hq n x hx
      rcases List.mem_append.1 hq with hq | hq
      · exact h.remGone q hq n x (sub n x hx).1
      · simp only [List.mem_singleton] at hq; subst hq; exact (sub n x hx).2
    · intro j rest u' k v' hj x hx q hq hqs
      rcases List.mem_append.1 hq with hq | hq
      · exact h.restRem j rest u' k v' hj x hx q hq hqs
      · simp only [List.mem_singleton] at hq; subst hq; exact h.startLe j
    · intro e he q hq hqs
      rcases List.mem_append.1 he with he | he
      · rcases List.mem_append.1 hq with hq | hq
        · exact h.logRem e he q hq hqs
        · simp only [List.mem_singleton] at hq; subst hq; exact h.startLe _
      · simp only [List.mem_singleton] at he; subst he
        rcases List.mem_append.1 hq with hq | hq
        · exact hrem q hq hqs
        · simp only [List.mem_singleton] at hq; subst hq; exact h.startLe _
    · intro e he
      rcases List.mem_append.1 he with he | he
      · exact h.logStarted e he
      · simp only [List.mem_singleton] at he; subst he; exact hi
    · exact h.dAbsent
  · have ho' : u.once = false := by simpa using ho
    simp only [invokeCore, ho', Bool.false_eq_true, if_false]
    constructor
    · exact h.liveLt
    · intro e he
      rcases List.mem_append.1 he with he | he
      · exact h.logLt e he
      · simp only [List.mem_singleton] at he; subst he; exact hlt
    · exact h.liveUniq
    · intro e he heo n x hx
      rcases List.mem_append.1 he with he | he
      · exact h.onceGone e he heo n x hx
      · simp only [List.mem_singleton] at he; subst he; simp [ho'] at heo
    · simp only [List.filter_append, List.filter_cons, ho', Bool.false_eq_true, if_false, List.filter_nil,
        List.append_nil]
      exact h.onceNodup
    · exact h.restLt
    · exact h.startLe
    · exact h.remLt
    · exact h.remGone
    · exact h.restRem
    · intro e he q hq hqs
      rcases List.mem_append.1 he with he | he
      · exact h.logRem e he q hq hqs
      · simp only [List.mem_singleton] at he; subst he; exact hrem q hq hqs
    · intro e he
      rcases List.mem_append.1 he with he | he
      · exact h.logStarted e he
      · simp only [List.mem_singleton] at he; subst he; exact hi
    · exact h.dAbsent

theorem invA_invoke (s : St) (h : InvA s) (i name : Nat) (u : Sub) (val : Nat)
    (hi : (s.d i).ph.started = true) (hlt : u.sid < s.nextSid)
    (hrem : ∀ q ∈ s.removed, q.1 = u.sid → (s.d i).startedAt ≤ q.2)
    (hlive : u.once = true → ∃ v ∈ s.subs name, v.sid = u.sid) :
    InvA (invokeSt s i name u val) := by
  rw [invokeSt_eq]
  exact invA_updGhost _ (invA_invokeCore s h i name u val hi hlt hrem hlive) i _ rfl rfl


theorem live_of_not_gone (s : St) (name : Nat) (u : Sub) (hg : ¬ gone s name u = true) :
    u.once = true → ∃ v ∈ s.subs name, v.sid = u.sid := by
  intro ho
  simp only [gone, ho, Bool.true_and, Bool.not_eq_true', Bool.not_eq_false] at hg
  obtain ⟨v, hv, hvs⟩ := List.any_eq_true.1 hg
  exact ⟨v, hv, by simpa using hvs⟩

theorem invA_walk (sc : Nat → Script) (i name : Nat) (rest : List Sub) :
    ∀ (s : St) (val : Nat), InvA s → (s.d i).ph.started = true →
      (∀ x ∈ rest, x.sid < s.nextSid) →
      (∀ x ∈ rest, ∀ q ∈ s.removed, q.1 = x.sid → (s.d i).startedAt ≤ q.2) →
      InvA (walk sc i name s rest val) := by
  induction rest with
  | nil => intro s val h hi _ _; exact invA_store s h i name val hi
  | cons u rest ih =>
    intro s val h hi h1 h2
    unfold walk
    split
    · exact ih _ val (invA_skip s h i u) (by simpa [skipSt] using hi)
        (fun x hx => h1 x (by simp [hx]))
        (fun x hx q hq hqs => by
          have := h2 x (by simp [hx]) q hq hqs
          simpa [skipSt] using this)
    · rename_i hg
      have hI := invA_invoke s h i name u val hi (h1 u (by simp)) (h2 u (by simp)) (live_of_not_gone s name u hg)
      have hi' : ((invokeSt s i name u val).d i).ph.started = true := by simpa [invokeSt] using hi
      have h1' : ∀ x ∈ rest, x.sid < (invokeSt s i name u val).nextSid := fun x hx => h1 x (by simp [hx])
      have h2' : ∀ x ∈ rest, ∀ q ∈ (invokeSt s i name u val).removed, q.1 = x.sid →
          ((invokeSt s i name u val).d i).startedAt ≤ q.2 := by
        intro x hx q hq hqs
        have hst : ((invokeSt s i name u val).d i).startedAt = (s.d i).startedAt := by simp [invokeSt]
        rw [hst]
        simp only [invokeSt] at hq
        split at hq
        · rcases List.mem_append.1 hq with hq | hq
          · exact h2 x (by simp [hx]) q hq hqs
          · simp only [List.mem_singleton] at hq; subst hq; exact h.startLe i
        · exact h2 x (by simp [hx]) q hq hqs
      split
      · exact ih _ _ hI hi' h1' h2'
      · exact invA_suspend _ hI i rest u _ val hi' h1' h2'


theorem invA_start (s : St) (h : InvA s) (i : Nat) (hc : (s.d i).ph = .created) (snap : List Sub) :
    InvA { s with d := upd s.d i { s.d i with snapshot := snap, startedAt := s.clock, ph := .running } } := by
  have noLog : ∀ e ∈ s.log, e.task ≠ i := by
    intro e he ei
    have := h.logStarted e he
    rw [ei, hc] at this; simp [DPhase.started] at this
  refine ⟨h.liveLt, h.logLt, h.liveUniq, h.onceGone, h.onceNodup, ?_, ?_, h.remLt, h.remGone, ?_, ?_, ?_, ?_⟩
  · intro j rest u k val hj
    by_cases e : j = i
    · subst e; simp at hj
    · simp only [upd_other _ _ _ _ e] at hj; exact h.restLt j rest u k val hj
  · intro j
    by_cases e : j = i
    · subst e; simp
    · simp only [upd_other _ _ _ _ e]; exact h.startLe j
  · intro j rest u k val hj
    by_cases e : j = i
    · subst e; simp at hj
    · simp only [upd_other _ _ _ _ e] at hj ⊢; exact h.restRem j rest u k val hj
  · intro e he
    simp only [upd_other _ _ _ _ (noLog e he)]; exact h.logRem e he
  · intro e he
    simp only [upd_other _ _ _ _ (noLog e he)]; exact h.logStarted e he
  · intro j hj
    by_cases e : j = i
    · subst e; have := h.dAbsent j hj; rw [hc] at this; simp at this
    · simp only [upd_other _ _ _ _ e]; exact h.dAbsent j hj

theorem invA_stepD (sc : Nat → Script) (s : St) (h : InvA s) (i : Nat) : InvA (stepD sc s i) := by
  unfold stepD
  split
  · rename_i hph
    have h0 := invA_start s h i hph (s.subs (s.d i).name)
    refine invA_walk sc i _ _ _ _ h0 (by simp [DPhase.started]) ?_ ?_
    · intro x hx; exact h.liveLt _ x hx
    · intro x hx q hq hqs
      exact absurd hqs.symm (h.remGone q hq _ x hx)
  · rename_i rest u k val hph
    exact invA_updPhase s h i _ rfl (by rw [hph]; rfl) (by
      intro rest' u' k' v' hp
      simp only [DPhase.inCb.injEq] at hp
      obtain ⟨rfl, _, _, _⟩ := hp
      exact ⟨h.restLt i rest u (k + 1) val hph, h.restRem i rest u (k + 1) val hph⟩)
  · rename_i rest u val hph
    have h0 := invA_updPhase s h i .running rfl (by rw [hph]; rfl) (by intro r u' k v hp; simp at hp)
    refine invA_walk sc i _ _ _ _ h0 (by simp [DPhase.started]) ?_ ?_
    · exact h.restLt i rest u 0 val hph
    · intro x hx q hq hqs
      have := h.restRem i rest u 0 val hph x hx q hq hqs
      simpa using this
  · exact h

theorem invA_subscribe (s : St) (h : InvA s) (n cb : Nat) (o : Bool) :
    InvA { s with subs := upd s.subs n (s.subs n ++ [⟨s.nextSid, cb, o⟩]), nextSid := s.nextSid + 1 } := by
  have mem : ∀ m x, x ∈ upd s.subs n (s.subs n ++ [⟨s.nextSid, cb, o⟩]) m →
      x ∈ s.subs m ∨ (m = n ∧ x = ⟨s.nextSid, cb, o⟩) := by
    intro m x hx
    by_cases e : m = n
    · subst e; simp only [upd_same, List.mem_append, List.mem_singleton] at hx
      rcases hx with hx | hx
      · exact Or.inl hx
      · exact Or.inr ⟨rfl, hx⟩
    · rw [upd_other _ _ _ _ e] at hx; exact Or.inl hx
  constructor
  · intro m x hx
    rcases mem m x hx with hx | ⟨_, rfl⟩
    · have := h.liveLt m x hx; show x.sid < s.nextSid + 1; omega
    · show s.nextSid < s.nextSid + 1; omega
  · intro e he; have := h.logLt e he; show e.sub.sid < s.nextSid + 1; omega
  · intro m m' x y hx hy hs
    rcases mem m x hx with hx1 | ⟨rfl, rfl⟩ <;> rcases mem m' y hy with hy1 | ⟨rfl, rfl⟩
    · exact h.liveUniq m m' x y hx1 hy1 hs
    · have := h.liveLt m x hx1; simp at hs; omega
    · have := h.liveLt m' y hy1; simp at hs; omega
    · rfl
  · intro e he heo m x hx
    rcases mem m x hx with hx | ⟨_, rfl⟩
    · exact h.onceGone e he heo m x hx
    · have := h.logLt e he; simp; omega
  · exact h.onceNodup
  · intro j rest u k val hj x hx
    have := h.restLt j rest u k val hj x hx; show x.sid < s.nextSid + 1; omega
  · exact h.startLe
  · intro q hq; have := h.remLt q hq; show q.1 < s.nextSid + 1; omega
  · intro q hq m x hx
    rcases mem m x hx with hx | ⟨_, rfl⟩
    · exact h.remGone q hq m x hx
    · have := h.remLt q hq; simp; omega
  · exact h.restRem
  · exact h.logRem
  · exact h.logStarted
  · exact h.dAbsent

/-- an entry `u` of the live list of `n` is removed (explicit unsubscribe) -/
theorem invA_remove (s : St) (h : InvA s) (n : Nat) (u : Sub) (hu : u ∈ s.subs n) :
    InvA { s with subs := upd s.subs n (dropSid (s.subs n) u.sid), removed := s.removed ++ [(u.sid, s.clock)] } := by
  have sub : ∀ m x, x ∈ (upd s.subs n (dropSid (s.subs n) u.sid)) m → x ∈ s.subs m ∧ x.sid ≠ u.sid := by
    intro m x hx
    by_cases e : m = n
    · subst e; simp only [upd_same] at hx; exact mem_dropSid hx
    · rw [upd_other _ _ _ _ e] at hx
      exact ⟨hx, fun hs => e (h.liveUniq m n x u hx hu hs)⟩
  constructor
  · intro m x hx; exact h.liveLt m x (sub m x hx).1
  · exact h.logLt
  · intro m m' x y hx hy; exact h.liveUniq m m' x y (sub m x hx).1 (sub m' y hy).1
  · intro e he heo m x hx; exact h.onceGone e he heo m x (sub m x hx).1
  · exact h.onceNodup
  · exact h.restLt
  · exact h.startLe
  · intro q hq
    rcases List.mem_append.1 hq with hq | hq
    · exact h.remLt q hq
    · simp only [List.mem_singleton] at hq; subst hq; exact h.liveLt n u hu
  · intro q hq m x hx
    rcases List.mem_append.1 hq with hq | hq
    · exact h.remGone q hq m x (sub m x hx).1
    · simp only [List.mem_singleton] at hq; subst hq; exact (sub m x hx).2
  · intro j rest u' k v' hj x hx q hq hqs
    rcases List.mem_append.1 hq with hq | hq
    · exact h.restRem j rest u' k v' hj x hx q hq hqs
    · simp only [List.mem_singleton] at hq; subst hq; exact h.startLe j
  · intro e he q hq hqs
    rcases List.mem_append.1 hq with hq | hq
    · exact h.logRem e he q hq hqs
    · simp only [List.mem_singleton] at hq; subst hq; exact h.startLe _
  · exact h.logStarted
  · exact h.dAbsent

/-- the invariant does not look at the bookkeeping ghosts -/
theorem InvA.repack {s s' : St} (h : InvA s) (h1 : s'.subs = s.subs) (h2 : s'.log = s.log) (h3 : s'.d = s.d)
    (h4 : s'.removed = s.removed) (h5 : s'.nextSid = s.nextSid) (h6 : s'.clock = s.clock) (h7 : s'.nd = s.nd) :
    InvA s' := by
  constructor
  · rw [h1, h5]; exact h.liveLt
  · rw [h2, h5]; exact h.logLt
  · rw [h1]; exact h.liveUniq
  · rw [h1, h2]; exact h.onceGone
  · rw [h2]; exact h.onceNodup
  · rw [h3, h5]; exact h.restLt
  · rw [h3, h6]; exact h.startLe
  · rw [h4, h5]; exact h.remLt
  · rw [h1, h4]; exact h.remGone
  · rw [h3, h4]; exact h.restRem
  · rw [h2, h3, h4]; exact h.logRem
  · rw [h2, h3]; exact h.logStarted
  · rw [h3, h7]; exact h.dAbsent

theorem invA_apply (sc : Nat → Script) (s : St) (h : InvA s) (e : Ev) : InvA (apply sc s e) := by
  cases e with
  | subscribe n cb => exact (invA_subscribe s h n cb false).repack rfl rfl rfl rfl rfl rfl rfl
  | subscribeOnce n cb => exact (invA_subscribe s h n cb true).repack rfl rfl rfl rfl rfl rfl rfl
  | unsubCb n cb =>
    simp only [apply]; split
    · rename_i u hu
      exact (invA_remove s h n u (List.mem_of_find?_eq_some hu)).repack rfl rfl rfl rfl rfl rfl rfl
    · exact h.repack rfl rfl rfl rfl rfl rfl rfl
  | unsubOnce n sid =>
    simp only [apply]; split
    · rename_i hc
      obtain ⟨u, hu, hus⟩ := List.any_eq_true.1 hc
      have : u.sid = sid := by simp at hus; exact hus.2
      rw [← this]; exact invA_remove s h n u hu
    · exact h
  | spawnDispatch n v =>
    have hab := h.dAbsent s.nd (Nat.le_refl _)
    have noLog : ∀ e ∈ s.log, e.task ≠ s.nd := by
      intro e he ei
      have := h.logStarted e he
      rw [ei, hab] at this; simp [DPhase.started] at this
    simp only [apply]
    refine ⟨h.liveLt, h.logLt, h.liveUniq, h.onceGone, h.onceNodup, ?_, ?_, h.remLt, h.remGone, ?_, ?_, ?_, ?_⟩
    · intro j rest u k val hj
      by_cases e : j = s.nd
      · subst e; simp at hj
      · simp only [upd_other _ _ _ _ e] at hj; exact h.restLt j rest u k val hj
    · intro j
      by_cases e : j = s.nd
      · subst e; simp
      · simp only [upd_other _ _ _ _ e]; exact h.startLe j
    · intro j rest u k val hj
      by_cases e : j = s.nd
      · subst e; simp at hj
      · simp only [upd_other _ _ _ _ e] at hj ⊢; exact h.restRem j rest u k val hj
    · intro e he
      simp only [upd_other _ _ _ _ (noLog e he)]; exact h.logRem e he
    · intro e he
      simp only [upd_other _ _ _ _ (noLog e he)]; exact h.logStarted e he
    · intro j hj
      have hj' : s.nd + 1 ≤ j := hj
      have e : j ≠ s.nd := by omega
      simp only [upd_other _ _ _ _ e]; exact h.dAbsent j (by omega)
  | spawnWait n to =>
    exact ⟨h.liveLt, h.logLt, h.liveUniq, h.onceGone, h.onceNodup, h.restLt, h.startLe, h.remLt, h.remGone,
      h.restRem, h.logRem, h.logStarted, h.dAbsent⟩
  | stepD i => exact invA_stepD sc s h i
  | stepW j =>
    simp only [apply, stepW]
    split
    · split
      · exact ⟨h.liveLt, h.logLt, h.liveUniq, h.onceGone, h.onceNodup, h.restLt, h.startLe, h.remLt, h.remGone,
          h.restRem, h.logRem, h.logStarted, h.dAbsent⟩
      · split <;> exact ⟨h.liveLt, h.logLt, h.liveUniq, h.onceGone, h.onceNodup, h.restLt, h.startLe, h.remLt,
          h.remGone, h.restRem, h.logRem, h.logStarted, h.dAbsent⟩
    · exact ⟨h.liveLt, h.logLt, h.liveUniq, h.onceGone, h.onceNodup, h.restLt, h.startLe, h.remLt, h.remGone,
        h.restRem, h.logRem, h.logStarted, h.dAbsent⟩
    · exact h
  | advance t =>
    simp only [apply, advance]
    split
    · exact h
    · exact ⟨h.liveLt, h.logLt, h.liveUniq, h.onceGone, h.onceNodup, h.restLt, h.startLe, h.remLt, h.remGone,
        h.restRem, h.logRem, h.logStarted, h.dAbsent⟩

theorem walk_clock (sc : Nat → Script) (i name : Nat) (rest : List Sub) :
    ∀ (s : St) (val : Nat), (walk sc i name s rest val).clock = s.clock := by
  induction rest with
  | nil => intro s val; rfl
  | cons u rest ih =>
    intro s val
    unfold walk
    split
    · rw [ih]; rfl
    · split
      · rw [ih]; rfl
      · rfl

theorem apply_clock (sc : Nat → Script) (s : St) (e : Ev) : (apply sc s e).clock = s.clock := by
  cases e with
  | subscribe n cb => rfl
  | subscribeOnce n cb => rfl
  | unsubCb n cb => simp only [apply]; split <;> rfl
  | unsubOnce n sid => simp only [apply]; split <;> rfl
  | spawnDispatch n v => rfl
  | spawnWait n to => rfl
  | stepD i =>
    simp only [apply, stepD]
    split
    · rw [walk_clock]
    · rfl
    · rw [walk_clock]
    · rfl
  | stepW j =>
    simp only [apply, stepW]
    split
    · split
      · rfl
      · split <;> rfl
    · rfl
    · rfl
  | advance t => simp only [apply, advance]; split <;> rfl

theorem invA_step (sc : Nat → Script) (s : St) (h : InvA s) (e : Ev) : InvA (step sc s e) := by
  have a := invA_apply sc s h e
  have hc := apply_clock sc s e
  exact ⟨a.liveLt, a.logLt, a.liveUniq, a.onceGone, a.onceNodup, a.restLt,
    fun j => by
      have := a.startLe j; rw [hc] at this
      show ((apply sc s e).d j).startedAt ≤ s.clock + 1; omega,
    a.remLt, a.remGone, a.restRem, a.logRem, a.logStarted, a.dAbsent⟩

theorem invA_run (sc : Nat → Script) (evs : List Ev) : ∀ s, InvA s → InvA (run sc s evs) := by
  induction evs with
  | nil => intro s h; exact h
  | cons e es ih => intro s h; exact ih _ (invA_step sc s h e)

end PlumVerif.C13

import PlumVerif.Proofs.EventsA
/-
C13 invariant, part S: bookkeeping that ties the machine's ghosts to the history of API calls —
every subscription ever made, what became of it, when tasks were created, how many plain
subscriptions / unsubscribe calls there were, whether a getter found a value at once.
-/
namespace PlumVerif.C13

/-- the task has been created and has not finished -/
def WPhase.pending : WPhase → Bool
  | .created | .waiting _ | .woken => true
  | _ => false

structure InvS (s : St) : Prop where
  subSids : s.subscribed.map (·.2.sid) = List.range s.nextSid
  liveSub : ∀ n u, u ∈ s.subs n → (n, u) ∈ s.subscribed
  restSub : ∀ i rest u k v, (s.d i).ph = .inCb rest u k v → ∀ x ∈ rest, ((s.d i).name, x) ∈ s.subscribed
  logSub : ∀ e ∈ s.log, ((s.d e.task).name, e.sub) ∈ s.subscribed
  goneRem : ∀ p ∈ s.subscribed, p.2 ∈ s.subs p.1 ∨ ∃ c, (p.2.sid, c) ∈ s.removed
  remClock : ∀ p ∈ s.removed, p.2 ≤ s.clock
  spawnLe : ∀ i, (s.d i).spawnedAt ≤ s.clock ∧ ((s.d i).ph.started = true → (s.d i).spawnedAt ≤ (s.d i).startedAt)
  counts : ∀ n cb, s.nSub n cb ≤ plainCount (s.subs n) cb + s.nUnsub n cb
  createdCounts : ∀ i cb, (s.d i).ph = .created → (s.d i).subsAtSpawn cb ≤ s.nSub (s.d i).name cb
  startedCounts : ∀ i cb, (s.d i).ph.started = true →
    (s.d i).subsAtSpawn cb ≤ plainCount (s.d i).snapshot cb + s.nUnsub (s.d i).name cb
  hadRet : ∀ j v a, (s.w j).ph = .returned v a → (s.w j).had = true → a = (s.w j).t0
  liveNodup : ∀ n, ((s.subs n).map (·.sid)).Nodup
  hadWait : ∀ j, (s.w j).ph.pending = true → (s.w j).had = false

theorem invS_init : InvS init := by
  constructor <;> intros <;> simp_all [init, plainCount]

/-- two recorded subscriptions with the same instance number are the same record -/
theorem subscribed_inj (s : St) (h : InvS s) (p q : Nat × Sub) (hp : p ∈ s.subscribed) (hq : q ∈ s.subscribed)
    (hs : p.2.sid = q.2.sid) : p = q := by
  have hnd : (s.subscribed.map (·.2.sid)).Nodup := by rw [h.subSids]; exact List.nodup_range
  generalize s.subscribed = l at hp hq hnd
  induction l with
  | nil => simp at hp
  | cons a l ih =>
    simp only [List.map_cons, List.nodup_cons, List.mem_map, not_exists, not_and] at hnd
    rcases List.mem_cons.1 hp with rfl | hp' <;> rcases List.mem_cons.1 hq with rfl | hq'
    · rfl
    · exact absurd hs.symm (hnd.1 q hq')
    · exact absurd hs (hnd.1 p hp')
    · exact ih hp' hq' hnd.2

/-- dropping a once entry does not change the number of plain entries -/
theorem plainCount_dropSid_once (l : List Sub) (sid cb : Nat) (h : ∀ x ∈ l, x.sid = sid → x.once = true) :
    plainCount (dropSid l sid) cb = plainCount l cb := by
  simp only [plainCount, dropSid, List.filter_filter]
  congr 1
  apply List.filter_congr
  intro x hx
  by_cases e : x.sid = sid
  · have := h x hx e; simp [this]
  · simp [e]

/-- task `i` is replaced by a task that differs only in trail / phase-with-the-same-startedness -/
theorem invS_updD (s : St) (h : InvS s) (i : Nat) (t : DTask)
    (hn : t.name = (s.d i).name) (hsp : t.spawnedAt = (s.d i).spawnedAt) (hst : t.startedAt = (s.d i).startedAt)
    (hsn : t.snapshot = (s.d i).snapshot) (hsa : t.subsAtSpawn = (s.d i).subsAtSpawn)
    (hstarted : (s.d i).ph.started = true) (hstarted' : t.ph.started = true)
    (hrest : ∀ rest u k v, t.ph = .inCb rest u k v → ∀ x ∈ rest, (t.name, x) ∈ s.subscribed) :
    InvS { s with d := upd s.d i t } := by
  have hname : ∀ j, (upd s.d i t j).name = (s.d j).name := fun j => by
    by_cases e : j = i
    · subst e; simp [hn]
    · rw [upd_other _ _ _ _ e]
  constructor
  · exact h.subSids
  · exact h.liveSub
  · intro j rest u k v hj x hx
    by_cases e : j = i
    · subst e; simp only [upd_same] at hj ⊢; exact hrest rest u k v hj x hx
    · simp only [upd_other _ _ _ _ e] at hj ⊢; exact h.restSub j rest u k v hj x hx
  · intro e he; simp only [hname]; exact h.logSub e he
  · exact h.goneRem
  · exact h.remClock
  · intro j
    by_cases e : j = i
    · subst e; simp only [upd_same, hsp, hst]
      exact ⟨(h.spawnLe j).1, fun _ => (h.spawnLe j).2 hstarted⟩
    · simp only [upd_other _ _ _ _ e]; exact h.spawnLe j
  · exact h.counts
  · intro j cb hj
    by_cases e : j = i
    · subst e; simp only [upd_same] at hj; rw [hj] at hstarted'; simp [DPhase.started] at hstarted'
    · simp only [upd_other _ _ _ _ e] at hj ⊢; exact h.createdCounts j cb hj
  · intro j cb hj
    by_cases e : j = i
    · subst e; simp only [upd_same, hsa, hsn, hn]; exact h.startedCounts j cb hstarted
    · simp only [upd_other _ _ _ _ e] at hj ⊢; exact h.startedCounts j cb hj
  · exact h.hadRet
  · exact h.liveNodup
  · exact h.hadWait


theorem invS_invokeCore (s : St) (h : InvS s) (i name : Nat) (u : Sub) (val : Nat)
    (hname : (s.d i).name = name) (hu : (name, u) ∈ s.subscribed) :
    InvS (invokeCore s i name u val) := by
  by_cases ho : u.once = true
  · have sub : ∀ n x, x ∈ (upd s.subs name (dropSid (s.subs name) u.sid)) n → x ∈ s.subs n := by
      intro n x hx
      by_cases e : n = name
      · subst e; simp only [upd_same] at hx; exact (mem_dropSid hx).1
      · rw [upd_other _ _ _ _ e] at hx; exact hx
    have allOnce : ∀ x ∈ s.subs name, x.sid = u.sid → x.once = true := by
      intro x hx hs
      have := subscribed_inj s h (name, x) (name, u) (h.liveSub name x hx) hu hs
      have hxu : x = u := by injection this
      rw [hxu]; exact ho
    simp only [invokeCore, ho, if_true]
    constructor
    · exact h.subSids
    · intro n x hx; exact h.liveSub n x (sub n x hx)
    · exact h.restSub
    · intro e he
      rcases List.mem_append.1 he with he | he
      · exact h.logSub e he
      · simp only [List.mem_singleton] at he; subst he; simp only [hname]; exact hu
    · intro p hp
      rcases h.goneRem p hp with hl | ⟨c, hc⟩
      · by_cases e : p.1 = name ∧ p.2.sid = u.sid
        · right; exact ⟨s.clock, by rw [e.2]; simp⟩
        · left
          by_cases e1 : p.1 = name
          · show p.2 ∈ upd s.subs name (dropSid (s.subs name) u.sid) p.1
            rw [e1, upd_same]
            simp only [dropSid, List.mem_filter, bne_iff_ne, ne_eq]
            exact ⟨by rw [← e1]; exact hl, fun e2 => e ⟨e1, e2⟩⟩
          · show p.2 ∈ upd s.subs name (dropSid (s.subs name) u.sid) p.1
            rw [upd_other _ _ _ _ e1]; exact hl
      · right; exact ⟨c, List.mem_append_left _ hc⟩
    · intro p hp
      rcases List.mem_append.1 hp with hp | hp
      · exact h.remClock p hp
      · simp only [List.mem_singleton] at hp; subst hp; exact Nat.le_refl _
    · exact h.spawnLe
    · intro n cb
      by_cases e : n = name
      · subst e; simp only [upd_same]; rw [plainCount_dropSid_once _ _ _ allOnce]; exact h.counts n cb
      · simp only [upd_other _ _ _ _ e]; exact h.counts n cb
    · exact h.createdCounts
    · exact h.startedCounts
    · exact h.hadRet
    · intro n
      by_cases e : n = name
      · subst e; simp only [upd_same, dropSid]
        exact ((List.filter_sublist).map _).nodup (h.liveNodup n)
      · simp only [upd_other _ _ _ _ e]; exact h.liveNodup n
    · exact h.hadWait
  · have ho' : u.once = false := by simpa using ho
    simp only [invokeCore, ho', Bool.false_eq_true, if_false]
    refine ⟨h.subSids, h.liveSub, h.restSub, ?_, h.goneRem, h.remClock, h.spawnLe, h.counts, h.createdCounts,
      h.startedCounts, h.hadRet, h.liveNodup, h.hadWait⟩
    intro e he
    rcases List.mem_append.1 he with he | he
    · exact h.logSub e he
    · simp only [List.mem_singleton] at he; subst he; simp only [hname]; exact hu

theorem invS_invoke (s : St) (h : InvS s) (i name : Nat) (u : Sub) (val : Nat)
    (hname : (s.d i).name = name) (hu : (name, u) ∈ s.subscribed) (hst : (s.d i).ph.started = true) :
    InvS (invokeSt s i name u val) := by
  rw [invokeSt_eq]
  exact invS_updD _ (invS_invokeCore s h i name u val hname hu) i _ rfl rfl rfl rfl rfl hst hst
    (fun rest u' k v hp x hx => by
      have := (invS_invokeCore s h i name u val hname hu).restSub i rest u' k v hp x hx
      exact this)

@[simp] theorem wake_had (w : Nat → WTask) (n j : Nat) : (wake w n j).had = (w j).had := by
  unfold wake; split <;> (try split) <;> rfl

theorem invS_store (s : St) (h : InvS s) (i name val : Nat) (hst : (s.d i).ph.started = true) :
    InvS (storeSt s i name val) := by
  have b := invS_updD s h i { s.d i with ph := .done val } rfl rfl rfl rfl rfl hst rfl (by intro r u k v hp; simp at hp)
  exact ⟨b.subSids, b.liveSub, b.restSub, b.logSub, b.goneRem, b.remClock, b.spawnLe, b.counts, b.createdCounts,
    b.startedCounts, fun j v a hj hh => by
      simp only [storeSt, wake_had, wake_t0] at hh ⊢
      exact h.hadRet j v a (wake_returned _ _ _ _ _ hj) hh, b.liveNodup, fun j hj => by
      simp only [storeSt, wake_had] at hj ⊢
      apply h.hadWait j
      rw [wake_ph] at hj
      cases hp : (s.w j).ph <;> rw [hp] at hj <;> simp_all [WPhase.pending]⟩

theorem invS_walk (sc : Nat → Script) (i name : Nat) (rest : List Sub) :
    ∀ (s : St) (val : Nat), InvS s → (s.d i).name = name → (s.d i).ph.started = true →
      (∀ x ∈ rest, (name, x) ∈ s.subscribed) → InvS (walk sc i name s rest val) := by
  induction rest with
  | nil => intro s val h _ hst _; exact invS_store s h i name val hst
  | cons u rest ih =>
    intro s val h hname hst hsub
    unfold walk
    split
    · have b := invS_updD s h i { s.d i with trail := (s.d i).trail ++ [(u, none)] } rfl rfl rfl rfl rfl hst hst
        (fun r u' k v hp x hx => h.restSub i r u' k v hp x hx)
      exact ih (skipSt s i u) val b (by simpa [skipSt] using hname) (by simpa [skipSt] using hst)
        (fun x hx => hsub x (by simp [hx]))
    · have hI := invS_invoke s h i name u val hname (hsub u (by simp)) hst
      have hname' : ((invokeSt s i name u val).d i).name = name := by simpa [invokeSt] using hname
      have hst' : ((invokeSt s i name u val).d i).ph.started = true := by simpa [invokeSt] using hst
      have hsub' : ∀ x ∈ rest, (name, x) ∈ (invokeSt s i name u val).subscribed :=
        fun x hx => hsub x (by simp [hx])
      split
      · exact ih _ _ hI hname' hst' hsub'
      · exact invS_updD _ hI i _ rfl rfl rfl rfl rfl hst' rfl (by
          intro r u' k v hp x hx
          simp only [DPhase.inCb.injEq] at hp
          obtain ⟨rfl, _, _, _⟩ := hp
          simp only [hname']; exact hsub' x hx)


theorem invS_start (s : St) (h : InvS s) (i : Nat) (hph : (s.d i).ph = .created) :
    InvS { s with d := upd s.d i { s.d i with snapshot := s.subs (s.d i).name, startedAt := s.clock, ph := .running } } := by
  have hname : ∀ j, (upd s.d i { s.d i with snapshot := s.subs (s.d i).name, startedAt := s.clock, ph := DPhase.running } j).name
      = (s.d j).name := fun j => by
    by_cases e : j = i
    · subst e; simp
    · rw [upd_other _ _ _ _ e]
  constructor
  · exact h.subSids
  · exact h.liveSub
  · intro j rest u k v hj x hx
    by_cases e : j = i
    · subst e; simp at hj
    · simp only [upd_other _ _ _ _ e] at hj ⊢; exact h.restSub j rest u k v hj x hx
  · intro e he; simp only [hname]; exact h.logSub e he
  · exact h.goneRem
  · exact h.remClock
  · intro j
    by_cases e : j = i
    · subst e; simp only [upd_same]; exact ⟨(h.spawnLe j).1, fun _ => (h.spawnLe j).1⟩
    · simp only [upd_other _ _ _ _ e]; exact h.spawnLe j
  · exact h.counts
  · intro j cb hj
    by_cases e : j = i
    · subst e; simp at hj
    · simp only [upd_other _ _ _ _ e] at hj ⊢; exact h.createdCounts j cb hj
  · intro j cb hj
    by_cases e : j = i
    · subst e; simp only [upd_same]
      exact Nat.le_trans (h.createdCounts j cb hph) (h.counts _ cb)
    · simp only [upd_other _ _ _ _ e] at hj ⊢; exact h.startedCounts j cb hj
  · exact h.hadRet
  · exact h.liveNodup
  · exact h.hadWait

theorem invS_resume (s : St) (h : InvS s) (i : Nat) (rest : List Sub) (u : Sub) (val : Nat)
    (hph : (s.d i).ph = .inCb rest u 0 val) : InvS { s with d := upd s.d i { s.d i with ph := .running } } :=
  invS_updD s h i { s.d i with ph := .running } rfl rfl rfl rfl rfl (by rw [hph]; rfl) rfl
    (by intro r u' k v hp; simp at hp)

theorem invS_stepD (sc : Nat → Script) (s : St) (h : InvS s) (i : Nat) : InvS (stepD sc s i) := by
  unfold stepD
  split
  · rename_i hph
    exact invS_walk sc i _ _ _ _ (invS_start s h i hph) (by simp) (by simp [DPhase.started])
      (fun x hx => h.liveSub _ x hx)
  · rename_i rest u k val hph
    exact invS_updD s h i _ rfl rfl rfl rfl rfl (by rw [hph]; rfl) rfl (by
      intro r u' k' v hp x hx
      simp only [DPhase.inCb.injEq] at hp
      obtain ⟨rfl, _, _, _⟩ := hp
      exact h.restSub i rest u (k + 1) val hph x hx)
  · rename_i rest u val hph
    exact invS_walk sc i _ _ _ _ (invS_resume s h i rest u val hph) (by simp) (by simp [DPhase.started])
      (fun x hx => h.restSub i rest u 0 val hph x hx)
  · exact h

theorem plainCount_append (l : List Sub) (u : Sub) (cb : Nat) :
    plainCount (l ++ [u]) cb = plainCount l cb + (if !u.once && u.cb == cb then 1 else 0) := by
  simp only [plainCount, List.filter_append, List.length_append, List.filter_cons, List.filter_nil]
  split <;> simp

theorem bump_ge (f : Nat → Nat → Nat) (n cb n' cb' : Nat) : f n' cb' ≤ bump f n cb n' cb' := by
  unfold bump; split <;> omega

theorem invS_subscribe (s : St) (h : InvS s) (hA : InvA s) (n cb : Nat) (o : Bool) :
    InvS { s with subs := upd s.subs n (s.subs n ++ [⟨s.nextSid, cb, o⟩]), nextSid := s.nextSid + 1,
                  subscribed := s.subscribed ++ [(n, ⟨s.nextSid, cb, o⟩)],
                  nSub := if o then s.nSub else bump s.nSub n cb } := by
  have mem : ∀ m x, x ∈ upd s.subs n (s.subs n ++ [⟨s.nextSid, cb, o⟩]) m →
      x ∈ s.subs m ∨ (m = n ∧ x = ⟨s.nextSid, cb, o⟩) := by
    intro m x hx
    by_cases e : m = n
    · subst e; simp only [upd_same, List.mem_append, List.mem_singleton] at hx
      rcases hx with hx | hx
      · exact Or.inl hx
      · exact Or.inr ⟨rfl, hx⟩
    · rw [upd_other _ _ _ _ e] at hx; exact Or.inl hx
  have nsub_ge : ∀ n' cb', s.nSub n' cb' ≤ (if o then s.nSub else bump s.nSub n cb) n' cb' := by
    intro n' cb'; cases o
    · exact bump_ge _ _ _ _ _
    · exact Nat.le_refl _
  constructor
  · simp only [List.map_append, List.map_cons, List.map_nil, h.subSids, List.range_succ]
  · intro m x hx
    rcases mem m x hx with hx | ⟨rfl, rfl⟩
    · exact List.mem_append_left _ (h.liveSub m x hx)
    · simp
  · intro j rest u k v hj x hx; exact List.mem_append_left _ (h.restSub j rest u k v hj x hx)
  · intro e he; exact List.mem_append_left _ (h.logSub e he)
  · intro p hp
    rcases List.mem_append.1 hp with hp | hp
    · rcases h.goneRem p hp with hl | hr
      · left
        by_cases e : p.1 = n
        · show p.2 ∈ upd s.subs n _ p.1
          rw [e, upd_same]; exact List.mem_append_left _ (e ▸ hl)
        · show p.2 ∈ upd s.subs n _ p.1
          rw [upd_other _ _ _ _ e]; exact hl
      · exact Or.inr hr
    · simp only [List.mem_singleton] at hp; subst hp
      left; show _ ∈ upd s.subs n _ n; simp
  · exact h.remClock
  · exact h.spawnLe
  · intro m cb'
    by_cases e : m = n
    · subst e
      simp only [upd_same, plainCount_append]
      have := h.counts m cb'
      cases o
      · simp only [Bool.false_eq_true, if_false, Bool.not_false, Bool.true_and, bump]
        by_cases e2 : cb' = cb
        · subst e2; simp; omega
        · have : ¬ (cb == cb') = true := by simpa using fun e3 => e2 e3.symm
          simp [e2, this]; omega
      · simp; omega
    · simp only [upd_other _ _ _ _ e]
      have := h.counts m cb'
      cases o
      · simp only [Bool.false_eq_true, if_false, bump, e, false_and, if_false]; exact this
      · simpa using this
  · intro j cb' hj; exact Nat.le_trans (h.createdCounts j cb' hj) (nsub_ge _ _)
  · exact h.startedCounts
  · exact h.hadRet
  · intro m
    by_cases e : m = n
    · subst e
      simp only [upd_same, List.map_append, List.map_cons, List.map_nil]
      rw [List.nodup_append]
      refine ⟨h.liveNodup m, by simp, ?_⟩
      intro a ha b hb
      simp only [List.mem_singleton] at hb; subst hb
      obtain ⟨x, hx, rfl⟩ := List.mem_map.1 ha
      have := hA.liveLt m x hx
      intro e2; omega
    · simp only [upd_other _ _ _ _ e]; exact h.liveNodup m
  · exact h.hadWait


theorem dropSid_not_mem (l : List Sub) (sid : Nat) (h : ∀ x ∈ l, x.sid ≠ sid) : dropSid l sid = l := by
  simp only [dropSid]
  apply List.filter_eq_self.2
  intro x hx; simpa using h x hx

theorem plainCount_dropSid_le (l : List Sub) (sid cb : Nat) (hnd : (l.map (·.sid)).Nodup) :
    plainCount l cb ≤ plainCount (dropSid l sid) cb + 1 := by
  induction l with
  | nil => simp [plainCount, dropSid]
  | cons a l ih =>
    simp only [List.map_cons, List.nodup_cons] at hnd
    by_cases e : a.sid = sid
    · have hl : dropSid l sid = l := dropSid_not_mem l sid (fun x hx hs => hnd.1 (by
        simp only [List.mem_map]; exact ⟨x, hx, by rw [hs, e]⟩))
      have : dropSid (a :: l) sid = l := by
        simp only [dropSid, List.filter_cons, e, bne_self_eq_false, Bool.false_eq_true, if_false]
        exact hl
      rw [this]
      simp only [plainCount, List.filter_cons]
      split <;> simp <;> omega
    · have e' : (a.sid != sid) = true := by simpa using e
      have : dropSid (a :: l) sid = a :: dropSid l sid := by simp [dropSid, List.filter_cons, e']
      rw [this]
      have := ih hnd.2
      simp only [plainCount, List.filter_cons] at this ⊢
      split <;> simp <;> omega

/-- the entry `u` of the live list of `n` is removed by an `unsubscribe` call; `g` is the new
call counter (it may only grow, and counts this call when `u` is a plain entry) -/
theorem invS_remove (s : St) (h : InvS s) (n : Nat) (u : Sub) (hu : u ∈ s.subs n) (g : Nat → Nat → Nat)
    (hg : ∀ m c, s.nUnsub m c ≤ g m c) (hg1 : u.once = false → g n u.cb = s.nUnsub n u.cb + 1) :
    InvS { s with subs := upd s.subs n (dropSid (s.subs n) u.sid), removed := s.removed ++ [(u.sid, s.clock)],
                  nUnsub := g } := by
  have sub : ∀ m x, x ∈ (upd s.subs n (dropSid (s.subs n) u.sid)) m → x ∈ s.subs m := by
    intro m x hx
    by_cases e : m = n
    · subst e; simp only [upd_same] at hx; exact (mem_dropSid hx).1
    · rw [upd_other _ _ _ _ e] at hx; exact hx
  have same : ∀ x ∈ s.subs n, x.sid = u.sid → x = u := by
    intro x hx hs
    have := subscribed_inj s h (n, x) (n, u) (h.liveSub n x hx) (h.liveSub n u hu) hs
    injection this
  constructor
  · exact h.subSids
  · intro m x hx; exact h.liveSub m x (sub m x hx)
  · exact h.restSub
  · exact h.logSub
  · intro p hp
    rcases h.goneRem p hp with hl | ⟨c, hc⟩
    · by_cases e : p.1 = n ∧ p.2.sid = u.sid
      · right; exact ⟨s.clock, by rw [e.2]; simp⟩
      · left
        by_cases e1 : p.1 = n
        · show p.2 ∈ upd s.subs n (dropSid (s.subs n) u.sid) p.1
          rw [e1, upd_same]
          simp only [dropSid, List.mem_filter, bne_iff_ne, ne_eq]
          exact ⟨by rw [← e1]; exact hl, fun e2 => e ⟨e1, e2⟩⟩
        · show p.2 ∈ upd s.subs n (dropSid (s.subs n) u.sid) p.1
          rw [upd_other _ _ _ _ e1]; exact hl
    · right; exact ⟨c, List.mem_append_left _ hc⟩
  · intro p hp
    rcases List.mem_append.1 hp with hp | hp
    · exact h.remClock p hp
    · simp only [List.mem_singleton] at hp; subst hp; exact Nat.le_refl _
  · exact h.spawnLe
  · intro m cb
    have hc := h.counts m cb
    have hgm := hg m cb
    by_cases e : m = n
    · subst e
      simp only [upd_same]
      by_cases ho : u.once = true
      · rw [plainCount_dropSid_once _ _ _ (fun x hx hs => by rw [same x hx hs]; exact ho)]; omega
      · have ho' : u.once = false := by simpa using ho
        by_cases ecb : cb = u.cb
        · subst ecb
          have := plainCount_dropSid_le (s.subs m) u.sid u.cb (h.liveNodup m)
          have := hg1 ho'
          omega
        · have : plainCount (dropSid (s.subs m) u.sid) cb = plainCount (s.subs m) cb := by
            simp only [plainCount, dropSid, List.filter_filter]
            congr 1
            apply List.filter_congr
            intro x hx
            by_cases e : x.sid = u.sid
            · have := same x hx e; subst this
              have : (x.cb == cb) = false := by simpa using fun e3 => ecb e3.symm
              simp [this]
            · simp [e]
          omega
    · simp only [upd_other _ _ _ _ e]; omega
  · exact h.createdCounts
  · intro j cb hj; exact Nat.le_trans (h.startedCounts j cb hj) (Nat.add_le_add_left (hg _ _) _)
  · exact h.hadRet
  · intro m
    by_cases e : m = n
    · subst e; simp only [upd_same, dropSid]
      exact ((List.filter_sublist).map _).nodup (h.liveNodup m)
    · simp only [upd_other _ _ _ _ e]; exact h.liveNodup m
  · exact h.hadWait

@[simp] theorem expire_had (t : Nat) (x : WTask) : (expire t x).had = x.had := by
  unfold expire; split <;> (try split) <;> rfl

theorem invS_apply (sc : Nat → Script) (s : St) (h : InvS s) (hA : InvA s) (e : Ev) : InvS (apply sc s e) := by
  cases e with
  | subscribe n cb => exact invS_subscribe s h hA n cb false
  | subscribeOnce n cb =>
    have := invS_subscribe s h hA n cb true
    exact ⟨this.subSids, this.liveSub, this.restSub, this.logSub, this.goneRem, this.remClock, this.spawnLe,
      this.counts, this.createdCounts, this.startedCounts, this.hadRet, this.liveNodup, this.hadWait⟩
  | unsubCb n cb =>
    simp only [apply]; split
    · rename_i u hu
      have hmem := List.mem_of_find?_eq_some hu
      have hp := List.find?_some hu
      simp only [Bool.and_eq_true, Bool.not_eq_true', beq_iff_eq] at hp
      refine invS_remove s h n u hmem (bump s.nUnsub n cb) (fun m c => bump_ge _ _ _ _ _) ?_
      intro _; rw [hp.2]; simp [bump]
    · exact ⟨h.subSids, h.liveSub, h.restSub, h.logSub, h.goneRem, h.remClock, h.spawnLe,
        fun m c => Nat.le_trans (h.counts m c) (Nat.add_le_add_left (bump_ge _ _ _ _ _) _), h.createdCounts,
        fun j c hj => Nat.le_trans (h.startedCounts j c hj) (Nat.add_le_add_left (bump_ge _ _ _ _ _) _),
        h.hadRet, h.liveNodup, h.hadWait⟩
  | unsubOnce n sid =>
    simp only [apply]; split
    · rename_i hc
      obtain ⟨u, hu, hus⟩ := List.any_eq_true.1 hc
      simp only [Bool.and_eq_true, beq_iff_eq] at hus
      rw [← hus.2]
      exact invS_remove s h n u hu s.nUnsub (fun _ _ => Nat.le_refl _) (fun ho => by rw [hus.1] at ho; simp at ho)
    · exact h
  | spawnDispatch n v =>
    have hab := hA.dAbsent s.nd (Nat.le_refl _)
    have noLog : ∀ e ∈ s.log, e.task ≠ s.nd := by
      intro e he ei
      have := hA.logStarted e he
      rw [ei, hab] at this; simp [DPhase.started] at this
    simp only [apply]
    constructor
    · exact h.subSids
    · exact h.liveSub
    · intro j rest u k val hj
      by_cases e : j = s.nd
      · subst e; simp at hj
      · simp only [upd_other _ _ _ _ e] at hj ⊢; exact h.restSub j rest u k val hj
    · intro e he; simp only [upd_other _ _ _ _ (noLog e he)]; exact h.logSub e he
    · exact h.goneRem
    · exact h.remClock
    · intro j
      by_cases e : j = s.nd
      · subst e; simp [DPhase.started]
      · simp only [upd_other _ _ _ _ e]; exact h.spawnLe j
    · exact h.counts
    · intro j cb hj
      by_cases e : j = s.nd
      · subst e; simp
      · simp only [upd_other _ _ _ _ e] at hj ⊢; exact h.createdCounts j cb hj
    · intro j cb hj
      by_cases e : j = s.nd
      · subst e; simp [DPhase.started] at hj
      · simp only [upd_other _ _ _ _ e] at hj ⊢; exact h.startedCounts j cb hj
    · exact h.hadRet
    · exact h.liveNodup
    · exact h.hadWait
  | spawnWait n to =>
    simp only [apply]
    refine ⟨h.subSids, h.liveSub, h.restSub, h.logSub, h.goneRem, h.remClock, h.spawnLe, h.counts, h.createdCounts,
      h.startedCounts, ?_, h.liveNodup, ?_⟩
    · intro j v a hj hh
      by_cases e : j = s.nw
      · subst e; simp at hj
      · simp only [upd_other _ _ _ _ e] at hj hh ⊢; exact h.hadRet j v a hj hh
    · intro j hj
      by_cases e : j = s.nw
      · subst e; simp
      · simp only [upd_other _ _ _ _ e] at hj ⊢; exact h.hadWait j hj
  | stepD i => exact invS_stepD sc s h i
  | stepW j =>
    have frame : ∀ (t : WTask), (∀ v a, t.ph = .returned v a → t.had = true → a = t.t0) →
        (t.ph.pending = true → t.had = false) → InvS { s with w := upd s.w j t } := by
      intro t h1 h2
      refine ⟨h.subSids, h.liveSub, h.restSub, h.logSub, h.goneRem, h.remClock, h.spawnLe, h.counts,
        h.createdCounts, h.startedCounts, ?_, h.liveNodup, ?_⟩
      · intro j' v a hj hh
        by_cases e : j' = j
        · subst e; simp only [upd_same] at hj hh ⊢; exact h1 v a hj hh
        · simp only [upd_other _ _ _ _ e] at hj hh ⊢; exact h.hadRet j' v a hj hh
      · intro j' hj
        by_cases e : j' = j
        · subst e; simp only [upd_same] at hj ⊢; exact h2 hj
        · simp only [upd_other _ _ _ _ e] at hj ⊢; exact h.hadWait j' hj
    simp only [apply, stepW]
    split
    · rename_i hph
      have hf := h.hadWait j (by rw [hph]; rfl)
      split
      · exact frame _ (by intro v a hva _; simp at hva; simp [hva.2]) (by simp [WPhase.pending])
      · split
        · exact frame _ (by simp) (by simp [WPhase.pending])
        · exact frame _ (by simp) (by intro _; simpa using hf)
    · rename_i hph
      have hf := h.hadWait j (by rw [hph]; rfl)
      exact frame _ (by intro v a _ hh; simp [hf] at hh) (by simp [WPhase.pending])
    · exact h
  | advance t =>
    simp only [apply, advance]
    split
    · exact h
    · refine ⟨h.subSids, h.liveSub, h.restSub, h.logSub, h.goneRem, h.remClock, h.spawnLe, h.counts,
        h.createdCounts, h.startedCounts, ?_, h.liveNodup, ?_⟩
      · intro j v a hj hh
        simp only [expire_had, expire_t0] at hh ⊢
        exact h.hadRet j v a (expire_other _ _ _ hj ⟨by simp, by simp⟩) hh
      · intro j hj
        simp only [expire_had]
        apply h.hadWait j
        rw [expire_ph] at hj
        cases hp : (s.w j).ph with
        | waiting o => rfl
        | created => rfl
        | woken => rfl
        | absent => rw [hp] at hj; simp [WPhase.pending] at hj
        | returned v a => rw [hp] at hj; simp [WPhase.pending] at hj
        | timedOut a => rw [hp] at hj; simp [WPhase.pending] at hj

theorem invS_step (sc : Nat → Script) (s : St) (h : InvS s) (hA : InvA s) (e : Ev) : InvS (step sc s e) := by
  have a := invS_apply sc s h hA e
  have hc := apply_clock sc s e
  exact ⟨a.subSids, a.liveSub, a.restSub, a.logSub, a.goneRem,
    fun p hp => by have := a.remClock p hp; rw [hc] at this; show p.2 ≤ s.clock + 1; omega,
    fun j => by
      have := a.spawnLe j; rw [hc] at this
      exact ⟨by show ((apply sc s e).d j).spawnedAt ≤ s.clock + 1; omega, this.2⟩,
    a.counts, a.createdCounts, a.startedCounts, a.hadRet, a.liveNodup, a.hadWait⟩

/-- removal stamps are strictly below the event counter between events -/
theorem step_removed_lt (sc : Nat → Script) (s : St) (h : InvS s) (hA : InvA s) (e : Ev) :
    ∀ p ∈ (step sc s e).removed, p.2 < (step sc s e).clock := by
  intro p hp
  have := (invS_apply sc s h hA e).remClock p hp
  rw [apply_clock] at this
  show p.2 < s.clock + 1; omega

end PlumVerif.C13

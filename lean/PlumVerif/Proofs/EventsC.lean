import PlumVerif.Proofs.Events
/-
C13 invariant, part C: stored data, waiters, deadlines.
-/
namespace PlumVerif.C13

/-- data and waiters -/
structure InvC (s : St) : Prop where
  dataDone : ∀ n v, s.data n = some v → ∃ i, (s.d i).name = n ∧ (s.d i).ph = .done v
  waitNone : ∀ j dl, (s.w j).ph = .waiting dl → s.data (s.w j).name = none
  wokenSome : ∀ j, (s.w j).ph = .woken → s.data (s.w j).name ≠ none
  retDone : ∀ j v a, (s.w j).ph = .returned v a → ∃ i, (s.d i).name = (s.w j).name ∧ (s.d i).ph = .done v
  deadline : ∀ j dl, (s.w j).ph = .waiting (some dl) →
    s.now < dl ∧ ∃ to, (s.w j).timeout = some to ∧ dl = (s.w j).t0 + to
  timedOut : ∀ j a, (s.w j).ph = .timedOut a → ∃ to, (s.w j).timeout = some to ∧ a = (s.w j).t0 + to
  dAbsent : ∀ i, s.nd ≤ i → (s.d i).ph = .absent
  wAbsent : ∀ j, s.nw ≤ j → (s.w j).ph = .absent

theorem invC_init : InvC init := by
  constructor <;> intros <;> simp_all [init]

/-- changing dispatch task `i` (which is not done) in a way that keeps its name, into a phase
that is not `done` -/
theorem invC_updD (s : St) (h : InvC s) (i : Nat) (t : DTask) (hnd : ∀ f, (s.d i).ph ≠ .done f)
    (hname : t.name = (s.d i).name) (hph : (∀ f, t.ph ≠ .done f) ∧ t.ph ≠ .absent) (hi : i < s.nd) :
    InvC { s with d := upd s.d i t } := by
  have keep : ∀ n v, (∃ i', (s.d i').name = n ∧ (s.d i').ph = .done v) →
      ∃ i', (upd s.d i t i').name = n ∧ (upd s.d i t i').ph = .done v := by
    rintro n v ⟨i', h1, h2⟩
    have : i' ≠ i := fun e => hnd v (e ▸ h2)
    exact ⟨i', by rw [upd_other _ _ _ _ this]; exact h1, by rw [upd_other _ _ _ _ this]; exact h2⟩
  constructor
  · intro n v hv; exact keep n v (h.dataDone n v hv)
  · exact h.waitNone
  · exact h.wokenSome
  · intro j v a hj; exact keep _ v (h.retDone j v a hj)
  · exact h.deadline
  · exact h.timedOut
  · intro i' hi'
    have hi'' : s.nd ≤ i' := hi'
    have : i' ≠ i := by omega
    simp only [upd_other _ _ _ _ this]; exact h.dAbsent i' hi''
  · exact h.wAbsent

theorem invC_skip (s : St) (h : InvC s) (i : Nat) (u : Sub) (hnd : ∀ f, (s.d i).ph ≠ .done f)
    (hab : (s.d i).ph ≠ .absent) (hi : i < s.nd) : InvC (skipSt s i u) :=
  invC_updD s h i _ hnd rfl ⟨hnd, hab⟩ hi

theorem invC_suspend (s : St) (h : InvC s) (i : Nat) (rest : List Sub) (u : Sub) (k val : Nat)
    (hnd : ∀ f, (s.d i).ph ≠ .done f) (hi : i < s.nd) : InvC (suspendSt s i rest u k val) :=
  invC_updD s h i _ hnd rfl ⟨by intro f; simp, by simp⟩ hi

theorem invC_invoke (s : St) (h : InvC s) (i name : Nat) (u : Sub) (val : Nat)
    (hnd : ∀ f, (s.d i).ph ≠ .done f) (hab : (s.d i).ph ≠ .absent) (hi : i < s.nd) :
    InvC (invokeSt s i name u val) := by
  have := invC_updD s h i { s.d i with trail := (s.d i).trail ++ [(u, some val)] } hnd rfl ⟨hnd, hab⟩ hi
  exact ⟨this.dataDone, this.waitNone, this.wokenSome, this.retDone, this.deadline, this.timedOut,
    this.dAbsent, this.wAbsent⟩

theorem invC_store (s : St) (h : InvC s) (i name val : Nat) (hnd : ∀ f, (s.d i).ph ≠ .done f)
    (hname : (s.d i).name = name) (hi : i < s.nd) : InvC (storeSt s i name val) := by
  have keep : ∀ n v, (∃ i', (s.d i').name = n ∧ (s.d i').ph = .done v) →
      ∃ i', (upd s.d i { s.d i with ph := .done val } i').name = n ∧
        (upd s.d i { s.d i with ph := .done val } i').ph = .done v := by
    rintro n v ⟨i', h1, h2⟩
    have : i' ≠ i := fun e => hnd v (e ▸ h2)
    exact ⟨i', by rw [upd_other _ _ _ _ this]; exact h1, by rw [upd_other _ _ _ _ this]; exact h2⟩
  have self : ∃ i', (upd s.d i { s.d i with ph := .done val } i').name = name ∧
      (upd s.d i { s.d i with ph := .done val } i').ph = .done val :=
    ⟨i, by simp [hname], by simp⟩
  constructor
  · intro n v hv
    simp only [storeSt, upd_apply] at hv
    by_cases hn : n = name
    · subst hn; simp at hv; subst hv; exact self
    · simp [hn] at hv; exact keep n v (h.dataDone n v hv)
  · intro j dl hj
    obtain ⟨h1, h2⟩ := wake_waiting _ _ _ _ hj
    simp only [storeSt, wake_name, upd_apply, h2, if_false]
    exact h.waitNone j dl h1
  · intro j hj
    simp only [storeSt, wake_name, upd_apply]
    rcases wake_woken _ _ _ hj with h1 | ⟨dl, _, h2⟩
    · by_cases hn : (s.w j).name = name
      · simp [hn]
      · simp only [hn, if_false]; exact h.wokenSome j h1
    · simp [h2]
  · intro j v a hj
    simp only [storeSt, wake_name]
    exact keep _ v (h.retDone j v a (wake_returned _ _ _ _ _ hj))
  · intro j dl hj
    obtain ⟨h1, _⟩ := wake_waiting _ _ _ _ hj
    simpa [storeSt] using h.deadline j dl h1
  · intro j a hj
    simpa [storeSt] using h.timedOut j a (wake_timedOut _ _ _ _ hj)
  · intro i' hi'
    have hi'' : s.nd ≤ i' := hi'
    have : i' ≠ i := by omega
    simp only [storeSt, upd_other _ _ _ _ this]; exact h.dAbsent i' hi''
  · intro j hj
    exact wake_absent _ _ _ (h.wAbsent j hj)

theorem invC_walk (sc : Nat → Script) (i name : Nat) (rest : List Sub) :
    ∀ (s : St) (val : Nat), InvC s → (∀ f, (s.d i).ph ≠ .done f) → (s.d i).ph ≠ .absent →
      (s.d i).name = name → i < s.nd → InvC (walk sc i name s rest val) := by
  induction rest with
  | nil => intro s val h hnd _ hname hi; exact invC_store s h i name val hnd hname hi
  | cons u rest ih =>
    intro s val h hnd hab hname hi
    unfold walk
    split
    · exact ih _ val (invC_skip s h i u hnd hab hi) (by simpa [skipSt] using hnd)
        (by simpa [skipSt] using hab) (by simpa [skipSt] using hname) hi
    · have hI := invC_invoke s h i name u val hnd hab hi
      split
      · exact ih _ _ hI (by simpa [invokeSt] using hnd) (by simpa [invokeSt] using hab)
          (by simpa [invokeSt] using hname) hi
      · exact invC_suspend _ hI i rest u _ val (by simpa [invokeSt] using hnd) hi


theorem lt_nd_of_not_absent (s : St) (h : InvC s) (i : Nat) (hab : (s.d i).ph ≠ .absent) : i < s.nd := by
  by_cases hi : i < s.nd
  · exact hi
  · exact absurd (h.dAbsent i (by omega)) hab

theorem lt_nw_of_not_absent (s : St) (h : InvC s) (j : Nat) (hab : (s.w j).ph ≠ .absent) : j < s.nw := by
  by_cases hj : j < s.nw
  · exact hj
  · exact absurd (h.wAbsent j (by omega)) hab

theorem invC_stepD (sc : Nat → Script) (s : St) (h : InvC s) (i : Nat) : InvC (stepD sc s i) := by
  unfold stepD
  split
  · rename_i hph
    have hi := lt_nd_of_not_absent s h i (by rw [hph]; simp)
    have h0 := invC_updD s h i
      { s.d i with snapshot := s.subs (s.d i).name, startedAt := s.clock, ph := .running }
      (by rw [hph]; intro f; simp) rfl ⟨by simp, by simp⟩ hi
    exact invC_walk sc i _ _ _ _ h0 (by simp) (by simp) (by simp) hi
  · rename_i rest u k val hph
    have hi := lt_nd_of_not_absent s h i (by rw [hph]; simp)
    exact invC_updD s h i _ (by rw [hph]; intro f; simp) rfl ⟨by simp, by simp⟩ hi
  · rename_i rest u val hph
    have hi := lt_nd_of_not_absent s h i (by rw [hph]; simp)
    have h0 := invC_updD s h i { s.d i with ph := .running }
      (by rw [hph]; intro f; simp) rfl ⟨by simp, by simp⟩ hi
    exact invC_walk sc i _ _ _ _ h0 (by simp) (by simp) (by simp) hi
  · exact h

/-- replacing waiter `j` by a task `t` that satisfies the waiter clauses itself -/
theorem invC_updW (s : St) (h : InvC s) (j : Nat) (t : WTask) (hj : j < s.nw)
    (h1 : ∀ dl, t.ph = .waiting dl → s.data t.name = none)
    (h2 : t.ph = .woken → s.data t.name ≠ none)
    (h3 : ∀ v a, t.ph = .returned v a → ∃ i, (s.d i).name = t.name ∧ (s.d i).ph = .done v)
    (h4 : ∀ dl, t.ph = .waiting (some dl) → s.now < dl ∧ ∃ to, t.timeout = some to ∧ dl = t.t0 + to)
    (h5 : ∀ a, t.ph = .timedOut a → ∃ to, t.timeout = some to ∧ a = t.t0 + to) :
    InvC { s with w := upd s.w j t } := by
  constructor
  · exact h.dataDone
  · intro j' dl hj'
    by_cases e : j' = j
    · subst e; simp only [upd_same] at hj' ⊢; exact h1 dl hj'
    · simp only [upd_other _ _ _ _ e] at hj' ⊢; exact h.waitNone j' dl hj'
  · intro j' hj'
    by_cases e : j' = j
    · subst e; simp only [upd_same] at hj' ⊢; exact h2 hj'
    · simp only [upd_other _ _ _ _ e] at hj' ⊢; exact h.wokenSome j' hj'
  · intro j' v a hj'
    by_cases e : j' = j
    · subst e; simp only [upd_same] at hj' ⊢; exact h3 v a hj'
    · simp only [upd_other _ _ _ _ e] at hj' ⊢; exact h.retDone j' v a hj'
  · intro j' dl hj'
    by_cases e : j' = j
    · subst e; simp only [upd_same] at hj' ⊢; exact h4 dl hj'
    · simp only [upd_other _ _ _ _ e] at hj' ⊢; exact h.deadline j' dl hj'
  · intro j' a hj'
    by_cases e : j' = j
    · subst e; simp only [upd_same] at hj' ⊢; exact h5 a hj'
    · simp only [upd_other _ _ _ _ e] at hj' ⊢; exact h.timedOut j' a hj'
  · exact h.dAbsent
  · intro j' hj'
    have hj'' : s.nw ≤ j' := hj'
    have e : j' ≠ j := by omega
    simp only [upd_other _ _ _ _ e]; exact h.wAbsent j' hj''

theorem invC_stepW (s : St) (h : InvC s) (j : Nat) : InvC (stepW s j) := by
  unfold stepW
  split
  · rename_i hph
    have hj := lt_nw_of_not_absent s h j (by rw [hph]; simp)
    split
    · rename_i v hv
      exact invC_updW s h j _ hj (by simp) (by simp) (by
        intro v' a hva; simp at hva; rw [← hva.1]; exact h.dataDone _ v hv) (by simp) (by simp)
    · rename_i hv
      split
      · rename_i hto
        exact invC_updW s h j _ hj (by simp) (by simp) (by simp) (by simp) (by
          intro a ha; simp at ha; exact ⟨0, hto, by simp [ha]⟩)
      · rename_i to hto
        refine invC_updW s h j _ hj (by intro dl _; exact hv) (by simp) (by simp) ?_ (by simp)
        intro dl hdl
        simp only [WPhase.waiting.injEq] at hdl
        cases hto' : (s.w j).timeout with
        | none => rw [hto'] at hdl; simp at hdl
        | some t0 =>
          rw [hto'] at hdl; simp at hdl
          cases t0 with
          | zero => exact absurd hto' (by intro e; exact hto e)
          | succ k => exact ⟨by omega, k + 1, rfl, by show dl = s.now + (k + 1); omega⟩
  · rename_i hph
    have hj := lt_nw_of_not_absent s h j (by rw [hph]; simp)
    have hne := h.wokenSome j hph
    cases hd : s.data (s.w j).name with
    | none => exact absurd hd hne
    | some v =>
      exact invC_updW s h j _ hj (by simp) (by simp) (by
        intro v' a hva; simp at hva; rw [← hva.1]; simp; exact h.dataDone _ v hd) (by simp) (by simp)
  · exact h

theorem invC_advance (s : St) (h : InvC s) (t : Nat) : InvC (advance s t) := by
  unfold advance
  split
  · exact h
  · rename_i hlt
    constructor
    · exact h.dataDone
    · intro j dl hj
      simp only [expire_name]
      exact h.waitNone j dl (expire_waiting _ _ _ hj).1
    · intro j hj
      simp only [expire_name]
      exact h.wokenSome j (expire_other _ _ _ hj ⟨by simp, by simp⟩)
    · intro j v a hj
      simp only [expire_name]
      exact h.retDone j v a (expire_other _ _ _ hj ⟨by simp, by simp⟩)
    · intro j dl hj
      obtain ⟨h1, h2⟩ := expire_waiting _ _ _ hj
      obtain ⟨_, h4⟩ := h.deadline j dl h1
      simp only [expire_timeout, expire_t0]
      exact ⟨h2 dl rfl, h4⟩
    · intro j a hj
      simp only [expire_timeout, expire_t0]
      rcases expire_timedOut _ _ _ hj with h1 | h1
      · exact h.timedOut j a h1
      · exact (h.deadline j a h1).2
    · exact h.dAbsent
    · intro j hj
      have := h.wAbsent j hj
      simp only [expire_ph, this]

theorem invC_apply (sc : Nat → Script) (s : St) (h : InvC s) (e : Ev) : InvC (apply sc s e) := by
  cases e with
  | subscribe n cb => exact ⟨h.dataDone, h.waitNone, h.wokenSome, h.retDone, h.deadline, h.timedOut, h.dAbsent, h.wAbsent⟩
  | subscribeOnce n cb => exact ⟨h.dataDone, h.waitNone, h.wokenSome, h.retDone, h.deadline, h.timedOut, h.dAbsent, h.wAbsent⟩
  | unsubCb n cb =>
    simp only [apply]; split
    · exact ⟨h.dataDone, h.waitNone, h.wokenSome, h.retDone, h.deadline, h.timedOut, h.dAbsent, h.wAbsent⟩
    · exact ⟨h.dataDone, h.waitNone, h.wokenSome, h.retDone, h.deadline, h.timedOut, h.dAbsent, h.wAbsent⟩
  | unsubOnce n sid =>
    simp only [apply]; split
    · exact ⟨h.dataDone, h.waitNone, h.wokenSome, h.retDone, h.deadline, h.timedOut, h.dAbsent, h.wAbsent⟩
    · exact h
  | spawnDispatch n v =>
    have hab := h.dAbsent s.nd (Nat.le_refl _)
    have keep : ∀ n' v', (∃ i', (s.d i').name = n' ∧ (s.d i').ph = .done v') →
        ∃ i', (upd s.d s.nd ⟨n, v, .created, [], 0, [], s.clock, fun cb => s.nSub n cb⟩ i').name = n' ∧
          (upd s.d s.nd ⟨n, v, .created, [], 0, [], s.clock, fun cb => s.nSub n cb⟩ i').ph = .done v' := by
      rintro n' v' ⟨i', h1, h2⟩
      have : i' ≠ s.nd := fun e => by rw [e, hab] at h2; simp at h2
      exact ⟨i', by rw [upd_other _ _ _ _ this]; exact h1, by rw [upd_other _ _ _ _ this]; exact h2⟩
    refine ⟨fun n' v' hv => keep n' v' (h.dataDone n' v' hv), h.waitNone, h.wokenSome,
      fun j v' a hj => keep _ v' (h.retDone j v' a hj), h.deadline, h.timedOut, ?_, h.wAbsent⟩
    intro i hi
    have hi' : s.nd + 1 ≤ i := hi
    have : i ≠ s.nd := by omega
    simp only [apply, upd_other _ _ _ _ this]
    exact h.dAbsent i (by omega)
  | spawnWait n to =>
    have := invC_updW { s with nw := s.nw + 1 }
      ⟨h.dataDone, h.waitNone, h.wokenSome, h.retDone, h.deadline, h.timedOut, h.dAbsent,
        fun j hj => h.wAbsent j (by have : s.nw + 1 ≤ j := hj; omega)⟩
      s.nw ⟨n, to, .created, 0, false⟩ (by show s.nw < s.nw + 1; omega) (by simp) (by simp) (by simp) (by simp) (by simp)
    exact this
  | stepD i => exact invC_stepD sc s h i
  | stepW j => exact invC_stepW s h j
  | advance t => exact invC_advance s h t

theorem invC_step (sc : Nat → Script) (s : St) (h : InvC s) (e : Ev) : InvC (step sc s e) := by
  have := invC_apply sc s h e
  exact ⟨this.dataDone, this.waitNone, this.wokenSome, this.retDone, this.deadline, this.timedOut,
    this.dAbsent, this.wAbsent⟩

theorem invC_run (sc : Nat → Script) (evs : List Ev) : ∀ s, InvC s → InvC (run sc s evs) := by
  induction evs with
  | nil => intro s h; exact h
  | cons e es ih => intro s h; exact ih _ (invC_step sc s h e)

end PlumVerif.C13

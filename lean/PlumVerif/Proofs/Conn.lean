import PlumVerif.Model.Conn
/-
Invariants of the connection machine (helper lemmas for Props/C11.lean and Props/C12.lean).
-/
set_option linter.unusedSimpArgs false

namespace PlumVerif.Conn

/-- bookkeeping invariant of every reachable state -/
structure Inv (s : St) : Prop where
  conn_prod : s.connected = true → s.producers + (if s.lostPending then 1 else 0) = 1
  conn_recon : s.connected = true → s.recon = .idle
  conn_mid : s.connected = true → s.lostMid = false
  disc_prod : s.connected = false → s.producers = 0
  disc_lp : s.connected = false → s.lostPending = false
  mid_recon : s.lostMid = true → s.recon = .idle
  cons_le : s.consumers ≤ s.cfg

theorem inv_init (cfg : Nat) (rc : Bool) (sc : List OpenRes) : Inv (init cfg rc sc) := by
  constructor <;> simp [init]

/-- what `establish` needs: nothing of an earlier connection is left -/
structure Fresh (s : St) : Prop where
  disc : s.connected = false
  prod : s.producers = 0
  lp : s.lostPending = false
  mid : s.lostMid = false
  cons_le : s.consumers ≤ s.cfg

theorem fresh_of_inv_disc {s : St} (h : Inv s) (hd : s.connected = false) (hm : s.lostMid = false) : Fresh s :=
  ⟨hd, h.disc_prod hd, h.disc_lp hd, hm, h.cons_le⟩

theorem inv_establish {s : St} (h : Fresh s) (dm cm : Mode) : Inv (establish s dm cm).1 := by
  have := h.cons_le
  constructor <;> simp [establish, h.prod, h.lp, h.mid] <;> omega

theorem inv_of_fresh_recon {s : St} (h : Fresh s) (r : Recon) : Inv { s with recon := r } := by
  have := h.cons_le
  constructor <;> simp [h.disc, h.prod, h.lp, h.mid] <;> omega

theorem inv_openFailed {s : St} (h : Fresh s) (o : Owner) : Inv (openFailed s o).1 := by
  unfold openFailed; split <;> exact inv_of_fresh_recon h _

theorem fresh_popScript {s : St} (h : Fresh s) : Fresh (popScript s).2 := by
  unfold popScript; split <;> exact ⟨h.disc, h.prod, h.lp, h.mid, h.cons_le⟩

theorem inv_doOpen {s : St} (h : Fresh s) (o : Owner) : Inv (doOpen s o).1 := by
  have hp := fresh_popScript h
  simp only [doOpen]
  split
  · exact inv_establish hp _ _
  · exact inv_openFailed hp _
  · exact inv_of_fresh_recon hp _

theorem inv_reconnectInvoke {s : St} (h : Fresh s) (hr : s.recon = .idle) : Inv (reconnectInvoke s).1 := by
  unfold reconnectInvoke; split
  · exact inv_doOpen h _
  · have := inv_of_fresh_recon h .idle
    rw [← hr] at this; exact this


/-- two states agree on everything `Inv` talks about -/
structure SameCore (s s' : St) : Prop where
  connected : s'.connected = s.connected
  producers : s'.producers = s.producers
  lostPending : s'.lostPending = s.lostPending
  lostMid : s'.lostMid = s.lostMid
  recon : s'.recon = s.recon
  consumers : s'.consumers ≤ s.consumers
  cfg : s'.cfg = s.cfg

theorem SameCore.refl (s : St) : SameCore s s := ⟨rfl, rfl, rfl, rfl, rfl, Nat.le_refl _, rfl⟩

theorem SameCore.trans {a b c : St} (h1 : SameCore a b) (h2 : SameCore b c) : SameCore a c :=
  ⟨h2.connected.trans h1.connected, h2.producers.trans h1.producers, h2.lostPending.trans h1.lostPending,
   h2.lostMid.trans h1.lostMid, h2.recon.trans h1.recon,
   Nat.le_trans h2.consumers h1.consumers, h2.cfg.trans h1.cfg⟩

theorem Inv.of_same {s s' : St} (h : Inv s) (c : SameCore s s') : Inv s' := by
  constructor
  · rw [c.connected, c.producers, c.lostPending]; exact h.conn_prod
  · rw [c.connected, c.recon]; exact h.conn_recon
  · rw [c.connected, c.lostMid]; exact h.conn_mid
  · rw [c.connected, c.producers]; exact h.disc_prod
  · rw [c.connected, c.lostPending]; exact h.disc_lp
  · rw [c.lostMid, c.recon]; exact h.mid_recon
  · rw [c.cfg]; exact Nat.le_trans c.consumers h.cons_le

theorem same_latch (s : St) : SameCore s (latch s) := by
  unfold latch; split
  · split
    · exact ⟨rfl, rfl, rfl, rfl, rfl, Nat.le_refl _, rfl⟩
    · exact SameCore.refl s
  · exact SameCore.refl s

theorem same_handle (s : St) (f : Feed) : SameCore s (handle s f).1 := by
  cases f <;> exact ⟨rfl, rfl, rfl, rfl, rfl, Nat.le_refl _, rfl⟩

theorem same_park (s : St) (t : Target) : SameCore s (park s t) := by
  cases t <;> exact ⟨rfl, rfl, rfl, rfl, rfl, Nat.le_refl _, rfl⟩

theorem same_setupGo (s : St) : SameCore s (setupGo s).1 := by
  unfold setupGo; split
  · exact ⟨rfl, rfl, rfl, rfl, rfl, Nat.le_refl _, rfl⟩
  · exact SameCore.refl s

theorem same_fireSetup (s : St) (a : Nat) : SameCore s (fireSetup s a).1 := by
  unfold fireSetup
  split
  · exact SameCore.refl s
  · split
    · split <;> exact ⟨rfl, rfl, rfl, rfl, rfl, Nat.le_refl _, rfl⟩
    · exact SameCore.refl s


/-! ### the frame consumers touch nothing of the connection machinery -/

/-- a step of the frame consumers (take a frame, finish it, a subscriber returns, a gate is set
up): the connection side is untouched; only consumers may exit -/
structure Frames (s s' : St) : Prop where
  connected : s'.connected = s.connected
  producers : s'.producers = s.producers
  lostPending : s'.lostPending = s.lostPending
  lostMid : s'.lostMid = s.lostMid
  recon : s'.recon = s.recon
  consumers : s'.consumers ≤ s.consumers
  cfg : s'.cfg = s.cfg
  writer : s'.writer = s.writer
  wopen : s'.wopen = s.wopen
  closing : s'.closing = s.closing
  now : s'.now = s.now
  writeQ : s'.writeQ = s.writeQ
  pphase : s'.pphase = s.pphase
  script : s'.script = s.script
  rcOn : s'.rcOn = s.rcOn

theorem Frames.refl (s : St) : Frames s s :=
  ⟨rfl, rfl, rfl, rfl, rfl, Nat.le_refl _, rfl, rfl, rfl, rfl, rfl, rfl, rfl, rfl, rfl⟩

theorem Frames.trans {a b c : St} (h1 : Frames a b) (h2 : Frames b c) : Frames a c :=
  ⟨h2.connected.trans h1.connected, h2.producers.trans h1.producers, h2.lostPending.trans h1.lostPending,
   h2.lostMid.trans h1.lostMid, h2.recon.trans h1.recon, Nat.le_trans h2.consumers h1.consumers,
   h2.cfg.trans h1.cfg, h2.writer.trans h1.writer, h2.wopen.trans h1.wopen, h2.closing.trans h1.closing,
   h2.now.trans h1.now, h2.writeQ.trans h1.writeQ, h2.pphase.trans h1.pphase, h2.script.trans h1.script,
   h2.rcOn.trans h1.rcOn⟩

theorem Frames.same {s s' : St} (f : Frames s s') : SameCore s s' :=
  ⟨f.connected, f.producers, f.lostPending, f.lostMid, f.recon, f.consumers, f.cfg⟩

theorem frames_handle (s : St) (f : Feed) : Frames s (handle s f).1 := by
  cases f <;> exact ⟨rfl, rfl, rfl, rfl, rfl, Nat.le_refl _, rfl, rfl, rfl, rfl, rfl, rfl, rfl, rfl, rfl⟩

theorem frames_latchR (s : St) : Frames s (latchR s) := by
  unfold latchR; split <;> exact ⟨rfl, rfl, rfl, rfl, rfl, Nat.le_refl _, rfl, rfl, rfl, rfl, rfl, rfl, rfl, rfl, rfl⟩

theorem frames_finishFrame (s : St) (f : Feed) : Frames s (finishFrame s f).1 := by
  unfold finishFrame
  split
  · exact ⟨rfl, rfl, rfl, rfl, rfl, Nat.le_refl _, rfl, rfl, rfl, rfl, rfl, rfl, rfl, rfl, rfl⟩
  · rename_i ad k _
    have h1 : Frames s (publish s ad) := ⟨rfl, rfl, rfl, rfl, rfl, Nat.le_refl _, rfl, rfl, rfl, rfl, rfl, rfl, rfl, rfl, rfl⟩
    have h2 := frames_handle (publish s ad) f
    have h3 : Frames (handle (publish s ad) f).1 { (handle (publish s ad) f).1 with rUnf := (handle (publish s ad) f).1.rUnf - 1 } :=
      ⟨rfl, rfl, rfl, rfl, rfl, Nat.le_refl _, rfl, rfl, rfl, rfl, rfl, rfl, rfl, rfl, rfl⟩
    have h4 := frames_latchR { (handle (publish s ad) f).1 with rUnf := (handle (publish s ad) f).1.rUnf - 1 }
    have h := h1.trans (h2.trans (h3.trans h4))
    simp only []
    split
    · exact h
    · exact h.trans ⟨rfl, rfl, rfl, rfl, rfl, Nat.sub_le _ _, rfl, rfl, rfl, rfl, rfl, rfl, rfl, rfl, rfl⟩

theorem frames_enter (s : St) (ad : Nat) : Frames s (enter s ad).1 := by
  unfold enter; split <;> exact ⟨rfl, rfl, rfl, rfl, rfl, Nat.le_refl _, rfl, rfl, rfl, rfl, rfl, rfl, rfl, rfl, rfl⟩

theorem frames_process (s : St) (f : Feed) : Frames s (process s f).1 := by
  unfold process
  split
  · exact ⟨rfl, rfl, rfl, rfl, rfl, Nat.le_refl _, rfl, rfl, rfl, rfl, rfl, rfl, rfl, rfl, rfl⟩
  · rename_i ad k _
    simp only []
    split
    · exact frames_finishFrame s f
    · split
      · exact frames_enter s ad
      · exact (frames_enter s ad).trans (frames_finishFrame _ f)

theorem frames_take (s : St) : Frames s (take s).1 := by
  unfold take
  split
  · exact ⟨rfl, rfl, rfl, rfl, rfl, Nat.le_refl _, rfl, rfl, rfl, rfl, rfl, rfl, rfl, rfl, rfl⟩
  · rename_i f rest _
    split
    · exact ⟨rfl, rfl, rfl, rfl, rfl, Nat.le_refl _, rfl, rfl, rfl, rfl, rfl, rfl, rfl, rfl, rfl⟩
    · split
      · exact ⟨rfl, rfl, rfl, rfl, rfl, Nat.le_refl _, rfl, rfl, rfl, rfl, rfl, rfl, rfl, rfl, rfl⟩
      · have h0 : Frames s { s with readQ := rest } := ⟨rfl, rfl, rfl, rfl, rfl, Nat.le_refl _, rfl, rfl, rfl, rfl, rfl, rfl, rfl, rfl, rfl⟩
        have h1 := frames_process { s with readQ := rest } f
        simp only []
        split
        · exact (h0.trans h1).trans (⟨rfl, rfl, rfl, rfl, rfl, Nat.le_refl _, rfl, rfl, rfl, rfl, rfl, rfl, rfl, rfl, rfl⟩)
        · exact h0.trans h1

theorem frames_finishAll (l : List Feed) (s : St) : Frames s (finishAll l s).1 := by
  induction l generalizing s with
  | nil => exact ⟨rfl, rfl, rfl, rfl, rfl, Nat.le_refl _, rfl, rfl, rfl, rfl, rfl, rfl, rfl, rfl, rfl⟩
  | cons f fs ih => exact (frames_process s f).trans (ih _)

theorem frames_release (s : St) : Frames s (release s).1 := by
  unfold release
  exact Frames.trans (b := { s with gates := [], hand := [] }) (⟨rfl, rfl, rfl, rfl, rfl, Nat.le_refl _, rfl, rfl, rfl, rfl, rfl, rfl, rfl, rfl, rfl⟩) (frames_finishAll _ _)

theorem frames_gateEv (s : St) (a : Nat) : Frames s (gateEv s a) := by
  unfold gateEv; split <;> exact ⟨rfl, rfl, rfl, rfl, rfl, Nat.le_refl _, rfl, rfl, rfl, rfl, rfl, rfl, rfl, rfl, rfl⟩

/-! ### the producer -/

theorem inv_prodFault {s : St} (h : Inv s) (hp : s.producers > 0) : Inv (prodFault s).1 := by
  have hc : s.connected = true := by
    cases hc : s.connected
    · have := h.disc_prod hc; omega
    · rfl
  have h1 := h.conn_prod hc
  have hlp : s.lostPending = false := by
    cases hl : s.lostPending
    · rfl
    · simp [hl] at h1; omega
  have hpr : s.producers = 1 := by simp [hlp] at h1; exact h1
  constructor <;> simp [prodFault, hc, hpr, h.conn_recon hc, h.conn_mid hc, h.cons_le]

/-- the producer-visible part of `Inv` is kept by `prodIO'` when a producer exists -/
theorem inv_prodIO' {s : St} (h : Inv s) (hp : s.producers > 0) : Inv (prodIO' s).1 := by
  unfold prodIO'
  split
  · split
    · exact h.of_same ⟨rfl, rfl, rfl, rfl, rfl, Nat.le_refl _, rfl⟩
    · have h2 : Inv { s with writeQ := ‹List Nat› } := h.of_same ⟨rfl, rfl, rfl, rfl, rfl, Nat.le_refl _, rfl⟩
      exact inv_prodFault h2 hp
    · exact h.of_same ⟨rfl, rfl, rfl, rfl, rfl, Nat.le_refl _, rfl⟩
  · exact h.of_same ⟨rfl, rfl, rfl, rfl, rfl, Nat.le_refl _, rfl⟩

theorem inv_prodIO {s : St} (h : Inv s) (hp : s.producers > 0) : Inv (prodIO s).1 :=
  (inv_prodIO' h hp).of_same (same_latch _)

theorem inv_feed {s : St} (h : Inv s) (f : Feed) : Inv (feed s f).1 := by
  unfold feed
  split
  · exact h
  · rename_i hg
    have hp : s.producers > 0 := by
      simp only [not_or] at hg; omega
    have hi := inv_prodIO h hp
    split
    · exact hi.of_same ⟨rfl, rfl, rfl, rfl, rfl, Nat.le_refl _, rfl⟩
    · exact hi


/-! ### loss handling -/

theorem fresh_closeWriter {s : St} (h : Fresh s) : Fresh (closeWriter s).1 := by
  unfold closeWriter; split <;> exact ⟨h.disc, h.prod, h.lp, h.mid, h.cons_le⟩

theorem closeWriter_recon (s : St) : (closeWriter s).1.recon = s.recon := by
  unfold closeWriter; split <;> rfl

theorem inv_lostFinish {s : St} (h : Fresh s) (hr : s.recon = .idle) : Inv (lostFinish s).1 := by
  have hc := fresh_closeWriter h
  simp only [lostFinish]
  split
  · exact inv_of_fresh_recon hc _
  · apply inv_reconnectInvoke
    · exact ⟨hc.disc, hc.prod, hc.lp, hc.mid, hc.cons_le⟩
    · show (closeWriter s).1.recon = .idle
      rw [closeWriter_recon]; exact hr

theorem inv_lostRun {s : St} (h : Inv s) : Inv (lostRun s).1 := by
  simp only [lostRun]
  split
  · exact h
  · rename_i hlp
    simp only [Bool.not_eq_true, Bool.not_eq_false'] at hlp
    split
    · rename_i hc
      simp only [Bool.not_eq_true'] at hc
      have := h.disc_lp hc
      simp [this] at hlp
    · rename_i hc
      simp only [Bool.not_eq_true', Bool.not_eq_false] at hc
      have h1 := h.conn_prod hc
      have hp : s.producers = 0 := by simp [hlp] at h1; exact h1
      have hf : Fresh { s with lostPending := false, connected := false } :=
        ⟨rfl, hp, rfl, h.conn_mid hc, h.cons_le⟩
      split
      · exact inv_lostFinish hf (h.conn_recon hc)
      · have hr := h.conn_recon hc
        have := h.cons_le
        constructor <;> simp [hp, hr] <;> omega

theorem inv_lostRun2 {s : St} (h : Inv s) : Inv (lostRun2 s).1 := by
  simp only [lostRun2]
  split
  · exact h
  · rename_i hm
    simp only [Bool.not_eq_true', Bool.not_eq_false] at hm
    have hd : s.connected = false := by
      cases hc : s.connected
      · rfl
      · have := h.conn_mid hc; simp [this] at hm
    exact inv_lostFinish ⟨hd, h.disc_prod hd, h.disc_lp hd, rfl, h.cons_le⟩ (h.mid_recon hm)

/-! ### close() -/

theorem inv_cancelConn {s : St} (h : Inv s) : Inv (cancelConn s) := by
  unfold cancelConn
  split
  · rename_i hr
    have hd : s.connected = false := by
      cases hc : s.connected
      · rfl
      · have := h.conn_recon hc; simp [this, reconOwner] at hr
    have hm : s.lostMid = false := by
      cases hm : s.lostMid
      · rfl
      · have := h.mid_recon hm; simp [this, reconOwner] at hr
    exact inv_of_fresh_recon (fresh_of_inv_disc h hd hm) .idle
  · exact h

theorem same_beginJoin (s : St) : SameCore s (beginJoin s) :=
  SameCore.trans (b := { s with closing := .joining s.now, rj := s.rUnf == 0 }) ⟨rfl, rfl, rfl, rfl, rfl, Nat.le_refl _, rfl⟩ (same_latch _)

theorem inv_closeEv {s : St} (h : Inv s) : Inv (closeEv s).1 := by
  unfold closeEv
  split
  · exact h
  · exact (inv_cancelConn h).of_same (same_beginJoin _)

theorem inv_finishClose {s : St} (h : Inv s) (t0 : Nat) : Inv (finishClose s t0).1 :=
  (inv_cancelConn h).of_same ⟨rfl, rfl, rfl, rfl, rfl, Nat.le_refl _, rfl⟩

theorem same_versionsGo (s : St) : SameCore s (versionsGo s).1 := by
  unfold versionsGo; split
  · exact ⟨rfl, rfl, rfl, rfl, rfl, Nat.le_refl _, rfl⟩
  · exact SameCore.refl s


theorem inv_of_fresh {s : St} (h : Fresh s) : Inv s := by
  have := h.cons_le
  constructor <;> first | exact this | simp [h.disc, h.prod, h.lp, h.mid]

theorem inv_shutdownTail {s : St} (hp : s.producers = 0) (hl : s.lostPending = false)
    (hm : s.lostMid = false) (hc : s.consumers ≤ s.cfg) (t0 : Nat) : Inv (shutdownTail s t0).1 := by
  have hf : Fresh (closeWriter { s with connected := false }).1 := fresh_closeWriter ⟨rfl, hp, hl, hm, hc⟩
  simp only [shutdownTail]
  split
  · exact inv_of_fresh ⟨hf.disc, hf.prod, hf.lp, hf.mid, hf.cons_le⟩
  · exact inv_finishClose (s := { (closeWriter { s with connected := false }).1 with writer := none })
      (inv_of_fresh ⟨hf.disc, hf.prod, hf.lp, hf.mid, hf.cons_le⟩) t0

theorem inv_shutdownRun {s : St} (h : Inv s) : Inv (shutdownRun s).1 := by
  unfold shutdownRun
  split
  · split
    · apply inv_shutdownTail <;> first | rfl | exact Nat.zero_le _
    · exact h
  · exact h

/-! ### timers and the step function -/

theorem inv_fire {s : St} (h : Inv s) (k : Timer) : Inv (fire s k).1 := by
  unfold fire
  split
  · exact h
  · rename_i dl hdl
    split
    · exact h
    · cases k with
      | readTO =>
        simp only [deadline?] at hdl
        split at hdl
        · exact inv_prodFault h (by assumption)
        · simp at hdl
      | writeTO =>
        simp only [deadline?] at hdl
        split at hdl
        · exact (inv_prodFault h (by assumption)).of_same (same_latch _)
        · simp at hdl
      | wcloseTO =>
        simp only [deadline?] at hdl
        split at hdl
        · rename_i dl' hr
          have hd : s.connected = false := by
            cases hc : s.connected
            · rfl
            · have := h.conn_recon hc; simp [this] at hr
          have hm : s.lostMid = false := by
            cases hm : s.lostMid
            · rfl
            · have := h.mid_recon hm; simp [this] at hr
          exact inv_reconnectInvoke (s := { s with recon := .idle, writer := none }) ⟨hd, h.disc_prod hd, h.disc_lp hd, hm, h.cons_le⟩ rfl
        · simp at hdl
      | openTO =>
        simp only []
        split
        · rename_i dl' o hr
          have hd : s.connected = false := by
            cases hc : s.connected
            · rfl
            · have := h.conn_recon hc; simp [this] at hr
          have hm : s.lostMid = false := by
            cases hm : s.lostMid
            · rfl
            · have := h.mid_recon hm; simp [this] at hr
          exact inv_openFailed (s := { s with recon := .idle }) ⟨hd, h.disc_prod hd, h.disc_lp hd, hm, h.cons_le⟩ _
        · exact h
      | backoffEnd =>
        simp only [deadline?] at hdl
        split at hdl
        · rename_i dl' o hr
          have hd : s.connected = false := by
            cases hc : s.connected
            · rfl
            · have := h.conn_recon hc; simp [this] at hr
          have hm : s.lostMid = false := by
            cases hm : s.lostMid
            · rfl
            · have := h.mid_recon hm; simp [this] at hr
          exact inv_doOpen (s := { s with recon := .idle }) ⟨hd, h.disc_prod hd, h.disc_lp hd, hm, h.cons_le⟩ .conn
        · simp at hdl
      | setup a => exact h.of_same (same_fireSetup s a)
      | cwcloseTO =>
        simp only []
        split
        · exact inv_finishClose (s := { s with writer := none }) (h.of_same ⟨rfl, rfl, rfl, rfl, rfl, Nat.le_refl _, rfl⟩) _
        · exact h


theorem inv_step {s : St} (h : Inv s) (e : Ev) : Inv (step s e).1 := by
  unfold step stepDone stepLive
  split
  · split <;> first | exact h | exact h.of_same ⟨rfl, rfl, rfl, rfl, rfl, Nat.le_refl _, rfl⟩ |
      (unfold reopenEv; split <;> first | exact h | exact h.of_same ⟨rfl, rfl, rfl, rfl, rfl, Nat.le_refl _, rfl⟩)
  · cases e with
    | reopen => exact h
    | versionsGo => exact h.of_same (same_versionsGo s)
    | connect =>
      simp only []
      split
      · exact h
      · rename_i hg
        simp only [not_or, Decidable.not_not, Bool.not_eq_true] at hg
        obtain ⟨hc, _, hp, hl, hm, _⟩ := hg
        exact inv_doOpen ⟨hc, hp, hl, hm, h.cons_le⟩ _
    | feed f => exact inv_feed h f
    | readFault =>
      simp only []
      split
      · rename_i hg; exact inv_prodFault h hg.1
      · exact h
    | setDrain m => simp only []; split <;> first | exact h | exact h.of_same ⟨rfl, rfl, rfl, rfl, rfl, Nat.le_refl _, rfl⟩
    | setClose m => simp only []; split <;> first | exact h | exact h.of_same ⟨rfl, rfl, rfl, rfl, rfl, Nat.le_refl _, rfl⟩
    | enq n => exact h.of_same ⟨rfl, rfl, rfl, rfl, rfl, Nat.le_refl _, rfl⟩
    | park t => exact h.of_same (same_park s t)
    | close => exact inv_closeEv h
    | advance dt => simp only []; split <;> first | exact h | exact h.of_same ⟨rfl, rfl, rfl, rfl, rfl, Nat.le_refl _, rfl⟩
    | tick k => exact inv_fire h k
    | prodStart =>
      simp only []
      split
      · rename_i hg; exact inv_prodIO h hg.1
      · exact h
    | lostRun => exact inv_lostRun h
    | lostRun2 => exact inv_lostRun2 h
    | shutdownRun => exact inv_shutdownRun h
    | setupGo => exact h.of_same (same_setupGo s)
    | gate a => exact h.of_same (frames_gateEv s a).same
    | release => exact h.of_same (frames_release s).same
    | take => exact h.of_same (frames_take s).same

theorem inv_run {s : St} (h : Inv s) (es : List Ev) : Inv (run s es).1 := by
  induction es generalizing s with
  | nil => exact h
  | cons e es ih => exact ih (inv_step h e)

/-- states reachable from a fresh connection object by any list of micro events -/
def Reachable (s : St) : Prop := ∃ cfg rc sc es, s = (run (init cfg rc sc) es).1

theorem Reachable.inv {s : St} (h : Reachable s) : Inv s := by
  obtain ⟨cfg, rc, sc, es, rfl⟩ := h
  exact inv_run (inv_init cfg rc sc) es

theorem run_append (s : St) (a b : List Ev) :
    run s (a ++ b) = ((run (run s a).1 b).1, (run s a).2 ++ (run (run s a).1 b).2) := by
  induction a generalizing s with
  | nil => simp [run]
  | cons e es ih => simp [run, ih, List.append_assoc]

theorem Reachable.run {s : St} (h : Reachable s) (es : List Ev) : Reachable (run s es).1 := by
  obtain ⟨cfg, rc, sc, es0, rfl⟩ := h
  exact ⟨cfg, rc, sc, es0 ++ es, by rw [run_append]⟩

/-- protocol and connection tasks besides the consumers: the producer, or the loss handler (two
task objects while it runs the reconnect callback under `gather`), or a `_reconnect` task -/
theorem infra_le_two {s : St} (h : Inv s) : s.producers + lostTasks s + connTasks s ≤ 2 := by
  unfold lostTasks connTasks
  cases hc : s.connected
  · have hp := h.disc_prod hc
    have hl := h.disc_lp hc
    cases hm : s.lostMid
    · cases hr : s.recon with
      | idle => simp [hp, hl, reconOwner, reconProtoTasks]
      | wclosing d => simp [hp, hl, reconOwner, reconProtoTasks]
      | attempting d o => cases o <;> simp [hp, hl, reconOwner, reconProtoTasks]
      | backoff d o => cases o <;> simp [hp, hl, reconOwner, reconProtoTasks]
    · have := h.mid_recon hm
      simp [hp, hl, this, reconOwner, reconProtoTasks]
  · have h1 := h.conn_prod hc
    have hr := h.conn_recon hc
    have hm := h.conn_mid hc
    simp only [hr, hm, reconOwner, reconProtoTasks]
    cases hl : s.lostPending <;> simp [hl] at h1 ⊢ <;> omega

/-- while connected there is exactly one: the producer, or the loss handler about to run -/
theorem infra_connected {s : St} (h : Inv s) (hc : s.connected = true) :
    s.producers + lostTasks s + connTasks s = 1 := by
  unfold lostTasks connTasks
  have h1 := h.conn_prod hc
  have hr := h.conn_recon hc
  have hm := h.conn_mid hc
  simp only [hr, hm, reconOwner, reconProtoTasks]
  cases hl : s.lostPending <;> simp [hl] at h1 ⊢ <;> omega

/-! ### the transport invariant -/

/-- `close()` has not yet got past `Queues.join` -/
def early : CPhase → Bool
  | .no => true
  | .joining _ => true
  | .joined _ => true
  | _ => false

/-- while the protocol is connected (or the loss handler has not yet closed the writer) the
current transport exists and is open -/
def WInv (s : St) : Prop :=
  early s.closing = true → (s.connected = true ∨ s.lostMid = true) → s.writer.isSome = true ∧ s.wopen = true

structure SameW (s s' : St) : Prop where
  connected : s'.connected = s.connected
  lostMid : s'.lostMid = s.lostMid
  writer : s'.writer = s.writer
  wopen : s'.wopen = s.wopen
  closing : early s'.closing = true → early s.closing = true

theorem WInv.of_same {s s' : St} (h : WInv s) (c : SameW s s') : WInv s' := by
  intro he hc
  rw [c.connected, c.lostMid] at hc
  rw [c.writer, c.wopen]
  exact h (c.closing he) hc

theorem winv_of_down {s : St} (hc : s.connected = false) (hm : s.lostMid = false) : WInv s := by
  intro _ h; simp [hc, hm] at h

theorem winv_init (cfg : Nat) (rc : Bool) (sc : List OpenRes) : WInv (init cfg rc sc) :=
  winv_of_down rfl rfl

theorem samew_latch (s : St) : SameW s (latch s) := by
  unfold latch; split
  · rename_i t0 hcl
    split
    · exact ⟨rfl, rfl, rfl, rfl, fun _ => by simp [hcl, early]⟩
    · exact ⟨rfl, rfl, rfl, rfl, id⟩
  · exact ⟨rfl, rfl, rfl, rfl, id⟩

theorem winv_doOpen {s : St} (h : Fresh s) (o : Owner) : WInv (doOpen s o).1 := by
  have hp := fresh_popScript h
  simp only [doOpen]
  split
  · intro _ _; simp [establish]
  · apply winv_of_down
    · unfold openFailed; split <;> exact hp.disc
    · unfold openFailed; split <;> exact hp.mid
  · exact winv_of_down hp.disc hp.mid

theorem winv_reconnectInvoke {s : St} (h : Fresh s) : WInv (reconnectInvoke s).1 := by
  unfold reconnectInvoke; split
  · exact winv_doOpen h _
  · exact winv_of_down h.disc h.mid

theorem winv_lostFinish {s : St} (h : Fresh s) : WInv (lostFinish s).1 := by
  have hc := fresh_closeWriter h
  simp only [lostFinish]
  split
  · exact winv_of_down hc.disc hc.mid
  · exact winv_reconnectInvoke ⟨hc.disc, hc.prod, hc.lp, hc.mid, hc.cons_le⟩

theorem samew_prodFault (s : St) : SameW s (prodFault s).1 := ⟨rfl, rfl, rfl, rfl, id⟩

theorem samew_prodIO' (s : St) : SameW s (prodIO' s).1 := by
  unfold prodIO'
  split
  · split <;> exact ⟨rfl, rfl, rfl, rfl, id⟩
  · exact ⟨rfl, rfl, rfl, rfl, id⟩

theorem SameW.trans {a b c : St} (h1 : SameW a b) (h2 : SameW b c) : SameW a c :=
  ⟨h2.connected.trans h1.connected, h2.lostMid.trans h1.lostMid, h2.writer.trans h1.writer,
   h2.wopen.trans h1.wopen, fun h => h1.closing (h2.closing h)⟩

theorem samew_prodIO (s : St) : SameW s (prodIO s).1 := (samew_prodIO' s).trans (samew_latch _)

theorem samew_handle (s : St) (f : Feed) : SameW s (handle s f).1 := by
  cases f <;> exact ⟨rfl, rfl, rfl, rfl, id⟩

theorem Frames.samew {s s' : St} (f : Frames s s') : SameW s s' :=
  ⟨f.connected, f.lostMid, f.writer, f.wopen, fun h => by rw [f.closing] at h; exact h⟩

theorem samew_feed (s : St) (f : Feed) : SameW s (feed s f).1 := by
  unfold feed; split
  · exact ⟨rfl, rfl, rfl, rfl, id⟩
  · split
    · exact (samew_prodIO s).trans ⟨rfl, rfl, rfl, rfl, id⟩
    · exact samew_prodIO s

theorem samew_fireSetup (s : St) (a : Nat) : SameW s (fireSetup s a).1 := by
  unfold fireSetup
  split
  · exact ⟨rfl, rfl, rfl, rfl, id⟩
  · split
    · split <;> exact ⟨rfl, rfl, rfl, rfl, id⟩
    · exact ⟨rfl, rfl, rfl, rfl, id⟩

theorem samew_setupGo (s : St) : SameW s (setupGo s).1 := by
  unfold setupGo; split <;> exact ⟨rfl, rfl, rfl, rfl, id⟩

theorem samew_versionsGo (s : St) : SameW s (versionsGo s).1 := by
  unfold versionsGo; split <;> exact ⟨rfl, rfl, rfl, rfl, id⟩

theorem samew_park (s : St) (t : Target) : SameW s (park s t) := by
  cases t <;> exact ⟨rfl, rfl, rfl, rfl, id⟩

theorem samew_closeEv (s : St) : SameW s (closeEv s).1 := by
  unfold closeEv; split
  · exact ⟨rfl, rfl, rfl, rfl, id⟩
  · rename_i hg
    simp only [not_or, Decidable.not_not] at hg
    have h1 : SameW s (cancelConn s) := by unfold cancelConn; split <;> exact ⟨rfl, rfl, rfl, rfl, id⟩
    have h2 : SameW (cancelConn s) (beginJoin (cancelConn s)) :=
      SameW.trans (b := { cancelConn s with closing := .joining (cancelConn s).now, rj := (cancelConn s).rUnf == 0 })
        ⟨rfl, rfl, rfl, rfl, fun _ => by
          have : (cancelConn s).closing = s.closing := by unfold cancelConn; split <;> rfl
          rw [this, hg.1]; rfl⟩ (samew_latch _)
    exact h1.trans h2

theorem closeWriter_closing (s : St) : (closeWriter s).1.closing = s.closing := by
  unfold closeWriter; split <;> rfl

theorem winv_shutdownTail (s : St) (t0 : Nat) : WInv (shutdownTail s t0).1 := by
  simp only [shutdownTail]
  split
  · intro he; simp [early] at he
  · intro he; simp [finishClose, early] at he

theorem winv_step {s : St} (hi : Inv s) (h : WInv s) (e : Ev) : WInv (step s e).1 := by
  have down_of_recon : s.recon ≠ .idle → s.connected = false ∧ s.lostMid = false := by
    intro hr
    constructor
    · cases hc : s.connected
      · rfl
      · exact absurd (hi.conn_recon hc) hr
    · cases hm : s.lostMid
      · rfl
      · exact absurd (hi.mid_recon hm) hr
  unfold step stepDone stepLive
  split
  · split
    · exact h.of_same ⟨rfl, rfl, rfl, rfl, id⟩
    · unfold reopenEv; split
      · exact h
      · rename_i hg
        simp only [not_or, Decidable.not_not, Bool.not_eq_true] at hg
        exact winv_of_down hg.1 hg.2.1
    · exact h
  · cases e with
    | reopen => exact h
    | versionsGo => exact h.of_same (samew_versionsGo s)
    | connect =>
      simp only []
      split
      · exact h
      · rename_i hg
        simp only [not_or, Decidable.not_not, Bool.not_eq_true] at hg
        obtain ⟨hc, _, hp, hl, hm, _⟩ := hg
        exact winv_doOpen ⟨hc, hp, hl, hm, hi.cons_le⟩ _
    | feed f => exact h.of_same (samew_feed s f)
    | readFault => simp only []; split <;> first | exact h | exact h.of_same (samew_prodFault s)
    | setDrain m => simp only []; split <;> first | exact h | exact h.of_same ⟨rfl, rfl, rfl, rfl, id⟩
    | setClose m => simp only []; split <;> first | exact h | exact h.of_same ⟨rfl, rfl, rfl, rfl, id⟩
    | enq n => exact h.of_same ⟨rfl, rfl, rfl, rfl, id⟩
    | park t => exact h.of_same (samew_park s t)
    | close => exact h.of_same (samew_closeEv s)
    | advance dt => simp only []; split <;> first | exact h | exact h.of_same ⟨rfl, rfl, rfl, rfl, id⟩
    | tick k =>
      simp only []
      unfold fire
      split
      · exact h
      · rename_i dl hdl
        split
        · exact h
        · cases k with
          | readTO => exact h.of_same (samew_prodFault s)
          | writeTO => exact h.of_same ((samew_prodFault s).trans (samew_latch _))
          | wcloseTO =>
            simp only [deadline?] at hdl
            split at hdl
            · rename_i dl' hr
              have hd := down_of_recon (by rw [hr]; simp)
              exact winv_reconnectInvoke (s := { s with recon := .idle, writer := none })
                ⟨hd.1, hi.disc_prod hd.1, hi.disc_lp hd.1, hd.2, hi.cons_le⟩
            · simp at hdl
          | openTO =>
            simp only []
            split
            · rename_i dl' o hr
              have hd := down_of_recon (by rw [hr]; simp)
              apply winv_of_down
              · unfold openFailed; split <;> exact hd.1
              · unfold openFailed; split <;> exact hd.2
            · exact h
          | backoffEnd =>
            simp only [deadline?] at hdl
            split at hdl
            · rename_i dl' o hr
              have hd := down_of_recon (by rw [hr]; simp)
              exact winv_doOpen (s := { s with recon := .idle })
                ⟨hd.1, hi.disc_prod hd.1, hi.disc_lp hd.1, hd.2, hi.cons_le⟩ .conn
            · simp at hdl
          | setup a => exact h.of_same (samew_fireSetup s a)
          | cwcloseTO =>
            simp only []
            split
            · intro he; simp [finishClose, early] at he
            · exact h
    | prodStart => simp only []; split <;> first | exact h | exact h.of_same (samew_prodIO s)
    | lostRun =>
      simp only [lostRun]
      split
      · exact h
      · rename_i hlp
        simp only [Bool.not_eq_true, Bool.not_eq_false'] at hlp
        split
        · exact h.of_same ⟨rfl, rfl, rfl, rfl, id⟩
        · rename_i hc
          simp only [Bool.not_eq_true', Bool.not_eq_false] at hc
          have h1 := hi.conn_prod hc
          have hp : s.producers = 0 := by simp [hlp] at h1; exact h1
          split
          · exact winv_lostFinish (s := { s with lostPending := false, connected := false })
              ⟨rfl, hp, rfl, hi.conn_mid hc, hi.cons_le⟩
          · intro he _
            exact h he (Or.inl hc)
    | lostRun2 =>
      simp only [lostRun2]
      split
      · exact h
      · rename_i hm
        simp only [Bool.not_eq_true', Bool.not_eq_false] at hm
        have hd : s.connected = false := by
          cases hc : s.connected
          · rfl
          · have := hi.conn_mid hc; simp [this] at hm
        exact winv_lostFinish (s := { s with lostMid := false }) ⟨hd, hi.disc_prod hd, hi.disc_lp hd, rfl, hi.cons_le⟩
    | shutdownRun =>
      simp only [shutdownRun]
      split
      · split
        · exact winv_shutdownTail _ _
        · exact h
      · exact h
    | setupGo => exact h.of_same (samew_setupGo s)
    | gate a => exact h.of_same (frames_gateEv s a).samew
    | release => exact h.of_same (frames_release s).samew
    | take => exact h.of_same (frames_take s).samew

theorem winv_run {s : St} (hi : Inv s) (h : WInv s) (es : List Ev) : WInv (run s es).1 := by
  induction es generalizing s with
  | nil => exact h
  | cons e es ih => exact ih (inv_step hi e) (winv_step hi h e)

theorem Reachable.winv {s : St} (h : Reachable s) : WInv s := by
  obtain ⟨cfg, rc, sc, es, rfl⟩ := h
  exact winv_run (inv_init cfg rc sc) (winv_init cfg rc sc) es


/-! ### counting outputs -/

def isFault : Out → Bool | .fault => true | _ => false
def isWclose : Out → Bool | .wclose _ => true | _ => false
def isOpenCall : Out → Bool | .openCall _ => true | _ => false
def isAnnFalse : Out → Bool | .ann _ false _ => true | _ => false

def nFault (l : List Out) : Nat := l.countP isFault
def nWclose (l : List Out) : Nat := l.countP isWclose
def nOpen (l : List Out) : Nat := l.countP isOpenCall
def nAnnFalse (l : List Out) : Nat := l.countP isAnnFalse

theorem countP_annAll (s : St) (v f : Bool) (p : Out → Bool) (hp : ∀ a, p (.ann a v f) = false) :
    (annAll s v f).countP p = 0 := by
  unfold annAll
  induction published s with
  | nil => rfl
  | cons d ds ih => simp [List.countP_cons, hp, ih]

theorem annAll_false_count (s : St) : nAnnFalse (annAll s false false) = (published s).length := by
  unfold nAnnFalse annAll
  induction published s with
  | nil => rfl
  | cons d ds ih => simp [List.countP_cons, isAnnFalse, ih]

/-- outputs of `doOpen`: exactly one `_open_connection` call, no fault, no close, no connected=False -/
theorem doOpen_counts (s : St) (o : Owner) :
    nOpen (doOpen s o).2 = 1 ∧ nFault (doOpen s o).2 = 0 ∧ nWclose (doOpen s o).2 = 0 ∧
    nAnnFalse (doOpen s o).2 = 0 := by
  simp only [doOpen, nOpen, nFault, nWclose, nAnnFalse]
  split
  · have a1 := countP_annAll (popScript s).2 true true isOpenCall (fun _ => rfl)
    have a2 := countP_annAll (popScript s).2 true true isFault (fun _ => rfl)
    have a3 := countP_annAll (popScript s).2 true true isWclose (fun _ => rfl)
    have a4 := countP_annAll (popScript s).2 true true isAnnFalse (fun _ => rfl)
    simp only [establish, List.countP_cons, a1, a2, a3, a4, isOpenCall, isFault, isWclose, isAnnFalse]
    simp
  · unfold openFailed; split <;> simp [List.countP_cons, isOpenCall, isFault, isWclose, isAnnFalse]
  · simp [List.countP_cons, isOpenCall, isFault, isWclose, isAnnFalse]

theorem reconnectInvoke_counts (s : St) :
    nOpen (reconnectInvoke s).2 = (if s.rcOn then 1 else 0) ∧ nFault (reconnectInvoke s).2 = 0 ∧
    nWclose (reconnectInvoke s).2 = 0 ∧ nAnnFalse (reconnectInvoke s).2 = 0 := by
  unfold reconnectInvoke
  split
  · rename_i h; simp [h, doOpen_counts]
  · rename_i h; simp [h, nOpen, nFault, nWclose, nAnnFalse]

theorem nOpen_append (a b : List Out) : nOpen (a ++ b) = nOpen a + nOpen b := List.countP_append
theorem nFault_append (a b : List Out) : nFault (a ++ b) = nFault a + nFault b := List.countP_append
theorem nWclose_append (a b : List Out) : nWclose (a ++ b) = nWclose a + nWclose b := List.countP_append
theorem nAnnFalse_append (a b : List Out) : nAnnFalse (a ++ b) = nAnnFalse a + nAnnFalse b := List.countP_append

/-- second half of the loss handling with a writer present: the transport is closed exactly
once; the reconnect routine is invoked exactly once (at once, or after `wait_closed` timed out) -/
theorem lostFinish_counts (s : St) (tid : Nat) (hw : s.writer = some tid) :
    (lostFinish s).2.filter isWclose = [.wclose tid] ∧ nFault (lostFinish s).2 = 0 ∧
    nAnnFalse (lostFinish s).2 = 0 ∧
    nOpen (lostFinish s).2 = (if closeHangs s then 0 else if s.rcOn then 1 else 0) := by
  have hcw : closeWriter s = ({ s with wopen := false }, [.wclose tid]) := by simp [closeWriter, hw]
  simp only [lostFinish, hcw]
  split
  · rename_i hh
    simp [hh, isWclose, nFault, nAnnFalse, nOpen, List.countP_cons, isFault, isAnnFalse, isOpenCall]
  · rename_i hh
    have rc := reconnectInvoke_counts { s with wopen := false, writer := none }
    obtain ⟨r1, r2, r3, r4⟩ := rc
    refine ⟨?_, ?_, ?_, ?_⟩
    · simp only [List.cons_append, List.nil_append, List.filter_cons, isWclose]
      have : (reconnectInvoke { s with wopen := false, writer := none }).2.filter isWclose = [] := by
        rw [List.filter_eq_nil_iff]
        intro a ha
        have := r3
        unfold nWclose at this
        rw [List.countP_eq_zero] at this
        exact this a ha
      simp [this]
    · rw [nFault_append, r2]; simp [nFault, List.countP_cons, isFault]
    · rw [nAnnFalse_append, r4]; simp [nAnnFalse, List.countP_cons, isAnnFalse]
    · rw [nOpen_append, r1]; simp [hh, nOpen, List.countP_cons, isOpenCall]


/-- outputs that are neither a fault, a close, an open call nor a connected=False -/
def Quiet (l : List Out) : Prop := nFault l = 0 ∧ nWclose l = 0 ∧ nOpen l = 0 ∧ nAnnFalse l = 0

theorem quiet_nil : Quiet [] := ⟨rfl, rfl, rfl, rfl⟩

theorem Quiet.append {a b : List Out} (ha : Quiet a) (hb : Quiet b) : Quiet (a ++ b) := by
  obtain ⟨a1, a2, a3, a4⟩ := ha
  obtain ⟨b1, b2, b3, b4⟩ := hb
  exact ⟨by rw [nFault_append, a1, b1], by rw [nWclose_append, a2, b2], by rw [nOpen_append, a3, b3],
         by rw [nAnnFalse_append, a4, b4]⟩

theorem quiet_handle (s : St) (f : Feed) : Quiet (handle s f).2 := by
  cases f with
  | foreign => exact quiet_nil
  | bad => exact quiet_nil
  | orphan a => simp [handle, Quiet, nFault, nWclose, nOpen, nAnnFalse, List.countP_cons, isFault, isWclose, isOpenCall, isAnnFalse]
  | undec =>
    simp only [handle, ensureDev]
    split <;> simp [Quiet, nFault, nWclose, nOpen, nAnnFalse, List.countP_cons, isFault, isWclose, isOpenCall, isAnnFalse]
  | pw a =>
    simp only [handle, ensureDev]
    split <;> simp [Quiet, nFault, nWclose, nOpen, nAnnFalse, List.countP_cons, isFault, isWclose, isOpenCall, isAnnFalse]
  | sensors m t =>
    simp only [handle, ensureDev]
    split <;> simp [Quiet, nFault, nWclose, nOpen, nAnnFalse, List.countP_cons, isFault, isWclose, isOpenCall, isAnnFalse]
  | versions vs =>
    simp only [handle, ensureDev]
    split <;> simp [Quiet, nFault, nWclose, nOpen, nAnnFalse, List.countP_cons, isFault, isWclose, isOpenCall, isAnnFalse]

theorem quiet_put (a k : Nat) : Quiet [Out.put a k] := by
  simp [Quiet, nFault, nWclose, nOpen, nAnnFalse, List.countP_cons, isFault, isWclose, isOpenCall, isAnnFalse]

theorem quiet_finishFrame (s : St) (f : Feed) : Quiet (finishFrame s f).2 := by
  unfold finishFrame
  split
  · exact quiet_nil
  · exact quiet_handle _ f

theorem quiet_process (s : St) (f : Feed) : Quiet (process s f).2.1 := by
  have qe : ∀ ad, Quiet (enter s ad).2.1 := by
    intro ad
    unfold enter
    split
    · exact quiet_nil
    · simp [Quiet, nFault, nWclose, nOpen, nAnnFalse, List.countP_cons, isFault, isWclose, isOpenCall, isAnnFalse]
  unfold process
  split
  · exact quiet_nil
  · rename_i ad k _
    simp only []
    split
    · exact quiet_finishFrame s f
    · split
      · exact qe ad
      · exact (qe ad).append (quiet_finishFrame _ f)

theorem quiet_take (s : St) : Quiet (take s).2 := by
  unfold take
  split
  · exact quiet_nil
  · split
    · exact quiet_nil
    · split
      · exact quiet_nil
      · exact quiet_process _ _

theorem quiet_finishAll (l : List Feed) (s : St) : Quiet (finishAll l s).2 := by
  induction l generalizing s with
  | nil => exact quiet_nil
  | cons f fs ih => exact (quiet_process s f).append (ih _)

theorem quiet_release (s : St) : Quiet (release s).2 := quiet_finishAll _ _

/-- loss handlings that are scheduled or half done -/
def pend (s : St) : Nat := (if s.lostPending then 1 else 0) + (if s.lostMid then 1 else 0)

/-- `s'` has the same pending loss handlings and the same close() phase as `s` -/
structure SameP (s s' : St) : Prop where
  lostPending : s'.lostPending = s.lostPending
  lostMid : s'.lostMid = s.lostMid
  closing : s'.closing = s.closing

theorem SameP.pend {s s' : St} (c : SameP s s') : pend s' = pend s := by
  unfold Conn.pend; rw [c.lostPending, c.lostMid]

theorem SameP.trans {a b c : St} (h1 : SameP a b) (h2 : SameP b c) : SameP a c :=
  ⟨h2.lostPending.trans h1.lostPending, h2.lostMid.trans h1.lostMid, h2.closing.trans h1.closing⟩

theorem Frames.samep {s s' : St} (f : Frames s s') : SameP s s' := ⟨f.lostPending, f.lostMid, f.closing⟩

theorem samep_latch_no {s : St} (h : s.closing = .no) : latch s = s := by
  unfold latch; rw [h]

theorem samep_doOpen (s : St) (o : Owner) : SameP s (doOpen s o).1 := by
  have hp : SameP s (popScript s).2 := by unfold popScript; split <;> exact ⟨rfl, rfl, rfl⟩
  simp only [doOpen]
  split
  · exact hp.trans ⟨rfl, rfl, rfl⟩
  · refine hp.trans ?_
    unfold openFailed; split <;> exact ⟨rfl, rfl, rfl⟩
  · exact hp.trans ⟨rfl, rfl, rfl⟩

theorem samep_reconnectInvoke (s : St) : SameP s (reconnectInvoke s).1 := by
  unfold reconnectInvoke; split
  · exact samep_doOpen s _
  · exact ⟨rfl, rfl, rfl⟩

theorem samep_handle (s : St) (f : Feed) : SameP s (handle s f).1 := by
  cases f <;> exact ⟨rfl, rfl, rfl⟩

theorem samep_fireSetup (s : St) (a : Nat) : SameP s (fireSetup s a).1 := by
  unfold fireSetup
  split
  · exact ⟨rfl, rfl, rfl⟩
  · split
    · split <;> exact ⟨rfl, rfl, rfl⟩
    · exact ⟨rfl, rfl, rfl⟩

theorem samep_setupGo (s : St) : SameP s (setupGo s).1 := by
  unfold setupGo; split <;> exact ⟨rfl, rfl, rfl⟩

theorem samep_versionsGo (s : St) : SameP s (versionsGo s).1 := by
  unfold versionsGo; split <;> exact ⟨rfl, rfl, rfl⟩

theorem samep_park (s : St) (t : Target) : SameP s (park s t) := by
  cases t <;> exact ⟨rfl, rfl, rfl⟩

/-- balance of one function application: faults raised + loss handlings pending before =
transports closed + loss handlings pending after; no other output of interest -/
structure Bal (s : St) (r : St × List Out) : Prop where
  bal : nFault r.2 + pend s = nWclose r.2 + pend r.1
  closing : r.1.closing = s.closing

theorem bal_of_samep {s : St} {r : St × List Out} (c : SameP s r.1) (q : Quiet r.2) : Bal s r :=
  ⟨by rw [q.1, q.2.1, c.pend], c.closing⟩

theorem bal_prodFault {s : St} (hl : s.lostPending = false) : Bal s (prodFault s) := by
  constructor
  · cases hm : s.lostMid <;> simp [prodFault, pend, hl, hm, nFault, nWclose, List.countP_cons, isFault, isWclose]
  · rfl

theorem bal_prodIO' {s : St} (hl : s.lostPending = false) : Bal s (prodIO' s) := by
  unfold prodIO'
  split
  · split
    · exact bal_of_samep ⟨rfl, rfl, rfl⟩ (by simp [Quiet, nFault, nWclose, nOpen, nAnnFalse, List.countP_cons, isFault, isWclose, isOpenCall, isAnnFalse])
    · constructor
      · cases hm : s.lostMid <;> simp [prodFault, pend, hl, hm, nFault, nWclose, List.countP_cons, isFault, isWclose]
      · rfl
    · exact bal_of_samep ⟨rfl, rfl, rfl⟩ (by simp [Quiet, nFault, nWclose, nOpen, nAnnFalse, List.countP_cons, isFault, isWclose, isOpenCall, isAnnFalse])
  · exact bal_of_samep ⟨rfl, rfl, rfl⟩ quiet_nil


theorem quiet_fireSetup (s : St) (a : Nat) : Quiet (fireSetup s a).2 := by
  unfold fireSetup
  split
  · exact quiet_nil
  · split
    · split <;> exact quiet_nil
    · exact quiet_nil

theorem quiet_setupGo (s : St) : Quiet (setupGo s).2 := by
  unfold setupGo; split <;> exact quiet_nil

theorem quiet_versionsGo (s : St) : Quiet (versionsGo s).2 := by
  unfold versionsGo; split <;> exact quiet_nil

theorem quiet_doOpen_fw (s : St) (o : Owner) : nFault (doOpen s o).2 = 0 ∧ nWclose (doOpen s o).2 = 0 :=
  ⟨(doOpen_counts s o).2.1, (doOpen_counts s o).2.2.1⟩

theorem bal_doOpen (s : St) (o : Owner) : Bal s (doOpen s o) :=
  ⟨by rw [(quiet_doOpen_fw s o).1, (quiet_doOpen_fw s o).2, (samep_doOpen s o).pend], (samep_doOpen s o).closing⟩

theorem bal_reconnectInvoke (s : St) : Bal s (reconnectInvoke s) := by
  obtain ⟨_, r2, r3, _⟩ := reconnectInvoke_counts s
  exact ⟨by rw [r2, r3, (samep_reconnectInvoke s).pend], (samep_reconnectInvoke s).closing⟩

theorem samep_lostFinish (s : St) : SameP s (lostFinish s).1 := by
  have hc : SameP s (closeWriter s).1 := by unfold closeWriter; split <;> exact ⟨rfl, rfl, rfl⟩
  simp only [lostFinish]
  split
  · exact hc.trans ⟨rfl, rfl, rfl⟩
  · exact (hc.trans (b := (closeWriter s).1) (c := { (closeWriter s).1 with writer := none }) ⟨rfl, rfl, rfl⟩).trans
      (samep_reconnectInvoke _)

theorem bal_refl (s : St) : Bal s (s, []) := ⟨rfl, rfl⟩

/-- second half of the loss handling, from a state where it is the only thing pending:
closes the writer (one `wclose`), pending count unchanged by what follows -/
theorem bal_lostFinish {s : St} (tid : Nat) (hw : s.writer = some tid) :
    nFault (lostFinish s).2 = 0 ∧ nWclose (lostFinish s).2 = 1 ∧ pend (lostFinish s).1 = pend s ∧
    (lostFinish s).1.closing = s.closing := by
  obtain ⟨c1, c2, _, _⟩ := lostFinish_counts s tid hw
  refine ⟨c2, ?_, ?_, ?_⟩
  · unfold nWclose; rw [List.countP_eq_length_filter, c1]; rfl
  · have hcw : closeWriter s = ({ s with wopen := false }, [.wclose tid]) := by simp [closeWriter, hw]
    simp only [lostFinish, hcw]
    split
    · rfl
    · exact (samep_reconnectInvoke _).pend
  · have hcw : closeWriter s = ({ s with wopen := false }, [.wclose tid]) := by simp [closeWriter, hw]
    simp only [lostFinish, hcw]
    split
    · rfl
    · exact (samep_reconnectInvoke _).closing

/-- **one close per loss, step by step**: as long as close() has not been called, every micro
event keeps  faults raised + loss handlings pending  =  transports closed + loss handlings pending -/
theorem step_balance {s : St} (hi : Inv s) (hw : WInv s) (hcl : s.closing = .no) (e : Ev) (hne : e ≠ .close) :
    Bal s (step s e) := by
  have lp_of_prod : s.producers > 0 → s.lostPending = false := by
    intro hp
    have hc : s.connected = true := by
      cases hc : s.connected
      · have := hi.disc_prod hc; omega
      · rfl
    have h1 := hi.conn_prod hc
    cases hl : s.lostPending
    · rfl
    · simp [hl] at h1; omega
  have hnd : isDone s.closing = false := by rw [hcl]; rfl
  unfold step stepDone stepLive
  rw [hnd]
  simp only [Bool.false_eq_true, ↓reduceIte]
  cases e with
  | connect => simp only []; split <;> first | exact bal_refl s | exact bal_doOpen s _
  | feed f =>
    simp only [feed]
    split
    · exact bal_refl s
    · rename_i hg
      simp only [not_or] at hg
      have hp : s.producers > 0 := by omega
      have b1 := bal_prodIO' (lp_of_prod hp)
      have hcl1 : (prodIO' s).1.closing = .no := by rw [b1.closing, hcl]
      have e1 : prodIO s = prodIO' s := by
        simp only [prodIO, samep_latch_no hcl1]
      rw [e1]
      split
      · rename_i ad k _
        constructor
        · show nFault ((prodIO' s).2 ++ [Out.put ad k]) + pend s = nWclose ((prodIO' s).2 ++ [Out.put ad k]) + pend (prodIO' s).1
          rw [nFault_append, nWclose_append, (quiet_put ad k).1, (quiet_put ad k).2.1]
          have := b1.bal; omega
        · exact b1.closing
      · exact b1
  | readFault =>
    simp only []
    split
    · rename_i hg; exact bal_prodFault (lp_of_prod hg.1)
    · exact bal_refl s
  | setDrain m => simp only []; split <;> first | exact bal_refl s | exact bal_of_samep ⟨rfl, rfl, rfl⟩ quiet_nil
  | setClose m => simp only []; split <;> first | exact bal_refl s | exact bal_of_samep ⟨rfl, rfl, rfl⟩ quiet_nil
  | enq n => exact bal_of_samep ⟨rfl, rfl, rfl⟩ quiet_nil
  | park t => exact bal_of_samep (samep_park s t) quiet_nil
  | close => exact absurd rfl hne
  | advance dt => simp only []; split <;> first | exact bal_refl s | exact bal_of_samep ⟨rfl, rfl, rfl⟩ quiet_nil
  | tick k =>
    simp only []
    unfold fire
    split
    · exact bal_refl s
    · rename_i dl hdl
      split
      · exact bal_refl s
      · cases k with
        | readTO =>
          simp only [deadline?] at hdl
          split at hdl
          · exact bal_prodFault (lp_of_prod (by assumption))
          · simp at hdl
        | writeTO =>
          simp only [deadline?] at hdl
          split at hdl
          · have b := bal_prodFault (lp_of_prod (by assumption))
            have : latch (prodFault s).1 = (prodFault s).1 := samep_latch_no (by rw [b.closing, hcl])
            simp only []
            rw [this]; exact b
          · simp at hdl
        | wcloseTO =>
          have b := bal_reconnectInvoke { s with recon := .idle, writer := none }
          exact ⟨b.bal, b.closing⟩
        | openTO =>
          simp only []
          split
          · refine bal_of_samep ?_ ?_
            · unfold openFailed; split <;> exact ⟨rfl, rfl, rfl⟩
            · unfold openFailed
              split <;> simp [Quiet, nFault, nWclose, nOpen, nAnnFalse, List.countP_cons, isFault, isWclose, isOpenCall, isAnnFalse]
          · exact bal_refl s
        | backoffEnd =>
          have b := bal_doOpen { s with recon := .idle } .conn
          exact ⟨b.bal, b.closing⟩
        | setup a => exact bal_of_samep (samep_fireSetup s a) (quiet_fireSetup s a)
        | cwcloseTO =>
          simp only [deadline?, hcl] at hdl
          simp at hdl
  | prodStart =>
    simp only []
    split
    · rename_i hg
      have b1 := bal_prodIO' (lp_of_prod hg.1)
      have hcl1 : (prodIO' s).1.closing = .no := by rw [b1.closing, hcl]
      have e1 : prodIO s = prodIO' s := by simp only [prodIO, samep_latch_no hcl1]
      rw [e1]; exact b1
    · exact bal_refl s
  | lostRun =>
    simp only [lostRun]
    split
    · exact bal_refl s
    · rename_i hlp
      simp only [Bool.not_eq_true, Bool.not_eq_false'] at hlp
      split
      · rename_i hc
        simp only [Bool.not_eq_true'] at hc
        have := hi.disc_lp hc
        simp [this] at hlp
      · rename_i hc
        simp only [Bool.not_eq_true', Bool.not_eq_false] at hc
        have hm := hi.conn_mid hc
        obtain ⟨hws, _⟩ := hw (by rw [hcl]; rfl) (Or.inl hc)
        obtain ⟨tid, htid⟩ := Option.isSome_iff_exists.mp hws
        have a2 := countP_annAll { s with lostPending := false, connected := false } false false isFault (fun _ => rfl)
        have a3 := countP_annAll { s with lostPending := false, connected := false } false false isWclose (fun _ => rfl)
        split
        · obtain ⟨f1, f2, f3, f4⟩ := bal_lostFinish (s := { s with lostPending := false, connected := false }) tid htid
          constructor
          · show nFault (_ ++ _) + pend s = nWclose (_ ++ _) + pend _
            rw [nFault_append, nWclose_append, f1, f2, f3]
            unfold nFault nWclose; rw [a2, a3]
            simp [pend, hlp, hm]
          · exact f4
        · constructor
          · show nFault _ + pend s = nWclose _ + pend _
            unfold nFault nWclose; rw [a2, a3]
            simp [pend, hlp, hm]
          · rfl
  | lostRun2 =>
    simp only [lostRun2]
    split
    · exact bal_refl s
    · rename_i hm
      simp only [Bool.not_eq_true', Bool.not_eq_false] at hm
      obtain ⟨hws, _⟩ := hw (by rw [hcl]; rfl) (Or.inr hm)
      obtain ⟨tid, htid⟩ := Option.isSome_iff_exists.mp hws
      have hd : s.connected = false := by
        cases hc : s.connected
        · rfl
        · have := hi.conn_mid hc; simp [this] at hm
      have hlp := hi.disc_lp hd
      obtain ⟨f1, f2, f3, f4⟩ := bal_lostFinish (s := { s with lostMid := false }) tid htid
      constructor
      · rw [f1, f2, f3]; simp [pend, hlp, hm]
      · exact f4
  | shutdownRun => simp only [shutdownRun, hcl]; exact bal_refl s
  | setupGo => exact bal_of_samep (samep_setupGo s) (quiet_setupGo s)
  | versionsGo => exact bal_of_samep (samep_versionsGo s) (quiet_versionsGo s)
  | reopen => exact bal_refl s
  | gate a => exact bal_of_samep (frames_gateEv s a).samep quiet_nil
  | release => exact bal_of_samep (frames_release s).samep (quiet_release s)
  | take => exact bal_of_samep (frames_take s).samep (quiet_take s)


/-! ### the device map only grows -/

def addrs (s : St) : List Nat := s.devices.map Dev.addr

theorem map_addr_updDev (ds : List Dev) (a : Nat) (f : Dev → Dev) (hf : ∀ d, (f d).addr = d.addr) :
    (updDev ds a f).map Dev.addr = ds.map Dev.addr := by
  unfold updDev
  induction ds with
  | nil => rfl
  | cons d ds ih =>
    simp only [List.map_cons, List.map_map] at ih ⊢
    rw [ih]
    by_cases h : d.addr = a <;> simp [h, hf]

theorem map_addr_map (ds : List Dev) (f : Dev → Dev) (hf : ∀ d, (f d).addr = d.addr) :
    (ds.map f).map Dev.addr = ds.map Dev.addr := by
  rw [List.map_map]; apply List.map_congr_left; intro d _; exact hf d

theorem ensureDev_prefix (ds : List Dev) (a : Nat) :
    ds.map Dev.addr <+: (ensureDev ds a).1.map Dev.addr := by
  unfold ensureDev
  split
  · exact List.prefix_refl _
  · simp only [List.map_append]; exact List.prefix_append _ _

theorem addrs_handle (s : St) (f : Feed) : addrs s <+: addrs (handle s f).1 := by
  cases f with
  | foreign => exact List.prefix_refl _
  | bad => exact List.prefix_refl _
  | orphan a => exact List.prefix_refl _
  | undec => exact ensureDev_prefix _ _
  | pw a =>
    show s.devices.map Dev.addr <+: (updDev (ensureDev s.devices a).1 a _).map Dev.addr
    rw [map_addr_updDev]
    · exact ensureDev_prefix _ _
    · intro d; rfl
  | sensors m t =>
    show s.devices.map Dev.addr <+: (updDev (ensureDev s.devices ecomaxAddr).1 ecomaxAddr _).map Dev.addr
    rw [map_addr_updDev]
    · exact ensureDev_prefix _ _
    · intro d; rfl
  | versions vs =>
    show s.devices.map Dev.addr <+: (updDev (ensureDev s.devices ecomaxAddr).1 ecomaxAddr _).map Dev.addr
    rw [map_addr_updDev]
    · exact ensureDev_prefix _ _
    · intro d; rfl

/-- functions that leave the address list alone -/
def SameAddrs (s s' : St) : Prop := addrs s' = addrs s

theorem SameAddrs.prefix {s s' : St} (h : SameAddrs s s') : addrs s <+: addrs s' := by
  unfold SameAddrs at h; rw [h]; exact List.prefix_refl _

theorem SameAddrs.trans' {a b c : St} (h1 : SameAddrs a b) (h2 : SameAddrs b c) : SameAddrs a c := by
  unfold SameAddrs at *; rw [h2, h1]

theorem sa_latch (s : St) : SameAddrs s (latch s) := by
  unfold latch; split
  · split <;> rfl
  · rfl

theorem sa_prodIO' (s : St) : SameAddrs s (prodIO' s).1 := by
  unfold prodIO'; split
  · split <;> rfl
  · rfl

theorem sa_prodIO (s : St) : SameAddrs s (prodIO s).1 := (sa_prodIO' s).trans' (sa_latch _)

theorem sa_doOpen (s : St) (o : Owner) : SameAddrs s (doOpen s o).1 := by
  have hp : SameAddrs s (popScript s).2 := by unfold popScript; split <;> rfl
  simp only [doOpen]
  split
  · exact hp
  · unfold openFailed; split <;> exact hp
  · exact hp

theorem sa_reconnectInvoke (s : St) : SameAddrs s (reconnectInvoke s).1 := by
  unfold reconnectInvoke; split
  · exact sa_doOpen s _
  · rfl

theorem sa_closeWriter (s : St) : SameAddrs s (closeWriter s).1 := by unfold closeWriter; split <;> rfl

theorem sa_lostFinish (s : St) : SameAddrs s (lostFinish s).1 := by
  simp only [lostFinish]
  split
  · exact sa_closeWriter s
  · exact (sa_closeWriter s).trans' (sa_reconnectInvoke { (closeWriter s).1 with writer := none })

theorem sa_fireSetup (s : St) (a : Nat) : SameAddrs s (fireSetup s a).1 := by
  unfold fireSetup
  split
  · rfl
  · split
    · split
      · exact map_addr_updDev _ _ _ (fun _ => rfl)
      · exact map_addr_updDev _ _ _ (fun _ => rfl)
    · rfl

theorem sa_setupGo (s : St) : SameAddrs s (setupGo s).1 := by
  unfold setupGo; split
  · exact map_addr_map _ _ (fun d => by split <;> rfl)
  · rfl

theorem sa_versionsGo (s : St) : SameAddrs s (versionsGo s).1 := by
  unfold versionsGo; split
  · exact map_addr_map _ _ (fun d => rfl)
  · rfl

theorem sa_park (s : St) (t : Target) : SameAddrs s (park s t) := by
  cases t with
  | dev a => exact map_addr_updDev _ _ _ (fun d => by split <;> rfl)
  | mixer i => exact map_addr_updDev _ _ _ (fun _ => rfl)
  | thermo i => exact map_addr_updDev _ _ _ (fun _ => rfl)

theorem addrs_publish (s : St) (ad : Nat) : addrs (publish s ad) = addrs s :=
  map_addr_updDev _ _ _ (fun _ => rfl)

theorem addrs_latchR (s : St) : addrs (latchR s) = addrs s := by unfold latchR; split <;> rfl

theorem addrs_finishFrame (s : St) (f : Feed) : addrs s <+: addrs (finishFrame s f).1 := by
  unfold finishFrame
  split
  · exact List.prefix_refl _
  · rename_i ad k _
    have h1 : addrs s <+: addrs (handle (publish s ad) f).1 := by
      have := addrs_handle (publish s ad) f
      rw [addrs_publish] at this; exact this
    have h2 : addrs (latchR { (handle (publish s ad) f).1 with rUnf := (handle (publish s ad) f).1.rUnf - 1 })
        = addrs (handle (publish s ad) f).1 := addrs_latchR _
    simp only []
    split
    · rw [h2]; exact h1
    · show addrs s <+: addrs (latchR { (handle (publish s ad) f).1 with rUnf := (handle (publish s ad) f).1.rUnf - 1 })
      rw [h2]; exact h1

theorem addrs_enter (s : St) (ad : Nat) : addrs s <+: addrs (enter s ad).1 := by
  unfold enter
  split
  · exact List.prefix_refl _
  · show s.devices.map Dev.addr <+: (s.devices ++ [newDev ad]).map Dev.addr
    rw [List.map_append]; exact List.prefix_append _ _

theorem addrs_process (s : St) (f : Feed) : addrs s <+: addrs (process s f).1 := by
  unfold process
  split
  · exact List.prefix_refl _
  · rename_i ad k _
    simp only []
    split
    · exact addrs_finishFrame s f
    · split
      · exact addrs_enter s ad
      · exact List.IsPrefix.trans (addrs_enter s ad) (addrs_finishFrame _ f)

theorem addrs_take (s : St) : addrs s <+: addrs (take s).1 := by
  unfold take
  split
  · exact List.prefix_refl _
  · rename_i f rest _
    split
    · exact List.prefix_refl _
    · split
      · exact List.prefix_refl _
      · have h := addrs_process { s with readQ := rest } f
        simp only []
        split
        · exact h
        · exact h

theorem addrs_finishAll (l : List Feed) (s : St) : addrs s <+: addrs (finishAll l s).1 := by
  induction l generalizing s with
  | nil => exact List.prefix_refl _
  | cons f fs ih => exact List.IsPrefix.trans (addrs_process s f) (ih _)

theorem addrs_release (s : St) : addrs s <+: addrs (release s).1 :=
  addrs_finishAll s.hand { s with gates := [], hand := [] }

theorem sa_cancelProto (s : St) : SameAddrs s (cancelProto s) := map_addr_map _ _ (fun _ => rfl)

theorem sa_finishClose (s : St) (t0 : Nat) : SameAddrs s (finishClose s t0).1 := map_addr_map _ _ (fun _ => rfl)

theorem sa_shutdownTail (s : St) (t0 : Nat) : SameAddrs s (shutdownTail s t0).1 := by
  have hc : SameAddrs s (closeWriter { s with connected := false }).1 := sa_closeWriter { s with connected := false }
  simp only [shutdownTail]
  split
  · exact hc
  · exact hc.trans' (sa_finishClose { (closeWriter { s with connected := false }).1 with writer := none } t0)

theorem sa_closeEv (s : St) : SameAddrs s (closeEv s).1 := by
  unfold closeEv
  split
  · rfl
  · have h1 : SameAddrs s (cancelConn s) := by unfold cancelConn; split <;> rfl
    exact h1.trans' (sa_latch _)

theorem sa_prodFault (s : St) : SameAddrs s (prodFault s).1 := rfl

theorem addrs_fire (s : St) (k : Timer) : addrs s <+: addrs (fire s k).1 := by
  unfold fire
  split
  · exact List.prefix_refl _
  · split
    · exact List.prefix_refl _
    · cases k with
      | readTO => exact List.prefix_refl _
      | writeTO => exact (sa_latch (prodFault s).1).prefix
      | wcloseTO => exact (sa_reconnectInvoke { s with recon := .idle, writer := none }).prefix
      | openTO =>
        simp only []
        split
        · unfold openFailed; split <;> exact List.prefix_refl _
        · exact List.prefix_refl _
      | backoffEnd => exact (sa_doOpen { s with recon := .idle } .conn).prefix
      | setup a => exact (sa_fireSetup s a).prefix
      | cwcloseTO =>
        simp only []
        split
        · exact (sa_finishClose { s with writer := none } _).prefix
        · exact List.prefix_refl _

/-- **the device map is never rebuilt**: every micro event keeps the known devices, in order;
new ones are only appended -/
theorem addrs_step (s : St) (e : Ev) : addrs s <+: addrs (step s e).1 := by
  unfold step stepDone stepLive
  split
  · split <;> first | exact List.prefix_refl _ | (unfold reopenEv; split <;> exact List.prefix_refl _)
  · cases e with
    | reopen => exact List.prefix_refl _
    | versionsGo => exact (sa_versionsGo s).prefix
    | connect => simp only []; split <;> first | exact List.prefix_refl _ | exact (sa_doOpen s _).prefix
    | feed f =>
      simp only [feed]
      split
      · exact List.prefix_refl _
      · split
        · exact (sa_prodIO s).prefix
        · exact (sa_prodIO s).prefix
    | readFault => simp only []; split <;> exact List.prefix_refl _
    | setDrain m => simp only []; split <;> exact List.prefix_refl _
    | setClose m => simp only []; split <;> exact List.prefix_refl _
    | enq n => exact List.prefix_refl _
    | park t => exact (sa_park s t).prefix
    | close => exact (sa_closeEv s).prefix
    | advance dt => simp only []; split <;> exact List.prefix_refl _
    | tick k => exact addrs_fire s k
    | prodStart => simp only []; split <;> first | exact List.prefix_refl _ | exact (sa_prodIO s).prefix
    | lostRun =>
      simp only [lostRun]
      split
      · exact List.prefix_refl _
      · split
        · exact List.prefix_refl _
        · split
          · exact (sa_lostFinish { s with lostPending := false, connected := false }).prefix
          · exact List.prefix_refl _
    | lostRun2 =>
      simp only [lostRun2]
      split
      · exact List.prefix_refl _
      · exact (sa_lostFinish { s with lostMid := false }).prefix
    | shutdownRun =>
      simp only [shutdownRun]
      split
      · split
        · exact ((sa_cancelProto s).trans' (sa_shutdownTail _ _)).prefix
        · exact List.prefix_refl _
      · exact List.prefix_refl _
    | setupGo => exact (sa_setupGo s).prefix
    | gate a => simp only [gateEv]; split <;> exact List.prefix_refl _
    | release => exact addrs_release s
    | take => exact addrs_take s

theorem addrs_run (s : St) (es : List Ev) : addrs s <+: addrs (run s es).1 := by
  induction es generalizing s with
  | nil => exact List.prefix_refl _
  | cons e es ih => exact List.IsPrefix.trans (addrs_step s e) (ih _)


/-! ### who may close, reconnect, announce connected=False -/

/-- no transport close, no open call, no connected=False among the outputs -/
def Calm (l : List Out) : Prop := nWclose l = 0 ∧ nOpen l = 0 ∧ nAnnFalse l = 0

theorem calm_nil : Calm [] := ⟨rfl, rfl, rfl⟩
theorem Quiet.calm {l : List Out} (q : Quiet l) : Calm l := ⟨q.2.1, q.2.2.1, q.2.2.2⟩

theorem Calm.append {a b : List Out} (ha : Calm a) (hb : Calm b) : Calm (a ++ b) := by
  obtain ⟨a2, a3, a4⟩ := ha
  obtain ⟨b2, b3, b4⟩ := hb
  exact ⟨by rw [nWclose_append, a2, b2], by rw [nOpen_append, a3, b3], by rw [nAnnFalse_append, a4, b4]⟩

theorem calm_prodFault (s : St) : Calm (prodFault s).2 := by
  simp [Calm, prodFault, nWclose, nOpen, nAnnFalse, List.countP_cons, isWclose, isOpenCall, isAnnFalse]

theorem calm_prodIO' (s : St) : Calm (prodIO' s).2 := by
  unfold prodIO'
  split
  · split <;> simp [Calm, prodFault, nWclose, nOpen, nAnnFalse, List.countP_cons, isWclose, isOpenCall, isAnnFalse]
  · exact calm_nil

theorem calm_feed (s : St) (f : Feed) : Calm (feed s f).2 := by
  simp only [feed]
  split
  · exact calm_nil
  · split
    · exact (calm_prodIO' s).append (quiet_put _ _).calm
    · exact calm_prodIO' s

/-- only `connect()`, the loss handler (both halves, and its continuation after a hung
`wait_closed`), the back-off timer and `shutdown()` close transports, call `_open_connection`
or tell devices connected=False; no other event does -/
theorem calm_step (s : St) (e : Ev)
    (h : e ≠ .connect ∧ e ≠ .lostRun ∧ e ≠ .lostRun2 ∧ e ≠ .shutdownRun ∧ e ≠ .tick .wcloseTO ∧ e ≠ .tick .backoffEnd) :
    Calm (step s e).2 := by
  obtain ⟨h1, h2, h3, h4, h5, h6⟩ := h
  unfold step stepDone stepLive
  split
  · split <;> first | exact calm_nil | (unfold reopenEv; split <;> exact calm_nil)
  · cases e with
    | reopen => exact calm_nil
    | versionsGo => exact (quiet_versionsGo s).calm
    | connect => exact absurd rfl h1
    | feed f => exact calm_feed s f
    | readFault => simp only []; split <;> first | exact calm_prodFault s | exact calm_nil
    | setDrain m => simp only []; split <;> exact calm_nil
    | setClose m => simp only []; split <;> exact calm_nil
    | enq n => exact calm_nil
    | park t => exact calm_nil
    | close => simp only [closeEv]; split <;> exact calm_nil
    | advance dt => simp only []; split <;> exact calm_nil
    | tick k =>
      simp only []
      unfold fire
      split
      · exact calm_nil
      · split
        · exact calm_nil
        · cases k with
          | readTO => exact calm_prodFault s
          | writeTO => exact calm_prodFault s
          | wcloseTO => exact absurd rfl h5
          | openTO =>
            simp only []
            split
            · unfold openFailed
              split <;> simp [Calm, nWclose, nOpen, nAnnFalse, List.countP_cons, isWclose, isOpenCall, isAnnFalse]
            · exact calm_nil
          | backoffEnd => exact absurd rfl h6
          | setup a => exact (quiet_fireSetup s a).calm
          | cwcloseTO =>
            simp only []
            split
            · simp [Calm, finishClose, nWclose, nOpen, nAnnFalse, List.countP_cons, isWclose, isOpenCall, isAnnFalse]
            · exact calm_nil
    | prodStart => simp only []; split <;> first | exact calm_prodIO' s | exact calm_nil
    | lostRun => exact absurd rfl h2
    | lostRun2 => exact absurd rfl h3
    | shutdownRun => exact absurd rfl h4
    | setupGo => exact (quiet_setupGo s).calm
    | gate a => exact calm_nil
    | release => exact (quiet_release s).calm
    | take => exact (quiet_take s).calm

/-! ### close() returning, and the object used again -/

theorem finishClose_fst (s : St) (t0 : Nat) :
    (finishClose s t0).1 =
      { s with recon := (cancelConn s).recon, devices := s.devices.map shutDev, closing := .done t0 s.now } := by
  unfold finishClose cancelConn; split <;> rfl

theorem finishClose_snd (s : St) (t0 : Nat) : (finishClose s t0).2 = [.closed] := rfl

theorem reopenEv_snd (s : St) : (reopenEv s).2 = [] := by unfold reopenEv; split <;> rfl

theorem frames_reopenEv_but_closing (s : St) :
    (reopenEv s).1 = s ∨ (reopenEv s).1 = { s with closing := .no, rj := false } := by
  unfold reopenEv; split
  · left; rfl
  · right; rfl

theorem same_reopenEv (s : St) : SameCore s (reopenEv s).1 := by
  unfold reopenEv; split <;> exact ⟨rfl, rfl, rfl, rfl, rfl, Nat.le_refl _, rfl⟩

theorem sa_reopenEv (s : St) : SameAddrs s (reopenEv s).1 := by unfold reopenEv; split <;> rfl

end PlumVerif.Conn

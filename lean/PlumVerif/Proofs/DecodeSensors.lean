import PlumVerif.Model.DecodeSensors
/- helper lemmas for the sensor-data round trips (core Lean only) -/
namespace PlumVerif
namespace Wire

@[simp] theorem readByte_cons (b : Byte) (r : List Byte) : readByte (b :: r) = some (b, r) := rfl

theorem takeN_append {n : Nat} {xs : List Byte} (rest : List Byte) (h : xs.length = n) :
    takeN n (xs ++ rest) = some (xs, rest) := by
  subst h
  simp [takeN]

theorem takeN_three (a b c : Byte) (r : List Byte) : takeN 3 (a :: b :: c :: r) = some ([a, b, c], r) :=
  takeN_append (xs := [a, b, c]) r rfl

theorem takeN_two (a b : Byte) (r : List Byte) : takeN 2 (a :: b :: r) = some ([a, b], r) :=
  takeN_append (xs := [a, b]) r rfl

theorem encodeLE_length (n k : Nat) : (encodeLE n k).length = k := by
  induction k generalizing n with
  | zero => rfl
  | succ k ih => simp [encodeLE, ih]

theorem decodeLE_encodeLE (k : Nat) : ∀ n, n < 256 ^ k → decodeLE (encodeLE n k) = n := by
  induction k with
  | zero => intro n h; simp at h; simp [encodeLE, decodeLE, h]
  | succ k ih =>
    intro n h
    have h1 : n / 256 < 256 ^ k := by
      rw [Nat.pow_succ] at h
      exact Nat.div_lt_of_lt_mul (by rw [Nat.mul_comm]; exact h)
    simp only [encodeLE, decodeLE, ih _ h1]
    have : (n % 256).toUInt8.toNat = n % 256 := by
      simp [Nat.toUInt8, UInt8.toNat_ofNat']
    rw [this]; omega

theorem readLE_encodeLE {k n : Nat} (rest : List Byte) (h : n < 256 ^ k) :
    readLE k (encodeLE n k ++ rest) = some (n, rest) := by
  simp [readLE, takeN_append rest (encodeLE_length n k), decodeLE_encodeLE k n h]

theorem readF32_enc (f : F32) (rest : List Byte) :
    readF32 (Sens.encF32 f ++ rest) = some (f, rest) := by
  have h : f.toNat < 256 ^ 4 := by have := f.toNat_lt; omega
  simp [readF32, Sens.encF32, readLE_encodeLE rest h]

/-- `n` encoded items one after another are decoded item by item -/
theorem decN_flatMap {α β : Type} (d : Dec β) (enc : α → List Byte) (val : α → β)
    (xs : List α) (rest : List Byte)
    (h : ∀ x ∈ xs, ∀ r, d (enc x ++ r) = some (val x, r)) :
    decN d xs.length (xs.flatMap enc ++ rest) = some (xs.map val, rest) := by
  induction xs with
  | nil => simp [decN]
  | cons x xs ih =>
    have hx := h x (by simp) (xs.flatMap enc ++ rest)
    have ih' := ih (fun y hy => h y (by simp [hy]))
    simp [decN, List.flatMap_cons, List.append_assoc, hx, ih']

theorem toUInt8_toNat_of_lt {n : Nat} (h : n < 256) : n.toUInt8.toNat = n := by
  simp [Nat.toUInt8, UInt8.toNat_ofNat']
  omega

/-- `bool(v & 2**i)` is bit `i` of `v` -/
theorem and_two_pow (v i : Nat) : v &&& 2 ^ i = if v.testBit i then 2 ^ i else 0 := by
  apply Nat.eq_of_testBit_eq
  intro j
  by_cases hij : i = j
  · subst hij
    cases h : v.testBit i <;> simp [Nat.testBit_and, h]
  · cases h : v.testBit i <;> simp [Nat.testBit_and, hij]

theorem and_two_pow_ne_zero (v i : Nat) : (v &&& 2 ^ i != 0) = v.testBit i := by
  rw [and_two_pow]
  cases h : v.testBit i <;> simp

end Wire
end PlumVerif

/-! ### dict merges without key collisions are concatenations -/
namespace PlumVerif
open Sens Wire

def keysOf (fs : VFields) : List String := fs.map Prod.fst

theorem assocSet_new {α : Type} (d : List (String × α)) (k : String) (v : α) (h : k ∉ d.map Prod.fst) :
    assocSet d k v = d ++ [(k, v)] := by
  induction d with
  | nil => rfl
  | cons e r ih =>
    obtain ⟨k', v'⟩ := e
    simp only [List.map_cons, List.mem_cons, not_or] at h
    have hne : (k' == k) = false := by
      simp only [beq_eq_false_iff_ne, ne_eq]; exact fun e => h.1 e.symm
    simp [assocSet, hne, ih h.2]

theorem assocMerge_disjoint {α : Type} (e : List (String × α)) : ∀ (d : List (String × α)),
    (e.map Prod.fst).Nodup → (∀ k ∈ e.map Prod.fst, k ∉ d.map Prod.fst) → assocMerge d e = d ++ e := by
  induction e with
  | nil => intro d _ _; simp [assocMerge]
  | cons kv r ih =>
    intro d hnd hdis
    simp only [List.map_cons, List.nodup_cons] at hnd
    have h1 : kv.1 ∉ d.map Prod.fst := hdis kv.1 (by simp)
    have : assocMerge d (kv :: r) = assocMerge (assocSet d kv.1 kv.2) r := by simp [assocMerge]
    rw [this, assocSet_new d kv.1 kv.2 h1, ih _ hnd.2]
    · simp
    · intro k hk
      simp only [List.map_append, List.map_cons, List.map_nil, List.mem_append, List.mem_singleton, not_or]
      exact ⟨hdis k (by simp [hk]), fun e => hnd.1 (e ▸ hk)⟩

theorem mergeAll_flat_aux (secs : List VFields) : ∀ acc : VFields,
    ((acc ++ secs.flatten).map Prod.fst).Nodup → secs.foldl assocMerge acc = acc ++ secs.flatten := by
  induction secs with
  | nil => intro acc _; simp
  | cons s r ih =>
    intro acc h
    simp only [List.flatten_cons, List.map_append, List.foldl_cons] at h ⊢
    have hnd := h
    rw [List.nodup_append] at hnd
    obtain ⟨_, h2, h3⟩ := hnd
    rw [List.nodup_append] at h2
    have hm : assocMerge acc s = acc ++ s := assocMerge_disjoint s acc h2.1 (by
      intro k hk hk'
      exact h3 k hk' k (by simp [hk]) rfl)
    rw [hm, ih (acc ++ s) (by simpa [List.append_assoc] using h)]
    simp [List.append_assoc]

theorem mergeAll_flat (secs : List VFields) (h : (secs.flatten.map Prod.fst).Nodup) :
    mergeAll secs = secs.flatten := by
  have := mergeAll_flat_aux secs [] (by simpa using h)
  simpa [mergeAll] using this

theorem keys_assocSet {α : Type} (d : List (String × α)) (k : String) (v : α) :
    (assocSet d k v).map Prod.fst = if k ∈ d.map Prod.fst then d.map Prod.fst else d.map Prod.fst ++ [k] := by
  induction d with
  | nil => simp [assocSet]
  | cons e r ih =>
    obtain ⟨k', v'⟩ := e
    by_cases hk : k' = k
    · subst hk; simp [assocSet]
    · have hne : (k' == k) = false := by simpa using hk
      have hne' : ¬ k = k' := fun e => hk e.symm
      simp only [assocSet, hne, Bool.false_eq_true, if_false, List.map_cons, ih, List.mem_cons, hne', false_or]
      split <;> simp

theorem keys_assocMerge {α : Type} (e : List (String × α)) : ∀ d : List (String × α),
    (d.map Prod.fst).Nodup →
    ((assocMerge d e).map Prod.fst).Nodup ∧
      ∀ k ∈ (assocMerge d e).map Prod.fst, k ∈ d.map Prod.fst ∨ k ∈ e.map Prod.fst := by
  induction e with
  | nil => intro d h; exact ⟨by simpa [assocMerge] using h, fun k hk => Or.inl (by simpa [assocMerge] using hk)⟩
  | cons kv r ih =>
    intro d h
    have hstep : assocMerge d (kv :: r) = assocMerge (assocSet d kv.1 kv.2) r := by simp [assocMerge]
    have hnd : ((assocSet d kv.1 kv.2).map Prod.fst).Nodup := by
      rw [keys_assocSet]
      split
      · exact h
      · rename_i hk
        rw [List.nodup_append]
        exact ⟨h, by simp, fun a ha b hb => by simp at hb; subst hb; exact fun e => hk (e ▸ ha)⟩
    obtain ⟨h1, h2⟩ := ih _ hnd
    rw [hstep]
    refine ⟨h1, fun k hk => ?_⟩
    cases h2 k hk with
    | inr hr => right; simp [hr]
    | inl hl =>
      rw [keys_assocSet] at hl
      split at hl
      · left; exact hl
      · simp only [List.mem_append, List.mem_singleton] at hl
        cases hl with
        | inl h => left; exact h
        | inr h => right; simp [h]

theorem nodup_flatten_of_bounds (sb : List (List String × List String))
    (h : ∀ p ∈ sb, p.1.Nodup ∧ ∀ x ∈ p.1, x ∈ p.2) (hb : (sb.map Prod.snd).flatten.Nodup) :
    (sb.map Prod.fst).flatten.Nodup := by
  induction sb with
  | nil => simp
  | cons p r ih =>
    simp only [List.map_cons, List.flatten_cons] at hb ⊢
    rw [List.nodup_append] at hb ⊢
    have hp := h p (by simp)
    have hr : ∀ q ∈ r, q.1.Nodup ∧ ∀ x ∈ q.1, x ∈ q.2 := fun q hq => h q (by simp [hq])
    refine ⟨hp.1, ih hr hb.2.1, fun x hx y hy => hb.2.2 x (hp.2 x hx) y ?_⟩
    simp only [List.mem_flatten, List.mem_map] at hy ⊢
    obtain ⟨l, ⟨q, hq, rfl⟩, hyl⟩ := hy
    exact ⟨q.2, ⟨q, hq, rfl⟩, (hr q hq).2 y hyl⟩


theorem keys_tempFields (names : List String) (ts : List (Nat × F32)) :
    (keysOf (tempFieldsWith names ts)).Nodup ∧ ∀ k ∈ keysOf (tempFieldsWith names ts), k ∈ names := by
  obtain ⟨h1, h2⟩ := keys_assocMerge (ts.filterMap fun it =>
    if isNaN32 it.2 then none else (names[it.1]?).map fun n => (n, Val.f32 it.2)) [] (by simp)
  refine ⟨h1, fun k hk => ?_⟩
  cases h2 k hk with
  | inl h => simp at h
  | inr h =>
    simp only [List.mem_map, List.mem_filterMap] at h
    obtain ⟨⟨k', v⟩, ⟨it, _, hit⟩, rfl⟩ := h
    split at hit
    · simp at hit
    · simp only [Option.map_eq_some_iff] at hit
      obtain ⟨n, hn, heq⟩ := hit
      have : n = k' := by simpa using congrArg Prod.fst heq
      subst this
      exact List.mem_of_getElem? hn

end PlumVerif


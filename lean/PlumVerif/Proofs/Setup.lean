import PlumVerif.Model.Setup
/-
Helper lemmas about the C16 set-up machine (core Lean only).
-/
namespace PlumVerif.Setup

@[simp] theorem run_nil (c : Cfg) (s : St) : run c s [] = (s, []) := rfl
@[simp] theorem run_cons (c : Cfg) (s : St) (e : Ev) (es : List Ev) :
    run c s (e :: es) = ((run c (step c s e).1 es).1, (step c s e).2 ++ (run c (step c s e).1 es).2) := rfl

theorem run_append (c : Cfg) (s : St) (a b : List Ev) :
    run c s (a ++ b) = ((run c (run c s a).1 b).1, (run c s a).2 ++ (run c (run c s a).1 b).2) := by
  induction a generalizing s with
  | nil => simp
  | cons e es ih => simp [ih, List.append_assoc]

theorem mem_kinds (c : Cfg) (k : Nat) : k ∈ kinds c ↔ k < c.n := by simp [kinds]

theorem mem_missing (c : Cfg) (s : St) (k : Nat) : k ∈ missing c s ↔ k < c.n ∧ avail c s k = false := by
  simp [missing, mem_kinds]

theorem allAvail_iff (c : Cfg) (s : St) : allAvail c s = true ↔ ∀ k, k < c.n → avail c s k = true := by
  simp [allAvail, mem_kinds]

theorem missing_nil (c : Cfg) (s : St) (h : allAvail c s = true) : missing c s = [] := by
  rw [allAvail_iff] at h
  apply List.eq_nil_iff_forall_not_mem.mpr
  intro k hk
  rw [mem_missing] at hk
  have := h k hk.1
  simp [hk.2] at this

theorem availOf_mono (c : Cfg) (a b : Nat → Bool) (hab : ∀ j, a j = true → b j = true) (k : Nat)
    (h : availOf c a k = true) : availOf c b k = true := by
  unfold availOf at *
  cases hd : c.dep k <;> simp_all

/-- facts about a reachable state while the requests are running, attempt `i` -/
def InvRun (c : Cfg) (s : St) (i : Nat) : Prop :=
  1 ≤ i ∧ i ≤ c.R ∧ s.t0 ≤ s.now ∧ s.now ≤ s.t0 + i * c.T ∧
  ∀ k, k < c.n → (avail c s k = false → s.tx k = i) ∧ s.tx k ≤ i

/-- facts about a reachable state after loading -/
def InvLoaded (c : Cfg) (s : St) : Prop :=
  s.t0 ≤ s.loadedAt ∧ s.loadedAt ≤ s.t0 + c.R * c.T ∧
  s.errors = (kinds c).filter (fun k => !availOf c s.snap k) ∧
  (∀ k ∈ s.errors, s.tx k = c.R) ∧ (∀ k, k < c.n → s.tx k ≤ c.R) ∧
  (∀ k, s.snap k = true → s.arrived k = true) ∧
  (s.errors ≠ [] → s.loadedAt = s.t0 + c.R * c.T)

def Inv (c : Cfg) (s : St) : Prop :=
  match s.phase with
  | .waiting => ∀ k, s.tx k = 0
  | .running i => InvRun c s i
  | .loaded => InvLoaded c s

theorem mul_le_of_le (i R T : Nat) (h : i ≤ R) : i * T ≤ R * T := Nat.mul_le_mul_right T h

theorem finish_inv (c : Cfg) (s : St) (i : Nat) (h : InvRun c s i)
    (hf : allAvail c s = true ∨ (i = c.R ∧ s.now = s.t0 + c.R * c.T)) :
    InvLoaded c (finish c s).1 := by
  obtain ⟨h1, h2, h3, h4, h5⟩ := h
  have hm := mul_le_of_le i c.R c.T h2
  refine ⟨h3, ?_, rfl, ?_, ?_, fun _ hk => hk, ?_⟩
  rotate_right
  · intro hne
    show s.now = s.t0 + c.R * c.T
    rcases hf with hf | ⟨_, hf⟩
    · exact absurd (missing_nil c s hf) hne
    · exact hf
  · show s.now ≤ s.t0 + c.R * c.T
    omega
  · intro k hk
    show s.tx k = c.R
    have hk' : k ∈ missing c s := hk
    rcases hf with hf | ⟨hf, _⟩
    · rw [missing_nil c s hf] at hk'; simp at hk'
    · rw [mem_missing] at hk'
      rw [← hf]; exact (h5 k hk'.1).1 hk'.2
  · intro k hk
    show s.tx k ≤ c.R
    exact Nat.le_trans (h5 k hk).2 h2

theorem step_inv (c : Cfg) (hR : 0 < c.R) (s : St) (e : Ev) (h : Inv c s) : Inv c (step c s e).1 := by
  cases e with
  | sensors =>
    unfold step
    cases hp : s.phase with
    | waiting =>
      simp only [Nat.ne_of_gt hR, ↓reduceIte]
      have hrun : InvRun c (start c s) 1 := by
        refine ⟨Nat.le_refl 1, hR, Nat.le_refl _, by simp [start], ?_⟩
        intro k hk
        simp [start, hk]
      split
      · have := finish_inv c _ 1 hrun (Or.inl (by assumption))
        simpa [Inv, finish] using this
      · simpa [Inv, start] using hrun
    | running i => simpa [Inv, hp] using h
    | loaded => simpa [Inv, hp] using h
  | answer k =>
    unfold step
    cases hp : s.phase with
    | waiting =>
      simp only [Inv, hp, markArrived] at h ⊢
      exact h
    | running i =>
      simp only [Inv, hp] at h
      have hrun : InvRun c (markArrived s k) i := by
        obtain ⟨h1, h2, h3, h4, h5⟩ := h
        refine ⟨h1, h2, h3, h4, ?_⟩
        intro j hj
        refine ⟨?_, (h5 j hj).2⟩
        intro hav
        apply (h5 j hj).1
        cases hq : avail c s j with
        | false => rfl
        | true =>
          have := availOf_mono c s.arrived (markArrived s k).arrived
            (by intro j' hj'; by_cases hjk : j' = k <;> simp [markArrived, hjk, hj']) j hq
          simp only [avail] at hav
          rw [hav] at this
          cases this
      simp only
      split
      · have := finish_inv c _ i hrun (Or.inl (by assumption))
        simpa [Inv, finish] using this
      · simpa [Inv, hp, markArrived] using hrun
    | loaded =>
      simp only [Inv, hp, markArrived] at h ⊢
      obtain ⟨h1, h2, h3, h4, h5, h6, h7⟩ := h
      refine ⟨h1, h2, h3, h4, h5, ?_, h7⟩
      intro j hj
      by_cases hjk : j = k <;> simp [hjk, h6 j hj]
  | wait d =>
    unfold step
    cases hp : s.phase with
    | waiting =>
      simp only [Inv, hp] at h ⊢
      exact h
    | running i =>
      simp only [Inv, hp] at h
      simp only
      split
      · simpa [Inv, hp] using h
      · obtain ⟨h1, h2, h3, h4, h5⟩ := h
        simp only [Inv]
        refine ⟨h1, h2, ?_, ?_, h5⟩
        · show s.t0 ≤ s.now + d
          omega
        · show s.now + d ≤ s.t0 + i * c.T
          omega
    | loaded =>
      simp only [Inv, hp] at h ⊢
      exact h
  | timer =>
    unfold step
    cases hp : s.phase with
    | waiting => simpa [Inv, hp] using h
    | loaded => simpa [Inv, hp] using h
    | running i =>
      simp only [Inv, hp] at h
      obtain ⟨h1, h2, h3, h4, h5⟩ := h
      simp only
      split
      · rename_i hlt
        simp only [Inv, retry]
        refine ⟨by omega, by omega, ?_, ?_, ?_⟩
        · show s.t0 ≤ s.t0 + i * c.T
          omega
        · show s.t0 + i * c.T ≤ s.t0 + (i + 1) * c.T
          rw [Nat.add_mul]; omega
        · intro k hk
          have := h5 k hk
          have hav : avail c (retry c s i) k = avail c s k := rfl
          show (avail c (retry c s i) k = false → (retry c s i).tx k = i + 1) ∧ (retry c s i).tx k ≤ i + 1
          rw [hav]
          cases hq : avail c s k with
          | true => simp [retry, hq]; omega
          | false => simp [retry, hk, hq]; exact ⟨this.1 hq, this.2⟩
      · rename_i hge
        have hi : i = c.R := by omega
        have hrun : InvRun c (expire c s i) i := by
          refine ⟨h1, h2, ?_, ?_, h5⟩
          · show s.t0 ≤ s.t0 + i * c.T
            omega
          · exact Nat.le_refl _
        have := finish_inv c _ i hrun (Or.inr ⟨hi, by rw [hi]; rfl⟩)
        simpa [Inv, finish] using this
  | versions ks => exact h

theorem init_inv (c : Cfg) : Inv c init := by simp [Inv, init]

theorem run_inv (c : Cfg) (hR : 0 < c.R) (s : St) (es : List Ev) (h : Inv c s) : Inv c (run c s es).1 := by
  induction es generalizing s with
  | nil => simpa using h
  | cons e es ih => simpa using ih _ (step_inv c hR s e h)


/-! ### after loading nothing changes; loading takes a snapshot -/

theorem loaded_step (c : Cfg) (s : St) (e : Ev) (h : s.phase = .loaded) :
    (step c s e).1.phase = .loaded ∧ (step c s e).1.errors = s.errors ∧ (step c s e).1.loadedAt = s.loadedAt ∧
    (step c s e).1.snap = s.snap ∧ (step c s e).1.t0 = s.t0 ∧ (step c s e).1.tx = s.tx := by
  cases e <;> simp [step, h, markArrived]

theorem loaded_run (c : Cfg) (s : St) (es : List Ev) (h : s.phase = .loaded) :
    (run c s es).1.phase = .loaded ∧ (run c s es).1.errors = s.errors ∧ (run c s es).1.loadedAt = s.loadedAt ∧
    (run c s es).1.snap = s.snap ∧ (run c s es).1.t0 = s.t0 ∧ (run c s es).1.tx = s.tx := by
  induction es generalizing s with
  | nil => simp [h]
  | cons e es ih =>
    obtain ⟨h1, h2, h3, h4, h5, h6⟩ := loaded_step c s e h
    obtain ⟨i1, i2, i3, i4, i5, i6⟩ := ih _ h1
    simp [i1, i2, i3, i4, i5, i6, h2, h3, h4, h5, h6]

theorem finish_snap (c : Cfg) (s : St) :
    (finish c s).1.phase = .loaded ∧ (finish c s).1.snap = (finish c s).1.arrived ∧
    (finish c s).1.loadedAt = (finish c s).1.now := by
  simp [finish]

/-- the step that loads records exactly the responses handled so far, and the current time -/
theorem loading_step (c : Cfg) (s : St) (e : Ev) (h : s.phase ≠ .loaded)
    (hl : (step c s e).1.phase = .loaded) :
    (step c s e).1.snap = (step c s e).1.arrived ∧ (step c s e).1.loadedAt = (step c s e).1.now := by
  have fs := fun s' => (finish_snap c s').2
  cases e with
  | sensors =>
    unfold step at *
    cases hp : s.phase <;> simp only [hp] at hl ⊢ <;> try exact absurd hp h
    · (repeat' split) <;> simp_all [start]
    · simp at hl
  | answer k =>
    unfold step at *
    cases hp : s.phase <;> simp only [hp] at hl ⊢ <;> try exact absurd hp h
    · simp [markArrived, hp] at hl
    · (repeat' split) <;> simp_all [markArrived]
  | wait d =>
    unfold step at *
    cases hp : s.phase <;> simp only [hp] at hl ⊢ <;> try exact absurd hp h
    · simp at hl
    · split at hl <;> simp [hp] at hl
  | timer =>
    unfold step at *
    cases hp : s.phase <;> simp only [hp] at hl ⊢ <;> try exact absurd hp h
    · simp at hl
    · (repeat' split) <;> simp_all [retry]
  | versions ks => exact absurd hl h

/-! ### completion -/

theorem sensors_leaves_waiting (c : Cfg) (s : St) : (step c s .sensors).1.phase ≠ .waiting := by
  unfold step
  cases hp : s.phase <;> simp only
  · (repeat' split) <;> simp [finish, start]
  · simp [hp]
  · simp [hp]

theorem not_waiting_step (c : Cfg) (s : St) (e : Ev) (h : s.phase ≠ .waiting) :
    (step c s e).1.phase ≠ .waiting := by
  by_cases hv : ∃ ks, e = .versions ks
  · obtain ⟨ks, rfl⟩ := hv; exact h
  cases e <;> (try exact absurd ⟨_, rfl⟩ hv) <;> unfold step <;> cases hp : s.phase <;> simp only <;> (try exact absurd hp h) <;>
    (repeat' split) <;> simp_all [finish, markArrived, retry]

theorem not_waiting_run (c : Cfg) (s : St) (es : List Ev) (h : s.phase ≠ .waiting) :
    (run c s es).1.phase ≠ .waiting := by
  induction es generalizing s with
  | nil => simpa using h
  | cons e es ih => simpa using ih _ (not_waiting_step c s e h)

/-- timer expiries still needed before set-up is certainly finished -/
def need (c : Cfg) (s : St) : Nat :=
  match s.phase with
  | .waiting => 0
  | .running i => if i < c.R then c.R + 1 - i else 1
  | .loaded => 0

theorem step_need (c : Cfg) (s : St) (e : Ev) (h : s.phase ≠ .waiting) :
    need c (step c s e).1 + (if e = .timer then 1 else 0) ≤ need c s ∨ (step c s e).1.phase = .loaded := by
  by_cases hv : ∃ ks, e = .versions ks
  · obtain ⟨ks, rfl⟩ := hv
    left
    show need c s + 0 ≤ need c s
    omega
  cases e <;> (try exact absurd ⟨_, rfl⟩ hv) <;> unfold step <;> cases hp : s.phase <;> simp only <;> (try exact absurd hp h) <;>
    (repeat' split) <;> simp_all [finish, markArrived, retry, need] <;> (try split) <;> omega

theorem run_completes (c : Cfg) (s : St) (es : List Ev) (h : s.phase ≠ .waiting)
    (hn : need c s ≤ es.count .timer) : (run c s es).1.phase = .loaded := by
  induction es generalizing s with
  | nil =>
    simp only [List.count_nil, Nat.le_zero_eq] at hn
    cases hp : s.phase with
    | waiting => exact absurd hp h
    | running i => simp only [need, hp] at hn; split at hn <;> omega
    | loaded => simpa using hp
  | cons e es ih =>
    simp only [run_cons]
    rcases step_need c s e h with hs | hs
    · apply ih _ (not_waiting_step c s e h)
      simp only [List.count_cons] at hn
      by_cases he : e = .timer
      · simp [he] at hn hs ⊢; omega
      · have : (e == Ev.timer) = false := by simpa using he
        simp [he, this] at hn hs ⊢; omega
    · exact (loaded_run c _ es hs).1

theorem need_le (c : Cfg) (s : St) (h : Inv c s) : need c s ≤ c.R := by
  unfold need
  cases hp : s.phase with
  | waiting => simp
  | loaded => simp
  | running i =>
    simp only [Inv, hp] at h
    have := h.1
    have := h.2.1
    simp only; split <;> omega

/-! ### the frame-versions handler does not interfere with set-up -/

def Ev.isVersions : Ev → Bool
  | .versions _ => true
  | _ => false

/-- the frame-versions bookkeeping replaced -/
def withV (s : St) (v : Nat → Bool) (x : Nat → Nat) : St := { s with versioned := v, vtx := x }

@[simp] theorem withV_phase (s v x) : (withV s v x).phase = s.phase := rfl
@[simp] theorem withV_now (s v x) : (withV s v x).now = s.now := rfl
@[simp] theorem withV_t0 (s v x) : (withV s v x).t0 = s.t0 := rfl
@[simp] theorem withV_allAvail (c s v x) : allAvail c (withV s v x) = allAvail c s := rfl
@[simp] theorem withV_missing (c s v x) : missing c (withV s v x) = missing c s := rfl
@[simp] theorem withV_start (c s v x) : start c (withV s v x) = withV (start c s) v x := rfl
@[simp] theorem withV_mark (s v x k) : markArrived (withV s v x) k = withV (markArrived s k) v x := rfl
@[simp] theorem withV_retry (c s v x i) : retry c (withV s v x) i = withV (retry c s i) v x := rfl
@[simp] theorem withV_expire (c s v x i) : expire c (withV s v x) i = withV (expire c s i) v x := rfl
@[simp] theorem withV_finish (c s v x) : finish c (withV s v x) = (withV (finish c s).1 v x, (finish c s).2) := rfl

theorem step_withV (c : Cfg) (s : St) (e : Ev) (v : Nat → Bool) (x : Nat → Nat) (he : e.isVersions = false) :
    step c (withV s v x) e = (withV (step c s e).1 v x, (step c s e).2) := by
  cases e with
  | versions ks => simp [Ev.isVersions] at he
  | sensors =>
    unfold step
    cases hp : s.phase <;> simp only [withV_phase, hp, withV_start, withV_allAvail, withV_finish, withV_now] <;> (try rfl)
    by_cases h1 : c.R = 0 <;> by_cases h2 : allAvail c (start c s) = true <;> simp [h1, h2] <;> rfl
  | answer k =>
    unfold step
    cases hp : s.phase <;> simp only [withV_phase, hp, withV_mark, withV_allAvail, withV_finish] <;> (try rfl)
    by_cases h2 : allAvail c (markArrived s k) = true <;> simp [h2]
  | wait d =>
    unfold step
    cases hp : s.phase <;> simp only [withV_phase, hp, withV_now, withV_t0] <;> (try rfl)
    rename_i i
    by_cases h2 : s.t0 + i * c.T ≤ s.now + d <;> simp [h2] <;> rfl
  | timer =>
    unfold step
    cases hp : s.phase <;>
      simp only [withV_phase, hp, withV_retry, withV_expire, withV_finish, withV_missing, withV_t0] <;> (try rfl)
    rename_i i
    by_cases h2 : i < c.R <;> simp [h2]


theorem step_versions (c : Cfg) (s : St) (ks : List Nat) :
    ∃ v x, (step c s (.versions ks)).1 = withV s v x ∧
      ∀ o ∈ (step c s (.versions ks)).2, ∃ k t, o = Out.vtx k t :=
  ⟨_, _, rfl, by
    intro o ho
    simp only [step, List.mem_map] at ho
    obtain ⟨k, _, rfl⟩ := ho
    exact ⟨k, s.now, rfl⟩⟩

def Out.isSetup : Out → Bool
  | .vtx _ _ => false
  | _ => true

theorem withV_withV (s : St) (v v' : Nat → Bool) (x x' : Nat → Nat) : withV (withV s v x) v' x' = withV s v' x' := rfl

/-- dropping every frame-versions announcement from a history changes neither the set-up state
nor the set-up outputs -/
theorem run_drop_versions (c : Cfg) (s : St) (v : Nat → Bool) (x : Nat → Nat) (es : List Ev) :
    ∃ v' x', (run c (withV s v x) es).1 = withV (run c s (es.filter (fun e => !e.isVersions))).1 v' x' ∧
      (run c (withV s v x) es).2.filter Out.isSetup =
        (run c s (es.filter (fun e => !e.isVersions))).2.filter Out.isSetup := by
  induction es generalizing s v x with
  | nil => exact ⟨v, x, rfl, rfl⟩
  | cons e es ih =>
    by_cases he : e.isVersions = true
    · cases e <;> simp [Ev.isVersions] at he
      rename_i ks
      obtain ⟨v1, x1, h1, h2⟩ := step_versions c (withV s v x) ks
      obtain ⟨v2, x2, i1, i2⟩ := ih s v1 x1
      refine ⟨v2, x2, ?_, ?_⟩
      · simp only [run_cons, h1, withV_withV, List.filter_cons, Ev.isVersions, Bool.not_true,
          Bool.false_eq_true, ↓reduceIte]
        exact i1
      · simp only [run_cons, h1, withV_withV, List.filter_cons, Ev.isVersions, Bool.not_true,
          Bool.false_eq_true, ↓reduceIte, List.filter_append]
        have : (step c (withV s v x) (.versions ks)).2.filter Out.isSetup = [] := by
          apply List.filter_eq_nil_iff.mpr
          intro o ho
          obtain ⟨k, t, rfl⟩ := h2 o ho
          simp [Out.isSetup]
        rw [this, List.nil_append]
        exact i2
    · have he' : e.isVersions = false := by simpa using he
      have hs := step_withV c s e v x he'
      obtain ⟨v2, x2, i1, i2⟩ := ih (step c s e).1 v x
      refine ⟨v2, x2, ?_, ?_⟩
      · simp only [run_cons, hs, List.filter_cons, he', Bool.not_false, ↓reduceIte]
        exact i1
      · simp only [run_cons, hs, List.filter_cons, he', Bool.not_false, ↓reduceIte, List.filter_append]
        rw [i2]

end PlumVerif.Setup

import PlumVerif.Proofs.Conn
/-
Timing invariant of the reconnect machinery: a pending deadline of the loss handler /
reconnect routine (hung wait_closed, hung open, back-off) is never in the past, because
`advance` refuses to skip a pending timer.  Used for "the retry happens exactly when the
back-off interval has elapsed".
-/
set_option linter.unusedSimpArgs false

namespace PlumVerif.Conn

def reconDl : Recon → Option Nat
  | .idle => none
  | .wclosing d => some d
  | .attempting d _ => some d
  | .backoff d _ => some d

/-- the pending reconnect deadline is not in the past (as long as close() has not returned) -/
def RInv (s : St) : Prop := isDone s.closing = false → ∀ d, reconDl s.recon = some d → s.now ≤ d

/-- one function application: the clock stands still, and the reconnect state is kept, or its
new deadline is not before now -/
structure RStep (s s' : St) : Prop where
  now : s'.now = s.now
  recon : s'.recon = s.recon ∨ ∀ d, reconDl s'.recon = some d → s.now ≤ d

theorem RInv.of_step {s s' : St} (h : RInv s) (r : RStep s s') (hd : isDone s'.closing = false → isDone s.closing = false) :
    RInv s' := by
  intro hnd d hdl
  rw [r.now]
  rcases r.recon with he | hn
  · rw [he] at hdl; exact h (hd hnd) d hdl
  · exact hn d hdl

theorem RStep.refl (s : St) : RStep s s := ⟨rfl, Or.inl rfl⟩

theorem RStep.trans {a b c : St} (h1 : RStep a b) (h2 : RStep b c) : RStep a c := by
  refine ⟨h2.now.trans h1.now, ?_⟩
  rcases h2.recon with he | hn
  · rcases h1.recon with he1 | hn1
    · exact Or.inl (he.trans he1)
    · right; intro d hd; rw [he] at hd; exact hn1 d hd
  · right; intro d hd; have := hn d hd; rw [h1.now] at this; exact this

theorem rs_popScript (s : St) : RStep s (popScript s).2 := by
  unfold popScript; split <;> exact ⟨rfl, Or.inl rfl⟩

theorem rs_openFailed (s : St) (o : Owner) : RStep s (openFailed s o).1 := by
  unfold openFailed; split
  · exact ⟨rfl, Or.inr (by intro d hd; simp [reconDl] at hd)⟩
  · exact ⟨rfl, Or.inr (by intro d hd; simp [reconDl] at hd; omega)⟩

theorem rs_doOpen (s : St) (o : Owner) : RStep s (doOpen s o).1 := by
  refine (rs_popScript s).trans ?_
  simp only [doOpen]
  split
  · exact ⟨rfl, Or.inr (by intro d hd; simp [establish, reconDl] at hd)⟩
  · exact rs_openFailed _ o
  · exact ⟨rfl, Or.inr (by intro d hd; simp [reconDl] at hd; omega)⟩

theorem doOpen_devices (s : St) (o : Owner) : (doOpen s o).1.devices = s.devices := by
  have hp : (popScript s).2.devices = s.devices := by unfold popScript; split <;> rfl
  simp only [doOpen]
  split
  · exact hp
  · unfold openFailed; split <;> exact hp
  · exact hp

theorem rs_reconnectInvoke (s : St) : RStep s (reconnectInvoke s).1 := by
  unfold reconnectInvoke; split
  · exact rs_doOpen s _
  · exact RStep.refl s

theorem closeWriter_fst' (s : St) : (closeWriter s).1 = { s with wopen := false } := by
  unfold closeWriter; split <;> rfl

theorem rs_lostFinish (s : St) : RStep s (lostFinish s).1 := by
  simp only [lostFinish, closeWriter_fst']
  split
  · exact ⟨rfl, Or.inr (by intro d hd; simp [reconDl] at hd; omega)⟩
  · exact RStep.trans (b := { s with wopen := false, writer := none }) ⟨rfl, Or.inl rfl⟩ (rs_reconnectInvoke _)

theorem rs_of_same {s s' : St} (c : SameCore s s') (hn : s'.now = s.now) : RStep s s' := ⟨hn, Or.inl c.recon⟩

theorem latch_now' (x : St) : (latch x).now = x.now := by
  unfold latch; split
  · split <;> rfl
  · rfl

theorem prodIO'_now (s : St) : (prodIO' s).1.now = s.now := by
  unfold prodIO'; split
  · split <;> rfl
  · rfl

theorem handle_now (s : St) (f : Feed) : (handle s f).1.now = s.now := by cases f <;> rfl

theorem rs_prodIO (s : St) : RStep s (prodIO s).1 := by
  refine ⟨?_, Or.inl ?_⟩
  · simp only [prodIO, latch_now', prodIO'_now]
  · have c1 : (prodIO' s).1.recon = s.recon := by
      unfold prodIO'; split
      · split <;> rfl
      · rfl
    simp only [prodIO]
    rw [(same_latch _).recon, c1]

theorem fireSetup_now (s : St) (a : Nat) : (fireSetup s a).1.now = s.now := by
  unfold fireSetup; split
  · rfl
  · split
    · split <;> rfl
    · rfl

theorem setupGo_now (s : St) : (setupGo s).1.now = s.now := by unfold setupGo; split <;> rfl
theorem versionsGo_now (s : St) : (versionsGo s).1.now = s.now := by unfold versionsGo; split <;> rfl

theorem park_now (s : St) (t : Target) : (park s t).now = s.now := by cases t <;> rfl

theorem rs_closeEv (s : St) : RStep s (closeEv s).1 := by
  unfold closeEv; split
  · exact RStep.refl s
  · have h1 : RStep s (cancelConn s) := by
      unfold cancelConn; split
      · exact ⟨rfl, Or.inr (by intro d hd; simp [reconDl] at hd)⟩
      · exact RStep.refl s
    have h2 : RStep (cancelConn s) (beginJoin (cancelConn s)) := by
      refine ⟨?_, Or.inl ?_⟩
      · simp only [beginJoin, latch_now']
      · simp only [beginJoin]; rw [(same_latch _).recon]
    exact h1.trans h2

/-- every micro event except `advance` keeps the clock and the invariant -/
theorem rinv_step {s : St} (_hi : Inv s) (h : RInv s) (e : Ev) : RInv (step s e).1 := by
  by_cases hdone : isDone s.closing = true
  · -- after close() returned nothing is claimed any more - until the object is used again, with no reconnect pending
    by_cases hre : e = .reopen
    · subst hre
      have e1 : (step s .reopen).1 = (reopenEv s).1 := by simp [step, stepDone, hdone]
      rw [e1]
      unfold reopenEv
      split
      · intro hnd; rw [hdone] at hnd; cases hnd
      · rename_i hg
        simp only [not_or, Decidable.not_not] at hg
        intro _ d hd
        rw [show ({ s with closing := CPhase.no, rj := false } : St).recon = s.recon from rfl, hg.2.2] at hd
        simp [reconDl] at hd
    · intro hnd
      have : isDone (step s e).1.closing = true := by
        unfold step stepDone stepLive; rw [hdone]; simp only [↓reduceIte]
        cases e <;> first | exact hdone | exact absurd rfl hre | (split <;> exact hdone)
      rw [this] at hnd; cases hnd
  · simp only [Bool.not_eq_true] at hdone
    have keep : ∀ s' : St, RStep s s' → RInv s' := fun s' r => h.of_step r (fun _ => hdone)
    unfold step stepDone stepLive
    rw [hdone]
    simp only [Bool.false_eq_true, ↓reduceIte]
    cases e with
    | connect => simp only []; split <;> first | exact h | exact keep _ (rs_doOpen s _)
    | feed f =>
      simp only [feed]
      split
      · exact h
      · split
        · exact keep _ ((rs_prodIO s).trans ⟨rfl, Or.inl rfl⟩)
        · exact keep _ (rs_prodIO s)
    | readFault => simp only []; split <;> first | exact h | exact keep _ ⟨rfl, Or.inl rfl⟩
    | setDrain m => simp only []; split <;> first | exact h | exact keep _ ⟨rfl, Or.inl rfl⟩
    | setClose m => simp only []; split <;> first | exact h | exact keep _ ⟨rfl, Or.inl rfl⟩
    | enq n => exact keep _ ⟨rfl, Or.inl rfl⟩
    | park t => exact keep _ ⟨park_now s t, Or.inl (same_park s t).recon⟩
    | close => exact keep _ (rs_closeEv s)
    | advance dt =>
      simp only []
      split
      · rename_i hall
        intro _ d hd
        rw [List.all_eq_true] at hall
        have hmem : d ∈ deadlines s := by
          unfold deadlines
          rw [List.mem_filterMap]
          cases hr : s.recon with
          | idle => rw [hr] at hd; simp [reconDl] at hd
          | wclosing d' =>
            rw [hr] at hd; simp [reconDl] at hd
            exact ⟨.wcloseTO, by simp [timers], by simp [deadline?, hr, hd]⟩
          | attempting d' o =>
            rw [hr] at hd; simp [reconDl] at hd
            exact ⟨.openTO, by simp [timers], by simp [deadline?, hr, hd]⟩
          | backoff d' o =>
            rw [hr] at hd; simp [reconDl] at hd
            exact ⟨.backoffEnd, by simp [timers], by simp [deadline?, hr, hd]⟩
        have := hall d hmem
        simpa using this
      · exact h
    | tick k =>
      simp only []
      unfold fire
      split
      · exact h
      · split
        · exact h
        · cases k with
          | readTO => exact keep _ ⟨rfl, Or.inl rfl⟩
          | writeTO => exact keep _ ⟨latch_now' _, Or.inl (same_latch _).recon⟩
          | wcloseTO =>
            exact keep _ (RStep.trans (b := { s with recon := .idle, writer := none })
              ⟨rfl, Or.inr (by intro d hd; simp [reconDl] at hd)⟩ (rs_reconnectInvoke _))
          | openTO =>
            simp only []
            split
            · exact keep _ (RStep.trans (b := { s with recon := .idle })
                ⟨rfl, Or.inr (by intro d hd; simp [reconDl] at hd)⟩ (rs_openFailed _ _))
            · exact h
          | backoffEnd =>
            exact keep _ (RStep.trans (b := { s with recon := .idle })
              ⟨rfl, Or.inr (by intro d hd; simp [reconDl] at hd)⟩ (rs_doOpen _ _))
          | setup a => exact keep _ ⟨fireSetup_now s a, Or.inl (same_fireSetup s a).recon⟩
          | cwcloseTO =>
            simp only []
            split
            · intro hnd; simp [finishClose, isDone] at hnd
            · exact h
    | prodStart =>
      simp only []
      split
      · rename_i hg; exact keep _ (rs_prodIO s)
      · exact h
    | lostRun =>
      simp only [lostRun]
      split
      · exact h
      · split
        · exact keep _ ⟨rfl, Or.inl rfl⟩
        · split
          · exact keep _ (RStep.trans (b := { s with lostPending := false, connected := false })
              ⟨rfl, Or.inl rfl⟩ (rs_lostFinish _))
          · exact keep _ ⟨rfl, Or.inl rfl⟩
    | lostRun2 =>
      simp only [lostRun2]
      split
      · exact h
      · exact keep _ (RStep.trans (b := { s with lostMid := false }) ⟨rfl, Or.inl rfl⟩ (rs_lostFinish _))
    | shutdownRun =>
      simp only [shutdownRun]
      split
      · -- after the cancellations the reconnect state is idle or a Connection task's, unchanged
        rename_i t0 hj
        split
        · intro hnd d hd
          have hrec : (shutdownTail (cancelProto s) t0).1.recon = (cancelProto s).recon ∧
              (shutdownTail (cancelProto s) t0).1.now = s.now := by
            have hc : isDone (shutdownTail (cancelProto s) t0).1.closing = true ∨
                ((shutdownTail (cancelProto s) t0).1.recon = (cancelProto s).recon ∧
                 (shutdownTail (cancelProto s) t0).1.now = s.now) := by
              simp only [shutdownTail, closeWriter_fst']
              split
              · right; exact ⟨rfl, rfl⟩
              · left; rfl
            rcases hc with hc | hc
            · rw [hc] at hnd; cases hnd
            · exact hc
          rw [hrec.1] at hd
          rw [hrec.2]
          simp only [cancelProto] at hd
          split at hd
          · simp [reconDl] at hd
          · exact h hdone d hd
        · exact h
      · exact h
    | setupGo => exact keep _ ⟨setupGo_now s, Or.inl (same_setupGo s).recon⟩
    | versionsGo => exact keep _ ⟨versionsGo_now s, Or.inl (same_versionsGo s).recon⟩
    | reopen => exact h
    | gate a => exact keep _ ⟨(frames_gateEv s a).now, Or.inl (frames_gateEv s a).recon⟩
    | release => exact keep _ ⟨(frames_release s).now, Or.inl (frames_release s).recon⟩
    | take => exact keep _ ⟨(frames_take s).now, Or.inl (frames_take s).recon⟩

theorem rinv_init (cfg : Nat) (rc : Bool) (sc : List OpenRes) : RInv (init cfg rc sc) := by
  intro _ d hd; simp [init, reconDl] at hd

theorem rinv_run {s : St} (hi : Inv s) (h : RInv s) (es : List Ev) : RInv (run s es).1 := by
  induction es generalizing s with
  | nil => exact h
  | cons e es ih => exact ih (inv_step hi e) (rinv_step hi h e)

theorem Reachable.rinv {s : St} (h : Reachable s) : RInv s := by
  obtain ⟨cfg, rc, sc, es, rfl⟩ := h
  exact rinv_run (inv_init cfg rc sc) (rinv_init cfg rc sc) es

end PlumVerif.Conn

import PlumVerif.Proofs.Entry
/-
Ranking argument for the entry machine (Model/Entry.lean): every real move of a caller lowers the
caller's rank (moves it still can make), no move touches another caller's program counter; an
unfinished frame caller always has somebody who can move (itself, or the holder of the lock).
-/
namespace PlumVerif.Entry

/-- moves a caller can still make at most -/
def rank (k : Kind) : PC → Nat
  | .start => match k with
    | .entry => 3
    | .get => 2
  | .creating => 2
  | .publishing _ => 1
  | .gwait => 1
  | .done _ => 0
  | .failed => 0
  | .got _ => 0

def rk (who : Nat → Caller) (s : St) (i : Nat) : Nat := rank (who i).kind (s.pc i)

/-- total rank of the callers 0 … N-1 -/
def total (who : Nat → Caller) (s : St) : Nat → Nat
  | 0 => 0
  | N + 1 => total who s N + rk who s N

/-- caller `i` can make a real move -/
def moves (who : Nat → Caller) (cr : Nat → Bool) (s : St) (i : Nat) : Bool :=
  decide ((step true who cr s i).pc i ≠ s.pc i)

theorem rank_le_three (k : Kind) (p : PC) : rank k p ≤ 3 := by
  cases p <;> cases k <;> simp [rank]

theorem total_le (who : Nat → Caller) (s : St) (N : Nat) : total who s N ≤ 3 * N := by
  induction N with
  | zero => simp [total]
  | succ N ih => simp only [total]; have := rank_le_three (who N).kind (s.pc N); unfold rk; omega

/-- a step either changes nothing at all or lowers the rank of the caller that moved -/
theorem step_rank (who : Nat → Caller) (cr : Nat → Bool) (s : St) (i : Nat) :
    step true who cr s i = s ∨ rk who (step true who cr s i) i < rk who s i := by
  have h := step_shape who cr s i
  generalize step true who cr s i = s' at h
  cases h with
  | stutter => exact .inl rfl
  | finish d hpc hk hl hp => right; simp [rk, finish, upd, hpc, hk, rank]
  | acquire hpc hk hl hp => right; simp [rk, upd, hpc, hk, rank]
  | gnow d hpc hp =>
    right
    rcases hpc with ⟨hpc, hk⟩ | hpc
    · simp [rk, upd, hpc, hk, rank]
    · simp [rk, upd, hpc, rank]
  | gpark hpc hk hp => right; simp [rk, upd, hpc, hk, rank]
  | build hpc hc => right; simp [rk, upd, hpc, rank]
  | fail hpc hc => right; simp [rk, upd, hpc, rank]
  | publish d hpc => right; simp [rk, upd, hpc, rank]

theorem rk_other (who : Nat → Caller) (cr : Nat → Bool) (s : St) (i j : Nat) (hj : j ≠ i) :
    rk who (step true who cr s i) j = rk who s j := by
  simp [rk, step_pc_other who cr s i j hj]

theorem total_other (who : Nat → Caller) (cr : Nat → Bool) (s : St) (i N : Nat) (h : N ≤ i) :
    total who (step true who cr s i) N = total who s N := by
  induction N with
  | zero => rfl
  | succ N ih => simp only [total]; rw [ih (by omega), rk_other who cr s i N (by omega)]

/-- the total rank of callers 0 … N-1 never rises, and falls when one of them really moves -/
theorem total_step (who : Nat → Caller) (cr : Nat → Bool) (s : St) (i N : Nat) :
    total who (step true who cr s i) N ≤ total who s N ∧
      (i < N → step true who cr s i ≠ s → total who (step true who cr s i) N < total who s N) := by
  induction N with
  | zero => exact ⟨Nat.le_refl _, fun h => absurd h (Nat.not_lt_zero _)⟩
  | succ N ih =>
    simp only [total]
    by_cases hi : i = N
    · subst hi
      have ho := total_other who cr s i i (Nat.le_refl _)
      rcases step_rank who cr s i with h | h
      · rw [h]; exact ⟨Nat.le_refl _, fun _ hne => absurd rfl hne⟩
      · rw [ho]; exact ⟨by omega, fun _ _ => by omega⟩
    · have hr := rk_other who cr s i N (Ne.symm hi)
      rw [hr]
      exact ⟨by omega, fun hlt hne => by have := ih.2 (by omega) hne; omega⟩

theorem moves_iff (who : Nat → Caller) (cr : Nat → Bool) (s : St) (i : Nat) :
    moves who cr s i = true ↔ step true who cr s i ≠ s := by
  simp only [moves, decide_eq_true_eq]
  constructor
  · intro h he; rw [he] at h; exact h rfl
  · intro hne hpc
    rcases step_rank who cr s i with h | h
    · exact hne h
    · simp only [rk, hpc] at h; omega

/-- **somebody can move**: an entry caller that is neither done nor failed can move itself, or the
holder of the lock can (the class loading of the holder completes / raises, its announcement
ends) -/
theorem unfinished_someone_moves (who : Nat → Caller) (cr : Nat → Bool) (s : St) (h : Inv who cr s) (j : Nat)
    (hk : (who j).kind = .entry) (hnd : ∀ d, s.pc j ≠ .done d) (hnf : s.pc j ≠ .failed) :
    moves who cr s j = true ∨ ∃ k, s.lock = some k ∧ moves who cr s k = true := by
  have inside_moves : ∀ k, Inside (s.pc k) → moves who cr s k = true := by
    intro k hin
    rw [moves_iff]
    intro he
    have hpc : (step true who cr s k).pc k = s.pc k := by rw [he]
    rcases hin with hc | ⟨d, hp⟩
    · cases hcr : cr (who k).addr
      · rw [(step_creating_fail who cr s k hc hcr).1, hc] at hpc; cases hpc
      · rw [(step_creating_ok who cr s k hc hcr).1, hc] at hpc; cases hpc
    · rw [(step_publishing who cr s k d hp).1, hp] at hpc; cases hpc
  cases hpc : s.pc j with
  | start =>
    cases hl : s.lock with
    | none =>
      left
      rw [moves_iff]
      intro he
      have := step_start_moves who cr s j hpc (.inr hl)
      rw [he] at this
      exact this hpc
    | some k => exact .inr ⟨k, rfl, inside_moves k (h.held k hl).1⟩
  | creating => exact .inl (inside_moves j (by rw [hpc]; exact inside_creating))
  | publishing d => exact .inl (inside_moves j (by rw [hpc]; exact inside_publishing d))
  | done d => exact absurd hpc (hnd d)
  | failed => exact absurd hpc hnf
  | gwait => have := h.kindG j (.inl hpc); rw [hk] at this; cases this
  | got d => have := h.kindG j (.inr ⟨d, hpc⟩); rw [hk] at this; cases this

/-- the lock is only ever held by a caller that was scheduled -/
theorem lock_holder_scheduled (who : Nat → Caller) (cr : Nat → Bool) (P : Nat → Prop) (s : St) (is : List Nat)
    (h0 : ∀ h, s.lock = some h → P h) (hs : ∀ i ∈ is, P i) : ∀ h, (run true who cr s is).lock = some h → P h := by
  induction is generalizing s with
  | nil => exact h0
  | cons i is ih =>
    simp only [run]
    apply ih
    · intro h hl
      have sh := step_shape who cr s i
      generalize step true who cr s i = s' at sh hl
      cases sh with
      | stutter => exact h0 h hl
      | finish d hpc hk hl' hp => simp [finish, hl'] at hl
      | acquire hpc hk hl' hp => simp at hl; subst hl; exact hs i (by simp)
      | gnow d hpc hp => exact h0 h hl
      | gpark hpc hk hp => exact h0 h hl
      | build hpc hc => exact h0 h hl
      | fail hpc hc => simp at hl
      | publish d hpc => simp at hl
    · intro k hk; exact hs k (by simp [hk])

end PlumVerif.Entry

import PlumVerif.Proofs.EventsObs2
namespace PlumVerif.C13

/-! ### snapshots -/

theorem mkSnap_data (s : St) (k n : Nat) (hn : n < 3) : (mkSnap s k).data.getD n none = s.data n := by
  simp only [mkSnap]
  match n, hn with
  | 0, _ => rfl
  | 1, _ => rfl
  | 2, _ => rfl

theorem getD_map_range {α : Type} (f : Nat → α) (n i : Nat) (d : α) :
    ((List.range n).map f).getD i d = if i < n then f i else d := by
  by_cases h : i < n
  · simp [List.getD, h]
  · simp [List.getD, h]

theorem mkSnap_done (s : St) (hC : InvC s) (k i : Nat) : (mkSnap s k).done.getD i false = isDone (s.d i) := by
  simp only [mkSnap, getD_map_range]
  by_cases h : i < s.nd
  · simp [h]
  · simp only [h, if_false]
    have := hC.dAbsent i (by omega)
    simp [isDone, this]

theorem mkSnap_ws (s : St) (k j : Nat) (w : WSt) (h : (mkSnap s k).ws[j]? = some w) : j < s.nw ∧ w = wst (s.w j) := by
  simp only [mkSnap, List.getElem?_map] at h
  by_cases hj : j < s.nw
  · simp [List.getElem?_range hj] at h; exact ⟨hj, h.symm⟩
  · rw [List.getElem?_eq_none (by simp; omega)] at h; simp at h

structure SnapOK (s : St) (sn : Snap) : Prop where
  doneIs : ∀ i, sn.done.getD i false = true → isDone (s.d i) = true
  wsLen : sn.ws.length ≤ s.nw
  waiting : ∀ j dl, sn.ws[j]? = some (.waiting dl) →
    ((s.w j).name < 3 → sn.data.getD (s.w j).name none = none) ∧ (∀ d, dl = some d → sn.now < d)

theorem isDone_iff (t : DTask) : isDone t = true ↔ ∃ f, t.ph = .done f := by
  unfold isDone
  constructor
  · intro h; split at h
    · rename_i f hf; exact ⟨f, hf⟩
    · simp at h
  · rintro ⟨f, hf⟩; simp [hf]

theorem snapOK_mono (s s' : St) (hm : Mono s s') (sn : Snap) (h : SnapOK s sn) : SnapOK s' sn := by
  refine ⟨fun i hi => ?_, Nat.le_trans h.wsLen hm.nw, fun j dl hj => ?_⟩
  · obtain ⟨f, hf⟩ := (isDone_iff _).1 (h.doneIs i hi)
    exact (isDone_iff _).2 ⟨f, hm.done i f hf⟩
  · have hjl : j < sn.ws.length := by
      by_cases hjl : j < sn.ws.length
      · exact hjl
      · rw [List.getElem?_eq_none (by omega)] at hj; simp at hj
    have hjn : j < s.nw := Nat.lt_of_lt_of_le hjl h.wsLen
    rw [hm.wname j hjn]; exact h.waiting j dl hj

theorem snapOK_mk (s : St) (hC : InvC s) (k : Nat) : SnapOK s (mkSnap s k) := by
  refine ⟨fun i hi => by rw [← mkSnap_done s hC k i]; exact hi, by simp [mkSnap], fun j dl hj => ?_⟩
  obtain ⟨hjn, hw⟩ := mkSnap_ws s k j _ hj
  have hph : (s.w j).ph = .waiting dl := by
    unfold wst at hw
    cases hp : (s.w j).ph <;> rw [hp] at hw <;> simp at hw
    rw [hw]
  refine ⟨fun hn => ?_, fun d hd => ?_⟩
  · rw [mkSnap_data s k _ hn]; exact hC.waitNone j dl hph
  · subst hd; exact (hC.deadline j d hph).1

/-- per name, how stored data moved from snapshot `p` to snapshot `q`, in machine terms -/
def storedStepM (s : St) (p q : Snap) : Prop := ∀ n, n < 3 →
  ((¬ ∃ i, q.done.getD i false = true ∧ p.done.getD i false = false ∧ (s.d i).name = n) →
      q.data.getD n none = p.data.getD n none) ∧
  ((∃ i, q.done.getD i false = true ∧ p.done.getD i false = false ∧ (s.d i).name = n) →
      ∃ i f, q.done.getD i false = true ∧ p.done.getD i false = false ∧ (s.d i).name = n ∧
        (s.d i).ph = .done f ∧ q.data.getD n none = some f)

def StoredM (s : St) : Snap → List Snap → Prop
  | _, [] => True
  | p, q :: r => storedStepM s p q ∧ StoredM s q r

def lastFrom (p : Snap) (l : List Snap) : Snap := l.getLast?.getD p

theorem storedM_snoc (s : St) (p : Snap) (l : List Snap) (q : Snap) :
    StoredM s p (l ++ [q]) ↔ StoredM s p l ∧ storedStepM s (lastFrom p l) q := by
  induction l generalizing p with
  | nil => simp [StoredM, lastFrom]
  | cons a l ih =>
    simp only [List.cons_append, StoredM, ih a, and_assoc]
    have : lastFrom p (a :: l) = lastFrom a l := by
      cases l with
      | nil => rfl
      | cons b l =>
        simp only [lastFrom, List.getLast?_cons_cons]
        cases h : (b :: l).getLast? with
        | none => simp at h
        | some x => rfl
    rw [this]


theorem lt_nd_of_isDone (s : St) (hC : InvC s) (i : Nat) (h : isDone (s.d i) = true) : i < s.nd := by
  obtain ⟨f, hf⟩ := (isDone_iff _).1 h
  exact lt_nd_of_not_absent s hC i (by rw [hf]; simp)

theorem storedStepM_mono (s s' : St) (hC : InvC s) (hm : Mono s s') (p q : Snap) (hq : SnapOK s q)
    (h : storedStepM s p q) : storedStepM s' p q := by
  have nm : ∀ i, q.done.getD i false = true → (s'.d i).name = (s.d i).name := fun i hi =>
    hm.dname i (lt_nd_of_isDone s hC i (hq.doneIs i hi))
  intro n hn
  obtain ⟨h1, h2⟩ := h n hn
  constructor
  · intro hne
    apply h1
    rintro ⟨i, a, b, c⟩
    exact hne ⟨i, a, b, by rw [nm i a]; exact c⟩
  · rintro ⟨i, a, b, c⟩
    obtain ⟨j, f, a', b', c', d', e'⟩ := h2 ⟨i, a, b, by rw [← nm i a]; exact c⟩
    exact ⟨j, f, a', b', by rw [nm j a']; exact c', hm.done j f d', e'⟩

theorem storedM_mono (s s' : St) (hC : InvC s) (hm : Mono s s') :
    ∀ (l : List Snap) (p : Snap), (∀ sn ∈ l, SnapOK s sn) → StoredM s p l → StoredM s' p l := by
  intro l
  induction l with
  | nil => intro p _ _; trivial
  | cons q l ih =>
    intro p hok h
    exact ⟨storedStepM_mono s s' hC hm p q (hok q (by simp)) h.1, ih q (fun sn hsn => hok sn (by simp [hsn])) h.2⟩

/-- driver state against the calls `pre` performed so far -/
structure DInv (sc : Nat → Script) (pre : List Op) (dv : Drv) : Prop where
  m : MInv sc pre dv.s
  k : dv.k = pre.length
  snapsOK : ∀ sn ∈ dv.snaps, SnapOK dv.s sn
  lastData : ∀ n, n < 3 → (lastFrom snap0 dv.snaps).data.getD n none = dv.s.data n
  lastDone : ∀ i, (lastFrom snap0 dv.snaps).done.getD i false = isDone (dv.s.d i)
  stored : StoredM dv.s snap0 dv.snaps

theorem dInv_init (sc : Nat → Script) : DInv sc [] drv0 := by
  refine ⟨⟨inv_init sc, invSnap_init, rfl, ?_, rfl, ?_, rfl, fun _ => rfl, ?_⟩, rfl, ?_, ?_, ?_, trivial⟩
  · intro i p hp; simp [dispList] at hp
  · intro j p hp; simp [waitList] at hp
  · intro i hi; simp [drv0, init, DPhase.started] at hi
  · intro sn hsn; simp [drv0] at hsn
  · intro n hn
    simp only [drv0, lastFrom, List.getLast?_nil, Option.getD_none, snap0, init]
    match n, hn with
    | 0, _ => rfl
    | 1, _ => rfl
    | 2, _ => rfl
  · intro i; simp [drv0, lastFrom, snap0, init, isDone]

/-- an API call: one event that neither stores data nor finishes a task; no snapshot -/
theorem dInv_api (sc : Nat → Script) (pre : List Op) (op : Op) (dv : Drv) (h : DInv sc pre dv) (s' : St)
    (hm' : MInv sc (pre ++ [op]) s') (hmono : Mono dv.s s') (hdata : s'.data = dv.s.data)
    (hdone : ∀ i, isDone (s'.d i) = isDone (dv.s.d i)) (dv' : Drv) (hs : dv'.s = s') (hk : dv'.k = dv.k + 1)
    (hsn : dv'.snaps = dv.snaps) : DInv sc (pre ++ [op]) dv' := by
  refine ⟨by rw [hs]; exact hm', by rw [hk, h.k]; simp, ?_, ?_, ?_, ?_⟩
  · intro sn hsn'; rw [hsn] at hsn'; rw [hs]; exact snapOK_mono dv.s s' hmono sn (h.snapsOK sn hsn')
  · intro n hn; rw [hsn, hs, hdata]; exact h.lastData n hn
  · intro i; rw [hsn, hs, hdone]; exact h.lastDone i
  · rw [hsn, hs]; exact storedM_mono dv.s s' h.m.inv.c hmono _ _ h.snapsOK h.stored

/-- a loop run (or a clock move): from `dv.s` to `s'`, then a snapshot of `s'` -/
theorem dInv_snap (sc : Nat → Script) (pre : List Op) (op : Op) (dv : Drv) (h : DInv sc pre dv) (s' : St)
    (hm' : MInv sc (pre ++ [op]) s') (hmono : Mono dv.s s') (hrel : DataRel dv.s s') (dv' : Drv) (hs : dv'.s = s')
    (hk : dv'.k = dv.k + 1) (hsn : dv'.snaps = dv.snaps ++ [mkSnap s' dv.k]) : DInv sc (pre ++ [op]) dv' := by
  have hC' := hm'.inv.c
  have hlast : lastFrom snap0 (dv.snaps ++ [mkSnap s' dv.k]) = mkSnap s' dv.k := by simp [lastFrom]
  refine ⟨by rw [hs]; exact hm', by rw [hk, h.k]; simp, ?_, ?_, ?_, ?_⟩
  · intro sn hsn'
    rw [hsn] at hsn'; rw [hs]
    rcases List.mem_append.1 hsn' with hold | hnew
    · exact snapOK_mono dv.s s' hmono sn (h.snapsOK sn hold)
    · simp only [List.mem_singleton] at hnew; subst hnew; exact snapOK_mk s' hC' dv.k
  · intro n hn; rw [hsn, hs, hlast]; exact mkSnap_data s' dv.k n hn
  · intro i; rw [hsn, hs, hlast]; exact mkSnap_done s' hC' dv.k i
  · rw [hsn, hs, storedM_snoc]
    refine ⟨storedM_mono dv.s s' h.m.inv.c hmono _ _ h.snapsOK h.stored, ?_⟩
    -- the new loop run
    intro n hn
    have qd : ∀ i, (mkSnap s' dv.k).done.getD i false = isDone (s'.d i) := mkSnap_done s' hC' dv.k
    have qdata : (mkSnap s' dv.k).data.getD n none = s'.data n := mkSnap_data s' dv.k n hn
    have pd := h.lastDone
    have pdata := h.lastData n hn
    rcases hrel.perName n with ⟨r1, r2⟩ | ⟨j, f, r1, r2, r3, r4⟩
    · constructor
      · intro _; rw [qdata, pdata, r1]
      · rintro ⟨i, a, b, c⟩
        rw [qd] at a; rw [pd] at b
        have := r2 i (by rw [← hrel.names i]; exact c)
        rw [a, b] at this; simp at this
    · constructor
      · intro hne
        exact absurd ⟨j, by rw [qd]; exact isDone_of_done r3, by rw [pd]; exact r2, by rw [hrel.names j]; exact r1⟩ hne
      · intro _
        exact ⟨j, f, by rw [qd]; exact isDone_of_done r3, by rw [pd]; exact r2, by rw [hrel.names j]; exact r1, r3,
          by rw [qdata]; exact r4⟩


theorem dInv_doOp (sc : Nat → Script) (pre : List Op) (dv : Drv) (h : DInv sc pre dv) (op : Op) :
    DInv sc (pre ++ [op]) (doOp sc dv op) := by
  have hC := h.m.inv.c
  cases op with
  | sub n c =>
    exact dInv_api sc pre _ dv h (step sc dv.s (.subscribe n c)) (by simpa using mInv_sub sc pre dv.s h.m n c false)
      (mono_step sc dv.s hC _) rfl (fun _ => rfl) _ rfl rfl rfl
  | once n c =>
    exact dInv_api sc pre _ dv h (step sc dv.s (.subscribeOnce n c)) (by simpa using mInv_sub sc pre dv.s h.m n c true)
      (mono_step sc dv.s hC _) rfl (fun _ => rfl) _ rfl rfl rfl
  | unsub n c =>
    refine dInv_api sc pre _ dv h (step sc dv.s (.unsubCb n c)) (mInv_unsub sc pre dv.s h.m n c)
      (mono_step sc dv.s hC _) ?_ ?_ _ rfl rfl rfl
    · show (apply sc dv.s (.unsubCb n c)).data = _; simp only [apply]; split <;> rfl
    · intro i; show isDone ((apply sc dv.s (.unsubCb n c)).d i) = _; simp only [apply]; split <;> rfl
  | unsubo n x =>
    refine dInv_api sc pre _ dv h (step sc dv.s (.unsubOnce n x)) (mInv_unsubo sc pre dv.s h.m n x)
      (mono_step sc dv.s hC _) ?_ ?_ _ rfl rfl rfl
    · show (apply sc dv.s (.unsubOnce n x)).data = _; simp only [apply]; split <;> rfl
    · intro i; show isDone ((apply sc dv.s (.unsubOnce n x)).d i) = _; simp only [apply]; split <;> rfl
  | disp n v =>
    refine dInv_api sc pre _ dv h (step sc dv.s (.spawnDispatch n v)) (mInv_disp sc pre dv.s h.m n v)
      (mono_step sc dv.s hC _) rfl ?_ _ rfl rfl rfl
    intro i
    show isDone (upd dv.s.d dv.s.nd _ i) = _
    by_cases e : i = dv.s.nd
    · subst e; simp [isDone, hC.dAbsent _ (Nat.le_refl _)]
    · rw [upd_other _ _ _ _ e]
  | get n t =>
    exact dInv_api sc pre _ dv h (step sc dv.s (.spawnWait n t)) (mInv_get sc pre dv.s h.m n t)
      (mono_step sc dv.s hC _) rfl (fun _ => rfl) _ rfl rfl rfl
  | rel i =>
    exact dInv_api sc pre _ dv h dv.s (mInv_extend_quiet sc pre _ dv.s h.m rfl rfl rfl (fun _ _ => rfl))
      (mono_refl _) rfl (fun _ => rfl) _ rfl rfl rfl
  | settle =>
    have hm := settle_mInv sc pre 10000 dv.s dv.ready h.m
    have hr := settle_rel sc pre 10000 dv.s dv.ready h.m
    exact dInv_snap sc pre _ dv h (settle sc 10000 dv.s dv.ready)
      (mInv_extend_quiet sc pre _ _ hm rfl rfl rfl (fun _ _ => rfl)) hr.2 hr.1 _ rfl rfl rfl
  | adv t =>
    have hm := mInv_advance sc pre dv.s h.m t
    have hsame : (step sc dv.s (.advance t)).d = dv.s.d ∧ (step sc dv.s (.advance t)).data = dv.s.data := by
      show (advance dv.s t).d = _ ∧ (advance dv.s t).data = _
      unfold advance; split <;> exact ⟨rfl, rfl⟩
    exact dInv_snap sc pre _ dv h (step sc dv.s (.advance t))
      (mInv_extend_quiet sc pre _ _ hm rfl rfl rfl (fun _ _ => rfl)) (mono_step sc dv.s hC _)
      (dataRel_same sc dv.s dv.s _ (dataRel_refl _) hsame.1 hsame.2) _ rfl rfl rfl

theorem snoc_ind {α : Type} {P : List α → Prop} (nil : P [])
    (snoc : ∀ xs x, P xs → P (xs ++ [x])) : ∀ xs, P xs := by
  have h : ∀ ys : List α, P ys.reverse := by
    intro ys
    induction ys with
    | nil => simpa using nil
    | cons y ys ih => simpa [List.reverse_cons] using snoc _ y ih
  intro xs
  simpa using h xs.reverse

theorem runOps_dInv (sc : Nat → Script) (ops : List Op) : DInv sc ops (runOps sc ops) := by
  induction ops using snoc_ind with
  | nil => exact dInv_init sc
  | snoc pre op ih =>
    have : runOps sc (pre ++ [op]) = doOp sc (runOps sc pre) op := by simp [runOps, List.foldl_append]
    rw [this]; exact dInv_doOp sc pre _ ih op

end PlumVerif.C13

import PlumVerif.Model.VersionsOverlap
import PlumVerif.Proofs.Versions
/-
Helper lemmas for the overlap machine of C15: a task that runs alone does what the sequential
model `process` does; ownership of queued requests.
-/
namespace PlumVerif.C15.Overlap
open PlumVerif.C15

@[simp] theorem upd_same {α : Type} (f : Nat → α) (i : Nat) (v : α) : upd f i v i = v := by simp [upd]
theorem upd_other {α : Type} (f : Nat → α) (i j : Nat) (v : α) (h : j ≠ i) : upd f i v j = f j := by
  simp [upd, h]

/-- task `a` moves `n` times in a row -/
def moves (s : OSt) (a : Nat) : Nat → OSt
  | 0 => s
  | n + 1 => moves (move s a) a n

theorem move_done (s : OSt) (a : Nat) (h : (s.t a).ph = .done ∨ (s.t a).ph = .raised) : move s a = s := by
  rcases h with h | h <;> simp [move, h]

theorem moves_done (s : OSt) (a : Nat) (n : Nat) (h : (s.t a).ph = .done ∨ (s.t a).ph = .raised) :
    moves s a n = s := by
  induction n with
  | zero => rfl
  | succ n ih => simp only [moves, move_done s a h]; exact ih

/-- a task whose next steps are "scan `rest`" and that is moved at least `rest.length` times
without anything else happening ends exactly as the sequential loop over `rest` does -/
theorem solo (a : Nat) : ∀ (rest : List Entry) (s : OSt) (n : Nat),
    (s.t a).ph = scan s.core rest → rest.length ≤ n →
    (moves s a n).queue = s.queue ++ (process s.core rest).queued ∧
    (moves s a n).core = (process s.core rest).st ∧
    ((moves s a n).t a).ph = (if (process s.core rest).raised then Phase.raised else Phase.done) ∧
    (∀ j, j ≠ a → (moves s a n).t j = s.t j) ∧ (moves s a n).nt = s.nt := by
  intro rest
  induction rest with
  | nil =>
    intro s n h _
    have hd : (s.t a).ph = .done := by simpa [scan] using h
    rw [moves_done s a n (Or.inl hd)]
    simp [process, hd]
  | cons e r ih =>
    intro s n h hn
    by_cases hne : needs s.core e = true
    · have hph : (s.t a).ph = .awaiting e r := by simpa [scan, hne] using h
      cases n with
      | zero => simp at hn
      | succ n =>
        have hn' : r.length ≤ n := by simpa using hn
        by_cases hc : creatable e.1 = true
        · -- resume: queue, record, scan on
          have hm : move s a = resumeOk s a e r := by simp [move, hph, hc]
          obtain ⟨i1, i2, i3, i4, i5⟩ := ih (move s a) n (by rw [hm]; simp [resumeOk]) hn'
          simp only [moves, process, hne, hc, if_true]
          refine ⟨?_, ?_, ?_, ?_, ?_⟩
          · rw [i1, hm]; simp [resumeOk]
          · rw [i2, hm]; rfl
          · rw [i3, hm]; rfl
          · intro j hj; rw [i4 j hj, hm]; simp [resumeOk, upd_other _ _ _ _ hj]
          · rw [i5, hm]; rfl
        · have hc' : creatable e.1 = false := by simpa using hc
          have hm : move s a = resumeFail s a := by simp [move, hph, hc']
          simp only [moves, process, hne, hc', if_true, Bool.false_eq_true, if_false]
          rw [moves_done _ a n (Or.inr (by rw [hm]; simp [resumeFail])), hm]
          exact ⟨by simp [resumeFail], rfl, by simp [resumeFail], fun j hj => by simp [resumeFail, upd_other _ _ _ _ hj], rfl⟩
    · have hne' : needs s.core e = false := by simpa using hne
      have hph : (s.t a).ph = scan s.core r := by simpa [scan, hne'] using h
      have := ih s n hph (by simp at hn; omega)
      simpa [process, hne'] using this

/-! ### who queued what -/

abbrev keys' (es : List Entry) : List Nat := keys es

/-- the kinds a task may still queue -/
def pendingKeys (t : Task) : List Nat :=
  match t.ph with
  | .created => keys' t.entries
  | .awaiting e rest => e.1 :: keys' rest
  | _ => []

structure InvO (s : OSt) : Prop where
  queueOwners : s.queue = s.owners.map (·.2)
  ownersNodup : s.owners.Nodup
  ownerTask : ∀ p ∈ s.owners, p.1 < s.nt ∧ p.2 ∈ keys' (s.t p.1).entries
  ownerNotPending : ∀ p ∈ s.owners, p.2 ∉ pendingKeys (s.t p.1)
  pendingNodup : ∀ a, (pendingKeys (s.t a)).Nodup
  pendingSub : ∀ a, ∀ k ∈ pendingKeys (s.t a), k ∈ keys' (s.t a).entries
  absent : ∀ a, s.nt ≤ a → (s.t a).ph = .absent

theorem invO_init : InvO init := by
  constructor <;> intros <;> simp_all [init, pendingKeys]

theorem scan_ne_absent (c : St) (rest : List Entry) : scan c rest ≠ .absent := by
  induction rest with
  | nil => simp [scan]
  | cons e r ih => simp only [scan]; split <;> simp_all

theorem pendingKeys_scan (t : Task) (c : St) (rest : List Entry) :
    (pendingKeys { t with ph := scan c rest }).Sublist (keys rest) := by
  induction rest with
  | nil => simp [scan, pendingKeys, keys]
  | cons e r ih =>
    by_cases h : needs c e = true
    · simp [scan, h, pendingKeys, keys]
    · have h' : needs c e = false := by simpa using h
      simp only [scan, h', Bool.false_eq_true, if_false]
      exact List.Sublist.cons _ ih

theorem lt_nt_of_not_absent (s : OSt) (h : InvO s) (a : Nat) (hab : (s.t a).ph ≠ .absent) : a < s.nt := by
  by_cases hi : a < s.nt
  · exact hi
  · exact absurd (h.absent a (by omega)) hab

/-- replacing task `a` by a task with the same entries whose pending kinds shrink -/
theorem invO_shrink (s : OSt) (h : InvO s) (a : Nat) (t' : Task) (he : t'.entries = (s.t a).entries)
    (hsub : (pendingKeys t').Sublist (pendingKeys (s.t a))) (hab : (s.t a).ph ≠ .absent) (hab' : t'.ph ≠ .absent) :
    InvO { s with t := upd s.t a t' } := by
  constructor
  · exact h.queueOwners
  · exact h.ownersNodup
  · intro p hp
    obtain ⟨h1, h2⟩ := h.ownerTask p hp
    refine ⟨h1, ?_⟩
    by_cases e : p.1 = a
    · simp only [e, upd_same, he]; rw [← e]; exact h2
    · simp only [upd_other _ _ _ _ e]; exact h2
  · intro p hp
    by_cases e : p.1 = a
    · simp only [e, upd_same]
      intro hm; exact h.ownerNotPending p hp (by rw [e]; exact hsub.subset hm)
    · simp only [upd_other _ _ _ _ e]; exact h.ownerNotPending p hp
  · intro j
    by_cases e : j = a
    · subst e; simp only [upd_same]; exact hsub.nodup (h.pendingNodup j)
    · simp only [upd_other _ _ _ _ e]; exact h.pendingNodup j
  · intro j k hk
    by_cases e : j = a
    · subst e; simp only [upd_same] at hk ⊢; rw [he]; exact h.pendingSub j k (hsub.subset hk)
    · simp only [upd_other _ _ _ _ e] at hk ⊢; exact h.pendingSub j k hk
  · intro j hj
    have hj' : s.nt ≤ j := hj
    by_cases e : j = a
    · subst e; exact absurd (h.absent j hj') hab
    · simp only [upd_other _ _ _ _ e]; exact h.absent j hj'

theorem invO_move (s : OSt) (h : InvO s) (a : Nat) : InvO (move s a) := by
  unfold move
  split
  · rename_i hph
    refine invO_shrink s h a _ rfl ?_ (by rw [hph]; simp) ?_
    · have := pendingKeys_scan (s.t a) s.core (s.t a).entries
      simpa [pendingKeys, hph] using this
    · exact scan_ne_absent _ _
  · rename_i e rest hph
    have hpend : pendingKeys (s.t a) = e.1 :: keys rest := by simp [pendingKeys, hph]
    have hnd := h.pendingNodup a
    rw [hpend, List.nodup_cons] at hnd
    split
    · -- queued and recorded
      have hlt := lt_nt_of_not_absent s h a (by rw [hph]; simp)
      have hnew : (a, e.1) ∉ s.owners := fun hm => h.ownerNotPending (a, e.1) hm (by simp [hpend])
      have hsubl : (pendingKeys { s.t a with ph := scan (record s.core e.1 e.2) rest, queued := (s.t a).queued ++ [e.1] }).Sublist
          (keys rest) := by
        have := pendingKeys_scan { s.t a with queued := (s.t a).queued ++ [e.1] } (record s.core e.1 e.2) rest
        simpa using this
      have base := invO_shrink s h a
        { s.t a with ph := scan (record s.core e.1 e.2) rest, queued := (s.t a).queued ++ [e.1] } rfl
        (by rw [hpend]; exact List.Sublist.cons _ hsubl) (by rw [hph]; simp)
        (scan_ne_absent _ _)
      simp only [resumeOk]
      constructor
      · simp [h.queueOwners]
      · rw [List.nodup_append]
        exact ⟨h.ownersNodup, by simp, fun x hx y hy => by simp at hy; subst hy; exact fun e' => hnew (e' ▸ hx)⟩
      · intro p hp
        rcases List.mem_append.1 hp with hp | hp
        · exact base.ownerTask p hp
        · simp only [List.mem_singleton] at hp; subst hp
          exact ⟨hlt, by simp only [upd_same]; exact h.pendingSub a e.1 (by simp [hpend])⟩
      · intro p hp
        rcases List.mem_append.1 hp with hp | hp
        · exact base.ownerNotPending p hp
        · simp only [List.mem_singleton] at hp; subst hp
          simp only [upd_same]
          intro hm; exact hnd.1 (hsubl.subset hm)
      · exact base.pendingNodup
      · exact base.pendingSub
      · exact base.absent
    · exact invO_shrink s h a _ rfl (by simp [pendingKeys]) (by rw [hph]; simp) (by simp)
  · exact h

theorem invO_step (s : OSt) (h : InvO s) (e : Ev) : InvO (step s e) := by
  cases e with
  | move a => exact invO_move s h a
  | errors ks => exact ⟨h.queueOwners, h.ownersNodup, h.ownerTask, h.ownerNotPending, h.pendingNodup, h.pendingSub, h.absent⟩
  | announce w =>
    have hab := h.absent s.nt (Nat.le_refl _)
    simp only [step]
    constructor
    · exact h.queueOwners
    · exact h.ownersNodup
    · intro p hp
      obtain ⟨h1, h2⟩ := h.ownerTask p hp
      have e : p.1 ≠ s.nt := by omega
      exact ⟨by show p.1 < s.nt + 1; omega, by simp only [upd_other _ _ _ _ e]; exact h2⟩
    · intro p hp
      have e : p.1 ≠ s.nt := by have := (h.ownerTask p hp).1; omega
      simp only [upd_other _ _ _ _ e]; exact h.ownerNotPending p hp
    · intro j
      by_cases e : j = s.nt
      · subst e; simp only [upd_same, pendingKeys]; exact dictOf_keys_nodup' w
      · simp only [upd_other _ _ _ _ e]; exact h.pendingNodup j
    · intro j k hk
      by_cases e : j = s.nt
      · subst e; simpa [pendingKeys] using hk
      · simp only [upd_other _ _ _ _ e] at hk ⊢; exact h.pendingSub j k hk
    · intro j hj
      have hj' : s.nt + 1 ≤ j := hj
      have e : j ≠ s.nt := by omega
      simp only [upd_other _ _ _ _ e]; exact h.absent j (by omega)

theorem invO_run (evs : List Ev) : ∀ s, InvO s → InvO (run s evs) := by
  induction evs with
  | nil => intro s h; exact h
  | cons e es ih => intro s h; exact ih _ (invO_step s h e)

/-- pigeonhole: a duplicate-free list of numbers below `k` has at most `k` elements -/
theorem nodup_lt_length (k : Nat) : ∀ l : List Nat, l.Nodup → (∀ x ∈ l, x < k) → l.length ≤ k := by
  induction k with
  | zero => intro l _ h; cases l with
    | nil => simp
    | cons a l => exact absurd (h a (by simp)) (by omega)
  | succ k ih =>
    intro l hnd h
    have hf : (l.filter (· != k)).length ≤ k :=
      ih _ ((List.filter_sublist).nodup hnd) (by
        intro x hx
        simp only [List.mem_filter, bne_iff_ne, ne_eq] at hx
        have := h x hx.1; omega)
    have hc : (l.filter (· == k)).length ≤ 1 := by
      clear hf ih h
      induction l with
      | nil => simp
      | cons b l ihl =>
        simp only [List.nodup_cons] at hnd
        simp only [List.filter_cons]
        by_cases e : (b == k) = true
        · have hb : b = k := by simpa using e
          have : l.filter (· == k) = [] := by
            apply List.filter_eq_nil_iff.2
            intro x hx hxa
            have : x = k := by simpa using hxa
            exact hnd.1 (by rw [hb, ← this]; exact hx)
          simp [e, this]
        · simp only [e, Bool.false_eq_true, if_false]; exact ihl hnd.2
    have hsplit : l.length = (l.filter (· == k)).length + (l.filter (· != k)).length := by
      clear hf hc ih h hnd
      induction l with
      | nil => rfl
      | cons b l ihl =>
        by_cases e : (b == k) = true
        · simp [List.filter_cons, e, bne, ihl]; omega
        · simp [List.filter_cons, e, bne, ihl]; omega
    omega


/-- pairs with the same second component are distinct iff their first components are -/
theorem nodup_map_fst (l : List (Nat × Nat)) (k : Nat) (h : l.Nodup) (hk : ∀ x ∈ l, x.2 = k) :
    (l.map (·.1)).Nodup := by
  induction l with
  | nil => simp
  | cons p l ih =>
    simp only [List.nodup_cons, List.map_cons] at h ⊢
    refine ⟨?_, ih h.2 (fun x hx => hk x (by simp [hx]))⟩
    intro hm
    obtain ⟨q, hq, hq1⟩ := List.mem_map.1 hm
    have : q = p := Prod.ext hq1 (by rw [hk q (by simp [hq]), hk p (by simp)])
    exact h.1 (this ▸ hq)

end PlumVerif.C15.Overlap

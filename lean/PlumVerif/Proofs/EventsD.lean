import PlumVerif.Proofs.EventsA
/-
C13 invariant, part D: what a dispatch task awaited (order, threading, stored value).
-/
namespace PlumVerif.C13

abbrev Trail := List (Sub × Option Nat)

/-- the dispatch value after the handled entries, starting from `v`: an awaited callback's
return value replaces it (None keeps it), a skipped once-wrapper leaves it -/
def valueAfter (sc : Nat → Script) (v : Nat) : Trail → Nat
  | [] => v
  | (x, some _) :: r => valueAfter sc ((sc x.cb).ret.apply v) r
  | (_, none) :: r => valueAfter sc v r

/-- every awaited entry received the value produced by the entries before it -/
def Threaded (sc : Nat → Script) (v : Nat) : Trail → Prop
  | [] => True
  | (x, some a) :: r => a = v ∧ Threaded sc ((sc x.cb).ret.apply v) r
  | (_, none) :: r => Threaded sc v r

/-- the entries that were awaited, with the value each received -/
def awaited (t : Trail) : List (Sub × Nat) := t.filterMap fun p => p.2.map fun v => (p.1, v)

theorem valueAfter_snoc (sc : Nat → Script) (v : Nat) (t : Trail) (x : Sub) (o : Option Nat) :
    valueAfter sc v (t ++ [(x, o)]) =
      match o with
      | some _ => (sc x.cb).ret.apply (valueAfter sc v t)
      | none => valueAfter sc v t := by
  induction t generalizing v with
  | nil => cases o <;> rfl
  | cons p t ih =>
    obtain ⟨y, oy⟩ := p
    cases oy <;> simp only [List.cons_append, valueAfter, ih]

theorem threaded_snoc (sc : Nat → Script) (v : Nat) (t : Trail) (x : Sub) (o : Option Nat) :
    Threaded sc v (t ++ [(x, o)]) ↔
      Threaded sc v t ∧ ∀ a, o = some a → a = valueAfter sc v t := by
  induction t generalizing v with
  | nil => cases o <;> simp [Threaded, valueAfter]
  | cons p t ih =>
    obtain ⟨y, oy⟩ := p
    cases oy <;> simp only [List.cons_append, Threaded, valueAfter, ih, and_assoc]

theorem awaited_snoc (t : Trail) (x : Sub) (o : Option Nat) :
    awaited (t ++ [(x, o)]) = awaited t ++ match o with | some v => [(x, v)] | none => [] := by
  simp only [awaited, List.filterMap_append]
  cases o <;> rfl

def shapeOK (sc : Nat → Script) (t : DTask) : Prop :=
  match t.ph with
  | .absent => t.trail = []
  | .created => t.trail = []
  | .running => True
  | .inCb rest u _ val => t.trail.map (·.1) ++ rest = t.snapshot ∧ ∃ t', t.trail = t' ++ [(u, some val)]
  | .done f => t.trail.map (·.1) = t.snapshot ∧ f = valueAfter sc t.init t.trail

structure TaskOK (sc : Nat → Script) (s : St) (i : Nat) : Prop where
  shape : shapeOK sc (s.d i)
  skipped : ∀ x, (x, none) ∈ (s.d i).trail → x.once = true
  threaded : Threaded sc (s.d i).init (s.d i).trail
  logOf : (s.log.filter (·.task == i)).map (fun e => (e.sub, e.val)) = awaited (s.d i).trail

def InvD (sc : Nat → Script) (s : St) : Prop := ∀ i, TaskOK sc s i

theorem invD_init (sc : Nat → Script) : InvD sc init := by
  intro i
  constructor <;> simp [init, shapeOK, Threaded, awaited]

/-- a state change that leaves task `j` alone and appends only log entries of other tasks -/
theorem taskOK_frame (sc : Nat → Script) (s s' : St) (j : Nat) (h : TaskOK sc s j)
    (hd : s'.d j = s.d j) (extra : List LogE) (hl : s'.log = s.log ++ extra) (he : ∀ e ∈ extra, e.task ≠ j) :
    TaskOK sc s' j := by
  have hf : s'.log.filter (·.task == j) = s.log.filter (·.task == j) := by
    rw [hl, List.filter_append]
    have : extra.filter (·.task == j) = [] := by
      apply List.filter_eq_nil_iff.2
      intro e hee; simpa using he e hee
    rw [this, List.append_nil]
  exact ⟨by rw [hd]; exact h.shape, by rw [hd]; exact h.skipped, by rw [hd]; exact h.threaded,
    by rw [hf, hd]; exact h.logOf⟩

theorem walk_frame (sc : Nat → Script) (i name : Nat) (rest : List Sub) :
    ∀ (s : St) (val : Nat), (∀ j, j ≠ i → (walk sc i name s rest val).d j = s.d j) ∧
      ∃ extra, (walk sc i name s rest val).log = s.log ++ extra ∧ ∀ e ∈ extra, e.task = i := by
  induction rest with
  | nil =>
    intro s val
    exact ⟨fun j hj => by simp [walk, storeSt, upd_other _ _ _ _ hj], [], by simp [walk, storeSt], by simp⟩
  | cons u rest ih =>
    intro s val
    unfold walk
    split
    · obtain ⟨h1, extra, h2, h3⟩ := ih (skipSt s i u) val
      exact ⟨fun j hj => by rw [h1 j hj]; simp [skipSt, upd_other _ _ _ _ hj], extra, by rw [h2]; rfl, h3⟩
    · split
      · obtain ⟨h1, extra, h2, h3⟩ := ih (invokeSt s i name u val) ((sc u.cb).ret.apply val)
        refine ⟨fun j hj => by rw [h1 j hj]; simp [invokeSt, upd_other _ _ _ _ hj], ⟨i, u, val⟩ :: extra, ?_, ?_⟩
        · rw [h2]; simp [invokeSt]
        · intro e he
          rcases List.mem_cons.1 he with rfl | he
          · rfl
          · exact h3 e he
      · refine ⟨fun j hj => by simp [suspendSt, invokeSt, upd_other _ _ _ _ hj], [⟨i, u, val⟩], ?_, ?_⟩
        · simp [suspendSt, invokeSt]
        · intro e he; simp at he; rw [he]


theorem walk_taskOK (sc : Nat → Script) (i name : Nat) (rest : List Sub) :
    ∀ (s : St) (val : Nat), (s.d i).ph = .running →
      (∀ x, (x, none) ∈ (s.d i).trail → x.once = true) →
      Threaded sc (s.d i).init (s.d i).trail →
      (s.log.filter (·.task == i)).map (fun e => (e.sub, e.val)) = awaited (s.d i).trail →
      (s.d i).trail.map (·.1) ++ rest = (s.d i).snapshot →
      val = valueAfter sc (s.d i).init (s.d i).trail →
      TaskOK sc (walk sc i name s rest val) i := by
  induction rest with
  | nil =>
    intro s val hph hsk hth hlog h1 h2
    simp only [walk, storeSt]
    constructor
    · simp only [shapeOK, upd_same]; exact ⟨by simpa using h1, h2⟩
    · simpa using hsk
    · simpa using hth
    · simpa using hlog
  | cons u rest ih =>
    intro s val hph hsk hth hlog h1 h2
    unfold walk
    split
    · rename_i hg
      have ho : u.once = true := by
        simp only [gone, Bool.and_eq_true] at hg; exact hg.1
      apply ih
      · simpa [skipSt] using hph
      · intro x hx
        simp only [skipSt, upd_same, List.mem_append, List.mem_singleton, Prod.mk.injEq] at hx
        rcases hx with hx | ⟨rfl, _⟩
        · exact hsk x hx
        · exact ho
      · simp only [skipSt, upd_same]; rw [threaded_snoc]; exact ⟨hth, by simp⟩
      · simp only [skipSt, upd_same]; rw [awaited_snoc]; simpa using hlog
      · simp only [skipSt, upd_same, List.map_append, List.map_cons, List.map_nil, List.append_assoc,
          List.singleton_append]; exact h1
      · simp only [skipSt, upd_same]; rw [valueAfter_snoc]; exact h2
    · have hph' : ((invokeSt s i name u val).d i).ph = .running := by simpa [invokeSt] using hph
      have hsk' : ∀ x, (x, none) ∈ ((invokeSt s i name u val).d i).trail → x.once = true := by
        intro x hx
        simp only [invokeSt, upd_same, List.mem_append, List.mem_singleton, Prod.mk.injEq] at hx
        rcases hx with hx | ⟨_, hx⟩
        · exact hsk x hx
        · simp at hx
      have hth' : Threaded sc ((invokeSt s i name u val).d i).init ((invokeSt s i name u val).d i).trail := by
        simp only [invokeSt, upd_same]; rw [threaded_snoc]
        exact ⟨hth, by intro a ha; simp at ha; rw [← ha]; exact h2⟩
      have hlog' : ((invokeSt s i name u val).log.filter (·.task == i)).map (fun e => (e.sub, e.val)) =
          awaited ((invokeSt s i name u val).d i).trail := by
        simp only [invokeSt, upd_same]; rw [awaited_snoc]
        simp [List.filter_append, hlog]
      have h1' : ((invokeSt s i name u val).d i).trail.map (·.1) ++ rest = ((invokeSt s i name u val).d i).snapshot := by
        simp only [invokeSt, upd_same, List.map_append, List.map_cons, List.map_nil, List.append_assoc,
          List.singleton_append]; exact h1
      split
      · apply ih _ _ hph' hsk' hth' hlog' h1'
        simp only [invokeSt, upd_same]; rw [valueAfter_snoc]; simp only; rw [← h2]
      · simp only [suspendSt]
        constructor
        · simp only [shapeOK, upd_same]
          exact ⟨h1', (s.d i).trail, by simp [invokeSt]⟩
        · simpa using hsk'
        · simpa using hth'
        · simpa using hlog'

theorem invD_walk (sc : Nat → Script) (i name : Nat) (rest : List Sub) (s : St) (val : Nat) (h : InvD sc s)
    (hph : (s.d i).ph = .running)
    (h1 : (s.d i).trail.map (·.1) ++ rest = (s.d i).snapshot)
    (h2 : val = valueAfter sc (s.d i).init (s.d i).trail) :
    InvD sc (walk sc i name s rest val) := by
  intro j
  by_cases e : j = i
  · subst e
    exact walk_taskOK sc j name rest s val hph (h j).skipped (h j).threaded (h j).logOf h1 h2
  · obtain ⟨f1, extra, f2, f3⟩ := walk_frame sc i name rest s val
    exact taskOK_frame sc s _ j (h j) (f1 j e) extra f2 (fun x hx => by rw [f3 x hx]; exact fun e' => e e'.symm)

/-- replacing task `i` (same init and trail) without touching the log -/
theorem invD_updD (sc : Nat → Script) (s : St) (h : InvD sc s) (i : Nat) (t : DTask)
    (hinit : t.init = (s.d i).init) (htrail : t.trail = (s.d i).trail) (hshape : shapeOK sc t) :
    InvD sc { s with d := upd s.d i t } := by
  intro j
  by_cases e : j = i
  · subst e
    exact ⟨by simpa using hshape, by simpa [htrail] using (h j).skipped,
      by simpa [htrail, hinit] using (h j).threaded, by simpa [htrail] using (h j).logOf⟩
  · exact taskOK_frame sc s _ j (h j) (by simp [upd_other _ _ _ _ e]) [] (by simp) (by simp)

theorem invD_stepD (sc : Nat → Script) (s : St) (h : InvD sc s) (i : Nat) : InvD sc (stepD sc s i) := by
  unfold stepD
  split
  · rename_i hph
    have hsh := (h i).shape
    simp only [shapeOK, hph] at hsh
    have h0 := invD_updD sc s h i
      { s.d i with snapshot := s.subs (s.d i).name, startedAt := s.clock, ph := .running } rfl rfl
      (by simp [shapeOK])
    exact invD_walk sc i _ _ _ _ h0 (by simp) (by simp [hsh]) (by simp [hsh, valueAfter])
  · rename_i rest u k val hph
    have hsh := (h i).shape
    simp only [shapeOK, hph] at hsh
    exact invD_updD sc s h i _ rfl rfl (by simpa [shapeOK] using hsh)
  · rename_i rest u val hph
    have hsh := (h i).shape
    simp only [shapeOK, hph] at hsh
    obtain ⟨hs1, t', ht'⟩ := hsh
    have hth := (h i).threaded
    rw [ht', threaded_snoc] at hth
    have h0 := invD_updD sc s h i { s.d i with ph := .running } rfl rfl (by simp [shapeOK])
    refine invD_walk sc i _ _ _ _ h0 (by simp) (by simpa using hs1) ?_
    simp only [upd_same]
    rw [ht', valueAfter_snoc]
    simp only
    rw [← hth.2 val rfl]
  · exact h

theorem invD_frame (sc : Nat → Script) (s s' : St) (h : InvD sc s) (hd : s'.d = s.d) (hl : s'.log = s.log) :
    InvD sc s' := fun j =>
  taskOK_frame sc s s' j (h j) (by rw [hd]) [] (by simp [hl]) (by simp)

theorem invD_apply (sc : Nat → Script) (s : St) (h : InvD sc s) (hA : InvA s) (e : Ev) : InvD sc (apply sc s e) := by
  cases e with
  | subscribe n cb => exact invD_frame sc s _ h rfl rfl
  | subscribeOnce n cb => exact invD_frame sc s _ h rfl rfl
  | unsubCb n cb =>
    simp only [apply]; split
    · exact invD_frame sc s _ h rfl rfl
    · exact invD_frame sc s _ h rfl rfl
  | unsubOnce n sid =>
    simp only [apply]; split
    · exact invD_frame sc s _ h rfl rfl
    · exact h
  | spawnDispatch n v =>
    have hab := hA.dAbsent s.nd (Nat.le_refl _)
    have hsh := (h s.nd).shape
    simp only [shapeOK, hab] at hsh
    have hlog := (h s.nd).logOf
    rw [hsh] at hlog
    intro j
    by_cases e : j = s.nd
    · subst e
      constructor
      · simp [apply, shapeOK]
      · simp [apply]
      · simp [apply, Threaded]
      · simpa [apply, awaited] using hlog
    · exact taskOK_frame sc s _ j (h j) (by simp [apply, upd_other _ _ _ _ e]) [] (by simp [apply]) (by simp)
  | spawnWait n to => exact invD_frame sc s _ h rfl rfl
  | stepD i => exact invD_stepD sc s h i
  | stepW j =>
    simp only [apply, stepW]
    split
    · split
      · exact invD_frame sc s _ h rfl rfl
      · split <;> exact invD_frame sc s _ h rfl rfl
    · exact invD_frame sc s _ h rfl rfl
    · exact h
  | advance t =>
    simp only [apply, advance]
    split
    · exact h
    · exact invD_frame sc s _ h rfl rfl

theorem invD_step (sc : Nat → Script) (s : St) (h : InvD sc s) (hA : InvA s) (e : Ev) : InvD sc (step sc s e) :=
  invD_frame sc _ _ (invD_apply sc s h hA e) rfl rfl

end PlumVerif.C13

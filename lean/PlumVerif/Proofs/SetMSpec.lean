import PlumVerif.Spec.C08
import PlumVerif.Proofs.SetM
/-
Simulation between the C08 machine and the monitor of `C08.spec`: whatever the machine does is
accepted by the monitor (used for `C08.holds`).
-/
namespace PlumVerif.C08
open PlumVerif.SetM

/-- the call is in progress and the monitor `m` has seen exactly what the machine `s` has done -/
structure Running (s : St) (m : Mon) (c : Call) : Prop where
  call : m.call = some c
  v : c.v = s.req
  T : c.T = s.timeout
  prev : c.prev = s.prev
  ne : c.v ≠ c.prev
  notReturned : m.returned = false
  confirmed : m.confirmed = !s.pending
  openSet : m.openSet = awaiting s
  trk : m.tracking = s.tracking
  time : ∀ l, m.lastTx = some l → l + s.timeout ≤ lb s

def Count (s : St) (m : Mon) (c : Call) : Prop :=
  match s.phase with
  | .buildSet => m.nTx + s.retries = c.r ∧ 1 ≤ s.retries ∧ s.cap = s.req
  | .buildRefresh => m.nTx + s.retries = c.r + 1 ∧ 1 ≤ s.retries
  | .sleeping => m.nTx + s.retries = c.r + 1 ∧ 1 ≤ s.retries
  | _ => False

def Rel (s : St) (m : Mon) : Prop :=
  match s.phase with
  | .idle => m = Mon.init s.tracking s.loc
  | .done => m.returned = true
  | _ => ∃ c, Running s m c ∧ Count s m c

/-- entering the loop: everything the top of the loop may do is accepted -/
theorem loopTop_sim (s : St) (m : Mon) (c : Call)
    (hcall : m.call = some c) (hv : c.v = s.req) (hT : c.T = s.timeout) (hprev : c.prev = s.prev)
    (hne : c.v ≠ c.prev) (hnr : m.returned = false) (hconf : m.confirmed = !s.pending)
    (hopen : m.openSet = false) (htrk : m.tracking = s.tracking) (hcnt : m.nTx + s.retries = c.r)
    (htime : ∀ l, m.lastTx = some l → l + s.timeout ≤ s.now) :
    ∃ m', onOuts m (loopTop s).2 = some m' ∧ Rel (loopTop s).1 m' := by
  unfold loopTop
  split
  · -- confirmed: return True
    rename_i hp
    have hp' : s.pending = false := by simpa using hp
    refine ⟨{ m with returned := true }, ?_, by simp [Rel]⟩
    simp [onOuts, onOut, hcall, hnr, hopen, hconf, hp']
  · split
    · -- no retries left: return False
      rename_i hp hz
      have hp' : s.pending = true := by simpa using hp
      refine ⟨{ m with returned := true }, ?_, by simp [Rel]⟩
      have : m.nTx = c.r := by omega
      simp [onOuts, onOut, hcall, hnr, hopen, hconf, hp', this]
    · rename_i hp hz
      have hp' : s.pending = true := by simpa using hp
      split
      · -- request construction suspends
        refine ⟨m, by simp [onOuts], ?_⟩
        simp only [Rel, attempt]
        refine ⟨c, ⟨hcall, hv, hT, hprev, hne, hnr, by simpa using hconf, by simp [awaiting, hopen],
          htrk, by simpa [lb] using htime⟩, ?_⟩
        simp only [Count]
        refine ⟨hcnt, by omega, ?_⟩
        first | rfl | trivial
      · have hlt : ¬ c.r ≤ m.nTx := by omega
        have htm : ∀ l, m.lastTx = some l → ¬ s.now < l + c.T := by
          intro l hl; have := htime l hl; rw [hT]; omega
        have htm' : tooEarly m.lastTx c.T s.now = false := by
          unfold tooEarly
          cases hl : m.lastTx with
          | none => rfl
          | some l => simpa using htm l hl
        split
        · -- versions tracked: set request only
          rename_i hh htr
          refine ⟨{ m with nTx := m.nTx + 1, lastTx := some s.now, openSet := false }, ?_, ?_⟩
          · simp [onOuts, onOut, hcall, hnr, hopen, attempt, hv, hlt, htm', htr, htrk]
          · simp only [Rel, goSleep, attempt]
            refine ⟨c, ⟨hcall, hv, hT, hprev, hne, hnr, by simpa using hconf, by simp [awaiting],
              htrk, ?_⟩, ?_⟩
            · intro l hl
              simp only [Option.some.injEq] at hl
              simp [lb, ← hl]
            · simp only [Count]; omega
        · -- versions not tracked: set request, then re-read request
          rename_i hh htr
          have htr' : s.tracking = false := by simpa using htr
          refine ⟨{ m with nTx := m.nTx + 1, lastTx := some s.now, openSet := false }, ?_, ?_⟩
          · simp [onOuts, onOut, hcall, hnr, hopen, attempt, hv, hlt, htm', htr', htrk]
          · simp only [Rel, goSleep, attempt]
            refine ⟨c, ⟨hcall, hv, hT, hprev, hne, hnr, by simpa using hconf, by simp [awaiting],
              htrk, ?_⟩, ?_⟩
            · intro l hl
              simp only [Option.some.injEq] at hl
              simp [lb, ← hl]
            · simp only [Count]; omega


theorem onEvent_returned (m : Mon) (e : Ev) (h : m.returned = true) : (onEvent m e).returned = true := by
  cases e <;> simp only [onEvent] <;> (repeat' split) <;> simp_all

theorem onOut_raise (m : Mon) (c : Call) (t : Nat) (hc : m.call = some c)
    (h1 : m.returned = false) (h2 : c.inRange = false) (h3 : m.nTx = 0) :
    onOut m (.raise t) = some { m with returned := true } := by
  simp [onOut, hc, h1, h2, h3]

theorem sim_idle (s : St) (m : Mon) (e : Ev) (hp : s.phase = .idle) (h : m = Mon.init s.tracking s.loc) :
    ∃ m', onOuts (onEvent m e) (step s e).2 = some m' ∧ Rel (step s e).1 m' := by
  subst h
  cases e with
  | built => exact ⟨Mon.init s.tracking s.loc, by simp [step, hp, onOuts, onEvent], by simp [step, hp, Rel]⟩
  | timer => exact ⟨Mon.init s.tracking s.loc, by simp [step, hp, onOuts, onEvent], by simp [step, hp, Rel]⟩
  | setTracking b =>
    exact ⟨Mon.init b s.loc, by simp [step, onOuts, onEvent, Mon.init], by simp [step, hp, Rel]⟩
  | wait d =>
    refine ⟨Mon.init s.tracking s.loc, by simp only [step]; split <;> simp [onOuts, onEvent], ?_⟩
    simp only [step]; split <;> simp [hp, Rel]
  | report t =>
    refine ⟨Mon.init s.tracking t, by simp [step, onOuts, onEvent, Mon.init], ?_⟩
    simp [step, update, hp, Rel, Mon.init]
  | call v r T =>
    rcases call_cases s hp v r T with ⟨h1, h2⟩ | ⟨h1, hr, h2⟩ | ⟨h1, hlo, hhi, h2⟩
    · rw [h2]
      refine ⟨{ (onEvent (Mon.init s.tracking s.loc) (.call v r T)) with returned := true }, ?_, by simp [Rel]⟩
      simp [onOuts, onOut, onEvent, Mon.init, h1]
    · rw [h2]
      refine ⟨{ (onEvent (Mon.init s.tracking s.loc) (.call v r T)) with returned := true }, ?_, by simp [Rel]⟩
      have hir : (decide (s.loc.min ≤ v) && decide (v ≤ s.loc.max)) = false := by
        rcases hr with hr | hr
        · have : ¬ s.loc.min ≤ v := by omega
          simp [this]
        · have : ¬ v ≤ s.loc.max := by omega
          simp [this]
      simp only [onOuts]
      rw [onOut_raise _ ⟨v, r, T, s.loc.value, decide (s.loc.min ≤ v) && decide (v ≤ s.loc.max)⟩ _ rfl rfl hir rfl]
    · rw [h2]
      have := loopTop_sim (arm s v r T) (onEvent (Mon.init s.tracking s.loc) (.call v r T))
        ⟨v, r, T, s.loc.value, decide (s.loc.min ≤ v) && decide (v ≤ s.loc.max)⟩
        rfl rfl rfl rfl h1 rfl rfl rfl rfl (by simp [onEvent, Mon.init, arm]) (by simp [onEvent, Mon.init])
      exact this

theorem sim_done (s : St) (m : Mon) (e : Ev) (hp : s.phase = .done) (h : m.returned = true) :
    ∃ m', onOuts (onEvent m e) (step s e).2 = some m' ∧ Rel (step s e).1 m' := by
  obtain ⟨h1, h2⟩ := done_step s e hp
  refine ⟨onEvent m e, by rw [h2]; rfl, ?_⟩
  simp only [Rel, h1]
  exact onEvent_returned m e h


def IsRunning (s : St) : Prop := s.phase = .buildSet ∨ s.phase = .buildRefresh ∨ s.phase = .sleeping

theorem rel_of_running (s : St) (m : Mon) (c : Call) (hph : IsRunning s) (hr : Running s m c)
    (hc : Count s m c) : Rel s m := by
  rcases hph with h | h | h <;> simp only [Rel, h] <;> exact ⟨c, hr, hc⟩

theorem tooEarly_false (m : Mon) (T t : Nat) (h : ∀ l, m.lastTx = some l → l + T ≤ t) :
    tooEarly m.lastTx T t = false := by
  unfold tooEarly
  cases hl : m.lastTx with
  | none => rfl
  | some l => have := h l hl; simp; omega

theorem sim_running (s : St) (m : Mon) (e : Ev) (c : Call) (hph : IsRunning s) (hr : Running s m c)
    (hc : Count s m c) :
    ∃ m', onOuts (onEvent m e) (step s e).2 = some m' ∧ Rel (step s e).1 m' := by
  have hni : s.phase ≠ .idle := by rcases hph with h | h | h <;> simp [h]
  cases e with
  | call v r T =>
    refine ⟨m, by simp [step, hni, onEvent, hr.call, onOuts], ?_⟩
    simp only [step, hni, ne_eq, not_false_eq_true, ↓reduceIte]
    exact rel_of_running s m c hph hr hc
  | wait d =>
    have hm : onEvent m (.wait d) = m := rfl
    simp only [step]
    split
    · exact ⟨m, by simp [hm, onOuts], rel_of_running s m c hph hr hc⟩
    · rename_i hw
      refine ⟨m, by simp [hm, onOuts], ?_⟩
      apply rel_of_running { s with now := s.now + d } m c hph
      · refine ⟨hr.call, hr.v, hr.T, hr.prev, hr.ne, hr.notReturned, hr.confirmed, hr.openSet, hr.trk, ?_⟩
        intro l hl
        have := hr.time l hl
        show l + s.timeout ≤ lb { s with now := s.now + d }
        rcases hph with h | h | h
        · simp only [lb, h] at this ⊢; omega
        · simp only [lb, h] at this ⊢; omega
        · simp only [lb, h] at this ⊢; exact this
      · exact hc
  | report t =>
    have hs : (step s (.report t)) = (update s t, []) := rfl
    rw [hs]
    have hphase : (update s t).phase = s.phase := rfl
    by_cases hv : t.value = s.prev
    · -- stale: nothing changes for the monitor
      have hm : onEvent m (.report t) = m := by
        simp [onEvent, hr.call, hr.prev, hv]
      have hpend : (update s t).pending = s.pending := by
        simp only [update, hv]; cases s.pending <;> simp
      refine ⟨m, by simp [hm, onOuts], ?_⟩
      apply rel_of_running _ m c (by simpa [IsRunning, hphase] using hph)
      · exact ⟨hr.call, hr.v, hr.T, hr.prev, hr.ne, hr.notReturned, by rw [hpend]; exact hr.confirmed,
          hr.openSet, hr.trk, hr.time⟩
      · exact hc
    · -- a value different from the previous one: confirmed
      have hm : onEvent m (.report t) = { m with confirmed := true } := by
        simp [onEvent, hr.call, hr.prev, hv, hr.notReturned]
      have hpend : (update s t).pending = false := by
        have : (s.prev != t.value) = true := by simpa using fun h => hv h.symm
        simp only [update, this]; cases s.pending <;> simp
      refine ⟨{ m with confirmed := true }, by simp [hm, onOuts], ?_⟩
      apply rel_of_running _ _ c (by simpa [IsRunning, hphase] using hph)
      · exact ⟨hr.call, hr.v, hr.T, hr.prev, hr.ne, hr.notReturned, by simp [hpend],
          hr.openSet, hr.trk, hr.time⟩
      · exact hc
  | setTracking b =>
    refine ⟨{ m with tracking := b }, by simp [step, onEvent, onOuts], ?_⟩
    apply rel_of_running { s with tracking := b } _ c hph
    · exact ⟨hr.call, hr.v, hr.T, hr.prev, hr.ne, hr.notReturned, hr.confirmed, hr.openSet, rfl, hr.time⟩
    · exact hc
  | timer =>
    rcases hph with h | h | h
    · refine ⟨m, by simp [step, h, onEvent, onOuts], ?_⟩
      simp only [step, h]
      exact rel_of_running s m c (Or.inl h) hr hc
    · refine ⟨m, by simp [step, h, onEvent, onOuts], ?_⟩
      simp only [step, h]
      exact rel_of_running s m c (Or.inr (Or.inl h)) hr hc
    · simp only [step, h, ne_eq, not_true_eq_false, ↓reduceIte]
      simp only [Count, h] at hc
      have hop : m.openSet = false := by rw [hr.openSet]; simp [awaiting, h]
      have := loopTop_sim { s with now := s.wake, retries := s.retries - 1 } m c hr.call hr.v hr.T hr.prev
        hr.ne hr.notReturned hr.confirmed hop hr.trk (by show m.nTx + (s.retries - 1) = c.r; omega)
        (by intro l hl; have := hr.time l hl; simpa [lb, h] using this)
      exact this
  | built =>
    have hm : onEvent m .built = m := rfl
    rw [hm]
    rcases hph with h | h | h
    · -- the set request is queued
      simp only [Count, h] at hc
      obtain ⟨hc1, hc2, hc3⟩ := hc
      have hop : m.openSet = false := by rw [hr.openSet]; simp [awaiting, h]
      have hlt : ¬ c.r ≤ m.nTx := by omega
      have hte := tooEarly_false m c.T s.now (by intro l hl; have := hr.time l hl; rw [hr.T]; simpa [lb, h] using this)
      simp only [step, h]
      split
      · rename_i htr
        refine ⟨{ m with nTx := m.nTx + 1, lastTx := some s.now, openSet := false }, ?_, ?_⟩
        · simp [onOuts, onOut, hr.call, hr.notReturned, hop, hc3, hr.v, hlt, hte, htr, hr.trk]
        · apply rel_of_running _ _ c (Or.inr (Or.inr rfl))
          · refine ⟨hr.call, hr.v, hr.T, hr.prev, hr.ne, hr.notReturned, hr.confirmed, by simp [goSleep, awaiting],
              hr.trk, ?_⟩
            intro l hl
            simp only [Option.some.injEq] at hl
            simp [lb, goSleep, ← hl]
          · simp only [Count, goSleep]; omega
      · rename_i htr
        have htr' : s.tracking = false := by simpa using htr
        split
        · refine ⟨{ m with nTx := m.nTx + 1, lastTx := some s.now, openSet := true }, ?_, ?_⟩
          · simp [onOuts, onOut, hr.call, hr.notReturned, hop, hc3, hr.v, hlt, hte, htr', hr.trk]
          · apply rel_of_running _ _ c (Or.inr (Or.inl rfl))
            · refine ⟨hr.call, hr.v, hr.T, hr.prev, hr.ne, hr.notReturned, hr.confirmed, by simp [awaiting],
                hr.trk, ?_⟩
              intro l hl
              simp only [Option.some.injEq] at hl
              simp [lb, ← hl]
            · simp only [Count]; omega
        · refine ⟨{ m with nTx := m.nTx + 1, lastTx := some s.now, openSet := false }, ?_, ?_⟩
          · simp [onOuts, onOut, hr.call, hr.notReturned, hop, hc3, hr.v, hlt, hte, htr', hr.trk]
          · apply rel_of_running _ _ c (Or.inr (Or.inr rfl))
            · refine ⟨hr.call, hr.v, hr.T, hr.prev, hr.ne, hr.notReturned, hr.confirmed, by simp [goSleep, awaiting],
                hr.trk, ?_⟩
              intro l hl
              simp only [Option.some.injEq] at hl
              simp [lb, goSleep, ← hl]
            · simp only [Count, goSleep]; omega
    · -- the re-read request is queued
      simp only [Count, h] at hc
      have hop : m.openSet = true := by rw [hr.openSet]; simp [awaiting, h]
      simp only [step, h]
      refine ⟨{ m with openSet := false }, ?_, ?_⟩
      · simp [onOuts, onOut, hop, hr.notReturned]
      · apply rel_of_running _ _ c (Or.inr (Or.inr rfl))
        · refine ⟨hr.call, hr.v, hr.T, hr.prev, hr.ne, hr.notReturned, hr.confirmed, by simp [goSleep, awaiting],
            hr.trk, ?_⟩
          intro l hl
          have := hr.time l hl
          simpa [lb, goSleep, h] using this
        · simp only [Count, goSleep]; omega
    · refine ⟨m, by simp [step, h, onOuts], ?_⟩
      simp only [step, h]
      exact rel_of_running s m c (Or.inr (Or.inr h)) hr hc

theorem step_sim (s : St) (m : Mon) (e : Ev) (h : Rel s m) :
    ∃ m', onOuts (onEvent m e) (step s e).2 = some m' ∧ Rel (step s e).1 m' := by
  cases hp : s.phase with
  | idle => simp only [Rel, hp] at h; exact sim_idle s m e hp h
  | done => simp only [Rel, hp] at h; exact sim_done s m e hp h
  | buildSet => simp only [Rel, hp] at h; obtain ⟨c, hr, hc⟩ := h; exact sim_running s m e c (Or.inl hp) hr hc
  | buildRefresh =>
    simp only [Rel, hp] at h; obtain ⟨c, hr, hc⟩ := h; exact sim_running s m e c (Or.inr (Or.inl hp)) hr hc
  | sleeping =>
    simp only [Rel, hp] at h; obtain ⟨c, hr, hc⟩ := h; exact sim_running s m e c (Or.inr (Or.inr hp)) hr hc

/-- the monitor accepts every observation the machine produces -/
theorem check_observe (s : St) (m : Mon) (es : List Ev) (h : Rel s m) :
    check m (observe s es) = true := by
  induction es generalizing s m with
  | nil => rfl
  | cons e es ih =>
    obtain ⟨m', h1, h2⟩ := step_sim s m e h
    simp only [observe, check, h1]
    exact ih _ _ h2

end PlumVerif.C08

import PlumVerif.Model.Producer
import PlumVerif.Proofs.Resync
/-
Helper lemmas for the producer machine (Model/Producer.lean).
-/
namespace PlumVerif.Producer
open PlumVerif

/-- the model's `endCaused` is the `eofCaused` of the reader theorems -/
theorem endCaused_eq (o : Outcome) : endCaused o = o.eofCaused := by
  cases o with
  | protoErr e => cases e <;> rfl
  | _ => rfl

/-! ### a stopped loop does nothing any more -/

theorem writePhase_stopped (fixed : Bool) (s : St) (c : Cyc) (h : s.running = false) :
    writePhase fixed s c = s := by simp [writePhase, h]

theorem readPhase_stopped (s : St) (rd : ROut) (h : s.running = false) : readPhase s rd = s := by
  simp [readPhase, h]

theorem run_stopped (fixed : Bool) (s : St) (script : List Cyc) (rds : List ROut) (h : s.running = false) :
    run fixed s script rds = s := by
  induction rds generalizing script with
  | nil => simp [run, writePhase_stopped, h]
  | cons rd rds ih => simp only [run, writePhase_stopped fixed s _ h, readPhase_stopped s rd h]; exact ih _

theorem writePhase_running (fixed : Bool) (s : St) (c : Cyc) (h : s.running = true) :
    writePhase fixed s c =
      if c.disc then { enqueue s c.puts with connected := false, running := false, stop := some .disconnected }
      else sendOne fixed { enqueue s c.puts with cycles := (enqueue s c.puts).cycles + 1 } c.wr := by
  simp [writePhase, h]

theorem readPhase_running' (s : St) (rd : ROut) (h : s.running = true) :
    readPhase s rd = readOne { s with reads := s.reads + 1 } rd := by simp [readPhase, h]

/-! ### phase-independent invariant -/

def lossOf : Option Stop → Nat
  | none => 0
  | some .disconnected => 0
  | some _ => 1

structure Inv (fixed : Bool) (s : St) : Prop where
  bal : fixed = true → s.wUnfinished = s.writeQ.length
  fifo : s.sent.map (·.1) ++ s.writeQ = s.putLog
  sentLe : s.sent.length ≤ s.cycles
  runStop : s.running = true ↔ s.stop = none
  loss : s.lossScheduled = lossOf s.stop
  conn : s.running = true → s.connected = true

theorem inv_init (fixed : Bool) (q : List Nat) : Inv fixed (init q) :=
  ⟨fun _ => rfl, by simp [init], by simp [init], by simp [init], rfl, fun _ => rfl⟩

theorem inv_lose {fixed : Bool} {s : St} {r : Stop} (hr : r ≠ .disconnected) (h : Inv fixed s)
    (hrun : s.running = true) : Inv fixed (lose s r) := by
  have hs : s.stop = none := h.runStop.mp hrun
  refine ⟨h.bal, h.fifo, h.sentLe, by simp [lose], ?_, by simp [lose]⟩
  have : s.lossScheduled = 0 := by rw [h.loss, hs]; rfl
  cases r <;> simp_all [lose, lossOf]

theorem inv_enqueue {fixed : Bool} {s : St} (h : Inv fixed s) (puts : List Nat) : Inv fixed (enqueue s puts) :=
  ⟨fun hf => by simp [enqueue, h.bal hf], by simp [enqueue, ← h.fifo], h.sentLe, h.runStop, h.loss, h.conn⟩

theorem inv_sendOne {fixed : Bool} (s : St) (h : Inv fixed s) (hrun : s.running = true) (wr : WOut) :
    Inv fixed (sendOne fixed { s with cycles := s.cycles + 1 } wr) := by
  unfold sendOne
  cases hq : s.writeQ with
  | nil =>
    simp only
    exact ⟨by simpa [hq] using h.bal, by simpa [hq] using h.fifo, Nat.le_succ_of_le h.sentLe, h.runStop, h.loss, h.conn⟩
  | cons f q =>
    simp only
    have hfifo : (s.sent ++ [(f, wr)]).map (·.1) ++ q = s.putLog := by
      rw [← h.fifo, hq]; simp
    -- the frame is taken and handed to the writer; `u` is the unfinished count after the outcome
    have base : ∀ u : Nat, (fixed = true → u = q.length) →
        Inv fixed { s with cycles := s.cycles + 1, writeQ := q, sent := s.sent ++ [(f, wr)], wUnfinished := u } := by
      intro u hu
      exact ⟨hu, hfifo, by simp; exact h.sentLe, h.runStop, h.loss, h.conn⟩
    have hbal : fixed = true → s.wUnfinished - 1 = q.length := fun hf => by rw [h.bal hf, hq]; simp
    cases wr with
    | ok => exact base _ hbal
    | osError =>
      exact inv_lose (r := .writeError) (by simp)
        (base (if fixed then s.wUnfinished - 1 else s.wUnfinished) (fun hf => by simp [hf, hbal hf])) hrun
    | timeout =>
      exact inv_lose (r := .writeTimeout) (by simp)
        (base (if fixed then s.wUnfinished - 1 else s.wUnfinished) (fun hf => by simp [hf, hbal hf])) hrun

theorem inv_writePhase (fixed : Bool) (s : St) (c : Cyc) (h : Inv fixed s) : Inv fixed (writePhase fixed s c) := by
  by_cases hstop : s.running = false
  · rw [writePhase_stopped fixed s c hstop]; exact h
  have hrun : s.running = true := by simpa using hstop
  have he := inv_enqueue h c.puts
  rw [writePhase_running fixed s c hrun]
  split
  · have hs : (enqueue s c.puts).stop = none := he.runStop.mp hrun
    exact ⟨he.bal, he.fifo, he.sentLe, by simp, by simp [he.loss, hs, lossOf], by simp⟩
  · exact inv_sendOne _ he hrun c.wr

theorem inv_readOne {fixed : Bool} (s : St) (h : Inv fixed s) (hrun : s.running = true) (rd : ROut) :
    Inv fixed (readOne { s with reads := s.reads + 1 } rd) := by
  have h' : Inv fixed { s with reads := s.reads + 1 } := ⟨h.bal, h.fifo, h.sentLe, h.runStop, h.loss, h.conn⟩
  cases rd with
  | frame o =>
    cases o with
    | delivered f => exact ⟨h.bal, h.fifo, h.sentLe, h.runStop, h.loss, h.conn⟩
    | ignored => exact h'
    | protoErr e => exact ⟨h.bal, h.fifo, h.sentLe, h.runStop, h.loss, h.conn⟩
    | connLost => exact inv_lose (r := .readLost) (by simp) h' hrun
  | timeout => exact inv_lose (r := .readTimeout) (by simp) h' hrun
  | other => exact ⟨h.bal, h.fifo, h.sentLe, h.runStop, h.loss, h.conn⟩

theorem inv_readPhase (fixed : Bool) (s : St) (rd : ROut) (h : Inv fixed s) : Inv fixed (readPhase s rd) := by
  by_cases hstop : s.running = false
  · rw [readPhase_stopped s rd hstop]; exact h
  have hrun : s.running = true := by simpa using hstop
  rw [readPhase_running' s rd hrun]
  exact inv_readOne s h hrun rd

theorem inv_run (fixed : Bool) (s : St) (script : List Cyc) (rds : List ROut) (h : Inv fixed s) :
    Inv fixed (run fixed s script rds) := by
  induction rds generalizing s script with
  | nil => exact inv_writePhase fixed s _ h
  | cons rd rds ih => exact ih _ _ (inv_readPhase fixed _ rd (inv_writePhase fixed s _ h))

/-! ### what one phase changes -/

theorem finishWrite_keeps (fixed : Bool) (s : St) (wr : WOut) :
    (finishWrite fixed s wr).reads = s.reads ∧ (finishWrite fixed s wr).readQ = s.readQ ∧
      (finishWrite fixed s wr).logged = s.logged ∧ (finishWrite fixed s wr).cycles = s.cycles := by
  cases wr <;> simp [finishWrite, lose]

theorem sendOne_keeps (fixed : Bool) (s : St) (wr : WOut) :
    (sendOne fixed s wr).reads = s.reads ∧ (sendOne fixed s wr).readQ = s.readQ ∧
      (sendOne fixed s wr).logged = s.logged ∧ (sendOne fixed s wr).cycles = s.cycles := by
  unfold sendOne
  cases s.writeQ with
  | nil => simp
  | cons f q => simpa using finishWrite_keeps fixed _ wr

theorem writePhase_reads (fixed : Bool) (s : St) (c : Cyc) :
    (writePhase fixed s c).reads = s.reads ∧ (writePhase fixed s c).readQ = s.readQ ∧
      (writePhase fixed s c).logged = s.logged := by
  by_cases hstop : s.running = false
  · rw [writePhase_stopped fixed s c hstop]; exact ⟨rfl, rfl, rfl⟩
  rw [writePhase_running fixed s c (by simpa using hstop)]
  split
  · exact ⟨rfl, rfl, rfl⟩
  · obtain ⟨h1, h2, h3, _⟩ := sendOne_keeps fixed { enqueue s c.puts with cycles := (enqueue s c.puts).cycles + 1 } c.wr
    exact ⟨h1, h2, h3⟩

/-- the write phase of a running loop with a healthy environment keeps it running -/
theorem writePhase_ok (fixed : Bool) (s : St) (c : Cyc) (hrun : s.running = true) (hd : c.disc = false)
    (hw : c.wr = .ok) : (writePhase fixed s c).running = true ∧ (writePhase fixed s c).stop = s.stop := by
  rw [writePhase_running fixed s c hrun]
  simp only [hd, Bool.false_eq_true, if_false, hw, sendOne]
  cases (enqueue s c.puts).writeQ with
  | nil => exact ⟨hrun, rfl⟩
  | cons f q => exact ⟨hrun, rfl⟩

theorem readPhase_running (s : St) (rd : ROut) (hrun : s.running = true) :
    (readPhase s rd).reads = s.reads + 1 ∧ (readPhase s rd).readQ = s.readQ ++ deliveredOf [rd] ∧
      (readPhase s rd).running = !rd.stops ∧ (rd.stops = false → (readPhase s rd).stop = s.stop) := by
  rw [readPhase_running' s rd hrun]
  cases rd with
  | frame o => cases o <;> simp [readOne, deliveredOf, ROut.stops, lose, hrun]
  | timeout => simp [readOne, deliveredOf, ROut.stops, lose]
  | other => simp [readOne, deliveredOf, ROut.stops, hrun]

theorem deliveredOf_cons (rd : ROut) (t : List ROut) : deliveredOf (rd :: t) = deliveredOf [rd] ++ deliveredOf t := by
  cases rd with
  | frame o => cases o <;> simp [deliveredOf]
  | timeout => simp [deliveredOf]
  | other => simp [deliveredOf]

theorem reads_mono (fixed : Bool) (s : St) (script : List Cyc) (rds : List ROut) :
    s.reads ≤ (run fixed s script rds).reads := by
  induction rds generalizing s script with
  | nil => simp [run, (writePhase_reads fixed s _).1]
  | cons rd rds ih =>
    simp only [run]
    refine Nat.le_trans ?_ (ih _ _)
    by_cases hrun : (writePhase fixed s (nextCyc script).1).running = true
    · rw [(readPhase_running _ rd hrun).1, (writePhase_reads fixed s _).1]; omega
    · rw [readPhase_stopped _ rd (by simpa using hrun), (writePhase_reads fixed s _).1]; omega

/-- the read queue holds exactly the delivered outcomes of the reads that were made, in order -/
theorem readQ_run (fixed : Bool) (s : St) (script : List Cyc) (rds : List ROut) :
    (run fixed s script rds).readQ =
      s.readQ ++ deliveredOf (rds.take ((run fixed s script rds).reads - s.reads)) := by
  induction rds generalizing s script with
  | nil => simp [run, (writePhase_reads fixed s _).2.1, deliveredOf]
  | cons rd rds ih =>
    simp only [run]
    obtain ⟨hr, hq, _⟩ := writePhase_reads fixed s (nextCyc script).1
    by_cases hrun : (writePhase fixed s (nextCyc script).1).running = true
    · obtain ⟨h1, h2, _⟩ := readPhase_running _ rd hrun
      have hm := reads_mono fixed (readPhase (writePhase fixed s (nextCyc script).1) rd) (nextCyc script).2 rds
      rw [ih, h2, hq]
      rw [h1, hr] at hm ⊢
      have : (run fixed (readPhase (writePhase fixed s (nextCyc script).1) rd) (nextCyc script).2 rds).reads - s.reads
          = ((run fixed (readPhase (writePhase fixed s (nextCyc script).1) rd) (nextCyc script).2 rds).reads - (s.reads + 1)) + 1 := by
        omega
      rw [this, List.take_succ_cons, List.append_assoc, ← deliveredOf_cons]
    · have hst : (writePhase fixed s (nextCyc script).1).running = false := by simpa using hrun
      rw [readPhase_stopped _ rd hst, run_stopped fixed _ _ _ hst, hq, hr]
      simp [deliveredOf]

/-- with a healthy environment the loop survives every read outcome that is not a loss -/
theorem run_continues (fixed : Bool) (s : St) (script : List Cyc) (rds : List ROut)
    (hrun : s.running = true) (hscript : ∀ c ∈ script, c.disc = false ∧ c.wr = .ok)
    (hrds : ∀ rd ∈ rds, rd.stops = false) :
    (run fixed s script rds).running = true ∧ (run fixed s script rds).reads = s.reads + rds.length ∧
      (run fixed s script rds).stop = s.stop := by
  have hnext : ∀ script : List Cyc, (∀ c ∈ script, c.disc = false ∧ c.wr = .ok) →
      ((nextCyc script).1.disc = false ∧ (nextCyc script).1.wr = .ok) ∧
        (∀ c ∈ (nextCyc script).2, c.disc = false ∧ c.wr = .ok) := by
    intro script h
    cases script with
    | nil => exact ⟨⟨rfl, rfl⟩, by simp [nextCyc]⟩
    | cons c t => exact ⟨h c (by simp), fun d hd => h d (by simp [nextCyc] at hd; simp [hd])⟩
  induction rds generalizing s script with
  | nil =>
    obtain ⟨⟨hd, hw⟩, _⟩ := hnext script hscript
    obtain ⟨h1, h2⟩ := writePhase_ok fixed s _ hrun hd hw
    simp [run, h1, h2, (writePhase_reads fixed s _).1]
  | cons rd rds ih =>
    obtain ⟨⟨hd, hw⟩, ht⟩ := hnext script hscript
    obtain ⟨h1, h2⟩ := writePhase_ok fixed s _ hrun hd hw
    obtain ⟨r1, _, r3, r4⟩ := readPhase_running _ rd h1
    have hns : rd.stops = false := hrds rd (by simp)
    simp only [run]
    obtain ⟨i1, i2, i3⟩ := ih _ _ (by rw [r3, hns]; rfl) ht (fun x hx => hrds x (by simp [hx]))
    refine ⟨i1, ?_, ?_⟩
    · rw [i2, r1, (writePhase_reads fixed s _).1]; simp; omega
    · rw [i3, r4 hns, h2]

/-- where a stop reason comes from -/
def justified (script : List Cyc) (rds : List ROut) : Stop → Prop
  | .readLost => .frame .connLost ∈ rds
  | .readTimeout => .timeout ∈ rds
  | .writeError => ∃ c ∈ script, c.wr = .osError
  | .writeTimeout => ∃ c ∈ script, c.wr = .timeout
  | .disconnected => ∃ c ∈ script, c.disc = true

theorem justified_mono {script script' : List Cyc} {rds rds' : List ROut} {r : Stop}
    (hs : ∀ c ∈ script, c ∈ script') (hr : ∀ x ∈ rds, x ∈ rds') (h : justified script rds r) :
    justified script' rds' r := by
  cases r with
  | readLost => exact hr _ h
  | readTimeout => exact hr _ h
  | writeError => obtain ⟨c, hc, e⟩ := h; exact ⟨c, hs c hc, e⟩
  | writeTimeout => obtain ⟨c, hc, e⟩ := h; exact ⟨c, hs c hc, e⟩
  | disconnected => obtain ⟨c, hc, e⟩ := h; exact ⟨c, hs c hc, e⟩

theorem finishWrite_stop (fixed : Bool) (s : St) (wr : WOut) (hs : s.stop = none) (r : Stop)
    (h : (finishWrite fixed s wr).stop = some r) :
    (r = .writeError ∧ wr = .osError) ∨ (r = .writeTimeout ∧ wr = .timeout) := by
  cases wr <;> simp_all [finishWrite, lose]

theorem sendOne_stop (fixed : Bool) (s : St) (wr : WOut) (hs : s.stop = none) (r : Stop)
    (h : (sendOne fixed s wr).stop = some r) :
    (r = .writeError ∧ wr = .osError) ∨ (r = .writeTimeout ∧ wr = .timeout) := by
  unfold sendOne at h
  cases hq : s.writeQ with
  | nil => rw [hq] at h; simp only [hs] at h; cases h
  | cons f q =>
    rw [hq] at h
    exact finishWrite_stop fixed { s with writeQ := q, sent := s.sent ++ [(f, wr)] } wr hs r h

theorem writePhase_stop (fixed : Bool) (s : St) (c : Cyc) (hs : s.stop = none) (r : Stop)
    (h : (writePhase fixed s c).stop = some r) :
    (r = .writeError ∧ c.wr = .osError) ∨ (r = .writeTimeout ∧ c.wr = .timeout) ∨ (r = .disconnected ∧ c.disc = true) := by
  by_cases hstop : s.running = false
  · rw [writePhase_stopped fixed s c hstop, hs] at h; cases h
  rw [writePhase_running fixed s c (by simpa using hstop)] at h
  split at h
  · rename_i hd; simp at h; exact .inr (.inr ⟨h.symm, hd⟩)
  · rcases sendOne_stop fixed _ c.wr (by simpa [enqueue] using hs) r h with h1 | h1
    · exact .inl h1
    · exact .inr (.inl h1)

theorem readPhase_stop (s : St) (rd : ROut) (hs : s.stop = none) (r : Stop)
    (h : (readPhase s rd).stop = some r) :
    (r = .readLost ∧ rd = .frame .connLost) ∨ (r = .readTimeout ∧ rd = .timeout) := by
  by_cases hstop : s.running = false
  · rw [readPhase_stopped s rd hstop, hs] at h; cases h
  rw [readPhase_running' s rd (by simpa using hstop)] at h
  cases rd with
  | frame o => cases o <;> simp_all [readOne, lose]
  | timeout => simp_all [readOne, lose]
  | other => simp_all [readOne]

theorem mem_nextCyc (script : List Cyc) : ∀ c ∈ (nextCyc script).2, c ∈ script := by
  cases script with
  | nil => intro c h; simp [nextCyc] at h
  | cons d t => intro c h; simp [nextCyc] at h; simp [h]

theorem stop_justified (fixed : Bool) (s : St) (script : List Cyc) (rds : List ROut) (hinv : Inv fixed s)
    (hs : s.stop = none) (r : Stop) (h : (run fixed s script rds).stop = some r) : justified script rds r := by
  have head_in : ∀ (script : List Cyc) (p : Cyc → Prop), p (nextCyc script).1 → ¬ p {} → ∃ c ∈ script, p c := by
    intro script p hp hdef
    cases script with
    | nil => exact absurd hp hdef
    | cons c t => exact ⟨c, by simp, hp⟩
  have from_write : ∀ (script : List Cyc) (rds : List ROut) (s : St), s.stop = none →
      (writePhase fixed s (nextCyc script).1).stop = some r → justified script rds r := by
    intro script rds s hs hw
    rcases writePhase_stop fixed s _ hs r hw with ⟨rfl, e⟩ | ⟨rfl, e⟩ | ⟨rfl, e⟩
    · exact head_in script (fun c => c.wr = .osError) e (by simp)
    · exact head_in script (fun c => c.wr = .timeout) e (by simp)
    · exact head_in script (fun c => c.disc = true) e (by simp)
  induction rds generalizing s script with
  | nil => exact from_write script [] s hs h
  | cons rd rds ih =>
    simp only [run] at h
    have iw := inv_writePhase fixed s (nextCyc script).1 hinv
    have ir := inv_readPhase fixed _ rd iw
    cases hw : (writePhase fixed s (nextCyc script).1).stop with
    | some r' =>
      have hst : (writePhase fixed s (nextCyc script).1).running = false := by
        cases hr : (writePhase fixed s (nextCyc script).1).running with
        | false => rfl
        | true => rw [iw.runStop.mp hr] at hw; cases hw
      rw [readPhase_stopped _ rd hst, run_stopped fixed _ _ _ hst, hw] at h
      cases h
      exact from_write script (rd :: rds) s hs hw
    | none =>
      cases hr : (readPhase (writePhase fixed s (nextCyc script).1) rd).stop with
      | some r' =>
        have hst : (readPhase (writePhase fixed s (nextCyc script).1) rd).running = false := by
          cases hr' : (readPhase (writePhase fixed s (nextCyc script).1) rd).running with
          | false => rfl
          | true => rw [ir.runStop.mp hr'] at hr; cases hr
        rw [run_stopped fixed _ _ _ hst, hr] at h
        cases h
        rcases readPhase_stop _ rd hw r hr with ⟨rfl, e⟩ | ⟨rfl, e⟩
        · subst e; simp [justified]
        · subst e; simp [justified]
      | none =>
        exact justified_mono (mem_nextCyc script) (fun x hx => List.mem_cons_of_mem _ hx) (ih _ _ ir hr h)

/-! ### counting cycles against reads -/

/-- at a cycle boundary: as many cycles begun as reads made (one more if the loop ended in a write phase) -/
def CntB (s : St) : Prop := s.cycles ≤ s.reads ∨ (s.running = false ∧ s.cycles ≤ s.reads + 1)

theorem writePhase_cycles (fixed : Bool) (s : St) (c : Cyc) :
    (writePhase fixed s c).cycles ≤ s.cycles + 1 := by
  by_cases hstop : s.running = false
  · rw [writePhase_stopped fixed s c hstop]; omega
  rw [writePhase_running fixed s c (by simpa using hstop)]
  split
  · simp [enqueue]
  · rw [(sendOne_keeps fixed _ c.wr).2.2.2]; simp [enqueue]

theorem readPhase_cycles (s : St) (rd : ROut) : (readPhase s rd).cycles = s.cycles := by
  by_cases hstop : s.running = false
  · rw [readPhase_stopped s rd hstop]
  rw [readPhase_running' s rd (by simpa using hstop)]
  cases rd with
  | frame o => cases o <;> simp [readOne, lose]
  | timeout => simp [readOne, lose]
  | other => simp [readOne]

theorem cntB_cycle (fixed : Bool) (s : St) (c : Cyc) (rd : ROut) (h : CntB s) :
    CntB (readPhase (writePhase fixed s c) rd) := by
  by_cases hstop : s.running = false
  · rw [writePhase_stopped fixed s c hstop, readPhase_stopped s rd hstop]; exact h
  have hc : s.cycles ≤ s.reads := by
    rcases h with h | ⟨h, _⟩
    · exact h
    · exact absurd h hstop
  have hw := writePhase_cycles fixed s c
  have hr := (writePhase_reads fixed s c).1
  by_cases hrun : (writePhase fixed s c).running = true
  · left
    rw [readPhase_cycles, (readPhase_running _ rd hrun).1, hr]; omega
  · right
    have hst : (writePhase fixed s c).running = false := by simpa using hrun
    rw [readPhase_stopped _ rd hst]
    exact ⟨hst, by rw [hr]; omega⟩

theorem cnt_run (fixed : Bool) (s : St) (script : List Cyc) (rds : List ROut) (h : CntB s) :
    (run fixed s script rds).cycles ≤ (run fixed s script rds).reads + 1 := by
  induction rds generalizing s script with
  | nil =>
    simp only [run]
    have hw := writePhase_cycles fixed s (nextCyc script).1
    rw [(writePhase_reads fixed s _).1]
    rcases h with h | ⟨h, h'⟩
    · omega
    · rw [writePhase_stopped fixed s _ h]; exact h'
  | cons rd rds ih => exact ih _ _ (cntB_cycle fixed s _ rd h)

/-! ### the shape of `readAll`: calls that do not lose the connection, then exactly one that does -/

theorem readAll_shape (s : List Byte) :
    ∃ pre n, readAll s = pre ++ [(.connLost, n)] ∧ ∀ p ∈ pre, p.1 ≠ .connLost := by
  generalize hn : s.length = n
  induction n using Nat.strongRecOn generalizing s with
  | _ n ih =>
    cases hrf : readFrame s with
    | mk o r =>
      by_cases ho : o = .connLost
      · subst ho
        refine ⟨[], s.length - r.length, ?_, by simp⟩
        unfold readAll
        simp [readAllFuel, hrf]
      · obtain ⟨hlt, _⟩ := readFrame_progress hrf ho
        obtain ⟨pre, k, hpre, hall⟩ := ih r.length (by omega) r rfl
        refine ⟨(o, s.length - r.length) :: pre, k, by rw [readAll_step hrf ho, hpre]; rfl, ?_⟩
        intro p hp
        rcases List.mem_cons.mp hp with rfl | hp
        · exact ho
        · exact hall p hp

end PlumVerif.Producer

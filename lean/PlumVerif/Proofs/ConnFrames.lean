import PlumVerif.Proofs.Conn
/-
The frame consumers and the read queue: bookkeeping invariant of every reachable state.
-/
set_option linter.unusedSimpArgs false

namespace PlumVerif.Conn

/-- consumers and read queue: no more frames in hand than consumers; the read queue's
unfinished counter is exactly queued + in hand; a connected protocol has its full set of consumers -/
structure CInv (s : St) : Prop where
  hand_le : s.hand.length ≤ s.consumers
  bal : s.rUnf = s.readQ.length + s.hand.length
  conn_full : s.connected = true → s.consumers = s.cfg
  wf : ∀ f ∈ s.readQ ++ s.hand, f.addr?.isSome = true

theorem cinv_init (cfg : Nat) (rc : Bool) (sc : List OpenRes) : CInv (init cfg rc sc) := by
  constructor <;> simp [init]

/-- a function that leaves queue, hands and consumers alone and does not connect -/
structure KeepQ (s s' : St) : Prop where
  readQ : s'.readQ = s.readQ
  hand : s'.hand = s.hand
  rUnf : s'.rUnf = s.rUnf
  consumers : s'.consumers = s.consumers
  cfg : s'.cfg = s.cfg
  connected : s'.connected = true → s.connected = true

theorem CInv.keep {s s' : St} (h : CInv s) (k : KeepQ s s') : CInv s' := by
  constructor
  · rw [k.hand, k.consumers]; exact h.hand_le
  · rw [k.rUnf, k.readQ, k.hand]; exact h.bal
  · intro hc; rw [k.consumers, k.cfg]; exact h.conn_full (k.connected hc)
  · rw [k.readQ, k.hand]; exact h.wf

theorem KeepQ.refl (s : St) : KeepQ s s := ⟨rfl, rfl, rfl, rfl, rfl, id⟩

theorem KeepQ.trans {a b c : St} (h1 : KeepQ a b) (h2 : KeepQ b c) : KeepQ a c :=
  ⟨h2.readQ.trans h1.readQ, h2.hand.trans h1.hand, h2.rUnf.trans h1.rUnf, h2.consumers.trans h1.consumers,
   h2.cfg.trans h1.cfg, fun h => h1.connected (h2.connected h)⟩

theorem kq_latch (s : St) : KeepQ s (latch s) := by
  unfold latch; split
  · split <;> exact ⟨rfl, rfl, rfl, rfl, rfl, id⟩
  · exact ⟨rfl, rfl, rfl, rfl, rfl, id⟩

theorem kq_prodFault (s : St) : KeepQ s (prodFault s).1 := ⟨rfl, rfl, rfl, rfl, rfl, id⟩

theorem kq_prodIO' (s : St) : KeepQ s (prodIO' s).1 := by
  unfold prodIO'; split
  · split <;> exact ⟨rfl, rfl, rfl, rfl, rfl, id⟩
  · exact ⟨rfl, rfl, rfl, rfl, rfl, id⟩

theorem kq_prodIO (s : St) : KeepQ s (prodIO s).1 := (kq_prodIO' s).trans (kq_latch _)

theorem kq_popScript (s : St) : KeepQ s (popScript s).2 := by
  unfold popScript; split <;> exact ⟨rfl, rfl, rfl, rfl, rfl, id⟩

theorem kq_openFailed (s : St) (o : Owner) : KeepQ s (openFailed s o).1 := by
  unfold openFailed; split <;> exact ⟨rfl, rfl, rfl, rfl, rfl, id⟩

theorem cinv_establish {s : St} (hi : s.consumers ≤ s.cfg) (h : CInv s) (dm cm : Mode) : CInv (establish s dm cm).1 := by
  have := h.hand_le
  constructor
  · show s.hand.length ≤ s.consumers + (s.cfg - s.consumers); omega
  · exact h.bal
  · intro _; show s.consumers + (s.cfg - s.consumers) = s.cfg; omega
  · exact h.wf

theorem cinv_doOpen {s : St} (hi : s.consumers ≤ s.cfg) (h : CInv s) (o : Owner) : CInv (doOpen s o).1 := by
  have hp := h.keep (kq_popScript s)
  have hip : (popScript s).2.consumers ≤ (popScript s).2.cfg := by
    rw [(kq_popScript s).consumers, (kq_popScript s).cfg]; exact hi
  simp only [doOpen]
  split
  · exact cinv_establish hip hp _ _
  · exact hp.keep (kq_openFailed _ o)
  · exact hp.keep ⟨rfl, rfl, rfl, rfl, rfl, id⟩

theorem cinv_reconnectInvoke {s : St} (hi : s.consumers ≤ s.cfg) (h : CInv s) : CInv (reconnectInvoke s).1 := by
  unfold reconnectInvoke; split
  · exact cinv_doOpen hi h _
  · exact h

theorem closeWriter_fst'' (s : St) : (closeWriter s).1 = { s with wopen := false } := by
  unfold closeWriter; split <;> rfl

theorem cinv_lostFinish {s : St} (hi : s.consumers ≤ s.cfg) (h : CInv s) : CInv (lostFinish s).1 := by
  simp only [lostFinish, closeWriter_fst'']
  split
  · exact h.keep ⟨rfl, rfl, rfl, rfl, rfl, id⟩
  · exact cinv_reconnectInvoke (s := { s with wopen := false, writer := none }) hi (h.keep ⟨rfl, rfl, rfl, rfl, rfl, id⟩)

theorem kq_fireSetup (s : St) (a : Nat) : KeepQ s (fireSetup s a).1 := by
  unfold fireSetup
  split
  · exact KeepQ.refl s
  · split
    · split <;> exact ⟨rfl, rfl, rfl, rfl, rfl, id⟩
    · exact KeepQ.refl s

theorem kq_setupGo (s : St) : KeepQ s (setupGo s).1 := by
  unfold setupGo; split <;> exact ⟨rfl, rfl, rfl, rfl, rfl, id⟩

theorem kq_park (s : St) (t : Target) : KeepQ s (park s t) := by
  cases t <;> exact ⟨rfl, rfl, rfl, rfl, rfl, id⟩

theorem kq_closeEv (s : St) : KeepQ s (closeEv s).1 := by
  unfold closeEv; split
  · exact KeepQ.refl s
  · have h1 : KeepQ s (cancelConn s) := by unfold cancelConn; split <;> exact ⟨rfl, rfl, rfl, rfl, rfl, id⟩
    exact h1.trans (KeepQ.trans (b := { cancelConn s with closing := .joining (cancelConn s).now, rj := (cancelConn s).rUnf == 0 })
      ⟨rfl, rfl, rfl, rfl, rfl, id⟩ (kq_latch _))

theorem cinv_shutdownRun {s : St} (h : CInv s) : CInv (shutdownRun s).1 := by
  unfold shutdownRun
  split
  · split
    · have hb := h.bal
      have hc : CInv { cancelProto s with connected := false } := by
        constructor
        · show ([] : List Feed).length ≤ 0; simp
        · show s.rUnf - s.hand.length = s.readQ.length + ([] : List Feed).length
          simp; omega
        · intro hc; cases hc
        · intro f hf
          apply h.wf f
          have : f ∈ s.readQ ++ ([] : List Feed) := hf
          exact List.mem_append_left _ (by simpa using this)
      simp only [shutdownTail, closeWriter_fst'']
      split
      · exact hc.keep ⟨rfl, rfl, rfl, rfl, rfl, id⟩
      · rw [finishClose_fst]; exact hc.keep ⟨rfl, rfl, rfl, rfl, rfl, id⟩
    · exact h
  · exact h

/-! ### the consumers' own steps -/

theorem kq_handle (s : St) (f : Feed) : KeepQ s (handle s f).1 := by
  cases f <;> exact ⟨rfl, rfl, rfl, rfl, rfl, id⟩

theorem kq_latchR (s : St) : KeepQ s (latchR s) := by
  unfold latchR; split <;> exact ⟨rfl, rfl, rfl, rfl, rfl, id⟩

/-- what a consumer that finishes one frame does to the bookkeeping: one unfinished less; it
exits iff the protocol is not connected -/
theorem finishFrame_fields (s : St) (f : Feed) (ad k : Nat) (hf : f.addr? = some (ad, k)) :
    (finishFrame s f).1.readQ = s.readQ ∧ (finishFrame s f).1.hand = s.hand ∧
    (finishFrame s f).1.rUnf = s.rUnf - 1 ∧ (finishFrame s f).1.cfg = s.cfg ∧
    (finishFrame s f).1.connected = s.connected ∧
    (finishFrame s f).1.consumers = (if s.connected then s.consumers else s.consumers - 1) := by
  have k1 : KeepQ s (publish s ad) := ⟨rfl, rfl, rfl, rfl, rfl, id⟩
  have k2 := kq_handle (publish s ad) f
  have f2 := frames_handle (publish s ad) f
  let m : St := { (handle (publish s ad) f).1 with rUnf := (handle (publish s ad) f).1.rUnf - 1 }
  have k3 := kq_latchR m
  have f3 := frames_latchR m
  have hconn : (latchR m).connected = s.connected := by rw [f3.connected]; exact f2.connected
  simp only [finishFrame, hf]
  show (if (latchR m).connected = true then latchR m else { latchR m with consumers := (latchR m).consumers - 1 }).readQ = _ ∧ _
  rw [hconn]
  cases hc : s.connected
  · simp only [Bool.false_eq_true, ↓reduceIte]
    refine ⟨?_, ?_, ?_, ?_, ?_, ?_⟩
    · show (latchR m).readQ = _; rw [k3.readQ]; exact k2.readQ
    · show (latchR m).hand = _; rw [k3.hand]; exact k2.hand
    · show (latchR m).rUnf = _; rw [k3.rUnf]; show (handle (publish s ad) f).1.rUnf - 1 = _; rw [k2.rUnf]; rfl
    · show (latchR m).cfg = _; rw [k3.cfg]; exact k2.cfg
    · first | trivial | (show (latchR m).connected = _; rw [hconn, hc])
    · show (latchR m).consumers - 1 = _; rw [k3.consumers]; show (handle (publish s ad) f).1.consumers - 1 = _; rw [k2.consumers]; rfl
  · simp only [↓reduceIte]
    refine ⟨?_, ?_, ?_, ?_, ?_, ?_⟩
    · rw [k3.readQ]; exact k2.readQ
    · rw [k3.hand]; exact k2.hand
    · rw [k3.rUnf]; show (handle (publish s ad) f).1.rUnf - 1 = _; rw [k2.rUnf]; rfl
    · rw [k3.cfg]; exact k2.cfg
    · first | trivial | rw [hconn, hc]
    · rw [k3.consumers]; show (handle (publish s ad) f).1.consumers = _; rw [k2.consumers]; rfl

theorem kq_enter (s : St) (ad : Nat) : KeepQ s (enter s ad).1 := by
  unfold enter; split <;> exact ⟨rfl, rfl, rfl, rfl, rfl, id⟩

/-- a consumer holding `f` (already removed from the queue, counted in `extra` frames in hand
beyond `s.hand`) processes it: either it blocks (nothing changes) or the frame is finished -/
theorem process_fields (s : St) (f : Feed) (ad k : Nat) (hf : f.addr? = some (ad, k)) :
    (process s f).1.readQ = s.readQ ∧ (process s f).1.hand = s.hand ∧ (process s f).1.cfg = s.cfg ∧
    (process s f).1.connected = s.connected ∧
    (((process s f).2.2 = true ∧ (process s f).1.rUnf = s.rUnf ∧ (process s f).1.consumers = s.consumers) ∨
     ((process s f).2.2 = false ∧ (process s f).1.rUnf = s.rUnf - 1 ∧
      (process s f).1.consumers = (if s.connected then s.consumers else s.consumers - 1))) := by
  have ke := kq_enter s ad
  have fe := frames_enter s ad
  simp only [process, hf]
  split
  · obtain ⟨g1, g2, g3, g4, g5, g6⟩ := finishFrame_fields s f ad k hf
    exact ⟨g1, g2, g4, g5, Or.inr ⟨rfl, g3, g6⟩⟩
  · split
    · exact ⟨ke.readQ, ke.hand, ke.cfg, fe.connected, Or.inl ⟨rfl, ke.rUnf, ke.consumers⟩⟩
    · obtain ⟨g1, g2, g3, g4, g5, g6⟩ := finishFrame_fields (enter s ad).1 f ad k hf
      refine ⟨g1.trans ke.readQ, g2.trans ke.hand, g4.trans ke.cfg, g5.trans fe.connected, Or.inr ⟨rfl, ?_, ?_⟩⟩
      · rw [g3, ke.rUnf]
      · rw [g6, fe.connected, ke.consumers]


theorem process_gates (s : St) (f : Feed) : (process s f).1.gates = s.gates := by
  have he : ∀ ad, (enter s ad).1.gates = s.gates := by intro ad; unfold enter; split <;> rfl
  have hff : ∀ (t : St) (g : Feed), (finishFrame t g).1.gates = t.gates := by
    intro t g
    unfold finishFrame
    split
    · rfl
    · rename_i ad k _
      have h1 : (handle (publish t ad) g).1.gates = t.gates := by cases g <;> rfl
      have h2 : ∀ x : St, (latchR x).gates = x.gates := by intro x; unfold latchR; split <;> rfl
      simp only []
      split
      · rw [h2]; exact h1
      · show (latchR _).gates = _; rw [h2]; exact h1
  unfold process
  split
  · rfl
  · rename_i ad k _
    simp only []
    split
    · exact hff s f
    · split
      · exact he ad
      · rw [hff]; exact he ad

theorem process_not_blocked (s : St) (f : Feed) (hg : s.gates = []) : (process s f).2.2 = false := by
  unfold process
  split
  · rfl
  · rename_i ad k _
    have : (enter s ad).2.2 = false := by unfold enter; split <;> simp [hg]
    simp only []
    split
    · rfl
    · simp [this]

theorem cinv_take {s : St} (h : CInv s) : CInv (take s).1 := by
  unfold take
  split
  · exact h
  · rename_i f rest hq
    have hb := h.bal
    have hl := h.hand_le
    rw [hq] at hb
    simp only [List.length_cons] at hb
    have hfa : f.addr?.isSome = true := h.wf f (by rw [hq]; simp)
    have hwf' : ∀ g ∈ rest ++ s.hand, g.addr?.isSome = true := by
      intro g hg
      apply h.wf g
      rw [hq]
      rcases List.mem_append.mp hg with h1 | h1
      · exact List.mem_append_left _ (List.mem_cons_of_mem _ h1)
      · exact List.mem_append_right _ h1
    split
    · exact h
    · rename_i hidle
      have hlt : s.hand.length < s.consumers := by unfold idle at hidle; omega
      split
      · constructor
        · show (s.hand ++ [f]).length ≤ s.consumers; simp; omega
        · show s.rUnf = rest.length + (s.hand ++ [f]).length; simp; omega
        · exact h.conn_full
        · intro g hg
          have : g ∈ rest ++ (s.hand ++ [f]) := hg
          rcases List.mem_append.mp this with h1 | h1
          · exact hwf' g (List.mem_append_left _ h1)
          · rcases List.mem_append.mp h1 with h2 | h2
            · exact hwf' g (List.mem_append_right _ h2)
            · have : g = f := by simpa using h2
              rw [this]; exact hfa
      · rename_i hh
        simp only [ne_eq, Decidable.not_not] at hh
        obtain ⟨ad, k, hak⟩ : ∃ ad k, f.addr? = some (ad, k) := by
          cases hx : f.addr? with
          | none => simp [hx] at hfa
          | some p => exact ⟨p.1, p.2, rfl⟩
        obtain ⟨p1, p2, p3, p4, p5⟩ := process_fields { s with readQ := rest } f ad k hak
        have hwfr : ∀ g ∈ rest, g.addr?.isSome = true := fun g hg => hwf' g (List.mem_append_left _ hg)
        rcases p5 with ⟨pb, pr, pc⟩ | ⟨pb, pr, pc⟩
        · simp only [pb, ↓reduceIte]
          constructor
          · show [f].length ≤ (process { s with readQ := rest } f).1.consumers
            rw [pc]; show 1 ≤ s.consumers; omega
          · show (process { s with readQ := rest } f).1.rUnf = (process { s with readQ := rest } f).1.readQ.length + [f].length
            rw [pr, p1]; show s.rUnf = rest.length + 1; rw [hh] at hb; simp at hb; omega
          · intro hc
            have : (process { s with readQ := rest } f).1.connected = true := hc
            rw [p4] at this
            show (process { s with readQ := rest } f).1.consumers = (process { s with readQ := rest } f).1.cfg
            rw [pc, p3]; exact h.conn_full this
          · intro g hg
            have : g ∈ (process { s with readQ := rest } f).1.readQ ++ [f] := hg
            rw [p1] at this
            rcases List.mem_append.mp this with h1 | h1
            · exact hwfr g h1
            · have : g = f := by simpa using h1
              rw [this]; exact hfa
        · simp only [pb, Bool.false_eq_true, ↓reduceIte]
          constructor
          · rw [p2]; show s.hand.length ≤ _; rw [hh]; simp
          · rw [pr, p1, p2]; show s.rUnf - 1 = rest.length + s.hand.length; rw [hh] at hb ⊢; simp at hb ⊢; omega
          · intro hc
            rw [p4] at hc
            rw [pc, p3]
            have hc' : s.connected = true := hc
            simp only [hc', ↓reduceIte]
            exact h.conn_full hc'
          · intro g hg
            rw [p1, p2] at hg
            exact hwf' g hg

/-- the blocked consumers finish: invariant of the loop over the frames still in hand -/
theorem cinv_finishAll : ∀ (l : List Feed) (t : St), t.hand = [] → t.gates = [] →
    t.rUnf = t.readQ.length + l.length → l.length ≤ t.consumers → (t.connected = true → t.consumers = t.cfg) →
    (∀ f ∈ t.readQ ++ l, f.addr?.isSome = true) → CInv (finishAll l t).1
  | [], t, hh, _, hb, _, hc, hw => by
    constructor
    · show t.hand.length ≤ _; rw [hh]; simp
    · show t.rUnf = t.readQ.length + t.hand.length; rw [hh]; simpa using hb
    · exact hc
    · intro f hf
      have : f ∈ t.readQ ++ t.hand := hf
      rw [hh] at this; exact hw f this
  | f :: fs, t, hh, hg, hb, hl, hc, hw => by
    have hfa : f.addr?.isSome = true := hw f (by simp)
    obtain ⟨ad, k, hak⟩ : ∃ ad k, f.addr? = some (ad, k) := by
      cases hx : f.addr? with
      | none => simp [hx] at hfa
      | some p => exact ⟨p.1, p.2, rfl⟩
    obtain ⟨p1, p2, p3, p4, p5⟩ := process_fields t f ad k hak
    have hnb := process_not_blocked t f hg
    simp only [List.length_cons] at hb hl
    rcases p5 with ⟨pb, _, _⟩ | ⟨_, pr, pc⟩
    · rw [hnb] at pb; cases pb
    · apply cinv_finishAll fs (process t f).1
      · rw [p2]; exact hh
      · rw [process_gates]; exact hg
      · rw [pr, p1]; omega
      · rw [pc]; split <;> omega
      · intro hcc
        rw [p4] at hcc
        rw [pc, p3]; simp only [hcc, ↓reduceIte]; exact hc hcc
      · intro g hgm
        rw [p1] at hgm
        apply hw g
        rcases List.mem_append.mp hgm with h1 | h1
        · exact List.mem_append_left _ h1
        · exact List.mem_append_right _ (List.mem_cons_of_mem _ h1)

theorem cinv_release {s : St} (h : CInv s) : CInv (release s).1 := by
  unfold release
  exact cinv_finishAll s.hand { s with gates := [], hand := [] } rfl rfl h.bal h.hand_le h.conn_full h.wf

theorem kq_gateEv (s : St) (a : Nat) : KeepQ s (gateEv s a) := by
  unfold gateEv; split <;> exact ⟨rfl, rfl, rfl, rfl, rfl, id⟩

theorem cinv_feed {s : St} (h : CInv s) (f : Feed) : CInv (feed s f).1 := by
  unfold feed
  split
  · exact h
  · have hp := h.keep (kq_prodIO s)
    split
    · rename_i ad k hak
      constructor
      · exact hp.hand_le
      · show (prodIO s).1.rUnf + 1 = ((prodIO s).1.readQ ++ [f]).length + (prodIO s).1.hand.length
        have := hp.bal; simp; omega
      · exact hp.conn_full
      · intro g hg
        have : g ∈ ((prodIO s).1.readQ ++ [f]) ++ (prodIO s).1.hand := hg
        rcases List.mem_append.mp this with h1 | h1
        · rcases List.mem_append.mp h1 with h2 | h2
          · exact hp.wf g (List.mem_append_left _ h2)
          · have : g = f := by simpa using h2
            rw [this, hak]; rfl
        · exact hp.wf g (List.mem_append_right _ h1)
    · exact hp

theorem cinv_lostRun {s : St} (hi : Inv s) (h : CInv s) : CInv (lostRun s).1 := by
  simp only [lostRun]
  split
  · exact h
  · split
    · exact h.keep ⟨rfl, rfl, rfl, rfl, rfl, id⟩
    · have h' : CInv { s with lostPending := false, connected := false } :=
        h.keep ⟨rfl, rfl, rfl, rfl, rfl, fun hc => by cases hc⟩
      split
      · exact cinv_lostFinish (s := { s with lostPending := false, connected := false }) hi.cons_le h'
      · exact h'.keep ⟨rfl, rfl, rfl, rfl, rfl, id⟩

theorem cinv_lostRun2 {s : St} (hi : Inv s) (h : CInv s) : CInv (lostRun2 s).1 := by
  simp only [lostRun2]
  split
  · exact h
  · exact cinv_lostFinish (s := { s with lostMid := false }) hi.cons_le (h.keep ⟨rfl, rfl, rfl, rfl, rfl, id⟩)

theorem cinv_fire {s : St} (hi : Inv s) (h : CInv s) (k : Timer) : CInv (fire s k).1 := by
  unfold fire
  split
  · exact h
  · split
    · exact h
    · cases k with
      | readTO => exact h.keep (kq_prodFault s)
      | writeTO => exact h.keep ((kq_prodFault s).trans (kq_latch _))
      | wcloseTO =>
        exact cinv_reconnectInvoke (s := { s with recon := .idle, writer := none }) hi.cons_le (h.keep ⟨rfl, rfl, rfl, rfl, rfl, id⟩)
      | openTO =>
        simp only []
        split
        · exact (h.keep (s' := { s with recon := .idle }) ⟨rfl, rfl, rfl, rfl, rfl, id⟩).keep (kq_openFailed _ _)
        · exact h
      | backoffEnd =>
        exact cinv_doOpen (s := { s with recon := .idle }) hi.cons_le (h.keep ⟨rfl, rfl, rfl, rfl, rfl, id⟩) _
      | setup a => exact h.keep (kq_fireSetup s a)
      | cwcloseTO =>
        simp only []
        split
        · rw [finishClose_fst]; exact h.keep ⟨rfl, rfl, rfl, rfl, rfl, id⟩
        · exact h

theorem kq_reopenEv (s : St) : KeepQ s (reopenEv s).1 := by
  unfold reopenEv; split <;> exact ⟨rfl, rfl, rfl, rfl, rfl, id⟩

theorem kq_versionsGo (s : St) : KeepQ s (versionsGo s).1 := by
  unfold versionsGo; split <;> exact ⟨rfl, rfl, rfl, rfl, rfl, id⟩

theorem cinv_step {s : St} (hi : Inv s) (h : CInv s) (e : Ev) : CInv (step s e).1 := by
  unfold step stepDone stepLive
  split
  · split <;> first | exact h | exact h.keep ⟨rfl, rfl, rfl, rfl, rfl, id⟩ | exact h.keep (kq_reopenEv s)
  · cases e with
    | reopen => exact h
    | versionsGo => exact h.keep (kq_versionsGo s)
    | connect => simp only []; split <;> first | exact h | exact cinv_doOpen hi.cons_le h _
    | feed f => exact cinv_feed h f
    | readFault => simp only []; split <;> first | exact h | exact h.keep (kq_prodFault s)
    | setDrain m => simp only []; split <;> first | exact h | exact h.keep ⟨rfl, rfl, rfl, rfl, rfl, id⟩
    | setClose m => simp only []; split <;> first | exact h | exact h.keep ⟨rfl, rfl, rfl, rfl, rfl, id⟩
    | enq n => exact h.keep ⟨rfl, rfl, rfl, rfl, rfl, id⟩
    | park t => exact h.keep (kq_park s t)
    | close => exact h.keep (kq_closeEv s)
    | advance dt => simp only []; split <;> first | exact h | exact h.keep ⟨rfl, rfl, rfl, rfl, rfl, id⟩
    | tick k => exact cinv_fire hi h k
    | prodStart => simp only []; split <;> first | exact h | exact h.keep (kq_prodIO s)
    | lostRun => exact cinv_lostRun hi h
    | lostRun2 => exact cinv_lostRun2 hi h
    | shutdownRun => exact cinv_shutdownRun h
    | setupGo => exact h.keep (kq_setupGo s)
    | gate a => exact h.keep (kq_gateEv s a)
    | release => exact cinv_release h
    | take => exact cinv_take h

theorem cinv_run {s : St} (hi : Inv s) (h : CInv s) (es : List Ev) : CInv (run s es).1 := by
  induction es generalizing s with
  | nil => exact h
  | cons e es ih => exact ih (inv_step hi e) (cinv_step hi h e)

theorem Reachable.cinv {s : St} (h : Reachable s) : CInv s := by
  obtain ⟨cfg, rc, sc, es, rfl⟩ := h
  exact cinv_run (inv_init cfg rc sc) (cinv_init cfg rc sc) es


/-! ### every frame put on the read queue is delivered to the device of its address -/

def isPut (a k : Nat) : Out → Bool
  | .put a' k' => a' == a && k' == k
  | _ => false

def isDel (a k : Nat) : Out → Bool
  | .deliver a' k' => a' == a && k' == k
  | _ => false

def nPut (a k : Nat) (l : List Out) : Nat := l.countP (isPut a k)
def nDel (a k : Nat) (l : List Out) : Nat := l.countP (isDel a k)

/-- frames from `a` of kind `k` that are queued or in a consumer's hand -/
def isFor (a k : Nat) (f : Feed) : Bool := f.addr? == some (a, k)
def pendF (s : St) (a k : Nat) : Nat := (s.readQ ++ s.hand).countP (isFor a k)

/-- outputs without `put` / `deliver` -/
def NoFr (l : List Out) : Prop := ∀ o ∈ l, (match o with | .put _ _ => false | .deliver _ _ => false | _ => true) = true

theorem NoFr.counts {l : List Out} (h : NoFr l) (a k : Nat) : nPut a k l = 0 ∧ nDel a k l = 0 := by
  constructor
  · unfold nPut; rw [List.countP_eq_zero]; intro o ho; have := h o ho; cases o <;> simp_all [isPut]
  · unfold nDel; rw [List.countP_eq_zero]; intro o ho; have := h o ho; cases o <;> simp_all [isDel]

theorem nofr_nil : NoFr [] := by intro o ho; cases ho

theorem NoFr.append {a b : List Out} (ha : NoFr a) (hb : NoFr b) : NoFr (a ++ b) := by
  intro o ho
  rcases List.mem_append.mp ho with h | h
  · exact ha o h
  · exact hb o h

theorem nofr_cons {o : Out} {l : List Out} (ho : (match o with | .put _ _ => false | .deliver _ _ => false | _ => true) = true)
    (hl : NoFr l) : NoFr (o :: l) := by
  intro x hx
  rcases List.mem_cons.mp hx with rfl | h
  · exact ho
  · exact hl x h

theorem nofr_annAll (s : St) (v f : Bool) : NoFr (annAll s v f) := by
  intro o ho
  unfold annAll at ho
  rw [List.mem_map] at ho
  obtain ⟨d, _, rfl⟩ := ho
  rfl

/-- queue and hands untouched -/
structure SameRH (s s' : St) : Prop where
  readQ : s'.readQ = s.readQ
  hand : s'.hand = s.hand

theorem SameRH.pend {s s' : St} (h : SameRH s s') (a k : Nat) : pendF s' a k = pendF s a k := by
  unfold pendF; rw [h.readQ, h.hand]

theorem KeepQ.rh {s s' : St} (h : KeepQ s s') : SameRH s s' := ⟨h.readQ, h.hand⟩

theorem SameRH.trans {a b c : St} (h1 : SameRH a b) (h2 : SameRH b c) : SameRH a c :=
  ⟨h2.readQ.trans h1.readQ, h2.hand.trans h1.hand⟩

/-- a function application that neither queues nor delivers nor moves a frame -/
structure FrNeutral (s : St) (r : St × List Out) : Prop where
  rh : SameRH s r.1
  outs : NoFr r.2

theorem frn_doOpen (s : St) (o : Owner) : FrNeutral s (doOpen s o) := by
  have hp : SameRH s (popScript s).2 := (kq_popScript s).rh
  simp only [doOpen]
  split
  · exact ⟨hp.trans ⟨rfl, rfl⟩, nofr_cons rfl (nofr_annAll _ _ _)⟩
  · refine ⟨hp.trans (kq_openFailed _ o).rh, nofr_cons rfl ?_⟩
    unfold openFailed; split
    · exact nofr_cons rfl nofr_nil
    · exact nofr_nil
  · exact ⟨hp.trans ⟨rfl, rfl⟩, nofr_cons rfl nofr_nil⟩

theorem frn_reconnectInvoke (s : St) : FrNeutral s (reconnectInvoke s) := by
  unfold reconnectInvoke; split
  · exact frn_doOpen s _
  · exact ⟨⟨rfl, rfl⟩, nofr_nil⟩

theorem frn_lostFinish (s : St) : FrNeutral s (lostFinish s) := by
  have hcw : NoFr (closeWriter s).2 := by
    unfold closeWriter; split
    · exact nofr_cons rfl nofr_nil
    · exact nofr_nil
  simp only [lostFinish]
  split
  · refine ⟨?_, hcw⟩
    rw [closeWriter_fst'']; exact ⟨rfl, rfl⟩
  · have r := frn_reconnectInvoke { (closeWriter s).1 with writer := none }
    refine ⟨?_, hcw.append r.outs⟩
    have : SameRH s { (closeWriter s).1 with writer := none } := by rw [closeWriter_fst'']; exact ⟨rfl, rfl⟩
    exact this.trans r.rh

theorem frn_prodFault (s : St) : FrNeutral s (prodFault s) := ⟨⟨rfl, rfl⟩, nofr_cons rfl nofr_nil⟩

theorem frn_prodIO (s : St) : FrNeutral s (prodIO s) := by
  refine ⟨(kq_prodIO s).rh, ?_⟩
  simp only [prodIO, prodIO']
  split
  · split
    · exact nofr_cons rfl nofr_nil
    · exact nofr_cons rfl (nofr_cons rfl nofr_nil)
    · exact nofr_cons rfl nofr_nil
  · exact nofr_nil

theorem nDel_handle (s : St) (f : Feed) (a k : Nat) :
    nPut a k (handle s f).2 = 0 ∧ nDel a k (handle s f).2 = (if isFor a k f then 1 else 0) := by
  have he : ∀ ds ad, NoFr (ensureDev ds ad).2 := by
    intro ds ad; unfold ensureDev; split
    · exact nofr_nil
    · exact nofr_cons rfl (nofr_cons rfl nofr_nil)
  cases f with
  | foreign => simp [handle, nPut, nDel, isFor, Feed.addr?]
  | bad => simp [handle, nPut, nDel, isFor, Feed.addr?]
  | orphan ad =>
    simp only [handle, nPut, nDel, List.countP_cons, List.countP_nil, isPut, isDel, isFor, Feed.addr?]
    constructor
    · simp
    · by_cases h : (ad == a && kindUndec == k) = true
      · have : (some (ad, kindUndec) == some (a, k)) = true := by
          simp only [Bool.and_eq_true, beq_iff_eq] at h; simp [h.1, h.2]
        simp [h, this]
      · have : (some (ad, kindUndec) == some (a, k)) = false := by
          simp only [Bool.and_eq_true, beq_iff_eq, not_and] at h
          simp only [beq_eq_false_iff_ne, ne_eq, Option.some.injEq, Prod.mk.injEq, not_and]; exact h
        simp [h, this]
  | undec =>
    have c := (he s.devices ecomaxAddr).counts a k
    simp only [handle, nPut, nDel, List.countP_append] at c ⊢
    rw [c.1, c.2]
    simp only [List.countP_cons, List.countP_nil, isPut, isDel, isFor, Feed.addr?]
    constructor
    · simp
    · by_cases h : (ecomaxAddr == a && kindUndec == k) = true
      · have : (some (ecomaxAddr, kindUndec) == some (a, k)) = true := by
          simp only [Bool.and_eq_true, beq_iff_eq] at h; simp [h.1, h.2]
        simp [h, this]
      · have : (some (ecomaxAddr, kindUndec) == some (a, k)) = false := by
          simp only [Bool.and_eq_true, beq_iff_eq, not_and] at h
          simp only [beq_eq_false_iff_ne, ne_eq, Option.some.injEq, Prod.mk.injEq, not_and]; exact h
        simp [h, this]
  | pw ad =>
    have c := (he s.devices ad).counts a k
    simp only [handle, nPut, nDel, List.countP_append] at c ⊢
    rw [c.1, c.2]
    simp only [List.countP_cons, List.countP_nil, isPut, isDel, isFor, Feed.addr?]
    constructor
    · simp
    · by_cases h : (ad == a && kindPassword == k) = true
      · have : (some (ad, kindPassword) == some (a, k)) = true := by
          simp only [Bool.and_eq_true, beq_iff_eq] at h; simp [h.1, h.2]
        simp [h, this]
      · have : (some (ad, kindPassword) == some (a, k)) = false := by
          simp only [Bool.and_eq_true, beq_iff_eq, not_and] at h
          simp only [beq_eq_false_iff_ne, ne_eq, Option.some.injEq, Prod.mk.injEq, not_and]; exact h
        simp [h, this]
  | sensors m t =>
    have c := (he s.devices ecomaxAddr).counts a k
    simp only [handle, nPut, nDel, List.countP_append] at c ⊢
    rw [c.1, c.2]
    simp only [List.countP_cons, List.countP_nil, isPut, isDel, isFor, Feed.addr?]
    constructor
    · simp
    · by_cases h : (ecomaxAddr == a && kindSensors == k) = true
      · have : (some (ecomaxAddr, kindSensors) == some (a, k)) = true := by
          simp only [Bool.and_eq_true, beq_iff_eq] at h; simp [h.1, h.2]
        simp [h, this]
      · have : (some (ecomaxAddr, kindSensors) == some (a, k)) = false := by
          simp only [Bool.and_eq_true, beq_iff_eq, not_and] at h
          simp only [beq_eq_false_iff_ne, ne_eq, Option.some.injEq, Prod.mk.injEq, not_and]; exact h
        simp [h, this]
  | versions vs =>
    have c := (he s.devices ecomaxAddr).counts a k
    simp only [handle, nPut, nDel, List.countP_append] at c ⊢
    rw [c.1, c.2]
    simp only [List.countP_cons, List.countP_nil, isPut, isDel, isFor, Feed.addr?]
    constructor
    · simp
    · by_cases h : (ecomaxAddr == a && kindSensors == k) = true
      · have : (some (ecomaxAddr, kindSensors) == some (a, k)) = true := by
          simp only [Bool.and_eq_true, beq_iff_eq] at h; simp [h.1, h.2]
        simp [h, this]
      · have : (some (ecomaxAddr, kindSensors) == some (a, k)) = false := by
          simp only [Bool.and_eq_true, beq_iff_eq, not_and] at h
          simp only [beq_eq_false_iff_ne, ne_eq, Option.some.injEq, Prod.mk.injEq, not_and]; exact h
        simp [h, this]

theorem finishFrame_outs (s : St) (f : Feed) (ad k' : Nat) (hf : f.addr? = some (ad, k')) (a k : Nat) :
    nPut a k (finishFrame s f).2 = 0 ∧ nDel a k (finishFrame s f).2 = (if isFor a k f then 1 else 0) := by
  simp only [finishFrame, hf]
  exact nDel_handle _ f a k

theorem process_outs (s : St) (f : Feed) (ad k' : Nat) (hf : f.addr? = some (ad, k')) (a k : Nat) :
    nPut a k (process s f).2.1 = 0 ∧
    nDel a k (process s f).2.1 = (if (process s f).2.2 then 0 else if isFor a k f then 1 else 0) := by
  have he : NoFr (enter s ad).2.1 := by
    unfold enter; split
    · exact nofr_nil
    · exact nofr_cons rfl (nofr_cons rfl nofr_nil)
  have ce := he.counts a k
  simp only [process, hf]
  split
  · have cf := finishFrame_outs s f ad k' hf a k
    simpa using cf
  · split
    · simp [ce.1, ce.2]
    · have cf := finishFrame_outs (enter s ad).1 f ad k' hf a k
      simp only [nPut, nDel, List.countP_append] at ce cf ⊢
      rw [ce.1, ce.2, cf.1, cf.2]; simp

theorem countP_isFor_cons (a k : Nat) (f : Feed) (l : List Feed) :
    (f :: l).countP (isFor a k) = (if isFor a k f then 1 else 0) + l.countP (isFor a k) := by
  rw [List.countP_cons]; omega

/-- balance of one application: frames put + frames pending before = frames delivered + pending after -/
def FrBal (s : St) (r : St × List Out) (a k : Nat) : Prop :=
  nPut a k r.2 + pendF s a k = nDel a k r.2 + pendF r.1 a k

theorem FrNeutral.bal {s : St} {r : St × List Out} (h : FrNeutral s r) (a k : Nat) : FrBal s r a k := by
  unfold FrBal
  rw [(h.outs.counts a k).1, (h.outs.counts a k).2, h.rh.pend]

theorem frbal_take {s : St} (h : CInv s) (a k : Nat) : FrBal s (take s) a k := by
  cases hq : s.readQ with
  | nil =>
    have : take s = (s, []) := by simp [take, hq]
    unfold FrBal; rw [this]; rfl
  | cons f rest =>
    have hfa : f.addr?.isSome = true := h.wf f (by rw [hq]; simp)
    obtain ⟨ad, k', hak⟩ : ∃ ad k', f.addr? = some (ad, k') := by
      cases hx : f.addr? with
      | none => simp [hx] at hfa
      | some p => exact ⟨p.1, p.2, rfl⟩
    by_cases hidle : idle s = 0
    · have : take s = (s, []) := by simp [take, hq, hidle]
      unfold FrBal; rw [this]; rfl
    · by_cases hh : s.hand = []
      · let s1 : St := { s with readQ := rest }
        have ht : take s = (if (process s1 f).2.2 then { (process s1 f).1 with hand := [f] } else (process s1 f).1,
            (process s1 f).2.1) := by
          simp [take, hq, hidle, hh, s1]
        obtain ⟨p1, p2, _, _, _⟩ := process_fields s1 f ad k' hak
        obtain ⟨o1, o2⟩ := process_outs s1 f ad k' hak a k
        unfold FrBal
        rw [ht]
        simp only []
        rw [o1, o2]
        cases hb : (process s1 f).2.2
        · simp only [Bool.false_eq_true, ↓reduceIte, pendF, p1, p2, hq, List.countP_append, countP_isFor_cons]
          show 0 + _ = _ + (rest.countP (isFor a k) + s.hand.countP (isFor a k))
          omega
        · simp only [↓reduceIte, pendF, hq, List.countP_append, countP_isFor_cons]
          rw [p1, hh]
          show _ = 0 + (rest.countP (isFor a k) + ((if isFor a k f = true then 1 else 0) + ([] : List Feed).countP (isFor a k)))
          simp; omega
      · have ht : take s = ({ s with readQ := rest, hand := s.hand ++ [f] }, []) := by
          simp [take, hq, hidle, hh]
        unfold FrBal
        rw [ht]
        simp only [nPut, nDel, List.countP_nil, pendF, hq, List.countP_append, countP_isFor_cons]
        omega

theorem frbal_finishAll : ∀ (l : List Feed) (t : St) (a k : Nat), t.gates = [] → (∀ f ∈ l, f.addr?.isSome = true) →
    nDel a k (finishAll l t).2 = l.countP (isFor a k) ∧ nPut a k (finishAll l t).2 = 0 ∧
    (finishAll l t).1.readQ = t.readQ ∧ (finishAll l t).1.hand = t.hand
  | [], t, a, k, _, _ => ⟨rfl, rfl, rfl, rfl⟩
  | f :: fs, t, a, k, hg, hw => by
    have hfa := hw f (by simp)
    obtain ⟨ad, k', hak⟩ : ∃ ad k', f.addr? = some (ad, k') := by
      cases hx : f.addr? with
      | none => simp [hx] at hfa
      | some p => exact ⟨p.1, p.2, rfl⟩
    obtain ⟨p1, p2, _, _, _⟩ := process_fields t f ad k' hak
    obtain ⟨o1, o2⟩ := process_outs t f ad k' hak a k
    rw [process_not_blocked t f hg] at o2
    obtain ⟨i1, i2, i3, i4⟩ := frbal_finishAll fs (process t f).1 a k (by rw [process_gates]; exact hg)
      (fun g hgm => hw g (List.mem_cons_of_mem _ hgm))
    simp only [finishAll, nDel, nPut, List.countP_append] at i1 i2 o1 o2 ⊢
    refine ⟨?_, ?_, i3.trans p1, i4.trans p2⟩
    · rw [o2, i1, countP_isFor_cons]; simp
    · rw [o1, i2]

theorem frbal_release {s : St} (h : CInv s) (a k : Nat) : FrBal s (release s) a k := by
  obtain ⟨i1, i2, i3, i4⟩ := frbal_finishAll s.hand { s with gates := [], hand := [] } a k rfl
    (fun f hf => h.wf f (List.mem_append_right _ hf))
  unfold FrBal release
  rw [i1, i2]
  simp only [pendF, i3, i4, List.countP_append, List.countP_nil]
  omega


theorem frn_refl (s : St) : FrNeutral s (s, []) := ⟨⟨rfl, rfl⟩, nofr_nil⟩

theorem frn_lostRun (s : St) : FrNeutral s (lostRun s) := by
  simp only [lostRun]
  split
  · exact frn_refl s
  · split
    · exact ⟨⟨rfl, rfl⟩, nofr_nil⟩
    · split
      · have r := frn_lostFinish { s with lostPending := false, connected := false }
        exact ⟨⟨r.rh.readQ, r.rh.hand⟩, (nofr_annAll _ _ _).append r.outs⟩
      · exact ⟨⟨rfl, rfl⟩, nofr_annAll _ _ _⟩

theorem frn_lostRun2 (s : St) : FrNeutral s (lostRun2 s) := by
  simp only [lostRun2]
  split
  · exact frn_refl s
  · have r := frn_lostFinish { s with lostMid := false }
    exact ⟨⟨r.rh.readQ, r.rh.hand⟩, r.outs⟩

theorem nofr_fireSetup (s : St) (a : Nat) : NoFr (fireSetup s a).2 := by
  unfold fireSetup
  split
  · exact nofr_nil
  · split
    · split <;> exact nofr_nil
    · exact nofr_nil

theorem frn_fire (s : St) (k : Timer) : FrNeutral s (fire s k) := by
  unfold fire
  split
  · exact frn_refl s
  · split
    · exact frn_refl s
    · cases k with
      | readTO => exact frn_prodFault s
      | writeTO => exact ⟨(frn_prodFault s).rh.trans (kq_latch _).rh, (frn_prodFault s).outs⟩
      | wcloseTO =>
        have r := frn_reconnectInvoke { s with recon := .idle, writer := none }
        exact ⟨⟨r.rh.readQ, r.rh.hand⟩, r.outs⟩
      | openTO =>
        simp only []
        split
        · refine ⟨SameRH.trans (b := { s with recon := .idle }) ⟨rfl, rfl⟩ (kq_openFailed _ _).rh, ?_⟩
          unfold openFailed; split
          · exact nofr_cons rfl nofr_nil
          · exact nofr_nil
        · exact frn_refl s
      | backoffEnd =>
        have r := frn_doOpen { s with recon := .idle } .conn
        exact ⟨⟨r.rh.readQ, r.rh.hand⟩, r.outs⟩
      | setup a => exact ⟨(kq_fireSetup s a).rh, nofr_fireSetup s a⟩
      | cwcloseTO =>
        simp only []
        split
        · exact ⟨⟨by rw [finishClose_fst], by rw [finishClose_fst]⟩, nofr_cons rfl nofr_nil⟩
        · exact frn_refl s

theorem frn_reopenEv (s : St) : FrNeutral s (reopenEv s) := by
  unfold reopenEv; split <;> exact ⟨⟨rfl, rfl⟩, nofr_nil⟩

/-- **frames are neither lost nor duplicated** (one step): for every address and frame kind,
frames put on the read queue + frames pending before = frames delivered to that device +
frames pending after.  Only `shutdown()` (which cancels consumers holding frames) is excluded. -/
theorem step_frames {s : St} (h : CInv s) (e : Ev) (hne : e ≠ .shutdownRun) (a k : Nat) : FrBal s (step s e) a k := by
  unfold step stepDone stepLive
  split
  · split <;> first | exact (frn_refl s).bal a k | exact FrNeutral.bal ⟨⟨rfl, rfl⟩, nofr_nil⟩ a k | exact (frn_reopenEv s).bal a k
  · cases e with
    | reopen => exact (frn_refl s).bal a k
    | versionsGo =>
      refine FrNeutral.bal ⟨(kq_versionsGo s).rh, ?_⟩ a k
      unfold versionsGo; split <;> exact nofr_nil
    | connect => simp only []; split <;> first | exact (frn_refl s).bal a k | exact (frn_doOpen s _).bal a k
    | feed f =>
      simp only [feed]
      split
      · exact (frn_refl s).bal a k
      · have r := frn_prodIO s
        have rb := r.bal a k
        split
        · rename_i ad k' hak
          unfold FrBal at rb ⊢
          show nPut a k ((prodIO s).2 ++ [Out.put ad k']) + pendF s a k
              = nDel a k ((prodIO s).2 ++ [Out.put ad k']) + pendF { (prodIO s).1 with readQ := (prodIO s).1.readQ ++ [f], rUnf := (prodIO s).1.rUnf + 1 } a k
          have hp : pendF { (prodIO s).1 with readQ := (prodIO s).1.readQ ++ [f], rUnf := (prodIO s).1.rUnf + 1 } a k
              = pendF (prodIO s).1 a k + (if isFor a k f then 1 else 0) := by
            simp only [pendF, List.countP_append, countP_isFor_cons, List.countP_nil]; omega
          have hput : nPut a k [Out.put ad k'] = (if isFor a k f then 1 else 0) := by
            simp only [nPut, List.countP_cons, List.countP_nil, isPut, isFor, hak]
            by_cases hx : (ad == a && k' == k) = true
            · have : (some (ad, k') == some (a, k)) = true := by
                simp only [Bool.and_eq_true, beq_iff_eq] at hx; simp [hx.1, hx.2]
              simp [hx, this]
            · have : (some (ad, k') == some (a, k)) = false := by
                simp only [Bool.and_eq_true, beq_iff_eq, not_and] at hx
                simp only [beq_eq_false_iff_ne, ne_eq, Option.some.injEq, Prod.mk.injEq, not_and]; exact hx
              simp [hx, this]
          have hdel : nDel a k [Out.put ad k'] = 0 := by simp [nDel, isDel]
          simp only [nPut, nDel, List.countP_append] at rb hput hdel ⊢
          rw [hp, hput, hdel]; omega
        · exact rb
    | readFault => simp only []; split <;> first | exact (frn_refl s).bal a k | exact (frn_prodFault s).bal a k
    | setDrain m => simp only []; split <;> first | exact (frn_refl s).bal a k | exact FrNeutral.bal ⟨⟨rfl, rfl⟩, nofr_nil⟩ a k
    | setClose m => simp only []; split <;> first | exact (frn_refl s).bal a k | exact FrNeutral.bal ⟨⟨rfl, rfl⟩, nofr_nil⟩ a k
    | enq n => exact FrNeutral.bal ⟨⟨rfl, rfl⟩, nofr_nil⟩ a k
    | park t => exact FrNeutral.bal ⟨(kq_park s t).rh, nofr_nil⟩ a k
    | close =>
      refine FrNeutral.bal ⟨(kq_closeEv s).rh, ?_⟩ a k
      unfold closeEv; split <;> exact nofr_nil
    | advance dt => simp only []; split <;> first | exact (frn_refl s).bal a k | exact FrNeutral.bal ⟨⟨rfl, rfl⟩, nofr_nil⟩ a k
    | tick t => exact (frn_fire s t).bal a k
    | prodStart => simp only []; split <;> first | exact (frn_refl s).bal a k | exact (frn_prodIO s).bal a k
    | lostRun => exact (frn_lostRun s).bal a k
    | lostRun2 => exact (frn_lostRun2 s).bal a k
    | shutdownRun => exact absurd rfl hne
    | setupGo =>
      refine FrNeutral.bal ⟨(kq_setupGo s).rh, ?_⟩ a k
      unfold setupGo; split <;> exact nofr_nil
    | gate g => exact FrNeutral.bal ⟨(kq_gateEv s g).rh, nofr_nil⟩ a k
    | release => exact frbal_release h a k
    | take => exact frbal_take h a k


/-! ### one entry per address -/

theorem hasDev_false_iff (ds : List Dev) (a : Nat) : hasDev ds a = false → a ∉ ds.map Dev.addr := by
  intro h hm
  rw [List.mem_map] at hm
  obtain ⟨d, hd, rfl⟩ := hm
  have : hasDev ds d.addr = true := by
    unfold hasDev; rw [List.any_eq_true]; exact ⟨d, hd, by simp⟩
  rw [this] at h; cases h

theorem nd_append_new (l : List Nat) (a : Nat) (h : l.Nodup) (ha : a ∉ l) : (l ++ [a]).Nodup := by
  rw [List.nodup_append]
  refine ⟨h, by simp, ?_⟩
  intro x hx y hy
  have : y = a := by simpa using hy
  rw [this]; intro hxa; exact ha (hxa ▸ hx)

theorem nd_ensureDev (ds : List Dev) (a : Nat) (h : (ds.map Dev.addr).Nodup) :
    ((ensureDev ds a).1.map Dev.addr).Nodup := by
  unfold ensureDev
  split
  · exact h
  · rename_i hh
    simp only [List.map_append, List.map_cons, List.map_nil]
    exact nd_append_new _ _ h (hasDev_false_iff ds a (by simpa using hh))

theorem nd_handle (s : St) (f : Feed) (h : (addrs s).Nodup) : (addrs (handle s f).1).Nodup := by
  cases f with
  | foreign => exact h
  | bad => exact h
  | orphan a => exact h
  | undec => exact nd_ensureDev _ _ h
  | pw a =>
    show ((updDev (ensureDev s.devices a).1 a _).map Dev.addr).Nodup
    rw [map_addr_updDev]
    · exact nd_ensureDev _ _ h
    · intro d; rfl
  | versions vs =>
    show ((updDev (ensureDev s.devices ecomaxAddr).1 ecomaxAddr _).map Dev.addr).Nodup
    rw [map_addr_updDev]
    · exact nd_ensureDev _ _ h
    · intro d; rfl
  | sensors m t =>
    show ((updDev (ensureDev s.devices ecomaxAddr).1 ecomaxAddr _).map Dev.addr).Nodup
    rw [map_addr_updDev]
    · exact nd_ensureDev _ _ h
    · intro d; rfl

theorem nd_finishFrame (s : St) (f : Feed) (h : (addrs s).Nodup) : (addrs (finishFrame s f).1).Nodup := by
  unfold finishFrame
  split
  · exact h
  · rename_i ad k _
    have h1 : (addrs (handle (publish s ad) f).1).Nodup := nd_handle _ f (by rw [addrs_publish]; exact h)
    have h2 := addrs_latchR { (handle (publish s ad) f).1 with rUnf := (handle (publish s ad) f).1.rUnf - 1 }
    simp only []
    split
    · rw [h2]; exact h1
    · show (addrs (latchR _)).Nodup; rw [h2]; exact h1

theorem nd_enter (s : St) (ad : Nat) (h : (addrs s).Nodup) : (addrs (enter s ad).1).Nodup := by
  unfold enter
  split
  · exact h
  · rename_i hh
    show ((s.devices ++ [newDev ad]).map Dev.addr).Nodup
    simp only [List.map_append, List.map_cons, List.map_nil]
    exact nd_append_new _ _ h (hasDev_false_iff s.devices ad (by simpa using hh))

theorem nd_process (s : St) (f : Feed) (h : (addrs s).Nodup) : (addrs (process s f).1).Nodup := by
  unfold process
  split
  · exact h
  · rename_i ad k _
    simp only []
    split
    · exact nd_finishFrame s f h
    · split
      · exact nd_enter s ad h
      · exact nd_finishFrame _ f (nd_enter s ad h)

theorem nd_take (s : St) (h : (addrs s).Nodup) : (addrs (take s).1).Nodup := by
  unfold take
  split
  · exact h
  · rename_i f rest _
    split
    · exact h
    · split
      · exact h
      · have hp := nd_process { s with readQ := rest } f h
        simp only []
        split
        · exact hp
        · exact hp

theorem nd_finishAll (l : List Feed) (s : St) (h : (addrs s).Nodup) : (addrs (finishAll l s).1).Nodup := by
  induction l generalizing s with
  | nil => exact h
  | cons f fs ih => exact ih _ (nd_process s f h)

/-- every other step keeps the address list or is one of the above -/
theorem nd_step (s : St) (e : Ev) (h : (addrs s).Nodup) : (addrs (step s e).1).Nodup := by
  have same : ∀ s' : St, SameAddrs s s' → (addrs s').Nodup := by
    intro s' hs; unfold SameAddrs at hs; rw [hs]; exact h
  unfold step stepDone stepLive
  split
  · split <;> first | exact h | exact same _ (sa_reopenEv s)
  · cases e with
    | reopen => exact h
    | versionsGo => exact same _ (sa_versionsGo s)
    | connect => simp only []; split <;> first | exact h | exact same _ (sa_doOpen s _)
    | feed f =>
      simp only [feed]
      split
      · exact h
      · split
        · exact same _ (sa_prodIO s)
        · exact same _ (sa_prodIO s)
    | readFault => simp only []; split <;> exact h
    | setDrain m => simp only []; split <;> exact h
    | setClose m => simp only []; split <;> exact h
    | enq n => exact h
    | park t => exact same _ (sa_park s t)
    | close => exact same _ (sa_closeEv s)
    | advance dt => simp only []; split <;> exact h
    | tick k =>
      simp only []
      unfold fire
      split
      · exact h
      · split
        · exact h
        · cases k with
          | readTO => exact h
          | writeTO => exact same _ (sa_latch (prodFault s).1)
          | wcloseTO => exact same _ (sa_reconnectInvoke { s with recon := .idle, writer := none })
          | openTO =>
            simp only []
            split
            · unfold openFailed; split <;> exact h
            · exact h
          | backoffEnd => exact same _ (sa_doOpen { s with recon := .idle } .conn)
          | setup a => exact same _ (sa_fireSetup s a)
          | cwcloseTO =>
            simp only []
            split
            · exact same _ (sa_finishClose { s with writer := none } _)
            · exact h
    | prodStart => simp only []; split <;> first | exact h | exact same _ (sa_prodIO s)
    | lostRun =>
      simp only [lostRun]
      split
      · exact h
      · split
        · exact h
        · split
          · exact same _ (sa_lostFinish { s with lostPending := false, connected := false })
          · exact h
    | lostRun2 =>
      simp only [lostRun2]
      split
      · exact h
      · exact same _ (sa_lostFinish { s with lostMid := false })
    | shutdownRun =>
      simp only [shutdownRun]
      split
      · split
        · exact same _ ((sa_cancelProto s).trans' (sa_shutdownTail _ _))
        · exact h
      · exact h
    | setupGo => exact same _ (sa_setupGo s)
    | gate a => simp only [gateEv]; split <;> exact h
    | release => exact nd_finishAll s.hand { s with gates := [], hand := [] } h
    | take => exact nd_take s h

theorem Reachable.nodup {s : St} (h : Reachable s) : (addrs s).Nodup := by
  obtain ⟨cfg, rc, sc, es, rfl⟩ := h
  have : ∀ (es : List Ev) (t : St), (addrs t).Nodup → (addrs (Conn.run t es).1).Nodup := by
    intro es
    induction es with
    | nil => intro t ht; exact ht
    | cons e es ih => intro t ht; exact ih _ (nd_step t e ht)
  exact this es _ (by simp [addrs, init])


/-! ### connected=False at most once per loss and device, over whole histories -/

def isAnnF (a : Nat) : Out → Bool
  | .ann a' false _ => a' == a
  | _ => false

def nAnnF (a : Nat) (l : List Out) : Nat := l.countP (isAnnF a)

theorem nAnnF_le (a : Nat) (l : List Out) : nAnnF a l ≤ nAnnFalse l := by
  unfold nAnnF nAnnFalse
  apply List.countP_mono_left
  intro o _ ho
  cases o with
  | ann a' v f => cases v <;> simp_all [isAnnF, isAnnFalse]
  | _ => simp [isAnnF] at ho

theorem nAnnF_append (a : Nat) (x y : List Out) : nAnnF a (x ++ y) = nAnnF a x + nAnnF a y := List.countP_append

def lmN (s : St) : Nat := if s.lostMid then 1 else 0

/-- the loss handler's half-way flag is touched by the loss handler (and shutdown) only -/
theorem lm_step (s : St) (e : Ev) (h : e ≠ .lostRun ∧ e ≠ .lostRun2 ∧ e ≠ .shutdownRun) :
    (step s e).1.lostMid = s.lostMid := by
  obtain ⟨h1, h2, h3⟩ := h
  unfold step stepDone stepLive
  split
  · split <;> first | rfl | exact (same_reopenEv s).lostMid
  · cases e with
    | reopen => rfl
    | versionsGo => exact (samew_versionsGo s).lostMid
    | connect => simp only []; split <;> first | rfl | exact (samep_doOpen s _).lostMid
    | feed f => exact (samew_feed s f).lostMid
    | readFault => simp only []; split <;> rfl
    | setDrain m => simp only []; split <;> rfl
    | setClose m => simp only []; split <;> rfl
    | enq n => rfl
    | park t => exact (samew_park s t).lostMid
    | close => exact (samew_closeEv s).lostMid
    | advance dt => simp only []; split <;> rfl
    | tick k =>
      simp only []
      unfold fire
      split
      · rfl
      · split
        · rfl
        · cases k with
          | readTO => rfl
          | writeTO => exact (same_latch (prodFault s).1).lostMid
          | wcloseTO => exact (samep_reconnectInvoke { s with recon := .idle, writer := none }).lostMid
          | openTO =>
            simp only []
            split
            · unfold openFailed; split <;> rfl
            · rfl
          | backoffEnd => exact (samep_doOpen { s with recon := .idle } .conn).lostMid
          | setup a => exact (samew_fireSetup s a).lostMid
          | cwcloseTO =>
            simp only []
            split <;> first | rfl | (rw [finishClose_fst])
    | prodStart => simp only []; split <;> first | rfl | exact (samew_prodIO s).lostMid
    | lostRun => exact absurd rfl h1
    | lostRun2 => exact absurd rfl h2
    | shutdownRun => exact absurd rfl h3
    | setupGo => exact (samew_setupGo s).lostMid
    | gate a => exact (frames_gateEv s a).lostMid
    | release => exact (frames_release s).lostMid
    | take => exact (frames_take s).lostMid

theorem nAnnF_annAll_le_one (s : St) (a : Nat) (hn : (addrs s).Nodup) : nAnnF a (annAll s false false) ≤ 1 := by
  have hp : ((published s).map Dev.addr).Nodup := by
    unfold published
    exact List.Nodup.sublist (List.Sublist.map _ List.filter_sublist) hn
  unfold nAnnF annAll
  rw [List.countP_map]
  generalize published s = l at hp
  induction l with
  | nil => simp
  | cons d ds ih =>
    simp only [List.map_cons, List.nodup_cons] at hp
    rw [List.countP_cons]
    by_cases hda : d.addr = a
    · have : List.countP (isAnnF a ∘ fun d => Out.ann d.addr false false) ds = 0 := by
        rw [List.countP_eq_zero]
        intro d' hd'
        simp only [Function.comp, isAnnF, beq_iff_eq]
        intro hx
        exact hp.1 (List.mem_map.mpr ⟨d', hd', by rw [hx, hda]⟩)
      rw [this]; simp [isAnnF, hda]
    · have h0 : (isAnnF a ∘ fun d => Out.ann d.addr false false) d = false := by simp [isAnnF, hda]
      rw [h0]; simpa using ih hp.2

/-- one step: connected=False outputs for device `a` + half-done handlings before ≤ transports
closed + half-done handlings after -/
theorem step_announce {s : St} (hi : Inv s) (hw : WInv s) (hn : (addrs s).Nodup) (hcl : s.closing = .no)
    (e : Ev) (hne : e ≠ .close) (a : Nat) :
    nAnnF a (step s e).2 + lmN s ≤ nWclose (step s e).2 + lmN (step s e).1 := by
  have hnd : isDone s.closing = false := by rw [hcl]; rfl
  by_cases h1 : e = .lostRun
  · subst h1
    have e1 : step s .lostRun = lostRun s := by simp [step, stepDone, stepLive, hnd]
    rw [e1]
    simp only [lostRun]
    split
    · simp [nAnnF]
    · rename_i hlp
      simp only [Bool.not_eq_true, Bool.not_eq_false'] at hlp
      split
      · simp [nAnnF, lmN]
      · rename_i hc
        simp only [Bool.not_eq_true', Bool.not_eq_false] at hc
        have hm := hi.conn_mid hc
        have h1a := nAnnF_annAll_le_one { s with lostPending := false, connected := false } a hn
        have hlm0 : lmN s = 0 := by simp [lmN, hm]
        split
        · rename_i hemp
          have hnil : annAll { s with lostPending := false, connected := false } false false = [] := by
            unfold annAll
            have : published { s with lostPending := false, connected := false } = [] := by simpa using hemp
            rw [this]; rfl
          obtain ⟨hws, _⟩ := hw (by rw [hcl]; rfl) (Or.inl hc)
          obtain ⟨tid, htid⟩ := Option.isSome_iff_exists.mp hws
          obtain ⟨_, _, c3, _⟩ := lostFinish_counts { s with lostPending := false, connected := false } tid htid
          have hle := nAnnF_le a (lostFinish { s with lostPending := false, connected := false }).2
          rw [hnil, hlm0]
          show nAnnF a ([] ++ (lostFinish _).2) + 0 ≤ _
          rw [List.nil_append]
          have : nAnnF a (lostFinish { s with lostPending := false, connected := false }).2 = 0 := by omega
          rw [this]; exact Nat.zero_le _
        · rw [hlm0]
          show nAnnF a (annAll _ false false) + 0 ≤ nWclose (annAll _ false false) + 1
          omega
  · by_cases h2 : e = .lostRun2
    · subst h2
      have e1 : step s .lostRun2 = lostRun2 s := by simp [step, stepDone, stepLive, hnd]
      rw [e1]
      simp only [lostRun2]
      split
      · simp [nAnnF]
      · rename_i hm
        simp only [Bool.not_eq_true', Bool.not_eq_false] at hm
        obtain ⟨hws, _⟩ := hw (by rw [hcl]; rfl) (Or.inr hm)
        obtain ⟨tid, htid⟩ := Option.isSome_iff_exists.mp hws
        obtain ⟨_, f2, _, _⟩ := bal_lostFinish (s := { s with lostMid := false }) tid htid
        obtain ⟨_, _, c3, _⟩ := lostFinish_counts { s with lostMid := false } tid htid
        have hle := nAnnF_le a (lostFinish { s with lostMid := false }).2
        have hz : nAnnF a (lostFinish { s with lostMid := false }).2 = 0 := by omega
        have hl1 : lmN s = 1 := by simp [lmN, hm]
        rw [hz, f2, hl1]
        omega
    · by_cases h3 : e = .shutdownRun
      · subst h3
        have : step s .shutdownRun = (s, []) := by simp [step, stepDone, stepLive, hnd, shutdownRun, hcl]
        rw [this]; simp [nAnnF]
      · have hlm := lm_step s e ⟨h1, h2, h3⟩
        have hz : nAnnFalse (step s e).2 = 0 := by
          by_cases h4 : e = .connect
          · subst h4
            have e1 : (step s .connect).2 = [] ∨ (step s .connect).2 = (doOpen s .user).2 := by
              simp only [step, stepDone, stepLive, hnd, Bool.false_eq_true, ↓reduceIte]; split
              · left; rfl
              · right; rfl
            rcases e1 with e1 | e1
            · rw [e1]; rfl
            · rw [e1]; exact (doOpen_counts s .user).2.2.2
          · by_cases h5 : e = .tick .wcloseTO
            · subst h5
              have e1 : (step s (.tick .wcloseTO)).2 = [] ∨
                  (step s (.tick .wcloseTO)).2 = (reconnectInvoke { s with recon := .idle, writer := none }).2 := by
                simp only [step, stepDone, stepLive, hnd, Bool.false_eq_true, ↓reduceIte, fire]
                split
                · left; rfl
                · split
                  · left; rfl
                  · right; rfl
              rcases e1 with e1 | e1
              · rw [e1]; rfl
              · rw [e1]; exact (reconnectInvoke_counts _).2.2.2
            · by_cases h6 : e = .tick .backoffEnd
              · subst h6
                have e1 : (step s (.tick .backoffEnd)).2 = [] ∨
                    (step s (.tick .backoffEnd)).2 = (doOpen { s with recon := .idle } .conn).2 := by
                  simp only [step, stepDone, stepLive, hnd, Bool.false_eq_true, ↓reduceIte, fire]
                  split
                  · left; rfl
                  · split
                    · left; rfl
                    · right; rfl
                rcases e1 with e1 | e1
                · rw [e1]; rfl
                · rw [e1]; exact (doOpen_counts _ _).2.2.2
              · exact (calm_step s e ⟨h4, h1, h2, h3, h5, h6⟩).2.2
        have := nAnnF_le a (step s e).2
        simp only [lmN, hlm]
        omega


/-! ### the reconnect routine is invoked once per loss, over whole histories -/

def isLossStep : Ev → Bool
  | .lostRun => true
  | .lostRun2 => true
  | .tick .wcloseTO => true
  | _ => false

/-- `_open_connection` calls made by the loss handling itself (first attempts: not the retries
after a back-off, not the user's connect()) along a run -/
def nInvoke (s : St) : List Ev → Nat
  | [] => 0
  | e :: es => (if isLossStep e then nOpen (step s e).2 else 0) + nInvoke (step s e).1 es

/-- a loss handler sits in a hung `wait_closed()` and has not invoked the reconnect routine yet -/
def pendW (s : St) : Nat := match s.recon with | .wclosing _ => 1 | _ => 0

theorem doOpen_pendW (s : St) (o : Owner) : pendW (doOpen s o).1 = 0 := by
  simp only [doOpen]
  split
  · rfl
  · unfold openFailed; split <;> rfl
  · rfl

theorem reconnectInvoke_pendW (s : St) (h : pendW s = 0) : pendW (reconnectInvoke s).1 = 0 := by
  unfold reconnectInvoke; split
  · exact doOpen_pendW s _
  · exact h

/-- second half of the loss handling with reconnecting enabled: one close, and either the
routine is invoked at once or the handler waits for `wait_closed()` -/
theorem lostFinish_invoke (s : St) (tid : Nat) (hw : s.writer = some tid) (hrc : s.rcOn = true) (hp : pendW s = 0) :
    nOpen (lostFinish s).2 + pendW (lostFinish s).1 = 1 ∧ nWclose (lostFinish s).2 = 1 := by
  obtain ⟨_, f2, _, _⟩ := bal_lostFinish (s := s) tid hw
  obtain ⟨_, _, _, c4⟩ := lostFinish_counts s tid hw
  refine ⟨?_, f2⟩
  rw [c4]
  have hcw : closeWriter s = ({ s with wopen := false }, [.wclose tid]) := by simp [closeWriter, hw]
  by_cases hh : closeHangs s = true
  · simp only [hh, ↓reduceIte, lostFinish, hcw]
    rfl
  · have hone : (if s.rcOn = true then 1 else 0) = 1 := by simp [hrc]
    simp only [hh, Bool.false_eq_true, ↓reduceIte, lostFinish, hcw]
    rw [hone]
    have := reconnectInvoke_pendW { s with wopen := false, writer := none } hp
    show 1 + pendW (reconnectInvoke { s with wopen := false, writer := none }).1 = 1
    rw [this]

/-- the reconnect state is touched only by connect(), the loss handling, its timers and close() -/
theorem recon_step (s : St) (e : Ev) (hcl : s.closing = .no)
    (h : e ≠ .connect ∧ e ≠ .lostRun ∧ e ≠ .lostRun2 ∧ e ≠ .shutdownRun ∧ e ≠ .close ∧ e ≠ .tick .wcloseTO ∧
         e ≠ .tick .backoffEnd ∧ e ≠ .tick .openTO) : (step s e).1.recon = s.recon := by
  obtain ⟨h1, h2, h3, h4, h5, h6, h7, h8⟩ := h
  unfold step stepDone stepLive
  split
  · split <;> first | rfl | exact (same_reopenEv s).recon
  · cases e with
    | reopen => rfl
    | versionsGo => exact (same_versionsGo s).recon
    | connect => exact absurd rfl h1
    | feed f =>
      simp only [feed]
      split
      · rfl
      · split
        · exact (same_latch _).recon.trans (by unfold prodIO'; split <;> (try split) <;> rfl)
        · exact (same_latch _).recon.trans (by unfold prodIO'; split <;> (try split) <;> rfl)
    | readFault => simp only []; split <;> rfl
    | setDrain m => simp only []; split <;> rfl
    | setClose m => simp only []; split <;> rfl
    | enq n => rfl
    | park t => exact (same_park s t).recon
    | close => exact absurd rfl h5
    | advance dt => simp only []; split <;> rfl
    | tick k =>
      simp only []
      unfold fire
      split
      · rfl
      · split
        · rfl
        · cases k with
          | readTO => rfl
          | writeTO => exact (same_latch (prodFault s).1).recon
          | wcloseTO => exact absurd rfl h6
          | openTO => exact absurd rfl h8
          | backoffEnd => exact absurd rfl h7
          | setup a => exact (same_fireSetup s a).recon
          | cwcloseTO => simp only []; split <;> first | rfl | (rename_i hx; rw [hcl] at hx; cases hx)
    | prodStart =>
      simp only []
      split
      · exact (same_latch _).recon.trans (by unfold prodIO'; split <;> (try split) <;> rfl)
      · rfl
    | lostRun => exact absurd rfl h2
    | lostRun2 => exact absurd rfl h3
    | shutdownRun => exact absurd rfl h4
    | setupGo => exact (same_setupGo s).recon
    | gate a => exact (frames_gateEv s a).recon
    | release => exact (frames_release s).recon
    | take => exact (frames_take s).recon

/-- one step, reconnecting enabled: first attempts made + handlers waiting in `wait_closed()`
after = transports closed + handlers waiting before -/
theorem step_invoke {s : St} (hi : Inv s) (hw : WInv s) (hcl : s.closing = .no) (hrc : s.rcOn = true)
    (e : Ev) (hne : e ≠ .close) :
    (if isLossStep e then nOpen (step s e).2 else 0) + pendW (step s e).1 = nWclose (step s e).2 + pendW s := by
  have hnd : isDone s.closing = false := by rw [hcl]; rfl
  have idle_of_conn : s.connected = true → pendW s = 0 := by
    intro hc; simp [pendW, hi.conn_recon hc]
  by_cases h1 : e = .lostRun
  · subst h1
    have e1 : step s .lostRun = lostRun s := by simp [step, stepDone, stepLive, hnd]
    rw [e1]
    simp only [isLossStep, ↓reduceIte, lostRun]
    split
    · simp [nOpen, nWclose]
    · rename_i hlp
      split
      · simp [nOpen, nWclose]; rfl
      · rename_i hc
        simp only [Bool.not_eq_true', Bool.not_eq_false] at hc
        have hp0 := idle_of_conn hc
        have a1 := countP_annAll { s with lostPending := false, connected := false } false false isOpenCall (fun _ => rfl)
        have a3 := countP_annAll { s with lostPending := false, connected := false } false false isWclose (fun _ => rfl)
        split
        · obtain ⟨hws, _⟩ := hw (by rw [hcl]; rfl) (Or.inl hc)
          obtain ⟨tid, htid⟩ := Option.isSome_iff_exists.mp hws
          obtain ⟨l1, l2⟩ := lostFinish_invoke { s with lostPending := false, connected := false } tid htid hrc hp0
          have b1 : nOpen (annAll { s with lostPending := false, connected := false } false false) = 0 := a1
          have b3 : nWclose (annAll { s with lostPending := false, connected := false } false false) = 0 := a3
          show nOpen (annAll _ false false ++ (lostFinish _).2) + pendW (lostFinish _).1
              = nWclose (annAll _ false false ++ (lostFinish _).2) + pendW s
          rw [nOpen_append, nWclose_append, l2, b1, b3]
          omega
        · have b1 : nOpen (annAll { s with lostPending := false, connected := false } false false) = 0 := a1
          have b3 : nWclose (annAll { s with lostPending := false, connected := false } false false) = 0 := a3
          show nOpen (annAll _ false false) + pendW s = nWclose (annAll _ false false) + pendW s
          rw [b1, b3]
  · by_cases h2 : e = .lostRun2
    · subst h2
      have e1 : step s .lostRun2 = lostRun2 s := by simp [step, stepDone, stepLive, hnd]
      rw [e1]
      simp only [isLossStep, ↓reduceIte, lostRun2]
      split
      · simp [nOpen, nWclose]
      · rename_i hm
        simp only [Bool.not_eq_true', Bool.not_eq_false] at hm
        have hr := hi.mid_recon hm
        have hp0 : pendW s = 0 := by simp [pendW, hr]
        obtain ⟨hws, _⟩ := hw (by rw [hcl]; rfl) (Or.inr hm)
        obtain ⟨tid, htid⟩ := Option.isSome_iff_exists.mp hws
        obtain ⟨l1, l2⟩ := lostFinish_invoke { s with lostMid := false } tid htid hrc hp0
        rw [l2, hp0]; simp only [nOpen] at l1 ⊢; omega
    · by_cases h3 : e = .tick .wcloseTO
      · subst h3
        simp only [isLossStep, ↓reduceIte]
        have e1 : step s (.tick .wcloseTO) = (s, []) ∨ (∃ dl, s.recon = .wclosing dl ∧
            step s (.tick .wcloseTO) = reconnectInvoke { s with recon := .idle, writer := none }) := by
          simp only [step, stepDone, stepLive, hnd, Bool.false_eq_true, ↓reduceIte, fire, deadline?]
          split
          · left; rfl
          · rename_i dl hdl
            split
            · left; rfl
            · right
              cases hr : s.recon with
              | wclosing d => exact ⟨d, rfl, rfl⟩
              | idle => rw [hr] at hdl; simp at hdl
              | attempting d o => rw [hr] at hdl; simp at hdl
              | backoff d o => rw [hr] at hdl; simp at hdl
        rcases e1 with e1 | ⟨dl, hr, e1⟩
        · rw [e1]; simp [nOpen, nWclose]
        · rw [e1]
          have rc := reconnectInvoke_counts { s with recon := .idle, writer := none }
          have hp' := reconnectInvoke_pendW { s with recon := .idle, writer := none } rfl
          rw [rc.1, rc.2.2.1, hp']
          simp [hrc, pendW, hr]
      · -- every other event: no close, and the waiting handler (if any) keeps waiting
        have hls : isLossStep e = false := by
          cases e with
          | tick k => cases k <;> simp_all [isLossStep]
          | _ => simp_all [isLossStep]
        rw [hls]
        simp only [Bool.false_eq_true, ↓reduceIte, Nat.zero_add]
        by_cases h4 : e = .connect
        · subst h4
          have e1 : step s .connect = (s, []) ∨ (s.recon = .idle ∧ step s .connect = doOpen s .user) := by
            simp only [step, stepDone, stepLive, hnd, Bool.false_eq_true, ↓reduceIte]
            split
            · left; rfl
            · rename_i hg
              simp only [not_or, Decidable.not_not] at hg
              exact Or.inr ⟨hg.2.1, rfl⟩
          rcases e1 with e1 | ⟨hr, e1⟩
          · rw [e1]; simp [nWclose]
          · rw [e1, doOpen_pendW, (doOpen_counts s .user).2.2.1]; simp [pendW, hr]
        · by_cases h5 : e = .tick .backoffEnd
          · subst h5
            have e1 : step s (.tick .backoffEnd) = (s, []) ∨ (pendW s = 0 ∧
                step s (.tick .backoffEnd) = doOpen { s with recon := .idle } .conn) := by
              simp only [step, stepDone, stepLive, hnd, Bool.false_eq_true, ↓reduceIte, fire, deadline?]
              split
              · left; rfl
              · rename_i dl hdl
                split
                · left; rfl
                · right
                  cases hr : s.recon with
                  | backoff d o => exact ⟨by simp [pendW, hr], rfl⟩
                  | idle => rw [hr] at hdl; simp at hdl
                  | attempting d o => rw [hr] at hdl; simp at hdl
                  | wclosing d => rw [hr] at hdl; simp at hdl
            rcases e1 with e1 | ⟨hp0, e1⟩
            · rw [e1]; simp [nWclose]
            · rw [e1, doOpen_pendW, (doOpen_counts _ .conn).2.2.1, hp0]
          · by_cases h6 : e = .tick .openTO
            · subst h6
              have e1 : step s (.tick .openTO) = (s, []) ∨ (∃ o, pendW s = 0 ∧
                  step s (.tick .openTO) = openFailed { s with recon := .idle } o) := by
                simp only [step, stepDone, stepLive, hnd, Bool.false_eq_true, ↓reduceIte, fire]
                split
                · left; rfl
                · split
                  · left; rfl
                  · split
                    · rename_i dl' o hr
                      exact Or.inr ⟨o, by simp [pendW, hr], rfl⟩
                    · left; rfl
              rcases e1 with e1 | ⟨o, hp0, e1⟩
              · rw [e1]; simp [nWclose]
              · rw [e1, hp0]
                unfold openFailed
                split <;> simp [nWclose, pendW, isWclose]
            · by_cases h7 : e = .shutdownRun
              · subst h7
                have : step s .shutdownRun = (s, []) := by simp [step, stepDone, stepLive, hnd, shutdownRun, hcl]
                rw [this]; simp [nWclose]
              · have hr := recon_step s e hcl ⟨h4, h1, h2, h7, hne, h3, h5, h6⟩
                have hc := calm_step s e ⟨h4, h1, h2, h7, h3, h5⟩
                rw [hc.1]
                simp only [pendW, hr, Nat.zero_add]

end PlumVerif.Conn

import PlumVerif.Model.Schedule
/- helper lemmas for the schedule model (core Lean only) -/
namespace PlumVerif.Sched
open PlumVerif

/-! ### slot assignment -/

theorem getElem?_fillRange (day : List Bool) (lo n : Nat) (v : Bool) (i : Nat) :
    (fillRange day lo n v)[i]? = if lo ≤ i ∧ i < lo + n then day[i]?.map (fun _ => v) else day[i]? := by
  induction n generalizing lo day with
  | zero =>
    have : ¬ (lo ≤ i ∧ i < lo + 0) := by omega
    rw [if_neg this]
    simp [fillRange]
  | succ n ih =>
    have ih' := ih (day.set lo v) (lo + 1)
    simp only [fillRange] at ih' ⊢
    rw [List.range'_succ, List.foldl_cons, ih', List.getElem?_set]
    by_cases h1 : lo = i
    · subst h1
      by_cases hl : lo < day.length
      · simp [hl]
      · simp [hl]
    · by_cases h2 : lo + 1 ≤ i ∧ i < lo + 1 + n
      · have : lo ≤ i ∧ i < lo + (n + 1) := by omega
        simp [h1, h2, this]
      · have : ¬ (lo ≤ i ∧ i < lo + (n + 1)) := by omega
        simp [h1, h2, this]

theorem length_fillRange (day : List Bool) (lo n : Nat) (v : Bool) :
    (fillRange day lo n v).length = day.length := by
  induction n generalizing lo day with
  | zero => simp [fillRange]
  | succ n ih =>
    have ih' := ih (day.set lo v) (lo + 1)
    simp only [fillRange] at ih' ⊢
    rw [List.range'_succ, List.foldl_cons, ih', List.length_set]

theorem fillRange_eq_mapIdx (day : List Bool) (lo n : Nat) (v : Bool) :
    fillRange day lo n v = day.mapIdx (fun i b => if lo ≤ i ∧ i < lo + n then v else b) := by
  apply List.ext_getElem?
  intro i
  rw [getElem?_fillRange, List.getElem?_mapIdx]
  cases h : day[i]? with
  | none => simp
  | some b => by_cases hc : lo ≤ i ∧ i < lo + n <;> simp [hc]

/-- `set_state` in closed form -/
theorem setState_some (day : List Bool) (st : String) (s e : TimeArg) (lo hi : Nat)
    (hv : validStates.contains st = true) (ht : timeRange s e = some (lo, hi)) :
    setState day st s e =
      (day.mapIdx (fun i b => if lo ≤ i ∧ i ≤ hi then onStates.contains st else b),
       if hi < day.length then Outcome.ok else Outcome.indexError) := by
  have hfun : (fun (i : Nat) (b : Bool) => if lo ≤ i ∧ i < lo + (hi + 1 - lo) then onStates.contains st else b) =
      (fun i b => if lo ≤ i ∧ i ≤ hi then onStates.contains st else b) := by
    funext i b
    by_cases h : lo ≤ i ∧ i ≤ hi
    · have : lo ≤ i ∧ i < lo + (hi + 1 - lo) := by omega
      rw [if_pos h, if_pos this]
    · have : ¬ (lo ≤ i ∧ i < lo + (hi + 1 - lo)) := by omega
      rw [if_neg h, if_neg this]
  simp only [setState, hv, ht, if_true, fillRange_eq_mapIdx, hfun]

theorem setState_none (day : List Bool) (st : String) (s e : TimeArg)
    (h : validStates.contains st = false ∨ timeRange s e = none) :
    setState day st s e = (day, Outcome.valueError) := by
  unfold setState
  cases hv : validStates.contains st with
  | false => simp
  | true =>
    rcases h with h | h
    · rw [hv] at h; cases h
    · simp [h]

theorem ite_ok_index_ne (c : Prop) [Decidable c] :
    (if c then Outcome.ok else Outcome.indexError) ≠ Outcome.valueError := by
  split <;> simp

/-- a parsed time of day addresses a slot below 48 -/
theorem timeRange_lt (sh sm eh em lo hi : Nat) (h1 : eh < 24) (h2 : em < 60)
    (ht : timeRange (.hm sh sm) (.hm eh em) = some (lo, hi)) : hi < 48 := by
  by_cases h0 : eh = 0 ∧ em = 0
  · simp [timeRange, stepMin, h0] at ht
    omega
  · simp [timeRange, stepMin, h0] at ht
    omega

/-! ### one byte <-> eight slots -/

theorem splitByte_length (b : Byte) : (splitByte b).length = 8 := by simp [splitByte]

theorem joinBits_splitByte (b : Byte) : joinBits (splitByte b) = b.toNat := by
  have h : ∀ n, n < 256 → joinBits (splitByte n.toUInt8) = n := by decide +kernel
  have := h b.toNat b.toNat_lt
  simpa using this

theorem joinBits_lt (bs : List Bool) (h : bs.length = 8) : joinBits bs < 256 := by
  match bs, h with
  | [a, b, c, d, e, f, g, i], _ =>
    cases a <;> cases b <;> cases c <;> cases d <;> cases e <;> cases f <;> cases g <;> cases i <;> decide

theorem splitByte_joinBits (bs : List Bool) (h : bs.length = 8) :
    splitByte (joinBits bs).toUInt8 = bs := by
  match bs, h with
  | [a, b, c, d, e, f, g, i], _ =>
    cases a <;> cases b <;> cases c <;> cases d <;> cases e <;> cases f <;> cases g <;> cases i <;> decide

/-! ### chunks -/

theorem chunks_nil {α : Type} (n : Nat) : chunks n ([] : List α) = [] := by
  rw [chunks]; simp

theorem chunks_append_length {α : Type} {n : Nat} (hn : 0 < n) (x y : List α) (hx : x.length = n) :
    chunks n (x ++ y) = x :: chunks n y := by
  have hne : x ++ y ≠ [] := by
    intro h
    rw [List.append_eq_nil_iff] at h
    rw [h.1] at hx
    simp at hx
    omega
  rw [chunks]
  have hc : ¬ (n = 0 ∨ x ++ y = []) := by
    intro h
    rcases h with h | h
    · omega
    · exact hne h
  rw [dif_neg hc]
  have h1 : (x ++ y).take n = x := by rw [← hx]; simp
  have h2 : (x ++ y).drop n = y := by rw [← hx]; simp
  rw [h1, h2]

theorem chunks_short {α : Type} {m : Nat} (x : List α) (hx : x ≠ []) (hlen : x.length ≤ m) :
    chunks m x = [x] := by
  have hm : m ≠ 0 := by
    intro h
    have := List.length_pos_iff.mpr hx
    omega
  rw [chunks]
  have hc : ¬ (m = 0 ∨ x = []) := by
    intro h
    rcases h with h | h
    · exact hm h
    · exact hx h
  rw [dif_neg hc, List.take_of_length_le hlen, List.drop_eq_nil_of_le hlen, chunks_nil]

theorem chunks_flatten {α : Type} {n : Nat} (hn : 0 < n) (l : List (List α))
    (h : ∀ x ∈ l, x.length = n) : chunks n l.flatten = l := by
  induction l with
  | nil => simp [chunks_nil]
  | cons x t ih =>
    rw [List.flatten_cons, chunks_append_length hn x _ (h x (by simp)), ih]
    intro y hy
    exact h y (by simp [hy])

theorem flatten_chunks {α : Type} (n : Nat) (hn : 0 < n) (l : List α) : (chunks n l).flatten = l := by
  fun_induction chunks n l with
  | case1 l h =>
    rcases h with h | h
    · omega
    · simp [h]
  | case2 l h ih =>
    simp [ih]

theorem chunks_lengths {α : Type} (n : Nat) (l : List α) (hd : n ∣ l.length) :
    ∀ c ∈ chunks n l, c.length = n := by
  fun_induction chunks n l with
  | case1 l h => intro c hc; simp at hc
  | case2 l h ih =>
    have hl : l ≠ [] := fun e => h (Or.inr e)
    have hpos := List.length_pos_iff.mpr hl
    obtain ⟨k, hk⟩ := hd
    have hk0 : k ≠ 0 := by
      intro e
      rw [e] at hk
      omega
    obtain ⟨k', rfl⟩ := Nat.exists_eq_succ_of_ne_zero hk0
    have hge : n ≤ l.length := by
      rw [hk, Nat.mul_succ]
      omega
    intro c hc
    rw [List.mem_cons] at hc
    rcases hc with rfl | hc
    · simp [List.length_take]; omega
    · apply ih ?_ c hc
      refine ⟨k', ?_⟩
      rw [List.length_drop, hk, Nat.mul_succ]
      omega

theorem length_flatMap_const {α β : Type} (f : α → List β) (k : Nat) (hf : ∀ a, (f a).length = k)
    (l : List α) : (l.flatMap f).length = l.length * k := by
  induction l with
  | nil => simp
  | cons a t ih => simp [List.flatMap_cons, ih, hf, Nat.succ_mul]; omega

theorem chunks_flatMap_const {α β : Type} (n k : Nat) (hn : 0 < n) (hk : 0 < k) (f : α → List β)
    (hf : ∀ a, (f a).length = k) (l : List α) :
    chunks (n * k) (l.flatMap f) = (chunks n l).map (fun c => c.flatMap f) := by
  fun_induction chunks n l with
  | case1 l h =>
    rcases h with h | h
    · omega
    · simp [h, chunks_nil]
  | case2 l h ih =>
    have hl : l ≠ [] := fun e => h (Or.inr e)
    have hpos := List.length_pos_iff.mpr hl
    have hsplit : l.flatMap f = (l.take n).flatMap f ++ (l.drop n).flatMap f := by
      rw [← List.flatMap_append, List.take_append_drop]
    by_cases hge : n ≤ l.length
    · have hlen : ((l.take n).flatMap f).length = n * k := by
        rw [length_flatMap_const f k hf, List.length_take]
        congr 1
        omega
      rw [hsplit, chunks_append_length (Nat.mul_pos hn hk) _ _ hlen, ih]
      simp
    · have hlt : l.length < n := by omega
      have ht : l.take n = l := List.take_of_length_le (by omega)
      have hdn : l.drop n = [] := List.drop_eq_nil_of_le (by omega)
      have hne : l.flatMap f ≠ [] := by
        intro e
        have h0 : l.length * k = 0 := by
          rw [← length_flatMap_const f k hf, e]; rfl
        rcases Nat.mul_eq_zero.mp h0 with h0 | h0 <;> omega
      have hle : (l.flatMap f).length ≤ n * k := by
        rw [length_flatMap_const f k hf]
        exact Nat.mul_le_mul_right k (by omega)
      rw [chunks_short _ hne hle, ht, hdn, chunks_nil]
      simp

theorem chunks_length_mul {α : Type} (n : Nat) (hn : 0 < n) (m : Nat) (l : List α)
    (h : l.length = n * m) : (chunks n l).length = m := by
  induction m generalizing l with
  | zero =>
    have : l = [] := List.eq_nil_of_length_eq_zero (by simpa using h)
    simp [this, chunks_nil]
  | succ m ih =>
    have hl : l = l.take n ++ l.drop n := (List.take_append_drop n l).symm
    have hlen : (l.take n).length = n := by
      rw [List.length_take, h, Nat.mul_succ]; omega
    rw [hl, chunks_append_length hn _ _ hlen, List.length_cons, ih]
    rw [List.length_drop, h, Nat.mul_succ]; omega

theorem flatMap_congr_mem {α β : Type} (f g : α → List β) (l : List α) (h : ∀ x ∈ l, f x = g x) :
    l.flatMap f = l.flatMap g := by
  induction l with
  | nil => rfl
  | cons a t ih =>
    rw [List.flatMap_cons, List.flatMap_cons, h a (by simp), ih]
    intro x hx
    exact h x (by simp [hx])

/-! ### week bitmap codec -/

theorem toUInt8_joinBits_splitByte (b : Byte) : (joinBits (splitByte b)).toUInt8 = b := by
  rw [joinBits_splitByte]; simp

theorem decodeWeek_eq (bm : List Byte) :
    decodeWeek bm = (chunks 6 bm).map (fun c => c.flatMap splitByte) := by
  unfold decodeWeek
  have : slotsPerDay = 6 * 8 := rfl
  rw [this]
  exact chunks_flatMap_const 6 8 (by omega) (by omega) splitByte splitByte_length bm

theorem encodeDay_flatMap_splitByte (c : List Byte) : encodeDay (c.flatMap splitByte) = c := by
  unfold encodeDay
  have h1 : c.flatMap splitByte = (c.map splitByte).flatten := by
    rw [List.flatMap_def]
  have h2 : ∀ x ∈ c.map splitByte, x.length = 8 := by
    intro x hx
    rw [List.mem_map] at hx
    obtain ⟨b, _, rfl⟩ := hx
    exact splitByte_length b
  rw [h1, chunks_flatten (by omega) _ h2, List.map_map]
  have : ((fun c => (joinBits c).toUInt8) ∘ splitByte) = id := by
    funext b
    exact toUInt8_joinBits_splitByte b
  rw [this, List.map_id]

theorem flatMap_id_eq_flatten {α : Type} (l : List (List α)) : l.flatMap id = l.flatten := by
  rw [List.flatMap_def, List.map_id]

theorem encodeWeek_decodeWeek (bm : List Byte) : encodeWeek (decodeWeek bm) = bm := by
  rw [decodeWeek_eq]
  unfold encodeWeek
  rw [List.flatMap_map]
  rw [flatMap_congr_mem _ id _ (fun c _ => encodeDay_flatMap_splitByte c)]
  rw [flatMap_id_eq_flatten, flatten_chunks 6 (by omega)]

theorem flatMap_splitByte_encodeDay (d : List Bool) (h : 8 ∣ d.length) :
    (encodeDay d).flatMap splitByte = d := by
  unfold encodeDay
  rw [List.flatMap_map]
  rw [flatMap_congr_mem _ id _ (fun c hc => splitByte_joinBits c (chunks_lengths 8 d h c hc))]
  rw [flatMap_id_eq_flatten, flatten_chunks 8 (by omega)]

theorem decodeWeek_encodeWeek (w : List (List Bool)) (h : ∀ d ∈ w, d.length = 48) :
    decodeWeek (encodeWeek w) = w := by
  unfold decodeWeek encodeWeek
  rw [List.flatMap_assoc]
  rw [flatMap_congr_mem _ id _ (fun d hd => flatMap_splitByte_encodeDay d ⟨6, by rw [h d hd]⟩)]
  rw [flatMap_id_eq_flatten]
  exact chunks_flatten (by decide) w h

theorem decodeWeek_shape (bm : List Byte) (h : bm.length = 42) :
    (decodeWeek bm).length = 7 ∧ ∀ d ∈ decodeWeek bm, d.length = 48 := by
  rw [decodeWeek_eq]
  constructor
  · rw [List.length_map]
    exact chunks_length_mul 6 (by omega) 7 bm (by rw [h])
  · intro d hd
    rw [List.mem_map] at hd
    obtain ⟨c, hc, rfl⟩ := hd
    rw [length_flatMap_const splitByte 8 splitByte_length, chunks_lengths 6 bm ⟨7, by rw [h]⟩ c hc]

/-! ### where a slot sits in the bitmap -/

theorem getD_chunks {α : Type} (n : Nat) (hn : 0 < n) (l : List α) (d : Nat) :
    (chunks n l).getD d [] = (l.drop (n * d)).take n := by
  induction d generalizing l with
  | zero =>
    by_cases hl : l = []
    · subst hl; simp [chunks_nil]
    · have hc : ¬ (n = 0 ∨ l = []) := by
        intro h; rcases h with h | h
        · omega
        · exact hl h
      rw [chunks, dif_neg hc]; simp
  | succ d ih =>
    by_cases hl : l = []
    · subst hl; simp [chunks_nil]
    · have hc : ¬ (n = 0 ∨ l = []) := by
        intro h; rcases h with h | h
        · omega
        · exact hl h
      rw [chunks, dif_neg hc, List.getD_cons_succ, ih, List.drop_drop, Nat.mul_succ, Nat.add_comm]

theorem getD_splitByte (b : Byte) (k : Nat) (hk : k < 8) :
    (splitByte b).getD k false = b.toNat.testBit (7 - k) := by
  have : k = 0 ∨ k = 1 ∨ k = 2 ∨ k = 3 ∨ k = 4 ∨ k = 5 ∨ k = 6 ∨ k = 7 := by omega
  rcases this with rfl | rfl | rfl | rfl | rfl | rfl | rfl | rfl <;> rfl

theorem getD_flatMap_splitByte (c : List Byte) (g : Nat) (h : g / 8 < c.length) :
    (c.flatMap splitByte).getD g false = (splitByte (c.getD (g / 8) 0)).getD (g % 8) false := by
  induction c generalizing g with
  | nil => simp at h
  | cons b t ih =>
    rw [List.flatMap_cons]
    by_cases hg : g < 8
    · have h1 : g / 8 = 0 := by omega
      have h2 : g % 8 = g := by omega
      have hl : g < (splitByte b).length := by rw [splitByte_length]; exact hg
      rw [h1, h2]
      simp only [List.getD_eq_getElem?_getD, List.getElem?_append_left hl, List.getElem?_cons_zero,
        Option.getD_some]
    · have h1 : (g - 8) / 8 = g / 8 - 1 := by omega
      have h2 : (g - 8) % 8 = g % 8 := by omega
      have h3 : g / 8 = (g / 8 - 1) + 1 := by omega
      have hl : (splitByte b).length ≤ g := by rw [splitByte_length]; omega
      have ih' := ih (g - 8) (by simp at h; omega)
      rw [h1, h2] at ih'
      have hrhs : (b :: t).getD (g / 8) 0 = t.getD (g / 8 - 1) 0 := by
        rw [h3, List.getD_cons_succ]; simp
      rw [hrhs, ← ih']
      simp only [List.getD_eq_getElem?_getD, List.getElem?_append_right hl, splitByte_length]

theorem encodeDay_length (d : List Bool) (h : d.length = 48) : (encodeDay d).length = 6 := by
  unfold encodeDay
  rw [List.length_map]
  exact chunks_length_mul 8 (by omega) 6 d (by rw [h])

theorem encodeWeek_length (w : List (List Bool)) (h : ∀ d ∈ w, d.length = 48) :
    (encodeWeek w).length = 6 * w.length := by
  unfold encodeWeek
  induction w with
  | nil => rfl
  | cons d t ih =>
    rw [List.flatMap_cons, List.length_append, encodeDay_length d (h d (by simp)),
      ih (fun x hx => h x (by simp [hx])), List.length_cons]
    omega

/-- slot `i` of day `d` of a decoded 42-byte bitmap is bit `7 - i % 8` of byte `6 d + i / 8` -/
theorem getD_decodeWeek (bm : List Byte) (h : bm.length = 42) (d i : Nat) (hd : d < 7) (hi : i < 48) :
    ((decodeWeek bm).getD d []).getD i false = (bm.getD (6 * d + i / 8) 0).toNat.testBit (7 - i % 8) := by
  rw [decodeWeek_eq]
  have hlen : (chunks 6 bm).length = 7 := chunks_length_mul 6 (by omega) 7 bm (by rw [h])
  have hmap : ((chunks 6 bm).map (fun c => c.flatMap splitByte)).getD d [] =
      ((chunks 6 bm).getD d []).flatMap splitByte := by
    simp only [List.getD_eq_getElem?_getD, List.getElem?_map]
    cases (chunks 6 bm)[d]? <;> rfl
  rw [hmap, getD_chunks 6 (by omega)]
  have hclen : ((bm.drop (6 * d)).take 6).length = 6 := by
    rw [List.length_take, List.length_drop, h]; omega
  rw [getD_flatMap_splitByte _ i (by rw [hclen]; omega), getD_splitByte _ _ (Nat.mod_lt i (by omega))]
  have : ((bm.drop (6 * d)).take 6).getD (i / 8) 0 = bm.getD (6 * d + i / 8) 0 := by
    simp only [List.getD_eq_getElem?_getD, List.getElem?_take, List.getElem?_drop]
    have : i / 8 < 6 := by omega
    simp [this]
  rw [this]

/-! ### dict, weeks, device -/

theorem dictGet_dictSet_same {α : Type} (d : List (Nat × α)) (k : Nat) (v : α) :
    dictGet (dictSet d k v) k = some v := by
  simp [dictGet, dictSet]

theorem dictGet_filter_ne {α : Type} (d : List (Nat × α)) (k k' : Nat) (h : k' ≠ k) :
    dictGet (d.filter (fun p => p.1 != k)) k' = dictGet d k' := by
  induction d with
  | nil => rfl
  | cons x t ih =>
    obtain ⟨a, b⟩ := x
    unfold dictGet at ih ⊢
    by_cases ha : a = k
    · subst ha
      have hk : (k' == a) = false := by simp [h]
      simp [List.filter, List.lookup, hk, ih]
    · have hne : (a != k) = true := by simp [ha]
      simp only [List.filter, hne, List.lookup]
      cases hk : (k' == a) with
      | true => rfl
      | false => exact ih

theorem dictGet_dictSet_other {α : Type} (d : List (Nat × α)) (k k' : Nat) (v : α) (h : k' ≠ k) :
    dictGet (dictSet d k v) k' = dictGet d k' := by
  have hk : (k' == k) = false := by simp [h]
  have := dictGet_filter_ne d k k' h
  unfold dictGet at this ⊢
  simp only [dictSet, List.lookup, hk]
  exact this

theorem dictGet_foldl_set {α β : Type} (key : β → Nat) (val : β → Option α) (es : List β)
    (d0 : List (Nat × α)) (k : Nat) :
    dictGet (es.foldl (fun d e => dictSetOpt d (key e) (val e)) d0) k =
      match es.reverse.find? (fun e => key e == k && (val e).isSome) with
      | some e => val e
      | none => dictGet d0 k := by
  induction es generalizing d0 with
  | nil => rfl
  | cons e t ih =>
    rw [List.foldl_cons, ih, List.reverse_cons, List.find?_append]
    cases hf : t.reverse.find? (fun e => key e == k && (val e).isSome) with
    | some x => rfl
    | none =>
      simp only [Option.none_or, List.find?_cons, List.find?_nil]
      cases hv : val e with
      | none => simp [dictSetOpt]
      | some v =>
        by_cases hk : key e = k
        · subst hk
          simp [hv, dictSetOpt, dictGet_dictSet_same]
        · have : (key e == k) = false := by simp [hk]
          simp [this, dictSetOpt, dictGet_dictSet_other _ _ _ _ (Ne.symm hk)]

theorem find?_and_of_find? {β : Type} (p q : β → Bool) (l : List β) (e : β)
    (h : l.find? p = some e) (hq : q e = true) : l.find? (fun x => p x && q x) = some e := by
  induction l with
  | nil => simp at h
  | cons a t ih =>
    rw [List.find?_cons] at h ⊢
    cases hp : p a with
    | true =>
      rw [hp] at h
      simp only [Option.some.injEq] at h
      subst h
      simp [hq]
    | false =>
      rw [hp] at h
      simp only [Bool.false_and]
      exact ih h

theorem Week.toTable_ofTable (t : List (List Bool)) (h : t.length = 7) : (Week.ofTable t).toTable = t := by
  match t, h with
  | [a, b, c, d, e, f, g], _ => rfl

theorem Week.set_ofTable (t : List (List Bool)) (h : t.length = 7) (day : Weekday) (v : List Bool) :
    (Week.ofTable t).set day v = Week.ofTable (t.set day.pos v) := by
  match t, h with
  | [a, b, c, d, e, f, g], _ => cases day <;> rfl

theorem Week.get_ofTable (t : List (List Bool)) (day : Weekday) :
    (Week.ofTable t).get day = t.getD day.pos [] := by
  cases day <;> rfl

theorem editTable_length (idx : Nat) (t : List (List Bool)) (edits : List Edit) :
    (editTable idx t edits).length = t.length := by
  unfold editTable
  induction edits generalizing t with
  | nil => rfl
  | cons ed r ih =>
    rw [List.foldl_cons, ih]
    split <;> simp

theorem editTable_rows (idx : Nat) (t : List (List Bool)) (edits : List Edit)
    (h : ∀ d ∈ t, d.length = 48) : ∀ d ∈ editTable idx t edits, d.length = 48 := by
  unfold editTable
  induction edits generalizing t with
  | nil => exact h
  | cons ed r ih =>
    rw [List.foldl_cons]
    apply ih
    split
    · intro d hd
      by_cases hp : ed.day.pos < t.length
      · rcases List.mem_or_eq_of_mem_set hd with hm | rfl
        · exact h d hm
        · have hlen : (setState (t.getD ed.day.pos []) ed.state ed.start ed.stop).1.length =
              (t.getD ed.day.pos []).length := by
            unfold setState
            split
            · split
              · simp [length_fillRange]
              · rfl
            · rfl
          rw [hlen]
          apply h
          rw [List.getD_eq_getElem?_getD, List.getElem?_eq_getElem hp]
          simp
      · rw [List.set_eq_of_length_le (by omega)] at hd
        exact h d hd
    · exact h

theorem edit_fst_hit (dev : Device) (ed : Edit) (w : Week) (h : dictGet dev.schedules ed.idx = some w) :
    (dev.edit ed).1 = ⟨dictSet dev.schedules ed.idx
      (w.set ed.day (setState (w.get ed.day) ed.state ed.start ed.stop).1), dev.switches, dev.params⟩ := by
  simp [Device.edit, h]

theorem edit_fst_miss (dev : Device) (ed : Edit) (h : dictGet dev.schedules ed.idx = none) :
    (dev.edit ed).1 = dev := by
  simp [Device.edit, h]

/-- the device after edits, seen from schedule `idx`: its week is the edited table, switches
and parameters are untouched -/
theorem applyEdits_spec (dev : Device) (idx : Nat) (t : List (List Bool)) (ht : t.length = 7)
    (hs : dictGet dev.schedules idx = some (Week.ofTable t)) (edits : List Edit) :
    dictGet (dev.applyEdits edits).schedules idx = some (Week.ofTable (editTable idx t edits)) ∧
    (dev.applyEdits edits).switches = dev.switches ∧ (dev.applyEdits edits).params = dev.params := by
  unfold Device.applyEdits editTable
  induction edits generalizing dev t with
  | nil => exact ⟨hs, rfl, rfl⟩
  | cons ed r ih =>
    rw [List.foldl_cons, List.foldl_cons]
    by_cases hi : ed.idx = idx
    · have hlook : dictGet dev.schedules ed.idx = some (Week.ofTable t) := by rw [hi]; exact hs
      rw [edit_fst_hit dev ed _ hlook, if_pos hi, Week.get_ofTable, Week.set_ofTable t ht]
      refine ih _ _ (by simp [ht]) ?_
      simp only
      rw [hi]
      exact dictGet_dictSet_same _ _ _
    · rw [if_neg hi]
      cases hl : dictGet dev.schedules ed.idx with
      | none =>
        rw [edit_fst_miss dev ed hl]
        exact ih dev t ht hs
      | some w =>
        rw [edit_fst_hit dev ed w hl]
        refine ih _ t ht ?_
        simp only
        rw [dictGet_dictSet_other _ _ _ _ (Ne.symm hi)]
        exact hs

/-! ### the write queue -/

theorem Sys.run_append (s : Sys) (a b : List Ev) :
    Sys.run s (a ++ b) = ((Sys.run (Sys.run s a).1 b).1, (Sys.run s a).2 ++ (Sys.run (Sys.run s a).1 b).2) := by
  induction a generalizing s with
  | nil => simp [Sys.run]
  | cons ev r ih =>
    simp only [List.cons_append, Sys.run, ih, List.cons_append]

/-- a harmless event keeps a single queued request for `idx` queued, with the same payload -/
theorem Sys.step_harmless (s : Sys) (r : Req) (hq : s.queue = [r]) (ev : Ev)
    (hev : ev.harmlessFor r.idx = true) :
    ∃ r', (s.step ev).1.queue = [r'] ∧ r'.idx = r.idx ∧ r'.payload (s.step ev).1.dev = r.payload s.dev := by
  cases ev with
  | commit i => simp [Ev.harmlessFor] at hev
  | drain => simp [Ev.harmlessFor] at hev
  | edit e =>
    simp only [Ev.harmlessFor, bne_iff_ne, ne_eq] at hev
    refine ⟨r, by simp [Sys.step, hq], rfl, ?_⟩
    simp only [Sys.step, Req.payload, Req.week]
    cases hf : r.frozen with
    | some w => rfl
    | none =>
      simp only
      cases hl : dictGet s.dev.schedules e.idx with
      | none => rw [edit_fst_miss s.dev e hl]
      | some w =>
        rw [edit_fst_hit s.dev e w hl]
        simp only
        rw [dictGet_dictSet_other _ _ _ _ (fun h => hev h.symm)]
  | receive msg =>
    simp only [Sys.step]
    cases hd : decodeResponse msg with
    | none => exact ⟨r, by simp [hq], rfl, rfl⟩
    | some es =>
      cases hr : s.dev.receive msg with
      | none => exact ⟨r, by simp [hq], rfl, rfl⟩
      | some dev' =>
        simp only
        by_cases hk : knownIndexes es = true
        · rw [if_pos hk]
          refine ⟨r.freeze s.dev, by simp [hq], rfl, ?_⟩
          simp [Req.payload, Req.week, Req.freeze]
        · rw [if_neg hk]
          exact ⟨r, by simp [hq], rfl, rfl⟩

theorem Sys.run_harmless (s : Sys) (r : Req) (hq : s.queue = [r]) (mid : List Ev)
    (hmid : ∀ ev ∈ mid, ev.harmlessFor r.idx = true) :
    ∃ r', (Sys.run s mid).1.queue = [r'] ∧ r'.idx = r.idx ∧
      r'.payload (Sys.run s mid).1.dev = r.payload s.dev := by
  induction mid generalizing s r with
  | nil => exact ⟨r, hq, rfl, rfl⟩
  | cons ev rest ih =>
    obtain ⟨r1, hq1, hi1, hp1⟩ := Sys.step_harmless s r hq ev (hmid ev (by simp))
    obtain ⟨r2, hq2, hi2, hp2⟩ := ih (s.step ev).1 r1 hq1
      (fun e he => by rw [hi1]; exact hmid e (by simp [he]))
    exact ⟨r2, by simpa [Sys.run] using hq2, by rw [hi2, hi1], by simpa [Sys.run, hp1] using hp2⟩

theorem decodeEntries_tables (n : Nat) (data : List Byte) (es : List Entry)
    (h : decodeEntries n data = some es) :
    ∀ x ∈ es, ∃ bm : List Byte, bm.length = 42 ∧ x.table = decodeWeek bm := by
  induction n generalizing data es with
  | zero =>
    simp only [decodeEntries, Option.some.injEq] at h
    subst h
    intro x hx
    simp at hx
  | succ n ih =>
    match data with
    | idx :: sw :: pv :: pmin :: pmax :: r =>
      simp only [decodeEntries] at h
      split at h
      · simp at h
      · rename_i hlen
        split at h
        · rename_i es' hes'
          simp only [Option.some.injEq] at h
          subst h
          intro x hx
          rw [List.mem_cons] at hx
          rcases hx with rfl | hx
          · refine ⟨r.take Gen.scheduleSize, ?_, rfl⟩
            have : Gen.scheduleSize = 42 := rfl
            rw [List.length_take, this]
            rw [this] at hlen
            omega
          · exact ih _ _ hes' x hx
        · simp at h
    | [] => simp [decodeEntries] at h
    | [_] => simp [decodeEntries] at h
    | [_, _] => simp [decodeEntries] at h
    | [_, _, _] => simp [decodeEntries] at h
    | [_, _, _, _] => simp [decodeEntries] at h

end PlumVerif.Sched

import PlumVerif.Spec.C16
import PlumVerif.Proofs.Setup
/-
The observation of a model run satisfies `C16.spec` (helper lemmas for `C16.holds`).
-/
namespace PlumVerif.C16
open PlumVerif.Setup

/-- well-formed configuration: at least one attempt, a positive timeout -/
def wfCfg (c : Cfg) : Prop := 0 < c.R ∧ 0 < c.T

/-- what the recorded answer times have to do with the machine state -/
structure J (c : Cfg) (s : St) (a : Nat → Option Nat) : Prop where
  arrived : ∀ k, s.arrived k = (a k).isSome
  past : ∀ k t, a k = some t → t ≤ s.now
  running : ∀ i, s.phase = .running i → s.now < s.t0 + i * c.T
  loaded : s.phase = .loaded →
    s.loadedAt ≤ s.now ∧ (∀ k, s.snap k = true → ∃ t, a k = some t ∧ t < s.t0 + c.R * c.T) ∧
    (∀ k t, a k = some t → s.snap k = true ∨ s.loadedAt ≤ t)

theorem J_init (c : Cfg) : J c init (fun _ => none) :=
  ⟨fun _ => rfl, fun _ _ h => (by cases h), fun _ h => Phase.noConfusion h, fun h => Phase.noConfusion h⟩

theorem noteAnswer_of_not_answer (a : Nat → Option Nat) (s : St) (e : Ev) (h : ∀ k, e ≠ .answer k) :
    noteAnswer a s e = a := by
  cases e <;> first | rfl | exact absurd rfl (h _)

/-- loading takes the snapshot: all responses so far, each handled before the deadline -/
theorem J_finish (c : Cfg) (s : St) (a : Nat → Option Nat) (ha : ∀ k, s.arrived k = (a k).isSome)
    (hpast : ∀ k t, a k = some t → t ≤ s.now) (hb : ∀ k t, a k = some t → t < s.t0 + c.R * c.T) :
    J c (finish c s).1 a := by
  refine ⟨ha, hpast, fun i h => Phase.noConfusion h, fun _ => ⟨Nat.le_refl _, ?_, ?_⟩⟩
  · intro k hk
    have hk' : s.arrived k = true := hk
    rw [ha k] at hk'
    cases hq : a k with
    | none => simp [hq] at hk'
    | some t => exact ⟨t, rfl, hb k t hq⟩
  · intro k t hk
    left
    show s.arrived k = true
    rw [ha k, hk]; rfl

theorem note_arrived (s : St) (a : Nat → Option Nat) (k : Nat) (ha : ∀ j, s.arrived j = (a j).isSome) :
    ∀ j, (markArrived s k).arrived j = (noteAnswer a s (.answer k) j).isSome := by
  intro j
  simp only [markArrived, noteAnswer]
  by_cases hj : j = k
  · subst hj; simp; cases a j <;> rfl
  · simp [hj, ha j]

theorem note_past (s : St) (a : Nat → Option Nat) (k : Nat) (hp : ∀ j t, a j = some t → t ≤ s.now) :
    ∀ j t, noteAnswer a s (.answer k) j = some t → t ≤ s.now := by
  intro j t h
  simp only [noteAnswer] at h
  by_cases hj : j = k
  · subst hj
    simp only [↓reduceIte] at h
    cases hq : a j with
    | none => simp [hq] at h; omega
    | some t' => simp [hq] at h; subst h; exact hp j t' hq
  · simp only [hj, ↓reduceIte] at h
    exact hp j t h

theorem step_J (c : Cfg) (wf : wfCfg c) (s : St) (a : Nat → Option Nat) (e : Ev) (hI : Setup.Inv c s)
    (hJ : J c s a) : J c (step c s e).1 (noteAnswer a s e) := by
  obtain ⟨hR, hT⟩ := wf
  have hRT : 0 < c.R * c.T := Nat.mul_pos hR hT
  cases e with
  | versions ks => exact ⟨hJ.arrived, hJ.past, hJ.running, hJ.loaded⟩
  | wait d =>
    rw [noteAnswer_of_not_answer a s _ (by intro k h; cases h)]
    unfold step
    cases hp : s.phase with
    | waiting =>
      exact ⟨hJ.arrived, fun k t h => Nat.le_trans (hJ.past k t h) (Nat.le_add_right _ _),
        fun i h => Phase.noConfusion h, fun h => Phase.noConfusion h⟩
    | running i =>
      simp only
      split
      · exact hJ
      · rename_i hlt
        refine ⟨hJ.arrived, fun k t h => Nat.le_trans (hJ.past k t h) (Nat.le_add_right _ _), ?_,
          fun h => Phase.noConfusion h⟩
        intro j h
        have hj : i = j := by injection h
        subst hj
        show s.now + d < s.t0 + i * c.T
        omega
    | loaded =>
      obtain ⟨l1, l2, l3⟩ := hJ.loaded hp
      exact ⟨hJ.arrived, fun k t h => Nat.le_trans (hJ.past k t h) (Nat.le_add_right _ _),
        fun i h => Phase.noConfusion h, fun _ => ⟨Nat.le_trans l1 (Nat.le_add_right _ _), l2, l3⟩⟩
  | timer =>
    rw [noteAnswer_of_not_answer a s _ (by intro k h; cases h)]
    unfold step
    cases hp : s.phase with
    | waiting => simpa [hp] using hJ
    | loaded => simpa [hp] using hJ
    | running i =>
      simp only [Setup.Inv, hp] at hI
      obtain ⟨i1, i2, i3, i4, _⟩ := hI
      have hnow := hJ.running i hp
      simp only
      split
      · rename_i hlt
        refine ⟨hJ.arrived, ?_, ?_, fun h => Phase.noConfusion h⟩
        · intro k t h
          have := hJ.past k t h
          show t ≤ s.t0 + i * c.T
          omega
        · intro j h
          have hj : i + 1 = j := by injection h
          subst hj
          show s.t0 + i * c.T < s.t0 + (i + 1) * c.T
          rw [Nat.add_mul]; omega
      · rename_i hge
        have hi : i = c.R := by omega
        apply J_finish c (expire c s i) a hJ.arrived
        · intro k t h
          have := hJ.past k t h
          show t ≤ s.t0 + i * c.T
          omega
        · intro k t h
          have := hJ.past k t h
          show t < s.t0 + c.R * c.T
          rw [← hi]; omega
  | sensors =>
    rw [noteAnswer_of_not_answer a s _ (by intro k h; cases h)]
    unfold step
    cases hp : s.phase with
    | running i => simpa [hp] using hJ
    | loaded => simpa [hp] using hJ
    | waiting =>
      simp only [Nat.ne_of_gt hR, ↓reduceIte]
      split
      · apply J_finish c (start c s) a hJ.arrived hJ.past
        intro k t h
        have := hJ.past k t h
        show t < s.now + c.R * c.T
        omega
      · refine ⟨hJ.arrived, hJ.past, ?_, fun h => Phase.noConfusion h⟩
        intro j h
        have hj : 1 = j := by injection h
        subst hj
        show s.now < s.now + 1 * c.T
        omega
  | answer k =>
    have ha := note_arrived s a k hJ.arrived
    have hpst := note_past s a k hJ.past
    unfold step
    cases hp : s.phase with
    | waiting =>
      dsimp only
      exact ⟨ha, hpst, fun i h => (by have h' : s.phase = .running i := h; rw [hp] at h'; cases h'),
        fun h => (by have h' : s.phase = .loaded := h; rw [hp] at h'; cases h')⟩
    | running i =>
      simp only [Setup.Inv, hp] at hI
      obtain ⟨i1, i2, i3, i4, _⟩ := hI
      have hnow := hJ.running i hp
      have hm := Setup.mul_le_of_le i c.R c.T i2
      simp only
      split
      · apply J_finish c (markArrived s k) _ ha hpst
        intro j t h
        have := hpst j t h
        show t < s.t0 + c.R * c.T
        omega
      · refine ⟨ha, hpst, ?_, fun h => (by have h' : s.phase = .loaded := h; rw [hp] at h'; cases h')⟩
        intro j h
        have hj : i = j := by have h' : s.phase = .running j := h; rw [hp] at h'; injection h'
        subst hj
        exact hnow
    | loaded =>
      dsimp only
      obtain ⟨l1, l2, l3⟩ := hJ.loaded hp
      refine ⟨ha, hpst, fun i h => (by have h' : s.phase = .running i := h; rw [hp] at h'; cases h'), fun _ => ⟨l1, ?_, ?_⟩⟩
      · intro j hj
        obtain ⟨t, ht, hlt⟩ := l2 j hj
        refine ⟨t, ?_, hlt⟩
        simp only [noteAnswer]
        by_cases hjk : j = k
        · subst hjk; simp [ht]
        · simp [hjk, ht]
      · intro j t h
        simp only [noteAnswer] at h
        by_cases hjk : j = k
        · subst hjk
          simp only [↓reduceIte] at h
          cases hq : a j with
          | none =>
            simp [hq] at h
            right
            show s.loadedAt ≤ t
            omega
          | some t' =>
            simp [hq] at h; subst h
            exact l3 j t' hq
        · simp only [hjk, ↓reduceIte] at h
          exact l3 j t h


theorem run_J (c : Cfg) (wf : wfCfg c) (s : St) (a : Nat → Option Nat) (es : List Ev) (hI : Setup.Inv c s)
    (hJ : J c s a) : J c (run c s es).1 (answerTimes c s a es) := by
  induction es generalizing s a with
  | nil => simpa [answerTimes] using hJ
  | cons e es ih =>
    simp only [run_cons, answerTimes]
    exact ih _ _ (step_inv c wf.1 s e hI) (step_J c wf s a e hI hJ)

theorem getD_map_kinds {α} (c : Cfg) (f : Nat → α) (d : α) (k : Nat) (hk : k < c.n) :
    ((kinds c).map f).getD k d = f k := by
  simp [kinds, List.getD_eq_getElem?_getD, hk]

theorem getD_map_kinds_none {α} (c : Cfg) (f : Nat → α) (d : α) (k : Nat) (hk : ¬ k < c.n) :
    ((kinds c).map f).getD k d = d := by
  have : c.n ≤ k := Nat.le_of_not_lt hk
  simp [kinds, List.getD_eq_getElem?_getD, this]

theorem afterSensors_split : ∀ (es post : List Ev), afterSensors es = some post →
    ∃ pre, es = pre ++ Ev.sensors :: post
  | [], _, h => by simp [afterSensors] at h
  | e :: r, post, h => by
    cases e with
    | sensors =>
      simp only [afterSensors, Option.some.injEq] at h
      exact ⟨[], by simp [h]⟩
    | answer k => obtain ⟨pre, hp⟩ := afterSensors_split r post (by simpa [afterSensors] using h); exact ⟨_ :: pre, by rw [hp]; rfl⟩
    | wait d => obtain ⟨pre, hp⟩ := afterSensors_split r post (by simpa [afterSensors] using h); exact ⟨_ :: pre, by rw [hp]; rfl⟩
    | timer => obtain ⟨pre, hp⟩ := afterSensors_split r post (by simpa [afterSensors] using h); exact ⟨_ :: pre, by rw [hp]; rfl⟩
    | versions ks => obtain ⟨pre, hp⟩ := afterSensors_split r post (by simpa [afterSensors] using h); exact ⟨_ :: pre, by rw [hp]; rfl⟩

theorem nodupB_iff {l : List Nat} : nodupB l = true ↔ l.Nodup := by
  induction l with
  | nil => simp [nodupB]
  | cons a l ih => simp [nodupB, ih]

/-- `answered`, read off the recorded answer times -/
theorem answered_obs (c : Cfg) (es : List Ev) (k : Nat) :
    answered c (observe c es) k = true ↔
      k < c.n ∧ ∃ t, answerTimes c init (fun _ => none) es k = some t ∧
        t < (run c init es).1.t0 + c.R * c.T := by
  unfold answered observe
  by_cases hk : k < c.n
  · simp only [getD_map_kinds c _ _ k hk, hk, true_and]
    cases answerTimes c init (fun _ => none) es k <;> simp
  · simp only [getD_map_kinds_none c _ _ k hk, hk, false_and]
    simp

/-- the loaded case of `C16.holds` -/
theorem spec_loaded (c : Cfg) (wf : wfCfg c) (es : List Ev) (hl : (run c init es).1.phase = .loaded) :
    spec c (observe c es) = true := by
  have hI := run_inv c wf.1 init es (init_inv c)
  have hJ := run_J c wf init (fun _ => none) es (init_inv c) (J_init c)
  obtain ⟨l1, l2, l3⟩ := hJ.loaded hl
  simp only [Setup.Inv, hl] at hI
  obtain ⟨i1, i2, i3, i4, i5, i6, i7⟩ := hI
  have hans := answered_obs c es
  have hld : isLoaded (run c init es).1 = true := by simp [isLoaded, hl]
  have hmem : ∀ k, k ∈ (run c init es).1.errors ↔ k < c.n ∧ availOf c (run c init es).1.snap k = false := by
    intro k; rw [i3]; simp [mem_kinds]
  -- an answered kind was in the snapshot whenever something failed
  have hsnap : ∀ k, answered c (observe c es) k = true → (run c init es).1.errors ≠ [] →
      (run c init es).1.snap k = true := by
    intro k ha hne
    obtain ⟨_, t, ht, hlt⟩ := (hans k).1 ha
    rcases l3 k t ht with h | h
    · exact h
    · rw [i7 hne] at h; omega
  unfold spec
  have hobs : (observe c es).loadedAt = some (run c init es).1.loadedAt := by simp [observe, hld]
  rw [hobs]
  simp only [Bool.and_eq_true, decide_eq_true_eq, List.all_eq_true, mem_kinds, Bool.or_eq_true,
    Bool.not_eq_true', List.contains_eq_mem]
  have ht0 : (observe c es).t0 = (run c init es).1.t0 := rfl
  have herr : (observe c es).errors = (run c init es).1.errors := rfl
  refine ⟨⟨⟨by rw [ht0]; exact i2, ?_⟩, ?_⟩, ?_⟩
  · intro k hk
    rw [herr] at hk
    exact ((hmem k).1 hk).1
  · rw [herr, i3]
    exact nodupB_iff.mpr (List.Nodup.sublist List.filter_sublist (by simpa [kinds] using List.nodup_range))
  · intro k hk
    rw [herr]
    have htx : (observe c es).tx.getD k 0 = (run c init es).1.tx k := getD_map_kinds c _ _ k hk
    have hpr : (observe c es).present.getD k false = avail c (run c init es).1 k := getD_map_kinds c _ _ k hk
    rw [htx, hpr]
    -- clause 1: unanswered => listed
    have c1 : answered c (observe c es) k = true ∨ k ∈ (run c init es).1.errors := by
      by_cases hin : k ∈ (run c init es).1.errors
      · exact Or.inr hin
      · left
        have hav : availOf c (run c init es).1.snap k = true := by
          cases hq : availOf c (run c init es).1.snap k with
          | true => rfl
          | false => exact absurd ((hmem k).2 ⟨hk, hq⟩) hin
        have hs : (run c init es).1.snap k = true := by
          unfold availOf at hav; simp only [Bool.and_eq_true] at hav; exact hav.1
        obtain ⟨t, ht, hlt⟩ := l2 k hs
        exact (hans k).2 ⟨hk, t, ht, hlt⟩
    refine ⟨⟨⟨?_, ?_⟩, ?_⟩, ?_⟩
    · rcases c1 with h | h
      · exact Or.inl h
      · exact Or.inr (by simpa using h)
    · -- clause 2
      by_cases hboth : answered c (observe c es) c.product = true ∧ answered c (observe c es) k = true
      · right
        by_cases hin : k ∈ (run c init es).1.errors
        · have hne : (run c init es).1.errors ≠ [] := by intro h; rw [h] at hin; simp at hin
          have h1 := hsnap k hboth.2 hne
          have h2 := hsnap c.product hboth.1 hne
          have := ((hmem k).1 hin).2
          simp [availOf, h1, h2] at this
        · simpa using hin
      · left
        cases h1 : answered c (observe c es) c.product <;> cases h2 : answered c (observe c es) k <;> simp_all
    · -- clause 3
      rcases c1 with h | h
      · exact Or.inl h
      · right; simpa using i4 k h
    · -- clause 4
      by_cases hq : answered c (observe c es) k = true ∧
          (c.dep k = false ∨ answered c (observe c es) c.product = true)
      · right
        obtain ⟨_, t, ht, _⟩ := (hans k).1 hq.1
        have hak : (run c init es).1.arrived k = true := by rw [hJ.arrived k, ht]; rfl
        unfold avail availOf
        rcases hq.2 with hd | hp
        · simp [hak, hd]
        · obtain ⟨_, t', ht', _⟩ := (hans c.product).1 hp
          have : (run c init es).1.arrived c.product = true := by rw [hJ.arrived c.product, ht']; rfl
          simp [hak, this]
      · left
        cases h1 : answered c (observe c es) k <;> cases h2 : c.dep k <;>
          cases h3 : answered c (observe c es) c.product <;> simp_all

end PlumVerif.C16

import PlumVerif.Proofs.Dataset
/- facts about what the C05 decoders (`P2.decodeRun`, `P2.decodeBlocks`) hand to the C07 dataset model -/
namespace PlumVerif.Dataset
open PlumVerif

/-- a run yields its defined positions in strictly increasing order, all inside `idx .. idx+n-1`,
never more than `n` of them -/
theorem decodeRun_facts (sizeOf : Nat → Option Nat) :
    ∀ (n idx : Nat) (r : List Byte) (ps : P2.Params) (r' : List Byte),
      P2.decodeRun sizeOf n idx r = .ok (ps, r') →
      (∀ it ∈ ps, idx ≤ it.1 ∧ it.1 < idx + n) ∧ ps.Pairwise (fun a b => a.1 < b.1) ∧ ps.length ≤ n := by
  intro n
  induction n with
  | zero =>
    intro idx r ps r' h
    simp only [P2.decodeRun, Except.ok.injEq, Prod.mk.injEq] at h
    obtain ⟨rfl, _⟩ := h
    simp
  | succ n ih =>
    intro idx r ps r' h
    unfold P2.decodeRun at h
    split at h
    · cases h
    · next sz _ =>
      split at h
      · cases h
      · next ps0 r0 hrec =>
        simp only [Except.ok.injEq, Prod.mk.injEq] at h
        obtain ⟨hps, _⟩ := h
        obtain ⟨hpos, hsorted, hlen⟩ := ih _ _ _ _ hrec
        cases hu : P2.unpackParam sz r with
        | none =>
          rw [hu] at hps; simp only at hps; subst hps
          exact ⟨fun it hit => by have := hpos it hit; omega, hsorted, by omega⟩
        | some t =>
          rw [hu] at hps; simp only at hps; subst hps
          refine ⟨?_, ?_, by simp; omega⟩
          · intro it hit
            rcases List.mem_cons.mp hit with rfl | hit
            · simp
            · have := hpos it hit; omega
          · exact List.pairwise_cons.mpr ⟨fun it hit => by have := hpos it hit; simp; omega, hsorted⟩

/-- a run that reaches a position without width (beyond the description table) raises -/
theorem decodeRun_unknown (sizeOf : Nat → Option Nat) (len : Nat) (hs : ∀ i, len ≤ i → sizeOf i = none) :
    ∀ (n idx : Nat) (r : List Byte), 0 < n → len < idx + n → ∃ e, P2.decodeRun sizeOf n idx r = .error e := by
  intro n
  induction n with
  | zero => intro idx r h; omega
  | succ n ih =>
    intro idx r _ h
    unfold P2.decodeRun
    cases hsz : sizeOf idx with
    | none => exact ⟨_, rfl⟩
    | some sz =>
      have hidx : idx < len := by
        by_cases hl : len ≤ idx
        · rw [hs idx hl] at hsz; cases hsz
        · omega
      obtain ⟨e, he⟩ := ih (idx + 1) (r.drop (3 * sz)) (by omega) (by omega)
      simp only [he]
      exact ⟨_, rfl⟩

/-- every listed sub-device block: its number lies in `t .. t+k-1`, block numbers increase, each
block is a run over `start .. start+n-1` -/
theorem decodeBlocks_facts (sizeOf : Nat → Option Nat) (start n : Nat) :
    ∀ (k t : Nat) (r : List Byte) (bs : P2.Blocks) (r' : List Byte),
      P2.decodeBlocks sizeOf start n k t r = .ok (bs, r') →
      (∀ b ∈ bs, t ≤ b.1 ∧ b.1 < t + k ∧ (∀ it ∈ b.2, start ≤ it.1 ∧ it.1 < start + n) ∧
        b.2.Pairwise (fun a b => a.1 < b.1) ∧ b.2.length ≤ n ∧ b.2 ≠ []) ∧
      bs.Pairwise (fun a b => a.1 < b.1) := by
  intro k
  induction k with
  | zero =>
    intro t r bs r' h
    simp only [P2.decodeBlocks, Except.ok.injEq, Prod.mk.injEq] at h
    obtain ⟨rfl, _⟩ := h
    simp
  | succ k ih =>
    intro t r bs r' h
    unfold P2.decodeBlocks at h
    split at h
    · cases h
    · next ps r1 hrun =>
      split at h
      · cases h
      · next bs0 r2 hrec =>
        simp only [Except.ok.injEq, Prod.mk.injEq] at h
        obtain ⟨hbs, _⟩ := h
        obtain ⟨hall, hsorted⟩ := ih _ _ _ _ hrec
        obtain ⟨hpos, hps, hlen⟩ := decodeRun_facts sizeOf _ _ _ _ _ hrun
        have hall' : ∀ b ∈ bs0, t ≤ b.1 ∧ b.1 < t + (k + 1) ∧ (∀ it ∈ b.2, start ≤ it.1 ∧ it.1 < start + n) ∧
            b.2.Pairwise (fun a b => a.1 < b.1) ∧ b.2.length ≤ n ∧ b.2 ≠ [] := by
          intro b hb
          obtain ⟨h1, h2, h3⟩ := hall b hb
          exact ⟨by omega, by omega, h3⟩
        by_cases hemp : ps.isEmpty = true
        · simp only [hemp, if_true] at hbs; subst hbs
          exact ⟨hall', hsorted⟩
        · simp only [hemp, Bool.false_eq_true, if_false] at hbs; subst hbs
          refine ⟨?_, List.pairwise_cons.mpr ⟨fun b hb => by have := (hall b hb).1; simp; omega, hsorted⟩⟩
          intro b hb
          rcases List.mem_cons.mp hb with rfl | hb
          · exact ⟨by simp, by simp, hpos, hps, hlen, by intro h'; simp at hemp; exact hemp h'⟩
          · exact hall' b hb

end PlumVerif.Dataset

import PlumVerif.Model.ReaderChunks
import PlumVerif.Proofs.Frame
/- the resumable reader over chunks agrees with `readFrame` / `readAll` on the concatenation -/
namespace PlumVerif

theorem runScan_of_scan_none {s : List Byte} (h : scan s = none) : runScan s = .blocked .scanning [] := by
  induction s with
  | nil => rfl
  | cons b r ih =>
    unfold scan at h
    unfold runScan
    split at h
    · cases h
    · rename_i hb; rw [if_neg hb]; exact ih h

theorem runScan_of_scan_some {s r : List Byte} (h : scan s = some r) : runScan s = runHeader r := by
  induction s with
  | nil => simp [scan] at h
  | cons b t ih =>
    unfold scan at h
    unfold runScan
    split at h
    · rename_i hb; rw [if_pos hb]; injection h with h; rw [h]
    · rename_i hb; rw [if_neg hb]; exact ih h

/-- run to the end of the stream from the initial state = one call of the reader model -/
theorem finish_scanning (s : List Byte) : finish .scanning s = readFrame s := by
  unfold finish resume readFrame
  cases hs : scan s with
  | none => simp only [runScan_of_scan_none hs, atEof]
  | some r =>
    simp only [runScan_of_scan_some hs]
    match r with
    | l0 :: l1 :: rc :: sd :: et :: ev :: r1 =>
      simp only [runHeader]
      by_cases hl : l0.toNat + 256 * l1.toNat > Gen.maxFrameLength ∨ l0.toNat + 256 * l1.toNat < Gen.minFrameLength
      · simp only [if_pos hl]
      · simp only [if_neg hl, runBody]
        by_cases hn : r1.length < l0.toNat + 256 * l1.toNat - Gen.headerSize
        · simp only [if_pos hn, atEof]
        · have pair : ∀ (c : Prop) [Decidable c] (a b : Outcome) (d : List Byte),
              ((if c then a else b), d) = if c then (a, d) else (b, d) := by
            intro c _ a b d; split <;> rfl
          simp only [if_neg hn, gates, pair]
    | [] => simp [runHeader, atEof]
    | [_] => simp [runHeader, atEof]
    | [_, _] => simp [runHeader, atEof]
    | [_, _, _] => simp [runHeader, atEof]
    | [_, _, _, _] => simp [runHeader, atEof]
    | [_, _, _, _, _] => simp [runHeader, atEof]

/-! ### the resumable-state invariant: more bytes behind the buffer change nothing that was decided -/

theorem runBody_done_append {l0 l1 rc sd et ev : Byte} {buf b : List Byte} {o : Outcome}
    (h : runBody l0 l1 rc sd et ev buf = .done o b) (more : List Byte) :
    runBody l0 l1 rc sd et ev (buf ++ more) = .done o (b ++ more) := by
  unfold runBody at h ⊢
  simp only at h ⊢
  split at h
  · cases h
  · rename_i hn
    have hn' : ¬ (buf ++ more).length < l0.toNat + 256 * l1.toNat - Gen.headerSize := by
      simp only [List.length_append]; omega
    rw [if_neg hn']
    injection h with h1 h2
    have hle : l0.toNat + 256 * l1.toNat - Gen.headerSize ≤ buf.length := by omega
    rw [List.take_append_of_le_length hle, List.drop_append_of_le_length hle, h1, h2]

theorem runBody_blocked {l0 l1 rc sd et ev : Byte} {buf b : List Byte} {st : RState}
    (h : runBody l0 l1 rc sd et ev buf = .blocked st b) :
    st = .body l0 l1 rc sd et ev ∧ b = buf ∧ buf.length < l0.toNat + 256 * l1.toNat - Gen.headerSize := by
  unfold runBody at h
  simp only at h
  split at h
  · rename_i hn; injection h with h1 h2; exact ⟨h1.symm, h2.symm, hn⟩
  · cases h

theorem runHeader_done_append {buf b : List Byte} {o : Outcome}
    (h : runHeader buf = .done o b) (more : List Byte) :
    runHeader (buf ++ more) = .done o (b ++ more) := by
  match buf, h with
  | l0 :: l1 :: rc :: sd :: et :: ev :: r1, h =>
    simp only [runHeader, List.cons_append] at h ⊢
    split at h
    · rename_i hl; rw [if_pos hl]; injection h with h1 h2; rw [h1, h2]
    · rename_i hl; rw [if_neg hl]; exact runBody_done_append h more
  | [], h => simp [runHeader] at h
  | [_], h => simp [runHeader] at h
  | [_, _], h => simp [runHeader] at h
  | [_, _, _], h => simp [runHeader] at h
  | [_, _, _, _], h => simp [runHeader] at h
  | [_, _, _, _, _], h => simp [runHeader] at h

theorem runHeader_blocked_append {buf b : List Byte} {st : RState}
    (h : runHeader buf = .blocked st b) (more : List Byte) :
    runHeader (buf ++ more) = resume st (b ++ more) := by
  match buf, h with
  | l0 :: l1 :: rc :: sd :: et :: ev :: r1, h =>
    simp only [runHeader, List.cons_append] at h ⊢
    split at h
    · cases h
    · rename_i hl; rw [if_neg hl]
      obtain ⟨rfl, rfl, _⟩ := runBody_blocked h
      rfl
  | [], h => simp only [runHeader] at h; injection h with h1 h2; subst h1; subst h2; rfl
  | [_], h => simp only [runHeader] at h; injection h with h1 h2; subst h1; subst h2; rfl
  | [_, _], h => simp only [runHeader] at h; injection h with h1 h2; subst h1; subst h2; rfl
  | [_, _, _], h => simp only [runHeader] at h; injection h with h1 h2; subst h1; subst h2; rfl
  | [_, _, _, _], h => simp only [runHeader] at h; injection h with h1 h2; subst h1; subst h2; rfl
  | [_, _, _, _, _], h => simp only [runHeader] at h; injection h with h1 h2; subst h1; subst h2; rfl

theorem runScan_done_append {buf b : List Byte} {o : Outcome}
    (h : runScan buf = .done o b) (more : List Byte) : runScan (buf ++ more) = .done o (b ++ more) := by
  induction buf with
  | nil => simp [runScan] at h
  | cons x r ih =>
    simp only [runScan, List.cons_append] at h ⊢
    split at h
    · rename_i hx; rw [if_pos hx]; exact runHeader_done_append h more
    · rename_i hx; rw [if_neg hx]; exact ih h

theorem runScan_blocked_append {buf b : List Byte} {st : RState}
    (h : runScan buf = .blocked st b) (more : List Byte) : runScan (buf ++ more) = resume st (b ++ more) := by
  induction buf with
  | nil => simp only [runScan] at h; injection h with h1 h2; subst h1; subst h2; rfl
  | cons x r ih =>
    simp only [runScan, List.cons_append] at h ⊢
    split at h
    · rename_i hx; rw [if_pos hx]; exact runHeader_blocked_append h more
    · rename_i hx; rw [if_neg hx]; exact ih h

/-- a completed call is not changed by bytes that arrive later: they stay in the buffer -/
theorem resume_done_append {st : RState} {buf b : List Byte} {o : Outcome}
    (h : resume st buf = .done o b) (more : List Byte) : resume st (buf ++ more) = .done o (b ++ more) := by
  cases st with
  | scanning => exact runScan_done_append h more
  | header => exact runHeader_done_append h more
  | body l0 l1 rc sd et ev => exact runBody_done_append h more

/-- **resumption**: running on `buf ++ more` from `st` is the same as running on `buf`, blocking,
and being resumed from the state reached with `more` appended to what the primitive left -/
theorem resume_blocked_append {st st' : RState} {buf b : List Byte}
    (h : resume st buf = .blocked st' b) (more : List Byte) : resume st (buf ++ more) = resume st' (b ++ more) := by
  cases st with
  | scanning => exact runScan_blocked_append h more
  | header => exact runHeader_blocked_append h more
  | body l0 l1 rc sd et ev =>
    obtain ⟨rfl, rfl, _⟩ := runBody_blocked h
    rfl

theorem callChunks_finish (cs : List (List Byte)) : ∀ (st : RState) (buf : List Byte),
    finish st (buf ++ cs.flatten) = ((callChunks st buf cs).1, (callChunks st buf cs).2.1 ++ (callChunks st buf cs).2.2.flatten) := by
  induction cs with
  | nil =>
    intro st buf
    simp only [List.flatten_nil, List.append_nil, finish, callChunks]
    cases resume st buf <;> simp
  | cons c cs ih =>
    intro st buf
    simp only [callChunks]
    cases hr : resume st buf with
    | done o b =>
      simp only [finish, resume_done_append hr]
    | blocked st' b =>
      simp only
      rw [← ih st' (b ++ c)]
      simp only [finish, List.flatten_cons, resume_blocked_append hr, List.append_assoc]

/-- one call over ANY chunking = one call of the reader model on the concatenation, and what is
left (buffer + chunks still to come) is what the model leaves -/
theorem callChunks_readFrame (buf : List Byte) (cs : List (List Byte)) :
    readFrame (buf ++ cs.flatten) =
      ((callChunks .scanning buf cs).1, (callChunks .scanning buf cs).2.1 ++ (callChunks .scanning buf cs).2.2.flatten) := by
  rw [← finish_scanning]; exact callChunks_finish cs .scanning buf

theorem take_drop_flatten (k : Nat) (cs : List (List Byte)) : (cs.take k).flatten ++ (cs.drop k).flatten = cs.flatten := by
  rw [← List.flatten_append, List.take_append_drop]

theorem readChunksFuel_eq (fuel : Nat) : ∀ (eager : List Nat) (buf : List Byte) (cs : List (List Byte)),
    readChunksFuel fuel eager buf cs = readAllFuel fuel (buf ++ cs.flatten) := by
  induction fuel with
  | zero => intros; rfl
  | succ k ih =>
    intro eager buf cs
    unfold readChunksFuel readAllFuel
    have hcat : buf ++ cs.flatten = (buf ++ (cs.take (eager.headD 0)).flatten) ++ (cs.drop (eager.headD 0)).flatten := by
      rw [List.append_assoc, take_drop_flatten]
    have hrf := callChunks_readFrame (buf ++ (cs.take (eager.headD 0)).flatten) (cs.drop (eager.headD 0))
    rw [← hcat] at hrf
    simp only [hrf]
    split
    · rename_i h; simp only [h]
    · rename_i h
      rw [ih]
      cases hc : (callChunks RState.scanning (buf ++ (List.take (eager.headD 0) cs).flatten) (List.drop (eager.headD 0) cs)).1 <;>
        simp_all

/-! ### bounded demand in every suspension -/

theorem resume_blocked_bounded {st st' : RState} {buf b : List Byte} (hok : st.ok)
    (h : resume st buf = .blocked st' b) :
    st'.ok ∧ 1 ≤ st'.demand b.length ∧ st'.taken + b.length + st'.demand b.length ≤ 1000 := by
  have body : ∀ {l0 l1 rc sd et ev : Byte} {buf : List Byte},
      (Gen.minFrameLength ≤ l0.toNat + 256 * l1.toNat ∧ l0.toNat + 256 * l1.toNat ≤ Gen.maxFrameLength) →
      runBody l0 l1 rc sd et ev buf = .blocked st' b →
      st'.ok ∧ 1 ≤ st'.demand b.length ∧ st'.taken + b.length + st'.demand b.length ≤ 1000 := by
    intro l0 l1 rc sd et ev buf hl h
    obtain ⟨rfl, rfl, hlt⟩ := runBody_blocked h
    simp only [RState.ok, RState.demand, RState.taken, hdr_eq, minLen_eq, maxLen_eq] at hl hlt ⊢
    omega
  have header : ∀ {buf : List Byte}, runHeader buf = .blocked st' b →
      st'.ok ∧ 1 ≤ st'.demand b.length ∧ st'.taken + b.length + st'.demand b.length ≤ 1000 := by
    intro buf h
    match buf, h with
    | l0 :: l1 :: rc :: sd :: et :: ev :: r1, h =>
      simp only [runHeader] at h
      split at h
      · cases h
      · rename_i hl
        exact body (by simp only [minLen_eq, maxLen_eq] at hl ⊢; omega) h
    | [], h => simp only [runHeader] at h; injection h with h1 h2; subst h1; subst h2; simp [RState.ok, RState.demand, RState.taken, hdr_eq]
    | [_], h => simp only [runHeader] at h; injection h with h1 h2; subst h1; subst h2; simp [RState.ok, RState.demand, RState.taken, hdr_eq]
    | [_, _], h => simp only [runHeader] at h; injection h with h1 h2; subst h1; subst h2; simp [RState.ok, RState.demand, RState.taken, hdr_eq]
    | [_, _, _], h => simp only [runHeader] at h; injection h with h1 h2; subst h1; subst h2; simp [RState.ok, RState.demand, RState.taken, hdr_eq]
    | [_, _, _, _], h => simp only [runHeader] at h; injection h with h1 h2; subst h1; subst h2; simp [RState.ok, RState.demand, RState.taken, hdr_eq]
    | [_, _, _, _, _], h => simp only [runHeader] at h; injection h with h1 h2; subst h1; subst h2; simp [RState.ok, RState.demand, RState.taken, hdr_eq]
  cases st with
  | scanning =>
    simp only [resume] at h
    induction buf with
    | nil => simp only [runScan] at h; injection h with h1 h2; subst h1; subst h2; simp [RState.ok, RState.demand, RState.taken]
    | cons x r ih =>
      simp only [runScan] at h
      split at h
      · exact header h
      · exact ih h
  | header => exact header h
  | body l0 l1 rc sd et ev => exact body hok h

theorem callTrace_bounded (cs : List (List Byte)) : ∀ (st : RState) (buf : List Byte), st.ok →
    ∀ p ∈ callTrace st buf cs, p.1.ok ∧ 1 ≤ p.1.demand p.2 ∧ p.1.taken + p.2 + p.1.demand p.2 ≤ 1000 := by
  induction cs with
  | nil =>
    intro st buf hok p hp
    simp only [callTrace] at hp
    cases hr : resume st buf with
    | done o b => simp [hr] at hp
    | blocked st' b =>
      simp only [hr, List.mem_singleton] at hp
      subst hp
      exact resume_blocked_bounded hok hr
  | cons c cs ih =>
    intro st buf hok p hp
    simp only [callTrace] at hp
    cases hr : resume st buf with
    | done o b => simp [hr] at hp
    | blocked st' b =>
      simp only [hr, List.mem_cons] at hp
      have hb := resume_blocked_bounded hok hr
      rcases hp with rfl | hp
      · exact hb
      · exact ih st' (b ++ c) hb.1 p hp

end PlumVerif

import PlumVerif.Model.Dataset
/- helper lemmas for C07 (dataset / addressing model) -/
namespace PlumVerif.Dataset
open PlumVerif PlumVerif.Scaling

/-- the entry records a position of its family's table whose description carries its name -/
def EntryOK (pt : Product) (e : Entry) : Prop :=
  ∃ d, (tableOf pt e.kind)[e.index]? = some d ∧ d.name = e.name ∧ d.switch = e.switch ∧ d.size = e.size

def DSOK (pt : Product) (ds : DS) : Prop := ∀ e ∈ ds, EntryOK pt e

theorem find_some {ds : DS} {n : String} {e : Entry} (h : find ds n = some e) : e ∈ ds ∧ e.name = n := by
  unfold find at h
  exact ⟨List.mem_of_find?_eq_some h, by simpa using List.find?_some h⟩

theorem mem_setEntry {ds : DS} {e x : Entry} (h : x ∈ setEntry ds e) : x = e ∨ x ∈ ds := by
  simp only [setEntry, List.mem_cons, List.mem_filter] at h
  rcases h with h | h
  · exact .inl h
  · exact .inr h.1

theorem find_setEntry_self (ds : DS) (e : Entry) : find (setEntry ds e) e.name = some e := by
  simp [find, setEntry]

theorem find_setEntry_ne (ds : DS) (e : Entry) {n : String} (h : e.name ≠ n) :
    find (setEntry ds e) n = find ds n := by
  simp only [find, setEntry]
  rw [List.find?_cons_of_neg (by simpa using h), List.find?_filter]
  congr 1
  funext a
  by_cases ha : a.name = n
  · subst ha
    simp
    exact fun h' => h h'.symm
  · simp [ha]

theorem entryOK_triple {pt : Product} {e : Entry} (t : Triple) (h : EntryOK pt e) :
    EntryOK pt { e with triple := t } := h

theorem entryOK_new {pt : Product} {k : TKind} {d : Gen.Desc} {pos : Nat} (t : Triple) (dv off : Nat)
    (h : (tableOf pt k)[pos]? = some d) : EntryOK pt (newEntry k d pos t dv off) :=
  ⟨d, h, rfl, rfl, rfl⟩

theorem dsok_setEntry {pt : Product} {ds : DS} {e : Entry} (hds : DSOK pt ds) (he : EntryOK pt e) :
    DSOK pt (setEntry ds e) := by
  intro x hx
  rcases mem_setEntry hx with rfl | h
  · exact he
  · exact hds x h

/-- what `upsert` stores under the new name -/
def upsertResult (old : DS) (new : Entry) : Entry :=
  match find old new.name with
  | some e => if sameClass e new then { e with triple := new.triple } else new
  | none => new

theorem upsert_eq (old ds : DS) (new : Entry) : upsert old ds new = setEntry ds (upsertResult old new) := by
  unfold upsert upsertResult
  cases h : find old new.name with
  | none => rfl
  | some e => simp only []; split <;> rfl

theorem upsertResult_name (old : DS) (new : Entry) : (upsertResult old new).name = new.name := by
  unfold upsertResult
  split
  · next e h => split <;> simp [(find_some h).2]
  · rfl

theorem upsertResult_ok {pt : Product} {old : DS} {new : Entry} (ho : DSOK pt old) (hn : EntryOK pt new) :
    EntryOK pt (upsertResult old new) := by
  unfold upsertResult
  split
  · next e h => split
                · exact entryOK_triple _ (ho e (find_some h).1)
                · exact hn
  · exact hn

theorem dsok_upsert {pt : Product} {old ds : DS} {new : Entry} (ho : DSOK pt old) (hds : DSOK pt ds)
    (hn : EntryOK pt new) : DSOK pt (upsert old ds new) := by
  rw [upsert_eq]; exact dsok_setEntry hds (upsertResult_ok ho hn)

theorem dsok_updateOnly {pt : Product} {old ds : DS} {new : Entry} (ho : DSOK pt old) (hds : DSOK pt ds) :
    DSOK pt (updateOnly old ds new) := by
  unfold updateOnly
  split
  · next e h => split
                · exact dsok_setEntry hds (entryOK_triple _ (ho e (find_some h).1))
                · exact hds
  · exact hds

/-- a side property of entries that both the old entries and the new one have is kept by upsert -/
theorem all_upsert {P : Entry → Prop} (hP : ∀ e t, P e → P { e with triple := t }) {old ds : DS} {new : Entry}
    (ho : ∀ e ∈ old, P e) (hds : ∀ e ∈ ds, P e) (hn : P new) : ∀ e ∈ upsert old ds new, P e := by
  rw [upsert_eq]
  intro x hx
  rcases mem_setEntry hx with rfl | h
  · unfold upsertResult
    split
    · next e h => split
                  · exact hP _ _ (ho e (find_some h).1)
                  · exact hn
    · exact hn
  · exact hds x h

theorem all_updateOnly {P : Entry → Prop} (hP : ∀ e t, P e → P { e with triple := t }) {old ds : DS} {new : Entry}
    (ho : ∀ e ∈ old, P e) (hds : ∀ e ∈ ds, P e) : ∀ e ∈ updateOnly old ds new, P e := by
  unfold updateOnly
  split
  · next e h =>
    split
    · intro x hx
      rcases mem_setEntry hx with rfl | h'
      · exact hP _ _ (ho e (find_some h).1)
      · exact hds x h'
    · exact hds
  · exact hds

/-! ### handlers keep entry-level invariants -/

section handlers
variable {P : Entry → Prop}

theorem applyItems_inv {tbl : List Gen.Desc} {mk : Gen.Desc → Nat → P2.Triple → Entry} {skip : Bool}
    (hP : ∀ e t, P e → P { e with triple := t })
    (hnew : ∀ d pos t, tbl[pos]? = some d → P (mk d pos t))
    {old : DS} (ho : ∀ e ∈ old, P e) :
    ∀ (items : P2.Params) (ds : DS), (∀ e ∈ ds, P e) → ∀ e ∈ applyItems tbl mk skip old ds items, P e := by
  intro items
  induction items with
  | nil => intro ds h; exact h
  | cons it rest ih =>
    intro ds h
    obtain ⟨pos, t⟩ := it
    unfold applyItems
    split
    · split
      · exact ih ds h
      · exact h
    · next d hd => exact ih _ (all_upsert hP ho h (hnew d pos t hd))

theorem foldl_inv {α : Type} (f : DS → α → DS) (hf : ∀ ds a, (∀ e ∈ ds, P e) → ∀ e ∈ f ds a, P e) :
    ∀ (l : List α) (ds : DS), (∀ e ∈ ds, P e) → ∀ e ∈ l.foldl f ds, P e := by
  intro l
  induction l with
  | nil => intro ds h; exact h
  | cons a rest ih => intro ds h; exact ih _ (hf ds a h)

theorem applyScheduleItems_inv (hP : ∀ e t, P e → P { e with triple := t })
    (hnew : ∀ d pos t, Gen.scheduleParams[pos]? = some d → P (mkSchedule d pos t))
    {old : DS} (ho : ∀ e ∈ old, P e) (items : P2.Params) (ds : DS) (h : ∀ e ∈ ds, P e) :
    ∀ e ∈ applyScheduleItems old items ds, P e := by
  unfold applyScheduleItems
  split
  · exact applyItems_inv hP hnew ho items ds h
  · apply foldl_inv _ _ _ _ h
    intro ds a hds
    split
    · exact all_updateOnly hP ho hds
    · exact hds

/-- items that cannot produce the name `n` leave what is stored under `n` alone -/
theorem find_applyItems_other {tbl : List Gen.Desc} {mk : Gen.Desc → Nat → P2.Triple → Entry} {skip : Bool}
    (hmk : ∀ d pos t, (mk d pos t).name = d.name) (old : DS) (n : String) :
    ∀ (items : P2.Params) (ds : DS),
      (∀ it ∈ items, ∀ d, tbl[it.1]? = some d → d.name ≠ n) →
      find (applyItems tbl mk skip old ds items) n = find ds n := by
  intro items
  induction items with
  | nil => intro ds _; rfl
  | cons it rest ih =>
    intro ds h
    obtain ⟨pos, t⟩ := it
    unfold applyItems
    split
    · split
      · exact ih ds (fun it hit => h it (by simp [hit]))
      · rfl
    · next d hd =>
      rw [ih _ (fun it hit => h it (by simp [hit])), upsert_eq, find_setEntry_ne]
      rw [upsertResult_name, hmk]
      exact h (pos, t) (by simp) d hd

/-- **generic read slot**: items with strictly increasing positions, names unique in the table: the
triple of a described position ends up under that description's name, in the entry `upsert` makes
of it (the existing same-class parameter with its triple replaced, or a new one with this index) -/
theorem read_slot_items {tbl : List Gen.Desc} {mk : Gen.Desc → Nat → P2.Triple → Entry} {skip : Bool}
    (hmk : ∀ d pos t, (mk d pos t).name = d.name)
    (huniq : ∀ (i j : Nat) (a b : Gen.Desc), tbl[i]? = some a → tbl[j]? = some b → a.name = b.name → i = j) (old : DS) :
    ∀ (items : P2.Params) (ds : DS), items.Pairwise (fun a b => a.1 < b.1) →
      ∀ pos t, (pos, t) ∈ items → ∀ d, tbl[pos]? = some d →
      find (applyItems tbl mk skip old ds items) d.name = some (upsertResult old (mk d pos t)) := by
  intro items
  induction items with
  | nil => intro ds _ pos t h; cases h
  | cons it rest ih =>
    intro ds hs pos t hmem d hd
    obtain ⟨p0, t0⟩ := it
    obtain ⟨hhead, htail⟩ := List.pairwise_cons.mp hs
    unfold applyItems
    rcases List.mem_cons.mp hmem with h | h
    · obtain ⟨rfl, rfl⟩ := Prod.mk.inj h
      simp only [hd]
      rw [find_applyItems_other hmk, upsert_eq]
      · have := find_setEntry_self ds (upsertResult old (mk d pos t))
        rwa [upsertResult_name, hmk] at this
      · intro it hit d' hd' heq
        have := hhead it hit
        have := huniq _ _ _ _ hd' hd heq
        omega
    · have hlt : p0 < pos := hhead (pos, t) h
      have hp0 : p0 < tbl.length := by
        have := (List.getElem?_eq_some_iff.mp hd).1; omega
      have : tbl[p0]? = some tbl[p0] := List.getElem?_eq_getElem hp0
      simp only [this]
      exact ih _ htail pos t h d hd

/-- the same for `skip = true` handlers (unknown positions are skipped), positions merely distinct -/
theorem read_slot_items_distinct {tbl : List Gen.Desc} {mk : Gen.Desc → Nat → P2.Triple → Entry}
    (hmk : ∀ d pos t, (mk d pos t).name = d.name)
    (huniq : ∀ (i j : Nat) (a b : Gen.Desc), tbl[i]? = some a → tbl[j]? = some b → a.name = b.name → i = j) (old : DS) :
    ∀ (items : P2.Params) (ds : DS), items.Pairwise (fun a b => a.1 ≠ b.1) →
      ∀ pos t, (pos, t) ∈ items → ∀ d, tbl[pos]? = some d →
      find (applyItems tbl mk true old ds items) d.name = some (upsertResult old (mk d pos t)) := by
  intro items
  induction items with
  | nil => intro ds _ pos t h; cases h
  | cons it rest ih =>
    intro ds hs pos t hmem d hd
    obtain ⟨p0, t0⟩ := it
    obtain ⟨hhead, htail⟩ := List.pairwise_cons.mp hs
    unfold applyItems
    rcases List.mem_cons.mp hmem with h | h
    · obtain ⟨rfl, rfl⟩ := Prod.mk.inj h
      simp only [hd]
      rw [find_applyItems_other hmk, upsert_eq]
      · have := find_setEntry_self ds (upsertResult old (mk d pos t))
        rwa [upsertResult_name, hmk] at this
      · intro it hit d' hd' heq
        exact hhead it hit (huniq _ _ _ _ hd' hd heq).symm
    · split
      · simp only [if_true]; exact ih _ htail pos t h d hd
      · exact ih _ htail pos t h d hd

/-- when every existing parameter a response can name is of the class the response would create,
`applyItems` never replaces a parameter object: what is stored under an existing name keeps
everything but its triple (index, offset, owner, width) -/
theorem applyItems_stable {tbl : List Gen.Desc} {mk : Gen.Desc → Nat → P2.Triple → Entry} {skip : Bool}
    (hmk : ∀ d pos t, (mk d pos t).name = d.name) {old : DS}
    (hcls : ∀ d pos t, tbl[pos]? = some d → ∀ e0, find old d.name = some e0 → sameClass e0 (mk d pos t) = true)
    (e : Entry) (hold : find old e.name = some e) :
    ∀ (items : P2.Params) (ds : DS), (∃ x, find ds e.name = some { e with triple := x }) →
      ∃ y, find (applyItems tbl mk skip old ds items) e.name = some { e with triple := y } := by
  intro items
  induction items with
  | nil => intro ds h; exact h
  | cons it rest ih =>
    intro ds h
    obtain ⟨pos, t⟩ := it
    unfold applyItems
    split
    · split
      · exact ih ds h
      · exact h
    · next d hd =>
      apply ih
      rw [upsert_eq]
      by_cases hn : d.name = e.name
      · have hres : upsertResult old (mk d pos t) = { e with triple := (mk d pos t).triple } := by
          unfold upsertResult
          rw [hmk, hn, hold]
          have := hcls d pos t hd e (by rw [hn]; exact hold)
          simp [this]
        refine ⟨(mk d pos t).triple, ?_⟩
        rw [hres]
        exact find_setEntry_self ds { e with triple := (mk d pos t).triple }
      · obtain ⟨x, hx⟩ := h
        refine ⟨x, ?_⟩
        rw [find_setEntry_ne _ _ (by rw [upsertResult_name, hmk]; exact hn)]
        exact hx

theorem upsert_stable {old ds : DS} {new e : Entry} (hold : find old e.name = some e)
    (hcls : new.name = e.name → sameClass e new = true)
    (h : ∃ x, find ds e.name = some { e with triple := x }) :
    ∃ y, find (upsert old ds new) e.name = some { e with triple := y } := by
  rw [upsert_eq]
  by_cases hn : new.name = e.name
  · have hres : upsertResult old new = { e with triple := new.triple } := by
      unfold upsertResult
      rw [hn, hold]
      simp [hcls hn]
    exact ⟨new.triple, by rw [hres]; exact find_setEntry_self ds { e with triple := new.triple }⟩
  · obtain ⟨x, hx⟩ := h
    exact ⟨x, by rw [find_setEntry_ne _ _ (by rw [upsertResult_name]; exact hn)]; exact hx⟩

theorem updateOnly_stable {old ds : DS} {new e : Entry} (hold : find old e.name = some e)
    (h : ∃ x, find ds e.name = some { e with triple := x }) :
    ∃ y, find (updateOnly old ds new) e.name = some { e with triple := y } := by
  unfold updateOnly
  cases hf : find old new.name with
  | none => exact h
  | some e0 =>
    simp only []
    split
    · by_cases hn : new.name = e.name
      · rw [hn, hold] at hf
        cases hf
        exact ⟨new.triple, find_setEntry_self ds { e with triple := new.triple }⟩
      · obtain ⟨x, hx⟩ := h
        have hne : ({ e0 with triple := new.triple } : Entry).name ≠ e.name := by
          have := (find_some hf).2
          simpa [this] using hn
        exact ⟨x, by rw [find_setEntry_ne _ _ hne]; exact hx⟩
    · exact h

end handlers

theorem updDev_inv {Q : Nat → DS → Prop} {l : List (Nat × DS)} {i : Nat} {f : DS → DS}
    (hl : ∀ p ∈ l, Q p.1 p.2) (hf : ∀ ds, Q i ds → Q i (f ds)) (h0 : Q i []) :
    ∀ p ∈ updDev l i f, Q p.1 p.2 := by
  unfold updDev
  split
  · intro p hp
    simp only [List.mem_map] at hp
    obtain ⟨q, hq, rfl⟩ := hp
    by_cases h : q.1 = i
    · simp only [h, beq_self_eq_true, if_true]
      exact hf _ (h ▸ hl q hq)
    · have : (q.1 == i) = false := by simpa using h
      simp only [this]
      exact hl q hq
  · intro p hp
    simp only [List.mem_append, List.mem_singleton] at hp
    rcases hp with hp | rfl
    · exact hl p hp
    · exact hf _ h0

/-! ### world invariant -/

def OnEcomax (e : Entry) : Prop := e.kind ≠ .mixer ∧ e.kind ≠ .thermostat ∧ e.devIndex = 0 ∧ e.offset = 0
def OnMixer (m : Nat) (e : Entry) : Prop := e.kind = .mixer ∧ e.devIndex = m ∧ e.offset = 0
def OnThermostat (t : Nat) (e : Entry) : Prop := e.kind = .thermostat ∧ e.devIndex = t

structure WorldOK (pt : Product) (w : World) : Prop where
  eco : ∀ e ∈ w.ecomax, EntryOK pt e ∧ OnEcomax e
  mix : ∀ p ∈ w.mixers, ∀ e ∈ p.2, EntryOK pt e ∧ OnMixer p.1 e
  thr : ∀ p ∈ w.thermostats, ∀ e ∈ p.2, EntryOK pt e ∧ OnThermostat p.1 e

theorem applyBlocks_inv {Q : Nat → DS → Prop} {g : Nat → P2.Params → DS → DS}
    (hg : ∀ i items ds, Q i ds → Q i (g i items ds)) (h0 : ∀ i, Q i []) :
    ∀ (blocks : P2.Blocks) (devs : List (Nat × DS)), (∀ p ∈ devs, Q p.1 p.2) →
      ∀ p ∈ applyBlocks g devs blocks, Q p.1 p.2 := by
  intro blocks
  induction blocks with
  | nil => intro devs h; exact h
  | cons b rest ih =>
    intro devs h
    obtain ⟨i, items⟩ := b
    unfold applyBlocks
    exact ih _ (updDev_inv h (hg i items) (h0 i))

theorem applyMixers_inv {pt : Product} (blocks : P2.Blocks) (mixers : List (Nat × DS))
    (h : ∀ p ∈ mixers, ∀ e ∈ p.2, EntryOK pt e ∧ OnMixer p.1 e) :
    ∀ p ∈ applyMixers pt mixers blocks, ∀ e ∈ p.2, EntryOK pt e ∧ OnMixer p.1 e := by
  apply applyBlocks_inv (Q := fun i ds => ∀ e ∈ ds, EntryOK pt e ∧ OnMixer i e) _ _ blocks mixers h
  · intro m items ds hds
    exact applyItems_inv (P := fun e => EntryOK pt e ∧ OnMixer m e) (fun e t h => h)
      (fun d pos t hd => ⟨entryOK_new (tr t) m 0 hd, rfl, rfl, rfl⟩) hds items ds hds
  · intro i e he; cases he

theorem applyThermostats_inv {pt : Product} (blocks : P2.Blocks) (ths : List (Nat × DS))
    (h : ∀ p ∈ ths, ∀ e ∈ p.2, EntryOK pt e ∧ OnThermostat p.1 e) :
    ∀ p ∈ applyThermostats ths blocks, ∀ e ∈ p.2, EntryOK pt e ∧ OnThermostat p.1 e := by
  apply applyBlocks_inv (Q := fun i ds => ∀ e ∈ ds, EntryOK pt e ∧ OnThermostat i e) _ _ blocks ths h
  · intro t items ds hds
    exact applyItems_inv (P := fun e => EntryOK pt e ∧ OnThermostat t e) (fun e t h => h)
      (fun d pos t' hd => ⟨entryOK_new (pt := pt) (k := .thermostat) (tr t') t (t * items.length) hd, rfl, rfl⟩)
      hds items ds hds
  · intro i e he; cases he

/-! ### sub-device lookup through `updDev` / `applyBlocks` -/

theorem find?_updMap (l : List (Nat × DS)) (i j : Nat) (f : DS → DS) :
    (l.map (fun p => if p.1 == i then (p.1, f p.2) else p)).find? (fun p => p.1 == j) =
      (l.find? (fun p => p.1 == j)).map (fun p => if p.1 == i then (p.1, f p.2) else p) := by
  rw [List.find?_map]
  congr 1
  congr 1
  funext p
  simp only [Function.comp]
  split <;> rfl

theorem lookupDev_updDev_self (l : List (Nat × DS)) (i : Nat) (f : DS → DS) :
    lookupDev (updDev l i f) i = some (f ((lookupDev l i).getD [])) := by
  unfold updDev lookupDev
  split
  · next hany =>
    rw [find?_updMap]
    obtain ⟨p, hp, hpi⟩ := List.any_eq_true.mp hany
    cases hf : l.find? (fun p => p.1 == i) with
    | none => exact absurd hpi (by simpa using List.find?_eq_none.mp hf p hp)
    | some q =>
      have hq : q.1 = i := by simpa using List.find?_some (p := fun (p : Nat × DS) => p.1 == i) hf
      simp [hq]
  · next hany =>
    have hnone : l.find? (fun p => p.1 == i) = none := by
      rw [List.find?_eq_none]
      intro p hp hpi
      exact hany (List.any_eq_true.mpr ⟨p, hp, by simpa using hpi⟩)
    rw [List.find?_append, hnone]
    simp

theorem lookupDev_updDev_other (l : List (Nat × DS)) {i j : Nat} (f : DS → DS) (h : j ≠ i) :
    lookupDev (updDev l i f) j = lookupDev l j := by
  unfold updDev lookupDev
  split
  · rw [find?_updMap]
    cases hf : l.find? (fun p => p.1 == j) with
    | none => rfl
    | some q =>
      have hq : q.1 = j := by simpa using List.find?_some hf
      have : ¬ q.1 = i := by rw [hq]; exact h
      simp [this]
  · rw [List.find?_append]
    have : (List.find? (fun p => p.1 == j) [(i, f [])]) = none := by
      simp only [List.find?_cons, List.find?_nil]
      have h2 : (i == j) = false := by simpa using fun h' : i = j => h h'.symm
      simp [h2]
    rw [this]; simp

/-- with distinct block numbers, sub-device `i`'s dataset after all blocks is what ITS block made
of its previous dataset -/
theorem lookupDev_applyBlocks (g : Nat → P2.Params → DS → DS) :
    ∀ (blocks : P2.Blocks) (devs : List (Nat × DS)), blocks.Pairwise (fun a b => a.1 < b.1) →
      ∀ i items, (i, items) ∈ blocks →
      lookupDev (applyBlocks g devs blocks) i = some (g i items ((lookupDev devs i).getD [])) := by
  intro blocks
  induction blocks with
  | nil => intro devs _ i items h; cases h
  | cons b rest ih =>
    intro devs hs i items hmem
    obtain ⟨i0, items0⟩ := b
    obtain ⟨hhead, htail⟩ := List.pairwise_cons.mp hs
    unfold applyBlocks
    rcases List.mem_cons.mp hmem with h | h
    · obtain ⟨rfl, rfl⟩ := Prod.mk.inj h
      -- later blocks have other numbers
      have hrest : ∀ (rest' : P2.Blocks) (devs' : List (Nat × DS)), (∀ b ∈ rest', i < b.1) →
          lookupDev (applyBlocks g devs' rest') i = lookupDev devs' i := by
        intro rest'
        induction rest' with
        | nil => intro devs' _; rfl
        | cons b' r' ih' =>
          intro devs' hlt
          obtain ⟨j, itj⟩ := b'
          unfold applyBlocks
          rw [ih' _ (fun b hb => hlt b (by simp [hb]))]
          exact lookupDev_updDev_other _ _ (by have := hlt (j, itj) (by simp); simp at this; omega)
      rw [hrest rest _ hhead, lookupDev_updDev_self]
    · have hlt : i0 < i := hhead (i, items) h
      rw [ih _ htail i items h, lookupDev_updDev_other _ _ (by omega)]

theorem applyPendingEco_inv {pt : Product} {old0 : DS} (_h0 : ∀ e ∈ old0, EntryOK pt e ∧ OnEcomax e) :
    ∀ (pending : List P2.Params) (ds : DS), (∀ e ∈ ds, EntryOK pt e ∧ OnEcomax e) →
      ∀ e ∈ applyPendingEco pt ds pending, EntryOK pt e ∧ OnEcomax e := by
  intro pending
  induction pending with
  | nil => intro ds h; exact h
  | cons items rest ih =>
    intro ds h
    unfold applyPendingEco
    apply ih
    exact applyItems_inv (P := fun e => EntryOK pt e ∧ OnEcomax e) (fun e t h => h)
      (fun d pos t hd => ⟨entryOK_new (tr t) 0 0 hd, by simp [OnEcomax, newEntry, mkEcomax]⟩) h items ds h

theorem setValue_inv {P : Entry → Prop} (hP : ∀ e t, P e → P { e with triple := t }) {ds : DS} {name : String}
    {e : Entry} (hds : ∀ x ∈ ds, P x) (hf : find ds name = some e) (v : Nat) :
    ∀ x ∈ setEntry ds { e with triple := { e.triple with value := v } }, P x := by
  intro x hx
  rcases mem_setEntry hx with rfl | h
  · exact hP _ _ (hds e (find_some hf).1)
  · exact hds x h

theorem step_ok {pt : Product} {w : World} (h : WorldOK pt w) (ev : Event) : WorldOK pt (step pt w ev).1 := by
  cases ev with
  | uid =>
    simp only [step]
    split
    · exact h
    · exact ⟨applyPendingEco_inv h.eco _ _ h.eco, applyMixers_inv _ _ h.mix, h.thr⟩
  | ecomaxParams msg =>
    simp only [step]
    split
    · exact h
    · next items _ _ =>
      split
      · refine ⟨?_, h.mix, h.thr⟩
        exact applyItems_inv (P := fun e => EntryOK pt e ∧ OnEcomax e) (fun e t h => h)
          (fun d pos t hd => ⟨entryOK_new (tr t) 0 0 hd, by simp [OnEcomax, newEntry, mkEcomax]⟩) h.eco items _ h.eco
      · exact ⟨h.eco, h.mix, h.thr⟩
  | mixerParams msg =>
    simp only [step]
    split
    · exact h
    · next blocks _ _ =>
      split
      · exact ⟨h.eco, applyMixers_inv blocks _ h.mix, h.thr⟩
      · refine ⟨h.eco, ?_, h.thr⟩
        exact applyBlocks_inv (Q := fun i ds => ∀ e ∈ ds, EntryOK pt e ∧ OnMixer i e) (fun _ _ _ hq => hq)
          (fun i e he => by cases he) blocks _ h.mix
  | thermostatsAvailable n => exact ⟨h.eco, h.mix, h.thr⟩
  | thermostatParams msg =>
    simp only [step]
    split
    · exact h
    · exact h
    · next profile blocks _ _ =>
      refine ⟨?_, h.mix, applyThermostats_inv blocks _ h.thr⟩
      cases profile with
      | none => exact fun e he => h.eco e (List.mem_filter.mp he).1
      | some t =>
        exact all_upsert (P := fun e => EntryOK pt e ∧ OnEcomax e) (fun e t h => h) h.eco h.eco
          ⟨⟨Gen.thermostatProfile, by simp [newEntry, tableOf], rfl, rfl, rfl⟩, by simp [OnEcomax, newEntry]⟩
  | schedules msg =>
    simp only [step]
    split
    · exact h
    · exact ⟨h.eco, h.mix, h.thr⟩
    · next ss ps _ _ =>
      refine ⟨?_, h.mix, h.thr⟩
      exact applyScheduleItems_inv (P := fun e => EntryOK pt e ∧ OnEcomax e) (fun e t h => h)
        (fun d pos t hd => ⟨entryOK_new (pt := pt) (k := .schedule) (tr t) 0 0 hd, by simp [OnEcomax, newEntry, mkSchedule]⟩)
        h.eco _ _ h.eco
  | state on =>
    refine ⟨?_, h.mix, h.thr⟩
    exact all_upsert (P := fun e => EntryOK pt e ∧ OnEcomax e) (fun e t h => h) h.eco h.eco
      ⟨⟨Gen.ecomaxControl, by simp [newEntry, tableOf], rfl, rfl, rfl⟩, by simp [OnEcomax, newEntry]⟩
  | set dev name v =>
    simp only [step]
    split
    · exact h
    · next ds hds =>
      split
      · exact h
      · next e hf =>
        cases dev with
        | ecomax =>
          simp only [World.ds, Option.some.injEq] at hds
          subst hds
          exact ⟨setValue_inv (fun e t h => h) h.eco hf v, h.mix, h.thr⟩
        | mixer i =>
          simp only [World.ds, lookupDev, Option.map_eq_some_iff] at hds
          obtain ⟨p, hp, rfl⟩ := hds
          have hpm := List.mem_of_find?_eq_some hp
          have hpi : p.1 = i := by simpa using List.find?_some hp
          refine ⟨h.eco, ?_, h.thr⟩
          intro q hq
          simp only [World.setDs, List.mem_map] at hq
          obtain ⟨r, hr, rfl⟩ := hq
          by_cases hri : r.1 = i
          · simp only [hri, beq_self_eq_true, if_true]
            have := h.mix p hpm
            rw [hpi] at this
            exact hri ▸ setValue_inv (P := fun e => EntryOK pt e ∧ OnMixer i e) (fun e t h => h) this hf v
          · have : (r.1 == i) = false := by simpa using hri
            simp only [this]
            exact h.mix r hr
        | thermostat i =>
          simp only [World.ds, lookupDev, Option.map_eq_some_iff] at hds
          obtain ⟨p, hp, rfl⟩ := hds
          have hpm := List.mem_of_find?_eq_some hp
          have hpi : p.1 = i := by simpa using List.find?_some hp
          refine ⟨h.eco, h.mix, ?_⟩
          intro q hq
          simp only [World.setDs, List.mem_map] at hq
          obtain ⟨r, hr, rfl⟩ := hq
          by_cases hri : r.1 = i
          · simp only [hri, beq_self_eq_true, if_true]
            have := h.thr p hpm
            rw [hpi] at this
            exact hri ▸ setValue_inv (P := fun e => EntryOK pt e ∧ OnThermostat i e) (fun e t h => h) this hf v
          · have : (r.1 == i) = false := by simpa using hri
            simp only [this]
            exact h.thr r hr

theorem run_ok {pt : Product} : ∀ (evs : List Event) (w : World), WorldOK pt w → WorldOK pt (run pt w evs).1 := by
  intro evs
  induction evs with
  | nil => intro w h; exact h
  | cons ev rest ih =>
    intro w h
    simp only [run]
    exact ih _ (step_ok h ev)

theorem init_ok (pt : Product) : WorldOK pt {} := by
  constructor <;> (intro x hx; cases hx)

end PlumVerif.Dataset

import PlumVerif.Model.Dataset
/- helper lemmas for C07 (dataset / addressing model) -/
namespace PlumVerif.Dataset
open PlumVerif PlumVerif.Scaling

/-- the entry records a position of its family's table whose description carries its name -/
def EntryOK (pt : Product) (e : Entry) : Prop :=
  ∃ d, (tableOf pt e.kind)[e.index]? = some d ∧ d.name = e.name ∧ d.switch = e.switch ∧ d.size = e.size

def DSOK (pt : Product) (ds : DS) : Prop := ∀ e ∈ ds, EntryOK pt e

theorem find_some {ds : DS} {n : String} {e : Entry} (h : find ds n = some e) : e ∈ ds ∧ e.name = n := by
  unfold find at h
  exact ⟨List.mem_of_find?_eq_some h, by simpa using List.find?_some h⟩

theorem mem_setEntry {ds : DS} {e x : Entry} (h : x ∈ setEntry ds e) : x = e ∨ x ∈ ds := by
  simp only [setEntry, List.mem_cons, List.mem_filter] at h
  rcases h with h | h
  · exact .inl h
  · exact .inr h.1

theorem find_setEntry_self (ds : DS) (e : Entry) : find (setEntry ds e) e.name = some e := by
  simp [find, setEntry]

theorem find_setEntry_ne (ds : DS) (e : Entry) {n : String} (h : e.name ≠ n) :
    find (setEntry ds e) n = find ds n := by
  simp only [find, setEntry]
  rw [List.find?_cons_of_neg (by simpa using h), List.find?_filter]
  congr 1
  funext a
  by_cases ha : a.name = n
  · subst ha
    simp
    exact fun h' => h h'.symm
  · simp [ha]

theorem entryOK_triple {pt : Product} {e : Entry} (t : Triple) (h : EntryOK pt e) :
    EntryOK pt { e with triple := t } := h

theorem entryOK_new {pt : Product} {k : TKind} {d : Gen.Desc} {pos : Nat} (t : Triple) (dv off : Nat)
    (h : (tableOf pt k)[pos]? = some d) : EntryOK pt (newEntry k d pos t dv off) :=
  ⟨d, h, rfl, rfl, rfl⟩

theorem dsok_setEntry {pt : Product} {ds : DS} {e : Entry} (hds : DSOK pt ds) (he : EntryOK pt e) :
    DSOK pt (setEntry ds e) := by
  intro x hx
  rcases mem_setEntry hx with rfl | h
  · exact he
  · exact hds x h

/-- what `upsert` stores under the new name -/
def upsertResult (old : DS) (new : Entry) : Entry :=
  match find old new.name with
  | some e => if sameClass e new then { e with triple := new.triple } else new
  | none => new

theorem upsert_eq (old ds : DS) (new : Entry) : upsert old ds new = setEntry ds (upsertResult old new) := by
  unfold upsert upsertResult
  cases h : find old new.name with
  | none => rfl
  | some e => simp only []; split <;> rfl

theorem upsertResult_name (old : DS) (new : Entry) : (upsertResult old new).name = new.name := by
  unfold upsertResult
  split
  · next e h => split <;> simp [(find_some h).2]
  · rfl

theorem upsertResult_ok {pt : Product} {old : DS} {new : Entry} (ho : DSOK pt old) (hn : EntryOK pt new) :
    EntryOK pt (upsertResult old new) := by
  unfold upsertResult
  split
  · next e h => split
                · exact entryOK_triple _ (ho e (find_some h).1)
                · exact hn
  · exact hn

theorem dsok_upsert {pt : Product} {old ds : DS} {new : Entry} (ho : DSOK pt old) (hds : DSOK pt ds)
    (hn : EntryOK pt new) : DSOK pt (upsert old ds new) := by
  rw [upsert_eq]; exact dsok_setEntry hds (upsertResult_ok ho hn)

theorem dsok_updateOnly {pt : Product} {old ds : DS} {new : Entry} (ho : DSOK pt old) (hds : DSOK pt ds) :
    DSOK pt (updateOnly old ds new) := by
  unfold updateOnly
  split
  · next e h => split
                · exact dsok_setEntry hds (entryOK_triple _ (ho e (find_some h).1))
                · exact hds
  · exact hds

/-- a side property of entries that both the old entries and the new one have is kept by upsert -/
theorem all_upsert {P : Entry → Prop} (hP : ∀ e t, P e → P { e with triple := t }) {old ds : DS} {new : Entry}
    (ho : ∀ e ∈ old, P e) (hds : ∀ e ∈ ds, P e) (hn : P new) : ∀ e ∈ upsert old ds new, P e := by
  rw [upsert_eq]
  intro x hx
  rcases mem_setEntry hx with rfl | h
  · unfold upsertResult
    split
    · next e h => split
                  · exact hP _ _ (ho e (find_some h).1)
                  · exact hn
    · exact hn
  · exact hds x h

theorem all_updateOnly {P : Entry → Prop} (hP : ∀ e t, P e → P { e with triple := t }) {old ds : DS} {new : Entry}
    (ho : ∀ e ∈ old, P e) (hds : ∀ e ∈ ds, P e) : ∀ e ∈ updateOnly old ds new, P e := by
  unfold updateOnly
  split
  · next e h =>
    split
    · intro x hx
      rcases mem_setEntry hx with rfl | h'
      · exact hP _ _ (ho e (find_some h).1)
      · exact hds x h'
    · exact hds
  · exact hds

/-! ### handlers keep entry-level invariants -/

section handlers
variable {pt : Product} {P : Entry → Prop}

theorem applyEcomaxItems_inv (hP : ∀ e t, P e → P { e with triple := t })
    (hnew : ∀ d pos t, (tableOf pt .ecomax)[pos]? = some d → P (newEntry .ecomax d pos t 0 0))
    {old : DS} (ho : ∀ e ∈ old, P e) :
    ∀ (items : List (Nat × Triple)) (ds : DS), (∀ e ∈ ds, P e) → ∀ e ∈ applyEcomaxItems pt old ds items, P e := by
  intro items
  induction items with
  | nil => intro ds h; exact h
  | cons it rest ih =>
    intro ds h
    obtain ⟨pos, t⟩ := it
    unfold applyEcomaxItems
    split
    · exact ih ds h
    · next d hd => exact ih _ (all_upsert hP ho h (hnew d pos t hd))

theorem applyMixerItems_inv {m : Nat} (hP : ∀ e t, P e → P { e with triple := t })
    (hnew : ∀ d pos t, (tableOf pt .mixer)[pos]? = some d → P (newEntry .mixer d pos t m 0))
    {old : DS} (ho : ∀ e ∈ old, P e) :
    ∀ (items : List (Nat × Triple)) (ds : DS), (∀ e ∈ ds, P e) → ∀ e ∈ applyMixerItems pt m old ds items, P e := by
  intro items
  induction items with
  | nil => intro ds h; exact h
  | cons it rest ih =>
    intro ds h
    obtain ⟨pos, t⟩ := it
    unfold applyMixerItems
    split
    · exact h
    · next d hd => exact ih _ (all_upsert hP ho h (hnew d pos t hd))

theorem applyThermostatItems_inv {tIdx n : Nat} (hP : ∀ e t, P e → P { e with triple := t })
    (hnew : ∀ d pos t, Gen.thermostat[pos]? = some d → P (newEntry .thermostat d pos t tIdx (tIdx * n)))
    {old : DS} (ho : ∀ e ∈ old, P e) :
    ∀ (items : List (Nat × Triple)) (ds : DS), (∀ e ∈ ds, P e) → ∀ e ∈ applyThermostatItems tIdx n old ds items, P e := by
  intro items
  induction items with
  | nil => intro ds h; exact h
  | cons it rest ih =>
    intro ds h
    obtain ⟨pos, t⟩ := it
    unfold applyThermostatItems
    split
    · exact h
    · next d hd => exact ih _ (all_upsert hP ho h (hnew d pos t hd))

theorem foldl_inv {α : Type} (f : DS → α → DS) (hf : ∀ ds a, (∀ e ∈ ds, P e) → ∀ e ∈ f ds a, P e) :
    ∀ (l : List α) (ds : DS), (∀ e ∈ ds, P e) → ∀ e ∈ l.foldl f ds, P e := by
  intro l
  induction l with
  | nil => intro ds h; exact h
  | cons a rest ih => intro ds h; exact ih _ (hf ds a h)

theorem applyScheduleItems_inv (hP : ∀ e t, P e → P { e with triple := t })
    (hnew : ∀ d pos t, Gen.scheduleParams[pos]? = some d → P (newEntry .schedule d pos t 0 0))
    {old : DS} (ho : ∀ e ∈ old, P e) (items : List (Nat × Triple)) (ds : DS) (h : ∀ e ∈ ds, P e) :
    ∀ e ∈ applyScheduleItems old items ds, P e := by
  unfold applyScheduleItems
  split
  · apply foldl_inv _ _ _ _ h
    intro ds a hds
    split
    · next d hd => exact all_upsert hP ho hds (hnew d a.1 a.2 hd)
    · exact hds
  · apply foldl_inv _ _ _ _ h
    intro ds a hds
    split
    · exact all_updateOnly hP ho hds
    · exact hds

end handlers

theorem updDev_inv {Q : Nat → DS → Prop} {l : List (Nat × DS)} {i : Nat} {f : DS → DS}
    (hl : ∀ p ∈ l, Q p.1 p.2) (hf : ∀ ds, Q i ds → Q i (f ds)) (h0 : Q i []) :
    ∀ p ∈ updDev l i f, Q p.1 p.2 := by
  unfold updDev
  split
  · intro p hp
    simp only [List.mem_map] at hp
    obtain ⟨q, hq, rfl⟩ := hp
    by_cases h : q.1 = i
    · simp only [h, beq_self_eq_true, if_true]
      exact hf _ (h ▸ hl q hq)
    · have : (q.1 == i) = false := by simpa using h
      simp only [this]
      exact hl q hq
  · intro p hp
    simp only [List.mem_append, List.mem_singleton] at hp
    rcases hp with hp | rfl
    · exact hl p hp
    · exact hf _ h0

/-! ### world invariant -/

def OnEcomax (e : Entry) : Prop := e.kind ≠ .mixer ∧ e.kind ≠ .thermostat ∧ e.devIndex = 0 ∧ e.offset = 0
def OnMixer (m : Nat) (e : Entry) : Prop := e.kind = .mixer ∧ e.devIndex = m ∧ e.offset = 0
def OnThermostat (t : Nat) (e : Entry) : Prop := e.kind = .thermostat ∧ e.devIndex = t

structure WorldOK (pt : Product) (w : World) : Prop where
  eco : ∀ e ∈ w.ecomax, EntryOK pt e ∧ OnEcomax e
  mix : ∀ p ∈ w.mixers, ∀ e ∈ p.2, EntryOK pt e ∧ OnMixer p.1 e
  thr : ∀ p ∈ w.thermostats, ∀ e ∈ p.2, EntryOK pt e ∧ OnThermostat p.1 e

theorem applyMixers_inv {pt : Product} :
    ∀ (blocks : List (Nat × List (Nat × Triple))) (mixers : List (Nat × DS)),
      (∀ p ∈ mixers, ∀ e ∈ p.2, EntryOK pt e ∧ OnMixer p.1 e) →
      ∀ p ∈ applyMixers pt mixers blocks, ∀ e ∈ p.2, EntryOK pt e ∧ OnMixer p.1 e := by
  intro blocks
  induction blocks with
  | nil => intro mixers h; exact h
  | cons b rest ih =>
    intro mixers h
    obtain ⟨m, items⟩ := b
    unfold applyMixers
    apply ih
    apply updDev_inv (Q := fun i ds => ∀ e ∈ ds, EntryOK pt e ∧ OnMixer i e) h
    · intro ds hds
      exact applyMixerItems_inv (P := fun e => EntryOK pt e ∧ OnMixer m e) (fun e t h => h)
        (fun d pos t hd => ⟨entryOK_new t m 0 hd, rfl, rfl, rfl⟩) hds items ds hds
    · intro e he; cases he

theorem applyThermostats_inv {pt : Product} :
    ∀ (blocks : List (Nat × List (Nat × Triple))) (ths : List (Nat × DS)),
      (∀ p ∈ ths, ∀ e ∈ p.2, EntryOK pt e ∧ OnThermostat p.1 e) →
      ∀ p ∈ applyThermostats ths blocks, ∀ e ∈ p.2, EntryOK pt e ∧ OnThermostat p.1 e := by
  intro blocks
  induction blocks with
  | nil => intro ths h; exact h
  | cons b rest ih =>
    intro ths h
    obtain ⟨t, items⟩ := b
    unfold applyThermostats
    apply ih
    apply updDev_inv (Q := fun i ds => ∀ e ∈ ds, EntryOK pt e ∧ OnThermostat i e) h
    · intro ds hds
      exact applyThermostatItems_inv (P := fun e => EntryOK pt e ∧ OnThermostat t e) (fun e t h => h)
        (fun d pos tr hd => ⟨entryOK_new (pt := pt) (k := .thermostat) tr t (t * items.length) hd, rfl, rfl⟩) hds items ds hds
    · intro e he; cases he

theorem setValue_inv {P : Entry → Prop} (hP : ∀ e t, P e → P { e with triple := t }) {ds : DS} {name : String}
    {e : Entry} (hds : ∀ x ∈ ds, P x) (hf : find ds name = some e) (v : Nat) :
    ∀ x ∈ setEntry ds { e with triple := { e.triple with value := v } }, P x := by
  intro x hx
  rcases mem_setEntry hx with rfl | h
  · exact hP _ _ (hds e (find_some hf).1)
  · exact hds x h

theorem step_ok {pt : Product} {w : World} (h : WorldOK pt w) (ev : Event) : WorldOK pt (step pt w ev).1 := by
  cases ev with
  | ecomaxParams msg =>
    simp only [step]
    split
    · exact h
    · next items _ =>
      refine ⟨?_, h.mix, h.thr⟩
      exact applyEcomaxItems_inv (P := fun e => EntryOK pt e ∧ OnEcomax e) (fun e t h => h)
        (fun d pos t hd => ⟨entryOK_new t 0 0 hd, by simp [OnEcomax, newEntry]⟩) h.eco items _ h.eco
  | mixerParams msg =>
    simp only [step]
    split
    · exact h
    · next blocks _ => exact ⟨h.eco, applyMixers_inv blocks _ h.mix, h.thr⟩
  | thermostatsAvailable n => exact ⟨h.eco, h.mix, h.thr⟩
  | thermostatParams msg =>
    simp only [step]
    split
    · exact h
    · split
      · exact h
      · next profile blocks _ =>
        refine ⟨?_, h.mix, applyThermostats_inv blocks _ h.thr⟩
        have hf : ∀ e ∈ w.ecomax.filter (fun x => !(x.name == Gen.thermostatProfile.name)), EntryOK pt e ∧ OnEcomax e :=
          fun e he => h.eco e (List.mem_filter.mp he).1
        cases profile with
        | none => exact hf
        | some t =>
          intro e he
          simp only [List.mem_cons] at he
          rcases he with rfl | he
          · exact ⟨⟨Gen.thermostatProfile, by simp [newEntry, tableOf], rfl, rfl, rfl⟩, by simp [OnEcomax, newEntry]⟩
          · exact hf e he
  | schedules msg =>
    simp only [step]
    split
    · exact h
    · exact ⟨h.eco, h.mix, h.thr⟩
    · next items _ =>
      refine ⟨?_, h.mix, h.thr⟩
      exact applyScheduleItems_inv (P := fun e => EntryOK pt e ∧ OnEcomax e) (fun e t h => h)
        (fun d pos t hd => ⟨entryOK_new (pt := pt) (k := .schedule) t 0 0 hd, by simp [OnEcomax, newEntry]⟩)
        h.eco _ _ h.eco
  | state on =>
    refine ⟨?_, h.mix, h.thr⟩
    exact all_upsert (P := fun e => EntryOK pt e ∧ OnEcomax e) (fun e t h => h) h.eco h.eco
      ⟨⟨Gen.ecomaxControl, by simp [newEntry, tableOf], rfl, rfl, rfl⟩, by simp [OnEcomax, newEntry]⟩
  | set dev name v =>
    simp only [step]
    split
    · exact h
    · next ds hds =>
      split
      · exact h
      · next e hf =>
        cases dev with
        | ecomax =>
          simp only [World.ds, Option.some.injEq] at hds
          subst hds
          exact ⟨setValue_inv (fun e t h => h) h.eco hf v, h.mix, h.thr⟩
        | mixer i =>
          simp only [World.ds, Option.map_eq_some_iff] at hds
          obtain ⟨p, hp, rfl⟩ := hds
          have hpm := List.mem_of_find?_eq_some hp
          have hpi : p.1 = i := by simpa using List.find?_some hp
          refine ⟨h.eco, ?_, h.thr⟩
          intro q hq
          simp only [World.setDs, List.mem_map] at hq
          obtain ⟨r, hr, rfl⟩ := hq
          by_cases hri : r.1 = i
          · simp only [hri, beq_self_eq_true, if_true]
            have := h.mix p hpm
            rw [hpi] at this
            exact hri ▸ setValue_inv (P := fun e => EntryOK pt e ∧ OnMixer i e) (fun e t h => h) this hf v
          · have : (r.1 == i) = false := by simpa using hri
            simp only [this]
            exact h.mix r hr
        | thermostat i =>
          simp only [World.ds, Option.map_eq_some_iff] at hds
          obtain ⟨p, hp, rfl⟩ := hds
          have hpm := List.mem_of_find?_eq_some hp
          have hpi : p.1 = i := by simpa using List.find?_some hp
          refine ⟨h.eco, h.mix, ?_⟩
          intro q hq
          simp only [World.setDs, List.mem_map] at hq
          obtain ⟨r, hr, rfl⟩ := hq
          by_cases hri : r.1 = i
          · simp only [hri, beq_self_eq_true, if_true]
            have := h.thr p hpm
            rw [hpi] at this
            exact hri ▸ setValue_inv (P := fun e => EntryOK pt e ∧ OnThermostat i e) (fun e t h => h) this hf v
          · have : (r.1 == i) = false := by simpa using hri
            simp only [this]
            exact h.thr r hr

theorem run_ok {pt : Product} : ∀ (evs : List Event) (w : World), WorldOK pt w → WorldOK pt (run pt w evs).1 := by
  intro evs
  induction evs with
  | nil => intro w h; exact h
  | cons ev rest ih =>
    intro w h
    simp only [run]
    exact ih _ (step_ok h ev)

theorem init_ok (pt : Product) : WorldOK pt {} := by
  constructor <;> (intro x hx; cases hx)

end PlumVerif.Dataset

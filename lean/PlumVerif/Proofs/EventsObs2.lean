import PlumVerif.Proofs.EventsObs
namespace PlumVerif.C13

theorem stepD_plainProj (sc : Nat → Script) (s : St) (h : InvS s) (i : Nat) :
    ∀ n, plainProj ((stepD sc s i).subs n) = plainProj (s.subs n) := by
  intro n
  unfold stepD
  split
  · rename_i hph
    exact walk_plainProj sc i _ _ _ _ (invS_start s h i hph) (by simp) (by simp [DPhase.started])
      (fun x hx => h.liveSub _ x hx) n
  · rfl
  · rename_i rest u val hph
    exact walk_plainProj sc i _ _ _ _ (invS_resume s h i rest u val hph) (by simp) (by simp [DPhase.started])
      (fun x hx => h.restSub i rest u 0 val hph x hx) n
  · rfl

/-- a move of a dispatch task leaves the bookkeeping alone -/
theorem stepD_static (sc : Nat → Script) (s : St) (i : Nat) :
    (stepD sc s i).subscribed = s.subscribed ∧ (stepD sc s i).nd = s.nd ∧ (stepD sc s i).nw = s.nw ∧
    (∀ j, ((stepD sc s i).w j).name = (s.w j).name ∧ ((stepD sc s i).w j).timeout = (s.w j).timeout) ∧
    (∀ j, ((stepD sc s i).d j).name = (s.d j).name ∧ ((stepD sc s i).d j).init = (s.d j).init) := by
  unfold stepD
  split
  · have ws := walk_static sc i (s.d i).name (s.subs (s.d i).name)
      { s with d := upd s.d i { s.d i with snapshot := s.subs (s.d i).name, startedAt := s.clock, ph := .running } } (s.d i).init
    have wf := walk_self sc i (s.d i).name (s.subs (s.d i).name)
      { s with d := upd s.d i { s.d i with snapshot := s.subs (s.d i).name, startedAt := s.clock, ph := .running } } (s.d i).init
    refine ⟨ws.1, ws.2.2.2.2.1, ws.2.2.2.2.2.1, ws.2.2.2.2.2.2.2, fun j => ?_⟩
    by_cases e : j = i
    · subst e; rw [wf.2.2.1, wf.2.2.2.1]; simp
    · rw [(walk_frame sc i _ _ _ _).1 j e]; simp [upd_other _ _ _ _ e]
  · refine ⟨rfl, rfl, rfl, fun _ => ⟨rfl, rfl⟩, fun j => ?_⟩
    by_cases e : j = i
    · subst e; simp
    · simp [upd_other _ _ _ _ e]
  · rename_i rest u val hph
    have ws := walk_static sc i (s.d i).name rest { s with d := upd s.d i { s.d i with ph := .running } } ((sc u.cb).ret.apply val)
    have wf := walk_self sc i (s.d i).name rest { s with d := upd s.d i { s.d i with ph := .running } } ((sc u.cb).ret.apply val)
    refine ⟨ws.1, ws.2.2.2.2.1, ws.2.2.2.2.2.1, ws.2.2.2.2.2.2.2, fun j => ?_⟩
    by_cases e : j = i
    · subst e; rw [wf.2.2.1, wf.2.2.2.1]; simp
    · rw [(walk_frame sc i _ _ _ _).1 j e]; simp [upd_other _ _ _ _ e]
  · exact ⟨rfl, rfl, rfl, fun _ => ⟨rfl, rfl⟩, fun _ => ⟨rfl, rfl⟩⟩

/-- the subscriptions of a history: (name, function, once?) in order -/
def subOf : Op → Option (Nat × Nat × Bool)
  | .sub n c => some (n, c, false)
  | .once n c => some (n, c, true)
  | _ => none

def subsOf (ops : List Op) : List (Nat × Nat × Bool) := ops.filterMap subOf

/-- what the machine's state has to do with the API calls `pre` made so far -/
structure MInv (sc : Nat → Script) (pre : List Op) (s : St) : Prop where
  inv : Inv sc s
  isnap : InvSnap s
  nd : s.nd = (dispList pre).length
  dinfo : ∀ i p, (dispList pre)[i]? = some p → (s.d i).name = p.1 ∧ (s.d i).init = p.2
  nw : s.nw = (waitList pre).length
  winfo : ∀ j p, (waitList pre)[j]? = some p → (s.w j).name = p.1 ∧ (s.w j).timeout = p.2
  subsOps : s.subscribed.map (fun p => (p.1, p.2.cb, p.2.once)) = subsOf pre
  plain : ∀ n, plainProj (s.subs n) = plainSim pre n
  started : ∀ i, (s.d i).ph.started = true → ∃ a k, (dispIdxFrom 0 pre)[i]? = some a ∧ a < k ∧ k ≤ pre.length ∧
    plainProj (s.d i).snapshot = plainSim (pre.take k) (s.d i).name

theorem dispIdx_lt (k : Nat) (ops : List Op) : ∀ a ∈ dispIdxFrom k ops, k ≤ a ∧ a < k + ops.length := by
  induction ops generalizing k with
  | nil => intro a ha; simp [dispIdxFrom] at ha
  | cons op ops ih =>
    intro a ha
    cases op <;> simp only [dispIdxFrom, List.mem_cons, List.length_cons] at ha ⊢ <;>
      first
      | (rcases ha with rfl | ha
         · omega
         · have := ih (k + 1) a ha; omega)
      | (have := ih (k + 1) a ha; omega)

theorem dispIdx_length (k : Nat) (ops : List Op) : (dispIdxFrom k ops).length = (dispList ops).length := by
  induction ops generalizing k with
  | nil => rfl
  | cons op ops ih =>
    have := ih (k + 1)
    cases op <;> simp only [dispIdxFrom, dispList, List.filterMap_cons, dispOf, List.length_cons] at this ⊢ <;> omega

/-- a move of dispatch task `i` during the loop run that follows the calls `pre` -/
theorem mInv_stepD (sc : Nat → Script) (pre : List Op) (s : St) (h : MInv sc pre s) (i : Nat) :
    MInv sc pre (step sc s (.stepD i)) := by
  have st := stepD_static sc s i
  have hd : ∀ j, (step sc s (.stepD i)).d j = (stepD sc s i).d j := fun _ => rfl
  constructor
  · exact inv_step sc s h.inv _
  · exact invSnap_step sc s h.isnap h.inv.s h.inv.a _
  · show (stepD sc s i).nd = _; rw [st.2.1]; exact h.nd
  · intro j p hp; rw [hd, (st.2.2.2.2 j).1, (st.2.2.2.2 j).2]; exact h.dinfo j p hp
  · show (stepD sc s i).nw = _; rw [st.2.2.1]; exact h.nw
  · intro j p hp
    show ((stepD sc s i).w j).name = _ ∧ ((stepD sc s i).w j).timeout = _
    rw [(st.2.2.2.1 j).1, (st.2.2.2.1 j).2]; exact h.winfo j p hp
  · show (stepD sc s i).subscribed.map _ = _; rw [st.1]; exact h.subsOps
  · intro n; show plainProj ((stepD sc s i).subs n) = _; rw [stepD_plainProj sc s h.inv.s i n]; exact h.plain n
  · intro j hj
    rw [hd] at hj ⊢
    by_cases e : j = i
    · subst e
      by_cases hst : (s.d j).ph.started = true
      · -- already started: snapshot and name unchanged
        have hsnap : ((stepD sc s j).d j).snapshot = (s.d j).snapshot := by
          unfold stepD; split
          · rename_i hph; rw [hph] at hst; simp [DPhase.started] at hst
          · simp
          · rw [(walk_self sc j _ _ _ _).1]; simp
          · rfl
        rw [hsnap, (st.2.2.2.2 j).1]; exact h.started j hst
      · -- first run: the snapshot is the live list now
        have hc : (s.d j).ph = .created := by
          cases hp : (s.d j).ph with
          | created => rfl
          | absent =>
            have : stepD sc s j = s := by simp [stepD, hp]
            rw [this, hp] at hj; simp [DPhase.started] at hj
          | running => rw [hp] at hst; simp [DPhase.started] at hst
          | inCb _ _ _ _ => rw [hp] at hst; simp [DPhase.started] at hst
          | done _ => rw [hp] at hst; simp [DPhase.started] at hst
        have hsnap : ((stepD sc s j).d j).snapshot = s.subs (s.d j).name := by
          unfold stepD; simp only [hc]
          rw [(walk_self sc j _ _ _ _).1]; simp
        have hlt : j < (dispList pre).length := by
          rw [← h.nd]; exact lt_nd_of_not_absent s h.inv.c j (by rw [hc]; simp)
        have hlt' : j < (dispIdxFrom 0 pre).length := by rw [dispIdx_length]; exact hlt
        refine ⟨(dispIdxFrom 0 pre)[j], pre.length, by simp [hlt'], ?_, Nat.le_refl _, ?_⟩
        · have := dispIdx_lt 0 pre _ (List.getElem_mem hlt'); omega
        · rw [hsnap, (st.2.2.2.2 j).1, List.take_length]; exact h.plain _
    · have : (stepD sc s i).d j = s.d j := (stepD_effect sc s i).1 j e
      rw [this] at hj ⊢; exact h.started j hj

theorem mInv_quiet (sc : Nat → Script) (pre : List Op) (s s' : St) (h : MInv sc pre s)
    (hinv : Inv sc s') (hsnap : InvSnap s') (hd : s'.d = s.d) (hsubs : s'.subs = s.subs)
    (hsub : s'.subscribed = s.subscribed) (hnd : s'.nd = s.nd) (hnw : s'.nw = s.nw)
    (hw : ∀ j, (s'.w j).name = (s.w j).name ∧ (s'.w j).timeout = (s.w j).timeout) : MInv sc pre s' :=
  ⟨hinv, hsnap, by rw [hnd]; exact h.nd, fun i p hp => by rw [hd]; exact h.dinfo i p hp, by rw [hnw]; exact h.nw,
    fun j p hp => by rw [(hw j).1, (hw j).2]; exact h.winfo j p hp, by rw [hsub]; exact h.subsOps,
    fun n => by rw [hsubs]; exact h.plain n, fun i hi => by rw [hd] at hi ⊢; exact h.started i hi⟩

theorem mInv_stepW (sc : Nat → Script) (pre : List Op) (s : St) (h : MInv sc pre s) (j : Nat) :
    MInv sc pre (step sc s (.stepW j)) := by
  have hn : ∀ j', ((stepW s j).w j').name = (s.w j').name ∧ ((stepW s j).w j').timeout = (s.w j').timeout := by
    intro j'
    unfold stepW
    split
    · split
      · by_cases e : j' = j
        · subst e; simp
        · simp [upd_other _ _ _ _ e]
      · split <;>
        · by_cases e : j' = j
          · subst e; simp
          · simp [upd_other _ _ _ _ e]
    · by_cases e : j' = j
      · subst e; simp
      · simp [upd_other _ _ _ _ e]
    · exact ⟨rfl, rfl⟩
  have hs : (stepW s j).d = s.d ∧ (stepW s j).subs = s.subs ∧ (stepW s j).subscribed = s.subscribed ∧
      (stepW s j).nd = s.nd ∧ (stepW s j).nw = s.nw := by
    unfold stepW
    split
    · split
      · exact ⟨rfl, rfl, rfl, rfl, rfl⟩
      · split <;> exact ⟨rfl, rfl, rfl, rfl, rfl⟩
    · exact ⟨rfl, rfl, rfl, rfl, rfl⟩
    · exact ⟨rfl, rfl, rfl, rfl, rfl⟩
  exact mInv_quiet sc pre s _ h (inv_step sc s h.inv _) (invSnap_step sc s h.isnap h.inv.s h.inv.a _)
    hs.1 hs.2.1 hs.2.2.1 hs.2.2.2.1 hs.2.2.2.2 hn

theorem mInv_advance (sc : Nat → Script) (pre : List Op) (s : St) (h : MInv sc pre s) (t : Nat) :
    MInv sc pre (step sc s (.advance t)) := by
  have hs : (advance s t).d = s.d ∧ (advance s t).subs = s.subs ∧ (advance s t).subscribed = s.subscribed ∧
      (advance s t).nd = s.nd ∧ (advance s t).nw = s.nw ∧
      ∀ j, ((advance s t).w j).name = (s.w j).name ∧ ((advance s t).w j).timeout = (s.w j).timeout := by
    unfold advance
    split
    · exact ⟨rfl, rfl, rfl, rfl, rfl, fun _ => ⟨rfl, rfl⟩⟩
    · exact ⟨rfl, rfl, rfl, rfl, rfl, fun j => ⟨by simp, by simp⟩⟩
  exact mInv_quiet sc pre s _ h (inv_step sc s h.inv _) (invSnap_step sc s h.isnap h.inv.s h.inv.a _)
    hs.1 hs.2.1 hs.2.2.1 hs.2.2.2.1 hs.2.2.2.2.1 hs.2.2.2.2.2


/-! ### extending the history by one call -/

theorem dispList_snoc (pre : List Op) (op : Op) : dispList (pre ++ [op]) = dispList pre ++ (dispOf op).toList := by
  simp only [dispList, List.filterMap_append, List.filterMap_cons, List.filterMap_nil]
  cases dispOf op <;> rfl

theorem waitList_snoc (pre : List Op) (op : Op) : waitList (pre ++ [op]) = waitList pre ++ (waitOf op).toList := by
  simp only [waitList, List.filterMap_append, List.filterMap_cons, List.filterMap_nil]
  cases waitOf op <;> rfl

theorem subsOf_snoc (pre : List Op) (op : Op) : subsOf (pre ++ [op]) = subsOf pre ++ (subOf op).toList := by
  simp only [subsOf, List.filterMap_append, List.filterMap_cons, List.filterMap_nil]
  cases subOf op <;> rfl

theorem plainSim_snoc (pre : List Op) (op : Op) (n : Nat) : plainSim (pre ++ [op]) n = simStep n (plainSim pre n) op := by
  simp [plainSim, List.foldl_append]

theorem dispIdxFrom_snoc (k : Nat) (pre : List Op) (op : Op) :
    dispIdxFrom k (pre ++ [op]) = dispIdxFrom k pre ++ (if (dispOf op).isSome then [k + pre.length] else []) := by
  induction pre generalizing k with
  | nil => cases op <;> simp [dispIdxFrom, dispOf]
  | cons a pre ih =>
    have := ih (k + 1)
    have e : k + (a :: pre).length = k + 1 + pre.length := by simp; omega
    rw [e]
    cases a <;> simp only [List.cons_append, dispIdxFrom, this]

theorem getElem?_append_some {α : Type} (l m : List α) (i : Nat) (x : α) (h : l[i]? = some x) : (l ++ m)[i]? = some x := by
  have hi : i < l.length := by
    by_cases hi : i < l.length
    · exact hi
    · rw [List.getElem?_eq_none (by omega)] at h; simp at h
  rw [List.getElem?_append_left hi]; exact h

/-- the `started` clause survives any extension of the history -/
theorem started_extend (sc : Nat → Script) (pre : List Op) (op : Op) (s s' : St) (h : MInv sc pre s)
    (hd : ∀ i, (s'.d i).ph.started = true → s'.d i = s.d i) :
    ∀ i, (s'.d i).ph.started = true → ∃ a k, (dispIdxFrom 0 (pre ++ [op]))[i]? = some a ∧ a < k ∧
      k ≤ (pre ++ [op]).length ∧ plainProj (s'.d i).snapshot = plainSim ((pre ++ [op]).take k) (s'.d i).name := by
  intro i hi
  have e := hd i hi
  rw [e] at hi ⊢
  obtain ⟨a, k, h1, h2, h3, h4⟩ := h.started i hi
  refine ⟨a, k, ?_, h2, by simp; omega, ?_⟩
  · rw [dispIdxFrom_snoc]; exact getElem?_append_some _ _ _ _ h1
  · rw [List.take_append_of_le_length h3]; exact h4

/-- a call that is neither a subscription change nor creates a task (rel / settle / adv as
entries of the history): nothing to update -/
theorem mInv_extend_quiet (sc : Nat → Script) (pre : List Op) (op : Op) (s : St) (h : MInv sc pre s)
    (h1 : dispOf op = none) (h2 : waitOf op = none) (h3 : subOf op = none) (h4 : ∀ n l, simStep n l op = l) :
    MInv sc (pre ++ [op]) s := by
  refine ⟨h.inv, h.isnap, ?_, ?_, ?_, ?_, ?_, ?_, started_extend sc pre op s s h (fun _ _ => rfl)⟩
  · rw [dispList_snoc, h1]; simpa using h.nd
  · intro i p hp; rw [dispList_snoc, h1] at hp; simp at hp; exact h.dinfo i p hp
  · rw [waitList_snoc, h2]; simpa using h.nw
  · intro j p hp; rw [waitList_snoc, h2] at hp; simp at hp; exact h.winfo j p hp
  · rw [subsOf_snoc, h3]; simpa using h.subsOps
  · intro n; rw [plainSim_snoc, h4]; exact h.plain n

theorem mInv_sub (sc : Nat → Script) (pre : List Op) (s : St) (h : MInv sc pre s) (n c : Nat) (o : Bool) :
    MInv sc (pre ++ [if o then .once n c else .sub n c])
      (step sc s (if o then .subscribeOnce n c else .subscribe n c)) := by
  have hop1 : dispOf (if o then Op.once n c else Op.sub n c) = none := by cases o <;> rfl
  have hop2 : waitOf (if o then Op.once n c else Op.sub n c) = none := by cases o <;> rfl
  have hop3 : subOf (if o then Op.once n c else Op.sub n c) = some (n, c, o) := by cases o <;> rfl
  have hst : (step sc s (if o then .subscribeOnce n c else .subscribe n c)).d = s.d := by cases o <;> rfl
  have hw : (step sc s (if o then .subscribeOnce n c else .subscribe n c)).w = s.w := by cases o <;> rfl
  have hnd : (step sc s (if o then .subscribeOnce n c else .subscribe n c)).nd = s.nd := by cases o <;> rfl
  have hnw : (step sc s (if o then .subscribeOnce n c else .subscribe n c)).nw = s.nw := by cases o <;> rfl
  refine ⟨inv_step sc s h.inv _, invSnap_step sc s h.isnap h.inv.s h.inv.a _, ?_, ?_, ?_, ?_, ?_, ?_,
    started_extend sc pre _ s _ h (fun i _ => by rw [hst])⟩
  · rw [dispList_snoc, hop1, hnd]; simpa using h.nd
  · intro i p hp; rw [dispList_snoc, hop1] at hp; simp at hp; rw [hst]; exact h.dinfo i p hp
  · rw [waitList_snoc, hop2, hnw]; simpa using h.nw
  · intro j p hp; rw [waitList_snoc, hop2] at hp; simp at hp; rw [hw]; exact h.winfo j p hp
  · rw [subsOf_snoc, hop3]
    cases o <;> simp [step, apply, h.subsOps]
  · intro m
    rw [plainSim_snoc]
    cases o
    · show plainProj (upd s.subs n (s.subs n ++ [⟨s.nextSid, c, false⟩]) m) = _
      simp only [Bool.false_eq_true, if_false, simStep]
      by_cases e : m = n
      · subst e; simp [plainProj_append, h.plain m]
      · have e' : ¬ n = m := fun x => e x.symm
        simp [upd_other _ _ _ _ e, e', h.plain m]
    · show plainProj (upd s.subs n (s.subs n ++ [⟨s.nextSid, c, true⟩]) m) = _
      simp only [if_true, simStep]
      by_cases e : m = n
      · subst e; simp [plainProj_append, h.plain m]
      · simp [upd_other _ _ _ _ e, h.plain m]


theorem mInv_unsub (sc : Nat → Script) (pre : List Op) (s : St) (h : MInv sc pre s) (n c : Nat) :
    MInv sc (pre ++ [.unsub n c]) (step sc s (.unsubCb n c)) := by
  have hd : (step sc s (.unsubCb n c)).d = s.d := by
    show (apply sc s (.unsubCb n c)).d = s.d; simp only [apply]; split <;> rfl
  have hw : (step sc s (.unsubCb n c)).w = s.w := by
    show (apply sc s (.unsubCb n c)).w = s.w; simp only [apply]; split <;> rfl
  have hnd : (step sc s (.unsubCb n c)).nd = s.nd := by
    show (apply sc s (.unsubCb n c)).nd = s.nd; simp only [apply]; split <;> rfl
  have hnw : (step sc s (.unsubCb n c)).nw = s.nw := by
    show (apply sc s (.unsubCb n c)).nw = s.nw; simp only [apply]; split <;> rfl
  have hsub : (step sc s (.unsubCb n c)).subscribed = s.subscribed := by
    show (apply sc s (.unsubCb n c)).subscribed = s.subscribed; simp only [apply]; split <;> rfl
  refine ⟨inv_step sc s h.inv _, invSnap_step sc s h.isnap h.inv.s h.inv.a _, ?_, ?_, ?_, ?_, ?_, ?_,
    started_extend sc pre _ s _ h (fun i _ => by rw [hd])⟩
  · rw [dispList_snoc, hnd]; simpa [dispOf] using h.nd
  · intro i p hp; rw [dispList_snoc] at hp; simp [dispOf] at hp; rw [hd]; exact h.dinfo i p hp
  · rw [waitList_snoc, hnw]; simpa [waitOf] using h.nw
  · intro j p hp; rw [waitList_snoc] at hp; simp [waitOf] at hp; rw [hw]; exact h.winfo j p hp
  · rw [subsOf_snoc, hsub]; simpa [subOf] using h.subsOps
  · intro m
    rw [plainSim_snoc]
    show plainProj ((apply sc s (.unsubCb n c)).subs m) = simStep m (plainSim pre m) (.unsub n c)
    simp only [apply, simStep]
    split
    · rename_i u hu
      by_cases e : m = n
      · subst e
        simp only [upd_same, if_true]
        rw [plainProj_dropSid_found _ c u (h.inv.s.liveNodup m) hu, h.plain m]
      · have e' : ¬ n = m := fun x => e x.symm
        simp only [upd_other _ _ _ _ e, e', if_false]; exact h.plain m
    · rename_i hu
      by_cases e : m = n
      · subst e
        simp only [if_true]
        have := plainProj_findCb_none _ c hu
        rw [← h.plain m, List.erase_of_not_mem this]
      · have e' : ¬ n = m := fun x => e x.symm
        simp only [e', if_false]; exact h.plain m

theorem mInv_unsubo (sc : Nat → Script) (pre : List Op) (s : St) (h : MInv sc pre s) (n sid : Nat) :
    MInv sc (pre ++ [.unsubo n sid]) (step sc s (.unsubOnce n sid)) := by
  have hd : (step sc s (.unsubOnce n sid)).d = s.d := by
    show (apply sc s (.unsubOnce n sid)).d = s.d; simp only [apply]; split <;> rfl
  have hw : (step sc s (.unsubOnce n sid)).w = s.w := by
    show (apply sc s (.unsubOnce n sid)).w = s.w; simp only [apply]; split <;> rfl
  have hnd : (step sc s (.unsubOnce n sid)).nd = s.nd := by
    show (apply sc s (.unsubOnce n sid)).nd = s.nd; simp only [apply]; split <;> rfl
  have hnw : (step sc s (.unsubOnce n sid)).nw = s.nw := by
    show (apply sc s (.unsubOnce n sid)).nw = s.nw; simp only [apply]; split <;> rfl
  have hsub : (step sc s (.unsubOnce n sid)).subscribed = s.subscribed := by
    show (apply sc s (.unsubOnce n sid)).subscribed = s.subscribed; simp only [apply]; split <;> rfl
  refine ⟨inv_step sc s h.inv _, invSnap_step sc s h.isnap h.inv.s h.inv.a _, ?_, ?_, ?_, ?_, ?_, ?_,
    started_extend sc pre _ s _ h (fun i _ => by rw [hd])⟩
  · rw [dispList_snoc, hnd]; simpa [dispOf] using h.nd
  · intro i p hp; rw [dispList_snoc] at hp; simp [dispOf] at hp; rw [hd]; exact h.dinfo i p hp
  · rw [waitList_snoc, hnw]; simpa [waitOf] using h.nw
  · intro j p hp; rw [waitList_snoc] at hp; simp [waitOf] at hp; rw [hw]; exact h.winfo j p hp
  · rw [subsOf_snoc, hsub]; simpa [subOf] using h.subsOps
  · intro m
    rw [plainSim_snoc]
    show plainProj ((apply sc s (.unsubOnce n sid)).subs m) = simStep m (plainSim pre m) (.unsubo n sid)
    simp only [apply, simStep]
    split
    · rename_i hc
      obtain ⟨u, hu, hus⟩ := List.any_eq_true.1 hc
      simp only [Bool.and_eq_true, beq_iff_eq] at hus
      by_cases e : m = n
      · subst e
        simp only [upd_same]
        rw [plainProj_dropSid_once _ _ (fun x hx hs => by
          have := subscribed_inj s h.inv.s (m, x) (m, u) (h.inv.s.liveSub m x hx) (h.inv.s.liveSub m u hu) (by rw [hs, hus.2])
          have hxu : x = u := by injection this
          rw [hxu]; exact hus.1)]
        exact h.plain m
      · simp only [upd_other _ _ _ _ e]; exact h.plain m
    · exact h.plain m

theorem mInv_disp (sc : Nat → Script) (pre : List Op) (s : St) (h : MInv sc pre s) (n v : Nat) :
    MInv sc (pre ++ [.disp n v]) (step sc s (.spawnDispatch n v)) := by
  have hdj : ∀ j, j ≠ s.nd → (step sc s (.spawnDispatch n v)).d j = s.d j := fun j hj => by
    show upd s.d s.nd _ j = s.d j; exact upd_other _ _ _ _ hj
  have hnew : (step sc s (.spawnDispatch n v)).d s.nd = ⟨n, v, .created, [], 0, [], s.clock, fun cb => s.nSub n cb⟩ := by
    show upd s.d s.nd _ s.nd = _; simp
  refine ⟨inv_step sc s h.inv _, invSnap_step sc s h.isnap h.inv.s h.inv.a _, ?_, ?_, ?_, ?_, ?_, ?_, ?_⟩
  · rw [dispList_snoc]; show s.nd + 1 = _; simp [dispOf, h.nd]
  · intro i p hp
    rw [dispList_snoc] at hp
    by_cases e : i = s.nd
    · subst e
      rw [h.nd, List.getElem?_append_right (Nat.le_refl _)] at hp
      simp [dispOf] at hp
      rw [hnew, ← hp]; exact ⟨rfl, rfl⟩
    · rw [hdj i e]
      by_cases hi : i < (dispList pre).length
      · rw [List.getElem?_append_left hi] at hp; exact h.dinfo i p hp
      · rw [List.getElem?_append_right (by omega)] at hp
        simp [dispOf] at hp
        have : i = s.nd := by
          rw [h.nd]
          cases hk : i - (dispList pre).length with
          | zero => omega
          | succ k => rw [hk] at hp; simp at hp
        exact absurd this e
  · rw [waitList_snoc]; show s.nw = _; simpa [waitOf] using h.nw
  · intro j p hp; rw [waitList_snoc] at hp; simp [waitOf] at hp; exact h.winfo j p hp
  · rw [subsOf_snoc]; show s.subscribed.map _ = _; simpa [subOf] using h.subsOps
  · intro m; rw [plainSim_snoc]; exact h.plain m
  · apply started_extend sc pre _ s _ h
    intro i hi
    by_cases e : i = s.nd
    · subst e; rw [hnew] at hi; simp [DPhase.started] at hi
    · exact hdj i e

theorem mInv_get (sc : Nat → Script) (pre : List Op) (s : St) (h : MInv sc pre s) (n : Nat) (t : Option Nat) :
    MInv sc (pre ++ [.get n t]) (step sc s (.spawnWait n t)) := by
  have hwj : ∀ j, j ≠ s.nw → (step sc s (.spawnWait n t)).w j = s.w j := fun j hj => by
    show upd s.w s.nw _ j = s.w j; exact upd_other _ _ _ _ hj
  have hnew : (step sc s (.spawnWait n t)).w s.nw = ⟨n, t, .created, 0, false⟩ := by
    show upd s.w s.nw _ s.nw = _; simp
  refine ⟨inv_step sc s h.inv _, invSnap_step sc s h.isnap h.inv.s h.inv.a _, ?_, ?_, ?_, ?_, ?_, ?_,
    started_extend sc pre _ s _ h (fun _ _ => rfl)⟩
  · rw [dispList_snoc]; show s.nd = _; simpa [dispOf] using h.nd
  · intro i p hp; rw [dispList_snoc] at hp; simp [dispOf] at hp; exact h.dinfo i p hp
  · rw [waitList_snoc]; show s.nw + 1 = _; simp [waitOf, h.nw]
  · intro j p hp
    rw [waitList_snoc] at hp
    by_cases e : j = s.nw
    · subst e
      rw [h.nw, List.getElem?_append_right (Nat.le_refl _)] at hp
      simp [waitOf] at hp
      rw [hnew, ← hp]; exact ⟨rfl, rfl⟩
    · rw [hwj j e]
      by_cases hj : j < (waitList pre).length
      · rw [List.getElem?_append_left hj] at hp; exact h.winfo j p hp
      · rw [List.getElem?_append_right (by omega)] at hp
        simp [waitOf] at hp
        have : j = s.nw := by
          rw [h.nw]
          cases hk : j - (waitList pre).length with
          | zero => omega
          | succ k => rw [hk] at hp; simp at hp
        exact absurd this e
  · rw [subsOf_snoc]; show s.subscribed.map _ = _; simpa [subOf] using h.subsOps
  · intro m; rw [plainSim_snoc]; exact h.plain m


/-! ### what never changes for tasks that exist -/

structure Mono (s s' : St) : Prop where
  done : ∀ i f, (s.d i).ph = .done f → (s'.d i).ph = .done f
  dname : ∀ i, i < s.nd → (s'.d i).name = (s.d i).name
  wname : ∀ j, j < s.nw → (s'.w j).name = (s.w j).name
  nd : s.nd ≤ s'.nd
  nw : s.nw ≤ s'.nw

theorem mono_refl (s : St) : Mono s s := ⟨fun _ _ h => h, fun _ _ => rfl, fun _ _ => rfl, Nat.le_refl _, Nat.le_refl _⟩

theorem mono_trans {a b c : St} (h1 : Mono a b) (h2 : Mono b c) : Mono a c :=
  ⟨fun i f h => h2.done i f (h1.done i f h),
   fun i hi => by rw [h2.dname i (Nat.lt_of_lt_of_le hi h1.nd), h1.dname i hi],
   fun j hj => by rw [h2.wname j (Nat.lt_of_lt_of_le hj h1.nw), h1.wname j hj],
   Nat.le_trans h1.nd h2.nd, Nat.le_trans h1.nw h2.nw⟩

theorem stepW_wname (s : St) (j j' : Nat) : ((stepW s j).w j').name = (s.w j').name := by
  unfold stepW
  split
  · split
    · by_cases e : j' = j
      · subst e; simp
      · simp [upd_other _ _ _ _ e]
    · split <;>
      · by_cases e : j' = j
        · subst e; simp
        · simp [upd_other _ _ _ _ e]
  · by_cases e : j' = j
    · subst e; simp
    · simp [upd_other _ _ _ _ e]
  · rfl

theorem mono_step (sc : Nat → Script) (s : St) (hC : InvC s) (e : Ev) : Mono s (step sc s e) := by
  refine ⟨fun i f h => ?_, ?_, ?_, ?_, ?_⟩
  · show ((apply sc s e).d i).ph = _; rw [apply_done_stable sc s hC e i f h]; exact h
  · intro i hi
    show ((apply sc s e).d i).name = _
    cases e with
    | subscribe n cb => rfl
    | subscribeOnce n cb => rfl
    | unsubCb n cb => simp only [apply]; split <;> rfl
    | unsubOnce n sid => simp only [apply]; split <;> rfl
    | spawnDispatch n v =>
      have : i ≠ s.nd := by omega
      simp only [apply, upd_other _ _ _ _ this]
    | spawnWait n to => rfl
    | stepD i' => exact ((stepD_static sc s i').2.2.2.2 i).1
    | stepW j => simp only [apply]; rw [(stepW_effect s j).1]
    | advance t => simp only [apply, advance]; split <;> rfl
  · intro j hj
    show ((apply sc s e).w j).name = _
    cases e with
    | subscribe n cb => rfl
    | subscribeOnce n cb => rfl
    | unsubCb n cb => simp only [apply]; split <;> rfl
    | unsubOnce n sid => simp only [apply]; split <;> rfl
    | spawnDispatch n v => rfl
    | spawnWait n to =>
      have : j ≠ s.nw := by omega
      simp only [apply, upd_other _ _ _ _ this]
    | stepD i' => exact ((stepD_static sc s i').2.2.2.1 j).1
    | stepW j' => exact stepW_wname s j' j
    | advance t =>
      simp only [apply, advance]; split
      · rfl
      · simp
  · show s.nd ≤ (apply sc s e).nd
    cases e with
    | subscribe n cb => exact Nat.le_refl _
    | subscribeOnce n cb => exact Nat.le_refl _
    | unsubCb n cb => simp only [apply]; split <;> exact Nat.le_refl _
    | unsubOnce n sid => simp only [apply]; split <;> exact Nat.le_refl _
    | spawnDispatch n v => exact Nat.le_succ _
    | spawnWait n to => exact Nat.le_refl _
    | stepD i' => rw [show (apply sc s (.stepD i')).nd = s.nd from (stepD_static sc s i').2.1]; exact Nat.le_refl _
    | stepW j => simp only [apply, stepW]; split <;> (try split) <;> (try split) <;> exact Nat.le_refl _
    | advance t => simp only [apply, advance]; split <;> exact Nat.le_refl _
  · show s.nw ≤ (apply sc s e).nw
    cases e with
    | subscribe n cb => exact Nat.le_refl _
    | subscribeOnce n cb => exact Nat.le_refl _
    | unsubCb n cb => simp only [apply]; split <;> exact Nat.le_refl _
    | unsubOnce n sid => simp only [apply]; split <;> exact Nat.le_refl _
    | spawnDispatch n v => exact Nat.le_refl _
    | spawnWait n to => exact Nat.le_succ _
    | stepD i' => rw [show (apply sc s (.stepD i')).nw = s.nw from (stepD_static sc s i').2.2.1]; exact Nat.le_refl _
    | stepW j => simp only [apply, stepW]; split <;> (try split) <;> (try split) <;> exact Nat.le_refl _
    | advance t => simp only [apply, advance]; split <;> exact Nat.le_refl _

/-! ### the loop run -/

/-- anything that every move of a ready task preserves holds after the loop run -/
theorem settle_induct (sc : Nat → Script) (P : St → Prop)
    (hD : ∀ s i, P s → P (step sc s (.stepD i))) (hW : ∀ s j, P s → P (step sc s (.stepW j))) :
    ∀ fuel s ready, P s → P (settle sc fuel s ready) := by
  intro fuel
  induction fuel with
  | zero => intro s ready h; exact h
  | succ fuel ih =>
    intro s ready h
    cases ready with
    | nil => exact h
    | cons r rest =>
      cases r with
      | d i => exact ih _ _ (hD s i h)
      | w j => exact ih _ _ (hW s j h)

theorem settle_mInv (sc : Nat → Script) (pre : List Op) (fuel : Nat) (s : St) (ready : List Ready)
    (h : MInv sc pre s) : MInv sc pre (settle sc fuel s ready) :=
  settle_induct sc (MInv sc pre) (fun s i h => mInv_stepD sc pre s h i) (fun s j h => mInv_stepW sc pre s h j)
    fuel s ready h

theorem settle_rel (sc : Nat → Script) (pre : List Op) (fuel : Nat) (s0 : St) (ready : List Ready)
    (h : MInv sc pre s0) :
    DataRel s0 (settle sc fuel s0 ready) ∧ Mono s0 (settle sc fuel s0 ready) := by
  have := settle_induct sc (fun s => MInv sc pre s ∧ DataRel s0 s ∧ Mono s0 s)
    (fun s i ⟨hm, hr, hmo⟩ => ⟨mInv_stepD sc pre s hm i, dataRel_stepD sc s0 s hr i,
      mono_trans hmo (mono_step sc s hm.inv.c _)⟩)
    (fun s j ⟨hm, hr, hmo⟩ => ⟨mInv_stepW sc pre s hm j,
      dataRel_same sc s0 s _ hr (stepW_effect s j).1 (stepW_effect s j).2,
      mono_trans hmo (mono_step sc s hm.inv.c _)⟩)
    fuel s0 ready ⟨h, dataRel_refl s0, mono_refl s0⟩
  exact ⟨this.2.1, this.2.2⟩

end PlumVerif.C13

import PlumVerif.Model.Fanout
/-
Helper lemmas for the sub-device fan-out machine (Model/Fanout.lean).
-/
namespace PlumVerif.Fanout

/-! ### lookup in an append-only registry -/

theorem lookup_append_some {r t : Reg} {j o : Nat} (h : r.lookup j = some o) : (r ++ t).lookup j = some o := by
  induction r with
  | nil => simp at h
  | cons e r ih =>
    obtain ⟨k, v⟩ := e
    simp only [List.cons_append, List.lookup_cons] at h ⊢
    split
    · next hk => simp only [hk] at h; exact h
    · next hk => simp only [hk] at h; exact ih h

theorem lookup_append_none {r t : Reg} {j : Nat} (h : r.lookup j = none) : (r ++ t).lookup j = t.lookup j := by
  induction r with
  | nil => rfl
  | cons e r ih =>
    obtain ⟨k, v⟩ := e
    simp only [List.cons_append, List.lookup_cons] at h ⊢
    split
    · next hk => simp [hk] at h
    · next hk => simp only [hk] at h; exact ih h

theorem lookup_none_iff {r : Reg} {j : Nat} : r.lookup j = none ↔ j ∉ r.map (·.1) := by
  induction r with
  | nil => simp
  | cons e r ih =>
    obtain ⟨k, v⟩ := e
    simp only [List.lookup_cons, List.map_cons, List.mem_cons, not_or]
    by_cases hk : j = k
    · subst hk; simp
    · have : (j == k) = false := by simpa using hk
      simp only [this, ih]
      exact ⟨fun h => ⟨hk, h⟩, fun h => h.2⟩

theorem lookup_some_mem {r : Reg} {j o : Nat} (h : r.lookup j = some o) : (j, o) ∈ r := by
  induction r with
  | nil => simp at h
  | cons e r ih =>
    obtain ⟨k, v⟩ := e
    simp only [List.lookup_cons] at h
    by_cases hk : j = k
    · subst hk; simp at h; subst h; simp
    · have : (j == k) = false := by simpa using hk
      simp only [this] at h
      exact List.mem_cons_of_mem _ (ih h)

/-! ### `bindOne` -/

theorem bindOne_self (r : Reg) (i : Nat) : (bindOne r i).1.lookup i = some (bindOne r i).2 := by
  unfold bindOne
  split
  · next o h => exact h
  · next h => simp only [lookup_append_none h]; simp

theorem bindOne_mono {r : Reg} {j o : Nat} (i : Nat) (h : r.lookup j = some o) : (bindOne r i).1.lookup j = some o := by
  unfold bindOne
  split
  · exact h
  · exact lookup_append_some h

/-- `bindOne` appends at most one entry, for an index that was not bound -/
theorem bindOne_shape (r : Reg) (i : Nat) :
    ((bindOne r i).1 = r ∧ (∃ o, r.lookup i = some o)) ∨ ((bindOne r i).1 = r ++ [(i, r.length)] ∧ r.lookup i = none) := by
  unfold bindOne
  split
  · next o h => exact Or.inl ⟨rfl, o, h⟩
  · next h => exact Or.inr ⟨rfl, h⟩

/-! ### `bindAll` -/

theorem bindAll_mono {r : Reg} {j o : Nat} (bs : List (Nat × Nat)) (h : r.lookup j = some o) :
    (bindAll r bs).1.lookup j = some o := by
  induction bs generalizing r with
  | nil => exact h
  | cons b bs ih =>
    obtain ⟨i, v⟩ := b
    simp only [bindAll]
    exact ih (bindOne_mono i h)

theorem bindAll_idx (r : Reg) (bs : List (Nat × Nat)) : (bindAll r bs).2.map (fun d => (d.idx, d.blk)) = bs := by
  induction bs generalizing r with
  | nil => rfl
  | cons b bs ih =>
    obtain ⟨i, v⟩ := b
    simp only [bindAll, List.map_cons, ih]

theorem bindAll_length (r : Reg) (bs : List (Nat × Nat)) : (bindAll r bs).2.length = bs.length := by
  have := congrArg List.length (bindAll_idx r bs)
  simpa using this

/-- every dispatch goes to the object the final registry holds for its index -/
theorem bindAll_obj (r : Reg) (bs : List (Nat × Nat)) :
    ∀ d ∈ (bindAll r bs).2, (bindAll r bs).1.lookup d.idx = some d.obj := by
  induction bs generalizing r with
  | nil => intro d hd; simp [bindAll] at hd
  | cons b bs ih =>
    obtain ⟨i, v⟩ := b
    intro d hd
    simp only [bindAll, List.mem_cons] at hd ⊢
    rcases hd with rfl | hd
    · exact bindAll_mono bs (bindOne_self r i)
    · exact ih _ d hd

/-- the registry only grows: by entries for indexes that were not bound and that the message names -/
theorem bindAll_shape (r : Reg) (bs : List (Nat × Nat)) :
    ∃ extra : Reg, (bindAll r bs).1 = r ++ extra ∧ ∀ e ∈ extra, r.lookup e.1 = none ∧ e.1 ∈ bs.map (·.1) := by
  induction bs generalizing r with
  | nil => exact ⟨[], by simp [bindAll], by simp⟩
  | cons b bs ih =>
    obtain ⟨i, v⟩ := b
    simp only [bindAll]
    obtain ⟨extra, he, hx⟩ := ih (bindOne r i).1
    rcases bindOne_shape r i with ⟨h1, _⟩ | ⟨h1, hn⟩
    · refine ⟨extra, by rw [he, h1], ?_⟩
      intro e hem
      have := hx e hem
      rw [h1] at this
      exact ⟨this.1, by simp only [List.map_cons, List.mem_cons]; exact Or.inr this.2⟩
    · refine ⟨(i, r.length) :: extra, by rw [he, h1]; simp, ?_⟩
      intro e hem
      simp only [List.mem_cons] at hem
      rcases hem with rfl | hem
      · exact ⟨hn, by simp⟩
      · have := hx e hem
        rw [h1] at this
        refine ⟨?_, by simp only [List.map_cons, List.mem_cons]; exact Or.inr this.2⟩
        cases hl : r.lookup e.1 with
        | none => rfl
        | some o => rw [lookup_append_some hl] at this; exact absurd this.1 (by simp)

/-! ### well-formed registries: distinct indexes, objects 0, 1, 2 … in creation order -/

def WF (r : Reg) : Prop := (r.map (·.1)).Nodup ∧ r.map (·.2) = List.range r.length

theorem WF_nil : WF [] := ⟨by simp, by simp⟩

theorem WF_bindOne {r : Reg} (h : WF r) (i : Nat) : WF (bindOne r i).1 := by
  rcases bindOne_shape r i with ⟨h1, _⟩ | ⟨h1, hn⟩
  · rw [h1]; exact h
  · rw [h1]
    refine ⟨?_, ?_⟩
    · simp only [List.map_append, List.map_cons, List.map_nil]
      refine List.nodup_append.mpr ⟨h.1, by simp, ?_⟩
      intro a ha b hb
      simp only [List.mem_singleton] at hb
      subst hb
      intro hab; subst hab
      exact (lookup_none_iff.mp hn) ha
    · simp only [List.map_append, List.map_cons, List.map_nil, List.length_append, List.length_cons, List.length_nil,
        List.range_succ, h.2]

theorem WF_bindAll {r : Reg} (h : WF r) (bs : List (Nat × Nat)) : WF (bindAll r bs).1 := by
  induction bs generalizing r with
  | nil => exact h
  | cons b bs ih =>
    obtain ⟨i, v⟩ := b
    simp only [bindAll]
    exact ih (WF_bindOne h i)

theorem WF_objs_nodup {r : Reg} (h : WF r) : (r.map (·.2)).Nodup := by
  rw [h.2]; exact List.nodup_range

/-! ### the slots of a message -/

theorem mem_presentFrom {k : Nat} {slots : List (Option Nat)} {j b : Nat} :
    (j, b) ∈ presentFrom k slots ↔ k ≤ j ∧ slots[j - k]? = some (some b) := by
  induction slots generalizing k with
  | nil => simp [presentFrom]
  | cons s slots ih =>
    cases s with
    | none =>
      simp only [presentFrom, ih]
      constructor
      · rintro ⟨h1, h2⟩
        refine ⟨by omega, ?_⟩
        have : j - k = (j - (k + 1)) + 1 := by omega
        rw [this, List.getElem?_cons_succ]; exact h2
      · rintro ⟨h1, h2⟩
        by_cases hjk : j = k
        · subst hjk; simp at h2
        · refine ⟨by omega, ?_⟩
          have : j - k = (j - (k + 1)) + 1 := by omega
          rw [this, List.getElem?_cons_succ] at h2; exact h2
    | some v =>
      simp only [presentFrom, List.mem_cons, Prod.mk.injEq, ih]
      constructor
      · rintro (⟨rfl, rfl⟩ | ⟨h1, h2⟩)
        · simp
        · refine ⟨by omega, ?_⟩
          have : j - k = (j - (k + 1)) + 1 := by omega
          rw [this, List.getElem?_cons_succ]; exact h2
      · rintro ⟨h1, h2⟩
        by_cases hjk : j = k
        · subst hjk; simp at h2; exact Or.inl ⟨rfl, h2.symm⟩
        · refine Or.inr ⟨by omega, ?_⟩
          have : j - k = (j - (k + 1)) + 1 := by omega
          rw [this, List.getElem?_cons_succ] at h2; exact h2

theorem presentFrom_keys_lb {k : Nat} {slots : List (Option Nat)} : ∀ j ∈ (presentFrom k slots).map (·.1), k ≤ j := by
  intro j hj
  obtain ⟨⟨j', b⟩, hm, rfl⟩ := List.mem_map.mp hj
  exact (mem_presentFrom.mp hm).1

theorem presentFrom_keys_nodup (k : Nat) (slots : List (Option Nat)) : ((presentFrom k slots).map (·.1)).Nodup := by
  induction slots generalizing k with
  | nil => simp [presentFrom]
  | cons s slots ih =>
    cases s with
    | none => simpa [presentFrom] using ih (k + 1)
    | some v =>
      simp only [presentFrom, List.map_cons, List.nodup_cons]
      refine ⟨?_, ih (k + 1)⟩
      intro hk
      have := presentFrom_keys_lb k hk
      omega

theorem mem_present {slots : List (Option Nat)} {j b : Nat} : (j, b) ∈ present slots ↔ slots[j]? = some (some b) := by
  simp [present, mem_presentFrom]

/-- in a list of dispatches with distinct indexes, filtering by the index of a member gives that member alone -/
theorem filter_idx_of_nodup {ds : List Deliv} (hn : (ds.map (·.idx)).Nodup) {d : Deliv} (hd : d ∈ ds) :
    ds.filter (fun x => x.idx == d.idx) = [d] := by
  induction ds with
  | nil => simp at hd
  | cons a ds ih =>
    simp only [List.map_cons, List.nodup_cons] at hn
    simp only [List.mem_cons] at hd
    rcases hd with rfl | hd
    · have : ds.filter (fun x => x.idx == d.idx) = [] := by
        rw [List.filter_eq_nil_iff]
        intro x hx
        have : x.idx ≠ d.idx := fun h => hn.1 (h ▸ List.mem_map_of_mem hx)
        simpa using this
      simp [this]
    · have hne : a.idx ≠ d.idx := fun h => hn.1 (h ▸ List.mem_map_of_mem hd)
      have : (a.idx == d.idx) = false := by simpa using hne
      simp only [List.filter_cons, this]
      exact ih hn.2 hd

theorem filter_idx_absent {ds : List Deliv} {i : Nat} (h : i ∉ ds.map (·.idx)) : ds.filter (fun x => x.idx == i) = [] := by
  rw [List.filter_eq_nil_iff]
  intro x hx
  have : x.idx ≠ i := fun hh => h (hh ▸ List.mem_map_of_mem hx)
  simpa using this

theorem bindAll_idx_only (r : Reg) (bs : List (Nat × Nat)) : (bindAll r bs).2.map (·.idx) = bs.map (·.1) := by
  have := congrArg (List.map (·.1)) (bindAll_idx r bs)
  simpa [List.map_map, Function.comp_def] using this

theorem nodupB_iff {l : List Nat} : nodupB l = true ↔ l.Nodup := by
  induction l with
  | nil => simp [nodupB]
  | cons a l ih => simp [nodupB, ih]

end PlumVerif.Fanout

import PlumVerif.Proofs.DecodeShortParams
/- helper lemmas: schedules / alerts / product info on arbitrary, truncated and re-encoded input -/
namespace PlumVerif.P2

/-! ### schedules -/

theorem length_splitByte (b : Byte) : (splitByte b).length = 8 := rfl

theorem length_flatMap_splitByte (bs : List Byte) : (bs.flatMap splitByte).length = 8 * bs.length := by
  induction bs with
  | nil => rfl
  | cons b bs ih => simp [length_splitByte, ih]; omega

theorem packBits_split (bs : List Byte) (x : List Bool) :
    packBits bs.length (bs.flatMap splitByte ++ x) = bs := by
  induction bs with
  | nil => rfl
  | cons b bs ih =>
    simp only [List.length_cons, packBits, List.flatMap_cons, List.append_assoc]
    rw [take_left _ _ _ (length_splitByte b), drop_left _ _ _ (length_splitByte b), joinBits_splitByte, ih]

theorem length_splitDays (k : Nat) (bits : List Bool) : (splitDays k bits).length = k := by
  induction k generalizing bits with
  | zero => rfl
  | succ k ih => simp [splitDays, ih]

theorem splitDays_len48 (k : Nat) (bits : List Bool) (h : 48 * k ≤ bits.length) :
    ∀ d ∈ splitDays k bits, d.length = 48 := by
  induction k generalizing bits with
  | zero => simp [splitDays]
  | succ k ih =>
    intro d hd
    simp only [splitDays, List.mem_cons] at hd
    rcases hd with hd | hd
    · subst hd; simp; omega
    · exact ih (bits.drop 48) (by simp; omega) d hd

/-- the bitmap bytes are recovered from the days they were split into -/
theorem pack_splitDays (k : Nat) (bs : List Byte) (h : bs.length = 6 * k) :
    (splitDays k (bs.flatMap splitByte)).flatMap (packBits 6) = bs := by
  induction k generalizing bs with
  | zero => simp at h; subst h; rfl
  | succ k ih =>
    have hsplit : bs = bs.take 6 ++ bs.drop 6 := (List.take_append_drop 6 bs).symm
    have l6 : (bs.take 6).length = 6 := by simp; omega
    have l48 : ((bs.take 6).flatMap splitByte).length = 48 := by rw [length_flatMap_splitByte, l6]
    conv => lhs; rw [hsplit]
    simp only [List.flatMap_append, splitDays, List.flatMap_cons]
    rw [take_left _ _ _ l48, drop_left _ _ _ l48, ih (bs.drop 6) (by simp; omega)]
    have := packBits_split (bs.take 6) []
    rw [l6, List.append_nil] at this
    rw [this, List.take_append_drop]

theorem length_encodeSchedEntry (e : SchedEntry) (h : wfSchedEntry e = true) :
    (encodeSchedEntry e).length = 47 := by
  simp only [wfSchedEntry, Bool.and_eq_true, decide_eq_true_eq, List.all_eq_true] at h
  simp only [encodeSchedEntry, List.length_append, List.length_cons, List.length_nil, length_encSlot,
    length_days_bytes, h.1.2]

theorem length_encodeSchedEntries (es : List SchedEntry) (h : ∀ e ∈ es, wfSchedEntry e = true) :
    (es.flatMap encodeSchedEntry).length = 47 * es.length := by
  induction es with
  | nil => rfl
  | cons e es ih =>
    simp only [List.flatMap_cons, List.length_append, List.length_cons,
      length_encodeSchedEntry e (h e (by simp)), ih (fun e' he' => h e' (by simp [he']))]
    omega

/-- every entry needs its full 47 bytes: anything shorter raises IndexError -/
theorem decodeSchedLoop_short (n : Nat) (r : List Byte) (h : r.length < 47 * n) :
    decodeSchedLoop n r = .error .index := by
  induction n generalizing r with
  | zero => omega
  | succ n ih =>
    match r with
    | [] | [_] => rfl
    | idx :: sw :: r1 =>
      simp only [decodeSchedLoop]
      have h42 : Gen.scheduleSize = 42 := rfl
      by_cases hlen : (r1.drop 3).length < Gen.scheduleSize
      · rw [if_pos hlen]
      · rw [if_neg hlen]
        simp only [List.length_drop, Nat.not_lt, h42] at hlen
        simp only [List.length_cons] at h
        rw [ih ((r1.drop 3).drop Gen.scheduleSize) (by simp [h42]; omega)]

/-- the entry a 47-byte record stands for -/
def parseSchedEntry (r : List Byte) : SchedEntry :=
  ⟨r.headD 0, (r.drop 1).headD 0, unpackParam 1 (r.drop 2),
    splitDays 7 (((r.drop 5).take 42).flatMap splitByte)⟩

def parseSched : Nat → List Byte → List SchedEntry
  | 0, _ => []
  | n + 1, r => parseSchedEntry r :: parseSched n (r.drop 47)

theorem parseSchedEntry_spec (r : List Byte) (h : 47 ≤ r.length) :
    wfSchedEntry (parseSchedEntry r) = true ∧ encodeSchedEntry (parseSchedEntry r) = r.take 47 := by
  match r with
  | [] | [_] => simp at h; try omega
  | idx :: sw :: r1 =>
    simp only [List.length_cons] at h
    have l42 : ((r1.drop 3).take 42).length = 42 := by simp; omega
    constructor
    · simp only [wfSchedEntry, parseSchedEntry, List.drop_succ_cons, List.drop_zero, Bool.and_eq_true,
        decide_eq_true_eq, List.all_eq_true]
      refine ⟨⟨wfSlot_unpackParam 1 r1 (by omega), length_splitDays _ _⟩, ?_⟩
      exact splitDays_len48 7 _ (by rw [length_flatMap_splitByte, l42]; decide)
    · simp only [encodeSchedEntry, parseSchedEntry, List.headD_cons, List.drop_succ_cons, List.drop_zero,
        List.cons_append, List.nil_append]
      rw [encSlot_unpackParam 1 r1 (by omega), pack_splitDays 7 _ l42]
      rw [show (47 : Nat) = 45 + 1 + 1 by rfl, List.take_succ_cons, List.take_succ_cons]
      rw [show (45 : Nat) = 3 * 1 + 42 by rfl, List.take_add]

theorem parseSched_spec (n : Nat) (r : List Byte) (h : 47 * n ≤ r.length) :
    (parseSched n r).length = n ∧ (∀ e ∈ parseSched n r, wfSchedEntry e = true) ∧
      (parseSched n r).flatMap encodeSchedEntry = r.take (47 * n) := by
  induction n generalizing r with
  | zero => simp [parseSched]
  | succ n ih =>
    obtain ⟨hl, hw, he⟩ := ih (r.drop 47) (by simp; omega)
    obtain ⟨hw1, he1⟩ := parseSchedEntry_spec r (by omega)
    refine ⟨by simp [parseSched, hl], ?_, ?_⟩
    · intro e hmem
      simp only [parseSched, List.mem_cons] at hmem
      rcases hmem with hmem | hmem
      · subst hmem; exact hw1
      · exact hw e hmem
    · simp only [parseSched, List.flatMap_cons, he1, he]
      rw [show 47 * (n + 1) = 47 + 47 * n by omega, List.take_add]

/-! ### alerts -/

theorem tsOf_dtOf (ts : Nat) : tsOf (dtOf ts) = ts := by
  simp only [dtOf, tsOf]; omega

theorem dtOf_year (ts : Nat) : 2000 ≤ (dtOf ts).y := by simp [dtOf]

theorem length_encodeAlert (a : AlertRec) : (encodeAlert a).length = 9 := by
  simp [encodeAlert, length_encodeLE]

theorem wfDT_dtOf (bs : List Byte) (hl : bs.length = 4) (hv : validDT (dtOf (decodeLE bs)) = true) :
    wfDT (dtOf (decodeLE bs)) = true := by
  have := decodeLE_lt' bs
  rw [hl] at this
  simp only [wfDT, Bool.and_eq_true, decide_eq_true_eq, tsOf_dtOf, maxU32]
  exact ⟨⟨dtOf_year _, hv⟩, by omega⟩

/-- an alert record that decodes is the encoding of a well-formed alert -/
theorem decodeAlert_canonical (r : List Byte) (a : AlertRec) (r' : List Byte)
    (h : decodeAlert r = .ok (a, r')) : wfAlert a = true ∧ r = encodeAlert a ++ r' := by
  match r with
  | [] => simp [decodeAlert] at h
  | code :: r1 =>
    unfold decodeAlert at h
    simp only at h
    split at h
    · simp at h
    · rename_i h1
      split at h
      · simp at h
      · rename_i h2
        simp only [List.length_drop] at h2
        have l1 : (r1.take 4).length = 4 := by simp; omega
        have l2 : ((r1.drop 4).take 4).length = 4 := by simp; omega
        have e1 := encodeLE_decodeLE (r1.take 4)
        have e2 := encodeLE_decodeLE ((r1.drop 4).take 4)
        rw [l1] at e1; rw [l2] at e2
        have hr : code :: r1 = code :: (r1.take 4 ++ ((r1.drop 4).take 4 ++ (r1.drop 4).drop 4)) := by
          rw [List.take_append_drop, List.take_append_drop]
        split at h
        · simp at h
        · rename_i hv1
          have hv1' : validDT (dtOf (decodeLE (r1.take 4))) = true := by simpa using hv1
          split at h
          · rename_i ht
            simp only [Except.ok.injEq, Prod.mk.injEq] at h
            obtain ⟨rfl, rfl⟩ := h
            refine ⟨by simp [wfAlert, wfDT_dtOf _ l1 hv1'], ?_⟩
            simp only [encodeAlert, tsOf_dtOf, e1, ← ht, e2, List.cons_append, List.append_assoc]
            exact hr
          · rename_i ht
            split at h
            · simp at h
            · rename_i hv2
              have hv2' : validDT (dtOf (decodeLE ((r1.drop 4).take 4))) = true := by simpa using hv2
              simp only [Except.ok.injEq, Prod.mk.injEq] at h
              obtain ⟨rfl, rfl⟩ := h
              refine ⟨by simp [wfAlert, wfDT_dtOf _ l1 hv1', wfDT_dtOf _ l2 hv2', tsOf_dtOf, ht], ?_⟩
              simp only [encodeAlert, tsOf_dtOf, e1, e2, List.cons_append, List.append_assoc]
              exact hr

theorem decodeAlertList_succ (n : Nat) (r : List Byte) :
    decodeAlertList (n + 1) r =
      match decodeAlert r with
      | .error e => .error e
      | .ok (a, r1) =>
        match decodeAlertList n r1 with
        | .error e => .error e
        | .ok (as, r2) => .ok (a :: as, r2) := rfl

theorem decodeAlertList_canonical (n : Nat) (r : List Byte) (as : List AlertRec) (r' : List Byte)
    (h : decodeAlertList n r = .ok (as, r')) :
    as.length = n ∧ (∀ a ∈ as, wfAlert a = true) ∧ r = as.flatMap encodeAlert ++ r' := by
  induction n generalizing r as with
  | zero =>
    simp only [decodeAlertList, Except.ok.injEq, Prod.mk.injEq] at h
    obtain ⟨rfl, rfl⟩ := h
    simp
  | succ n ih =>
    simp only [decodeAlertList] at h
    cases h1 : decodeAlert r with
    | error e => simp [h1] at h
    | ok p =>
      obtain ⟨a, r1⟩ := p
      simp only [h1] at h
      cases h2 : decodeAlertList n r1 with
      | error e => simp [h2] at h
      | ok q =>
        obtain ⟨as', r2⟩ := q
        simp only [h2, Except.ok.injEq, Prod.mk.injEq] at h
        obtain ⟨rfl, rfl⟩ := h
        obtain ⟨hw, hr⟩ := decodeAlert_canonical r a r1 h1
        obtain ⟨hl, hws, hrs⟩ := ih r1 as' h2
        refine ⟨by simp [hl], ?_, ?_⟩
        · intro x hx
          simp only [List.mem_cons] at hx
          rcases hx with hx | hx
          · subst hx; exact hw
          · exact hws x hx
        · rw [hr, hrs]; simp

/-- a cut alert record always raises: IndexError when nothing is left, struct.error otherwise -/
theorem decodeAlert_cut (a : AlertRec) (j : Nat) (hj : j < 9) :
    decodeAlert ((encodeAlert a).take j) = .error (if j = 0 then .index else .struct) := by
  have l4 (n : Nat) : (encodeLE n 4).length = 4 := length_encodeLE n 4
  match j with
  | 0 => rfl
  | j + 1 =>
    simp only [encodeAlert, List.take_succ_cons, decodeAlert, Nat.succ_ne_zero, ↓reduceIte]
    by_cases h1 : j < 4
    · rw [if_pos (by simp [l4]; omega)]
    · rw [if_neg (by simp [l4]; omega)]
      rw [if_pos (by simp [l4]; omega)]

theorem decodeAlertList_cut (pre : List AlertRec) (a : AlertRec) (k j : Nat) (hj : j < 9)
    (hpre : ∀ x ∈ pre, wfAlert x = true) :
    decodeAlertList (pre.length + (k + 1)) (pre.flatMap encodeAlert ++ (encodeAlert a).take j)
      = .error (if j = 0 then .index else .struct) := by
  induction pre with
  | nil => simp [decodeAlertList, decodeAlert_cut a j hj]
  | cons p pre ih =>
    have e : (p :: pre).length + (k + 1) = (pre.length + (k + 1)) + 1 := by simp; omega
    rw [e, decodeAlertList_succ]
    simp only [List.flatMap_cons, List.append_assoc]
    rw [decodeAlert_enc p _ (hpre p (by simp))]
    simp only [ih (fun x hx => hpre x (by simp [hx]))]

/-! ### product info -/

/-- a product-info payload that decodes holds at least the fixed fields and the whole UID -/
theorem decodeProduct_ok_len (msg : List Byte) (v : ProductVal) (rest : List Byte)
    (h : decodeProduct msg = .ok (v, rest)) : 9 + (msg.getD 3 0).toNat ≤ msg.length := by
  unfold decodeProduct at h
  match msg with
  | [] | [_] | [_, _] => simp at h
  | [_, _, _] => simp at h
  | pt :: p0 :: p1 :: n :: r1 =>
    simp only at h
    split at h
    · simp at h
    · rename_i h2
      split at h
      · simp at h
      · rename_i h3
        split at h
        · simp at h
        · rename_i k r5 hr4
          have : ((r1.drop n.toNat).drop 2).drop 2 ≠ [] := by rw [hr4]; simp
          have hlen : 0 < (((r1.drop n.toNat).drop 2).drop 2).length := List.length_pos_iff.mpr this
          simp only [List.length_drop] at hlen
          simp only [List.getD_cons_succ, List.getD_cons_zero, List.length_cons]
          omega

end PlumVerif.P2

import PlumVerif.Proofs.DecodeMisc
/- helper lemmas: decoders on arbitrary / truncated input, and re-encoding of decoded payloads -/
namespace PlumVerif.P2

theorem decodeLE_lt' (a : List Byte) : decodeLE a < 256 ^ a.length := by
  induction a with
  | nil => simp [decodeLE]
  | cons x xs ih =>
    simp only [decodeLE, List.length_cons, Nat.pow_succ]
    have := x.toNat_lt
    omega

/-! ### parameter runs on arbitrary input -/

theorem unpackParam_nil (sz : Nat) : unpackParam sz [] = none := by simp [unpackParam]

theorem wfRun_defined (sizeOf : Nat → Option Nat) (slots : List Slot) (idx : Nat)
    (h : wfRun sizeOf idx slots = true) : ∀ i, idx ≤ i → i < idx + slots.length → sizeOf i ≠ none := by
  induction slots generalizing idx with
  | nil => intro i h1 h2; simp at h2; omega
  | cons s ss ih =>
    simp only [wfRun, Bool.and_eq_true] at h
    intro i h1 h2
    by_cases hi : i = idx
    · subst hi; intro hn; simp [hn] at h
    · exact ih (idx + 1) h.2 i (by omega) (by simp at h2; omega)

theorem decodeRun_nil (sizeOf : Nat → Option Nat) (n idx : Nat)
    (h : ∀ i, idx ≤ i → i < idx + n → sizeOf i ≠ none) : decodeRun sizeOf n idx [] = .ok ([], []) := by
  induction n generalizing idx with
  | zero => rfl
  | succ n ih =>
    simp only [decodeRun]
    cases hs : sizeOf idx with
    | none => exact absurd hs (h idx (by omega) (by omega))
    | some sz =>
      simp only [List.drop_nil, ih (idx + 1) (fun i h1 h2 => h i (by omega) (by omega)), unpackParam_nil]

/-- a run over defined indexes never raises, whatever the bytes -/
theorem decodeRun_ok (sizeOf : Nat → Option Nat) (n idx : Nat) (r : List Byte)
    (h : ∀ i, idx ≤ i → i < idx + n → sizeOf i ≠ none) : ∃ v r', decodeRun sizeOf n idx r = .ok (v, r') := by
  induction n generalizing idx r with
  | zero => exact ⟨[], r, rfl⟩
  | succ n ih =>
    simp only [decodeRun]
    cases hs : sizeOf idx with
    | none => exact absurd hs (h idx (by omega) (by omega))
    | some sz =>
      obtain ⟨v, r', hv⟩ := ih (idx + 1) (r.drop (3 * sz)) (fun i h1 h2 => h i (by omega) (by omega))
      simp only [hv]
      exact ⟨_, _, rfl⟩

/-- … and a run that meets an index without a description raises IndexError, whatever the bytes -/
theorem decodeRun_err (sizeOf : Nat → Option Nat) (n idx : Nat) (r : List Byte) (i : Nat)
    (h1 : idx ≤ i) (h2 : i < idx + n) (hi : sizeOf i = none) : decodeRun sizeOf n idx r = .error .index := by
  induction n generalizing idx r with
  | zero => omega
  | succ n ih =>
    simp only [decodeRun]
    cases hs : sizeOf idx with
    | none => rfl
    | some sz =>
      have hne : i ≠ idx := by intro e; subst e; simp [hs] at hi
      simp only [ih (idx + 1) (r.drop (3 * sz)) (by omega) (by omega)]

theorem decodeRun_one_ok (n idx : Nat) (r : List Byte) :
    ∃ v, decodeRun one n idx r = .ok (v, r.drop (3 * n)) := by
  induction n generalizing idx r with
  | zero => exact ⟨[], by simp [decodeRun]⟩
  | succ n ih =>
    obtain ⟨v, hv⟩ := ih (idx + 1) (r.drop 3)
    simp only [decodeRun, one, Nat.mul_one, hv, List.drop_drop]
    have e : 3 + 3 * n = 3 * (n + 1) := by omega
    rw [e]
    exact ⟨_, rfl⟩

theorem decodeBlocks_one_ok (start n k t : Nat) (r : List Byte) :
    ∃ v, decodeBlocks one start n k t r = .ok (v, r.drop (3 * n * k)) := by
  induction k generalizing t r with
  | zero => exact ⟨[], by simp [decodeBlocks]⟩
  | succ k ih =>
    obtain ⟨ps, hps⟩ := decodeRun_one_ok n start r
    obtain ⟨v, hv⟩ := ih (t + 1) (r.drop (3 * n))
    simp only [decodeBlocks, hps, hv, List.drop_drop]
    have e : 3 * n + 3 * n * k = 3 * n * (k + 1) := by rw [Nat.mul_succ]; omega
    rw [e]
    exact ⟨_, rfl⟩

theorem decodeBlocks_nil (sizeOf : Nat → Option Nat) (start n k t : Nat)
    (h : ∀ i, start ≤ i → i < start + n → sizeOf i ≠ none) :
    decodeBlocks sizeOf start n k t [] = .ok ([], []) := by
  induction k generalizing t with
  | zero => rfl
  | succ k ih => simp [decodeBlocks, decodeRun_nil sizeOf n start h, ih (t + 1)]

/-! ### truncated runs and blocks -/

/-- what a cut slot reads as -/
def cutParams (idx sz j : Nat) (s : Slot) : Params :=
  match unpackParam sz ((encSlot sz s).take j) with
  | some t => [(idx, t)]
  | none => []

theorem valRun_append (idx : Nat) (a b : List Slot) :
    valRun idx (a ++ b) = valRun idx a ++ valRun (idx + a.length) b := by
  induction a generalizing idx with
  | nil => simp [valRun]
  | cons s ss ih =>
    have e : idx + (s :: ss).length = idx + 1 + ss.length := by simp; omega
    cases s with
    | none => simp only [List.cons_append, valRun, ih (idx + 1), e]
    | some t => simp only [List.cons_append, valRun, ih (idx + 1), e, List.cons_append]

/-- a run cut inside slot `|pre|` after `j` of its bytes: the slots before it come back as
written, the cut slot is read from its first `j` bytes (missing bytes count as absent: shorter
integers, a hole if only 0xFF bytes or nothing is left), the slots after it are holes -/
theorem decodeRun_prefix (sizeOf : Nat → Option Nat) (pre : List Slot) (s : Slot) (post : List Slot)
    (idx sz j : Nat) (hw : wfRun sizeOf idx (pre ++ s :: post) = true)
    (hsz : sizeOf (idx + pre.length) = some sz) (hj : j < 3 * sz) :
    decodeRun sizeOf (pre ++ s :: post).length idx (encRun sizeOf idx pre ++ (encSlot sz s).take j)
      = .ok (valRun idx pre ++ cutParams (idx + pre.length) sz j s, []) := by
  induction pre generalizing idx with
  | nil =>
    simp only [List.nil_append, List.length_nil, Nat.add_zero] at hw hsz ⊢
    have hdef := wfRun_defined sizeOf (s :: post) idx hw
    simp only [List.length_cons, decodeRun, hsz, encRun, List.nil_append, valRun]
    have hdrop : ((encSlot sz s).take j).drop (3 * sz) = [] := by
      apply List.drop_eq_nil_of_le; simp; omega
    rw [hdrop, decodeRun_nil sizeOf post.length (idx + 1)
      (fun i h1 h2 => hdef i (by omega) (by simp; omega))]
    simp only [cutParams]
    cases unpackParam sz ((encSlot sz s).take j) <;> rfl
  | cons p pre ih =>
    simp only [List.cons_append, wfRun, Bool.and_eq_true] at hw
    obtain ⟨hp, hrest⟩ := hw
    have e : idx + (p :: pre).length = idx + 1 + pre.length := by simp; omega
    rw [e] at hsz ⊢
    cases hsp : sizeOf idx with
    | none => simp [hsp] at hp
    | some szp =>
      simp only [hsp] at hp
      simp only [List.cons_append, List.length_cons, decodeRun, hsp, encRun, Option.getD_some,
        List.append_assoc]
      rw [drop_encSlot, unpackParam_encSlot szp p _ hp]
      have := ih (idx + 1) hrest hsz
      simp only [List.length_append, List.length_cons] at this ⊢
      rw [this]
      cases p <;> simp [valRun]

theorem valBlocks_append (start t : Nat) (a b : List (List Slot)) :
    valBlocks start t (a ++ b) = valBlocks start t a ++ valBlocks start (t + a.length) b := by
  induction a generalizing t with
  | nil => simp [valBlocks]
  | cons x xs ih =>
    have e : t + (x :: xs).length = t + 1 + xs.length := by simp; omega
    simp only [List.cons_append, valBlocks, ih (t + 1), e]
    split <;> simp

/-- leading well-formed blocks decode as written; the rest is decoded from what follows -/
theorem decodeBlocks_append (sizeOf : Nat → Option Nat) (start n : Nat) (pre : List (List Slot))
    (k t : Nat) (r : List Byte) (bs : Blocks) (r' : List Byte)
    (h : ∀ b ∈ pre, b.length = n ∧ wfRun sizeOf start b = true)
    (hk : decodeBlocks sizeOf start n k (t + pre.length) r = .ok (bs, r')) :
    decodeBlocks sizeOf start n (pre.length + k) t (pre.flatMap (encRun sizeOf start) ++ r)
      = .ok (valBlocks start t pre ++ bs, r') := by
  induction pre generalizing t with
  | nil => simpa [valBlocks] using hk
  | cons b pre ih =>
    obtain ⟨hl, hw⟩ := h b (by simp)
    have e : (b :: pre).length + k = (pre.length + k) + 1 := by simp; omega
    rw [e]
    simp only [decodeBlocks, List.flatMap_cons, List.append_assoc]
    have hrun := decodeRun_encRun sizeOf b start (pre.flatMap (encRun sizeOf start) ++ r) hw
    rw [hl] at hrun
    rw [hrun]
    have hk' : decodeBlocks sizeOf start n k (t + 1 + pre.length) r = .ok (bs, r') := by
      have e2 : t + (b :: pre).length = t + 1 + pre.length := by simp; omega
      rw [← e2]; exact hk
    simp only [ih (t + 1) (fun b' hb' => h b' (by simp [hb'])) hk', valBlocks]
    split <;> simp

/-- blocks cut inside block `|preB|`, slot `|spre|`, after `j` bytes of that slot -/
theorem decodeBlocks_prefix (sizeOf : Nat → Option Nat) (start n : Nat) (preB : List (List Slot))
    (postB : List (List Slot)) (spre : List Slot) (s : Slot) (spost : List Slot) (sz j t : Nat)
    (hB : ∀ x ∈ preB ++ (spre ++ s :: spost) :: postB, x.length = n ∧ wfRun sizeOf start x = true)
    (hsz : sizeOf (start + spre.length) = some sz) (hj : j < 3 * sz) :
    decodeBlocks sizeOf start n (preB.length + (postB.length + 1)) t
        (preB.flatMap (encRun sizeOf start) ++ (encRun sizeOf start spre ++ (encSlot sz s).take j))
      = .ok (valBlocks start t preB ++
          (if (valRun start spre ++ cutParams (start + spre.length) sz j s).isEmpty then []
           else [(t + preB.length, valRun start spre ++ cutParams (start + spre.length) sz j s)]), []) := by
  obtain ⟨hl, hw⟩ := hB (spre ++ s :: spost) (by simp)
  apply decodeBlocks_append sizeOf start n preB _ t _ _ _ (fun b hb => hB b (by simp [hb]))
  simp only [decodeBlocks]
  have hrun := decodeRun_prefix sizeOf spre s spost start sz j hw hsz hj
  rw [hl] at hrun
  rw [hrun]
  have hdef := wfRun_defined sizeOf _ start hw
  rw [hl] at hdef
  simp only [decodeBlocks_nil sizeOf start n postB.length (t + preB.length + 1) hdef]

/-! ### re-encoding what was decoded -/

theorem encodeLE_decodeLE (a : List Byte) : encodeLE (decodeLE a) a.length = a := by
  induction a with
  | nil => rfl
  | cons x xs ih =>
    have hx := x.toNat_lt
    simp only [decodeLE, List.length_cons, encodeLE]
    have h1 : (x.toNat + 256 * decodeLE xs) % 256 = x.toNat := by omega
    have h2 : (x.toNat + 256 * decodeLE xs) / 256 = decodeLE xs := by omega
    rw [h1, h2, ih]
    simp

theorem all_undef_eq_replicate (l : List Byte) (h : l.all (· == undef) = true) :
    l = List.replicate l.length undef := by
  induction l with
  | nil => rfl
  | cons x xs ih =>
    simp only [List.all_cons, Bool.and_eq_true, beq_iff_eq] at h
    simp only [List.length_cons, List.replicate_succ, h.1]
    rw [← ih h.2]

theorem take3 (sz : Nat) (r : List Byte) :
    r.take sz ++ ((r.drop sz).take sz ++ (r.drop (2 * sz)).take sz) = r.take (3 * sz) := by
  have e1 : 3 * sz = sz + (sz + sz) := by omega
  have e2 : 2 * sz = sz + sz := by omega
  rw [e1, e2, List.take_add, List.take_add, List.drop_drop]

/-- with all its bytes present, a slot re-encodes to exactly the bytes it was read from -/
theorem encSlot_unpackParam (sz : Nat) (r : List Byte) (h : 3 * sz ≤ r.length) :
    encSlot sz (unpackParam sz r) = r.take (3 * sz) := by
  unfold unpackParam
  split
  · rename_i hall
    have := all_undef_eq_replicate _ hall
    simp only [List.length_take, Nat.min_eq_left h] at this
    simp only [encSlot]; exact this.symm
  · simp only [encSlot]
    have l1 : (r.take sz).length = sz := by simp; omega
    have l2 : ((r.drop sz).take sz).length = sz := by simp; omega
    have l3 : ((r.drop (2 * sz)).take sz).length = sz := by simp; omega
    have e1 := encodeLE_decodeLE (r.take sz)
    have e2 := encodeLE_decodeLE ((r.drop sz).take sz)
    have e3 := encodeLE_decodeLE ((r.drop (2 * sz)).take sz)
    rw [l1] at e1; rw [l2] at e2; rw [l3] at e3
    rw [e1, e2, e3, List.append_assoc, take3]

theorem wfSlot_unpackParam (sz : Nat) (r : List Byte) (h : 3 * sz ≤ r.length) :
    wfSlot sz (unpackParam sz r) = true := by
  have henc := encSlot_unpackParam sz r h
  unfold unpackParam at henc ⊢
  split
  · rfl
  · rename_i hall
    simp only [hall, Bool.false_eq_true, ↓reduceIte] at henc
    simp only [wfSlot, Bool.and_eq_true, decide_eq_true_eq]
    have l1 : (r.take sz).length = sz := by simp; omega
    have l2 : ((r.drop sz).take sz).length = sz := by simp; omega
    have l3 : ((r.drop (2 * sz)).take sz).length = sz := by simp; omega
    refine ⟨⟨⟨?_, ?_⟩, ?_⟩, ?_⟩
    · have := decodeLE_lt' (r.take sz); rwa [l1] at this
    · have := decodeLE_lt' ((r.drop sz).take sz); rwa [l2] at this
    · have := decodeLE_lt' ((r.drop (2 * sz)).take sz); rwa [l3] at this
    · rw [henc]
      have : ¬ (r.take (3 * sz)).all (· == undef) = true := hall
      rw [List.all_eq_true] at this
      rw [List.any_eq_true]
      false_or_by_contra
      rename_i hc
      apply this
      intro x hx
      false_or_by_contra
      rename_i hne
      exact hc ⟨x, hx, by simpa using hne⟩

/-- bytes a run occupies -/
def runBytes (sizeOf : Nat → Option Nat) : Nat → Nat → Nat
  | 0, _ => 0
  | n + 1, idx => 3 * (sizeOf idx).getD 1 + runBytes sizeOf n (idx + 1)

/-- the slots a run of bytes stands for -/
def parseRun (sizeOf : Nat → Option Nat) : Nat → Nat → List Byte → List Slot
  | 0, _, _ => []
  | n + 1, idx, r =>
    unpackParam ((sizeOf idx).getD 1) r :: parseRun sizeOf n (idx + 1) (r.drop (3 * (sizeOf idx).getD 1))

theorem length_parseRun (sizeOf : Nat → Option Nat) (n idx : Nat) (r : List Byte) :
    (parseRun sizeOf n idx r).length = n := by
  induction n generalizing idx r with
  | zero => rfl
  | succ n ih => simp [parseRun, ih]

theorem parseRun_spec (sizeOf : Nat → Option Nat) (n idx : Nat) (r : List Byte)
    (hdef : ∀ i, idx ≤ i → i < idx + n → sizeOf i ≠ none) (hfit : runBytes sizeOf n idx ≤ r.length) :
    wfRun sizeOf idx (parseRun sizeOf n idx r) = true ∧
      encRun sizeOf idx (parseRun sizeOf n idx r) = r.take (runBytes sizeOf n idx) := by
  induction n generalizing idx r with
  | zero => simp [parseRun, wfRun, encRun, runBytes]
  | succ n ih =>
    cases hs : sizeOf idx with
    | none => exact absurd hs (hdef idx (by omega) (by omega))
    | some sz =>
      simp only [runBytes, hs, Option.getD_some] at hfit
      obtain ⟨hw, he⟩ := ih (idx + 1) (r.drop (3 * sz)) (fun i h1 h2 => hdef i (by omega) (by omega))
        (by simp; omega)
      simp only [parseRun, wfRun, encRun, runBytes, hs, Option.getD_some, Bool.and_eq_true]
      refine ⟨⟨wfSlot_unpackParam sz r (by omega), hw⟩, ?_⟩
      rw [he, encSlot_unpackParam sz r (by omega), List.take_add]

theorem runBytes_one (n idx : Nat) : runBytes one n idx = 3 * n := by
  induction n generalizing idx with
  | zero => rfl
  | succ n ih => simp [runBytes, one, ih]; omega

def parseBlocks (sizeOf : Nat → Option Nat) (start n : Nat) : Nat → List Byte → List (List Slot)
  | 0, _ => []
  | k + 1, r => parseRun sizeOf n start r :: parseBlocks sizeOf start n k (r.drop (runBytes sizeOf n start))

theorem parseBlocks_spec (sizeOf : Nat → Option Nat) (start n k : Nat) (r : List Byte)
    (hdef : ∀ i, start ≤ i → i < start + n → sizeOf i ≠ none)
    (hfit : k * runBytes sizeOf n start ≤ r.length) :
    (parseBlocks sizeOf start n k r).length = k ∧
      (∀ b ∈ parseBlocks sizeOf start n k r, b.length = n ∧ wfRun sizeOf start b = true) ∧
      (parseBlocks sizeOf start n k r).flatMap (encRun sizeOf start) = r.take (k * runBytes sizeOf n start) := by
  induction k generalizing r with
  | zero => simp [parseBlocks]
  | succ k ih =>
    rw [Nat.succ_mul] at hfit
    obtain ⟨hl, hw, he⟩ := ih (r.drop (runBytes sizeOf n start)) (by simp; omega)
    obtain ⟨hw1, he1⟩ := parseRun_spec sizeOf n start r hdef (by omega)
    refine ⟨by simp [parseBlocks, hl], ?_, ?_⟩
    · intro b hb
      simp only [parseBlocks, List.mem_cons] at hb
      rcases hb with hb | hb
      · subst hb; exact ⟨length_parseRun _ _ _ _, hw1⟩
      · exact hw b hb
    · simp only [parseBlocks, List.flatMap_cons, he1, he]
      rw [Nat.succ_mul, Nat.add_comm (k * _), List.take_add]

/-! ### bookkeeping -/

theorem ofNat_toNat (c : Byte) : c.toNat.toUInt8 = c := by simp [Nat.toUInt8]


theorem take_app {α} (a b : List α) (n j : Nat) (h : a.length = n) : (a ++ b).take (n + j) = a ++ b.take j := by
  subst h
  rw [List.take_append, List.take_of_length_le (by omega)]
  simp

theorem encRun_append (sizeOf : Nat → Option Nat) (idx : Nat) (a b : List Slot) :
    encRun sizeOf idx (a ++ b) = encRun sizeOf idx a ++ encRun sizeOf (idx + a.length) b := by
  induction a generalizing idx with
  | nil => simp [encRun]
  | cons s ss ih =>
    have e : idx + (s :: ss).length = idx + 1 + ss.length := by simp; omega
    simp only [List.cons_append, encRun, ih (idx + 1), e, List.append_assoc]

theorem length_encRun_one (idx : Nat) (ss : List Slot) : (encRun one idx ss).length = 3 * ss.length := by
  induction ss generalizing idx with
  | nil => rfl
  | cons s ss ih => simp [encRun, one, length_encSlot, ih]; omega

theorem thermoSize_defined (i : Nat) : thermoSize i ≠ none ↔ i < Gen.thermostat.length := by
  unfold thermoSize; simp

theorem decodeBlocks_ok (sizeOf : Nat → Option Nat) (start n k t : Nat) (r : List Byte)
    (h : ∀ i, start ≤ i → i < start + n → sizeOf i ≠ none) :
    ∃ v r', decodeBlocks sizeOf start n k t r = .ok (v, r') := by
  induction k generalizing t r with
  | zero => exact ⟨[], r, rfl⟩
  | succ k ih =>
    obtain ⟨ps, r1, h1⟩ := decodeRun_ok sizeOf n start r h
    obtain ⟨bs, r2, h2⟩ := ih (t + 1) r1
    simp only [decodeBlocks, h1, h2]
    exact ⟨_, _, rfl⟩

theorem decodeBlocks_err (sizeOf : Nat → Option Nat) (start n k t : Nat) (r : List Byte) (i : Nat)
    (h1 : start ≤ i) (h2 : i < start + n) (hi : sizeOf i = none) :
    decodeBlocks sizeOf start n (k + 1) t r = .error .index := by
  simp only [decodeBlocks, decodeRun_err sizeOf n start r i h1 h2 hi]

end PlumVerif.P2

import PlumVerif.Model.Events
/-
Helper lemmas for C13: function updates, the field-wise effect of the four moves of a
dispatch task (`skipSt`, `invokeSt`, `suspendSt`, `storeSt`) and of `wake`.
-/
namespace PlumVerif.C13

@[simp] theorem upd_same {α : Type} (f : Nat → α) (i : Nat) (v : α) : upd f i v i = v := by simp [upd]
theorem upd_other {α : Type} (f : Nat → α) (i j : Nat) (v : α) (h : j ≠ i) : upd f i v j = f j := by
  simp [upd, h]
theorem upd_apply {α : Type} (f : Nat → α) (i j : Nat) (v : α) : upd f i v j = if j = i then v else f j := rfl

@[simp] theorem wake_name (w : Nat → WTask) (n j : Nat) : (wake w n j).name = (w j).name := by
  unfold wake; split <;> (try split) <;> rfl
@[simp] theorem wake_timeout (w : Nat → WTask) (n j : Nat) : (wake w n j).timeout = (w j).timeout := by
  unfold wake; split <;> (try split) <;> rfl
@[simp] theorem wake_t0 (w : Nat → WTask) (n j : Nat) : (wake w n j).t0 = (w j).t0 := by
  unfold wake; split <;> (try split) <;> rfl

theorem wake_ph (w : Nat → WTask) (n j : Nat) :
    (wake w n j).ph = match (w j).ph with
      | .waiting dl => if (w j).name = n then .woken else .waiting dl
      | p => p := by
  unfold wake
  split
  · rename_i dl h; rw [h]; simp only; split <;> simp [*]
  · rename_i h
    cases hp : (w j).ph <;> simp_all

/-- a waiter keeps waiting across `wake` only if it waits on another name -/
theorem wake_waiting (w : Nat → WTask) (n j : Nat) (dl : Option Nat) (h : (wake w n j).ph = .waiting dl) :
    (w j).ph = .waiting dl ∧ (w j).name ≠ n := by
  rw [wake_ph] at h
  cases hp : (w j).ph <;> rw [hp] at h <;> simp at h
  rename_i dl'
  by_cases hn : (w j).name = n
  · simp [hn] at h
  · simp [hn] at h; exact ⟨by rw [h], hn⟩

theorem wake_woken (w : Nat → WTask) (n j : Nat) (h : (wake w n j).ph = .woken) :
    (w j).ph = .woken ∨ (∃ dl, (w j).ph = .waiting dl ∧ (w j).name = n) := by
  rw [wake_ph] at h
  cases hp : (w j).ph <;> rw [hp] at h <;> simp at h
  · rename_i dl
    right; exact ⟨dl, rfl, h⟩
  · left; rfl

theorem wake_returned (w : Nat → WTask) (n j v a : Nat) (h : (wake w n j).ph = .returned v a) :
    (w j).ph = .returned v a := by
  rw [wake_ph] at h
  cases hp : (w j).ph <;> rw [hp] at h <;> simp at h
  · rename_i dl; split at h <;> simp at h
  · rw [← h.1, ← h.2]

theorem wake_timedOut (w : Nat → WTask) (n j a : Nat) (h : (wake w n j).ph = .timedOut a) :
    (w j).ph = .timedOut a := by
  rw [wake_ph] at h
  cases hp : (w j).ph <;> rw [hp] at h <;> simp at h
  · rename_i dl; split at h <;> simp at h
  · rw [← h]

theorem wake_absent (w : Nat → WTask) (n j : Nat) (h : (w j).ph = .absent) : (wake w n j).ph = .absent := by
  rw [wake_ph, h]

@[simp] theorem expire_name (t : Nat) (x : WTask) : (expire t x).name = x.name := by
  unfold expire; split <;> (try split) <;> rfl
@[simp] theorem expire_timeout (t : Nat) (x : WTask) : (expire t x).timeout = x.timeout := by
  unfold expire; split <;> (try split) <;> rfl
@[simp] theorem expire_t0 (t : Nat) (x : WTask) : (expire t x).t0 = x.t0 := by
  unfold expire; split <;> (try split) <;> rfl

theorem expire_ph (t : Nat) (x : WTask) :
    (expire t x).ph = match x.ph with
      | .waiting (some dl) => if dl ≤ t then .timedOut dl else .waiting (some dl)
      | p => p := by
  unfold expire
  split
  · rename_i dl h; rw [h]; simp only; split <;> simp [*]
  · rename_i h
    cases hp : x.ph with
    | waiting o => cases o with
      | none => rfl
      | some dl => exact absurd hp (h dl)
    | _ => rfl

theorem expire_waiting (t : Nat) (x : WTask) (dl : Option Nat) (h : (expire t x).ph = .waiting dl) :
    x.ph = .waiting dl ∧ ∀ d, dl = some d → t < d := by
  rw [expire_ph] at h
  cases hp : x.ph with
  | waiting o =>
    rw [hp] at h
    cases o with
    | none => simp at h; exact ⟨by rw [h], by intro d hd; rw [← h] at hd; simp at hd⟩
    | some d0 =>
      simp only at h
      by_cases hd : d0 ≤ t
      · simp [hd] at h
      · simp [hd] at h; exact ⟨by rw [h], by intro d hd'; rw [← h] at hd'; simp at hd'; omega⟩
  | _ => rw [hp] at h; simp at h

theorem expire_other (t : Nat) (x : WTask) (p : WPhase) (h : (expire t x).ph = p)
    (hp : (∀ a, p ≠ .timedOut a) ∧ ∀ dl, p ≠ .waiting dl) : x.ph = p := by
  rw [expire_ph] at h
  cases hx : x.ph with
  | waiting o =>
    rw [hx] at h
    cases o with
    | none => simp at h; exact absurd h.symm (hp.2 none)
    | some d0 =>
      simp only at h
      by_cases hd : d0 ≤ t
      · simp [hd] at h; exact absurd h.symm (hp.1 d0)
      · simp [hd] at h; exact absurd h.symm (hp.2 (some d0))
  | _ => rw [hx] at h; simpa using h

theorem expire_timedOut (t : Nat) (x : WTask) (a : Nat) (h : (expire t x).ph = .timedOut a) :
    x.ph = .timedOut a ∨ x.ph = .waiting (some a) := by
  rw [expire_ph] at h
  cases hx : x.ph with
  | waiting o =>
    rw [hx] at h
    cases o with
    | none => simp at h
    | some d0 =>
      simp only at h
      by_cases hd : d0 ≤ t
      · simp [hd] at h; right; rw [h]
      · simp [hd] at h
  | timedOut b => rw [hx] at h; simp at h; left; rw [h]
  | _ => rw [hx] at h; simp at h

end PlumVerif.C13

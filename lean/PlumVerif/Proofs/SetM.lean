import PlumVerif.Model.SetM
/-
Helper lemmas about the C08 machine (core Lean only).
-/
namespace PlumVerif.SetM

@[simp] theorem run_nil (s : St) : run s [] = (s, []) := rfl
@[simp] theorem run_cons (s : St) (e : Ev) (es : List Ev) :
    run s (e :: es) = ((run (step s e).1 es).1, (step s e).2 ++ (run (step s e).1 es).2) := rfl

theorem run_append (s : St) (a b : List Ev) :
    run s (a ++ b) = ((run (run s a).1 b).1, (run s a).2 ++ (run (run s a).1 b).2) := by
  induction a generalizing s with
  | nil => simp
  | cons e es ih => simp [ih, List.append_assoc]

/-- `set()` has been called -/
def Active (s : St) : Prop := s.phase ≠ .idle

/-- facts about reachable states the proofs need -/
def WF (s : St) : Prop := s.phase = .buildSet → s.cap = s.req ∧ 1 ≤ s.retries

/-- the state in which the retry loop is entered -/
def arm (s : St) (v r T : Nat) : St :=
  { s with prev := s.loc.value, loc := { s.loc with value := v }, pending := true,
           req := v, retries := r, timeout := T }

theorem call_cases (s : St) (h : s.phase = .idle) (v r T : Nat) :
    (v = s.loc.value ∧ step s (.call v r T) = ({ s with phase := .done }, [.ret true s.now])) ∨
    (v ≠ s.loc.value ∧ (v < s.loc.min ∨ v > s.loc.max) ∧
        step s (.call v r T) = ({ s with phase := .done }, [.raise s.now])) ∨
    (v ≠ s.loc.value ∧ s.loc.min ≤ v ∧ v ≤ s.loc.max ∧
        step s (.call v r T) = loopTop (arm s v r T)) := by
  unfold step arm
  simp only [h, ne_eq, not_true_eq_false, ↓reduceIte]
  by_cases h1 : v = s.loc.value
  · left; simp [h1]
  · by_cases h2 : v < s.loc.min ∨ v > s.loc.max
    · right; left; simp [h1, h2]
    · right; right
      simp only [h1, h2, ↓reduceIte]
      simp
      omega


/-! ### what a step never changes -/

theorem loopTop_frame (s : St) :
    (loopTop s).1.req = s.req ∧ (loopTop s).1.prev = s.prev ∧ (loopTop s).1.timeout = s.timeout ∧
    (loopTop s).1.tracking = s.tracking ∧ (loopTop s).1.hold = s.hold ∧ (loopTop s).1.pending = s.pending ∧
    (loopTop s).1.phase ≠ .idle := by
  unfold loopTop goSleep attempt
  (repeat' split) <;> simp_all

def Ev.isTrack : Ev → Bool
  | .setTracking _ => true
  | _ => false

theorem step_frame (s : St) (e : Ev) (h : Active s) :
    (step s e).1.req = s.req ∧ (step s e).1.prev = s.prev ∧ (step s e).1.timeout = s.timeout ∧
    (e.isTrack = false → (step s e).1.tracking = s.tracking) ∧ (step s e).1.hold = s.hold ∧
    Active (step s e).1 := by
  unfold Active at *
  have lt := loopTop_frame { s with now := s.wake, retries := s.retries - 1 }
  cases e <;> simp only [step, goSleep, update, Ev.isTrack] <;> (repeat' split) <;> simp_all

/-- only a frame-versions announcement changes the tracking flag (in any state) -/
theorem step_tracking (s : St) (e : Ev) (he : e.isTrack = false) : (step s e).1.tracking = s.tracking := by
  have lt := loopTop_frame { s with now := s.wake, retries := s.retries - 1 }
  cases e with
  | setTracking b => simp [Ev.isTrack] at he
  | call v r T =>
    simp only [step]
    (repeat' split) <;> try rfl
    exact (loopTop_frame _).2.2.2.1
  | built => simp only [step, goSleep]; (repeat' split) <;> simp_all
  | report t => rfl
  | wait d => simp only [step]; (repeat' split) <;> simp_all
  | timer => simp only [step]; (repeat' split) <;> simp_all

theorem loopTop_wf (s : St) : WF (loopTop s).1 := by
  unfold WF loopTop goSleep attempt
  (repeat' split) <;> simp_all <;> omega

theorem step_wf (s : St) (e : Ev) (h : Active s) (w : WF s) : WF (step s e).1 := by
  unfold Active at h
  have lt := loopTop_wf { s with now := s.wake, retries := s.retries - 1 }
  unfold WF at *
  cases e <;> simp only [step, goSleep, update] <;> (repeat' split) <;> simp_all

/-- after `set()` has returned nothing is produced any more -/
theorem done_step (s : St) (e : Ev) (h : s.phase = .done) :
    (step s e).1.phase = .done ∧ (step s e).2 = [] := by
  cases e <;> simp [step, h, update]

theorem done_silent (s : St) (es : List Ev) (h : s.phase = .done) :
    (run s es).1.phase = .done ∧ (run s es).2 = [] := by
  induction es generalizing s with
  | nil => simp [h]
  | cons e es ih =>
    obtain ⟨h1, h2⟩ := done_step s e h
    obtain ⟨h3, h4⟩ := ih _ h1
    simp [h2, h3, h4]


/-! ### projections of output lists -/

@[simp] theorem txVals_nil : txVals [] = [] := rfl
@[simp] theorem txTimes_nil : txTimes [] = [] := rfl
@[simp] theorem txKinds_nil : txKinds [] = [] := rfl

theorem txVals_append (a b : List Out) : txVals (a ++ b) = txVals a ++ txVals b := by
  induction a with
  | nil => rfl
  | cons x xs ih => cases x <;> simp [txVals, ih]

theorem txTimes_append (a b : List Out) : txTimes (a ++ b) = txTimes a ++ txTimes b := by
  induction a with
  | nil => rfl
  | cons x xs ih => cases x <;> simp [txTimes, ih]

theorem txKinds_append (a b : List Out) : txKinds (a ++ b) = txKinds a ++ txKinds b := by
  induction a with
  | nil => rfl
  | cons x xs ih => cases x <;> simp [txKinds, ih]

theorem txTimes_length (a : List Out) : (txTimes a).length = (txVals a).length := by
  induction a with
  | nil => rfl
  | cons x xs ih => cases x <;> simp [txTimes, txVals, ih]

/-! ### C08.tx_value -/

theorem loopTop_txVals (s : St) : ∀ x ∈ txVals (loopTop s).2, x = s.req := by
  unfold loopTop attempt
  (repeat' split) <;> simp [txVals]

theorem step_txVals (s : St) (e : Ev) (h : Active s) (w : WF s) :
    ∀ x ∈ txVals (step s e).2, x = s.req := by
  unfold Active at h
  unfold WF at w
  have lt := loopTop_txVals { s with now := s.wake, retries := s.retries - 1 }
  cases e <;> simp only [step, goSleep, update] <;> (repeat' split) <;> simp_all [txVals] <;> (try assumption)

theorem run_txVals (s : St) (es : List Ev) (h : Active s) (w : WF s) :
    ∀ x ∈ txVals (run s es).2, x = s.req := by
  induction es generalizing s with
  | nil => simp
  | cons e es ih =>
    intro x hx
    simp only [run_cons, txVals_append, List.mem_append] at hx
    rcases hx with hx | hx
    · exact step_txVals s e h w x hx
    · have f := step_frame s e h
      rw [← f.1]
      exact ih _ f.2.2.2.2.2 (step_wf s e h w) x hx

/-! ### C08.tx_count -/

/-- set requests still to come, at most -/
def budget (s : St) : Nat :=
  match s.phase with
  | .idle => 0
  | .buildSet => s.retries
  | .buildRefresh => s.retries - 1
  | .sleeping => s.retries - 1
  | .done => 0

theorem loopTop_budget (s : St) :
    (txVals (loopTop s).2).length + budget (loopTop s).1 ≤ s.retries ∧
    ((loopTop s).1.phase ≠ .done → (txVals (loopTop s).2).length + budget (loopTop s).1 = s.retries) := by
  unfold loopTop goSleep attempt budget
  (repeat' split) <;> simp_all [txVals] <;> omega

theorem step_budget (s : St) (e : Ev) (h : Active s) (w : WF s) :
    (txVals (step s e).2).length + budget (step s e).1 ≤ budget s ∧
    ((step s e).1.phase ≠ .done → (txVals (step s e).2).length + budget (step s e).1 = budget s) := by
  unfold Active at h
  unfold WF at w
  have lt := loopTop_budget { s with now := s.wake, retries := s.retries - 1 }
  cases e <;> simp only [step, goSleep, update] <;> (repeat' split) <;>
    simp_all [txVals, budget] <;> omega

theorem run_budget (s : St) (es : List Ev) (h : Active s) (w : WF s) :
    (txVals (run s es).2).length + budget (run s es).1 ≤ budget s := by
  induction es generalizing s with
  | nil => simp
  | cons e es ih =>
    have f := step_frame s e h
    have := ih _ f.2.2.2.2.2 (step_wf s e h w)
    have := (step_budget s e h w).1
    simp only [run_cons, txVals_append, List.length_append]
    omega

/-! ### returns -/

def isRetFalse : Out → Bool
  | .ret false _ => true
  | _ => false

def isRetTrue : Out → Bool
  | .ret true _ => true
  | _ => false

theorem loopTop_ret (s : St) :
    ((loopTop s).2.any isRetFalse = true → s.pending = true ∧ s.retries = 0 ∧ (loopTop s).1.phase = .done ∧
        txVals (loopTop s).2 = []) ∧
    ((loopTop s).2.any isRetTrue = true → s.pending = false ∧ (loopTop s).1.phase = .done) ∧
    ((loopTop s).2.any Out.isFinal = true ↔ (loopTop s).1.phase = .done) := by
  unfold loopTop goSleep attempt
  (repeat' split) <;> simp_all [isRetFalse, isRetTrue, Out.isFinal, txVals]

/-- a `False` return is produced only by the timer that finds no retries left -/
theorem step_retFalse (s : St) (e : Ev) (h : Active s) (hf : (step s e).2.any isRetFalse = true) :
    s.pending = true ∧ budget s = 0 ∧ (step s e).1.phase = .done ∧ txVals (step s e).2 = [] := by
  unfold Active at h
  have lt := (loopTop_ret { s with now := s.wake, retries := s.retries - 1 }).1
  revert hf
  cases e <;> simp only [step, goSleep, update] <;> (repeat' split) <;>
    simp_all [isRetFalse, budget, txVals] <;> (try assumption)

theorem step_retTrue (s : St) (e : Ev) (h : Active s) (hf : (step s e).2.any isRetTrue = true) :
    s.pending = false ∧ (step s e).1.phase = .done := by
  unfold Active at h
  have lt := (loopTop_ret { s with now := s.wake, retries := s.retries - 1 }).2.1
  revert hf
  cases e <;> simp only [step, goSleep, update] <;> (repeat' split) <;>
    simp_all [isRetTrue] <;> (try assumption)

/-- a step produces a final output exactly when it ends the call -/
theorem step_final (s : St) (e : Ev) (h : Active s) (hd : s.phase ≠ .done) :
    ((step s e).2.any Out.isFinal = true ↔ (step s e).1.phase = .done) := by
  unfold Active at h
  have lt := (loopTop_ret { s with now := s.wake, retries := s.retries - 1 }).2.2
  cases e <;> simp only [step, goSleep, update] <;> (repeat' split) <;>
    simp_all [Out.isFinal] <;> (try assumption)

theorem step_pending (s : St) (e : Ev) (h : Active s) :
    (step s e).1.pending = (s.pending && match e with | .report t => t.value == s.prev | _ => true) := by
  unfold Active at h
  have lt := loopTop_frame { s with now := s.wake, retries := s.retries - 1 }
  cases e with
  | report t =>
    simp only [step, update]
    cases s.pending <;> by_cases hv : s.prev = t.value <;> simp [hv]
    all_goals first | exact hv.symm | exact fun h => hv h.symm
  | call v r T => simp [step, h]
  | built => simp only [step, goSleep]; (repeat' split) <;> simp_all
  | wait d => simp only [step]; (repeat' split) <;> simp_all
  | timer => simp only [step]; (repeat' split) <;> simp_all
  | setTracking b => simp [step]

theorem any_append' {α} (p : α → Bool) (a b : List α) : (a ++ b).any p = (a.any p || b.any p) := by
  simp

/-- once confirmed, the call cannot return `False` -/
theorem run_noRetFalse (s : St) (es : List Ev) (h : Active s) (hp : s.pending = false) :
    (run s es).2.any isRetFalse = false := by
  induction es generalizing s with
  | nil => simp
  | cons e es ih =>
    have f := step_frame s e h
    have hp' : (step s e).1.pending = false := by rw [step_pending s e h, hp]; simp
    have h1 : (step s e).2.any isRetFalse = false := by
      cases hc : (step s e).2.any isRetFalse with
      | false => rfl
      | true => have := (step_retFalse s e h hc).1; simp [hp] at this
    simp only [run_cons, List.any_append, h1, ih _ f.2.2.2.2.2 hp', Bool.or_self]

/-- **false ⇒ exactly the budgeted number of transmissions** -/
theorem run_retFalse_count (s : St) (es : List Ev) (h : Active s) (w : WF s)
    (hf : (run s es).2.any isRetFalse = true) : (txVals (run s es).2).length = budget s := by
  induction es generalizing s with
  | nil => simp at hf
  | cons e es ih =>
    have f := step_frame s e h
    simp only [run_cons, List.any_append, Bool.or_eq_true] at hf
    simp only [run_cons, txVals_append, List.length_append]
    rcases hf with hf | hf
    · obtain ⟨_, hb, hd, ht⟩ := step_retFalse s e h hf
      have := (done_silent _ es hd).2
      simp [this, ht, hb]
    · have hnd : (step s e).1.phase ≠ .done := by
        intro hd
        have := (done_silent _ es hd).2
        simp [this] at hf
      have := (step_budget s e h w).2 hnd
      have := ih _ f.2.2.2.2.2 (step_wf s e h w) hf
      omega


/-! ### C08.true_sound / false_sound: position of the confirming report -/

def noFinal (o : List Out) : Prop := o.any Out.isFinal = false

theorem isRetTrue_final (o : Out) (h : isRetTrue o = true) : o.isFinal = true := by
  cases o <;> simp_all [isRetTrue, Out.isFinal]

theorem isRetFalse_final (o : Out) (h : isRetFalse o = true) : o.isFinal = true := by
  cases o <;> simp_all [isRetFalse, Out.isFinal]

theorem any_mono {α} {p q : α → Bool} (l : List α) (hpq : ∀ a, p a = true → q a = true)
    (h : l.any p = true) : l.any q = true := by
  simp only [List.any_eq_true] at *
  obtain ⟨a, ha, hp⟩ := h
  exact ⟨a, ha, hpq a hp⟩

/-- `True` is returned only after a report whose value differs from the previous one, received
while the call was still running -/
theorem run_retTrue_split (s : St) (es : List Ev) (h : Active s) (hp : s.pending = true)
    (ht : (run s es).2.any isRetTrue = true) :
    ∃ es1 trip es2, es = es1 ++ .report trip :: es2 ∧ trip.value ≠ s.prev ∧ noFinal (run s es1).2 := by
  induction es generalizing s with
  | nil => simp at ht
  | cons e es ih =>
    have f := step_frame s e h
    by_cases hc : ∃ trip, e = .report trip ∧ trip.value ≠ s.prev
    · obtain ⟨trip, rfl, hv⟩ := hc
      exact ⟨[], trip, es, rfl, hv, by simp [noFinal]⟩
    · have hp' : (step s e).1.pending = true := by
        rw [step_pending s e h, hp]
        cases e with
        | report t =>
          have : t.value = s.prev := by
            apply Classical.byContradiction; intro hne; exact hc ⟨t, rfl, hne⟩
          simp [this]
        | _ => simp
      simp only [run_cons, List.any_append, Bool.or_eq_true] at ht
      have h1 : (step s e).2.any isRetTrue = false := by
        cases hq : (step s e).2.any isRetTrue with
        | false => rfl
        | true => have := (step_retTrue s e h hq).1; simp [hp] at this
      simp only [h1, Bool.false_eq_true, false_or] at ht
      have hnd : (step s e).1.phase ≠ .done := by
        intro hd
        have := (done_silent _ es hd).2
        simp [this] at ht
      have hsd : s.phase ≠ .done := by
        intro hd
        exact hnd (done_step s e hd).1
      have hnf : (step s e).2.any Out.isFinal = false := by
        cases hq : (step s e).2.any Out.isFinal with
        | false => rfl
        | true => exact absurd ((step_final s e h hsd).1 hq) hnd
      obtain ⟨es1, trip, es2, he, hv, hn⟩ := ih _ f.2.2.2.2.2 hp' ht
      refine ⟨e :: es1, trip, es2, by simp [he], by rw [← f.2.1]; exact hv, ?_⟩
      simp only [noFinal, run_cons, List.any_append, hnf, Bool.false_or]
      exact hn

/-- a report received while the call was still running and before a `False` return carried the
previous value -/
theorem run_retFalse_stale (s : St) (es1 : List Ev) (trip : Triple) (es2 : List Ev) (h : Active s)
    (hf : (run s (es1 ++ .report trip :: es2)).2.any isRetFalse = true)
    (hn : noFinal (run s es1).2) : trip.value = s.prev := by
  induction es1 generalizing s with
  | nil =>
    apply Classical.byContradiction
    intro hne
    have f := step_frame s (.report trip) h
    have hp' : (step s (.report trip)).1.pending = false := by
      rw [step_pending s _ h]; simp [hne]
    have := run_noRetFalse _ es2 f.2.2.2.2.2 hp'
    simp only [List.nil_append, run_cons, List.any_append, Bool.or_eq_true] at hf
    rcases hf with hf | hf
    · simp [step] at hf
    · simp [this] at hf
  | cons e es1 ih =>
    have f := step_frame s e h
    simp only [noFinal, run_cons, List.any_append, Bool.or_eq_false_iff] at hn
    simp only [List.cons_append, run_cons, List.any_append, Bool.or_eq_true] at hf
    rcases hf with hf | hf
    · have := any_mono _ isRetFalse_final hf
      simp [hn.1] at this
    · rw [← f.2.1]
      exact ih _ f.2.2.2.2.2 hf hn.2

/-! ### C08.refresh_iff -/

/-- the two-state acceptor "set, refresh, set, refresh, …"; `aw` = a set request awaits its
re-read request.  `complete` additionally demands that nothing is awaited at the end. -/
def paired (complete : Bool) : Bool → List Bool → Bool
  | aw, [] => !(complete && aw)
  | false, true :: r => paired complete true r
  | true, false :: r => paired complete false r
  | _, _ => false

def awaiting (s : St) : Bool :=
  match s.phase with
  | .buildRefresh => true
  | _ => false

/-- the same acceptor over tagged outputs: a set request opens a pair exactly when the tracking
flag was off while it was made -/
def pairedT (complete : Bool) : Bool → List (Out × Bool) → Bool
  | aw, [] => !(complete && aw)
  | aw, (.txSet _ _, tr) :: r => if aw then false else pairedT complete (!tr) r
  | aw, (.txRefresh _, _) :: r => if aw then pairedT complete false r else false
  | aw, _ :: r => pairedT complete aw r

def tag (x : St × List Out) : List (Out × Bool) := x.2.map (fun o => (o, x.1.tracking))

@[simp] theorem tagged_nil (s : St) : tagged s [] = [] := rfl
@[simp] theorem tagged_cons (s : St) (e : Ev) (es : List Ev) :
    tagged s (e :: es) = tag (step s e) ++ tagged (step s e).1 es := rfl

theorem tagged_fst (s : St) (es : List Ev) : (tagged s es).map Prod.fst = (run s es).2 := by
  induction es generalizing s with
  | nil => simp
  | cons e es ih => simp [tag, ih, Function.comp_def]

theorem loopTop_pairedT (s : St) (c : Bool) (rest : List (Out × Bool)) :
    pairedT c false (tag (loopTop s) ++ rest) = pairedT c (awaiting (loopTop s).1) rest := by
  unfold loopTop goSleep attempt awaiting tag
  (repeat' split) <;> simp_all [pairedT]

theorem step_pairedT (s : St) (e : Ev) (h : Active s) (c : Bool) (rest : List (Out × Bool)) :
    pairedT c (awaiting s) (tag (step s e) ++ rest) = pairedT c (awaiting (step s e).1) rest := by
  unfold Active at h
  have lt := loopTop_pairedT { s with now := s.wake, retries := s.retries - 1 } c rest
  cases e <;> simp only [step, goSleep, update] <;> (repeat' split) <;>
    simp_all [pairedT, awaiting, tag]

theorem run_pairedT (s : St) (es : List Ev) (h : Active s) :
    pairedT false (awaiting s) (tagged s es) = true := by
  induction es generalizing s with
  | nil => simp [pairedT]
  | cons e es ih =>
    rw [tagged_cons, step_pairedT s e h]
    exact ih _ (step_frame s e h).2.2.2.2.2

theorem run_pairedT_complete (s : St) (es : List Ev) (h : Active s)
    (hd : (run s es).1.phase = .done) : pairedT true (awaiting s) (tagged s es) = true := by
  induction es generalizing s with
  | nil =>
    simp only [run_nil] at hd
    simp [pairedT, awaiting, hd]
  | cons e es ih =>
    rw [tagged_cons, step_pairedT s e h]
    exact ih _ (step_frame s e h).2.2.2.2.2 hd

/-- without announcements the tag never changes -/
theorem tagged_const (s : St) (es : List Ev) (hn : ∀ e ∈ es, e.isTrack = false) :
    ∀ x ∈ tagged s es, x.2 = s.tracking := by
  induction es generalizing s with
  | nil => simp
  | cons e es ih =>
    have ht := step_tracking s e (hn e (by simp))
    intro x hx
    rw [tagged_cons, List.mem_append] at hx
    rcases hx with hx | hx
    · simp only [tag, List.mem_map] at hx
      obtain ⟨o, _, rfl⟩ := hx
      exact ht
    · rw [← ht]
      exact ih _ (fun e' he' => hn e' (by simp [he'])) x hx

theorem pairedT_untracked (c : Bool) : ∀ (aw : Bool) (l : List (Out × Bool)), (∀ x ∈ l, x.2 = false) →
    pairedT c aw l = paired c aw (txKinds (l.map Prod.fst))
  | aw, [], _ => by cases aw <;> simp [pairedT, paired]
  | aw, (o, tr) :: r, h => by
    have htr : tr = false := h (o, tr) (by simp)
    have ih := fun aw' => pairedT_untracked c aw' r (fun x hx => h x (by simp [hx]))
    subst htr
    cases o <;> cases aw <;> simp [pairedT, paired, txKinds, ih]

theorem pairedT_tracked (c : Bool) : ∀ (l : List (Out × Bool)), (∀ x ∈ l, x.2 = true) →
    pairedT c false l = true → ∀ k ∈ txKinds (l.map Prod.fst), k = true
  | [], _, _ => by simp
  | (o, tr) :: r, h, hp => by
    have htr : tr = true := h (o, tr) (by simp)
    have ih := pairedT_tracked c r (fun x hx => h x (by simp [hx]))
    subst htr
    cases o <;> simp_all [pairedT, txKinds]

/-! ### C08.tx_spacing -/

/-- the first time is not before `lb`, consecutive times are at least `T` apart -/
def spaced (T : Nat) : Nat → List Nat → Prop
  | _, [] => True
  | lb, t :: r => lb ≤ t ∧ spaced T (t + T) r

theorem spaced_mono (T : Nat) {a b : Nat} (hab : a ≤ b) (l : List Nat) (h : spaced T b l) : spaced T a l := by
  cases l with
  | nil => trivial
  | cons t r => exact ⟨Nat.le_trans hab h.1, h.2⟩

/-- earliest possible time of the next set request -/
def lb (s : St) : Nat :=
  match s.phase with
  | .buildSet => s.now
  | .buildRefresh => s.now + s.timeout
  | .sleeping => s.wake
  | _ => 0

theorem loopTop_spaced (s : St) :
    ((loopTop s).1.phase = .done → txTimes (loopTop s).2 = []) ∧
    ((loopTop s).1.phase ≠ .done → ∀ rest, spaced s.timeout (lb (loopTop s).1) rest →
        spaced s.timeout s.now (txTimes (loopTop s).2 ++ rest)) := by
  unfold loopTop goSleep attempt lb
  (repeat' split) <;> simp_all [txTimes, spaced]

theorem step_spaced (s : St) (e : Ev) (h : Active s) :
    ((step s e).1.phase = .done → txTimes (step s e).2 = []) ∧
    ((step s e).1.phase ≠ .done → ∀ rest, spaced s.timeout (lb (step s e).1) rest →
        spaced s.timeout (lb s) (txTimes (step s e).2 ++ rest)) := by
  unfold Active at h
  have lt := loopTop_spaced { s with now := s.wake, retries := s.retries - 1 }
  cases e with
  | call v r T => simp [step, h]
  | report t => simp [step, update, lb]
  | setTracking b => simp [step, lb]
  | timer =>
    simp only [step]; split
    · simp [txTimes]
    · rename_i hs
      have hs' : s.phase = .sleeping := by simpa using hs
      simpa [lb, hs'] using lt
  | wait d =>
    simp only [step]; split
    · simp [txTimes]
    · refine ⟨by simp [txTimes], ?_⟩
      intro _ rest hr
      simp only [txTimes_nil, List.nil_append]
      refine spaced_mono _ ?_ rest hr
      rename_i hw
      unfold lb
      split <;> simp_all <;> omega
  | built =>
    simp only [step, goSleep]
    (repeat' split) <;> simp_all [txTimes, spaced, lb]
    all_goals (intro rest hr; first | exact spaced_mono _ (by omega) rest hr | skip)

theorem run_spaced (s : St) (es : List Ev) (h : Active s) :
    spaced s.timeout (lb s) (txTimes (run s es).2) := by
  induction es generalizing s with
  | nil => simp [spaced]
  | cons e es ih =>
    have f := step_frame s e h
    have g := step_spaced s e h
    simp only [run_cons, txTimes_append]
    by_cases hd : (step s e).1.phase = .done
    · rw [(done_silent _ es hd).2, g.1 hd]; simp [spaced]
    · have := ih _ f.2.2.2.2.2
      rw [f.2.2.1] at this
      exact g.2 hd _ this

/-- the first time is exactly `t0`, consecutive times are exactly `T` apart -/
def exact (T : Nat) : Nat → List Nat → Prop
  | _, [] => True
  | t0, t :: r => t = t0 ∧ exact T (t0 + T) r

/-- with a synchronous executor the call is either asleep or finished between events -/
def Quiet (s : St) : Prop := s.hold = false ∧ (s.phase = .sleeping ∨ s.phase = .done)

theorem loopTop_exact (s : St) (hh : s.hold = false) :
    Quiet (loopTop s).1 ∧
    ((loopTop s).1.phase ≠ .done → ∀ rest, exact s.timeout (loopTop s).1.wake rest →
      exact s.timeout s.now (txTimes (loopTop s).2 ++ rest)) := by
  unfold loopTop goSleep attempt Quiet
  (repeat' split) <;> simp_all [txTimes, exact]

theorem step_quiet (s : St) (e : Ev) (h : Active s) (q : Quiet s) :
    Quiet (step s e).1 ∧ (step s e).1.timeout = s.timeout ∧
    ((step s e).1.phase = .done → txTimes (step s e).2 = []) ∧
    ((step s e).1.phase ≠ .done → ∀ rest, exact s.timeout (step s e).1.wake rest →
        exact s.timeout s.wake (txTimes (step s e).2 ++ rest)) := by
  unfold Active at h
  unfold Quiet at *
  obtain ⟨hh, hq⟩ := q
  have lt := loopTop_exact { s with now := s.wake, retries := s.retries - 1 } hh
  have lf := loopTop_frame { s with now := s.wake, retries := s.retries - 1 }
  have ls := loopTop_spaced { s with now := s.wake, retries := s.retries - 1 }
  unfold Quiet at lt
  cases e with
  | call v r T => simp [step, h, hh, hq]
  | report t => simp [step, update, hh, hq]
  | setTracking b => simp [step, hh, hq]
  | built => rcases hq with hq | hq <;> simp [step, hq, hh]
  | wait d => simp only [step]; split <;> simp [hh, hq]
  | timer =>
    simp only [step]; split
    · simp [hh, hq]
    · exact ⟨lt.1, lf.2.2.1, ls.1, lt.2⟩

theorem run_exact (s : St) (es : List Ev) (h : Active s) (q : Quiet s) (hs : s.phase = .sleeping) :
    exact s.timeout s.wake (txTimes (run s es).2) := by
  induction es generalizing s with
  | nil => simp [exact]
  | cons e es ih =>
    have f := step_frame s e h
    have g := step_quiet s e h q
    simp only [run_cons, txTimes_append]
    by_cases hd : (step s e).1.phase = .done
    · rw [(done_silent _ es hd).2, g.2.2.1 hd]; simp [exact]
    · have hs' : (step s e).1.phase = .sleeping := by
        rcases g.1.2 with h1 | h1
        · exact h1
        · exact absurd h1 hd
      have := ih _ f.2.2.2.2.2 g.1 hs'
      rw [g.2.1] at this
      exact g.2.2.2 hd _ this


/-! ### readable forms of `spaced`, `exact`, `paired` -/

theorem spaced_get (T : Nat) : ∀ (lb : Nat) (l : List Nat), spaced T lb l →
    (∀ i (h : i < l.length), lb + i * T ≤ l[i]) ∧ (∀ i (h : i + 1 < l.length), l[i] + T ≤ l[i + 1])
  | _, [], _ => ⟨fun i h => absurd h (by simp), fun i h => absurd h (by simp)⟩
  | lb, t :: r, h => by
    obtain ⟨h1, h2⟩ := h
    obtain ⟨ih1, ih2⟩ := spaced_get T (t + T) r h2
    constructor
    · intro i hi
      cases i with
      | zero => simpa using h1
      | succ j =>
        have := ih1 j (by simpa using hi)
        simp only [List.getElem_cons_succ]
        have e : (j + 1) * T = j * T + T := by rw [Nat.add_mul]; simp
        omega
    · intro i hi
      cases i with
      | zero =>
        have := ih1 0 (by simpa using hi)
        simp only [List.getElem_cons_zero, List.getElem_cons_succ]
        omega
      | succ j =>
        have := ih2 j (by simpa using hi)
        simpa using this

theorem exact_get (T : Nat) : ∀ (t0 : Nat) (l : List Nat), exact T t0 l →
    ∀ i (h : i < l.length), l[i] = t0 + i * T
  | _, [], _ => fun i h => absurd h (by simp)
  | t0, t :: r, h => by
    obtain ⟨h1, h2⟩ := h
    have ih := exact_get T (t0 + T) r h2
    intro i hi
    cases i with
    | zero => simpa using h1
    | succ j =>
      have := ih j (by simpa using hi)
      simp only [List.getElem_cons_succ]
      have e : (j + 1) * T = j * T + T := by rw [Nat.add_mul]; simp
      omega

/-- `n` (set, re-read) pairs -/
def pairs : Nat → List Bool
  | 0 => []
  | n + 1 => true :: false :: pairs n

theorem paired_shape (c : Bool) : ∀ l : List Bool, paired c false l = true →
    ∃ n, l = pairs n ∨ (c = false ∧ l = pairs n ++ [true])
  | [], _ => ⟨0, Or.inl rfl⟩
  | [true], h => by
    refine ⟨0, Or.inr ⟨?_, rfl⟩⟩
    cases c <;> simp_all [paired]
  | true :: false :: r, h => by
    have h' : paired c false r = true := by simpa [paired] using h
    obtain ⟨n, hn⟩ := paired_shape c r h'
    refine ⟨n + 1, ?_⟩
    rcases hn with hn | ⟨hc, hn⟩
    · left; simp [pairs, hn]
    · right; exact ⟨hc, by simp [pairs, hn]⟩
  | false :: _, h => by simp [paired] at h
  | true :: true :: _, h => by simp [paired] at h

/-! ### histories before the call -/

def Ev.isCall : Ev → Bool
  | .call _ _ _ => true
  | _ => false

theorem idle_step (s : St) (e : Ev) (h : s.phase = .idle) (he : e.isCall = false) :
    (step s e).1.phase = .idle ∧ (step s e).2 = [] ∧ (step s e).1.hold = s.hold := by
  cases e <;> simp_all [step, update, Ev.isCall]

theorem idle_run (s : St) (pre : List Ev) (h : s.phase = .idle) (hp : ∀ e ∈ pre, e.isCall = false) :
    (run s pre).1.phase = .idle ∧ (run s pre).2 = [] ∧ (run s pre).1.hold = s.hold := by
  induction pre generalizing s with
  | nil => simp [h]
  | cons e es ih =>
    obtain ⟨h1, h2, h3⟩ := idle_step s e h (hp e (by simp))
    obtain ⟨i1, i2, i3⟩ := ih _ h1 (fun e' he' => hp e' (by simp [he']))
    simp [h2, i1, i2, i3, h3]


/-! ### the call step -/

/-- the state in which the rest of the history runs, in the three cases of `set` -/
theorem after_call (s0 : St) (h0 : s0.phase = .idle) (v r T : Nat) :
    let c := step s0 (.call v r T)
    (c.1.phase = .done ∧ txVals c.2 = [] ∧ txKinds c.2 = [] ∧ c.2.any isRetFalse = false ∧
        (c.2.any isRetTrue = true → v = s0.loc.value)) ∨
    (v ≠ s0.loc.value ∧ c = loopTop (arm s0 v r T)) := by
  intro c
  rcases call_cases s0 h0 v r T with ⟨h1, h2⟩ | ⟨h1, _, h2⟩ | ⟨h1, _, _, h2⟩
  · left
    have hc : c = _ := h2
    rw [hc]
    simp [txVals, txKinds, isRetFalse, isRetTrue, h1]
  · left
    have hc : c = _ := h2
    rw [hc]
    simp [txVals, txKinds, isRetFalse, isRetTrue]
  · right; exact ⟨h1, h2⟩

theorem arm_facts (s0 : St) (v r T : Nat) :
    Active (loopTop (arm s0 v r T)).1 ∧ WF (loopTop (arm s0 v r T)).1 ∧
    (loopTop (arm s0 v r T)).1.req = v ∧ (loopTop (arm s0 v r T)).1.prev = s0.loc.value ∧
    (loopTop (arm s0 v r T)).1.timeout = T ∧ (loopTop (arm s0 v r T)).1.tracking = s0.tracking ∧
    (loopTop (arm s0 v r T)).1.hold = s0.hold ∧ (loopTop (arm s0 v r T)).1.pending = true := by
  have f := loopTop_frame (arm s0 v r T)
  exact ⟨f.2.2.2.2.2.2, loopTop_wf _, f.1, f.2.1, f.2.2.1, f.2.2.2.1, f.2.2.2.2.1, f.2.2.2.2.2.1⟩

end PlumVerif.SetM

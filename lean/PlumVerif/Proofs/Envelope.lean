import PlumVerif.Proofs.Frame
import PlumVerif.Spec.C02
/- the C02 envelope predicate holds of `encode f` and of nothing else (core Lean only) -/
namespace PlumVerif.C02
open PlumVerif

/-- a list with at least two elements ends with its last two elements -/
theorem split_last2 (t : List Byte) (h : 2 ≤ t.length) :
    t = t.take (t.length - 2) ++ [t.getD (t.length - 2) 0, t.getD (t.length - 1) 0] := by
  apply List.ext_getElem
  · simp; omega
  · intro i h1 h2
    by_cases hi : i < t.length - 2
    · rw [List.getElem_append_left (by simp; omega)]; simp
    · rw [List.getElem_append_right (by simp; omega)]
      simp only [List.length_take]
      have : i = t.length - 2 ∨ i = t.length - 1 := by omega
      rcases this with h | h
      · have e : i - min (t.length - 2) t.length = 0 := by omega
        simp only [e, List.getElem_cons_zero]
        subst h; simp [List.getD_eq_getElem?_getD, List.getElem?_eq_getElem h1]
      · have e : i - min (t.length - 2) t.length = 1 := by omega
        simp only [e, List.getElem_cons_succ, List.getElem_cons_zero]
        subst h; simp [List.getD_eq_getElem?_getD, List.getElem?_eq_getElem h1]

theorem spec_encode (f : Fields) (hlen : f.payload.length + 10 < 65536) :
    spec f (encode f) = true := by
  have hL := le16_roundtrip (f.payload.length + 10) hlen
  unfold spec encode
  simp only [encodeWith_length]
  simp only [encodeWith, startByte_eq, endByte_eq, List.cons_append, List.getD_cons_succ,
    List.getD_cons_zero, List.nil_append, hL, beq_self_eq_true,
    List.drop_succ_cons, List.drop_zero]
  have e2 : f.payload.length + 10 - 2 = f.payload.length + 8 := by omega
  have e1 : f.payload.length + 10 - 1 = f.payload.length + 9 := by omega
  have e10 : f.payload.length + 10 - 10 = f.payload.length := by omega
  simp only [e2, e10, e1]
  simp [List.getD]

theorem spec_tight {f : Fields} {b : List Byte} (h : spec f b = true) : b = encode f := by
  unfold spec at h
  simp only [Bool.and_eq_true, beq_iff_eq, decide_eq_true_eq] at h
  obtain ⟨⟨⟨⟨⟨⟨⟨⟨⟨⟨h10, h0⟩, hL⟩, h3⟩, h4⟩, h5⟩, h6⟩, h7⟩, hp⟩, hc⟩, he⟩ := h
  match b, h10 with
  | b0 :: b1 :: b2 :: b3 :: b4 :: b5 :: b6 :: b7 :: t, h10 =>
    simp only [List.getD_cons_zero, List.getD_cons_succ, List.length_cons, List.drop_succ_cons,
      List.drop_zero] at h0 hL h3 h4 h5 h6 h7 hp hc he h10
    have ht2 : 2 ≤ t.length := by omega
    have en10 : t.length + 1 + 1 + 1 + 1 + 1 + 1 + 1 + 1 - 10 = t.length - 2 := by omega
    have en2 : t.length + 1 + 1 + 1 + 1 + 1 + 1 + 1 + 1 - 2 = (t.length - 2) + 8 := by omega
    have en1 : t.length + 1 + 1 + 1 + 1 + 1 + 1 + 1 + 1 - 1 = (t.length - 1) + 8 := by omega
    rw [en10] at hp
    rw [en2] at hc
    rw [en1] at he
    simp only [List.getD_cons_succ, List.take_succ_cons] at hc he
    have hpl : f.payload.length + 10 = t.length + 8 := by
      rw [← hp, List.length_take]; omega
    have hlo : ((f.payload.length + 10) % 256).toUInt8 = b1 := by
      rw [hpl, show t.length + 8 = b1.toNat + 256 * b2.toNat by omega]; exact len_lo b1 b2
    have hhi : ((f.payload.length + 10) / 256).toUInt8 = b2 := by
      rw [hpl, show t.length + 8 = b1.toNat + 256 * b2.toNat by omega]; exact len_hi b1 b2
    unfold encode encodeWith
    simp only [hlo, hhi, startByte_eq, endByte_eq, List.cons_append, List.nil_append]
    subst h0 h3 h4 h5 h6 h7
    rw [← hp, ← hc, ← he]
    have := split_last2 t ht2
    simp only [List.cons.injEq, true_and]
    exact this

end PlumVerif.C02

namespace PlumVerif

/-- the consumed bytes of a delivery end with the frame's last byte -/
theorem getLast?_encodeWith (pre : List Byte) (f : Fields) (e : Byte) :
    (pre ++ encodeWith f e).getLast? = some e := by
  have : pre ++ encodeWith f e = (pre ++ (encodeWith f e).dropLast) ++ [e] := by
    simp [encodeWith, List.dropLast_append_of_ne_nil, List.dropLast]
  rw [this, List.getLast?_concat]

end PlumVerif

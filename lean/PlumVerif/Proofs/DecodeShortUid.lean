import PlumVerif.Proofs.DecodeShortMisc
/- helper: a decoded product-info payload with complete length-prefixed fields is canonical -/
namespace PlumVerif.P2

/-- (declared UID length, declared model-name length) of a product-info payload, if it gets that far -/
def productFieldLens : List Byte → Option (Nat × Nat)
  | _ :: _ :: _ :: n :: r1 =>
    match (r1.drop n.toNat).drop 4 with
    | k :: _ => some (n.toNat, k.toNat)
    | [] => none
  | _ => none

theorem decodeLE_pair (n : Nat) (h : n < 65536) : decodeLE [(n % 256).toUInt8, (n / 256 % 256).toUInt8] = n := by
  have := decodeLE_encodeLE n 2 (by omega)
  simpa [encodeLE] using this

theorem encodeLE2_decodeLE (a b : Byte) : encodeLE (decodeLE [a, b]) 2 = [a, b] :=
  encodeLE_decodeLE [a, b]

theorem encodeLE2_take (r : List Byte) (h : 2 ≤ r.length) : encodeLE (decodeLE (r.take 2)) 2 = r.take 2 := by
  have := encodeLE_decodeLE (r.take 2)
  rwa [show (r.take 2).length = 2 by simp; omega] at this

theorem decodeProduct_canonical (msg : List Byte) (v : ProductVal) (rest : List Byte) (u k : Nat)
    (h : decodeProduct msg = .ok (v, rest)) (hlens : productFieldLens msg = some (u, k))
    (hfull : 9 + u + k ≤ msg.length) :
    ∃ m, wfProduct m = true ∧ msg = encodeProduct m ++ rest ∧ v = valProduct m := by
  unfold decodeProduct at h
  match msg with
  | [] | [_] | [_, _] => simp at h
  | [_, _, _] => simp at h
  | pt :: p0 :: p1 :: n :: r1 =>
    simp only at h
    split at h
    · simp at h
    · rename_i h2
      split at h
      · simp at h
      · rename_i h3
        split at h
        · simp at h
        · rename_i k' r5 hr4
          simp only [productFieldLens] at hlens
          have hdd : (r1.drop n.toNat).drop 4 = ((r1.drop n.toNat).drop 2).drop 2 := by
            simp only [List.drop_drop]
          rw [hdd, hr4] at hlens
          simp only [Option.some.injEq, Prod.mk.injEq] at hlens
          obtain ⟨rfl, rfl⟩ := hlens
          split at h
          · simp at h
          · rename_i hk
            simp only [Bool.not_eq_true, Bool.not_eq_false'] at hk
            simp only [Except.ok.injEq, Prod.mk.injEq] at h
            obtain ⟨rfl, rfl⟩ := h
            have hl5 : (((r1.drop n.toNat).drop 2).drop 2).length = r5.length + 1 := by rw [hr4]; simp
            simp only [List.length_drop, List.length_cons] at hl5 hfull h2 h3
            have hn : n.toNat ≤ r1.length := by omega
            have hk5 : k'.toNat ≤ r5.length := by omega
            have hu : (r1.take n.toNat).length = n.toNat := by simp; omega
            have hnm : (r5.take k'.toNat).length = k'.toNat := by simp; omega
            have hp := decodeLE_lt' [p0, p1]
            have hlg := decodeLE_lt' ((r1.drop n.toNat).take 2)
            have him := decodeLE_lt' (((r1.drop n.toNat).drop 2).take 2)
            rw [show ((r1.drop n.toNat).take 2).length = 2 by simp; omega] at hlg
            rw [show (((r1.drop n.toNat).drop 2).take 2).length = 2 by simp; omega] at him
            simp only [List.length_cons, List.length_nil] at hp
            refine ⟨⟨pt, decodeLE [p0, p1], r1.take n.toNat, decodeLE ((r1.drop n.toNat).take 2),
              decodeLE (((r1.drop n.toNat).drop 2).take 2), r5.take k'.toNat⟩, ?_, ?_, ?_⟩
            · simp only [wfProduct, hk, Bool.and_eq_true, decide_eq_true_eq, hu, hnm, true_and]
              have := n.toNat_lt; have := k'.toNat_lt
              refine ⟨⟨⟨⟨?_, ?_⟩, ?_⟩, ?_⟩, ?_⟩ <;> omega
            · simp only [encodeProduct, encodeLE2_decodeLE, hu, hnm, ofNat_toNat,
                encodeLE2_take _ (show 2 ≤ (r1.drop n.toNat).length by simp; omega),
                encodeLE2_take _ (show 2 ≤ ((r1.drop n.toNat).drop 2).length by simp; omega),
                List.cons_append, List.nil_append, List.append_assoc]
              have e5 : k' :: (r5.take k'.toNat ++ r5.drop k'.toNat) = ((r1.drop n.toNat).drop 2).drop 2 := by
                rw [List.take_append_drop, hr4]
              rw [e5, List.take_append_drop, List.take_append_drop, List.take_append_drop]
            · rfl

end PlumVerif.P2

import PlumVerif.Spec.C15
/-
Helper definitions and lemmas for C15: which dict entries lead to a refresh, which make the
callback raise, and the exact effect of one pass of `update_frame_versions`.
-/
namespace PlumVerif.C15

def keys (es : List Entry) : List Nat := es.map (·.1)

/-- the entry leads to a queued request -/
def refresh (s : St) (e : Entry) : Bool := needs s e && creatable e.1
/-- the entry makes `Request.create` raise -/
def trips (s : St) (e : Entry) : Bool := needs s e && !creatable e.1
/-- the entries the callback gets to look at -/
def live (s : St) (es : List Entry) : List Entry := es.takeWhile fun e => !trips s e

theorem takeWhile_congr' {α : Type} (p q : α → Bool) (l : List α) (h : ∀ x ∈ l, p x = q x) :
    l.takeWhile p = l.takeWhile q := by
  induction l with
  | nil => rfl
  | cons a l ih =>
    simp only [List.takeWhile_cons, h a (by simp)]
    rw [ih (fun x hx => h x (by simp [hx]))]

theorem takeWhile_all {α : Type} (p : α → Bool) (l : List α) (h : ∀ x ∈ l, p x = true) :
    l.takeWhile p = l := by
  induction l with
  | nil => rfl
  | cons a l ih =>
    simp only [List.takeWhile_cons, h a (by simp), if_true]
    rw [ih (fun x hx => h x (by simp [hx]))]

theorem any_congr' {α : Type} (p q : α → Bool) (l : List α) (h : ∀ x ∈ l, p x = q x) :
    l.any p = l.any q := by
  induction l with
  | nil => rfl
  | cons a l ih =>
    simp only [List.any_cons, h a (by simp)]
    rw [ih (fun x hx => h x (by simp [hx]))]

theorem recorded_record (s : St) (k v k' : Nat) :
    recorded (record s k v) k' = if k' == k then some v else recorded s k' := by
  simp only [recorded, record, List.lookup_cons]
  cases h : k' == k <;> rfl

theorem needs_record_ne (s : St) (k v : Nat) (e : Entry) (h : e.1 ≠ k) :
    needs (record s k v) e = needs s e := by
  have hb : (e.1 == k) = false := by simpa using h
  simp only [needs, recorded_record, hb]
  rfl

theorem lookup_none_of_not_mem (l : List Entry) (k : Nat) (h : k ∉ keys l) : l.lookup k = none := by
  induction l with
  | nil => rfl
  | cons a l ih =>
    obtain ⟨a1, a2⟩ := a
    simp only [keys, List.map_cons, List.mem_cons, not_or] at h
    have hb : (k == a1) = false := by simpa using h.1
    simp only [List.lookup_cons, hb]
    exact ih h.2

theorem keys_sublist_filter_takeWhile (p q : Entry → Bool) (l : List Entry) (k : Nat)
    (h : k ∉ keys l) : k ∉ keys ((l.takeWhile p).filter q) := by
  intro hk
  apply h
  simp only [keys, List.mem_map] at hk ⊢
  obtain ⟨e, he, rfl⟩ := hk
  exact ⟨e, (List.takeWhile_sublist p).subset (List.mem_filter.1 he).1, rfl⟩

theorem process_exact (s : St) (es : List Entry) (h : (keys es).Nodup) :
    (process s es).queued = ((live s es).filter (refresh s)).map (·.1) ∧
    (process s es).raised = es.any (trips s) ∧
    (process s es).st.unsupported = s.unsupported ∧
    ∀ k, recorded (process s es).st k =
      match ((live s es).filter (refresh s)).lookup k with
      | some v => some v
      | none => recorded s k := by
  induction es generalizing s with
  | nil => simp [process, live]
  | cons e r ih =>
    simp only [keys, List.map_cons, List.nodup_cons] at h
    obtain ⟨hne, hr⟩ := h
    by_cases hn : needs s e = true
    · by_cases hc : creatable e.1 = true
      · -- queued, recorded, continue
        have hrf : refresh s e = true := by simp [refresh, hn, hc]
        have htr : trips s e = false := by simp [trips, hc]
        obtain ⟨i1, i2, i3, i4⟩ := ih (record s e.1 e.2) hr
        have hkey : ∀ x ∈ r, x.1 ≠ e.1 := fun x hx he => hne (by
          simp only [List.mem_map]; exact ⟨x, hx, he⟩)
        have hlive : live (record s e.1 e.2) r = live s r := by
          apply takeWhile_congr'
          intro x hx; simp only [trips, needs_record_ne s e.1 e.2 x (hkey x hx)]
        have hfilt : (live s r).filter (refresh (record s e.1 e.2)) = (live s r).filter (refresh s) := by
          apply List.filter_congr
          intro x hx
          have : x ∈ r := (List.takeWhile_sublist _).subset hx
          simp only [refresh, needs_record_ne s e.1 e.2 x (hkey x this)]
        rw [hlive, hfilt] at i1 i4
        have hl : live s (e :: r) = e :: live s r := by simp [live, List.takeWhile_cons, htr]
        refine ⟨?_, ?_, ?_, ?_⟩
        · simp [process, hn, hc, hl, hrf, i1]
        · simp only [process, hn, hc, if_true, List.any_cons, htr, Bool.false_or]
          rw [i2]
          apply any_congr'
          intro x hx; simp only [trips, needs_record_ne s e.1 e.2 x (hkey x hx)]
        · simp only [process, hn, hc, if_true]; rw [i3]; rfl
        · intro k
          simp only [process, hn, hc, if_true, hl, List.filter_cons, hrf]
          rw [i4 k]
          obtain ⟨e1, e2⟩ := e
          simp only [List.lookup_cons, recorded_record]
          by_cases hk : (k == e1) = true
          · have hke : k = e1 := by simpa using hk
            subst hke
            have : ((live s r).filter (refresh s)).lookup k = none :=
              lookup_none_of_not_mem _ _ (keys_sublist_filter_takeWhile _ _ r k hne)
            simp [this]
          · have hk' : (k == e1) = false := by simpa using hk
            simp [hk']
      · -- Request.create raises
        have htr : trips s e = true := by simp [trips, hn, hc]
        have hl : live s (e :: r) = [] := by simp [live, List.takeWhile_cons, htr]
        simp [process, hn, hc, hl, htr]
    · -- nothing to do for this entry
      have hrf : refresh s e = false := by simp [refresh, hn]
      have htr : trips s e = false := by simp [trips, hn]
      obtain ⟨i1, i2, i3, i4⟩ := ih s hr
      have hl : live s (e :: r) = e :: live s r := by simp [live, List.takeWhile_cons, htr]
      simp only [process, hn, hl, List.filter_cons, hrf, List.any_cons, htr, Bool.false_or]
      exact ⟨i1, i2, i3, i4⟩

/-! ### the dict built from the wire pairs -/

theorem keys_dictSet (d : List Entry) (k v : Nat) :
    keys (dictSet d k v) = if k ∈ keys d then keys d else keys d ++ [k] := by
  induction d with
  | nil => simp [dictSet, keys]
  | cons a d ih =>
    obtain ⟨a1, a2⟩ := a
    by_cases ha : a1 = k
    · subst ha; simp [dictSet, keys]
    · have hb : (a1 == k) = false := by simpa using ha
      have hk : k ≠ a1 := fun h => ha h.symm
      simp only [dictSet, hb, Bool.false_eq_true, ↓reduceIte, keys, List.map_cons, List.mem_cons, hk, false_or] at ih ⊢
      rw [ih]
      by_cases hm : k ∈ List.map (fun x => x.fst) d <;> simp [hm]

theorem lookup_dictSet (d : List Entry) (k v k' : Nat) :
    (dictSet d k v).lookup k' = if k' == k then some v else d.lookup k' := by
  induction d with
  | nil => simp only [dictSet, List.lookup_cons, List.lookup_nil]; cases k' == k <;> rfl
  | cons a d ih =>
    obtain ⟨a1, a2⟩ := a
    by_cases ha : a1 = k
    · subst ha
      simp only [dictSet, beq_self_eq_true, if_true, List.lookup_cons]
      cases k' == a1 <;> rfl
    · have hb : (a1 == k) = false := by simpa using ha
      simp only [dictSet, hb, Bool.false_eq_true, ↓reduceIte, List.lookup_cons, ih]
      by_cases hk : k' = a1
      · subst hk
        have : (k' == k) = false := by simpa using ha
        simp [this]
      · have : (k' == a1) = false := by simpa using hk
        simp [this]

theorem dictSet_nodup (d : List Entry) (k v : Nat) (h : (keys d).Nodup) :
    (keys (dictSet d k v)).Nodup := by
  rw [keys_dictSet]
  by_cases hm : k ∈ keys d
  · simpa [hm] using h
  · simp only [hm, if_false]
    rw [List.nodup_append]
    exact ⟨h, by simp, fun a ha b hb => by simp at hb; subst hb; intro hab; exact hm (hab ▸ ha)⟩

theorem foldl_dictInsert_nodup (l d : List Entry) (h : (keys d).Nodup) :
    (keys (l.foldl dictInsert d)).Nodup := by
  induction l generalizing d with
  | nil => exact h
  | cons e l ih => exact ih _ (dictSet_nodup d e.1 e.2 h)

theorem dictOf_keys_nodup' (w : List Entry) : (keys (dictOf w)).Nodup :=
  foldl_dictInsert_nodup w [] (by simp [keys])

theorem lookup_append_singleton (l : List Entry) (e : Entry) (k : Nat) :
    (l ++ [e]).lookup k =
      match l.lookup k with
      | some v => some v
      | none => if k == e.1 then some e.2 else none := by
  induction l with
  | nil => obtain ⟨e1, e2⟩ := e; simp only [List.nil_append, List.lookup_cons, List.lookup_nil]; cases k == e1 <;> rfl
  | cons a l ihl =>
    obtain ⟨a1, a2⟩ := a
    simp only [List.cons_append, List.lookup_cons]
    cases k == a1
    · exact ihl
    · rfl

theorem dictOf_lookup' (w : List Entry) (k : Nat) : (dictOf w).lookup k = w.reverse.lookup k := by
  unfold dictOf
  suffices h : ∀ d : List Entry, (w.foldl dictInsert d).lookup k =
      match w.reverse.lookup k with | some v => some v | none => d.lookup k by
    rw [h []]; cases w.reverse.lookup k <;> rfl
  induction w with
  | nil => intro d; rfl
  | cons e w ih =>
    intro d
    simp only [List.foldl_cons, List.reverse_cons]
    rw [ih, dictInsert, lookup_dictSet, lookup_append_singleton]
    cases w.reverse.lookup k with
    | some v => rfl
    | none => cases k == e.1 <;> rfl


end PlumVerif.C15

import PlumVerif.Model.DeviceData
import PlumVerif.Proofs.DecodeSensors
/- helper lemmas for the device-level model (core Lean only) -/
namespace PlumVerif
namespace DevD
open Wire

theorem assocGet_assocSet {α : Type} (d : List (String × α)) (k k' : String) (v : α) :
    assocGet (assocSet d k v) k' = if k = k' then some v else assocGet d k' := by
  induction d with
  | nil => simp [assocSet, assocGet]
  | cons e r ih =>
    obtain ⟨a, b⟩ := e
    by_cases hak : a = k
    · subst hak
      by_cases hk : a = k' <;> simp [assocSet, assocGet, hk]
    · have h1 : (a == k) = false := by simpa using hak
      by_cases hk : a = k'
      · subst hk
        have : ¬ k = a := fun e => hak e.symm
        simp [assocSet, assocGet, h1, this]
      · simp [assocSet, assocGet, h1, hk, ih]

theorem assocGet_none_of_not_mem {α : Type} (d : List (String × α)) (k : String)
    (h : k ∉ d.map Prod.fst) : assocGet d k = none := by
  induction d with
  | nil => rfl
  | cons e r ih =>
    simp only [List.map_cons, List.mem_cons, not_or] at h
    have : (e.1 == k) = false := by simpa using fun e' => h.1 (e'.symm)
    simp [assocGet, this, ih h.2]

theorem assocGet_of_mem_nodup {α : Type} (d : List (String × α)) (k : String) (v : α)
    (hn : (d.map Prod.fst).Nodup) (hm : (k, v) ∈ d) : assocGet d k = some v := by
  induction d with
  | nil => simp at hm
  | cons e r ih =>
    simp only [List.map_cons, List.nodup_cons] at hn
    simp only [List.mem_cons] at hm
    cases hm with
    | inl h => subst h; simp [assocGet]
    | inr h =>
      have hne : ¬ e.1 = k := by
        intro e'
        exact hn.1 (e' ▸ List.mem_map_of_mem (f := Prod.fst) h)
      have : (e.1 == k) = false := by simpa using hne
      simp [assocGet, this, ih hn.2 h]

/-- the keys with a callback of their own -/
def special : List String :=
  ["mixer_sensors", "thermostat_sensors", "state", "frame_versions", "ecomax_control", "sensors"]

theorem set_data (d : Dev) (k : String) (v : Val) : (d.set k v).data = assocSet d.data k v := rfl

/-- an ordinary key is stored as dispatched, whatever else the same frame carries -/
theorem stepField_get (d : Dev) (kv : String × Val) (k0 : String) (h : k0 ∉ special) :
    assocGet (stepField d kv).data k0 = if kv.1 = k0 then some kv.2 else assocGet d.data k0 := by
  simp only [special, List.mem_cons, List.not_mem_nil, or_false, not_or] at h
  obtain ⟨h1, h2, h3, h4, h5, _⟩ := h
  unfold stepField
  by_cases c1 : kv.1 = "mixer_sensors"
  · have e : ¬ kv.1 = k0 := fun e => h1 (e ▸ c1)
    have e' : ¬ "mixer_sensors" = k0 := fun e => h1 e.symm
    simp only [c1, beq_self_eq_true, if_true]
    split <;> simp [set_data, assocGet_assocSet, e']
  · have b1 : (kv.1 == "mixer_sensors") = false := by simpa using c1
    simp only [b1, Bool.false_eq_true, if_false]
    by_cases c2 : kv.1 = "thermostat_sensors"
    · have e' : ¬ "thermostat_sensors" = k0 := fun e => h2 e.symm
      simp only [c2, beq_self_eq_true, if_true]
      split <;> simp [set_data, assocGet_assocSet, e']
    · have b2 : (kv.1 == "thermostat_sensors") = false := by simpa using c2
      simp only [b2, Bool.false_eq_true, if_false]
      by_cases c3 : kv.1 = "state"
      · have e1 : ¬ "state" = k0 := fun e => h3 e.symm
        have e2 : ¬ "ecomax_control" = k0 := fun e => h5 e.symm
        simp [c3, set_data, assocGet_assocSet, e1, e2]
      · have b3 : (kv.1 == "state") = false := by simpa using c3
        simp only [b3, Bool.false_eq_true, if_false]
        by_cases c4 : kv.1 = "frame_versions"
        · have e1 : ¬ "frame_versions" = k0 := fun e => h4 e.symm
          simp only [c4, beq_self_eq_true, if_true, dispatchVersions]
          split <;> simp [set_data, assocGet_assocSet, e1]
        · have b4 : (kv.1 == "frame_versions") = false := by simpa using c4
          simp [b4, set_data, assocGet_assocSet]

theorem foldl_stepField_get (fs : VFields) (k0 : String) (h : k0 ∉ special) :
    ∀ d : Dev, (fs.map Prod.fst).Nodup →
      assocGet (fs.foldl stepField d).data k0 =
        match assocGet fs k0 with
        | some v => some v
        | none => assocGet d.data k0 := by
  induction fs with
  | nil => intro d _; rfl
  | cons kv r ih =>
    intro d hn
    simp only [List.map_cons, List.nodup_cons] at hn
    simp only [List.foldl_cons, ih (stepField d kv) hn.2, stepField_get d kv k0 h]
    by_cases hk : kv.1 = k0
    · have hnone : assocGet r k0 = none := assocGet_none_of_not_mem r k0 (hk ▸ hn.1)
      simp [assocGet, hk, hnone]
    · have : (kv.1 == k0) = false := by simpa using hk
      simp [assocGet, hk, this]

/-- after a sensor-data frame an ordinary key holds the frame's value if the frame has it,
else what the device held before -/
theorem handleSensorFields_get (d : Dev) (fs : VFields) (k0 : String) (h : k0 ∉ special)
    (hn : (fs.map Prod.fst).Nodup) :
    assocGet (handleSensorFields d fs).data k0 =
      match assocGet fs k0 with
      | some v => some v
      | none => assocGet d.data k0 := by
  have hs : ¬ "sensors" = k0 := by
    intro e; apply h; rw [← e]; decide
  have := foldl_stepField_get fs k0 h { d with raised := false } hn
  unfold handleSensorFields
  dsimp only
  by_cases hr : (fs.foldl stepField { d with raised := false }).raised = true
  · rw [if_pos hr]; exact this
  · rw [if_neg hr, set_data, assocGet_assocSet, if_neg hs]; exact this

/-! ### frame versions: the decoded dict is the dict C15 consumes -/

theorem assocSet_eq_dictSet (d : List (Nat × Nat)) (k v : Nat) : assocSet d k v = C15.dictSet d k v := by
  induction d with
  | nil => rfl
  | cons e r ih => obtain ⟨a, b⟩ := e; simp [assocSet, C15.dictSet, ih]

theorem assocOf_eq_dictOf (ps : List (Nat × Nat)) : assocOf ps = C15.dictOf ps := by
  have hf : (fun (acc : List (Nat × Nat)) (kv : Nat × Nat) => assocSet acc kv.1 kv.2) = C15.dictInsert := by
    funext acc kv
    simp [C15.dictInsert, assocSet_eq_dictSet]
  show ps.foldl (fun acc kv => assocSet acc kv.1 kv.2) [] = ps.foldl C15.dictInsert []
  rw [hf]

theorem versionsOfVal_versionsVal (ps : List (Nat × Nat)) :
    versionsOfVal (Sens.versionsVal ps) = some (C15.dictOf ps) := by
  rw [← assocOf_eq_dictOf]
  simp only [Sens.versionsVal, Val.intDict, versionsOfVal, List.map_map, Val.nat,
    Int.ofNat_eq_natCast]
  generalize assocOf ps = l
  induction l with
  | nil => rfl
  | cons e r ih =>
    simp only [List.map_cons, List.mapM_cons, ih, Option.bind_eq_bind,
      Option.bind_some, Option.pure_def]
    simp [Function.comp]

end DevD
end PlumVerif

import PlumVerif.Proofs.EventsInv
import PlumVerif.Spec.C13
/-
C13: lemmas that tie the machine to the history of API calls and to what an observer sees
(for `C13.holds`).
-/
namespace PlumVerif.C13

/-! ### what `walk` never touches -/

theorem walk_static (sc : Nat → Script) (i name : Nat) (rest : List Sub) :
    ∀ (s : St) (val : Nat),
      (walk sc i name s rest val).subscribed = s.subscribed ∧ (walk sc i name s rest val).nSub = s.nSub ∧
      (walk sc i name s rest val).nUnsub = s.nUnsub ∧ (walk sc i name s rest val).nextSid = s.nextSid ∧
      (walk sc i name s rest val).nd = s.nd ∧ (walk sc i name s rest val).nw = s.nw ∧
      (walk sc i name s rest val).now = s.now ∧
      (∀ j, ((walk sc i name s rest val).w j).name = (s.w j).name ∧ ((walk sc i name s rest val).w j).timeout = (s.w j).timeout) := by
  induction rest with
  | nil => intro s val; simp [walk, storeSt]
  | cons u rest ih =>
    intro s val
    unfold walk
    split
    · exact ih (skipSt s i u) val
    · split
      · have := ih (invokeSt s i name u val) ((sc u.cb).ret.apply val)
        simpa [invokeSt] using this
      · simp [suspendSt, invokeSt]

/-! ### the plain part of a callback list -/

/-- the functions subscribed plainly, in subscription order -/
def plainProj (l : List Sub) : List Nat := (l.filter fun u => !u.once).map (·.cb)

theorem plainProj_append (l : List Sub) (u : Sub) :
    plainProj (l ++ [u]) = plainProj l ++ (if u.once then [] else [u.cb]) := by
  simp only [plainProj, List.filter_append, List.map_append, List.filter_cons, List.filter_nil]
  cases u.once <;> simp

theorem plainProj_dropSid_once (l : List Sub) (sid : Nat) (h : ∀ x ∈ l, x.sid = sid → x.once = true) :
    plainProj (dropSid l sid) = plainProj l := by
  simp only [plainProj, dropSid, List.filter_filter]
  congr 1
  apply List.filter_congr
  intro x hx
  by_cases e : x.sid = sid
  · have := h x hx e; simp [this]
  · simp [e]

theorem plainProj_findCb_none (l : List Sub) (cb : Nat) (h : findCb l cb = none) : cb ∉ plainProj l := by
  intro hm
  simp only [plainProj, List.mem_map, List.mem_filter] at hm
  obtain ⟨x, ⟨hx, hp⟩, hc⟩ := hm
  have := List.find?_eq_none.1 h x hx
  simp [hp, hc] at this

theorem plainProj_dropSid_found (l : List Sub) (cb : Nat) (u : Sub) (hnd : (l.map (·.sid)).Nodup)
    (h : findCb l cb = some u) : plainProj (dropSid l u.sid) = (plainProj l).erase cb := by
  induction l with
  | nil => simp [findCb] at h
  | cons a l ih =>
    simp only [List.map_cons, List.nodup_cons] at hnd
    by_cases hp : (!a.once && a.cb == cb) = true
    · -- `a` is the entry found
      have hau : a = u := by simpa [findCb, List.find?_cons, hp] using h
      subst hau
      have hl : dropSid l a.sid = l := dropSid_not_mem l a.sid (fun x hx hs => hnd.1 (by
        simp only [List.mem_map]; exact ⟨x, hx, hs⟩))
      have hd : dropSid (a :: l) a.sid = l := by
        simp only [dropSid, List.filter_cons, bne_self_eq_false, Bool.false_eq_true, if_false]; exact hl
      simp only [Bool.and_eq_true, Bool.not_eq_true', beq_iff_eq] at hp
      rw [hd]
      simp [plainProj, List.filter_cons, hp.1, hp.2]
    · have hp' : (!a.once && a.cb == cb) = false := by simpa using hp
      have hu : findCb l cb = some u := by simpa [findCb, List.find?_cons, hp'] using h
      have hul : u ∈ l := List.mem_of_find?_eq_some hu
      have hne : a.sid ≠ u.sid := fun e => hnd.1 (by simp only [List.mem_map]; exact ⟨u, hul, e.symm⟩)
      have hne' : (a.sid != u.sid) = true := by simpa using hne
      have hd : dropSid (a :: l) u.sid = a :: dropSid l u.sid := by simp [dropSid, List.filter_cons, hne']
      rw [hd]
      have ih' := ih hnd.2 hu
      by_cases ho : a.once = true
      · simp only [plainProj, List.filter_cons, ho, Bool.not_true, Bool.false_eq_true, if_false] at ih' ⊢
        exact ih'
      · have ho' : a.once = false := by simpa using ho
        have hcb : a.cb ≠ cb := by
          intro e; simp [ho', e] at hp'
        simp only [plainProj, List.filter_cons, ho', Bool.not_false, if_true, List.map_cons] at ih' ⊢
        rw [List.erase_cons_tail (by simpa using hcb)]
        rw [ih']


theorem walk_plainProj (sc : Nat → Script) (i name : Nat) (rest : List Sub) :
    ∀ (s : St) (val : Nat), InvS s → (s.d i).name = name → (s.d i).ph.started = true →
      (∀ x ∈ rest, (name, x) ∈ s.subscribed) →
      ∀ n, plainProj ((walk sc i name s rest val).subs n) = plainProj (s.subs n) := by
  induction rest with
  | nil => intro s val _ _ _ _ n; rfl
  | cons u rest ih =>
    intro s val h hname hst hsub n
    unfold walk
    split
    · have b := invS_updD s h i { s.d i with trail := (s.d i).trail ++ [(u, none)] } rfl rfl rfl rfl rfl hst hst
        (fun r u' k v hp x hx => h.restSub i r u' k v hp x hx)
      exact ih (skipSt s i u) val b (by simpa [skipSt] using hname) (by simpa [skipSt] using hst)
        (fun x hx => hsub x (by simp [hx])) n
    · have hI := invS_invoke s h i name u val hname (hsub u (by simp)) hst
      have hname' : ((invokeSt s i name u val).d i).name = name := by simpa [invokeSt] using hname
      have hst' : ((invokeSt s i name u val).d i).ph.started = true := by simpa [invokeSt] using hst
      have hsub' : ∀ x ∈ rest, (name, x) ∈ (invokeSt s i name u val).subscribed :=
        fun x hx => hsub x (by simp [hx])
      have hproj : plainProj ((invokeSt s i name u val).subs n) = plainProj (s.subs n) := by
        simp only [invokeSt]
        by_cases ho : u.once = true
        · simp only [ho, if_true]
          by_cases e : n = name
          · subst e
            simp only [upd_same]
            apply plainProj_dropSid_once
            intro x hx hs
            have := subscribed_inj s h (n, x) (n, u) (h.liveSub n x hx) (hsub u (by simp)) hs
            have hxu : x = u := by injection this
            rw [hxu]; exact ho
          · simp only [upd_other _ _ _ _ e]
        · simp [ho]
      split
      · rw [ih _ _ hI hname' hst' hsub' n, hproj]
      · simp only [suspendSt]; exact hproj

/-! ### the snapshot of a started task consists of recorded subscriptions of its name -/

def InvSnap (s : St) : Prop :=
  ∀ i, (s.d i).ph.started = true → ∀ x ∈ (s.d i).snapshot, ((s.d i).name, x) ∈ s.subscribed

theorem invSnap_init : InvSnap init := by intro i h; simp [init, DPhase.started] at h

theorem walk_started (sc : Nat → Script) (i name : Nat) (rest : List Sub) (s : St) (val : Nat) :
    ((walk sc i name s rest val).d i).ph.started = true := by
  rcases (walk_self sc i name rest s val).2.2.2.2 with ⟨r, u, k, v, hp⟩ | ⟨f, hp, _⟩ <;> rw [hp] <;> rfl

theorem invSnap_walk (sc : Nat → Script) (i name : Nat) (rest : List Sub) (s : St) (val : Nat)
    (h : InvSnap s) (hst : (s.d i).ph.started = true) : InvSnap (walk sc i name s rest val) := by
  intro j hj x hx
  rw [(walk_static sc i name rest s val).1]
  by_cases e : j = i
  · subst e
    have ws := walk_self sc j name rest s val
    rw [ws.1] at hx; rw [ws.2.2.1]
    exact h j hst x hx
  · rw [(walk_frame sc i name rest s val).1 j e] at hj hx ⊢
    exact h j hj x hx

theorem invSnap_apply (sc : Nat → Script) (s : St) (h : InvSnap s) (hS : InvS s) (hA : InvA s) (e : Ev) :
    InvSnap (apply sc s e) := by
  cases e with
  | subscribe n cb => intro i hi x hx; exact List.mem_append_left _ (h i hi x hx)
  | subscribeOnce n cb => intro i hi x hx; exact List.mem_append_left _ (h i hi x hx)
  | unsubCb n cb => simp only [apply]; split <;> exact h
  | unsubOnce n sid => simp only [apply]; split <;> exact h
  | spawnDispatch n v =>
    intro i hi x hx
    by_cases e : i = s.nd
    · subst e; simp [apply, DPhase.started] at hi
    · simp only [apply, upd_other _ _ _ _ e] at hi hx ⊢; exact h i hi x hx
  | spawnWait n to => exact h
  | stepD i =>
    simp only [apply, stepD]
    split
    · rename_i hph
      apply invSnap_walk _ _ _ _ _ _ _ (by simp [DPhase.started])
      intro j hj x hx
      by_cases e : j = i
      · subst e; simp only [upd_same] at hx ⊢; exact hS.liveSub _ x hx
      · simp only [upd_other _ _ _ _ e] at hj hx ⊢; exact h j hj x hx
    · rename_i rest u k val hph
      intro j hj x hx
      by_cases e : j = i
      · subst e; simp only [upd_same] at hx ⊢; exact h j (by rw [hph]; rfl) x hx
      · simp only [upd_other _ _ _ _ e] at hj hx ⊢; exact h j hj x hx
    · rename_i rest u val hph
      apply invSnap_walk _ _ _ _ _ _ _ (by simp [DPhase.started])
      intro j hj x hx
      by_cases e : j = i
      · subst e; simp only [upd_same] at hx ⊢; exact h j (by rw [hph]; rfl) x hx
      · simp only [upd_other _ _ _ _ e] at hj hx ⊢; exact h j hj x hx
    · exact h
  | stepW j =>
    simp only [apply, stepW]
    split
    · split
      · exact h
      · split <;> exact h
    · exact h
    · exact h
  | advance t => simp only [apply, advance]; split <;> exact h

theorem invSnap_step (sc : Nat → Script) (s : St) (h : InvSnap s) (hS : InvS s) (hA : InvA s) (e : Ev) :
    InvSnap (step sc s e) := invSnap_apply sc s h hS hA e

/-! ### a finished dispatch never changes again -/

theorem apply_done_stable (sc : Nat → Script) (s : St) (hC : InvC s) (e : Ev) (i f : Nat)
    (h : (s.d i).ph = .done f) : (apply sc s e).d i = s.d i := by
  cases e with
  | subscribe n cb => rfl
  | subscribeOnce n cb => rfl
  | unsubCb n cb => simp only [apply]; split <;> rfl
  | unsubOnce n sid => simp only [apply]; split <;> rfl
  | spawnDispatch n v =>
    have : i ≠ s.nd := fun e => by
      have := hC.dAbsent s.nd (Nat.le_refl _); rw [← e, h] at this; simp at this
    simp only [apply, upd_other _ _ _ _ this]
  | spawnWait n to => rfl
  | stepD j =>
    simp only [apply, stepD]
    by_cases e : j = i
    · subst e; simp [h]
    · have e' : i ≠ j := fun x => e x.symm
      split
      · rw [(walk_frame sc j _ _ _ _).1 i e']; simp [upd_other _ _ _ _ e']
      · simp [upd_other _ _ _ _ e']
      · rw [(walk_frame sc j _ _ _ _).1 i e']; simp [upd_other _ _ _ _ e']
      · rfl
  | stepW j =>
    simp only [apply, stepW]
    split
    · split
      · rfl
      · split <;> rfl
    · rfl
    · rfl
  | advance t => simp only [apply, advance]; split <;> rfl


/-! ### when stored data changes -/

theorem walk_data (sc : Nat → Script) (i name : Nat) (rest : List Sub) :
    ∀ (s : St) (val : Nat),
      ((walk sc i name s rest val).data = s.data ∧ isDone ((walk sc i name s rest val).d i) = false) ∨
      (∃ f, ((walk sc i name s rest val).d i).ph = .done f ∧
        (walk sc i name s rest val).data = upd s.data name (some f)) := by
  induction rest with
  | nil => intro s val; right; exact ⟨val, by simp [walk, storeSt], by simp [walk, storeSt]⟩
  | cons u rest ih =>
    intro s val
    unfold walk
    split
    · exact ih (skipSt s i u) val
    · split
      · have := ih (invokeSt s i name u val) ((sc u.cb).ret.apply val)
        simpa [invokeSt] using this
      · left; simp [suspendSt, invokeSt, isDone]

/-- what one move of dispatch task `i` does to tasks and stored data -/
theorem stepD_effect (sc : Nat → Script) (s : St) (i : Nat) :
    (∀ j, j ≠ i → (stepD sc s i).d j = s.d j) ∧ ((stepD sc s i).d i).name = (s.d i).name ∧
    (((stepD sc s i).data = s.data ∧ isDone ((stepD sc s i).d i) = isDone (s.d i)) ∨
     (∃ f, isDone (s.d i) = false ∧ ((stepD sc s i).d i).ph = .done f ∧
        (stepD sc s i).data = upd s.data (s.d i).name (some f))) := by
  unfold stepD
  split
  · rename_i hph
    refine ⟨fun j hj => by rw [(walk_frame sc i _ _ _ _).1 j hj]; simp [upd_other _ _ _ _ hj],
      by rw [(walk_self sc i _ _ _ _).2.2.1]; simp, ?_⟩
    rcases walk_data sc i (s.d i).name (s.subs (s.d i).name)
      { s with d := upd s.d i { s.d i with snapshot := s.subs (s.d i).name, startedAt := s.clock, ph := .running } }
      (s.d i).init with ⟨h1, h2⟩ | ⟨f, h1, h2⟩
    · left; exact ⟨h1, by rw [h2]; simp [isDone, hph]⟩
    · right; exact ⟨f, by simp [isDone, hph], h1, h2⟩
  · rename_i rest u k val hph
    exact ⟨fun j hj => by simp [upd_other _ _ _ _ hj], by simp, Or.inl ⟨rfl, by simp [isDone, hph]⟩⟩
  · rename_i rest u val hph
    refine ⟨fun j hj => by rw [(walk_frame sc i _ _ _ _).1 j hj]; simp [upd_other _ _ _ _ hj],
      by rw [(walk_self sc i _ _ _ _).2.2.1]; simp, ?_⟩
    rcases walk_data sc i (s.d i).name rest { s with d := upd s.d i { s.d i with ph := .running } }
      ((sc u.cb).ret.apply val) with ⟨h1, h2⟩ | ⟨f, h1, h2⟩
    · left; exact ⟨h1, by rw [h2]; simp [isDone, hph]⟩
    · right; exact ⟨f, by simp [isDone, hph], h1, h2⟩
  · exact ⟨fun _ _ => rfl, rfl, Or.inl ⟨rfl, rfl⟩⟩

theorem stepW_effect (s : St) (j : Nat) : (stepW s j).d = s.d ∧ (stepW s j).data = s.data := by
  unfold stepW
  split
  · split
    · exact ⟨rfl, rfl⟩
    · split <;> exact ⟨rfl, rfl⟩
  · exact ⟨rfl, rfl⟩
  · exact ⟨rfl, rfl⟩

/-- how stored data moved between two states `s` and `s'` of one loop run: per name, either
nothing changed and no dispatch of that name finished, or the value is the final value of a
dispatch of that name that finished in between -/
structure DataRel (s s' : St) : Prop where
  names : ∀ i, (s'.d i).name = (s.d i).name
  stable : ∀ i f, (s.d i).ph = .done f → (s'.d i).ph = .done f
  perName : ∀ n, (s'.data n = s.data n ∧ ∀ i, (s.d i).name = n → isDone (s'.d i) = isDone (s.d i)) ∨
    (∃ j f, (s.d j).name = n ∧ isDone (s.d j) = false ∧ (s'.d j).ph = .done f ∧ s'.data n = some f)

theorem dataRel_refl (s : St) : DataRel s s :=
  ⟨fun _ => rfl, fun _ _ h => h, fun _ => Or.inl ⟨rfl, fun _ _ => rfl⟩⟩

theorem isDone_of_done {t : DTask} {f : Nat} (h : t.ph = .done f) : isDone t = true := by simp [isDone, h]

theorem dataRel_stepD (sc : Nat → Script) (s s1 : St) (h : DataRel s s1) (i : Nat) :
    DataRel s (step sc s1 (.stepD i)) := by
  obtain ⟨e1, e2, e3⟩ := stepD_effect sc s1 i
  have hd : ∀ j, (step sc s1 (.stepD i)).d j = (stepD sc s1 i).d j := fun _ => rfl
  have hdata : (step sc s1 (.stepD i)).data = (stepD sc s1 i).data := rfl
  have stab1 : ∀ j f, (s1.d j).ph = .done f → ((stepD sc s1 i).d j).ph = .done f := by
    intro j f hj
    by_cases e : j = i
    · subst e
      rcases e3 with ⟨_, h2⟩ | ⟨f', h2, _, _⟩
      · -- a finished task is not moved
        have : stepD sc s1 j = s1 := by simp [stepD, hj]
        rw [this]; exact hj
      · rw [isDone_of_done hj] at h2; simp at h2
    · rw [e1 j e]; exact hj
  constructor
  · intro j
    rw [hd]
    by_cases e : j = i
    · subst e; rw [e2]; exact h.names j
    · rw [e1 j e]; exact h.names j
  · intro j f hj; rw [hd]; exact stab1 j f (h.stable j f hj)
  · intro n
    rw [hdata]
    rcases e3 with ⟨d1, d2⟩ | ⟨f, d1, d2, d3⟩
    · -- nothing stored in this move
      rcases h.perName n with ⟨p1, p2⟩ | ⟨j, f, p1, p2, p3, p4⟩
      · left
        refine ⟨by rw [d1]; exact p1, fun j hj => ?_⟩
        rw [hd]
        by_cases e : j = i
        · subst e; rw [d2]; exact p2 j hj
        · rw [e1 j e]; exact p2 j hj
      · right; exact ⟨j, f, p1, p2, by rw [hd]; exact stab1 j f p3, by rw [d1]; exact p4⟩
    · -- task i finished and stored f under its name
      by_cases en : (s1.d i).name = n
      · right
        refine ⟨i, f, by rw [← h.names i]; exact en, ?_, by rw [hd]; exact d2, by rw [d3, ← en]; simp⟩
        cases hdi : isDone (s.d i) with
        | false => rfl
        | true =>
          have : ∃ f', (s.d i).ph = .done f' := by
            unfold isDone at hdi; split at hdi
            · rename_i f' hf; exact ⟨f', hf⟩
            · simp at hdi
          obtain ⟨f', hf'⟩ := this
          rw [isDone_of_done (h.stable i f' hf')] at d1; simp at d1
      · have hother : ((stepD sc s1 i).data n) = s1.data n := by
          rw [d3]; exact upd_other _ _ _ _ (fun e => en e.symm)
        rcases h.perName n with ⟨p1, p2⟩ | ⟨j, f', p1, p2, p3, p4⟩
        · left
          refine ⟨by rw [hother]; exact p1, fun j hj => ?_⟩
          rw [hd]
          have e : j ≠ i := fun e => en (by rw [← e, h.names j]; exact hj)
          rw [e1 j e]; exact p2 j hj
        · right; exact ⟨j, f', p1, p2, by rw [hd]; exact stab1 j f' p3, by rw [hother]; exact p4⟩

theorem dataRel_same (sc : Nat → Script) (s s1 s2 : St) (h : DataRel s s1) (hd : s2.d = s1.d) (hdata : s2.data = s1.data) :
    DataRel s s2 :=
  ⟨fun i => by rw [hd]; exact h.names i, fun i f hi => by rw [hd]; exact h.stable i f hi,
    fun n => by rw [hd, hdata]; exact h.perName n⟩

end PlumVerif.C13

import PlumVerif.Model.FrameDriver
/-
Line-protocol driver: one request per line on stdin, one answer per line on
stdout.  Unknown or ill-formed requests answer `bad-op`; nothing is defaulted.
-/
open PlumVerif

def handlers : List (List String → Option String) := [frameOps]

def answer (line : String) : String :=
  let ws := (line.splitOn " ").filter (· ≠ "")
  match handlers.findSome? (· ws) with
  | some r => r
  | none => "bad-op"

partial def loop (inp : IO.FS.Stream) (out : IO.FS.Stream) : IO Unit := do
  let line ← inp.getLine
  if line.isEmpty then return ()
  out.putStrLn (answer (line.trimAscii.toString))
  out.flush
  loop inp out

def main : IO Unit := do loop (← IO.getStdin) (← IO.getStdout)

import PlumVerif.Props.TieStructParams
open PlumVerif PlumVerif.Py PlumVerif.TieParams PlumVerif.TieStructParams

def descs : List V := match PyCode.c_THERMOSTAT_PARAMETERS with | .tuple xs => xs | _ => []

theorem thermo_sizes_tbl :
    descs.map (fun d => Py.getattr d "size") = Gen.thermostat.map (fun r => (.ok (.int (r.size : Nat)) : PyM V)) := by
  rfl

theorem floordiv_nat (a T : Nat) (h : T ≠ 0) :
    Py.floordiv (.int (a : Int)) (.int (T : Int)) = .ok (.int ((a / T : Nat) : Int)) := by
  have h1 : ¬ ((T : Int) = 0) := by omega
  simp [Py.floordiv, asInt?, h1, Int.fdiv_eq_ediv_of_nonneg]
